(* C15 — diagnosis of the generated-table obligations: the offending entries by name (no proof involved). *)
From Coq Require Import String List ZArith Bool.
From V Require Import Model.C15_Config Model.C15_Valid Gen.ConfigSchemas Gen.ConfigValidators.
Import ListNotations.
Open Scope string_scope.

Definition diag_schema_coherent := Eval vm_compute in flat_map schema_diag all_schemas.
Print diag_schema_coherent.

Definition diag_default_valid := Eval vm_compute in
  flat_map (fun S => if validator_of (sname S) (fun _ => true) (cget S (defaults S)) then [] else [sapp "default invalid: " (sname S)]) all_schemas.
Print diag_default_valid.

(* sections whose translated Validate() is not the model's validator: the clauses that differ *)
Definition diag_validators_source_is_model := Eval vm_compute in
  flat_map (fun S => match assoc_get (sname S) gen_clause_table, assoc_get (sname S) model_clauses with
                     | Some g, Some m => clause_diag (sname S) g m
                     | None, _ => [sapp "no translated Validate() for section " (sname S)]
                     | _, None => [sapp "no model clauses for section " (sname S)] end) all_schemas.
Print diag_validators_source_is_model.

Definition diag_customs_pinned := Eval vm_compute in
  flat_map (fun S => flat_map (fun '(id, h) => match assoc_get id expected_custom_hash with
                     | Some e => if String.eqb e h then [] else [sapp "custom rule source changed: " (sapp id (sapp " now " h))]
                     | None => [sapp "rule not followed by the translator and not transcribed: " (sapp id (sapp " hash " h))] end) (scustom_hashes S)) all_schemas.
Print diag_customs_pinned.

Definition size_sections := Eval vm_compute in length all_schemas.
Print size_sections.
Definition size_members := Eval vm_compute in length (flat_map sfields all_schemas).
Print size_members.
Definition size_validate_clauses := Eval vm_compute in length (flat_map snd gen_clause_table).
Print size_validate_clauses.
