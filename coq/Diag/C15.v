(* C15 — diagnosis of the generated-table obligations: the offending entries by name (no proof involved). *)
From Coq Require Import String List ZArith Bool.
From V Require Import Model.C15_Config Model.C15_Valid Model.C15_Custom Gen.ConfigSchemas Gen.ConfigValidators Gen.ConfigCustoms.
Import ListNotations.
Open Scope string_scope.

Definition diag_schema_coherent := Eval vm_compute in flat_map schema_diag all_schemas.
Print diag_schema_coherent.

Definition diag_default_valid := Eval vm_compute in
  flat_map (fun S => if validator_of (sname S) (fun _ => true) (cget S (defaults S)) then [] else [sapp "default invalid: " (sname S)]) all_schemas.
Print diag_default_valid.

(* sections whose translated Validate() is not the model's validator: the clauses that differ *)
Definition diag_validators_source_is_model := Eval vm_compute in
  flat_map (fun S => match assoc_get (sname S) gen_clause_table, assoc_get (sname S) model_clauses with
                     | Some g, Some m => clause_diag (sname S) g m
                     | None, _ => [sapp "no translated Validate() for section " (sname S)]
                     | _, None => [sapp "no model clauses for section " (sname S)] end) all_schemas.
Print diag_validators_source_is_model.

Definition diag_customs_pinned := Eval vm_compute in
  flat_map (fun S => flat_map (fun '(id, h) =>
      if custom_translated gen_custom_rules id then [] else
      match cr_get id gen_custom_rules, cr_get id model_custom_rules with
      | Some r, Some r' => [String.concat "" ["custom rule "; id; ": the source has `"; show_crule r; "`, the model `"; show_crule r'; "`"]]
      | Some r, None => [String.concat "" ["custom rule "; id; ": translated from the source (`"; show_crule r; "`) but the model has no rule for it"]]
      | None, _ =>
          match assoc_get id expected_custom_hash with
          | Some e => if String.eqb e h then [] else [sapp "custom rule source changed: " (sapp id (sapp " now " h))]
          | None => (sapp "rule not followed by the translator and not transcribed: " (sapp id (sapp " hash " h))) :: gen_custom_notes end
      end) (scustom_hashes S)) all_schemas.
Print diag_customs_pinned.

Definition size_sections := Eval vm_compute in length all_schemas.
Print size_sections.
Definition size_members := Eval vm_compute in length (flat_map sfields all_schemas).
Print size_members.
Definition size_validate_clauses := Eval vm_compute in length (flat_map snd gen_clause_table).
Print size_validate_clauses.
Definition size_custom_rules_translated := Eval vm_compute in length gen_custom_rules.
Print size_custom_rules_translated.
