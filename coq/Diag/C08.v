(* C08 — diagnosis of the obligations on regenerated tables: the concrete offending entries, independent of any proof. *)
From V Require Import Base.Common Base.C08_Str Gen.C08Status Model.C08_Status Base.C08_Schema Gen.C08Tags Model.C08_Codec Model.C08_Fmap Model.C08_Reuse.
Open Scope string_scope.
Open Scope list_scope.
Open Scope N_scope.

(* names must be non-empty, free of "," and " ", pairwise distinct; values distinct and made of the bits 2..4096 *)
Definition diag_status_table_wellformed := Eval vm_compute in
  map snd (filter (fun e => has_char comma (snd e) || has_char " "%char (snd e) || String.eqb (snd e) ""
                            || negb (N.land (fst e) st_defined_bits =? fst e)
                            || (1 <? N.of_nat (length (filter (fun f => String.eqb (snd f) (snd e) || (fst f =? fst e)) st_table)))) st_table)
  ++ (if forallb (fun k => existsb (fun e => fst e =? 2 ^ k) st_table) (map N.of_nat (seq 1 12)) then [] else ["<a single-bit status has no name>"]).
Print diag_status_table_wellformed.

(* masks of defined bits whose String() form does not parse back to the mask (shown by their string form) *)
Definition diag_status_names_roundtrip := Eval vm_compute in
  map (fun m => status_string st_table m)
      (firstn 8 (filter (fun m => st_valid_mask m && negb (status_from_string (status_string st_table m) =? m))
                        (map N.of_nat (seq 0 (N.to_nat 8192))))).
Print diag_status_names_roundtrip.

Definition size_status_table := Eval vm_compute in length st_table.
Print size_status_table.

(* structs of the tag table that break the premise of the codec theorem (duplicate key, "-" field, unknown or by-value
   struct field type), per codec *)
Definition diag_tags_msgpack_wellformed := Eval vm_compute in
  map fst (filter (fun e => negb (struct_ok Msgpack api_schema (snd e))) api_schema)
  ++ (if snodup (map fst api_schema) then [] else ["<two structs with the same name>"]).
Print diag_tags_msgpack_wellformed.
Definition diag_tags_json_wellformed := Eval vm_compute in
  map fst (filter (fun e => negb (struct_ok Json api_schema (snd e))) api_schema).
Print diag_tags_json_wellformed.
Definition size_tag_table := Eval vm_compute in length api_schema.
Print size_tag_table.

(* the LogOp rows regenerated from consensus/raft/log_op.go: the encodable fields must be TagCtx, Cid, Type (in that order, as
   logop_val lays them out) with distinct keys and known types; every field left undescribed (the span context) must be
   `omitempty`; the Pin rows must be exactly the fifteen fields pin_to_val lays out (in any order) *)
Definition diag_raft_logop_table_wellformed := Eval vm_compute in
  (if list_eqb String.eqb (map f_go raft_logop_fields) ["TagCtx"; "Cid"; "Type"] then [] else "<LogOp fields>" :: map f_go raft_logop_fields)
  ++ map fst (filter (fun e : string * bool => negb (snd e)) raft_logop_opaque)
  ++ (if struct_ok Msgpack raft_schema raft_logop_fields then [] else ["<LogOp keys / types>"])
  ++ (if pin_layout_ok then [] else ["<Pin fields: not exactly the fifteen the model lays out>"])
  ++ (if snodup (map fst raft_schema) then [] else ["<LogOp is also a struct of the api table>"]).
Print diag_raft_logop_table_wellformed.
