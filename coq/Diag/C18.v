(* C18 — diagnosis of the generated-table obligations: the concrete offending entries, printed without
   depending on any proof. The runner turns every non-empty list into a counterexample VIOLATION. *)
From V Require Import Model.C18_Table Model.C18_Exempt Gen.Locksets.

Definition diag_discipline_holds := Eval vm_compute in map show_access (offending exemptions accesses).
Print diag_discipline_holds.
Definition diag_accessors_atomic := Eval vm_compute in torn_accessors exemptions accesses accessors.
Print diag_accessors_atomic.
Definition diag_lock_order_acyclic := Eval vm_compute in bad_edges nesting.
Print diag_lock_order_acyclic.
Definition diag_no_lock_leaks := Eval vm_compute in map show_leak leaks.
Print diag_no_lock_leaks.
Definition diag_table_covers_guards := Eval vm_compute in uncovered tracked locks accesses.
Print diag_table_covers_guards.
Definition size_accesses := Eval vm_compute in length accesses.
Print size_accesses.
Definition size_nesting := Eval vm_compute in length nesting.
Print size_nesting.
Definition diag_wait_graph_acyclic := Eval vm_compute in wait_cycles nesting waits covers.
Print diag_wait_graph_acyclic.
Definition diag_table_covers_waits := Eval vm_compute in wait_uncovered waits members.
Print diag_table_covers_waits.
Definition diag_waited_goroutines_always_started := Eval vm_compute in unstarted launches closers chan_waits.
Print diag_waited_goroutines_always_started.
Definition size_launches := Eval vm_compute in length launches.
Print size_launches.
Definition diag_untracked_shared_fields := Eval vm_compute in map show_shared (untracked_shared shared_exemptions shared_untracked).
Print diag_untracked_shared_fields.
Definition size_waits := Eval vm_compute in length waits.
Print size_waits.
Definition size_covers := Eval vm_compute in length covers.
Print size_covers.
Definition size_wait_edges := Eval vm_compute in length (wait_edges nesting waits covers).
Print size_wait_edges.
