(* C04 — diagnosis of the guard-chain obligation: the steps of the translated source that are not the model's, by position,
   with the source text of the step (no proof involved). *)
From V Require Import Base.Common Model.C04_ClusterOps Model.C04_Guards Gen.C04Guards.
From Coq Require Import String.
Open Scope string_scope.

Fixpoint sget {A} (k : string) (l : list (string * A)) : option A :=
  match l with [] => None | (k', v) :: r => if String.eqb k k' then Some v else sget k r end.

Definition diag_c04_guards_source_is_model := Eval vm_compute in
  flat_map (fun fm : string * list gstep =>
    match sget (fst fm) gen_guard_table with
    | Some g => steps_diag (fst fm) (match sget (fst fm) gen_guard_names with Some n => n | None => [] end) g (snd fm)
    | None => [String.append "no translated guard chain for " (fst fm)] end) model_guard_table.
Print diag_c04_guards_source_is_model.

Definition size_guard_steps := Eval vm_compute in List.length (flat_map snd gen_guard_table).
Print size_guard_steps.
