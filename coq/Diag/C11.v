(* C11 — diagnosis of the generated-table obligations: prints the offending entries (no proofs involved). *)
From V Require Import Base.Common Base.C11_Http Gen.RestRoutes Gen.RestClient Model.C11_Rest.
Open Scope string_scope.
Open Scope list_scope.

(* every sendResponse with an explicit error status is followed by a return (handlers and parse helpers) *)
Definition diag_rest_error_sites_return := Eval vm_compute in
  flat_map (fun f => let '(n, _, _, sites) := f in if forallb (fun b => b) sites then [] else [n]) rest_funcs.
Print diag_rest_error_sites_return.

Definition diag_rest_handlers_known := Eval vm_compute in
  flat_map (fun r => let '(n, _, _, h) := r in match rhandler_of_name h with RUnknown => [n] | _ => [] end) rest_routes.
Print diag_rest_handlers_known.

Definition size_rest_routes := Eval vm_compute in List.length rest_routes.
Print size_rest_routes.
Definition size_client_requests := Eval vm_compute in List.length client_requests.
Print size_client_requests.
