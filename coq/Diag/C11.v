(* C11 — diagnosis of the generated-table obligations: prints the offending entries (no proofs involved). *)
From V Require Import Base.Common Base.C11_Http Gen.RestRoutes Gen.RestClient Model.C11_Rest Model.C11_Check Model.C11_Tables.
Open Scope string_scope.
Open Scope list_scope.

(* every sendResponse with an explicit error status is followed by a return (handlers and parse helpers) *)
Definition diag_rest_error_sites_return := Eval vm_compute in
  flat_map (fun f => let '(n, _, _, sites) := f in if forallb (fun b => b) sites then [] else [n]) rest_funcs.
Print diag_rest_error_sites_return.

Definition diag_rest_handlers_known := Eval vm_compute in
  flat_map (fun r => let '(n, _, _, h) := r in match rhandler_of_name h with RUnknown => [n] | _ => [] end) rest_routes.
Print diag_rest_handlers_known.

(* routes(): entries that differ from the hand-written route_spec (rest_table_spec) *)
Definition diag_rest_routes_table := Eval vm_compute in routes_diff rest_routes route_spec.
Print diag_rest_routes_table.

(* routes whose handler's RPC call sites are not the ones the route name denotes (rest_route_ops) *)
Definition diag_rest_route_ops := Eval vm_compute in
  flat_map (fun r : string * string * string * string => if route_ops_okb r && route_model_okb r then [] else [fst (fst (fst r))]) rest_routes.
Print diag_rest_route_ops.

(* the handler chain of NewAPIWithHost (rest_chain_spec): auth outermost, then CORS, then the router *)
Definition diag_rest_chain := Eval vm_compute in
  if list_eqb String.eqb rest_handler_chain ["basicAuthHandler"; "cors.New.Handler"; "router"]
     && list_eqb String.eqb rest_server_handler ["handlers.LoggingHandler"; "handler"] && rest_strict_slash
     && String.eqb rest_not_found "notFoundHandler" && list_eqb String.eqb rest_registration ["Methods"; "Path"; "Name"; "Handler"]
  then [] else rest_handler_chain ++ rest_server_handler ++ [rest_not_found] ++ rest_registration.
Print diag_rest_chain.

(* client methods whose request differs from the hand-written table, or that the model does not know (client_table_spec) *)
Definition diag_client_table := Eval vm_compute in client_diff.
Print diag_client_table.

Definition size_rest_routes := Eval vm_compute in List.length rest_routes.
Print size_rest_routes.
Definition size_client_requests := Eval vm_compute in List.length client_requests.
Print size_client_requests.
