(* C12 — diagnosis of the generated-table obligations: prints the offending entries (no proofs involved). *)
From V Require Import Base.Common Base.C11_Http Gen.ProxyRoutes Model.C12_Proxy Model.C12_Check Model.C12_Tables.
Open Scope string_scope.
Open Scope list_scope.

(* every ipfsErrorResponder call of a hijack handler is followed by a return *)
Definition diag_proxy_error_sites_return := Eval vm_compute in
  flat_map (fun hs => if forallb (fun b => b) (snd hs) then [] else [fst hs]) handler_error_sites.
Print diag_proxy_error_sites_return.

(* every routed handler is one the model knows *)
Definition diag_proxy_handlers_known := Eval vm_compute in
  flat_map (fun r => let '(n, _, h, _) := r in match handler_of_name h with HUnknown => [n] | _ => [] end) hijack_routes.
Print diag_proxy_handlers_known.

(* hijack routes: real differences from the hand-written spec_paths (proxy_table_spec): a route on one side only, or two routes
   that can match a common path and are registered in the opposite order; a reorder of routes that are apart gives [] *)
Definition diag_proxy_routes_table := Eval vm_compute in croutes_diff (compile_routes hijack_prefix hijack_routes) (expand spec_paths).
Print diag_proxy_routes_table.

Definition size_proxy_routes := Eval vm_compute in List.length hijack_routes.
Print size_proxy_routes.
