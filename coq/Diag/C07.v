(* C07 — offending entries of the generated tables, obligation by obligation (no proof is imported:
   this file compiles whatever the tables say). A non-empty list is reported as a counterexample. *)
From Coq Require Import String.
From V Require Import Base.Common Base.Rpc Model.C07_Auth Model.C07_Spec Model.C07_Tables Gen.Policy Gen.RPCMethods.
Open Scope string_scope.

Definition diag_policy_total := Eval vm_compute in bad_policy_total.
Print diag_policy_total.
Definition diag_policy_no_unknown := Eval vm_compute in bad_policy_no_unknown.
Print diag_policy_no_unknown.
Definition diag_policy_keys_unique := Eval vm_compute in bad_policy_keys_unique.
Print diag_policy_keys_unique.
Definition diag_untrusted_only_open := Eval vm_compute in bad_untrusted_only_open.
Print diag_untrusted_only_open.
Definition diag_local_only_refused_to_all_remote := Eval vm_compute in bad_local_only_refused.
Print diag_local_only_refused_to_all_remote.
Definition diag_trusted_spec_decided_by_trust := Eval vm_compute in bad_trusted_spec.
Print diag_trusted_spec_decided_by_trust.
Definition diag_open_spec_allowed_to_all := Eval vm_compute in bad_open_spec.
Print diag_open_spec_allowed_to_all.
Definition diag_spec_tables_partition_methods := Eval vm_compute in bad_spec_partition.
Print diag_spec_tables_partition_methods.
Definition diag_services_all_registered := Eval vm_compute in bad_services_registered.
Print diag_services_all_registered.
Definition diag_authf_source_is_model := Eval vm_compute in bad_authf.
Print diag_authf_source_is_model.

Definition size_policy := Eval vm_compute in length policy.
Print size_policy.
Definition size_rpc_methods := Eval vm_compute in length rpc_methods.
Print size_rpc_methods.
