(* C13 — the importer on file trees (Model/C13_Tree.v): the emitted blocks are closed under links and contain the root;
   every file reads back by its path from a store that holds them; directory links are the entry names, sorted. *)
From V Require Import Base.Common Base.CommonLemmas Model.C13_Adder Model.C13_Check Model.C13_Spec Model.C13_Importer Model.C13_ImporterSpec
                      Model.C13_Tree Model.C13_TreeSpec Proofs.C13_Adder Proofs.C13_Theorems Proofs.C13_Importer Proofs.C13_ImporterLink Proofs.C13_ImporterThm.
From Coq Require Import Sorting.Permutation.
Open Scope N_scope.

Fixpoint ftree_ind' (P : ftree -> Prop) (Hf : forall b, P (File b))
    (Hd : forall es, Forall (fun e => P (snd e)) es -> P (Dir es)) (t : ftree) : P t :=
  match t with
  | File b => Hf b
  | Dir es => Hd es ((fix go (l : list (name * ftree)) : Forall (fun e => P (snd e)) l :=
                        match l with [] => Forall_nil _ | x :: r => Forall_cons x (ftree_ind' P Hf Hd (snd x)) (go r) end) es)
  end.

(* ---- sorting the links: a permutation ---- *)
Lemma insert_link_perm {A} (x : name * A) l : Permutation (insert_link x l) (x :: l).
Proof. induction l as [|y r IH]; cbn [insert_link]; [reflexivity|]. destruct (name_leb (fst x) (fst y)); [reflexivity|].
  rewrite IH. apply perm_swap. Qed.
Lemma sort_links_perm {A} (l : list (name * A)) : Permutation (sort_links l) l.
Proof. induction l as [|x r IH]; cbn; [reflexivity|]. rewrite insert_link_perm. now constructor. Qed.
Lemma in_sort_links {A} (x : name * A) l : In x (sort_links l) <-> In x l.
Proof. split; apply Permutation_in; [apply sort_links_perm|symmetry; apply sort_links_perm]. Qed.

Lemma name_leb_total a : forall b, name_leb a b = false -> name_leb b a = true.
Proof. induction a as [|x a IH]; intros [|y b]; cbn; try congruence.
  destruct (N.ltb_spec x y), (N.ltb_spec y x); try congruence; try lia. apply IH. Qed.
Lemma insert_sorted {A} (x : name * A) l : sorted_names (map fst l) -> sorted_names (map fst (insert_link x l)).
Proof. induction l as [|y r IH]; intros Hs; cbn [insert_link]; [exact I|].
  destruct (name_leb (fst x) (fst y)) eqn:E.
  - cbn [map sorted_names]. split; [exact E|exact Hs].
  - cbn [map] in *. destruct r as [|z r'].
    + cbn. split; [apply name_leb_total; exact E|exact I].
    + cbn [map sorted_names] in Hs. destruct Hs as [H1 H2]. specialize (IH H2). cbn [insert_link] in *.
      destruct (name_leb (fst x) (fst z)) eqn:E2; cbn [map sorted_names] in *.
      * split; [apply name_leb_total; exact E|]. exact IH.
      * split; [exact H1|exact IH]. Qed.
Lemma sort_links_sorted {A} (l : list (name * A)) : sorted_names (map fst (sort_links l)).
Proof. induction l as [|x r IH]; cbn; [exact I|]. apply insert_sorted. exact IH. Qed.

(* ---- file blocks ---- *)
Section Tree.
Variable p : iparams.
Hypothesis Hp : params_ok p.

Lemma file_facts bs : let tr := layout_tree (importer (ip_trickle p) (ip_ml p) (ip_k p) bs) in
  file_em p bs = map DFile (postorder tr) /\ file_root p bs = DFile tr /\ read_back tr = bs.
Proof. destruct Hp as [Hk Hml]. cbv zeta. unfold file_em, file_root.
  destruct (importer_emission_l _ _ _ bs Hk Hml) as (-> & _). destruct (importer_total_l _ _ _ bs Hk Hml) as (_ & Hr). auto. Qed.

Definition blocks_of (t : ftree) : list dnode := walk p t ++ flush p t.

Lemma walk_flush_closed t : (forall x c, In x (blocks_of t) -> In c (dkids x) -> In c (blocks_of t)) /\ In (dag_of p t) (blocks_of t).
Proof.
  unfold blocks_of. induction t as [bs|es IH] using ftree_ind'.
  - destruct (file_facts bs) as (Eem & Er & _). cbn [walk flush dag_of]. rewrite app_nil_r, Eem, Er. split.
    + intros x c Hx Hc. apply in_or_app. left.
      assert (Hx' : exists n, x = DFile n /\ In n (postorder (layout_tree (importer (ip_trickle p) (ip_ml p) (ip_k p) bs)))).
      { apply in_app_or in Hx as [Hx|[<-|[]]]; [apply in_map_iff in Hx as (n & <- & Hn); eauto|eexists; split; [reflexivity|apply in_postorder_self]]. }
      destruct Hx' as (n & -> & Hn). cbn [dkids] in Hc. apply in_map_iff in Hc as (k & <- & Hk). apply in_map.
      eapply postorder_kids_closed; eauto.
    + apply in_or_app. right. left. reflexivity.
  - cbn [walk flush]. rewrite Forall_forall in IH.
    assert (Hsub : forall e x, In e es -> In x (walk p (snd e) ++ flush p (snd e)) ->
                   In x ((DDir [] :: flat_map (fun e => walk p (snd e)) es) ++ flat_map (fun e => flush p (snd e)) es ++ [dag_of p (Dir es)])).
    { intros e x He Hx. apply in_app_or in Hx as [Hx|Hx].
      - apply in_or_app. left. right. apply in_flat_map. eauto.
      - apply in_or_app. right. apply in_or_app. left. apply in_flat_map. eauto. }
    split.
    + intros x c Hx Hc. apply in_app_or in Hx as [[<-|Hx]|Hx].
      * destruct Hc.
      * apply in_flat_map in Hx as (e & He & Hx). apply (Hsub e c He). apply (proj1 (IH e He) x c); [apply in_or_app; left; exact Hx|exact Hc].
      * apply in_app_or in Hx as [Hx|[<-|[]]].
        -- apply in_flat_map in Hx as (e & He & Hx). apply (Hsub e c He). apply (proj1 (IH e He) x c); [apply in_or_app; right; exact Hx|exact Hc].
        -- cbn [dag_of dkids] in Hc. apply in_map_iff in Hc as (l & <- & Hl). apply (proj1 (in_sort_links _ _)) in Hl.
           apply in_map_iff in Hl as (e & <- & He). cbn [snd]. apply (Hsub e _ He). apply (proj2 (IH e He)).
    + apply in_or_app. right. apply in_or_app. right. left. reflexivity.
Qed.

(* the emission of AddAllAndPin: closed under links, contains the returned root *)
Lemma import_closed wrap top mfs t :
  let x := import_tree p wrap top mfs t in dclosed (import_emission x) /\ In (import_root x) (import_emission x).
Proof.
  cbv zeta. unfold import_tree. set (t' := if wrap then Dir [(top, t)] else t).
  destruct (walk_flush_closed t') as [Hc Hr]. unfold blocks_of in *.
  destruct t' as [bs|es] eqn:Et; unfold import_emission, import_root; cbn [fst snd].
  - cbn [walk walk_top flush dag_of] in *. rewrite app_nil_r in *. split.
    + intros x c Hx Hcx. apply in_app_or in Hx as [Hx|Hx].
      * apply in_or_app. left. eapply Hc; eauto.
      * cbn in Hx. destruct Hx as [<-|[<-|[<-|[<-|[]]]]]; try (cbn [dkids map snd] in Hcx; destruct Hcx as [<-|[]]; apply in_or_app; left; exact Hr).
        apply in_or_app. left. eapply Hc; eauto.
    + apply in_or_app. left. exact Hr.
  - set (r := dag_of p (Dir es)) in *. set (W := flat_map (fun e => walk p (snd e)) es) in *. cbn [walk walk_top] in *. fold W in Hc, Hr |- *.
    set (F := flush p (Dir es)) in *.
    assert (Hin : forall x, In x (W ++ F ++ [r] ++ F ++ F ++ F ++ [r]) <-> In x (W ++ F)).
    { intros x. rewrite !in_app_iff. cbn [In]. assert (In r F) by (subst F r; cbn [flush]; apply in_or_app; right; left; reflexivity).
      split; [intros [H'|[H'|[[<-|[]]|[H'|[H'|[H'|[<-|[]]]]]]]]; auto|intros [H'|H']; auto]. }
    assert (Hc' : forall x c, In x (W ++ F) -> In c (dkids x) -> In c (W ++ F)).
    { intros x c Hx Hcx. assert (Hx' : In x ((DDir [] :: W) ++ F)) by (apply in_app_or in Hx as [Hx|Hx]; apply in_or_app; [left; right|right]; exact Hx).
      pose proof (Hc x c Hx' Hcx) as H'. apply in_app_or in H' as [[<-|H']|H']; [|apply in_or_app; left; exact H'|apply in_or_app; right; exact H'].
      (* the empty directory node is linked only by a directory that has an empty sub-directory: whose final node is in F *)
      apply in_app_or in Hx as [Hx|Hx].
      - exfalso. subst W. apply in_flat_map in Hx as (e & He & Hx). revert Hcx. clear - Hx Hp.
        (* a block of the walk phase that links the empty directory: impossible, file blocks link file blocks *)
        revert x Hx. generalize (snd e). intros t0. induction t0 as [bs|es0 IH0] using ftree_ind'; intros x Hx Hcx.
        + destruct (file_facts bs) as (Eem & Er & _). cbn [walk] in Hx. rewrite Eem, Er in Hx.
          assert (exists n, x = DFile n) as (n & ->).
          { apply in_app_or in Hx as [Hx|[<-|[]]]; [apply in_map_iff in Hx as (n & <- & _)|]; eauto. }
          cbn [dkids] in Hcx. apply in_map_iff in Hcx as (k & Hk & _). discriminate.
        + cbn [walk] in Hx. destruct Hx as [<-|Hx]; [destruct Hcx|]. apply in_flat_map in Hx as (e0 & He0 & Hx).
          rewrite Forall_forall in IH0. eapply IH0; eauto.
      - apply in_or_app. right. subst F. clear - Hx Hcx.
        (* x is the final node of a sub-directory that has an empty sub-directory e: dag_of e = DDir [] is in the flush of e *)
        revert x Hx Hcx. generalize (Dir es). intros t0. induction t0 as [bs|es0 IH0] using ftree_ind'; intros x Hx Hcx; [destruct Hx|].
        cbn [flush] in Hx |- *. apply in_app_or in Hx as [Hx|[<-|[]]].
        + apply in_flat_map in Hx as (e0 & He0 & Hx). apply in_or_app. left. apply in_flat_map. exists e0. split; [exact He0|].
          rewrite Forall_forall in IH0. eapply IH0; eauto.
        + cbn [dag_of dkids] in Hcx. apply in_map_iff in Hcx as (l & El & Hl). apply (proj1 (in_sort_links _ _)) in Hl.
          apply in_map_iff in Hl as (e0 & <- & He0). cbn [snd] in El. apply in_or_app. left. apply in_flat_map. exists e0. split; [exact He0|].
          destruct (snd e0) as [bs|es1]; [cbn [dag_of] in El; unfold file_root in El; discriminate|].
          cbn [flush]. apply in_or_app. right. left. exact El. }
    split.
    + intros x c Hx Hcx. apply Hin. apply Hin in Hx. eapply Hc'; eauto.
    + apply Hin. apply in_or_app. right. subst F r. cbn [flush]. apply in_or_app. right. left. reflexivity.
Qed.
End Tree.

(* ---- the stream of any emission with these blocks meets the importer contract of the adder theorems ---- *)
Section TStream.
Variable cid_of enc_size : dnode -> N.

Lemma cids_of_tstream em : cids_of (tstream_of cid_of enc_size em) = map cid_of em.
Proof. unfold cids_of, tstream_of. rewrite map_map. reflexivity. Qed.

Lemma tstream_contract em root : dclosed em -> In root em ->
  let stream := tstream_of cid_of enc_size em in
  strict stream /\ link_closed stream /\ In (cid_of root) (cids_of stream) /\ (dinjective_on em cid_of -> sizes_by_cid stream).
Proof.
  intros Hc Hr. cbv zeta. split; [|split; [|split]].
  - intros b Hb. apply in_map_iff in Hb as (n & <- & _). reflexivity.
  - intros b l Hb Hl. apply in_map_iff in Hb as (n & <- & Hn). cbn [tblock_of blinks] in Hl.
    apply in_map_iff in Hl as (c & <- & Hcn). rewrite cids_of_tstream. apply in_map. eapply Hc; eauto.
  - rewrite cids_of_tstream. apply in_map. exact Hr.
  - intros Hinj b b' Hb Hb' E. apply in_map_iff in Hb as (n & <- & Hn). apply in_map_iff in Hb' as (n' & <- & Hn').
    cbn [tblock_of bcid bsize] in *. rewrite (Hinj n n' Hn Hn' E). reflexivity.
Qed.

Lemma same_blocks_closed em em' root : same_blocks em em' -> dclosed em -> In root em -> dclosed em' /\ In root em'.
Proof. intros Hs Hc Hr. split; [intros x c Hx Hcx; apply Hs; apply (Hc x c); [apply Hs; exact Hx|exact Hcx]|apply Hs; exact Hr]. Qed.

Lemma tstore_holds em delivered : dinjective_on em cid_of -> (forall n, In n em -> In (cid_of n) delivered) ->
  forall n, In n em -> tstore_of cid_of em delivered (cid_of n) = Some (tcontent_of cid_of n).
Proof.
  intros Hinj Hdel n Hn. unfold tstore_of.
  assert (Hm : memN (cid_of n) delivered = true) by (apply memN_in, Hdel, Hn). rewrite Hm.
  destruct (find (fun n0 => N.eqb (cid_of n0) (cid_of n)) em) as [n'|] eqn:E.
  - apply find_some in E as (Hn' & E). apply N.eqb_eq in E. rewrite (Hinj n' n Hn' Hn E). reflexivity.
  - exfalso. pose proof (find_none _ _ E n Hn) as H. cbn in H. rewrite N.eqb_refl in H. discriminate.
Qed.

(* ---- reading back from a store that holds a closed set of blocks ---- *)
Variable st : store.
Variable em : list dnode.
Hypothesis Hclosed : dclosed em.
Hypothesis Hst : forall n, In n em -> st (cid_of n) = Some (tcontent_of cid_of n).

Lemma read_node_tree n : In (DFile n) em -> forall fuel, (height n < fuel)%nat -> read_node st fuel (cid_of (DFile n)) = Some (read_back n).
Proof.
  induction n as [d|ch IH] using tree_ind'; intros Hn fuel Hf.
  - destruct fuel as [|f]; [lia|]. cbn [read_node]. rewrite (Hst _ Hn). cbn. rewrite app_nil_r. reflexivity.
  - destruct fuel as [|f]; [lia|]. cbn [read_node]. rewrite (Hst _ Hn). cbn [tcontent_of].
    assert (Hk : forall l, In l ch -> In (DFile (fst l)) em).
    { intros l Hl. eapply Hclosed; [exact Hn|]. cbn [dkids kids]. apply in_map, in_map. exact Hl. }
    cbn [height] in Hf. unfold read_back. cbn [leaves].
    clear Hn. revert IH Hk Hf. induction ch as [|l r IHr]; intros IH Hk Hf; [reflexivity|].
    cbn [map fold_right flat_map fst]. inversion IH as [|? ? Hl Hr]; subst. cbn [fold_right] in Hf.
    rewrite (Hl (Hk l (or_introl eq_refl)) f ltac:(lia)).
    rewrite IHr; [|exact Hr|intros l' Hl'; apply Hk; right; exact Hl'|lia].
    rewrite concat_app. reflexivity.
Qed.

Lemma name_eqb_eq a b : name_eqb a b = true <-> a = b.
Proof. unfold name_eqb. revert b. induction a as [|x xs IH]; intros [|y ys]; cbn [list_eqb]; try (split; congruence).
  rewrite andb_true_iff, N.eqb_eq, IH. split; [intros [-> ->]; reflexivity|intros H; injection H; auto]. Qed.

Lemma lookup_unique {A} (n : name) (x : A) ls : NoDup (map fst ls) -> In (n, x) ls -> lookup_name n ls = Some x.
Proof. induction ls as [|[m y] r IH]; intros Hnd Hin; [destruct Hin|]. cbn [lookup_name]. inversion Hnd as [|? ? Hnot Hnd']; subst.
  destruct Hin as [E|Hin].
  - injection E as -> ->. assert (name_eqb n n = true) by (apply name_eqb_eq; reflexivity). rewrite H. reflexivity.
  - destruct (name_eqb n m) eqn:E; [|apply IH; auto]. apply name_eqb_eq in E. subst m. exfalso. apply Hnot.
    apply in_map_iff. exists (n, x). auto. Qed.

Lemma names_unique_dir es : names_unique (Dir es) = true -> NoDup (map fst es) /\ forall e, In e es -> names_unique (snd e) = true.
Proof. cbn [names_unique]. rewrite andb_true_iff, forallb_forall. intros [H1 H2]. split; [|exact H2].
  revert H1. generalize (map fst es). induction l as [|x r IH]; intros H; [constructor|]. apply andb_true_iff in H as [Ha Hb].
  constructor; [|apply IH; exact Hb]. intros Hin. apply negb_true_iff in Ha. assert (existsb (name_eqb x) r = true); [|congruence].
  apply existsb_exists. exists x. split; [exact Hin|apply name_eqb_eq; reflexivity]. Qed.

(* every file of a tree whose final node is among the blocks reads back by its path *)
Lemma tree_read_back_gen p : params_ok p -> forall t, In (dag_of p t) em -> names_unique t = true ->
  forall path bs, In (path, bs) (files_of t) ->
  read_file st (S (file_height p bs)) (cid_of (dag_of p t)) path = Some bs.
Proof.
  intros Hp. induction t as [b|es IH] using ftree_ind'; intros Hin Hu path bs Hf.
  - cbn [files_of] in Hf. destruct Hf as [E|[]]. injection E as <- <-. unfold read_file. cbn [resolve dag_of].
    destruct (file_facts p Hp b) as (_ & Er & Hr). cbv zeta in *. cbn [dag_of] in Hin. rewrite Er in Hin |- *.
    rewrite read_node_tree; [rewrite Hr; reflexivity|exact Hin|unfold file_height; lia].
  - cbn [files_of] in Hf. apply in_flat_map in Hf as (e & He & Hf). apply in_map_iff in Hf as ([path' bs'] & E & Hf). injection E as <- <-.
    destruct (names_unique_dir es Hu) as [Hnd Hue]. rewrite Forall_forall in IH. cbn [fst snd].
    assert (Hchild : In (dag_of p (snd e)) em).
    { eapply Hclosed; [exact Hin|]. cbn [dag_of dkids]. apply in_map_iff. exists (fst e, dag_of p (snd e)). split; [reflexivity|].
      apply in_sort_links. apply in_map_iff. exists e. auto. }
    specialize (IH e He Hchild (Hue e He) path' bs' Hf). unfold read_file in *. cbn [resolve]. rewrite (Hst _ Hin). cbn [dag_of tcontent_of].
    rewrite (lookup_unique (fst e) (cid_of (dag_of p (snd e)))); [exact IH| |].
    + rewrite map_map. cbn [fst].
      apply (Permutation_NoDup (l := map fst es)); [|exact Hnd].
      transitivity (map fst (map (fun e0 : name * ftree => (fst e0, dag_of p (snd e0))) es)).
      * rewrite map_map. cbn [fst]. apply Permutation_refl.
      * symmetry. apply (Permutation_map fst), sort_links_perm.
    + apply in_map_iff. exists (fst e, dag_of p (snd e)). split; [reflexivity|]. apply in_sort_links. apply in_map_iff. exists e. auto.
Qed.
End TStream.

(* ---- end to end: a tree through the adder model ---- *)
Section TDelivered.
Variable cid_of enc_size : dnode -> N.
Variable e : env.
Variable p : iparams.
Variable wrap hid : bool.
Variable top mfs : name.
Variable t : ftree.
Hypothesis Hp : params_ok p.
Let vis := visible hid t.
Let seen := if wrap then Dir [(top, vis)] else vis.
Let x := import_tree p wrap top mfs vis.
Variable em' : list dnode.
Hypothesis Hsame : same_blocks (import_emission x) em'.
Hypothesis Hinj : dinjective_on em' cid_of.
Hypothesis Huniq : names_unique seen = true.
Let stream := tstream_of cid_of enc_size em'.
Let root := cid_of (import_root x).

Lemma import_root_dag : import_root x = dag_of p seen.
Proof. subst x seen. unfold import_tree, import_root. destruct wrap; [reflexivity|]. destruct vis; reflexivity. Qed.

Lemma tree_facts : dclosed em' /\ In (import_root x) em'.
Proof. destruct (import_closed p Hp wrap top mfs vis) as [Hc Hr]. fold x in Hc, Hr. eapply same_blocks_closed; eauto. Qed.

Lemma tree_readable_from delivered : (forall c, In c (cids_of stream) -> In c delivered) ->
  forall path bs, In (path, bs) (files_of seen) ->
  read_file (tstore_of cid_of em' delivered) (S (file_height p bs)) root path = Some bs.
Proof.
  intros Hdel path bs Hf. destruct tree_facts as [Hc Hr]. subst root. rewrite import_root_dag in *.
  apply (tree_read_back_gen cid_of (tstore_of cid_of em' delivered) em' Hc); auto.
  apply tstore_holds; [exact Hinj|]. intros n Hn. apply Hdel. subst stream. rewrite cids_of_tstream. apply in_map. exact Hn.
Qed.

Lemma tree_unsharded_l c tr : single_run e stream root = (ROk c, tr) ->
  c = CData root /\ (exists al, ok_pins tr = [single_pin e root al]) /\
  (forall y, reach stream root y -> In y (data_puts tr)) /\
  forall path bs, In (path, bs) (files_of seen) ->
    read_file (tstore_of cid_of em' (data_puts tr)) (S (file_height p bs)) root path = Some bs.
Proof.
  intros H. destruct tree_facts as [Hc Hr].
  destruct (tstream_contract cid_of enc_size em' (import_root x) Hc Hr) as (Hstrict & Hlc & Hroot & _). cbv zeta in *.
  fold stream in Hstrict, Hlc, Hroot. fold root in Hroot.
  destruct (final_pins_single_l e stream root Hstrict c tr H) as (Hcc & al & Hpin & _).
  destruct (delivered_equals_produced_single_l e stream root Hstrict c tr H) as (Hd & _).
  split; [exact Hcc|]. split; [exists al; exact Hpin|]. split; [apply (delivered_closed_single_l e stream root Hstrict c tr Hlc Hroot H)|].
  apply tree_readable_from. intros y Hy. rewrite Hd. exact Hy.
Qed.

Lemma tree_sharded_l c tr : 0 < e_maxlinks e -> shard_run e stream root = (ROk c, tr) ->
  c = CData root /\ (exists q, In q (ok_pins tr) /\ pcid q = CData root /\ pty q = TMeta) /\
  (forall y, reach stream root y -> In y (data_puts tr)) /\
  forall path bs, In (path, bs) (files_of seen) ->
    read_file (tstore_of cid_of em' (data_puts tr)) (S (file_height p bs)) root path = Some bs.
Proof.
  intros Hmax H. destruct tree_facts as [Hc Hr].
  destruct (tstream_contract cid_of enc_size em' (import_root x) Hc Hr) as (Hstrict & Hlc & Hroot & Hsz). cbv zeta in *. specialize (Hsz Hinj).
  fold stream in Hstrict, Hlc, Hroot, Hsz. fold root in Hroot.
  destruct (final_pins_sharded_l e stream root Hstrict Hmax Hsz c tr H) as (Hcc & xs & _ & Hpin & _).
  destruct (delivered_equals_produced_l e stream root Hstrict Hmax Hsz c tr H) as (Hd & _).
  split; [exact Hcc|]. split.
  { exists (meta_pin e root xs). split; [rewrite Hpin; apply in_or_app; right; right; left; reflexivity|]. split; reflexivity. }
  split; [apply (delivered_closed_l e stream root Hstrict Hmax Hsz c tr Hlc Hroot H)|].
  apply tree_readable_from. intros y Hy. rewrite Hd. apply in_dedup. exact Hy.
Qed.
End TDelivered.

(* the links of a directory node: the names of its entries, each once, sorted; each link goes to the final node of that entry *)
Lemma dir_links_named_l p es :
  exists ls, dag_of p (Dir es) = DDir ls /\ Permutation (map fst ls) (map fst es) /\ sorted_names (map fst ls) /\
    forall n d, In (n, d) ls <-> exists c, In (n, c) es /\ d = dag_of p c.
Proof.
  eexists. split; [reflexivity|]. split; [|split].
  - rewrite (Permutation_map fst (sort_links_perm _)), map_map. cbn [fst]. apply Permutation_refl.
  - apply sort_links_sorted.
  - intros n d. rewrite in_sort_links, in_map_iff. split.
    + intros ([n' c] & E & Hin). cbn in E. injection E as <- <-. eauto.
    + intros (c & Hin & ->). exists (n, c). auto.
Qed.
