(* C13 — lemmas about Model/C13_Adder.v *)
From V Require Import Base.Common Base.CommonLemmas Model.C13_Adder Model.C13_Check Model.C13_Spec.
From Coq Require Import MSets.MSetPositive.
Open Scope N_scope.

Lemma key_inj a b : key a = key b -> a = b.
Proof.
  unfold key. intros H. apply N.succ_inj. rewrite <- !N.succ_pos_spec. now rewrite H.
Qed.

(* ------------------------------------------------------------------ *)
(* BlockAdder.Add                                                       *)
(* ------------------------------------------------------------------ *)
Lemma filter_len_le {A} (f : A -> bool) (l : list A) : (length (filter f l) <= length l)%nat.
Proof. induction l as [|a l IH]; simpl; [lia|]. destruct (f a); simpl; lia. Qed.

Lemma filter_length_all {A} (f : A -> bool) (l : list A) :
  length (filter f l) = length l <-> forall x, In x l -> f x = true.
Proof.
  induction l as [|a l IH]; simpl.
  - split; [intros _ x []|reflexivity].
  - destruct (f a) eqn:Ha; simpl.
    + split.
      * intros H x [<-|Hx]; [assumption|]. apply IH; [lia|assumption].
      * intros H. f_equal. apply IH. intros x Hx. apply H. now right.
    + split.
      * intros H. pose proof (filter_len_le f l). lia.
      * intros H. specialize (H a (or_introl eq_refl)). congruence.
Qed.

Lemma ba_add_none out dests :
  ba_add out dests = None <-> forall d, In d dests -> is_err (out d) = true.
Proof.
  unfold ba_add.
  destruct (Nat.eqb_spec (length (filter (fun d => is_err (out d)) dests)) (length dests)) as [E|E]; simpl.
  - split; [intros _|reflexivity]. now apply filter_length_all.
  - assert (Hex : ~ forall d, In d dests -> is_err (out d) = true) by (intros H; apply E; now apply filter_length_all).
    destruct (Nat.eqb_spec (length (filter (fun d => negb (is_rpc (out d))) dests)) 0) as [E2|E2].
    + split; [intros _|reflexivity]. intros d Hd.
      destruct (is_err (out d)) eqn:Hd2; [reflexivity|]. exfalso.
      assert (Hin : In d (filter (fun d => negb (is_rpc (out d))) dests)).
      { apply filter_In. split; [assumption|]. destruct (out d); simpl in *; congruence. }
      destruct (filter (fun d => negb (is_rpc (out d))) dests); [destruct Hin|discriminate].
    + split; [discriminate|]. intros H. contradiction.
Qed.

Lemma ba_add_some out dests s :
  ba_add out dests = Some s ->
  s = filter (fun d => negb (is_rpc (out d))) dests /\ (exists d, In d dests /\ out d = POk) /\
  (forall d, In d dests -> out d = POk -> In d s) /\ incl s dests /\ s <> [].
Proof.
  intros H.
  assert (Hn : ba_add out dests <> None) by congruence.
  assert (Hs : s = filter (fun d => negb (is_rpc (out d))) dests).
  { unfold ba_add in H. destruct (_ || _); [discriminate|]. now inversion H. }
  assert (Hex : exists d, In d dests /\ out d = POk).
  { clear H Hs. induction dests as [|a l IH].
    - exfalso. apply Hn. apply ba_add_none. intros d [].
    - destruct (out a) eqn:Ha; [exists a; split; [now left|assumption]| |].
      all: destruct (ba_add out l) eqn:Hl.
      all: try (destruct IH as [d [Hd1 Hd2]]; [congruence|]; exists d; split; [now right|assumption]).
      all: exfalso; apply Hn; apply ba_add_none; intros d [<-|Hd]; [rewrite Ha; reflexivity|];
        apply (proj1 (ba_add_none out l)); assumption. }
  split; [assumption|]. split; [assumption|]. split; [|split].
  - intros d Hd Ho. subst s. apply filter_In. split; [assumption|]. now rewrite Ho.
  - subst s. intros d Hd. apply filter_In in Hd. tauto.
  - destruct Hex as [d [Hd Ho]]. intros ->. symmetry in Hs.
    assert (Hin : In d (filter (fun d => negb (is_rpc (out d))) dests)) by (apply filter_In; split; [assumption|now rewrite Ho]).
    rewrite Hs in Hin. destruct Hin.
Qed.

(* ------------------------------------------------------------------ *)
(* makeDAG                                                              *)
(* ------------------------------------------------------------------ *)
Lemma flat_map_flatten_data_map_CData l : flat_map flatten_data (map CData l) = l.
Proof. induction l as [|a l IH]; simpl; [reflexivity|now rewrite IH]. Qed.

Lemma skipn_add {A} (n m : nat) (l : list A) : skipn m (skipn n l) = skipn (n + m) l.
Proof. revert l. induction n as [|n IH]; intros l; simpl; [reflexivity|]. destruct l; [now rewrite skipn_nil|apply IH]. Qed.

(* cutting a list in consecutive chunks of m > 0 elements, enough of them, loses nothing *)
Lemma chunks_concat {A} (m : nat) (l : list A) (k n : nat) :
  (0 < m)%nat -> (length l <= (k + n) * m)%nat ->
  flat_map (fun i => firstn m (skipn (i * m) l)) (seq k n) = skipn (k * m) l.
Proof.
  intros Hm. revert k. induction n as [|n IH]; intros k Hlen; simpl.
  - rewrite skipn_all2; [reflexivity|]. lia.
  - rewrite IH by lia.
    replace (S k * m)%nat with (k * m + m)%nat by lia.
    rewrite <- skipn_add. apply firstn_skipn.
Qed.

Lemma make_dag_not_nil ml l : make_dag ml l <> [].
Proof. unfold make_dag. destruct (_ <=? _); discriminate. Qed.

Lemma dag_root_hd ml l : exists r, make_dag ml l = dag_root ml l :: r.
Proof. unfold dag_root. destruct (make_dag ml l) eqn:E; [now apply make_dag_not_nil in E|eauto]. Qed.

Lemma dag_root_is_node ml l : is_node (dag_root ml l).
Proof. unfold dag_root, make_dag. destruct (_ <=? _); simpl; exact I. Qed.

Lemma div_chunks_enough (n m : nat) : (0 < m)%nat -> (n <= (0 + S (n / m)) * m)%nat.
Proof.
  intros Hm. pose proof (Nat.div_mod n m ltac:(lia)) as H. pose proof (Nat.mod_upper_bound n m ltac:(lia)). nia.
Qed.

Lemma N_div_to_nat a b : N.to_nat (a / b) = (N.to_nat a / N.to_nat b)%nat.
Proof.
  destruct (N.eq_dec b 0) as [->|Hb].
  - simpl. destruct a; reflexivity.
  - apply N2Nat.inj_div.
Qed.

Lemma flat_map_map_c {A B C} (f : B -> list C) (g : A -> B) l : flat_map f (map g l) = flat_map (fun x => f (g x)) l.
Proof. induction l as [|a l IH]; simpl; [reflexivity|now rewrite IH]. Qed.

Lemma flat_map_assoc {A B C} (f : B -> list C) (g : A -> list B) l :
  flat_map f (flat_map g l) = flat_map (fun x => flat_map f (g x)) l.
Proof. induction l as [|a l IH]; simpl; [reflexivity|]. now rewrite flat_map_app, IH. Qed.

Lemma flatten_dag_root ml l : 0 < ml -> flatten_data (dag_root ml (map CData l)) = l.
Proof.
  intros Hml. unfold dag_root, make_dag.
  destruct (N.of_nat (length (map CData l)) <=? ml) eqn:E.
  - simpl. apply flat_map_flatten_data_map_CData.
  - cbn [flatten_data]. rewrite flat_map_map_c. cbn [flatten_data].
    set (m := N.to_nat ml).
    assert (Hm : (0 < m)%nat) by (unfold m; lia).
    rewrite <- (flat_map_assoc flatten_data (fun i => firstn m (skipn (i * m) (map CData l)))).
    rewrite chunks_concat.
    + simpl. apply flat_map_flatten_data_map_CData.
    + assumption.
    + rewrite N_div_to_nat, Nat2N.id. fold m. apply div_chunks_enough. assumption.
Qed.

(* depth: one hop when the links fit one node, two through the leaves *)
Lemma covers_data_nodes l : covers (CNode (map CData l)) 1 = true.
Proof. simpl. apply forallb_forall. intros x Hx. apply in_map_iff in Hx. destruct Hx as [n [<- _]]. reflexivity. Qed.

Lemma forallb_firstn {A} (f : A -> bool) n (l : list A) : forallb f l = true -> forallb f (firstn n l) = true.
Proof. rewrite !forallb_forall. intros H x Hx. apply H. eapply in_firstn. eassumption. Qed.

Lemma forallb_skipn {A} (f : A -> bool) n (l : list A) : forallb f l = true -> forallb f (skipn n l) = true.
Proof.
  rewrite !forallb_forall. intros H x Hx. apply H. rewrite <- (firstn_skipn n l). apply in_or_app. now right.
Qed.

Lemma covers_node_S ls d : covers (CNode ls) (S d) = forallb (fun x => covers x d) ls.
Proof. reflexivity. Qed.

Lemma covers_dag_root ml l :
  covers (dag_root ml (map CData l)) (Z.to_nat (if N.of_nat (length l) <=? ml then 1%Z else 2%Z)) = true.
Proof.
  unfold dag_root, make_dag. rewrite map_length.
  destruct (N.of_nat (length l) <=? ml) eqn:E.
  - apply covers_data_nodes.
  - change (Z.to_nat 2) with 2%nat. cbv iota. rewrite covers_node_S. apply forallb_forall. intros x Hx.
    apply in_map_iff in Hx. destruct Hx as [i [<- _]]. rewrite covers_node_S.
    apply forallb_firstn, forallb_skipn. apply forallb_forall. intros y Hy.
    apply in_map_iff in Hy. destruct Hy as [n [<- _]]. reflexivity.
Qed.

(* with more links than fit, one hop does not cover: the depth-1 answer of the shipped code is wrong *)
Lemma not_covers_indirect ml l : 0 < ml -> ml < N.of_nat (length l) -> covers (dag_root ml (map CData l)) 1 = false.
Proof.
  intros Hml Hlen. unfold dag_root, make_dag. rewrite map_length.
  destruct (N.of_nat (length l) <=? ml) eqn:E; [apply N.leb_le in E; lia|].
  cbv iota. rewrite covers_node_S. cbn [seq map forallb]. apply andb_false_iff. left.
  destruct l as [|a l]; [simpl in Hlen; lia|].
  destruct (N.to_nat ml) eqn:Em; [lia|]. reflexivity.
Qed.

(* ------------------------------------------------------------------ *)
(* traces: projections are monoid morphisms; extension of an io state   *)
(* ------------------------------------------------------------------ *)
Definition chron (s : io) : list event := rev (tr s).
Definition cnt_a (evs : list event) : N := N.of_nat (length (alloc_results evs)).
Definition cnt_j (evs : list event) : N := N.of_nat (length (puts evs)).
Definition cnt_p (evs : list event) : N := N.of_nat (length (all_pins evs)).

Lemma ok_pins_app a b : ok_pins (a ++ b) = ok_pins a ++ ok_pins b. Proof. apply flat_map_app. Qed.
Lemma all_pins_app a b : all_pins (a ++ b) = all_pins a ++ all_pins b. Proof. apply flat_map_app. Qed.
Lemma puts_app a b : puts (a ++ b) = puts a ++ puts b. Proof. apply flat_map_app. Qed.
Lemma data_puts_app a b : data_puts (a ++ b) = data_puts a ++ data_puts b. Proof. apply flat_map_app. Qed.
Lemma put_cids_app a b : put_cids (a ++ b) = put_cids a ++ put_cids b. Proof. apply flat_map_app. Qed.
Lemma alloc_results_app a b : alloc_results (a ++ b) = alloc_results a ++ alloc_results b. Proof. apply flat_map_app. Qed.
Lemma cnt_a_app a b : cnt_a (a ++ b) = cnt_a a + cnt_a b.
Proof. unfold cnt_a. rewrite alloc_results_app, app_length. lia. Qed.
Lemma cnt_j_app a b : cnt_j (a ++ b) = cnt_j a + cnt_j b.
Proof. unfold cnt_j. rewrite puts_app, app_length. lia. Qed.
Lemma cnt_p_app a b : cnt_p (a ++ b) = cnt_p a + cnt_p b.
Proof. unfold cnt_p. rewrite all_pins_app, app_length. lia. Qed.

Lemma wf_app e P a j p e1 e2 :
  wf e P a j p (e1 ++ e2) <-> wf e P a j p e1 /\ wf e P (a + cnt_a e1) (j + cnt_j e1) (p + cnt_p e1) e2.
Proof.
  revert a j p. induction e1 as [|ev e1 IH]; intros a j p.
  - simpl. unfold cnt_a, cnt_j, cnt_p. simpl. rewrite !N.add_0_r. tauto.
  - destruct ev; simpl.
    + rewrite IH. unfold cnt_a, cnt_j, cnt_p. simpl alloc_results. simpl puts. simpl all_pins. simpl length.
      replace (a + 1 + N.of_nat (length (alloc_results e1))) with (a + N.of_nat (S (length (alloc_results e1)))) by lia. tauto.
    + rewrite IH. unfold cnt_a, cnt_j, cnt_p. simpl alloc_results. simpl puts. simpl all_pins. simpl length.
      replace (j + 1 + N.of_nat (length (puts e1))) with (j + N.of_nat (S (length (puts e1)))) by lia. tauto.
    + rewrite IH. unfold cnt_a, cnt_j, cnt_p. simpl alloc_results. simpl puts. simpl all_pins. simpl length.
      replace (p + 1 + N.of_nat (length (all_pins e1))) with (p + N.of_nat (S (length (all_pins e1)))) by lia. tauto.
Qed.

Lemma wf_mono e (P Q : pin -> bool -> Prop) a j p evs :
  (forall q ok, P q ok -> Q q ok) -> wf e P a j p evs -> wf e Q a j p evs.
Proof.
  intros HPQ. revert a j p. induction evs as [|ev evs IH]; intros a j p; simpl; [tauto|].
  destruct ev; intuition.
Qed.

Definition ext (e : env) (P : pin -> bool -> Prop) (s s' : io) (evs : list event) : Prop :=
  chron s' = chron s ++ evs /\ wf e P (na s) (nr s) (np s) evs /\
  na s' = na s + cnt_a evs /\ nr s' = nr s + cnt_j evs /\ np s' = np s + cnt_p evs.

Lemma ext_refl e P s : ext e P s s [].
Proof. unfold ext, cnt_a, cnt_j, cnt_p. simpl. rewrite app_nil_r, !N.add_0_r. tauto. Qed.

Lemma ext_trans e P s s1 s2 e1 e2 : ext e P s s1 e1 -> ext e P s1 s2 e2 -> ext e P s s2 (e1 ++ e2).
Proof.
  intros (A1 & A2 & A3 & A4 & A5) (B1 & B2 & B3 & B4 & B5). unfold ext.
  rewrite B1, A1, app_assoc. split; [reflexivity|]. split.
  - apply wf_app. split; [assumption|]. now rewrite <- A3, <- A4, <- A5.
  - rewrite cnt_a_app, cnt_j_app, cnt_p_app. lia.
Qed.

Lemma do_alloc_ext e P s r s' : do_alloc e s = (r, s') -> ext e P s s' [EAlloc r] /\ r = e_alloc e (na s).
Proof.
  unfold do_alloc. intros H. inversion H; subst. split; [|reflexivity].
  unfold ext, chron, cnt_a, cnt_j, cnt_p. simpl. repeat split; lia.
Qed.

Lemma do_put_ext e P c ds s r s' :
  do_put e c ds s = (r, s') -> ext e P s s' [EPut c ds r] /\ r = ba_add (e_put e (nr s)) ds.
Proof.
  unfold do_put. intros H. inversion H; subst. split; [|reflexivity].
  unfold ext, chron, cnt_a, cnt_j, cnt_p. simpl. repeat split; lia.
Qed.

Definition clear_allocs (q : pin) : pin :=
  if (prmin q <? 0)%Z then mkpin (pcid q) (pty q) (pnm q) [] (pdepth q) (pref q) (prmin q) (prmax q) (pssize q) else q.

Lemma do_pin_ext e (P : pin -> bool -> Prop) q s ok s' :
  do_pin e q s = (ok, s') -> P (clear_allocs q) ok -> ext e P s s' [EPin (clear_allocs q) ok].
Proof.
  unfold do_pin. intros H HP. inversion H; subst. fold (clear_allocs q) in *.
  unfold ext, chron, cnt_a, cnt_j, cnt_p. simpl. repeat split; try lia; assumption.
Qed.

Arguments do_put : simpl never.
Arguments do_alloc : simpl never.
Arguments do_pin : simpl never.
Arguments ba_add : simpl never.
Arguments make_dag : simpl never.
Arguments dag_root : simpl never.

(* events that are all puts towards destinations inside A *)
Definition only_puts (A : list N) (evs : list event) : Prop :=
  Forall (fun ev => match ev with EPut _ ds _ => incl ds A | _ => False end) evs.

Lemma only_puts_app A a b : only_puts A a -> only_puts A b -> only_puts A (a ++ b).
Proof. apply Forall_app_2 || (intros; apply Forall_app; tauto). Qed.

Lemma only_puts_proj A evs : only_puts A evs ->
  all_pins evs = [] /\ ok_pins evs = [] /\ alloc_results evs = [].
Proof.
  induction 1 as [|ev evs H _ IH]; [tauto|]. destruct ev; try contradiction. simpl. tauto.
Qed.

Lemma put_many_ext e P cs ds s r s' :
  put_many e cs ds s = (r, s') ->
  exists evs, ext e P s s' evs /\ only_puts ds evs /\
    (forall d', r = Some d' -> incl d' ds /\ put_cids evs = cs /\ Forall (fun x => snd x <> None) (puts evs)).
Proof.
  revert ds s. induction cs as [|c cs IH]; intros ds s H; cbn [put_many] in H.
  - inversion H; subst. exists []. split; [apply ext_refl|]. split; [constructor|].
    intros d' Hd. inversion Hd; subst. split; [apply incl_refl|]. split; [reflexivity|constructor].
  - destruct (do_put e c ds s) as [[d1|] s1] eqn:Hp.
    + destruct (do_put_ext e P _ _ _ _ _ Hp) as [Hx Hr].
      symmetry in Hr. apply ba_add_some in Hr. destruct Hr as (_ & _ & _ & Hincl & _).
      destruct (IH _ _ H) as (evs & Hx2 & Ho & Hs).
      exists ([EPut c ds (Some d1)] ++ evs). split; [eapply ext_trans; eassumption|]. split.
      * apply only_puts_app; [constructor; [apply incl_refl|constructor]|].
        eapply Forall_impl; [|exact Ho]. intros [] Hev; try contradiction. eapply incl_tran; eassumption.
      * intros d' Hd. destruct (Hs d' Hd) as (H1 & H2 & H3). split; [eapply incl_tran; eassumption|]. split.
        -- simpl. now rewrite H2.
        -- simpl. constructor; [simpl; discriminate|assumption].
    + inversion H; subst. destruct (do_put_ext e P _ _ _ _ _ Hp) as [Hx Hr].
      exists [EPut c ds None]. split; [assumption|]. split; [constructor; [apply incl_refl|constructor]|].
      intros d' Hd. discriminate.
Qed.

(* ------------------------------------------------------------------ *)
(* small facts used by the invariant                                    *)
(* ------------------------------------------------------------------ *)
Lemma make_dag_nodes ml l : Forall is_node (make_dag ml l).
Proof.
  unfold make_dag. destruct (_ <=? _).
  - repeat constructor.
  - constructor; [exact I|]. apply Forall_forall. intros x Hx. apply in_map_iff in Hx. destruct Hx as [i [<- _]]. exact I.
Qed.

Lemma make_dag_length ml l : 0 < ml ->
  Nat.ltb 1 (length (make_dag ml l)) = negb (N.of_nat (length l) <=? ml).
Proof.
  intros Hml. unfold make_dag. destruct (N.of_nat (length l) <=? ml); [reflexivity|].
  simpl. rewrite map_length, seq_length. reflexivity.
Qed.

Lemma data_puts_nodes evs : Forall is_node (put_cids evs) -> data_puts evs = [].
Proof.
  induction evs as [|ev evs IH]; [reflexivity|]. destruct ev; simpl; auto.
  intros H. inversion H; subst. destruct c; [contradiction|]. simpl. auto.
Qed.

Fixpoint walk_cur (curr : list N) (t : list event) : list N :=
  match t with
  | [] => curr
  | EAlloc (Some a) :: r => walk_cur a r
  | _ :: r => walk_cur curr r
  end.

Lemma allocs_walk_app ew c a b :
  allocs_walk ew c (a ++ b) = allocs_walk ew c a && allocs_walk ew (walk_cur c a) b.
Proof.
  revert c. induction a as [|ev a IH]; intros c; [reflexivity|].
  destruct ev as [[al|]|cc ds r|q [|]]; simpl; rewrite ?IH, ?andb_assoc; reflexivity.
Qed.

Lemma walk_cur_app c a b : walk_cur c (a ++ b) = walk_cur (walk_cur c a) b.
Proof. revert c. induction a as [|ev a IH]; intros c; [reflexivity|]. destruct ev as [[al|]|cc ds r|q ok]; simpl; apply IH. Qed.

Lemma only_puts_walk ew A B evs : only_puts A evs -> incl A B ->
  allocs_walk ew B evs = true /\ walk_cur B evs = B.
Proof.
  intros H HAB. induction H as [|ev evs Hev _ IH]; [split; reflexivity|].
  destruct ev; try contradiction. simpl. destruct IH as [IH1 IH2]. rewrite IH1, IH2. split; [|reflexivity].
  rewrite andb_true_r. apply orb_true_iff. left. apply subsetb_incl. eapply incl_tran; eassumption.
Qed.

Lemma only_node_puts_walk ew B evs :
  only_puts [0] evs -> Forall is_node (put_cids evs) -> allocs_walk ew B evs = true /\ walk_cur B evs = B.
Proof.
  intros H. induction H as [|ev evs Hev _ IH]; intros Hn; [split; reflexivity|].
  destruct ev; try contradiction. simpl in Hn. inversion Hn; subst. destruct (IH H2) as [IH1 IH2].
  simpl. rewrite IH1, IH2. split; [|reflexivity]. rewrite andb_true_r. apply orb_true_iff. right.
  destruct c; [contradiction|]. apply subsetb_incl. assumption.
Qed.

Lemma listN_eqb_refl l : listN_eqb l l = true.
Proof. induction l as [|a l IH]; simpl; [reflexivity|]. unfold listN_eqb in *. simpl. now rewrite N.eqb_refl, IH. Qed.

Lemma dedup_from_snoc seen l x :
  dedup_from seen (l ++ [x]) = dedup_from seen l ++ (if memN x seen || memN x l then [] else [x]).
Proof.
  revert seen. induction l as [|a l IH]; intros seen; simpl.
  - rewrite orb_false_r. destruct (memN x seen); reflexivity.
  - destruct (memN a seen) eqn:Ea.
    + rewrite IH. f_equal. destruct (N.eqb_spec x a) as [->|Hn]; simpl; [now rewrite Ea|reflexivity].
    + simpl. rewrite IH. f_equal. f_equal. simpl. destruct (N.eqb x a); simpl; [now rewrite orb_true_r|reflexivity].
Qed.

Lemma cids_of_app a b : cids_of (a ++ b) = cids_of a ++ cids_of b.
Proof. apply map_app. Qed.

Lemma dedup_snoc_new pre b : ~ In (bcid b) (cids_of pre) ->
  dedup (cids_of (pre ++ [b])) = dedup (cids_of pre) ++ [bcid b].
Proof.
  intros H. unfold dedup. rewrite cids_of_app. simpl. rewrite dedup_from_snoc. simpl.
  apply memN_false in H. now rewrite H.
Qed.

Lemma dedup_snoc_old pre b : In (bcid b) (cids_of pre) ->
  dedup (cids_of (pre ++ [b])) = dedup (cids_of pre).
Proof.
  intros H. unfold dedup. rewrite cids_of_app. simpl. rewrite dedup_from_snoc. simpl.
  apply memN_in in H. rewrite H. apply app_nil_r.
Qed.

Lemma size_of_in s b : sizes_by_cid s -> In b s -> size_of s (bcid b) = bsize b.
Proof.
  intros Hsz Hb. unfold size_of.
  destruct (find (fun b0 => bcid b0 =? bcid b) s) as [b'|] eqn:E.
  - apply find_some in E. destruct E as [E1 E2]. apply N.eqb_eq in E2. now apply Hsz.
  - exfalso. eapply find_none in E; [|exact Hb]. simpl in E. now rewrite N.eqb_refl in E.
Qed.

Lemma sum_sizes_snoc s l c : sum_sizes s (l ++ [c]) = sum_sizes s l + size_of s c.
Proof. unfold sum_sizes. induction l as [|a l IH]; simpl; [lia|]. rewrite IH. lia. Qed.

Section Sharding.
Variable e : env.
Variable s : list block.
Hypothesis Hml : 0 < e_maxlinks e.
Hypothesis Hsz : sizes_by_cid s.

Definition P_add (q : pin) (ok : bool) : Prop := pty q = TShard /\ shard_pin_good e s q.

Definition T (st : sst) : list event := chron (sio st).
Definition cur_links (st : sst) : list N := match cur st with Some sh => sh_links sh | None => [] end.
Definition lastp (prv : option cid) (xs : list shrec) : option cid := fold_left (fun _ x => Some (shard_cid e x)) xs prv.
Definition rec_of (sh : shard) : shrec := mkshrec (sh_links sh) (sh_allocs sh) (sh_size sh).
Definition shard_pin (k : N) (prv : option cid) (x : shrec) : pin :=
  mkpin (shard_cid e x) TShard (NShard k) (if (e_rmin e <? 0)%Z then [] else r_allocs x)
        (if N.of_nat (length (r_links x)) <=? e_maxlinks e then 1%Z else 2%Z) prv (e_rmin e) (e_rmax e) (r_size x).

Lemma shard_pins_of_snoc k prv xs x :
  shard_pins_of e k prv (xs ++ [x]) = shard_pins_of e k prv xs ++ [shard_pin (k + N.of_nat (length xs)) (lastp prv xs) x].
Proof.
  revert k prv. induction xs as [|y xs IH]; intros k prv.
  - simpl. unfold shard_pin. now rewrite N.add_0_r.
  - cbn [app shard_pins_of]. rewrite IH. cbn [length lastp fold_left].
    replace (k + 1 + N.of_nat (length xs)) with (k + N.of_nat (S (length xs))) by lia. reflexivity.
Qed.

Lemma lastp_snoc prv xs x : lastp prv (xs ++ [x]) = Some (shard_cid e x).
Proof. unfold lastp. now rewrite fold_left_app. Qed.

Definition WfIo (i : io) : Prop :=
  wf e P_add 0 0 0 (chron i) /\ na i = cnt_a (chron i) /\ nr i = cnt_j (chron i) /\ np i = cnt_p (chron i).

Lemma WfIo_ext i i' evs : WfIo i -> ext e P_add i i' evs -> WfIo i'.
Proof.
  intros (W & A & J & Pn) (E1 & E2 & E3 & E4 & E5). unfold WfIo. rewrite E1.
  split; [apply wf_app; split; [assumption|]; change (wf e P_add (0 + cnt_a (chron i)) (0 + cnt_j (chron i)) (0 + cnt_p (chron i)) evs); rewrite !N.add_0_l, <- A, <- J, <- Pn; assumption|].
  rewrite cnt_a_app, cnt_j_app, cnt_p_app. lia.
Qed.

Record InvBase (pA pD : list block) (xs : list shrec) (st : sst) : Prop := {
  i_added : forall c, PositiveSet.In (key c) (added st) <-> In c (cids_of pA);
  i_part : concat (map r_links xs) ++ cur_links st = dedup (cids_of pD);
  i_shards : shards st = map (shard_cid e) xs;
  i_prev : prev st = lastp None xs;
  i_pins : ok_pins (T st) = shard_pins_of e 0 None xs;
  i_allpins : all_pins (T st) = ok_pins (T st);
  i_data : data_puts (T st) = dedup (cids_of pD);
  i_putsok : Forall (fun x => snd x <> None) (puts (T st));
  i_nodes : forall x, In x xs -> incl (make_dag (e_maxlinks e) (map CData (r_links x))) (put_cids (T st));
  i_xs : Forall (fun x => r_size x = sum_sizes s (r_links x) /\ r_size x < e_limit e /\
                          In (Some (r_allocs x)) (alloc_results (T st))) xs;
  i_walk : allocs_walk (e_rmin e <? 0)%Z [] (T st) = true;
  i_wfio : WfIo (sio st)
}.

Definition CurOk (st : sst) : Prop :=
  match cur st with
  | None => True
  | Some sh => sh_size sh = sum_sizes s (sh_links sh) /\ In (Some (sh_allocs sh)) (alloc_results (T st)) /\
               incl (sh_ba sh) (sh_allocs sh) /\ walk_cur [] (T st) = sh_allocs sh
  end.
Definition CurLim (st : sst) : Prop :=
  match cur st with None => True | Some sh => sh_size sh < e_limit e end.

Lemma Forall_xs_app (t evs : list event) (xs : list shrec) :
  Forall (fun x => r_size x = sum_sizes s (r_links x) /\ r_size x < e_limit e /\ In (Some (r_allocs x)) (alloc_results t)) xs ->
  Forall (fun x => r_size x = sum_sizes s (r_links x) /\ r_size x < e_limit e /\ In (Some (r_allocs x)) (alloc_results (t ++ evs))) xs.
Proof.
  apply Forall_impl. intros x (A & B & C). split; [assumption|]. split; [assumption|].
  rewrite alloc_results_app. apply in_or_app. now left.
Qed.

(* ---- flush ---- *)
Lemma flush_spec pA pD xs st r st' :
  InvBase pA pD xs st -> CurOk st -> CurLim st -> flush e st = (r, st') ->
  WfIo (sio st') /\
  (r = None -> exists sh, cur st = Some sh /\ InvBase pA pD (xs ++ [rec_of sh]) st' /\ cur st' = None).
Proof.
  intros I CO CL H. unfold flush in H. unfold CurOk, CurLim in *.
  destruct (cur st) as [sh|] eqn:Ecur.
  2:{ inversion H; subst. split; [apply I|discriminate]. }
  destruct CO as (CO1 & CO2 & CO3 & CO4).
  set (L := map CData (sh_links sh)) in *.
  destruct (put_many e (make_dag (e_maxlinks e) L) (sh_ba sh) (sio st)) as [[d'|] s1] eqn:Hpm.
  2:{ inversion H; subst. destruct (put_many_ext e P_add _ _ _ _ _ Hpm) as (evs & Hx & _).
      split; [|discriminate]. simpl. eapply WfIo_ext; [apply I|eassumption]. }
  destruct (put_many_ext e P_add _ _ _ _ _ Hpm) as (evs & Hx & Hop & Hs).
  destruct (Hs d' eq_refl) as (Hd' & Hcids & Hok). clear Hs.
  set (p := mkpin (dag_root (e_maxlinks e) L) TShard (NShard (N.of_nat (length (shards st)))) (sh_allocs sh)
                  (shard_depth (make_dag (e_maxlinks e) L) (sh_links sh)) (prev st) (e_rmin e) (e_rmax e) (sh_size sh)) in *.
  assert (Hdepth : pdepth p = (if N.of_nat (length (sh_links sh)) <=? e_maxlinks e then 1%Z else 2%Z)).
  { unfold p, shard_depth. simpl. rewrite make_dag_length by assumption. unfold L. rewrite map_length.
    destruct (_ <=? _); reflexivity. }
  assert (HP : forall ok, P_add (clear_allocs p) ok).
  { intros ok. unfold P_add, clear_allocs. destruct (prmin p <? 0)%Z; (split; [reflexivity|]);
    exists (sh_links sh); simpl; (split; [reflexivity|]); (split; [assumption|]); (split; [assumption|]); exact Hdepth. }
  destruct (do_pin e p s1) as [ok s2] eqn:Hpin.
  pose proof (do_pin_ext e P_add _ _ _ _ Hpin (HP ok)) as Hx2.
  pose proof (ext_trans _ _ _ _ _ _ _ Hx Hx2) as Hx3.
  assert (W : WfIo s2) by (eapply WfIo_ext; [apply I|eassumption]).
  destruct ok; inversion H; subst; clear H.
  2:{ split; [assumption|discriminate]. }
  split; [assumption|]. intros _. exists sh. split; [reflexivity|]. split; [|reflexivity].
  destruct Hx3 as (HT & _).
  destruct (only_puts_proj _ _ Hop) as (Hap & Hokp & Har).
  assert (HT' : T (mksst (added st) None (Some (dag_root (e_maxlinks e) L)) (shards st ++ [dag_root (e_maxlinks e) L]) s2)
                = T st ++ evs ++ [EPin (clear_allocs p) true]) by exact HT.
  assert (Hlen : length (shards st) = length xs) by (rewrite (i_shards _ _ _ _ I); apply map_length).
  constructor; cbn [added cur prev shards sio]; rewrite ?HT'.
  - apply I.
  - unfold cur_links. cbn [cur]. rewrite map_app, concat_app. simpl. rewrite !app_nil_r.
    rewrite <- (i_part _ _ _ _ I). unfold cur_links. now rewrite Ecur.
  - rewrite map_app, (i_shards _ _ _ _ I). reflexivity.
  - now rewrite lastp_snoc.
  - rewrite !ok_pins_app, Hokp, (i_pins _ _ _ _ I), shard_pins_of_snoc. simpl. f_equal. f_equal.
    unfold shard_pin, clear_allocs, p. cbn [prmin pcid pty pnm pdepth pref prmax pssize rec_of r_links r_allocs r_size].
    rewrite Hlen, <- (i_prev _ _ _ _ I).
    change (shard_depth (make_dag (e_maxlinks e) L) (sh_links sh)) with (pdepth p). rewrite Hdepth.
    destruct (e_rmin e <? 0)%Z; reflexivity.
  - rewrite !all_pins_app, !ok_pins_app, Hap, Hokp, (i_allpins _ _ _ _ I). reflexivity.
  - rewrite !data_puts_app, (i_data _ _ _ _ I). simpl.
    rewrite (data_puts_nodes evs); [now rewrite !app_nil_r|]. rewrite Hcids. apply make_dag_nodes.
  - rewrite !puts_app. apply Forall_app. split; [apply I|]. apply Forall_app. split; [assumption|constructor].
  - intros x Hin. apply in_app_or in Hin. rewrite !put_cids_app. destruct Hin as [Hin|[<-|[]]].
    + apply incl_appl. now apply (i_nodes _ _ _ _ I).
    + apply incl_appr, incl_appl. rewrite Hcids. apply incl_refl.
  - apply Forall_app. split.
    + apply Forall_xs_app. apply I.
    + constructor; [|constructor]. cbn [rec_of r_links r_allocs r_size]. split; [assumption|]. split; [assumption|].
      rewrite alloc_results_app. apply in_or_app. now left.
  - rewrite !allocs_walk_app, (i_walk _ _ _ _ I). cbn [andb].
    destruct (only_puts_walk (e_rmin e <? 0)%Z _ _ _ Hop CO3) as [Hw1 Hw2].
    rewrite CO4, Hw1, Hw2. cbn [andb allocs_walk].
    unfold clear_allocs, p. cbn [prmin pty pallocs]. destruct (e_rmin e <? 0)%Z; cbn [pty pallocs]; now rewrite listN_eqb_refl.
  - assumption.
Qed.

(* events that touch nothing but the counters and allocation list: used to transport InvBase *)
Lemma InvBase_ext_alloc pA pD xs st r io' c' :
  InvBase pA pD xs st -> ext e P_add (sio st) io' [EAlloc r] ->
  cur_links (mksst (added st) c' (prev st) (shards st) io') = cur_links st ->
  InvBase pA pD xs (mksst (added st) c' (prev st) (shards st) io').
Proof.
  intros I Hx Hcl.
  assert (HT : T (mksst (added st) c' (prev st) (shards st) io') = T st ++ [EAlloc r]) by apply Hx.
  constructor; cbn [added prev shards sio]; rewrite ?HT, ?Hcl.
  - apply I.
  - apply I.
  - apply I.
  - apply I.
  - rewrite ok_pins_app. simpl. rewrite app_nil_r. apply I.
  - rewrite all_pins_app, ok_pins_app. simpl. rewrite !app_nil_r. apply I.
  - rewrite data_puts_app. simpl. rewrite app_nil_r. apply I.
  - rewrite puts_app. simpl. rewrite app_nil_r. apply I.
  - intros x Hin. rewrite put_cids_app. apply incl_appl. now apply (i_nodes _ _ _ _ I).
  - apply Forall_xs_app. apply I.
  - rewrite allocs_walk_app, (i_walk _ _ _ _ I). destruct r; reflexivity.
  - eapply WfIo_ext; [apply I|eassumption].
Qed.

(* ---- ensure_shard (newShard) ---- *)
Lemma ensure_shard_spec pA pD xs st r st1 :
  InvBase pA pD xs st -> CurOk st -> ensure_shard e st = (r, st1) ->
  WfIo (sio st1) /\
  (forall sh, r = inr sh ->
     InvBase pA pD xs st1 /\ CurOk st1 /\ cur st1 = Some sh /\
     (cur st = Some sh /\ st1 = st \/ cur st = None /\ sh_links sh = [] /\ sh_size sh = 0)).
Proof.
  intros I CO H. unfold ensure_shard in H. destruct (cur st) as [sh0|] eqn:Ecur.
  - inversion H; subst. split; [apply I|]. intros sh Hs. inversion Hs; subst.
    split; [assumption|]. split; [assumption|]. split; [assumption|]. left. split; reflexivity.
  - unfold new_shard in H. destruct (do_alloc e (sio st)) as [[al|] s1] eqn:Ha.
    + destruct (do_alloc_ext e P_add _ _ _ Ha) as [Hx _].
      assert (W : WfIo s1) by (eapply WfIo_ext; [apply I|eassumption]).
      destruct ((0 <? e_rmin e)%Z && Nat.eqb (length al) 0); inversion H; subst; clear H.
      * split; [assumption|]. intros sh Hs. discriminate.
      * split; [assumption|]. intros sh Hs. inversion Hs; subst. clear Hs.
        assert (Hcl : cur_links (mksst (added st) (Some (mkshard al al [] 0)) (prev st) (shards st) s1) = cur_links st)
          by (unfold cur_links; cbn [cur]; now rewrite Ecur).
        pose proof (InvBase_ext_alloc _ _ _ _ _ _ _ I Hx Hcl) as I1.
        split; [exact I1|]. split.
        -- unfold CurOk, set_cur. cbn [cur sh_size sh_links sh_allocs sh_ba].
           assert (HT : T (mksst (added st) (Some (mkshard al al [] 0)) (prev st) (shards st) s1) = T st ++ [EAlloc (Some al)]) by apply Hx.
           rewrite HT. split; [reflexivity|]. split; [rewrite alloc_results_app; apply in_or_app; right; now left|].
           split; [apply incl_refl|]. now rewrite walk_cur_app.
        -- split; [reflexivity|]. right. split; [reflexivity|]. split; reflexivity.
    + destruct (do_alloc_ext e P_add _ _ _ Ha) as [Hx _]. inversion H; subst.
      split; [simpl; eapply WfIo_ext; [apply I|eassumption]|]. intros sh Hs. discriminate.
Qed.

(* ---- add_link ---- *)
Lemma add_link_spec pD xs st1 sh b r st' :
  InvBase (pD ++ [b]) pD xs st1 -> CurOk st1 -> cur st1 = Some sh ->
  In b s -> ~ In (bcid b) (cids_of pD) -> sh_size sh + bsize b < e_limit e ->
  add_link e b sh st1 = (r, st') ->
  WfIo (sio st') /\ (r = None -> InvBase (pD ++ [b]) (pD ++ [b]) xs st' /\ CurOk st' /\ CurLim st').
Proof.
  intros I CO Ecur Hb Hnew Hfit H. unfold add_link in H.
  unfold CurOk in CO. rewrite Ecur in CO. destruct CO as (CO1 & CO2 & CO3 & CO4).
  destruct (do_put e (CData (bcid b)) (sh_ba sh) (sio st1)) as [[ba'|] s1] eqn:Hp.
  2:{ inversion H; subst. destruct (do_put_ext e P_add _ _ _ _ _ Hp) as [Hx _].
      split; [simpl; eapply WfIo_ext; [apply I|eassumption]|discriminate]. }
  destruct (do_put_ext e P_add _ _ _ _ _ Hp) as [Hx Hr]. inversion H; subst; clear H.
  assert (W : WfIo s1) by (eapply WfIo_ext; [apply I|eassumption]).
  split; [assumption|]. intros _.
  symmetry in Hr. apply ba_add_some in Hr. destruct Hr as (_ & _ & _ & Hincl & _).
  unfold set_cur.
  assert (HT : T (mksst (added st1) (Some (mkshard (sh_allocs sh) ba' (sh_links sh ++ [bcid b]) (sh_size sh + bsize b)))
                        (prev st1) (shards st1) s1) = T st1 ++ [EPut (CData (bcid b)) (sh_ba sh) (Some ba')]) by apply Hx.
  split; [|split].
  - constructor; cbn [added prev shards sio]; rewrite ?HT.
    + apply I.
    + unfold cur_links. cbn [cur sh_links]. rewrite app_assoc.
      pose proof (i_part _ _ _ _ I) as Hp0. unfold cur_links in Hp0. rewrite Ecur in Hp0. rewrite Hp0.
      symmetry. now apply dedup_snoc_new.
    + apply I.
    + apply I.
    + rewrite ok_pins_app. simpl. rewrite app_nil_r. apply I.
    + rewrite all_pins_app, ok_pins_app. simpl. rewrite !app_nil_r. apply I.
    + rewrite data_puts_app, (i_data _ _ _ _ I). simpl. symmetry. now apply dedup_snoc_new.
    + rewrite puts_app. apply Forall_app. split; [apply I|]. simpl. constructor; [simpl; discriminate|constructor].
    + intros x Hin. rewrite put_cids_app. apply incl_appl. now apply (i_nodes _ _ _ _ I).
    + apply Forall_xs_app. apply I.
    + rewrite allocs_walk_app, (i_walk _ _ _ _ I), CO4. simpl. rewrite andb_true_r. apply orb_true_iff. left.
      now apply subsetb_incl.
    + assumption.
  - unfold CurOk. cbn [cur sh_size sh_links sh_allocs sh_ba]. rewrite HT.
    split; [rewrite sum_sizes_snoc, (size_of_in _ _ Hsz Hb); lia|].
    split; [rewrite alloc_results_app; apply in_or_app; now left|].
    split; [eapply incl_tran; eassumption|]. rewrite walk_cur_app. simpl. assumption.
  - unfold CurLim. cbn [cur sh_size]. assumption.
Qed.

(* ---- ingestBlock ---- *)
Lemma ingest_spec f pD xs st b r st' :
  InvBase (pD ++ [b]) pD xs st -> CurOk st -> CurLim st ->
  In b s -> ~ In (bcid b) (cids_of pD) ->
  (cur st = None -> (1 <= f)%nat) -> (2 <= f)%nat \/ cur st = None ->
  ingest f e b st = (r, st') ->
  WfIo (sio st') /\ r <> Some EFuel /\
  (r = None -> exists xs', InvBase (pD ++ [b]) (pD ++ [b]) xs' st' /\ CurOk st' /\ CurLim st').
Proof.
  revert xs st. induction f as [|f IH]; intros xs st I CO CL Hb Hnew Hf1 Hf2 H.
  { exfalso. destruct Hf2 as [Hf2|Hf2]; [lia|]. specialize (Hf1 Hf2). lia. }
  cbn [ingest] in H.
  destruct (ensure_shard e st) as [[er|sh] st1] eqn:Hens.
  - destruct (ensure_shard_spec _ _ _ _ _ _ I CO Hens) as [W _]. inversion H; subst.
    split; [assumption|]. split; [|discriminate].
    unfold ensure_shard, new_shard in Hens. destruct (cur st); [discriminate|].
    destruct (do_alloc e (sio st)) as [[al|] s1]; [|inversion Hens; discriminate].
    destruct (_ && _); inversion Hens; discriminate.
  - destruct (ensure_shard_spec _ _ _ _ _ _ I CO Hens) as [W Hsh]. destruct (Hsh sh eq_refl) as (I1 & CO1 & Ecur1 & Hcase).
    destruct (sh_size sh + bsize b <? e_limit e) eqn:Hfit.
    + apply N.ltb_lt in Hfit. destruct (add_link_spec _ _ _ _ _ _ _ I1 CO1 Ecur1 Hb Hnew Hfit H) as [W2 Hok].
      split; [assumption|]. split.
      * unfold add_link in H. destruct (do_put _ _ _ _) as [[?|] ?]; inversion H; discriminate.
      * intros Hr. exists xs. now apply Hok.
    + destruct (sh_size sh =? 0) eqn:Hz.
      * inversion H; subst. split; [assumption|]. split; discriminate.
      * (* flush and retry: only possible when the shard existed before *)
        destruct Hcase as [[Ecur ->]|[_ [_ Hsz0]]]; [|rewrite Hsz0 in Hz; discriminate].
        destruct (flush e st) as [[er|] st2] eqn:Hfl.
        -- destruct (flush_spec _ _ _ _ _ _ I CO CL Hfl) as [W2 _]. inversion H; subst.
           split; [assumption|]. split; [|discriminate].
           unfold flush in Hfl. rewrite Ecur in Hfl.
           destruct (put_many _ _ _ _) as [[?|] ?]; [|inversion Hfl; discriminate].
           destruct (do_pin _ _ _) as [[|] ?]; inversion Hfl; discriminate.
        -- destruct (flush_spec _ _ _ _ _ _ I CO CL Hfl) as [W2 Hok].
           destruct (Hok eq_refl) as (sh' & _ & I2 & Ecur2).
           assert (CO2 : CurOk st2) by (unfold CurOk; now rewrite Ecur2).
           assert (CL2 : CurLim st2) by (unfold CurLim; now rewrite Ecur2).
           apply (IH _ _ I2 CO2 CL2 Hb Hnew); [intros _; destruct Hf2 as [Hf2|Hf2]; [lia|congruence]|now right|exact H].
Qed.

(* ---- DAGService.Add ---- *)
Definition Inv (pre : list block) (xs : list shrec) (st : sst) : Prop := InvBase pre pre xs st /\ CurOk st /\ CurLim st.

Lemma InvBase_added pA pA' pD xs st a' :
  InvBase pA pD xs st -> (forall c, PositiveSet.In (key c) a' <-> In c (cids_of pA')) ->
  InvBase pA' pD xs (mksst a' (cur st) (prev st) (shards st) (sio st)).
Proof.
  intros I Ha. constructor; try apply I. exact Ha.
Qed.

Lemma shard_add_spec pre xs st b r st' :
  Inv pre xs st -> In b s -> shard_add e b st = (r, st') ->
  WfIo (sio st') /\ r <> Some EFuel /\ (r = None -> exists xs', Inv (pre ++ [b]) xs' st').
Proof.
  intros (I & CO & CL) Hb H. unfold shard_add in H.
  destruct (PositiveSet.mem (key (bcid b)) (added st)) eqn:Hm.
  - inversion H; subst. split; [apply I|]. split; [discriminate|]. intros _. exists xs.
    apply PositiveSet.mem_spec in Hm. apply (i_added _ _ _ _ I) in Hm.
    split; [|split; assumption]. destruct I. constructor; try assumption.
    + intros c. rewrite i_added0, cids_of_app, in_app_iff. simpl. split; [tauto|]. intros [?|[<-|[]]]; assumption.
    + now rewrite dedup_snoc_old.
    + now rewrite dedup_snoc_old.
  - assert (Hm' : ~ In (bcid b) (cids_of pre)).
    { intros Hin. apply (i_added _ _ _ _ I) in Hin. apply PositiveSet.mem_spec in Hin. congruence. }
    clear Hm. rename Hm' into Hm.
    set (st0 := mksst (PositiveSet.add (key (bcid b)) (added st)) (cur st) (prev st) (shards st) (sio st)) in *.
    assert (I0 : InvBase (pre ++ [b]) pre xs st0).
    { apply (InvBase_added _ _ _ _ _ _ I). intros c. rewrite cids_of_app, in_app_iff. simpl.
      rewrite PositiveSet.add_spec, <- (i_added _ _ _ _ I). split.
      - intros [Hk|Hc]; [right; left; symmetry; now apply key_inj|now left].
      - intros [Hc|[<-|[]]]; [now right|now left]. }
    destruct (ingest_spec 2 _ _ _ _ _ _ I0 CO CL Hb Hm (fun _ => ltac:(lia)) (or_introl (le_n 2)) H) as (W & Hf & Hok).
    split; [assumption|]. split; [assumption|]. intros Hr. destruct (Hok Hr) as (xs' & ?). exists xs'. assumption.
Qed.

(* ---- the Adder loop over the importer's stream (no swallowed error) ---- *)
Lemma add_all_shard_spec bs pre xs st r st' :
  Inv pre xs st -> incl bs s -> (forall b, In b bs -> bswallow b = false) ->
  add_all (shard_add e) bs st = (r, st') ->
  WfIo (sio st') /\ r <> Some EFuel /\ (r = None -> exists xs', Inv (pre ++ bs) xs' st').
Proof.
  revert pre xs st. induction bs as [|b bs IH]; intros pre xs st I Hin Hsw H; simpl in H.
  - inversion H; subst. split; [apply I|]. split; [discriminate|]. intros _. exists xs. now rewrite app_nil_r.
  - destruct (shard_add e b st) as [[er|] st1] eqn:Ha.
    + rewrite (Hsw b (or_introl eq_refl)) in H. inversion H; subst.
      destruct (shard_add_spec _ _ _ _ _ _ I (Hin b (or_introl eq_refl)) Ha) as (W & Hf & _).
      split; [assumption|]. split; [assumption|discriminate].
    + destruct (shard_add_spec _ _ _ _ _ _ I (Hin b (or_introl eq_refl)) Ha) as (W & Hf & Hok).
      destruct (Hok eq_refl) as (xs1 & I1).
      destruct (IH _ _ _ I1 (fun x Hx => Hin x (or_intror Hx)) (fun x Hx => Hsw x (or_intror Hx)) H) as (W2 & Hf2 & Hok2).
      split; [assumption|]. split; [assumption|]. intros Hr. destruct (Hok2 Hr) as (xs' & I'). exists xs'.
      now rewrite <- app_assoc in I'.
Qed.

Lemma Inv0 : Inv [] [] sst0.
Proof.
  split; [|split; exact I]. constructor.
  - intros c. simpl. split; [intros H; now apply PositiveSet.empty_spec in H|intros []].
  - reflexivity.
  - reflexivity.
  - reflexivity.
  - reflexivity.
  - reflexivity.
  - reflexivity.
  - constructor.
  - intros x [].
  - constructor.
  - reflexivity.
  - unfold WfIo. simpl. tauto.
Qed.

(* ---- Finalize ---- *)
Definition Pall (q : pin) (ok : bool) : Prop := pty q = TShard -> shard_pin_good e s q.

Lemma P_add_Pall q ok : P_add q ok -> Pall q ok.
Proof. intros [_ H] _. exact H. Qed.

Lemma wf_P_add_nodes a j p t : wf e P_add a j p t -> Forall (fun q => is_node (pcid q)) (all_pins t).
Proof.
  revert a j p. induction t as [|ev t IH]; intros a j p H; [constructor|].
  destruct ev; simpl in *.
  - apply (IH _ _ _ (proj2 H)).
  - apply (IH _ _ _ (proj2 H)).
  - destruct H as (_ & [_ (l & Hc & _)] & H). constructor; [rewrite Hc; apply dag_root_is_node|apply (IH _ _ _ H)].
Qed.

Lemma ok_pins_incl_all t q : In q (ok_pins t) -> In q (all_pins t).
Proof.
  induction t as [|ev t IH]; [intros []|]. destruct ev as [r|c ds r|q' [|]]; simpl; auto.
  intros [<-|H]; [now left|right; auto].
Qed.

Record FinalOk (root : N) (pre : list block) (xs : list shrec) (t : list event) : Prop := {
  f_pins : ok_pins t = shard_pins_of e 0 None xs ++ [cdag_pin e root xs; meta_pin e root xs];
  f_allpins : all_pins t = ok_pins t;
  f_part : concat (map r_links xs) = dedup (cids_of pre);
  f_data : data_puts t = dedup (cids_of pre);
  f_putsok : Forall (fun x => snd x <> None) (puts t);
  f_nodes : forall x, In x xs -> incl (make_dag (e_maxlinks e) (map CData (r_links x))) (put_cids t);
  f_cdag : incl (make_dag (e_maxlinks e) (map (shard_cid e) xs)) (put_cids t);
  f_xs : Forall (fun x => r_size x = sum_sizes s (r_links x) /\ r_size x < e_limit e /\ In (Some (r_allocs x)) (alloc_results t)) xs;
  f_walk : allocs_walk (e_rmin e <? 0)%Z [] t = true;
  f_nonempty : xs <> []
}.

Lemma wf_full_of_ext i i' evs : WfIo i -> ext e Pall i i' evs -> wf e Pall 0 0 0 (chron i') /\ chron i' = chron i ++ evs.
Proof.
  intros (W & A & J & Pn) (E1 & E2 & _). split; [|assumption]. rewrite E1. apply wf_app. split.
  - eapply wf_mono; [apply P_add_Pall|assumption].
  - change (wf e Pall (0 + cnt_a (chron i)) (0 + cnt_j (chron i)) (0 + cnt_p (chron i)) evs).
    rewrite !N.add_0_l, <- A, <- J, <- Pn. assumption.
Qed.

Lemma ext_mono (P Q : pin -> bool -> Prop) i i' evs : (forall q ok, P q ok -> Q q ok) -> ext e P i i' evs -> ext e Q i i' evs.
Proof. intros HPQ (E1 & E2 & E3). split; [assumption|]. split; [eapply wf_mono; eassumption|assumption]. Qed.

Lemma shard_finalize_spec root pre xs st r st' :
  Inv pre xs st -> shard_finalize e root st = (r, st') ->
  wf e Pall 0 0 0 (T st') /\
  (forall er, r = RErr er -> er <> EFuel /\ Forall (fun q => is_node (pcid q)) (ok_pins (T st'))) /\
  (forall c, r = ROk c -> c = CData root /\ exists xs', FinalOk root pre xs' (T st')).
Proof.
  intros (I & CO & CL) H. unfold shard_finalize in H.
  assert (Hok_nodes : forall i, WfIo i -> Forall (fun q => is_node (pcid q)) (ok_pins (chron i))).
  { intros i (W & _). apply Forall_forall. intros q Hq. apply ok_pins_incl_all in Hq.
    pose proof (wf_P_add_nodes _ _ _ _ W) as HF. rewrite Forall_forall in HF. now apply HF. }
  destruct (flush e st) as [[er|] st1] eqn:Hfl.
  { destruct (flush_spec _ _ _ _ _ _ I CO CL Hfl) as [W _]. inversion H; subst. split; [|split].
    - eapply wf_mono; [apply P_add_Pall|apply W].
    - intros er' Her. inversion Her; subst. split; [|now apply Hok_nodes].
      unfold flush in Hfl. destruct (cur st); [|inversion Hfl; discriminate].
      destruct (put_many _ _ _ _) as [[?|] ?]; [|inversion Hfl; discriminate].
      destruct (do_pin _ _ _) as [[|] ?]; inversion Hfl; discriminate.
    - intros c Hc. discriminate. }
  destruct (flush_spec _ _ _ _ _ _ I CO CL Hfl) as [W1 Hok1].
  destruct (Hok1 eq_refl) as (sh & Ecur & I1 & Ecur1). clear Hok1.
  set (xs' := xs ++ [rec_of sh]) in *.
  assert (Hsh : shards st1 = map (shard_cid e) xs') by apply I1.
  rewrite Hsh in H.
  destruct (put_many e (make_dag (e_maxlinks e) (map (shard_cid e) xs')) [0] (sio st1)) as [[d'|] s2] eqn:Hpm.
  2:{ destruct (put_many_ext e P_add _ _ _ _ _ Hpm) as (evs & Hx & _). inversion H; subst.
      assert (W2 : WfIo s2) by (eapply WfIo_ext; eassumption). split; [|split].
      - eapply wf_mono; [apply P_add_Pall|apply W2].
      - intros er' Her. inversion Her; subst. split; [discriminate|now apply Hok_nodes].
      - intros c Hc. discriminate. }
  destruct (put_many_ext e P_add _ _ _ _ _ Hpm) as (evs & Hx & Hop & Hs).
  destruct (Hs d' eq_refl) as (_ & Hcids & Hpok). clear Hs.
  assert (W2 : WfIo s2) by (eapply WfIo_ext; eassumption).
  set (p1 := mkpin (dag_root (e_maxlinks e) (map (shard_cid e) xs')) TClusterDAG NClusterDAG [] 0%Z (Some (CData root)) (-1)%Z (-1)%Z (e_limit e)) in *.
  set (p2 := mkpin (CData root) TMeta NBase [] 0%Z (Some (dag_root (e_maxlinks e) (map (shard_cid e) xs'))) (e_rmin e) (e_rmax e) (e_limit e)) in *.
  assert (Hc1 : clear_allocs p1 = cdag_pin e root xs') by reflexivity.
  assert (Hc2 : clear_allocs p2 = meta_pin e root xs') by (unfold clear_allocs, p2, meta_pin, cdag_cid; cbn [prmin]; destruct (e_rmin e <? 0)%Z; reflexivity).
  assert (HP1 : forall ok, Pall (clear_allocs p1) ok) by (intros ok; rewrite Hc1; intros Hty; discriminate).
  assert (HP2 : forall ok, Pall (clear_allocs p2) ok) by (intros ok; rewrite Hc2; intros Hty; discriminate).
  destruct (do_pin e p1 s2) as [ok1 s3] eqn:Hpin1.
  pose proof (do_pin_ext e Pall _ _ _ _ Hpin1 (HP1 ok1)) as Hx1. rewrite Hc1 in Hx1.
  destruct (wf_full_of_ext _ _ _ W2 Hx1) as [Wf3 HT3].
  destruct (only_puts_proj _ _ Hop) as (Hap & Hokp & Har).
  assert (HT2 : chron s2 = T st1 ++ evs) by apply Hx.
  destruct ok1.
  2:{ inversion H; subst. split; [exact Wf3|]. split.
      - intros er' Her. inversion Her; subst. split; [discriminate|].
        change (T (set_io st1 s3)) with (chron s3). rewrite HT3, ok_pins_app. simpl. rewrite app_nil_r. now apply Hok_nodes.
      - intros c Hc. discriminate. }
  destruct (do_pin e p2 s3) as [ok2 s4] eqn:Hpin2.
  pose proof (do_pin_ext e Pall _ _ _ _ Hpin2 (HP2 ok2)) as Hx2. rewrite Hc2 in Hx2.
  assert (HT4 : chron s4 = chron s3 ++ [EPin (meta_pin e root xs') ok2]) by apply Hx2.
  assert (Wf4 : wf e Pall 0 0 0 (chron s4)).
  { pose proof (ext_trans _ _ _ _ _ _ _ Hx1 Hx2) as Hx12. apply (wf_full_of_ext _ _ _ W2 Hx12). }
  destruct ok2; inversion H; subst; clear H.
  2:{ split; [exact Wf4|]. split.
      - intros er' Her. inversion Her; subst. split; [discriminate|].
        change (T (set_io st1 s4)) with (chron s4). rewrite HT4, HT3, !ok_pins_app. simpl. rewrite app_nil_r.
        apply Forall_app. split; [now apply Hok_nodes|]. constructor; [apply dag_root_is_node|constructor].
      - intros c Hc. discriminate. }
  split; [exact Wf4|]. split; [intros er' Her; discriminate|].
  intros c Hc. inversion Hc; subst. split; [reflexivity|]. exists xs'.
  change (T (set_io st1 s4)) with (chron s4). rewrite HT4, HT3, HT2.
  constructor.
  - rewrite !ok_pins_app, Hokp, (i_pins _ _ _ _ I1). simpl. now rewrite app_nil_r, <- app_assoc.
  - rewrite !all_pins_app, !ok_pins_app, Hap, Hokp, (i_allpins _ _ _ _ I1). reflexivity.
  - pose proof (i_part _ _ _ _ I1) as Hp. unfold cur_links in Hp. rewrite Ecur1, app_nil_r in Hp. exact Hp.
  - rewrite !data_puts_app, (i_data _ _ _ _ I1). simpl.
    rewrite (data_puts_nodes evs); [now rewrite !app_nil_r|]. rewrite Hcids. apply make_dag_nodes.
  - rewrite !puts_app. simpl. rewrite !app_nil_r. apply Forall_app. split; [apply I1|assumption].
  - intros x Hin. rewrite !put_cids_app. do 2 apply incl_appl. apply incl_appl. now apply (i_nodes _ _ _ _ I1).
  - rewrite !put_cids_app. do 2 apply incl_appl. apply incl_appr. rewrite Hcids. apply incl_refl.
  - rewrite <- !app_assoc. apply Forall_xs_app. apply I1.
  - rewrite !allocs_walk_app, (i_walk _ _ _ _ I1). cbn [andb].
    destruct (only_node_puts_walk (e_rmin e <? 0)%Z (walk_cur [] (T st1)) _ Hop) as [Hw1 Hw2];
      [rewrite Hcids; apply make_dag_nodes|].
    rewrite Hw1. reflexivity.
  - unfold xs'. intros Hnil. apply app_eq_nil in Hnil. destruct Hnil as [_ Hnil]. discriminate.
Qed.

(* ---- the whole sharded add ---- *)
Theorem shard_run_spec root stream r t :
  incl stream s -> (forall b, In b stream -> bswallow b = false) ->
  shard_run e stream root = (r, t) ->
  wf e Pall 0 0 0 t /\
  (forall er, r = RErr er -> er <> EFuel /\ Forall (fun q => is_node (pcid q)) (ok_pins t)) /\
  (forall c, r = ROk c -> c = CData root /\ exists xs, FinalOk root stream xs t).
Proof.
  intros Hin Hsw H. unfold shard_run, shard_adds in H.
  destruct (add_all (shard_add e) stream sst0) as [[er|] st1] eqn:Ha.
  - destruct (add_all_shard_spec _ _ _ _ _ _ Inv0 Hin Hsw Ha) as (W & Hf & _). inversion H; subst.
    split; [eapply wf_mono; [apply P_add_Pall|apply W]|]. split.
    + intros er' Her. inversion Her; subst. split; [congruence|].
      apply Forall_forall. intros q Hq. apply ok_pins_incl_all in Hq.
      pose proof (wf_P_add_nodes _ _ _ _ (proj1 W)) as HF. rewrite Forall_forall in HF. now apply HF.
    + intros c Hc. discriminate.
  - destruct (add_all_shard_spec _ _ _ _ _ _ Inv0 Hin Hsw Ha) as (_ & _ & Hok).
    destruct (Hok eq_refl) as (xs & I). simpl in I.
    destruct (shard_finalize e root st1) as [r' st2] eqn:Hfin. inversion H; subst.
    apply (shard_finalize_spec _ _ _ _ _ _ I Hfin).
Qed.

End Sharding.

(* ------------------------------------------------------------------ *)
(* the single (unsharded) DAG service                                   *)
(* ------------------------------------------------------------------ *)
Section Single.
Variable e : env.

Definition Ptrue (q : pin) (ok : bool) : Prop := True.
Definition WfS (i : io) : Prop :=
  wf e Ptrue 0 0 0 (chron i) /\ na i = cnt_a (chron i) /\ nr i = cnt_j (chron i) /\ np i = cnt_p (chron i).

Lemma WfS_ext i i' evs : WfS i -> ext e Ptrue i i' evs -> WfS i'.
Proof.
  intros (W & A & J & Pn) (E1 & E2 & E3 & E4 & E5). unfold WfS. rewrite E1.
  split; [apply wf_app; split; [assumption|];
          change (wf e Ptrue (0 + cnt_a (chron i)) (0 + cnt_j (chron i)) (0 + cnt_p (chron i)) evs);
          rewrite !N.add_0_l, <- A, <- J, <- Pn; assumption|].
  rewrite cnt_a_app, cnt_j_app, cnt_p_app. lia.
Qed.

Definition dests_of (al : list N) : list N := if e_local e then [0] else al.

Record SInv (pre : list block) (st : single_st) : Prop := {
  s_nopins : all_pins (chron (sd_io st)) = [];
  s_data : data_puts (chron (sd_io st)) = cids_of pre;
  s_putsok : Forall (fun x => snd x <> None) (puts (chron (sd_io st)));
  s_wf : WfS (sd_io st);
  s_dests : match sd_dests st with
            | None => pre = [] /\ chron (sd_io st) = []
            | Some ds => pre <> [] /\ alloc_results (chron (sd_io st)) = [Some ds] /\ e_alloc e 0 = Some ds /\
                         incl (sd_ba st) (dests_of ds) /\
                         Forall (fun x => incl (snd (fst x)) (dests_of ds)) (puts (chron (sd_io st)))
            end
}.

Lemma all_pins_nil_ok t : all_pins t = [] -> ok_pins t = [].
Proof.
  intros H. destruct (ok_pins t) as [|q l] eqn:E; [reflexivity|].
  assert (Hin : In q (all_pins t)) by (apply ok_pins_incl_all; rewrite E; now left). rewrite H in Hin. destruct Hin.
Qed.

Lemma single_add_spec pre st b r st' :
  SInv pre st -> single_add e (bcid b) st = (r, st') ->
  WfS (sd_io st') /\ all_pins (chron (sd_io st')) = [] /\ r <> Some EFuel /\ (r = None -> SInv (pre ++ [b]) st').
Proof.
  intros I H. unfold single_add in H. pose proof (s_dests _ _ I) as Hd.
  destruct (sd_dests st) as [ds|] eqn:Eds.
  - destruct Hd as (Hne & Har & Ha0 & Hba & Hfd).
    destruct (do_put e (CData (bcid b)) (sd_ba st) (sd_io st)) as [[ba'|] s1] eqn:Hp;
      destruct (do_put_ext e Ptrue _ _ _ _ _ Hp) as [Hx Hr]; inversion H; subst; clear H;
      assert (HT : chron s1 = chron (sd_io st) ++ [EPut (CData (bcid b)) (sd_ba st) (ba_add (e_put e (nr (sd_io st))) (sd_ba st))])
        by (rewrite <- Hr; apply Hx);
      assert (W : WfS s1) by (eapply WfS_ext; [apply I|eassumption]);
      (split; [exact W|]); (split; [cbn [sd_io]; rewrite HT, all_pins_app, (s_nopins _ _ I); reflexivity|]);
      (split; [discriminate|]); [|discriminate].
    intros _. symmetry in Hr. pose proof (ba_add_some _ _ _ Hr) as (_ & _ & _ & Hincl & _). rewrite Hr in HT.
    constructor; cbn [sd_io sd_dests sd_ba]; rewrite ?HT.
    + rewrite all_pins_app, (s_nopins _ _ I). reflexivity.
    + rewrite data_puts_app, (s_data _ _ I), cids_of_app. reflexivity.
    + rewrite puts_app. apply Forall_app. split; [apply I|]. simpl. constructor; [simpl; discriminate|constructor].
    + assumption.
    + split; [intros Hnil; apply app_eq_nil in Hnil; destruct Hnil; discriminate|].
      split; [rewrite alloc_results_app, Har; reflexivity|]. split; [assumption|].
      split; [eapply incl_tran; eassumption|].
      rewrite puts_app. apply Forall_app. split; [assumption|]. simpl. constructor; [simpl; assumption|constructor].
  - destruct Hd as (-> & Hnil).
    destruct (do_alloc e (sd_io st)) as [[ds|] s1] eqn:Ha; destruct (do_alloc_ext e Ptrue _ _ _ Ha) as [Hx Hr].
    2:{ inversion H; subst. assert (W : WfS s1) by (eapply WfS_ext; [apply I|eassumption]).
        split; [exact W|]. split; [|split; discriminate].
        cbn [sd_io]. destruct Hx as [-> _]. rewrite all_pins_app, (s_nopins _ _ I). reflexivity. }
    assert (W1 : WfS s1) by (eapply WfS_ext; [apply I|eassumption]).
    assert (HT1 : chron s1 = [EAlloc (Some ds)]) by (destruct Hx as [-> _]; now rewrite Hnil).
    assert (Ha0 : e_alloc e 0 = Some ds).
    { destruct (s_wf _ _ I) as (_ & A & _). rewrite Hnil in A. rewrite Hr, A. reflexivity. }
    fold (dests_of ds) in H.
    destruct (do_put e (CData (bcid b)) (dests_of ds) s1) as [[ba'|] s2] eqn:Hp;
      destruct (do_put_ext e Ptrue _ _ _ _ _ Hp) as [Hx2 Hr2]; inversion H; subst; clear H;
      assert (HT : chron s2 = [EAlloc (Some ds)] ++ [EPut (CData (bcid b)) (dests_of ds) (ba_add (e_put e (nr s1)) (dests_of ds))])
        by (rewrite <- Hr2, <- HT1; apply Hx2);
      assert (W : WfS s2) by (eapply WfS_ext; eassumption);
      (split; [exact W|]); (split; [cbn [sd_io]; rewrite HT; reflexivity|]); (split; [discriminate|]); [|discriminate].
    intros _. symmetry in Hr2. pose proof (ba_add_some _ _ _ Hr2) as (_ & _ & _ & Hincl & _). rewrite Hr2 in HT.
    constructor; cbn [sd_io sd_dests sd_ba]; rewrite ?HT.
    + reflexivity.
    + reflexivity.
    + simpl. constructor; [simpl; discriminate|constructor].
    + assumption.
    + split; [discriminate|]. split; [reflexivity|]. split; [assumption|]. split; [assumption|].
      simpl. constructor; [simpl; apply incl_refl|constructor].
Qed.

Lemma add_all_single_spec bs pre st r st' :
  SInv pre st -> (forall b, In b bs -> bswallow b = false) ->
  add_all (fun b => single_add e (bcid b)) bs st = (r, st') ->
  WfS (sd_io st') /\ all_pins (chron (sd_io st')) = [] /\ r <> Some EFuel /\ (r = None -> SInv (pre ++ bs) st').
Proof.
  revert pre st. induction bs as [|b bs IH]; intros pre st I Hsw H; simpl in H.
  - inversion H; subst. split; [apply I|]. split; [apply I|]. split; [discriminate|]. intros _. now rewrite app_nil_r.
  - destruct (single_add e (bcid b) st) as [[er|] st1] eqn:Ha.
    + rewrite (Hsw b (or_introl eq_refl)) in H. inversion H; subst.
      destruct (single_add_spec _ _ _ _ _ I Ha) as (W & Hn & Hf & _).
      split; [exact W|]. split; [exact Hn|]. split; [exact Hf|]. discriminate.
    + destruct (single_add_spec _ _ _ _ _ I Ha) as (_ & _ & _ & Hok).
      destruct (IH _ _ (Hok eq_refl) (fun x Hx => Hsw x (or_intror Hx)) H) as (W & Hn & Hf & Hok2).
      split; [exact W|]. split; [exact Hn|]. split; [exact Hf|].
      intros Hr. specialize (Hok2 Hr). now rewrite <- app_assoc in Hok2.
Qed.

Record SingleOk (root : N) (stream : list block) (so_al : list N) (t : list event) : Prop := {
  so_pins : ok_pins t = [single_pin e root so_al];
  so_allpins : all_pins t = ok_pins t;
  so_data : data_puts t = cids_of stream;
  so_putsok : Forall (fun x => snd x <> None) (puts t);
  so_dests : Forall (fun x => incl (snd (fst x)) (dests_of so_al)) (puts t);
  so_alloc : stream <> [] -> alloc_results t = [Some so_al] /\ e_alloc e 0 = Some so_al
}.

Theorem single_run_spec root stream r t :
  (forall b, In b stream -> bswallow b = false) ->
  single_run e stream root = (r, t) ->
  wf e Ptrue 0 0 0 t /\
  (forall er, r = RErr er -> er <> EFuel /\ ok_pins t = []) /\
  (forall c, r = ROk c -> c = CData root /\ exists al, SingleOk root stream al t).
Proof.
  intros Hsw H. unfold single_run, single_adds in H.
  assert (I0 : SInv [] (mksingle None [] io0)).
  { constructor; try reflexivity; [constructor|unfold WfS; simpl; tauto|simpl; tauto]. }
  destruct (add_all (fun b => single_add e (bcid b)) stream (mksingle None [] io0)) as [[er|] st1] eqn:Ha;
    destruct (add_all_single_spec _ _ _ _ _ I0 Hsw Ha) as (W & Hn & Hf & Hok).
  - inversion H; subst. split; [apply W|]. split.
    + intros er' Her. inversion Her; subst. split; [congruence|now apply all_pins_nil_ok].
    + intros c Hc. discriminate.
  - specialize (Hok eq_refl). simpl in Hok. unfold single_finalize in H.
    set (al := match sd_dests st1 with Some ds => ds | None => [] end) in *.
    set (p := mkpin (CData root) TData NBase al (-1)%Z None (e_rmin e) (e_rmax e) (e_limit e)) in *.
    assert (Hc : clear_allocs p = single_pin e root al)
      by (unfold clear_allocs, p, single_pin; cbn [prmin]; destruct (e_rmin e <? 0)%Z; reflexivity).
    destruct (do_pin e p (sd_io st1)) as [ok s2] eqn:Hpin.
    pose proof (do_pin_ext e Ptrue _ _ _ _ Hpin I) as Hx. rewrite Hc in Hx.
    assert (W2 : WfS s2) by (eapply WfS_ext; eassumption).
    assert (HT : chron s2 = chron (sd_io st1) ++ [EPin (single_pin e root al) ok]) by apply Hx.
    destruct ok; inversion H; subst; clear H; cbn [sd_io]; fold (chron s2); (split; [apply W2|]); split.
    + intros er' Her. discriminate.
    + intros c Hc'. inversion Hc'; subst. split; [reflexivity|]. rewrite HT.
      exists al. constructor.
      * rewrite ok_pins_app, (all_pins_nil_ok _ Hn). reflexivity.
      * rewrite all_pins_app, ok_pins_app, Hn, (all_pins_nil_ok _ Hn). reflexivity.
      * rewrite data_puts_app, (s_data _ _ Hok). simpl. now rewrite app_nil_r.
      * rewrite puts_app. simpl. rewrite app_nil_r. apply Hok.
      * rewrite puts_app. simpl. rewrite app_nil_r. pose proof (s_dests _ _ Hok) as Hd. unfold al.
        destruct (sd_dests st1); [apply Hd|]. destruct Hd as [_ ->]. constructor.
      * intros Hne. pose proof (s_dests _ _ Hok) as Hd. unfold al. destruct (sd_dests st1).
        -- destruct Hd as (_ & Har & Ha0 & _). rewrite alloc_results_app, Har. split; [reflexivity|assumption].
        -- destruct Hd as [Hnil _]. contradiction.
    + intros er' Her. inversion Her; subst. split; [discriminate|].
      rewrite HT, ok_pins_app, (all_pins_nil_ok _ Hn). reflexivity.
    + intros c Hc'. discriminate.
Qed.

End Single.
