(* C09 — lemmas about the metrics store, the failure checker and the publish cadence. *)
From V Require Import Base.Common Base.CommonLemmas Model.C09_Metrics.
From Coq Require Import Sorting.Sorted.
Open Scope Z_scope.

(* ---------- keys ---------- *)
Lemma key_eqb_spec a b : reflect (a = b) (key_eqb a b).
Proof. destruct a as [a1 a2], b as [b1 b2]. unfold key_eqb. simpl.
  destruct (N.eqb_spec a1 b1), (N.eqb_spec a2 b2); simpl; constructor; congruence. Qed.
Lemma key_eqb_refl a : key_eqb a a = true.
Proof. destruct (key_eqb_spec a a); congruence. Qed.

Definition keys {V} (l : list (key * V)) : list key := map fst l.

Lemma kget_kdel_same {V} k (l : list (key * V)) : kget k (kdel k l) = None.
Proof. induction l as [|[k' v] r IH]; simpl; auto. destruct (key_eqb_spec k k'); simpl; auto.
  destruct (key_eqb_spec k k'); congruence. Qed.
Lemma kget_kdel_other {V} k k' (l : list (key * V)) : k <> k' -> kget k (kdel k' l) = kget k l.
Proof. intros Hn. induction l as [|[k2 v] r IH]; simpl; auto.
  destruct (key_eqb_spec k' k2); simpl.
  - subst. destruct (key_eqb_spec k k2); congruence.
  - destruct (key_eqb_spec k k2); auto. Qed.
Lemma kget_kput_same {V} k (v : V) l : kget k (kput k v l) = Some v.
Proof. unfold kput. simpl. now rewrite key_eqb_refl. Qed.
Lemma kget_kput_other {V} k k' (v : V) l : k <> k' -> kget k (kput k' v l) = kget k l.
Proof. intros Hn. unfold kput. simpl. destruct (key_eqb_spec k k'); [congruence|]. now apply kget_kdel_other. Qed.
Lemma in_keys_kdel {V} k k' (l : list (key * V)) : In k (keys (kdel k' l)) -> In k (keys l) /\ k <> k'.
Proof. induction l as [|[k2 v] r IH]; simpl; [tauto|]. destruct (key_eqb_spec k' k2); simpl.
  - intros H. apply IH in H. tauto.
  - intros [->|H]; [split; auto|]. apply IH in H. tauto. Qed.
Lemma NoDup_keys_kdel {V} k (l : list (key * V)) : NoDup (keys l) -> NoDup (keys (kdel k l)).
Proof. induction l as [|[k2 v] r IH]; simpl; auto. intros H. inversion H; subst.
  destruct (key_eqb k k2); simpl; auto. constructor; auto. intros Hin. apply in_keys_kdel in Hin. tauto. Qed.
Lemma NoDup_keys_kput {V} k (v : V) l : NoDup (keys l) -> NoDup (keys (kput k v l)).
Proof. intros H. unfold kput. simpl. constructor.
  - intros Hin. apply in_keys_kdel in Hin. tauto.
  - now apply NoDup_keys_kdel. Qed.
Lemma kget_in {V} k (v : V) l : kget k l = Some v -> In (k, v) l.
Proof. induction l as [|[k' v'] r IH]; simpl; [discriminate|].
  destruct (key_eqb_spec k k') as [->|]; intros H; [injection H as ->; now left | right; auto]. Qed.
Lemma in_kget {V} k (v : V) l : NoDup (keys l) -> In (k, v) l -> kget k l = Some v.
Proof. induction l as [|[k' v'] r IH]; simpl; [tauto|]. intros Hnd [H|H].
  - injection H as -> ->. now rewrite key_eqb_refl.
  - inversion Hnd; subst. destruct (key_eqb_spec k k') as [->|]; auto.
    exfalso. apply H2. apply in_map_iff. exists (k', v). auto. Qed.
Lemma NoDup_keys_filter {V} (f : key * V -> bool) l : NoDup (keys l) -> NoDup (keys (filter f l)).
Proof. induction l as [|[k v] r IH]; simpl; auto. intros H. inversion H; subst.
  destruct (f (k, v)); simpl; auto. constructor; auto.
  intros Hin. apply H2. unfold keys in *. apply in_map_iff in Hin. destruct Hin as [x [E Hx]].
  apply filter_In in Hx. apply in_map_iff. exists x. tauto. Qed.
Lemma kget_filter_keep {V} (f : key * V -> bool) k l :
  (forall v, f (k, v) = true) -> kget k (filter f l) = kget k l.
Proof. intros Hf. induction l as [|[k' v] r IH]; simpl; auto.
  destruct (f (k', v)) eqn:E; simpl.
  - destruct (key_eqb k k'); auto.
  - destruct (key_eqb_spec k k') as [Ek|]; auto. subst k'. rewrite (Hf v) in E. discriminate. Qed.
Lemma kget_filter_drop {V} (f : key * V -> bool) k l :
  (forall v, f (k, v) = false) -> kget k (filter f l) = None.
Proof. intros Hf. induction l as [|[k' v] r IH]; simpl; auto.
  destruct (f (k', v)) eqn:E; simpl; auto.
  destruct (key_eqb_spec k k') as [Ek|]; auto. subst k'. rewrite (Hf v) in E. discriminate. Qed.

(* ---------- store ---------- *)
Definition wf (st : store) : Prop := NoDup (keys (wins st)).

Lemma wf_empty : wf empty_store. Proof. constructor. Qed.
Lemma wf_add m st : wf st -> wf (s_add m st).
Proof. unfold wf, s_add. cbn [wins]. apply NoDup_keys_kput. Qed.
Lemma wf_remove_peer p st : wf st -> wf (s_remove_peer p st).
Proof. unfold wf, s_remove_peer. cbn [wins]. apply NoDup_keys_filter. Qed.
Lemma wf_remove_peer_metrics k st : wf st -> wf (s_remove_peer_metrics k st).
Proof. unfold wf, s_remove_peer_metrics. cbn [wins]. apply NoDup_keys_kdel. Qed.

Lemma window_add_same m st : window (mkey m) (s_add m st) = firstn window_cap (m :: window (mkey m) st).
Proof. unfold window at 1, s_add. cbn [wins]. now rewrite kget_kput_same. Qed.
Lemma window_add_other m k st : k <> mkey m -> window k (s_add m st) = window k st.
Proof. intros H. unfold window, s_add. cbn [wins]. now rewrite kget_kput_other. Qed.
Lemma latest_add_same m st : latest (mkey m) (s_add m st) = Some m.
Proof. unfold latest. rewrite window_add_same. reflexivity. Qed.
Lemma latest_add_other m k st : k <> mkey m -> latest k (s_add m st) = latest k st.
Proof. intros H. unfold latest. now rewrite window_add_other. Qed.
Lemma window_rpm_same k st : window k (s_remove_peer_metrics k st) = [].
Proof. unfold window, s_remove_peer_metrics. cbn [wins]. now rewrite kget_kdel_same. Qed.
Lemma window_rpm_other k k' st : k <> k' -> window k (s_remove_peer_metrics k' st) = window k st.
Proof. intros H. unfold window, s_remove_peer_metrics. cbn [wins]. now rewrite kget_kdel_other. Qed.
Lemma window_remove_peer k p st :
  window k (s_remove_peer p st) = if N.eqb (snd k) p then [] else window k st.
Proof. unfold window, s_remove_peer. cbn [wins]. destruct (N.eqb_spec (snd k) p) as [E|E].
  - rewrite kget_filter_drop; auto. intros v. simpl. rewrite E. now rewrite N.eqb_refl.
  - rewrite kget_filter_keep; auto. intros v. simpl. apply negb_true_iff. now apply N.eqb_neq. Qed.

Lemma firstn_length_le {A} n (l : list A) : (length (firstn n l) <= n)%nat.
Proof. rewrite firstn_length. lia. Qed.

(* the ring never holds more than 25 *)
Definition bounded (st : store) : Prop := forall k, (length (window k st) <= window_cap)%nat.
Lemma bounded_empty : bounded empty_store. Proof. intros k. unfold window. simpl. unfold window_cap. lia. Qed.
Lemma bounded_add m st : bounded st -> bounded (s_add m st).
Proof. intros H k. destruct (key_eqb_spec k (mkey m)) as [->|Hn].
  - rewrite window_add_same. apply firstn_length_le.
  - rewrite window_add_other; auto. Qed.
Lemma bounded_remove_peer p st : bounded st -> bounded (s_remove_peer p st).
Proof. intros H k. rewrite window_remove_peer. destruct (N.eqb (snd k) p); auto. simpl. unfold window_cap. lia. Qed.
Lemma bounded_rpm k' st : bounded st -> bounded (s_remove_peer_metrics k' st).
Proof. intros H k. destruct (key_eqb_spec k k') as [->|Hn].
  - rewrite window_rpm_same. simpl. unfold window_cap. lia.
  - rewrite window_rpm_other; auto. Qed.

(* ---------- sort_by_peer ---------- *)
Lemma in_insert_by_peer m x l : In x (insert_by_peer m l) <-> x = m \/ In x l.
Proof. induction l as [|y r IH]; simpl; [intuition|].
  destruct (mpeer m <=? mpeer y)%N; simpl; rewrite ?IH; intuition. Qed.
Lemma in_sort_by_peer x l : In x (sort_by_peer l) <-> In x l.
Proof. induction l as [|y r IH]; simpl; [tauto|]. rewrite in_insert_by_peer, IH. intuition. Qed.

Definition peer_le (a b : metric) : Prop := (mpeer a <= mpeer b)%N.
Lemma insert_sorted m l : StronglySorted peer_le l -> StronglySorted peer_le (insert_by_peer m l).
Proof. induction l as [|y r IH]; simpl; intros H.
  - constructor; constructor.
  - inversion H as [|? ? Hs Hall]; subst. destruct (N.leb_spec (mpeer m) (mpeer y)) as [Hle|Hlt].
    + constructor; auto. constructor; auto.
      eapply Forall_impl; [|exact Hall]. intros z Hz. unfold peer_le in *. lia.
    + constructor; auto. apply Forall_forall. intros z Hz. apply in_insert_by_peer in Hz.
      destruct Hz as [->|Hz]; [unfold peer_le; lia|]. rewrite Forall_forall in Hall. auto. Qed.
Lemma sort_by_peer_sorted l : StronglySorted peer_le (sort_by_peer l).
Proof. induction l as [|y r IH]; simpl; [constructor|]. now apply insert_sorted. Qed.

Lemma map_mpeer_insert_perm m l : Permutation.Permutation (map mpeer (insert_by_peer m l)) (mpeer m :: map mpeer l).
Proof. induction l as [|y r IH]; simpl; auto.
  destruct (mpeer m <=? mpeer y)%N; simpl; auto.
  eapply Permutation.perm_trans; [apply Permutation.perm_skip, IH|]. apply Permutation.perm_swap. Qed.
Lemma map_mpeer_sort_perm l : Permutation.Permutation (map mpeer (sort_by_peer l)) (map mpeer l).
Proof. induction l as [|y r IH]; simpl; auto.
  eapply Permutation.perm_trans; [apply map_mpeer_insert_perm|]. now apply Permutation.perm_skip. Qed.

(* ---------- latest_valid ---------- *)
Definition lv_pick (now : Z) (name : N) (e : key * list metric) : list metric :=
  if N.eqb (fst (fst e)) name
  then match snd e with m :: _ => if discard now m then [] else [m] | [] => [] end
  else [].

Lemma latest_valid_unfold now name st :
  latest_valid now name st = sort_by_peer (flat_map (lv_pick now name) (wins st)).
Proof. reflexivity. Qed.

Lemma in_lv_pick now name e m : In m (lv_pick now name e) ->
  fst (fst e) = name /\ exists w, snd e = m :: w /\ discard now m = false.
Proof. unfold lv_pick. destruct (N.eqb_spec (fst (fst e)) name); [|simpl; tauto].
  destruct (snd e) as [|x w]; [simpl; tauto|]. destruct (discard now x) eqn:D; simpl; [tauto|].
  intros [<-|[]]. split; auto. eauto. Qed.

(* the windows are keyed by the (name, peer) of the metrics they hold *)
Definition keyed (st : store) : Prop := forall k w m, In (k, w) (wins st) -> In m w -> mkey m = k.
Lemma keyed_empty : keyed empty_store. Proof. intros k w m []. Qed.
Lemma in_kdel {V} k (e : key * V) l : In e (kdel k l) -> In e l.
Proof. induction l as [|[k' v] r IH]; simpl; auto. destruct (key_eqb k k'); simpl; intuition. Qed.
Lemma keyed_add m st : wf st -> keyed st -> keyed (s_add m st).
Proof. intros Hwf H k w x Hin Hx. unfold s_add in Hin. cbn [wins] in Hin. unfold kput in Hin.
  apply in_inv in Hin. destruct Hin as [E|Hin].
  - assert (k = mkey m /\ w = firstn window_cap (m :: window (mkey m) st)) as [-> ->] by (split; congruence).
    apply in_firstn in Hx. destruct Hx as [->|Hx]; auto.
    unfold window in Hx. destruct (kget (mkey m) (wins st)) as [w|] eqn:G; [|destruct Hx].
    apply kget_in in G. eauto.
  - apply in_kdel in Hin. eauto. Qed.
Lemma keyed_remove_peer p st : keyed st -> keyed (s_remove_peer p st).
Proof. intros H k w x Hin Hx. unfold s_remove_peer in Hin. simpl in Hin. apply filter_In in Hin. destruct Hin. eauto. Qed.
Lemma keyed_rpm k' st : keyed st -> keyed (s_remove_peer_metrics k' st).
Proof. intros H k w x Hin Hx. unfold s_remove_peer_metrics in Hin. simpl in Hin. apply in_kdel in Hin. eauto. Qed.

Lemma in_latest_valid now name st m : wf st -> keyed st ->
  (In m (latest_valid now name st) <->
   mname m = name /\ latest (mkey m) st = Some m /\ discard now m = false).
Proof. intros Hwf Hk. rewrite latest_valid_unfold, in_sort_by_peer, in_flat_map. split.
  - intros [[k w] [Hin Hm]]. apply in_lv_pick in Hm. simpl in Hm. destruct Hm as [Hn [w' [-> D]]].
    assert (mkey m = k) as Ek by (eapply Hk; [exact Hin | now left]).
    split; [| split; auto].
    + unfold mkey in Ek. rewrite <- Ek in Hn. exact Hn.
    + unfold latest, window. rewrite Ek. rewrite (in_kget _ _ _ Hwf Hin). reflexivity.
  - intros [Hn [Hl D]]. unfold latest, window in Hl.
    destruct (kget (mkey m) (wins st)) as [[|x w]|] eqn:G; try discriminate. injection Hl as ->.
    exists (mkey m, m :: w). split; [now apply kget_in|]. unfold lv_pick. simpl.
    rewrite Hn, N.eqb_refl, D. now left. Qed.

Lemma flat_map_peers_nodup now name l :
  NoDup (keys l) -> (forall k w m, In (k, w) l -> In m w -> mkey m = k) ->
  NoDup (map mpeer (flat_map (lv_pick now name) l)).
Proof. induction l as [|[k w] r IH]; simpl; intros Hnd Hk; [constructor|].
  inversion Hnd as [|? ? Hnotin Hnd']; subst. rewrite map_app.
  assert (IHr := IH Hnd' (fun k' w' m' Hin => Hk k' w' m' (or_intror Hin))).
  unfold lv_pick at 1. simpl. destruct (N.eqb_spec (fst k) name) as [En|]; [|exact IHr].
  destruct w as [|x w]; [exact IHr|]. destruct (discard now x); [exact IHr|]. simpl.
  constructor; [|exact IHr]. intros Hin. apply in_map_iff in Hin. destruct Hin as [y [Ey Hy]].
  apply in_flat_map in Hy. destruct Hy as [[k' w'] [Hin' Hy]]. apply in_lv_pick in Hy. simpl in Hy.
  destruct Hy as [En' [w'' [-> _]]].
  assert (mkey y = k') as E1 by (eapply Hk; [right; exact Hin' | now left]).
  assert (mkey x = k) as E2 by (eapply Hk; [left; reflexivity | now left]).
  apply Hnotin. apply in_map_iff. exists (k', y :: w''). split; auto. simpl.
  unfold mkey in *. destruct k as [kn kp], k' as [kn' kp']. simpl in *. congruence. Qed.

Lemma latest_valid_nodup now name st : wf st -> keyed st -> NoDup (map mpeer (latest_valid now name st)).
Proof. intros Hwf Hk. rewrite latest_valid_unfold.
  eapply Permutation.Permutation_NoDup; [apply Permutation.Permutation_sym, map_mpeer_sort_perm|].
  apply flat_map_peers_nodup; auto. Qed.

Lemma NoDup_map_filter {A B} (f : A -> B) (g : A -> bool) l : NoDup (map f l) -> NoDup (map f (filter g l)).
Proof. induction l as [|x r IH]; simpl; auto. intros H. inversion H; subst.
  destruct (g x); simpl; auto. constructor; auto. intros Hin. apply H2.
  apply in_map_iff in Hin. destruct Hin as [y [E Hy]]. apply filter_In in Hy. apply in_map_iff. exists y. tauto. Qed.

Lemma sorted_filter {A} (R : A -> A -> Prop) (g : A -> bool) l : StronglySorted R l -> StronglySorted R (filter g l).
Proof. induction l as [|x r IH]; simpl; intros H; [constructor|]. inversion H as [|? ? Hs Hall]; subst.
  destruct (g x); auto. constructor; auto. rewrite Forall_forall in *. intros y Hy. apply filter_In in Hy. apply Hall. tauto. Qed.

(* ---------- reachable states ---------- *)
Definition inv (st : store) : Prop := wf st /\ keyed st /\ bounded st.
Lemma inv_empty : inv empty_store.
Proof. split; [apply wf_empty | split; [apply keyed_empty | apply bounded_empty]]. Qed.
Lemma inv_add m st : inv st -> inv (s_add m st).
Proof. intros [A [B C]]. split; [now apply wf_add | split; [now apply keyed_add | now apply bounded_add]]. Qed.
Lemma inv_remove_peer p st : inv st -> inv (s_remove_peer p st).
Proof. intros [A [B C]]. split; [now apply wf_remove_peer | split; [now apply keyed_remove_peer | now apply bounded_remove_peer]]. Qed.
Lemma inv_rpm k st : inv st -> inv (s_remove_peer_metrics k st).
Proof. intros [A [B C]]. split; [now apply wf_remove_peer_metrics | split; [now apply keyed_rpm | now apply bounded_rpm]]. Qed.

(* ---------- checker ---------- *)
Lemma alert_store k st c : fst (fst (alert k st c)) = s_remove_peer_metrics k st.
Proof. unfold alert. reflexivity. Qed.
Lemma alert_alerts k st c :
  snd (alert k st c) = [(k, match latest k st with Some m => Some (mid m) | None => None end)].
Proof. unfold alert. reflexivity. Qed.

(* what one failure decision can do: nothing, or exactly one alert for its key, carrying the expired latest metric, which is then forgotten *)
Lemma visit_cases now v st c :
  visit now v (st, c) = (st, c, []) \/
  exists m, latest (fst v) st = Some m /\ expired now m = true /\ failed now (snd v) (fst v) st = true /\
            visit now v (st, c) = (s_remove_peer_metrics (fst v) st, kdel (fst v) c, [(fst v, Some (mid m))]).
Proof. unfold visit. destruct (latest (fst v) st) as [m|] eqn:L; auto.
  destruct (failed now (snd v) (fst v) st) eqn:F; auto. right. exists m.
  assert (expired now m = true) as E.
  { unfold failed in F. unfold latest in L. destruct (window (fst v) st) as [|x w]; [discriminate|].
    injection L as ->. destruct (expired now m); auto. }
  repeat split; auto. unfold alert. rewrite L. reflexivity. Qed.

Lemma visit_inv now v st c : inv st -> inv (fst (fst (visit now v (st, c)))).
Proof. intros H. destruct (visit_cases now v st c) as [E|[m [_ [_ [_ E]]]]]; rewrite E; simpl; auto. now apply inv_rpm. Qed.

(* a decision never creates or changes a window: the latest metric of any key stays or disappears *)
Lemma latest_rpm k k' st : latest k (s_remove_peer_metrics k' st) = if key_eqb k k' then None else latest k st.
Proof. unfold latest. destruct (key_eqb_spec k k') as [->|Hn].
  - now rewrite window_rpm_same.
  - now rewrite window_rpm_other. Qed.

Lemma visit_latest now v st c k :
  latest k (fst (fst (visit now v (st, c)))) = latest k st \/ latest k (fst (fst (visit now v (st, c)))) = None.
Proof. destruct (visit_cases now v st c) as [E|[m [_ [_ [_ E]]]]]; rewrite E; simpl; auto.
  rewrite latest_rpm. destruct (key_eqb k (fst v)); auto. Qed.

Lemma visits_nil now s : visits now [] s = (fst s, snd s, []). Proof. reflexivity. Qed.
Lemma visits_cons now v r s :
  visits now (v :: r) s =
  (fst (fst (visits now r (fst (fst (visit now v s)), snd (fst (visit now v s))))),
   snd (fst (visits now r (fst (fst (visit now v s)), snd (fst (visit now v s))))),
   snd (visit now v s) ++ snd (visits now r (fst (fst (visit now v s)), snd (fst (visit now v s))))).
Proof. simpl. destruct (visit now v s) as [[st1 c1] a1]. simpl.
  destruct (visits now r (st1, c1)) as [[st2 c2] a2]. reflexivity. Qed.

Lemma visits_inv now vs st c : inv st -> inv (fst (fst (visits now vs (st, c)))).
Proof. revert st c. induction vs as [|v r IH]; intros st c H; [exact H|].
  rewrite visits_cons. cbn [fst snd]. pose proof (visit_inv now v st c H) as H1.
  destruct (visit now v (st, c)) as [[st1 c1] a1]. cbn [fst snd] in *. now apply IH. Qed.

Lemma visits_latest now vs st c k :
  latest k (fst (fst (visits now vs (st, c)))) = latest k st \/ latest k (fst (fst (visits now vs (st, c)))) = None.
Proof. revert st c. induction vs as [|v r IH]; intros st c; [left; reflexivity|].
  rewrite visits_cons. cbn [fst snd]. pose proof (visit_latest now v st c k) as H1.
  destruct (visit now v (st, c)) as [[st1 c1] a1]. cbn [fst snd] in *.
  destruct (IH st1 c1) as [E|E]; rewrite E; [|auto]. destruct H1 as [E1|E1]; rewrite E1; auto. Qed.

(* no alert when fresh: every alert of a pass is for a key whose latest metric, at the start of the pass, is expired — and carries it *)
Lemma visits_alerts_expired now vs st c a : In a (snd (visits now vs (st, c))) ->
  exists m, latest (fst a) st = Some m /\ expired now m = true /\ snd a = Some (mid m).
Proof. revert st c. induction vs as [|v r IH]; intros st c; [intros []|].
  rewrite visits_cons. cbn [fst snd]. intros Hin. apply in_app_or in Hin. destruct Hin as [Hin|Hin].
  - destruct (visit_cases now v st c) as [E|[m [L [X [_ E]]]]]; rewrite E in Hin; simpl in Hin; [destruct Hin|].
    destruct Hin as [<-|[]]. simpl. eauto.
  - pose proof (visit_latest now v st c (fst a)) as H1.
    destruct (visit now v (st, c)) as [[st1 c1] a1]. cbn [fst snd] in *.
    destruct (IH st1 c1 Hin) as [m [L [X S]]]. exists m. repeat split; auto.
    destruct H1 as [E1|E1]; congruence. Qed.

(* alert once: the number of alerts for k in a pass is bounded by "a window exists", and after an alert it is gone *)
Definition budget (k : key) (st : store) : nat := match latest k st with Some _ => 1%nat | None => 0%nat end.

Lemma alerts_for_app k a b : alerts_for k (a ++ b) = (alerts_for k a + alerts_for k b)%nat.
Proof. unfold alerts_for. now rewrite filter_app, app_length. Qed.

Lemma visit_budget now v st c k :
  (alerts_for k (snd (visit now v (st, c))) + budget k (fst (fst (visit now v (st, c)))) <= budget k st)%nat.
Proof. destruct (visit_cases now v st c) as [E|[m [L [_ [_ E]]]]]; rewrite E; simpl; [unfold alerts_for; simpl; lia|].
  unfold alerts_for, budget. simpl. rewrite latest_rpm.
  destruct (key_eqb_spec (fst v) k) as [Ek|Hn].
  - subst k. rewrite key_eqb_refl, L. simpl. lia.
  - destruct (key_eqb_spec k (fst v)); [congruence|]. simpl. lia. Qed.

Lemma visits_budget now vs st c k :
  (alerts_for k (snd (visits now vs (st, c))) + budget k (fst (fst (visits now vs (st, c)))) <= budget k st)%nat.
Proof. revert st c. induction vs as [|v r IH]; intros st c; [unfold alerts_for; simpl; lia|].
  rewrite visits_cons. cbn [fst snd]. rewrite alerts_for_app. pose proof (visit_budget now v st c k) as H1.
  destruct (visit now v (st, c)) as [[st1 c1] a1]. cbn [fst snd] in *. specialize (IH st1 c1). lia. Qed.

(* histories *)
Lemma run_nil s : run [] s = (fst s, snd s, []). Proof. reflexivity. Qed.
Lemma run_cons e r s :
  run (e :: r) s =
  (fst (fst (run r (fst (fst (step e s)), snd (fst (step e s))))),
   snd (fst (run r (fst (fst (step e s)), snd (fst (step e s))))),
   snd (step e s) ++ snd (run r (fst (fst (step e s)), snd (fst (step e s))))).
Proof. simpl. destruct (step e s) as [[st1 c1] a1]. simpl.
  destruct (run r (st1, c1)) as [[st2 c2] a2]. reflexivity. Qed.

Lemma step_inv e st c : inv st -> inv (fst (fst (step e (st, c)))).
Proof. intros H. destruct e; simpl; [now apply inv_add | now apply inv_remove_peer | now apply visits_inv]. Qed.
Lemma run_inv h st c : inv st -> inv (fst (fst (run h (st, c)))).
Proof. revert st c. induction h as [|e r IH]; intros st c H; [exact H|].
  rewrite run_cons. cbn [fst snd]. pose proof (step_inv e st c H) as H1.
  destruct (step e (st, c)) as [[st1 c1] a1]. cbn [fst snd] in *. now apply IH. Qed.

Lemma latest_remove_peer k p st : latest k (s_remove_peer p st) = if N.eqb (snd k) p then None else latest k st.
Proof. unfold latest. rewrite window_remove_peer. destruct (N.eqb (snd k) p); reflexivity. Qed.

Lemma step_budget e st c k : adds_key k e = false ->
  (alerts_for k (snd (step e (st, c))) + budget k (fst (fst (step e (st, c)))) <= budget k st)%nat.
Proof. intros Hna. destruct e as [m|p|now vs]; simpl.
  - unfold alerts_for, budget. simpl. simpl in Hna. rewrite latest_add_other; [lia|].
    intros ->. now rewrite key_eqb_refl in Hna.
  - unfold alerts_for, budget. simpl. rewrite latest_remove_peer. destruct (N.eqb (snd k) p); [|lia].
    destruct (latest k st); lia.
  - apply visits_budget. Qed.

Lemma run_budget h st c k : forallb (fun e => negb (adds_key k e)) h = true ->
  (alerts_for k (snd (run h (st, c))) + budget k (fst (fst (run h (st, c)))) <= budget k st)%nat.
Proof. revert st c. induction h as [|e r IH]; intros st c Hna; [unfold alerts_for; simpl; lia|].
  simpl in Hna. apply andb_true_iff in Hna. destruct Hna as [He Hr]. apply negb_true_iff in He.
  rewrite run_cons. cbn [fst snd]. rewrite alerts_for_app. pose proof (step_budget e st c k He) as H1.
  destruct (step e (st, c)) as [[st1 c1] a1]. cbn [fst snd] in *. specialize (IH st1 c1 Hr). lia. Qed.

Lemma budget_le_1 k st : (budget k st <= 1)%nat.
Proof. unfold budget. destruct (latest k st); lia. Qed.

(* reported: a decision taken on a key whose latest metric is expired, with fewer than 6 samples or a positive accrual verdict, alerts *)
Lemma visit_reports now k phi st c m :
  latest k st = Some m -> expired now m = true -> ((length (window k st) < accrual_num)%nat \/ phi = true) ->
  snd (visit now (k, phi) (st, c)) = [(k, Some (mid m))] /\ latest k (fst (fst (visit now (k, phi) (st, c)))) = None.
Proof. intros L X H. unfold visit. simpl. rewrite L.
  assert (failed now phi k st = true) as F.
  { unfold failed. unfold latest in L. destruct (window k st) as [|x w] eqn:W; [discriminate|]. injection L as ->.
    rewrite X. destruct H as [H| ->].
    - apply Nat.ltb_lt in H. now rewrite H.
    - destruct (length (m :: w) <? accrual_num)%nat; reflexivity. }
  rewrite F. unfold alert. rewrite L. simpl. split; auto. rewrite latest_rpm. now rewrite key_eqb_refl. Qed.

(* and a fresh one never does *)
Lemma visit_fresh_silent now v st c m :
  latest (fst v) st = Some m -> expired now m = false -> visit now v (st, c) = (st, c, []).
Proof. intros L X. destruct (visit_cases now v st c) as [E|[m' [L' [X' _]]]]; auto. congruence. Qed.

(* most recent: the latest metric of a key is the last one added for it *)
Lemma step_latest_no_add e st c k : adds_key k e = false ->
  latest k (fst (fst (step e (st, c)))) = latest k st \/ latest k (fst (fst (step e (st, c)))) = None.
Proof. intros Hna. destruct e as [m|p|now vs]; simpl.
  - left. apply latest_add_other. simpl in Hna. intros ->. now rewrite key_eqb_refl in Hna.
  - rewrite latest_remove_peer. destruct (N.eqb (snd k) p); auto.
  - apply visits_latest. Qed.
Lemma run_latest_no_add h st c k : forallb (fun e => negb (adds_key k e)) h = true ->
  latest k (fst (fst (run h (st, c)))) = latest k st \/ latest k (fst (fst (run h (st, c)))) = None.
Proof. revert st c. induction h as [|e r IH]; intros st c Hna; [left; reflexivity|].
  simpl in Hna. apply andb_true_iff in Hna. destruct Hna as [He Hr]. apply negb_true_iff in He.
  rewrite run_cons. cbn [fst snd]. pose proof (step_latest_no_add e st c k He) as H1.
  destruct (step e (st, c)) as [[st1 c1] a1]. cbn [fst snd] in *.
  destruct (IH st1 c1 Hr) as [E|E]; rewrite E; [|auto]. destruct H1 as [E1|E1]; rewrite E1; auto. Qed.

Lemma run_app h1 h2 s :
  fst (run (h1 ++ h2) s) = fst (run h2 (fst (run h1 s))).
Proof. revert s. induction h1 as [|e r IH]; intros s.
  - simpl. destruct s. reflexivity.
  - rewrite <- app_comm_cons, !run_cons. cbn [fst snd].
    repeat rewrite <- surjective_pairing. rewrite IH. repeat rewrite <- surjective_pairing. reflexivity. Qed.

Lemma run_single e s : fst (run [e] s) = fst (step e s).
Proof. rewrite run_cons. cbn [fst snd run]. now rewrite <- surjective_pairing. Qed.
Lemma run_snoc r e s : fst (run (r ++ [e]) s) = fst (step e (fst (run r s))).
Proof. now rewrite run_app, run_single. Qed.

Lemma latest_is_last_add h k m : latest k (fst (fst (run h (empty_store, [])))) = Some m ->
  exists h1 h2, h = h1 ++ EAdd m :: h2 /\ mkey m = k /\ forallb (fun e => negb (adds_key k e)) h2 = true.
Proof. induction h as [|e r IH] using rev_ind; intros L; [discriminate|].
  rewrite run_snoc in L.
  destruct (fst (run r (empty_store, []))) as [st c] eqn:R. cbn [fst] in IH.
  destruct (adds_key k e) eqn:Ak.
  - destruct e as [m'| |]; try discriminate. simpl in Ak. destruct (key_eqb_spec (mkey m') k) as [Ek|]; [|discriminate].
    cbn [step fst snd] in L. rewrite <- Ek in L. rewrite latest_add_same in L. injection L as ->.
    exists r, []. repeat split; auto.
  - destruct (step_latest_no_add e st c k Ak) as [E1|E1]; rewrite E1 in L; [|discriminate].
    destruct (IH L) as [h1 [h2 [-> [Ek Hna]]]]. exists h1, (h2 ++ [e]). repeat split; auto.
    + now rewrite <- app_assoc.
    + rewrite forallb_app, Hna. simpl. now rewrite Ak. Qed.

(* ---------- CheckPeers as written: the S9 witness ---------- *)
Definition mk_win (n : nat) : list metric := map (fun i => mk_m (N.of_nat i) 0 0 true 1) (rev (seq 0 n)).
Definition st_of_win (w : list metric) : store := mk_store [((0%N, 0%N), w)] [0%N].
Definition alerts_as_written (n : nat) : nat :=
  length (snd (check_peers_as_written 100 (fun _ => true) [0%N] [0%N] (st_of_win (mk_win n), []))).
Definition alerts_repaired (n : nat) : nat :=
  length (snd (check_peers 100 (fun _ => true) [0%N] [0%N] (st_of_win (mk_win n), []))).

Lemma as_written_table : map alerts_as_written [1; 2; 3; 5; 25]%nat = [1; 1; 2; 3; 13]%nat.
Proof. vm_compute. reflexivity. Qed.
Lemma repaired_table : map alerts_repaired [1; 2; 3; 5; 25]%nat = [1; 1; 1; 1; 1]%nat.
Proof. vm_compute. reflexivity. Qed.

(* ---------- cadence ---------- *)
Lemma ping_never_lapses_l t0 iv t : 0 < iv -> t0 <= t ->
  let k := ping_newest t0 iv t in 0 <= k /\ ping_time t0 iv k <= t /\ t < ping_expire t0 iv k.
Proof. intros Hi Ht k. unfold k, ping_newest, ping_expire, ping_time.
  pose proof (Z.div_pos (t - t0) iv ltac:(lia) Hi) as Hk.
  pose proof (Z.mul_div_le (t - t0) iv Hi) as H1.
  pose proof (Z.mul_succ_div_gt (t - t0) iv Hi) as H2.
  split; [exact Hk|]. nia. Qed.

Lemma half_lt x : 0 < x -> x / 2 < x.
Proof. intros H. apply Z.div_lt; lia. Qed.
Lemma quarter_lt x : 0 < x -> x / 4 < x.
Proof. intros H. apply Z.div_lt; lia. Qed.

Lemma informer_next_before_expiry ttl a d err : 0 < ttl -> 0 <= d < ttl ->
  a <= informer_next ttl a d err /\ informer_next ttl a d err < a + ttl.
Proof. intros Ht Hd. unfold informer_next.
  replace (a + ttl - (a + d)) with (ttl - d) by lia.
  assert (0 < ttl - d) as Hl by lia.
  pose proof (half_lt _ Hl). pose proof (quarter_lt _ Hl).
  pose proof (Z.div_pos (ttl - d) 2 ltac:(lia) ltac:(lia)).
  pose proof (Z.div_pos (ttl - d) 4 ltac:(lia) ltac:(lia)).
  destruct err; lia. Qed.

Fixpoint chain_ok (ttl : Z) (ts : list Z) : Prop :=
  match ts with
  | a :: ((b :: _) as r) => a <= b < a + ttl /\ chain_ok ttl r
  | _ => True
  end.

Lemma informer_times_head ttl a script : exists r, informer_times ttl a script = a :: r.
Proof. destruct script as [|[d e] r]; simpl; eauto. Qed.

Lemma informer_chain ttl a script : 0 < ttl -> Forall (fun de => 0 <= fst de < ttl) script ->
  chain_ok ttl (informer_times ttl a script).
Proof. intros Ht. revert a. induction script as [|[d e] r IH]; intros a Hs; simpl; auto.
  inversion Hs as [|? ? Hd Hr]; subst. simpl in Hd.
  destruct (informer_times_head ttl (informer_next ttl a d e) r) as [r' E]. rewrite E.
  split; [apply informer_next_before_expiry; auto|]. rewrite <- E. now apply IH. Qed.

(* one failed publication between two successful ones: the retry still comes before the last published metric expires *)
Lemma informer_one_error ttl a : 0 < ttl ->
  informer_next ttl (informer_next ttl a 0 false) 0 true < a + ttl.
Proof. intros Ht. unfold informer_next.
  replace (a + ttl - (a + 0)) with ttl by lia.
  replace (a + 0 + ttl / 2 + ttl - (a + 0 + ttl / 2 + 0)) with ttl by lia.
  pose proof (Z.mul_div_le ttl 2 ltac:(lia)). pose proof (Z.mul_div_le ttl 4 ltac:(lia)). lia. Qed.

(* ---------- the statements of Props/C09.v, assembled ---------- *)
Definition reach (h : list event) : store := fst (fst (run h (empty_store, []))).
Lemma reach_inv h : inv (reach h).
Proof. apply run_inv. apply inv_empty. Qed.

Lemma latest_metrics_incl now name ps st m : In m (latest_metrics now name ps st) -> In m (latest_valid now name st).
Proof. destruct ps as [| |l]; simpl; auto; [tauto|]. unfold peerset_filter. intros H. apply filter_In in H. tauto. Qed.

Lemma latest_one_per_peer_l h now name ps : NoDup (map mpeer (latest_metrics now name ps (reach h))).
Proof. destruct (reach_inv h) as [A [B _]]. destruct ps as [| |l]; simpl.
  - now apply latest_valid_nodup.
  - constructor.
  - unfold peerset_filter. apply NoDup_map_filter. now apply latest_valid_nodup. Qed.

Lemma latest_is_most_recent_l h now name ps m : In m (latest_metrics now name ps (reach h)) ->
  mname m = name /\ latest (mkey m) (reach h) = Some m /\
  exists h1 h2, h = h1 ++ EAdd m :: h2 /\ forallb (fun e => negb (adds_key (mkey m) e)) h2 = true.
Proof. intros H. apply latest_metrics_incl in H. destruct (reach_inv h) as [A [B _]].
  apply in_latest_valid in H; auto. destruct H as [Hn [L _]]. repeat split; auto.
  destruct (latest_is_last_add h (mkey m) m L) as [h1 [h2 [E [_ F]]]]. eauto. Qed.

Lemma latest_is_fresh_l h now name ps m : In m (latest_metrics now name ps (reach h)) ->
  mvalid m = true /\ now <= mexp m.
Proof. intros H. apply latest_metrics_incl in H. destruct (reach_inv h) as [A [B _]].
  apply in_latest_valid in H; auto. destruct H as [_ [_ D]]. unfold discard, expired in D.
  apply orb_false_iff in D. destruct D as [D1 D2]. apply negb_false_iff in D1. apply Z.ltb_ge in D2. auto. Qed.

Lemma latest_in_peerset_l h now name ps m : In m (latest_metrics now name ps (reach h)) ->
  match ps with PNone => True | PErr => False | PSome l => In (mpeer m) l end.
Proof. destruct ps as [| |l]; simpl; auto. unfold peerset_filter. intros H. apply filter_In in H.
  apply memN_in. tauto. Qed.

Lemma latest_sorted_l h now name ps : StronglySorted peer_le (latest_metrics now name ps (reach h)).
Proof. destruct ps as [| |l]; simpl.
  - rewrite latest_valid_unfold. apply sort_by_peer_sorted.
  - constructor.
  - unfold peerset_filter. apply sorted_filter. rewrite latest_valid_unfold. apply sort_by_peer_sorted. Qed.

Lemma latest_complete_l h now name ps m :
  latest (mkey m) (reach h) = Some m -> mname m = name -> mvalid m = true -> now <= mexp m ->
  match ps with PNone => True | PErr => False | PSome l => In (mpeer m) l end ->
  In m (latest_metrics now name ps (reach h)).
Proof. intros L Hn Hv Hx Hp. destruct (reach_inv h) as [A [B _]].
  assert (In m (latest_valid now name (reach h))) as Hin.
  { apply in_latest_valid; auto. repeat split; auto. unfold discard, expired. rewrite Hv. simpl. now apply Z.ltb_ge. }
  destruct ps as [| |l]; simpl; [exact Hin | destruct Hp |]. unfold peerset_filter. apply filter_In. split; auto. now apply memN_in. Qed.

Lemma window_overflow_l h k : (length (window k (reach h)) <= 25)%nat.
Proof. destruct (reach_inv h) as [_ [_ C]]. apply C. Qed.

Lemma no_alert_when_fresh_l now vs st c a : In a (snd (visits now vs (st, c))) ->
  exists m, latest (fst a) st = Some m /\ mexp m < now /\ snd a = Some (mid m).
Proof. intros H. destruct (visits_alerts_expired now vs st c a H) as [m [L [X S]]].
  exists m. repeat split; auto. unfold expired in X. now apply Z.ltb_lt. Qed.

Lemma alert_once_l k h st c : forallb (fun e => negb (adds_key k e)) h = true ->
  (alerts_for k (snd (run h (st, c))) <= 1)%nat /\
  ((1 <= alerts_for k (snd (run h (st, c))))%nat -> latest k (fst (fst (run h (st, c)))) = None).
Proof. intros Hna. pose proof (run_budget h st c k Hna) as B. pose proof (budget_le_1 k st) as B1. split; [lia|].
  intros H1. unfold budget in B at 1. destruct (latest k (fst (fst (run h (st, c))))); auto. lia. Qed.
