(* C15 — the per-section run-time monitors of Model/C15_Check.v (check_case: code 1 model = implementation; on the
   implementation's own observation: 10 accepted but Validate() fails, 11 save/load/save differs, 12 a secret in the
   displayable form, 13 a setting of a well-formed document is not in the loaded configuration, 14 Default() refused or
   invalid), tied to the model and to Prop-level statements, for every table, document, environment and oracle (no bound):
   (1) completeness: a case annotated with the model's own outputs (model_obs) produces no code at all;
   (2) soundness: a case on which a code is absent satisfies the Prop-level clause that code stands for;
   (3) transfer: a case without code 1 is one on which the observation is the model's, so the theorems about the model
       (round trip, validity, settings kept) hold of what was observed.
   The Manager monitors (mcheck) are dealt with in Proofs/C15_Manager.v. *)
From Coq Require Import String Ascii List ZArith Bool NArith Lia.
From V Require Import Model.C15_Config Model.C15_Valid Model.C15_Manager Model.C15_Check Gen.ConfigSchemas
  Proofs.C15_Config Proofs.C15_Tables Proofs.C15_Manager.
Import ListNotations.
Open Scope string_scope.
Open Scope list_scope.

(* ================================================================== *)
(* comparison functions                                                *)
(* ================================================================== *)
Lemma list_beq_refl {A} (e : A -> A -> bool) (l : list A) : (forall x, e x x = true) -> list_beq e l l = true.
Proof. intros He. induction l as [|x r IH]; simpl; auto. now rewrite He, IH. Qed.
Lemma ostr_eqb_refl a : ostr_eqb a a = true.
Proof. destruct a; simpl; auto. apply String.eqb_refl. Qed.
Lemma val_eqb_refl v : val_eqb v v = true.
Proof. destruct v; simpl; auto.
  - apply Bool.eqb_reflx.
  - apply Z.eqb_refl.
  - apply String.eqb_refl.
  - apply list_beq_refl. apply String.eqb_refl.
  - apply list_beq_refl. apply ostr_eqb_refl. Qed.
Lemma veq_refl k v : veq k v v = true.
Proof. unfold veq. destruct k; try apply val_eqb_refl; destruct v as [| | | |[|? ?]| | |]; auto; apply val_eqb_refl. Qed.
Lemma cfg_eqb_refl c : cfg_eqb c c = true.
Proof. apply list_beq_refl. apply val_eqb_refl. Qed.

(* the Prop-level reading of veq: equal, or (lists and maps) both empty: JSON null and [] are the same list *)
Definition is_nil (v : val) : Prop := v = VNone \/ v = VL [].
Definition same_val (k : kind) (a b : val) : Prop := a = b \/ ((k = KList \/ k = KMap) /\ is_nil a /\ is_nil b).
Lemma veq_same_val k a b : veq k a b = true -> same_val k a b.
Proof. unfold veq, same_val, is_nil. intros H.
  destruct k; try (left; now apply val_eqb_eq).
  - destruct a as [| | | |[|? ?]| | |], b as [| | | |[|? ?]| | |]; try (left; now apply val_eqb_eq); right; auto.
  - destruct a as [| | | |[|? ?]| | |], b as [| | | |[|? ?]| | |]; try (left; now apply val_eqb_eq); right; auto. Qed.
Lemma same_val_veq k a b : same_val k a b -> veq k a b = true.
Proof. intros [->|[K [[->| ->] [->| ->]]]]; try apply veq_refl; destruct K as [-> | ->]; reflexivity. Qed.

(* ================================================================== *)
(* a rule either keeps the current value or does not look at it        *)
(* ================================================================== *)
Lemma apply_rule_cur_or_indep lr k pp jv :
  (forall cur, apply_rule lr k pp cur jv = Some cur) \/
  (forall cur d, apply_rule lr k pp cur jv = apply_rule lr k pp d jv).
Proof.
  destruct lr; simpl;
  try (destruct (pp p));
  try (right; intros; reflexivity); try (left; intros; reflexivity);
  destruct k; destruct jv as [ | [|] | [|?|?] | [|? ?] | [|? ?] | [|? ?] | | ]; simpl;
  try (right; intros; reflexivity); try (left; intros; reflexivity);
  repeat match goal with |- context [match ?x with _ => _ end] => destruct x end;
  try (right; intros; reflexivity); try (left; intros; reflexivity).
Qed.

(* ================================================================== *)
(* configurations the loader can produce, and their round trip         *)
(* ================================================================== *)
(* every member holds a value its rule can produce from a well-typed document value, starting from the default *)
Definition reachable (S : schema) (c : cfg) : Prop := Forall2 reach (sfields S) c.

(* applying a document to a reachable configuration (ApplyEnvVars does: the base is the current configuration) gives a
   reachable one: each rule keeps the current value or ignores it *)
Lemma apply_fields_reach_from fs : forall base j ab c,
  forallb (fun f => well_typed (fkind f) (jval (fname f) j)) fs = true ->
  Forall2 reach fs base -> apply_fields fs base j ab = Some c -> Forall2 reach fs c.
Proof. induction fs as [|f r IH]; intros base j ab c T RB H.
  - simpl in H. inversion H. constructor.
  - simpl in T. apply andb_true_iff in T. destruct T as [Tf Tr].
    inversion RB as [|? cur ? br Rcur RB']; subst.
    apply apply_fields_step in H. destruct H as [x [c' [ab' [-> [H D]]]]].
    constructor; [|eapply IH; eauto].
    destruct D as [[-> _]|[A _]]; [exact Rcur|].
    destruct (apply_rule_cur_or_indep (fload f) (fkind f) (fun p => jhas p j) (jval (fname f) j)) as [K|K].
    + rewrite K in A. inversion A; subst. exact Rcur.
    + exists (fun p => jhas p j), (jval (fname f) j). split; [exact Tf|]. rewrite <- (K cur). exact A. Qed.

Lemma load_reachable S V orc j c : load S V orc j = Some c -> reachable S c /\ V orc (cget S c) = true.
Proof. intros L. apply load_spec_l in L. destruct L as [T [A Vv]]. split; [|exact Vv].
  exact (apply_fields_reach _ _ _ _ T A). Qed.

Lemma apply_json_reachable S V orc base j c :
  reachable S base -> apply_json S V orc base j = Some c -> reachable S c /\ V orc (cget S c) = true.
Proof. unfold apply_json. intros RB H. destruct (typed_ok S j) eqn:T; simpl in H; [|discriminate].
  destruct (apply_fields (sfields S) base j []) as [c0|] eqn:A; [|discriminate].
  destruct (V orc (cget S c0)) eqn:Vv; [|discriminate]. inversion H; subst c0. split; [|exact Vv].
  exact (apply_fields_reach_from _ _ _ _ _ T RB A). Qed.

Lemma reachable_length S c : reachable S c -> length (sfields S) = length c.
Proof. unfold reachable. generalize (sfields S). intros fs F. induction F; simpl; auto. Qed.

(* a reachable configuration that validates is reproduced exactly by saving and loading it (the argument of
   load_save_load_l, from reachability instead of from a first load) *)
Lemma reachable_save_load S V orc c :
  schema_coherentb S = true -> reachable S c -> V orc (cget S c) = true -> load S V orc (save S c) = Some c.
Proof.
  unfold load, apply_json, reachable. intros CO RE VV.
  destruct (coherent_parts S CO) as [ND [FOK [POK _]]]. clear CO. rename ND into CO.
  assert (LEN : length (sfields S) = length c) by (now apply reachable_length).
  pose proof (jval_save _ _ CO LEN) as JS. fold (save S c) in JS.
  assert (PAR : forall f, In f (sfields S) -> forall p, parent_of (fload f) = Some p -> jhas p (save S c) = true).
  { intros f Hf p Hp. rewrite forallb_forall in POK. specialize (POK f Hf). unfold parent_ok in POK. rewrite Hp in POK.
    apply existsb_exists in POK. destruct POK as [g [Hg Eg]]. apply andb_true_iff in Eg. destruct Eg as [En Egf].
    apply String.eqb_eq in En. subst p.
    destruct (Forall2_in_l _ _ _ g JS Hg) as [vg [_ Evg]]. apply jval_jhas. rewrite Evg.
    unfold is_group_field in Egf. unfold sval, save_field. destruct (fload g); try discriminate Egf. destruct (fsave g); try discriminate Egf. reflexivity. }
  assert (ST : Forall2 (fun f v => apply_rule (fload f) (fkind f) (fun p => jhas p (save S c)) (fdef f) (jval (fname f) (save S c)) = Some v
                                   /\ well_typed (fkind f) (jval (fname f) (save S c)) = true
                                   /\ is_bad (jval (fname f) (save S c)) = false) (sfields S) c).
  { pose proof (Forall2_and _ _ _ _ RE JS) as F1.
    pose proof (Forall2_forall_l _ (fun f => In f (sfields S)) _ _ F1 (fun a Ha => Ha)) as F2.
    eapply Forall2_imp; [|exact F2]. intros f v [[R E] Hf]. rewrite E.
    rewrite forallb_forall in FOK.
    destruct (field_stable f v (fun p => jhas p (save S c)) (FOK f Hf) R (PAR f Hf)) as [S1 [S2 S3]].
    split; [exact S1|]. split; [exact S2|]. now apply not_bad. }
  assert (TY2 : typed_ok S (save S c) = true).
  { unfold typed_ok. apply forallb_forall. intros f Hf. destruct (Forall2_in_l _ _ _ f ST Hf) as [v [_ [_ [T _]]]]. exact T. }
  rewrite TY2. simpl. unfold defaults.
  rewrite (apply_fields_rebuild (sfields S) (save S c) c).
  - now rewrite VV.
  - eapply Forall2_imp; [|exact ST]. intros f v [A [_ B]]. auto.
Qed.

(* ApplyEnvVars on a loaded configuration: the result validates and survives save + load *)
Lemma apply_env_save_load S V orc c0 env c :
  schema_coherentb S = true -> reachable S c0 -> apply_env S V orc c0 env = Some c ->
  reachable S c /\ V orc (cget S c) = true /\ load S V orc (save S c) = Some c.
Proof. intros CO R0 H. unfold apply_env in H. destruct (apply_json_reachable _ _ _ _ _ _ R0 H) as [R Vv].
  split; [exact R|]. split; [exact Vv|]. now apply reachable_save_load. Qed.

Theorem env_save_load_l S V orc j c0 env c :
  schema_coherentb S = true -> load S V orc j = Some c0 -> apply_env S V orc c0 env = Some c ->
  V orc (cget S c) = true /\ load S V orc (save S c) = Some c.
Proof. intros CO L H. destruct (load_reachable S V orc j c0 L) as [R0 _].
  destruct (apply_env_save_load S V orc c0 env c CO R0 H) as [_ A]. exact A. Qed.

(* ================================================================== *)
(* what the model lets a harness observe                               *)
(* ================================================================== *)
(* members read directly from the Config struct: any list of member names *)
Definition direct_of (S : schema) (c : cfg) (dn : list string) : json := map (fun n => (n, cget S c n)) dn.
(* ToJSON(LoadJSON(ToJSON(cfg))) and the reloaded struct are those of cfg *)
Definition rt_b (S : schema) (V : validator) (orc : string -> bool) (c : cfg) : bool :=
  match load S V orc (save S c) with Some c' => cfg_eqb c' c | None => false end.
(* a member named like a secret shows something else than the marker in the displayable form *)
Definition leak_b (S : schema) (c : cfg) : bool := negb (raw_hides (SDoc (display S c))).

Definition model_obs (S : schema) (V : validator) (m : mode) (j : json) (dn : list string) : obs :=
  match model_run S V m j with
  | None => ObsErr
  | Some c => ObsOk (save S c) (direct_of S c dn) (V (oracle_of j) (cget S c)) (rt_b S V (oracle_of j) c) (leak_b S c)
  end.

(* saving and loading the default configuration gives it back (checked on every generated table: defaults_stable_tables) *)
Definition default_roundtrip (S : schema) (V : validator) (orc : string -> bool) : Prop :=
  V orc (cget S (defaults S)) = true -> load S V orc (save S (defaults S)) = Some (defaults S).

(* whatever the mode: a configuration the model accepts validates and survives save + load *)
Lemma model_run_valid_roundtrip S V m j c :
  schema_coherentb S = true -> default_roundtrip S V (oracle_of j) -> model_run S V m j = Some c ->
  V (oracle_of j) (cget S c) = true /\ load S V (oracle_of j) (save S c) = Some c.
Proof. intros CO DS H. unfold model_run in H. cbv zeta in H.
  destruct (jhas "=notobject" j); [discriminate|].
  destruct m as [| |env].
  - exact (load_save_load_l S V _ j c CO H).
  - destruct (V (oracle_of j) (cget S (defaults S))) eqn:Vd; [|discriminate]. inversion H; subst c. split; [exact Vd|]. exact (DS Vd).
  - destruct (load S V (oracle_of j) j) as [c0|] eqn:L; [|discriminate].
    destruct (load_reachable _ _ _ _ _ L) as [R0 _].
    destruct (apply_env_save_load _ _ _ _ _ _ CO R0 H) as [_ [A B]]. auto. Qed.

Lemma leak_b_model S c : schema_coherentb S = true -> leak_b S c = false.
Proof. intros CO. unfold leak_b, raw_hides. apply negb_false_iff. apply forallb_forall. intros [n v] I.
  destruct (secret_name n) eqn:SN; [|reflexivity]. simpl.
  rewrite (cif_of_disp S (fun _ _ => true) (fun _ => true) CO c n v I SN). apply val_eqb_refl. Qed.

(* ================================================================== *)
(* code 13: the member the harness observed                            *)
(* ================================================================== *)
Definition member_default (f : field) : val := match fsave f with SOmitIfDefault d => d | _ => zero_of (fkind f) end.

Lemma obs_member_jval f saved direct :
  obs_member f saved direct =
  match jget (fname f) direct with
  | Some d => d
  | None => match jval (fname f) saved with VNone => member_default f | s => s end end.
Proof. unfold obs_member, jval, jin, member_default. destruct (jget (fname f) direct); [reflexivity|].
  destruct (jget (fname f) saved) as [[]|]; reflexivity. Qed.

Lemma jval_save_in S c f : NoDup (map fname (sfields S)) -> length (sfields S) = length c -> In f (sfields S) ->
  jval (fname f) (save S c) = sval f (cget S c (fname f)).
Proof. intros ND LEN Hf. pose proof (jval_save _ _ ND LEN) as JS.
  exact (cget_from_in (fun f v => jval (fname f) (save_fields (sfields S) c) = sval f v) _ _ ND JS f Hf). Qed.

Lemma direct_eq_get S c d n v : direct_eq S c d = true -> jget n d = Some v -> v = cget S c n.
Proof. unfold direct_eq. induction d as [|[k x] r IH]; simpl; [discriminate|].
  intros H. apply andb_true_iff in H. destruct H as [H1 H2]. destruct (String.eqb_spec n k) as [->|N].
  - intros E. inversion E; subst. symmetry. now apply val_eqb_eq.
  - now apply IH. Qed.

Lemma direct_eq_model S c dn : direct_eq S c (direct_of S c dn) = true.
Proof. unfold direct_eq, direct_of. apply forallb_forall. intros [n v] I. apply in_map_iff in I.
  destruct I as [n' [E _]]. inversion E; subst. apply val_eqb_refl. Qed.

Lemma saved_eq_refl S sk s : saved_eq S sk s s = true.
Proof. unfold saved_eq. apply forallb_forall. intros f _. rewrite veq_refl. apply orb_true_r. Qed.

(* a setting that is the value of its member is what the harness reads back from the saved form *)
Lemma setting_observed f jv :
  field_ok f = true -> well_typed (fkind f) jv = true -> is_never_s (fsave f) = false -> is_groupk (fkind f) = false ->
  jv <> VNone -> (is_boolk (fkind f) || negb (is_zero (canon_in jv))) = true ->
  veq (fkind f) (canon_in jv) (match sval f (canon_in jv) with VNone => member_default f | s => s end) = true.
Proof.
  intros OK T NS NG NN NZ.
  assert (CN : canon_in jv <> VNone) by (destruct jv; simpl; congruence).
  assert (OM : omitted f (canon_in jv) = true -> canon_in jv = VB false /\ fkind f = KBool).
  { unfold omitted. intros H. apply andb_true_iff in H. destruct H as [H _]. apply andb_true_iff in H. destruct H as [_ Z].
    rewrite Z in NZ. simpl in NZ. rewrite orb_false_r in NZ. destruct (fkind f); try discriminate NZ. split; [|reflexivity].
    destruct jv as [ | [|] | | [|? ?] | | | | ]; simpl in T, Z |- *; try discriminate; congruence. }
  unfold field_ok in OK. apply andb_true_iff in OK. destruct OK as [_ M].
  unfold sval, save_field, member_default.
  destruct (fsave f) as [ | d | | | id ] eqn:ES; try discriminate NS.
  - (* SAlways *) destruct (omitted f (canon_in jv)) eqn:O.
    + destruct (OM eq_refl) as [E K]. rewrite E, K. reflexivity.
    + simpl. destruct (canon_in jv) eqn:EC; try congruence; apply veq_refl.
  - (* SOmitIfDefault *) destruct (val_eqb (canon_in jv) d) eqn:EV.
    + apply val_eqb_eq in EV. subst d. apply veq_refl.
    + destruct (omitted f (canon_in jv)) eqn:O.
      * exfalso. destruct (OM eq_refl) as [_ K]. rewrite K in M. destruct (fload f); simpl in M; try discriminate M;
        match type of M with context [match ?x with _ => _ end] => destruct x end; discriminate M.
      * simpl. destruct (canon_in jv) eqn:EC; try congruence; apply veq_refl.
  - (* SGroup *) exfalso. destruct (fload f) as [ | | | | | | | | | | | | | | | | | ? inner ? | ]; try discriminate M;
    [destruct (fkind f); simpl in M, NG; discriminate | destruct inner; discriminate M].
  - (* SCustom *) destruct (omitted f (canon_in jv)) eqn:O.
    + destruct (OM eq_refl) as [E K]. rewrite E, K. reflexivity.
    + simpl. destruct (canon_in jv) eqn:EC; try congruence; apply veq_refl.
Qed.

Lemma filter_none {A} (p : A -> bool) l : (forall x, In x l -> p x = false) -> filter p l = [].
Proof. induction l as [|x r IH]; simpl; intros H; auto. rewrite (H x (or_introl eq_refl)). apply IH. intros y Hy. apply H. now right. Qed.
Lemma filter_nil_all {A} (p : A -> bool) l : filter p l = [] -> forall x, In x l -> p x = false.
Proof. induction l as [|x r IH]; simpl; intros H y Hy; [tauto|]. destruct (p x) eqn:E; [discriminate|].
  destruct Hy as [<-|Hy]; auto. Qed.

(* the model's loaded configuration, read back the way the harness reads it, shows every setting of a well-formed document *)
Lemma dropped_model S V orc j c direct :
  schema_coherentb S = true -> load S V orc j = Some c -> wf_doc S j = true -> direct_eq S c direct = true ->
  dropped S j (save S c) direct = [].
Proof. intros CO L WF DE. unfold dropped. apply filter_none. intros f Hf.
  destruct (is_setting f j) eqn:IS; [|reflexivity]. simpl. apply negb_false_iff.
  pose proof (load_faithful_l S V orc j c f CO L WF Hf IS) as FA.
  destruct (coherent_parts S CO) as [ND [FOK _]].
  rewrite obs_member_jval. destruct (jget (fname f) direct) as [d|] eqn:JD.
  - rewrite (direct_eq_get _ _ _ _ _ DE JD), FA. apply veq_refl.
  - destruct (load_reachable _ _ _ _ _ L) as [R _].
    rewrite (jval_save_in S c f ND (reachable_length _ _ R) Hf), FA.
    rewrite forallb_forall in FOK. unfold wf_doc in WF. rewrite forallb_forall in WF.
    specialize (WF f Hf). apply andb_true_iff in WF. destruct WF as [_ T].
    unfold is_setting in IS.
    repeat (apply andb_true_iff in IS; let X := fresh "IS" in destruct IS as [IS X]).
    apply negb_true_iff in IS. apply negb_true_iff in IS3.
    apply setting_observed; [exact (FOK f Hf) | exact T | exact IS | exact IS3 | | exact IS1].
    intros E. rewrite E in IS2. discriminate IS2. Qed.

(* ================================================================== *)
(* completeness: the model's own observation raises no code            *)
(* ================================================================== *)
(* the only guard: a Default() case carries no "the bytes are not a JSON object" mark (the harness writes that mark for
   raw byte strings only, and those are LoadJSON cases) *)
Definition default_guard (m : mode) (j : json) : Prop :=
  match m with MDefault => jhas "=notobject" j = false | _ => True end.

Lemma model_eqb_model S V m j dn : model_eqb S V m j (model_obs S V m j dn) = true.
Proof. unfold model_eqb, model_obs. destruct (model_run S V m j) as [c|]; [|reflexivity].
  rewrite saved_eq_refl. simpl. destruct m; auto using direct_eq_model. Qed.

Lemma spec_fails_model S V m j dn :
  schema_coherentb S = true -> V (oracle_of j) (cget S (defaults S)) = true -> default_roundtrip S V (oracle_of j) ->
  default_guard m j -> spec_fails S m j (model_obs S V m j dn) = [].
Proof. intros CO DV DS G. unfold model_obs. destruct (model_run S V m j) as [c|] eqn:MR.
  - destruct (model_run_valid_roundtrip S V m j c CO DS MR) as [Vv RT].
    unfold spec_fails. rewrite Vv. unfold rt_b. rewrite RT, cfg_eqb_refl, (leak_b_model S c CO). simpl.
    destruct m; try reflexivity. destruct (wf_doc S j) eqn:WF; [|reflexivity].
    unfold model_run in MR. cbv zeta in MR. destruct (jhas "=notobject" j); [discriminate|].
    rewrite (dropped_model S V _ j c _ CO MR WF (direct_eq_model S c dn)). reflexivity.
  - unfold spec_fails. destruct m; try reflexivity. exfalso.
    unfold model_run in MR. cbv zeta in MR. simpl in G. rewrite G, DV in MR. discriminate. Qed.

(* the schema a case names *)
Lemma find_schema_some n l sc : find_schema n l = Some sc -> In sc l /\ sname sc = n.
Proof. induction l as [|x r IH]; simpl; [discriminate|]. destruct (String.eqb_spec n (sname x)) as [E|N].
  - intros H. inversion H; subst. auto.
  - intros H. destruct (IH H). auto. Qed.
Lemma find_schema_in l : nodup_strs (map sname l) = true -> forall sc, In sc l -> find_schema (sname sc) l = Some sc.
Proof. induction l as [|x r IH]; simpl; intros ND sc I; [tauto|]. apply andb_true_iff in ND. destruct ND as [N1 N2].
  destruct I as [->|I]; [now rewrite String.eqb_refl|].
  destruct (String.eqb_spec (sname sc) (sname x)) as [E|N]; [|now apply IH].
  exfalso. apply negb_true_iff in N1. assert (X : existsb (String.eqb (sname x)) (map sname r) = true); [|congruence].
  apply existsb_exists. exists (sname sc). split; [now apply in_map|]. rewrite E. apply String.eqb_refl. Qed.
Lemma section_names_unique : nodup_strs (map sname all_schemas) = true.
Proof. vm_compute. reflexivity. Qed.
Lemma find_schema_tables sc : In sc all_schemas -> find_schema (sname sc) all_schemas = Some sc.
Proof. apply find_schema_in. exact section_names_unique. Qed.

Lemma default_roundtrip_tables S orc : In S all_schemas -> default_roundtrip S (validator_of (sname S)) orc.
Proof. intros I. unfold default_roundtrip.
  pose proof (defaults_stable_tables orc) as A. rewrite forallb_forall in A. specialize (A _ I).
  unfold default_stableb in A. destruct (load _ _ _ _) as [c|].
  - intros _. f_equal. now apply cfg_eqb_eq.
  - intros Vd. rewrite Vd in A. discriminate A. Qed.

(* for every generated section, mode (LoadJSON, Default, LoadJSON + ApplyEnvVars under any environment), document
   (with any oracle answers in it) and list of directly read members: no code at all, code 1 included *)
Theorem sections_model_passes_monitor_l id S m j dn : In S all_schemas -> default_guard m j ->
  check_case (id, (sname S, m, j, model_obs S (validator_of (sname S)) m j dn)) = [].
Proof. intros I G. unfold check_case. rewrite (find_schema_tables S I). cbv zeta.
  rewrite model_eqb_model.
  rewrite (spec_fails_model S _ m j dn (coherent_in S I) (default_valid_in S _ I) (default_roundtrip_tables S _ I) G).
  reflexivity. Qed.

(* the generic form: every coherent table, validator and document *)
Theorem model_passes_monitor_l S V m j dn :
  schema_coherentb S = true -> V (oracle_of j) (cget S (defaults S)) = true -> default_roundtrip S V (oracle_of j) ->
  default_guard m j ->
  model_eqb S V m j (model_obs S V m j dn) = true /\ spec_fails S m j (model_obs S V m j dn) = [].
Proof. intros CO DV DS G. split; [apply model_eqb_model | now apply spec_fails_model]. Qed.

(* ================================================================== *)
(* soundness: what the absence of a code says about the observation    *)
(* ================================================================== *)
Definition has_code (c : N) (l : list (N * N * N)) : Prop := exists x, In x l /\ snd (fst x) = c.

(* every setting of the document is the observed value of its member *)
Definition settings_kept (S : schema) (j saved direct : json) : Prop :=
  forall f, In f (sfields S) -> is_setting f j = true ->
    same_val (fkind f) (canon_in (jval (fname f) j)) (obs_member f saved direct).

Lemma has_code_spec id c S V m j o t :
  In (c, t) (spec_fails S m j o) -> c <> 1%N ->
  has_code c ((if model_eqb S V m j o then [] else [(id, 1%N, 0%N)]) ++ map (fun '(code, tag) => (id, code, tag)) (spec_fails S m j o)).
Proof. intros I _. exists (id, c, t). split; [|reflexivity]. apply in_or_app. right.
  apply in_map_iff. exists (c, t). auto. Qed.

Theorem sections_monitor_sound_l id sn S m j saved direct valid rt leak :
  find_schema sn all_schemas = Some S ->
  let r := check_case (id, (sn, m, j, ObsOk saved direct valid rt leak)) in
  (~ has_code 10 r -> ~ has_code 14 r -> valid = true) /\
  (~ has_code 11 r -> rt = true) /\
  (~ has_code 12 r -> leak = false) /\
  (~ has_code 13 r -> m = MLoad -> wf_doc S j = true -> settings_kept S j saved direct).
Proof. intros F r. subst r. unfold check_case. rewrite F. cbv zeta.
  set (V := validator_of sn).
  split; [|split; [|split]].
  - intros N10 N14. destruct valid; [reflexivity|]. exfalso. destruct m.
    + apply N10. eapply has_code_spec; [|discriminate]. simpl. left. reflexivity.
    + apply N14. eapply has_code_spec; [|discriminate]. simpl. left. reflexivity.
    + apply N10. eapply has_code_spec; [|discriminate]. simpl. left. reflexivity.
  - intros N11. destruct rt; [reflexivity|]. exfalso. apply N11. eapply has_code_spec; [|discriminate].
    unfold spec_fails. apply in_or_app. right. apply in_or_app. left. left. reflexivity.
  - intros N12. destruct leak; [|reflexivity]. exfalso. apply N12. eapply has_code_spec; [|discriminate].
    unfold spec_fails. apply in_or_app. right. apply in_or_app. right. apply in_or_app. right. apply in_or_app. left. left. reflexivity.
  - intros N13 -> WF f Hf IS. apply veq_same_val.
    destruct (veq (fkind f) (canon_in (jval (fname f) j)) (obs_member f saved direct)) eqn:E; [reflexivity|]. exfalso.
    apply N13. eapply (has_code_spec id 13%N S V MLoad j _ (tag_of_dropped S j f)); [|discriminate].
    unfold spec_fails. do 4 (apply in_or_app; right). rewrite WF.
    apply in_map_iff. exists f. split; [reflexivity|]. unfold dropped. apply filter_In. split; [exact Hf|].
    rewrite IS, E. reflexivity. Qed.

(* Default() refused: code 14 *)
Theorem sections_monitor_sound_default_l id sn S j :
  find_schema sn all_schemas = Some S -> has_code 14 (check_case (id, (sn, MDefault, j, ObsErr))).
Proof. intros F. unfold check_case. rewrite F. cbv zeta. eapply has_code_spec; [|discriminate]. simpl. left. reflexivity. Qed.

(* ================================================================== *)
(* transfer: without code 1 the observation is the model's             *)
(* ================================================================== *)
Lemma no_code1_model_eqb id sn S m j o : find_schema sn all_schemas = Some S ->
  ~ has_code 1 (check_case (id, (sn, m, j, o))) -> model_eqb S (validator_of sn) m j o = true.
Proof. intros F N. unfold check_case in N. rewrite F in N. cbv zeta in N.
  destruct (model_eqb S (validator_of sn) m j o); [reflexivity|]. exfalso. apply N.
  exists (id, 1%N, 0%N). split; [|reflexivity]. simpl. left. reflexivity. Qed.

Lemma model_run_load S V j c : model_run S V MLoad j = Some c -> load S V (oracle_of j) j = Some c.
Proof. unfold model_run. cbv zeta. destruct (jhas "=notobject" j); [discriminate|auto]. Qed.

(* a case without code 1 whose implementation refused: the model refuses; whose implementation accepted: the model
   accepts a configuration c that validates, survives save + load, displays no secret, whose saved form is member by
   member the observed one (hidden members excepted for Default(): the host's identity is generated), whose members
   are the directly observed ones, and (LoadJSON of a well-formed document) holds every setting of the document *)
Theorem sections_agreement_transfers_l id sn S m j o :
  find_schema sn all_schemas = Some S -> ~ has_code 1 (check_case (id, (sn, m, j, o))) ->
  match o with
  | ObsErr => model_run S (validator_of sn) m j = None
  | ObsOk saved direct _ _ _ =>
      exists c, model_run S (validator_of sn) m j = Some c
        /\ validator_of sn (oracle_of j) (cget S c) = true
        /\ load S (validator_of sn) (oracle_of j) (save S c) = Some c
        /\ leak_b S c = false
        /\ (forall f, In f (sfields S) -> (m = MDefault -> fhidden f = false) ->
              same_val (fkind f) (jval (fname f) (save S c)) (jval (fname f) saved))
        /\ (m <> MDefault -> forall n v, In (n, v) direct -> v = cget S c n)
        /\ (m = MLoad -> wf_doc S j = true -> forall f, In f (sfields S) -> is_setting f j = true ->
              cget S c (fname f) = canon_in (jval (fname f) j))
  end.
Proof. intros F N. pose proof (no_code1_model_eqb id sn S m j o F N) as E.
  destruct (find_schema_some _ _ _ F) as [I SN]. subst sn.
  pose proof (coherent_in S I) as CO.
  unfold model_eqb in E. destruct (model_run S (validator_of (sname S)) m j) as [c|] eqn:MR; destruct o as [|saved direct valid rt leak]; try discriminate E; [|reflexivity].
  apply andb_true_iff in E. destruct E as [E1 E2].
  destruct (model_run_valid_roundtrip S _ m j c CO (default_roundtrip_tables S _ I) MR) as [Vv RT].
  exists c. split; [reflexivity|]. split; [exact Vv|]. split; [exact RT|]. split; [now apply leak_b_model|].
  split; [|split].
  - intros f Hf HH. apply veq_same_val. unfold saved_eq in E1. rewrite forallb_forall in E1. specialize (E1 f Hf).
    apply orb_true_iff in E1. destruct E1 as [E1|E1]; [|exact E1]. exfalso.
    apply andb_true_iff in E1. destruct E1 as [A B]. destruct m; try discriminate A. rewrite (HH eq_refl) in B. discriminate B.
  - intros NM n v Hin. assert (D : direct_eq S c direct = true) by (destruct m; [exact E2|congruence|exact E2]).
    unfold direct_eq in D. rewrite forallb_forall in D. specialize (D _ Hin). simpl in D. symmetry. now apply val_eqb_eq.
  - intros -> WF f Hf IS. apply model_run_load in MR. exact (sections_faithful_l S _ j c f I MR WF Hf IS). Qed.
