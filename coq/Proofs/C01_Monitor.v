(* C01 — the run-time monitor of Model/C01_Check.v (`spec_okb`, code 2: the property judged on the observations alone)
   tied to the model (`model_eqb`, code 1: the model driven by the observed schedule predicts what was observed) and to a
   Prop-level reading, for every number of replicas, command table and trace (no bound):
   (1) soundness: a trace accepted by the monitor satisfies, event by event, the Prop-level clause of the property;
   (2) completeness w.r.t. the model: a trace on which the implementation agrees with the model (code 1 absent) passes every
       conjunct of the monitor that the model speaks about, under the guards stated below. *)
From V Require Import Base.Common Base.CommonLemmas Model.C01_RaftLog Proofs.C01_RaftLog.
From V Require Import Model.C01_Check.
From Coq Require Import Permutation Arith.

(* ---------- decidable equalities used by the comparisons ---------- *)
Lemma list_eqb_N_eq a b : list_eqb N.eqb a b = true <-> a = b.
Proof. revert b. induction a as [|x r IH]; intros [|y s]; cbn [list_eqb]; try (split; [discriminate|discriminate]); [tauto|].
  rewrite andb_true_iff, N.eqb_eq, IH. split; [intros [-> ->]; reflexivity|intros E; injection E; auto]. Qed.
Lemma list_eqb_sound {A} (eqb : A -> A -> bool) : (forall x y, eqb x y = true -> x = y) -> forall a b, list_eqb eqb a b = true -> a = b.
Proof. intros He. induction a as [|x r IH]; intros [|y s]; cbn [list_eqb]; try discriminate; auto.
  rewrite andb_true_iff. intros [H1 H2]. f_equal; auto. Qed.
Lemma list_eqb_refl_all {A} (eqb : A -> A -> bool) : (forall x, eqb x x = true) -> forall a, list_eqb eqb a a = true.
Proof. intros He. induction a as [|x r IH]; [reflexivity|]. cbn [list_eqb]. now rewrite He, IH. Qed.
Lemma optN_eqb_sound a b : optN_eqb a b = true -> a = b.
Proof. destruct a, b; cbn; try discriminate; auto. intros H. apply N.eqb_eq in H. now subst. Qed.
Lemma optZN_eqb_sound a b : optZN_eqb a b = true -> a = b.
Proof. destruct a as [[x y]|], b as [[x' y']|]; cbn; try discriminate; auto. rewrite andb_true_iff, Z.eqb_eq, N.eqb_eq. intros [-> ->]. reflexivity. Qed.

Lemma tcall_eqb_eq x y : tcall_eqb x y = true <-> x = y.
Proof. destruct x as [t c ty d m a], y as [t' c' ty' d' m' a']. cbn [tcall_eqb].
  rewrite !andb_true_iff, Bool.eqb_true_iff, !N.eqb_eq, Z.eqb_eq, list_eqb_N_eq.
  split; [intros [[[[[-> ->] ->] ->] ->] ->]; reflexivity|intros E; injection E; intros; subst; tauto]. Qed.

Lemma pin_eqb_sound a b : pin_eqb a b = true -> a = b.
Proof. destruct a as [c1 t1 d1 al1 m1 rn1 rx1 nm1 sh1 ua1 ex1 me1 up1 og1 rf1], b as [c2 t2 d2 al2 m2 rn2 rx2 nm2 sh2 ua2 ex2 me2 up2 og2 rf2].
  unfold pin_eqb. cbn [p_cid p_type p_maxdepth p_allocs p_mode p_rmin p_rmax p_name p_shard p_ualloc p_exp p_meta p_update p_origins p_ref].
  rewrite !andb_true_iff. intros H. decompose [and] H. clear H.
  repeat match goal with
  | H : (_ =? _)%N = true |- _ => apply N.eqb_eq in H
  | H : (_ =? _)%Z = true |- _ => apply Z.eqb_eq in H
  | H : list_eqb N.eqb _ _ = true |- _ => apply list_eqb_N_eq in H
  | H : optN_eqb _ _ = true |- _ => apply optN_eqb_sound in H
  | H : optZN_eqb _ _ = true |- _ => apply optZN_eqb_sound in H
  end.
  match goal with H : list_eqb _ me1 me2 = true |- _ =>
    apply (list_eqb_sound _ (fun x y (E : (fst x =? fst y)%N && (snd x =? snd y)%N = true) =>
      ltac:(destruct x, y; cbn [fst snd] in E; apply andb_true_iff in E; destruct E as [E1 E2];
            apply N.eqb_eq in E1, E2; subst; reflexivity))) in H end.
  subst. reflexivity. Qed.
Lemma pins_eqb_sound a b : pins_eqb a b = true -> a = b.
Proof. apply list_eqb_sound. exact pin_eqb_sound. Qed.

(* ---------- multiset comparison of tracker calls is equality up to order ---------- *)
Lemma remove_first_perm x : forall l l', remove_first x l = Some l' -> Permutation l (x :: l').
Proof. induction l as [|y r IH]; intros l' H; [discriminate|]. cbn [remove_first] in H.
  destruct (tcall_eqb x y) eqn:E.
  - injection H as <-. apply tcall_eqb_eq in E. subst. apply Permutation_refl.
  - destruct (remove_first x r) as [r'|] eqn:F; [|discriminate]. injection H as <-.
    rewrite (IH r' eq_refl). apply perm_swap. Qed.
Lemma remove_first_in x : forall l, In x l -> exists l', remove_first x l = Some l'.
Proof. induction l as [|y r IH]; intros H; [destruct H|]. cbn [remove_first].
  destruct (tcall_eqb x y) eqn:E; [eauto|]. destruct H as [->|H].
  - assert (tcall_eqb x x = true) by now apply tcall_eqb_eq. congruence.
  - destruct (IH H) as [l' ->]. eauto. Qed.
Lemma multiset_eqb_perm : forall a b, multiset_eqb a b = true -> Permutation a b.
Proof. induction a as [|x r IH]; intros b H; cbn [multiset_eqb] in H.
  - destruct b; [constructor|discriminate].
  - destruct (remove_first x b) as [b'|] eqn:F; [|discriminate]. rewrite (remove_first_perm _ _ _ F). constructor. now apply IH. Qed.
Lemma perm_multiset_eqb : forall a b, Permutation a b -> multiset_eqb a b = true.
Proof. induction a as [|x r IH]; intros b P.
  - apply Permutation_nil in P. subst. reflexivity.
  - cbn [multiset_eqb]. destruct (remove_first_in x b) as [b' F]; [eapply Permutation_in; [exact P|now left]|].
    rewrite F. apply IH. apply remove_first_perm in F. apply Permutation_cons_inv with x. now transitivity b. Qed.

(* ---------- the monitor split by event kind ---------- *)
(* the conjuncts the model speaks about: everything except acknowledgements (LogPin returning nil: the model has no such
   event, pass 1 accepts every OAck) and the C17 readiness observation (its lower bound m0 is C17's clause) *)
Definition core (e : oevent) : bool := match e with OAck _ _ | OReady _ _ _ _ => false | _ => true end.
Fixpoint spec_run_sel (sel : oevent -> bool) (cmds : list logop) (lg : list N) (sn : list snode) (es : list oevent) : bool :=
  match es with
  | [] => true
  | e :: r => let '(lg', sn', ok) := spec_step cmds lg sn e in (if sel e then ok else true) && spec_run_sel sel cmds lg' sn' r
  end.
Lemma spec_run_split cmds : forall es lg sn,
  spec_run cmds lg sn es = spec_run_sel core cmds lg sn es && spec_run_sel (fun e => negb (core e)) cmds lg sn es.
Proof. induction es as [|e r IH]; intros lg sn; [reflexivity|]. cbn [spec_run spec_run_sel].
  destruct (spec_step cmds lg sn e) as [[lg' sn'] ok]. rewrite IH.
  destruct (core e), ok, (spec_run_sel core cmds lg' sn' r), (spec_run_sel (fun e0 => negb (core e0)) cmds lg' sn' r); reflexivity. Qed.

(* ---------- guards ---------- *)
(* what the harness guarantees about a trace, evaluated along the model's run:
   * a committed command is a row of the command table;
   * nothing is applied or restored on a replica between its FSM.Snapshot and the Persist of that snapshot (the guard
     `ev_atomic` of the theorems: excludes the shape of finding S23);
   * the R3 observation (process killed and started again) is the last event of its trace and names a replica of the rig *)
Definition guard_step (k : nat) (cmds : list logop) (cl : cluster) (e : oevent) (rest : list oevent) : bool :=
  match e with
  | OCommit c => (nn c <? length cmds)%nat
  | OApply n _ | ORestore n _ _ _ => match pending (getn (nn n) cl) with None => true | Some _ => false end
  | ORecovered n _ _ => (nn n <? k)%nat && match rest with [] => true | _ => false end
  | _ => true
  end.
Fixpoint guard_run (k : nat) (cmds : list logop) (cl : cluster) (es : list oevent) : bool :=
  match es with
  | [] => true
  | e :: r => guard_step k cmds cl e r && guard_run k cmds (fst (model_step cmds cl e)) r
  end.
Definition trace_guard (k : N) (cmds : list logop) (es : list oevent) : bool := guard_run (nn k) cmds (init (nn k)) es.

(* the premise of the property and the absence of the S19 shape make every command a plain decodable pin / unpin *)
Definition cmds_ok (cmds : list logop) : Prop := forall op, In op cmds -> in_premise op = true /\ clean_op op = true.
Lemma cmds_ok_of cmds : forallb in_premise cmds = true -> is_S19 cmds = false -> cmds_ok cmds.
Proof. intros Hp Hs op Hin. rewrite forallb_forall in Hp. specialize (Hp op Hin). split; auto.
  unfold is_S19 in Hs. assert (Hn : (match pin_of op with Some p => negb (wire_ok p) | None => false end) = false).
  { destruct (match pin_of op with Some p => negb (wire_ok p) | None => false end) eqn:E; auto.
    assert (existsb (fun op => match pin_of op with Some p => negb (wire_ok p) | None => false end) cmds = true); [|congruence].
    apply existsb_exists. exists op. auto. }
  destruct op as [p|p|p| | |]; cbn in *; try discriminate; now apply negb_false_iff in Hn. Qed.

(* ---------- tracker calls ---------- *)
Lemma proj_track p : wf_pin p = true -> proj_call (track_of (store_norm p)) = proj_call (track_of p).
Proof. intros H. destruct (wf_pin_stored p H) as [E1 [E2 [E3 [E4 E5]]]]. unfold track_of, proj_call. rewrite E1, E2, E3, E4.
  destruct (N.eqb_spec (p_type p) 2) as [E|_]; [now rewrite (E5 E)|reflexivity]. Qed.

Definition call_of (op : logop) : list tcall :=
  match op with LPin p => [track_of (store_norm p)] | LUnpin p => [untrack_of p] | _ => [] end.
Lemma expected_calls_snoc ops hist j : expected_calls ops (hist ++ [j]) =
  expected_calls ops hist ++ match nth_error ops j with Some op => call_of op | None => [] end.
Proof. unfold expected_calls. rewrite flat_map_app. cbn [flat_map]. rewrite app_nil_r.
  destruct (nth_error ops j) as [[p|p|p| | |]|]; reflexivity. Qed.
Lemma expected_calls_commit ops op hist : Forall (fun j => (j < length ops)%nat) hist ->
  expected_calls (ops ++ [op]) hist = expected_calls ops hist.
Proof. intros H. unfold expected_calls. induction hist as [|j r IH]; [reflexivity|]. inversion H as [|? ? Hj Hr]; subst.
  cbn [flat_map]. rewrite (IH Hr), nth_error_app1 by exact Hj. reflexivity. Qed.

(* ---------- the simulation invariant ---------- *)
Record pair_inv (ops : list logop) (nd : node) (s : snode) : Prop := mk_pair_inv {
  pi_strict : node_strict ops nd;
  pi_applied : s_applied s = applied nd;
  pi_pending : s_pending s = pending nd;
  pi_labels : s_labels s = map fst (snaps nd);
  pi_inited : inited nd = false -> applied nd = 0%nat;
  pi_hist : Forall (fun j => (j < length ops)%nat) (s_hist s);
  pi_calls : Permutation (map proj_call (calls nd)) (map proj_call (expected_calls ops (s_hist s)))
}.
Definition inv (cmds : list logop) (cl : cluster) (lg : list N) (sn : list snode) : Prop :=
  log cl = map (cmd_of cmds) lg /\ forallb good_op (log cl) = true /\ forallb in_premise (log cl) = true /\
  Forall2 (pair_inv (log cl)) (nodes cl) sn.

Lemma strict_node0_any ops : node_strict ops node0.
Proof. constructor; cbn; auto; [lia|intros l H; discriminate]. Qed.
Lemma pair_inv0 ops : pair_inv ops node0 snode0.
Proof. constructor; cbn; auto using strict_node0_any. Qed.
Lemma pair_inv_commit ops op nd s : pair_inv ops nd s -> pair_inv (ops ++ [op]) nd s.
Proof. intros [H1 H2 H3 H4 H5 H6 H7]. constructor; auto; try (now apply strict_commit); try (now rewrite expected_calls_commit).
  eapply Forall_impl; [|exact H6]. intros j Hj. cbv beta in *. rewrite app_length. cbn. lia. Qed.

Lemma Forall2_upd (R : node -> snode -> Prop) f g n : forall l l', Forall2 R l l' ->
  (forall x y, nth_error l n = Some x -> nth_error l' n = Some y -> R x y -> R (f x) (g y)) -> Forall2 R (upd n f l) (supd n g l').
Proof. revert n. induction n as [|n IH]; intros l l' H Hf; destruct H as [|x y r r' Hxy Hr]; cbn [upd supd]; try constructor; auto. Qed.
Lemma Forall2_get (R : node -> snode -> Prop) n : forall l l', Forall2 R l l' -> R node0 snode0 -> R (nth n l node0) (nth n l' snode0).
Proof. induction n as [|n IH]; intros l l' H H0; destruct H as [|x y r r' Hxy Hr]; cbn [nth]; auto. Qed.
Lemma sgetn_nth n sn y : nth_error sn n = Some y -> sgetn n sn = y.
Proof. intros H. unfold sgetn. now apply nth_error_nth. Qed.

Lemma inv_get cmds cl lg sn n : inv cmds cl lg sn -> pair_inv (log cl) (getn n cl) (sgetn n sn).
Proof. intros [_ [_ [_ H]]]. unfold getn, sgetn. apply Forall2_get; auto. apply pair_inv0. Qed.

Lemma inv_init cmds k : inv cmds (init k) [] (repeat snode0 k).
Proof. split; [reflexivity|]. split; [reflexivity|]. split; [reflexivity|]. cbn [init nodes log].
  induction k as [|k IH]; cbn [repeat]; constructor; auto. apply pair_inv0. Qed.

(* the view of a replica in the invariant is the replay of the prefix it was given *)
Lemma view_strict ops nd s : pair_inv ops nd s -> view nd = Some (replay (firstn (applied nd) ops)).
Proof. intros [[_ _ Hi _ Hst _ _] _ _ _ Hin _ _]. unfold view. destruct (inited nd) eqn:E; cbn [negb].
  - now rewrite Hi, Hst.
  - rewrite (Hin eq_refl). reflexivity. Qed.

(* updating replica n on both sides *)
Lemma inv_upd cmds cl lg sn n f g : inv cmds cl lg sn ->
  (pair_inv (log cl) (getn n cl) (sgetn n sn) -> pair_inv (log cl) (f (getn n cl)) (g (sgetn n sn))) ->
  inv cmds (mkcluster (log cl) (upd n f (nodes cl))) lg (supd n g sn).
Proof. intros [H1 [H2 [H3 H4]]] Hf. split; [exact H1|]. split; [exact H2|]. split; [exact H3|]. cbn [log nodes].
  apply Forall2_upd; auto. intros x y Hx Hy Hxy. rewrite <- (getn_nth n cl x Hx), <- (sgetn_nth n sn y Hy). apply Hf.
  now rewrite (getn_nth n cl x Hx), (sgetn_nth n sn y Hy). Qed.

Lemma upd_length f n : forall l, length (upd n f l) = length l.
Proof. induction n as [|n IH]; intros [|x r]; cbn [upd length]; auto. Qed.
Lemma step_nodes_length cl e : length (nodes (step cl e)) = length (nodes cl).
Proof. destruct e as [op|n|n|n|n src k|n]; cbn [step].
  - destruct (accepts op); reflexivity.
  - destruct (nth_error _ _); cbn [nodes]; auto using upd_length.
  - cbn [nodes]. apply upd_length.
  - cbn [nodes]. apply upd_length.
  - destruct (nth_error _ _); cbn [nodes]; auto using upd_length.
  - cbn [nodes]. apply upd_length. Qed.
Lemma getn_upd_same lg f n l : getn n (mkcluster lg (upd n f l)) = match nth_error l n with Some x => f x | None => node0 end.
Proof. unfold getn. cbn [nodes]. destruct (nth_error l n) as [x|] eqn:E.
  - apply nth_error_nth. rewrite nth_error_upd, Nat.eqb_refl, E. reflexivity.
  - apply nth_overflow. rewrite upd_length. now apply nth_error_None. Qed.
Lemma getn_upd_fix lg f n l : f node0 = node0 -> getn n (mkcluster lg (upd n f l)) = f (nth n l node0).
Proof. intros H0. rewrite getn_upd_same. destruct (nth_error l n) as [x|] eqn:E.
  - now rewrite (nth_error_nth l n node0 E).
  - rewrite nth_overflow by (now apply nth_error_None). now rewrite H0. Qed.

Lemma Forall2_weaken {A B} (R R' : A -> B -> Prop) : (forall x y, R x y -> R' x y) -> forall l l', Forall2 R l l' -> Forall2 R' l l'.
Proof. intros H l l' F. induction F; constructor; auto. Qed.

Section Sim.
Context (cmds : list logop) (Hok : cmds_ok cmds).

Lemma inv_good_nth cl lg sn j op : inv cmds cl lg sn -> nth_error (log cl) j = Some op ->
  clean_op op = true /\ accepts op = true /\ in_premise op = true.
Proof. intros [_ [H2 [H3 _]]] E. apply nth_error_In in E. rewrite forallb_forall in H2, H3.
  specialize (H2 op E). specialize (H3 op E). unfold good_op in H2. apply andb_true_iff in H2. tauto. Qed.
Lemma inv_len cl lg sn : inv cmds cl lg sn -> length (log cl) = length lg.
Proof. intros [H1 _]. now rewrite H1, map_length. Qed.

(* OCommit *)
Lemma sim_commit cl lg sn c : inv cmds cl lg sn -> (nn c < length cmds)%nat -> accepts (cmd_of cmds c) = true ->
  inv cmds (step cl (MCommit (cmd_of cmds c))) (lg ++ [c]) sn.
Proof. intros [H1 [H2 [H3 H4]]] Hc Ha.
  assert (Hin : In (cmd_of cmds c) cmds) by (unfold cmd_of; apply nth_In; exact Hc).
  destruct (Hok _ Hin) as [Hp Hcl]. cbn [step]. rewrite Ha. split; [|split; [|split]]; cbn [log nodes].
  - now rewrite map_app, H1.
  - rewrite forallb_app, H2. cbn [forallb]. unfold good_op. now rewrite Hcl, Ha.
  - rewrite forallb_app, H3. cbn [forallb]. now rewrite Hp.
  - eapply Forall2_weaken; [|exact H4]. intros nd s. apply pair_inv_commit. Qed.

(* OApply *)
Lemma perm_cons_snoc {A} (a : A) X Y : Permutation X Y -> Permutation (a :: X) (Y ++ [a]).
Proof. intros H. apply Permutation_trans with (a :: Y); [now constructor|apply Permutation_cons_append]. Qed.

Lemma pair_apply ops nd s op : pair_inv ops nd s -> nth_error ops (applied nd) = Some op ->
  clean_op op = true -> accepts op = true -> in_premise op = true -> pending nd = None ->
  pair_inv ops (apply_entry op nd) (mksnode (S (applied nd)) (s_hist s ++ [applied nd]) (s_pending s) (s_labels s)).
Proof. intros P E Hc Ha Hp Hpe. pose proof P as [H1 H2 H3 H4 H5 H6 H7]. pose proof H1 as [Hd Hcr _ _ _ _ _].
  destruct (apply_entry_clean op nd Hc Ha Hd Hcr) as [E1 [E2 [E3 [E4 [E5 [E6 [E7 E8]]]]]]].
  assert (Hlt : (applied nd < length ops)%nat) by (apply nth_error_Some; congruence).
  constructor; cbn [s_applied s_pending s_labels s_hist].
  - apply strict_apply; auto. unfold good_op. now rewrite Hc, Ha.
  - now rewrite E2.
  - now rewrite E6.
  - now rewrite E7.
  - rewrite E8. discriminate.
  - apply Forall_app. split; auto.
  - rewrite (apply_entry_calls op nd Hc Ha Hd Hcr), expected_calls_snoc, E.
    destruct op as [p|p|p| | |]; cbn in Hp; try discriminate; cbn [call_of map]; rewrite map_app; cbn [map].
    + rewrite (proj_track p Hp). now apply perm_cons_snoc.
    + now apply perm_cons_snoc. Qed.

Lemma sim_apply cl lg sn n j : inv cmds cl lg sn -> pending (getn n cl) = None -> applied (getn n cl) = j ->
  (j < length (log cl))%nat ->
  inv cmds (step cl (MApply n)) lg (supd n (fun s => mksnode (S j) (s_hist s ++ [j]) (s_pending s) (s_labels s)) sn) /\
  s_applied (sgetn n sn) = j /\ (j < length lg)%nat.
Proof. intros I Hp Ha Hj. pose proof (inv_get cmds cl lg sn n I) as P. split; [|split].
  - cbn [step]. rewrite Ha. destruct (nth_error (log cl) j) as [op|] eqn:E; [|apply nth_error_None in E; lia].
    destruct (inv_good_nth cl lg sn j op I E) as [Hc [Hac Hpr]].
    apply inv_upd; auto. intros P'. rewrite <- Ha. apply pair_apply; auto. now rewrite Ha.
  - rewrite (pi_applied _ _ _ P). exact Ha.
  - now rewrite <- (inv_len cl lg sn I). Qed.

Lemma sim_no_crash cl lg sn n : inv cmds cl lg sn -> crashed (getn n (step cl (MApply n))) = false.
Proof. intros I. pose proof (inv_get cmds cl lg sn n I) as P. pose proof (pi_strict _ _ _ P) as [Hd Hcr _ _ _ _ _].
  cbn [step]. destruct (nth_error (log cl) (applied (getn n cl))) as [op|] eqn:E; [|exact Hcr].
  destruct (inv_good_nth cl lg sn _ op I E) as [Hc [Hac _]]. rewrite getn_upd_same.
  destruct (nth_error (nodes cl) n) as [x|] eqn:Ex; [|reflexivity].
  rewrite (getn_nth n cl x Ex) in Hd, Hcr. now destruct (apply_entry_clean op x Hc Hac Hd Hcr) as [_ [_ [_ [E4 _]]]]. Qed.

(* OSnapReq *)
Lemma snap_req0 : snap_req node0 = node0. Proof. reflexivity. Qed.
Lemma sim_snapreq cl lg sn n ok : inv cmds cl lg sn ->
  Bool.eqb ok (match pending (getn n (step cl (MSnapReq n))) with Some _ => true | None => false end) = true ->
  inv cmds (step cl (MSnapReq n)) lg
      (supd n (fun s => mksnode (s_applied s) (s_hist s) (if ok then Some (s_applied s) else None) (s_labels s)) sn).
Proof. intros I Hb. cbn [step] in *. rewrite (getn_upd_fix _ _ _ _ snap_req0) in Hb. fold (getn n cl) in Hb.
  apply Bool.eqb_prop in Hb. apply inv_upd; auto. intros P. pose proof P as [H1 H2 H3 H4 H5 H6 H7].
  pose proof H1 as [Hd Hcr _ _ _ _ _]. pose proof (strict_snap_req _ _ H1) as S1.
  unfold snap_req in *. rewrite Hcr in *. cbn [pending] in Hb.
  constructor; cbn [s_applied s_pending s_labels s_hist applied pending snaps inited calls]; auto.
  rewrite H2, Hb. destruct (inited (getn n cl) && negb (incons (getn n cl))); reflexivity. Qed.

(* OPersist *)
Lemma sim_persist cl lg sn n : inv cmds cl lg sn ->
  inv cmds (step cl (MPersist n)) lg
      (supd n (fun s => mksnode (s_applied s) (s_hist s) None (match s_pending s with Some l => s_labels s ++ [l] | None => s_labels s end)) sn).
Proof. intros I. cbn [step]. apply inv_upd; auto. intros P. pose proof P as [H1 H2 H3 H4 H5 H6 H7].
  pose proof (strict_persist _ _ H1) as S1. unfold snap_persist in *. rewrite H3.
  destruct (pending (getn n cl)) as [l|] eqn:Ep.
  - constructor; cbn [s_applied s_pending s_labels s_hist applied pending snaps inited calls]; auto.
    rewrite map_app, H4. reflexivity.
  - constructor; cbn [s_applied s_pending s_labels s_hist]; auto. Qed.

(* ORestore *)
Lemma sim_restore cl lg sn n src k s : inv cmds cl lg sn -> pending (getn n cl) = None ->
  nth_error (snaps (getn src cl)) k = Some s ->
  inv cmds (step cl (MRestore n src k)) lg (supd n (fun x => mksnode (fst s) (s_hist x) (s_pending x) (s_labels x)) sn) /\
  (fst s <= length lg)%nat.
Proof. intros I Hp Es.
  assert (Hs : snap_strict (log cl) s).
  { pose proof (pi_strict _ _ _ (inv_get cmds cl lg sn src I)) as [_ _ _ _ _ _ G7]. rewrite Forall_forall in G7. apply G7.
    eapply nth_error_In; eauto. }
  split; [|destruct Hs as [S1 _]; now rewrite <- (inv_len cl lg sn I)].
  cbn [step]. rewrite Es. apply inv_upd; auto. intros P. pose proof P as [H1 H2 H3 H4 H5 H6 H7].
  pose proof H1 as [Hd Hcr _ _ _ _ _]. pose proof (strict_restore _ _ s H1 Hs Hp) as S1.
  unfold restore in *. rewrite Hcr in *.
  constructor; cbn [s_applied s_pending s_labels s_hist applied pending snaps inited calls]; auto. discriminate. Qed.

(* ORestart *)
Lemma sim_restart cl lg sn n : inv cmds cl lg sn ->
  inv cmds (step cl (MRestart n)) lg (supd n (fun s => mksnode 0 (s_hist s) None (s_labels s)) sn).
Proof. intros I. cbn [step]. apply inv_upd; auto. intros P. pose proof P as [H1 H2 H3 H4 H5 H6 H7].
  pose proof (strict_restart _ _ H1) as S1. unfold restart in *.
  constructor; cbn [s_applied s_pending s_labels s_hist applied pending snaps inited calls]; auto. Qed.

(* observations *)
Definition view_matches (v : option pinset) (o : option (list pin)) : bool :=
  match v, o with Some s, Some l => pins_eqb (map snd s) l | None, None => true | _, _ => false end.

Lemma sim_obs cl lg sn n o : inv cmds cl lg sn -> view_matches (view (getn n cl)) o = true ->
  match o with
  | Some l => let a := s_applied (sgetn n sn) in
              existsb (fun m => pins_eqb (map snd (replay (firstn m (map (cmd_of cmds) lg)))) l) (seq a (S (length lg - a)))
  | None => false end = true.
Proof. intros I Hv. pose proof (inv_get cmds cl lg sn n I) as P. rewrite (view_strict _ _ _ P) in Hv.
  destruct I as [H1 _]. rewrite H1 in Hv. destruct o as [l|]; [|discriminate]. cbn [view_matches] in Hv. cbv zeta.
  apply existsb_exists. exists (applied (getn n cl)). rewrite (pi_applied _ _ _ P). split; [|exact Hv].
  apply in_seq. lia. Qed.

Lemma sim_trk cl lg sn n cs : inv cmds cl lg sn -> multiset_eqb (calls (getn n cl)) cs = true ->
  multiset_eqb (map proj_call (expected_calls (map (cmd_of cmds) lg) (s_hist (sgetn n sn)))) (map proj_call cs) = true.
Proof. intros I Hm. pose proof (inv_get cmds cl lg sn n I) as P. destruct I as [H1 _]. rewrite <- H1.
  apply perm_multiset_eqb. apply Permutation_trans with (map proj_call (calls (getn n cl))).
  - apply Permutation_sym, (pi_calls _ _ _ P).
  - apply Permutation_map. now apply multiset_eqb_perm. Qed.

Lemma sim_offline cl lg sn n l : inv cmds cl lg sn -> pins_eqb (map snd (offline (getn n cl))) l = true ->
  match rev (s_labels (sgetn n sn)) with
  | [] => match l with [] => true | _ => false end
  | lb :: _ => pins_eqb (map snd (replay (firstn lb (map (cmd_of cmds) lg)))) l end = true.
Proof. intros I Hv. pose proof (inv_get cmds cl lg sn n I) as P. destruct I as [H1 _]. rewrite <- H1.
  rewrite (pi_labels _ _ _ P), <- map_rev. unfold offline in Hv.
  pose proof (pi_strict _ _ _ P) as [_ _ _ _ _ _ G7].
  destruct (rev (snaps (getn n cl))) as [|s r] eqn:Er; cbn [map].
  - cbn in Hv. destruct l; [reflexivity|discriminate].
  - assert (Hin : In s (snaps (getn n cl))) by (apply in_rev; rewrite Er; now left).
    rewrite Forall_forall in G7. destruct (G7 s Hin) as [_ S2].
    rewrite restore_merge_nil_id in Hv by (rewrite S2; apply sorted_replay). now rewrite S2 in Hv. Qed.

(* ORecovered: a new process replays m committed entries, m0 <= m *)
Lemma getn_apply_in cl n x op : nth_error (nodes cl) n = Some x -> nth_error (log cl) (applied x) = Some op ->
  getn n (step cl (MApply n)) = apply_entry op x.
Proof. intros Ex E. cbn [step]. rewrite (getn_nth n cl x Ex), E, getn_upd_same, Ex. reflexivity. Qed.

Lemma cand_view n : forall m cl lg sn, inv cmds cl lg sn -> (n < length (nodes cl))%nat -> pending (getn n cl) = None ->
  view (getn n (fold_left step (repeat (MApply n) m) cl)) = Some (replay (firstn (applied (getn n cl) + m) (log cl))).
Proof. induction m as [|m IH]; intros cl lg sn I Hn Hp.
  - cbn [repeat fold_left]. rewrite Nat.add_0_r. exact (view_strict _ _ _ (inv_get cmds cl lg sn n I)).
  - cbn [repeat fold_left]. destruct (nth_error (nodes cl) n) as [x|] eqn:Ex; [|apply nth_error_None in Ex; lia].
    pose proof (getn_nth n cl x Ex) as Eg. rewrite Eg in *.
    destruct (nth_error (log cl) (applied x)) as [op|] eqn:E.
    + assert (Hlt : (applied x < length (log cl))%nat) by (apply nth_error_Some; congruence).
      destruct (sim_apply cl lg sn n (applied x) I) as [I' _]; auto; [now rewrite Eg|now rewrite Eg|].
      destruct (inv_good_nth cl lg sn _ op I E) as [Hc [Hac _]].
      pose proof (pi_strict _ _ _ (inv_get cmds cl lg sn n I)) as [Hd Hcr _ _ _ _ _]. rewrite Eg in Hd, Hcr.
      destruct (apply_entry_clean op x Hc Hac Hd Hcr) as [_ [E2 [_ [_ [_ [E6 _]]]]]].
      pose proof (getn_apply_in cl n x op Ex E) as Ea.
      rewrite (IH _ lg _ I'); [|now rewrite step_nodes_length|now rewrite Ea, E6].
      rewrite Ea, E2. replace (log (step cl (MApply n))) with (log cl) by (cbn [step]; rewrite Eg, E; reflexivity).
      f_equal. f_equal. f_equal. lia.
    + assert (Es : step cl (MApply n) = cl) by (cbn [step]; now rewrite Eg, E). rewrite Es.
      rewrite (IH cl lg sn I Hn); [|now rewrite Eg]. rewrite Eg. apply nth_error_None in E.
      now rewrite !firstn_all2 by lia. Qed.

Lemma sim_recovered cl lg sn n m0 o c : inv cmds cl lg sn -> (n < length (nodes cl))%nat ->
  find (fun c => view_matches (view (getn n c)) o)
       (map (fun m => fold_left step (repeat (MApply n) m) (step cl (MRestart n))) (seq m0 (S (length (log cl) - m0)))) = Some c ->
  match o with
  | Some l => existsb (fun m => pins_eqb (map snd (replay (firstn m (map (cmd_of cmds) lg)))) l) (seq m0 (S (length lg - m0)))
  | None => false end = true.
Proof. intros I Hn F. apply find_some in F. destruct F as [Hin Hv]. apply in_map_iff in Hin. destruct Hin as [m [<- Hm]].
  pose proof (sim_restart cl lg sn n I) as I0.
  assert (E0 : getn n (step cl (MRestart n)) = restart (getn n cl)) by (cbn [step]; now rewrite (getn_upd_fix _ restart n _ eq_refl)).
  rewrite (cand_view n m _ lg _ I0) in Hv; [|now rewrite step_nodes_length|now rewrite E0].
  rewrite E0 in Hv. cbn [restart applied step log Nat.add] in Hv. destruct o as [l|]; [|discriminate]. cbn [view_matches] in Hv.
  apply existsb_exists. exists m. destruct I as [H1 _]. rewrite <- H1. split; [|exact Hv].
  rewrite <- (map_length (cmd_of cmds) lg), <- H1. exact Hm. Qed.

(* ---------- the whole trace ---------- *)
Lemma is_none_true {A} (o : option A) : match o with None => true | Some _ => false end = true -> o = None.
Proof. destruct o; [discriminate|reflexivity]. Qed.

Lemma sim_run k : forall es cl lg sn, inv cmds cl lg sn -> length (nodes cl) = k ->
  guard_run k cmds cl es = true -> model_run cmds cl es = true -> spec_run_sel core cmds lg sn es = true.
Proof. induction es as [|e r IH]; intros cl lg sn I Hk Hg Hm; [reflexivity|].
  cbn [guard_run] in Hg. apply andb_true_iff in Hg. destruct Hg as [Hg1 Hg2].
  cbn [model_run] in Hm. destruct (model_step cmds cl e) as [cl' ok] eqn:Em. apply andb_true_iff in Hm. destruct Hm as [-> Hm].
  cbn [fst] in Hg2. cbn [spec_run_sel].
  destruct e as [c|n j|n j|n okk|n|n src kk lbl|n|c n|n o|n cs|n l|n m0 o|n m0 q o];
    cbn [model_step] in Em; cbn [spec_step core guard_step] in *.
  - (* OCommit *) injection Em as <- Ha. apply Nat.ltb_lt in Hg1. cbn [andb].
    apply (IH _ _ _ (sim_commit cl lg sn c I Hg1 Ha)); auto. now rewrite step_nodes_length.
  - (* OApply *) injection Em as <- Eok. apply is_none_true in Hg1. rewrite !andb_true_iff in Eok. destruct Eok as [[E1 _] E3].
    apply Nat.eqb_eq in E1. apply Nat.ltb_lt in E3.
    destruct (sim_apply cl lg sn (nn n) (nn j) I Hg1 E1 E3) as [I' [A1 A2]].
    rewrite A1, Nat.eqb_refl. cbn [andb]. apply Nat.ltb_lt in A2. rewrite A2. cbn [andb].
    apply (IH _ _ _ I'); auto. now rewrite step_nodes_length.
  - (* OCrash: the model never crashes on a trace in the premise *) injection Em as <- Eok. exfalso.
    rewrite andb_true_iff in Eok. destruct Eok as [_ E2].
    pose proof (sim_no_crash cl lg sn (nn n) I) as X. cbn [step] in X. rewrite X in E2. discriminate.
  - (* OSnapReq *) injection Em as <- Eok. cbn [andb].
    apply (IH _ _ _ (sim_snapreq cl lg sn (nn n) okk I Eok)); auto. now rewrite step_nodes_length.
  - (* OPersist *) injection Em as <- _. cbn [andb].
    apply (IH _ _ _ (sim_persist cl lg sn (nn n) I)); auto. now rewrite step_nodes_length.
  - (* ORestore *) injection Em as <- Eok. apply is_none_true in Hg1.
    destruct (nth_error (snaps (getn (nn src) cl)) (nn kk)) as [s|] eqn:Es; [|discriminate].
    rewrite !andb_true_iff in Eok. destruct Eok as [E1 _]. apply Nat.eqb_eq in E1.
    destruct (sim_restore cl lg sn (nn n) (nn src) (nn kk) s I Hg1 Es) as [I' A]. rewrite E1 in I', A.
    apply Nat.leb_le in A. rewrite A. cbn [andb]. cbn [step] in I'. rewrite Es in I'.
    apply (IH _ _ _ I'); auto. cbn [nodes]. now rewrite upd_length.
  - (* ORestart *) injection Em as <-. cbn [andb].
    apply (IH _ _ _ (sim_restart cl lg sn (nn n) I)); auto. now rewrite step_nodes_length.
  - (* OAck *) injection Em as <-. cbn [andb]. apply (IH _ _ _ I); auto.
  - (* OObs *) injection Em as <- Eok. rewrite andb_true_iff in Eok. destruct Eok as [_ E2].
    pose proof (sim_obs cl lg sn (nn n) o I E2) as X. cbv zeta in X |- *. rewrite X. cbn [andb]. apply (IH _ _ _ I); auto.
  - (* OTrk *) injection Em as <- Eok. pose proof (sim_trk cl lg sn (nn n) cs I Eok) as X. cbv zeta in X |- *. rewrite X. cbn [andb]. apply (IH _ _ _ I); auto.
  - (* OOffline *) injection Em as <- Eok. pose proof (sim_offline cl lg sn (nn n) l I Eok) as X. cbv zeta in X |- *. rewrite X. cbn [andb]. apply (IH _ _ _ I); auto.
  - (* ORecovered: the last event *) apply andb_true_iff in Hg1. destruct Hg1 as [G1 G2]. apply Nat.ltb_lt in G1.
    destruct r as [|e' r']; [|discriminate]. cbn [spec_run_sel]. rewrite andb_true_r.
    match type of Em with (match ?f with Some _ => _ | None => _ end) = _ => destruct f as [c|] eqn:F end; [|discriminate].
    apply (sim_recovered cl lg sn (nn n) (nn m0) o c I); [lia|exact F].
  - (* OReady *) injection Em as <- _. cbn [andb]. apply (IH _ _ _ I); auto. Qed.
End Sim.

(* completeness w.r.t. the model, for every number of replicas, every command table and every trace *)
Lemma model_passes_monitor_l k cmds es :
  forallb in_premise cmds = true -> is_S19 cmds = false -> trace_guard k cmds es = true ->
  model_eqb k cmds es = true -> spec_run_sel core cmds [] (repeat snode0 (nn k)) es = true.
Proof. intros Hp Hs Hg Hm. apply (sim_run cmds (cmds_ok_of cmds Hp Hs) (nn k) es (init (nn k))); auto.
  - apply inv_init.
  - cbn [init nodes]. apply repeat_length. Qed.

(* with the conjuncts the model does not speak about, the whole monitor *)
Lemma model_passes_spec_okb_l k cmds es :
  is_S19 cmds = false -> trace_guard k cmds es = true -> model_eqb k cmds es = true ->
  spec_run_sel (fun e => negb (core e)) cmds [] (repeat snode0 (nn k)) es = true -> spec_okb k cmds es = true.
Proof. intros Hs Hg Hm Ha. unfold spec_okb. destruct (forallb in_premise cmds) eqn:Hp; [|reflexivity].
  rewrite spec_run_split, Ha, (model_passes_monitor_l k cmds es Hp Hs Hg Hm). reflexivity. Qed.

(* ---------- soundness: the Prop-level reading of an accepted trace ---------- *)
(* `lg` is the committed sequence (command numbers) and `sn` the monitor's bookkeeping per replica (next position, positions
   applied so far, snapshot labels), both folded from the trace by spec_step *)
Definition prefix_between (cmds : list logop) (lg : list N) (a : nat) (l : list pin) : Prop :=
  exists m, (a <= m < a + S (length lg - a))%nat /\ l = map snd (replay (firstn m (map (cmd_of cmds) lg))).

Definition event_spec (cmds : list logop) (lg : list N) (sn : list snode) (e : oevent) : Prop :=
  let ops := map (cmd_of cmds) lg in
  match e with
  | OApply n j => s_applied (sgetn (nn n) sn) = nn j /\ (nn j < length lg)%nat      (* the next entry of the one sequence *)
  | OCrash _ _ => False                                                              (* no replica crashes *)
  | ORestore _ _ _ lbl => (nn lbl <= length lg)%nat
  | OAck c n => exists j, (j < s_applied (sgetn (nn n) sn))%nat /\ nth_error lg j = Some c   (* acknowledged: committed and applied on the committer *)
  | OObs n o => exists l, o = Some l /\ prefix_between cmds lg (s_applied (sgetn (nn n) sn)) l
  | OTrk n cs => Permutation (map proj_call (expected_calls ops (s_hist (sgetn (nn n) sn)))) (map proj_call cs)
  | OOffline n l => l = map snd (match rev (s_labels (sgetn (nn n) sn)) with [] => [] | lb :: _ => replay (firstn lb ops) end)
  | ORecovered _ m0 o => exists l, o = Some l /\ prefix_between cmds lg (nn m0) l
  | OReady n m0 _ o => exists l, o = Some l /\ prefix_between cmds lg (Nat.max (s_applied (sgetn (nn n) sn)) (nn m0)) l
  | _ => True
  end.
Fixpoint trace_spec (cmds : list logop) (lg : list N) (sn : list snode) (es : list oevent) : Prop :=
  match es with
  | [] => True
  | e :: r => event_spec cmds lg sn e /\
              trace_spec cmds (fst (fst (spec_step cmds lg sn e))) (snd (fst (spec_step cmds lg sn e))) r
  end.

Lemma existsb_prefix cmds lg a l :
  existsb (fun m => pins_eqb (map snd (replay (firstn m (map (cmd_of cmds) lg)))) l) (seq a (S (length lg - a))) = true ->
  prefix_between cmds lg a l.
Proof. intros H. apply existsb_exists in H. destruct H as [m [Hm He]]. apply in_seq in Hm. apply pins_eqb_sound in He.
  exists m. split; [lia|now symmetry]. Qed.

Lemma event_sound cmds lg sn e : snd (spec_step cmds lg sn e) = true -> event_spec cmds lg sn e.
Proof. destruct e as [c|n j|n j|n okk|n|n src kk lbl|n|c n|n o|n cs|n l|n m0 o|n m0 q o]; cbn [spec_step snd event_spec]; cbv zeta; intros H; auto.
  - apply andb_true_iff in H. destruct H as [H1 H2]. apply Nat.eqb_eq in H1. apply Nat.ltb_lt in H2. auto.
  - discriminate.
  - now apply Nat.leb_le.
  - apply existsb_exists in H. destruct H as [j [Hj He]]. apply in_seq in Hj. apply N.eqb_eq in He. exists j. split; [lia|].
    rewrite <- He. apply nth_error_nth'. lia.
  - destruct o as [l|]; [|discriminate]. exists l. split; auto. now apply existsb_prefix.
  - now apply multiset_eqb_perm.
  - destruct (rev (s_labels (sgetn (nn n) sn))) as [|lb r]; [destruct l; [reflexivity|discriminate]|].
    apply pins_eqb_sound in H. now symmetry.
  - destruct o as [l|]; [|discriminate]. exists l. split; auto. now apply existsb_prefix.
  - destruct o as [l|]; [|discriminate]. exists l. split; auto. now apply existsb_prefix. Qed.

Lemma spec_run_sound cmds : forall es lg sn, spec_run cmds lg sn es = true -> trace_spec cmds lg sn es.
Proof. induction es as [|e r IH]; intros lg sn H; [exact I|]. cbn [spec_run] in H. cbn [trace_spec].
  destruct (spec_step cmds lg sn e) as [[lg' sn'] ok] eqn:E. apply andb_true_iff in H. destruct H as [-> H].
  split; [apply event_sound; now rewrite E|cbn [fst snd]; now apply IH]. Qed.

Lemma monitor_sound_l k cmds es : forallb in_premise cmds = true -> spec_okb k cmds es = true ->
  trace_spec cmds [] (repeat snode0 (nn k)) es.
Proof. intros Hp H. unfold spec_okb in H. rewrite Hp in H. now apply spec_run_sound. Qed.
