(* C01 — the run-time monitor of Model/C01_Check.v (`spec_okb`, code 2: the property judged on the observations alone)
   tied to the model (`model_eqb`, code 1: the model driven by the observed schedule predicts what was observed) and to a
   Prop-level reading, for every number of replicas, command table and trace (no bound):
   (1) soundness: a trace accepted by the monitor satisfies, event by event, the Prop-level clause of the property;
   (2) completeness w.r.t. the model: a trace on which the implementation agrees with the model (code 1 absent) passes every
       conjunct of the monitor that the model speaks about (all but C17's OReady), acknowledgements included, unless it has
       the shape of a carried finding (tag_of <> 0): no untagged code-2 failure on a trace the model accepts;
   (3) an acknowledged operation is in the log below what its committer has applied, hence in the committer's pinset unless
       a later applied operation writes the same cid. *)
From V Require Import Base.Common Base.CommonLemmas Model.C01_RaftLog Proofs.C01_RaftLog.
From V Require Import Model.C01_Check.
From Coq Require Import Permutation Arith.

(* ---------- decidable equalities used by the comparisons ---------- *)
Lemma list_eqb_N_eq a b : list_eqb N.eqb a b = true <-> a = b.
Proof. revert b. induction a as [|x r IH]; intros [|y s]; cbn [list_eqb]; try (split; [discriminate|discriminate]); [tauto|].
  rewrite andb_true_iff, N.eqb_eq, IH. split; [intros [-> ->]; reflexivity|intros E; injection E; auto]. Qed.
Lemma list_eqb_sound {A} (eqb : A -> A -> bool) : (forall x y, eqb x y = true -> x = y) -> forall a b, list_eqb eqb a b = true -> a = b.
Proof. intros He. induction a as [|x r IH]; intros [|y s]; cbn [list_eqb]; try discriminate; auto.
  rewrite andb_true_iff. intros [H1 H2]. f_equal; auto. Qed.
Lemma list_eqb_refl_all {A} (eqb : A -> A -> bool) : (forall x, eqb x x = true) -> forall a, list_eqb eqb a a = true.
Proof. intros He. induction a as [|x r IH]; [reflexivity|]. cbn [list_eqb]. now rewrite He, IH. Qed.
Lemma optN_eqb_sound a b : optN_eqb a b = true -> a = b.
Proof. destruct a, b; cbn; try discriminate; auto. intros H. apply N.eqb_eq in H. now subst. Qed.
Lemma optZN_eqb_sound a b : optZN_eqb a b = true -> a = b.
Proof. destruct a as [[x y]|], b as [[x' y']|]; cbn; try discriminate; auto. rewrite andb_true_iff, Z.eqb_eq, N.eqb_eq. intros [-> ->]. reflexivity. Qed.

Lemma tcall_eqb_eq x y : tcall_eqb x y = true <-> x = y.
Proof. destruct x as [t c ty d m a], y as [t' c' ty' d' m' a']. cbn [tcall_eqb].
  rewrite !andb_true_iff, Bool.eqb_true_iff, !N.eqb_eq, Z.eqb_eq, list_eqb_N_eq.
  split; [intros [[[[[-> ->] ->] ->] ->] ->]; reflexivity|intros E; injection E; intros; subst; tauto]. Qed.

Lemma pin_eqb_sound a b : pin_eqb a b = true -> a = b.
Proof. destruct a as [c1 t1 d1 al1 m1 rn1 rx1 nm1 sh1 ua1 ex1 me1 up1 og1 rf1], b as [c2 t2 d2 al2 m2 rn2 rx2 nm2 sh2 ua2 ex2 me2 up2 og2 rf2].
  unfold pin_eqb. cbn [p_cid p_type p_maxdepth p_allocs p_mode p_rmin p_rmax p_name p_shard p_ualloc p_exp p_meta p_update p_origins p_ref].
  rewrite !andb_true_iff. intros H. decompose [and] H. clear H.
  repeat match goal with
  | H : (_ =? _)%N = true |- _ => apply N.eqb_eq in H
  | H : (_ =? _)%Z = true |- _ => apply Z.eqb_eq in H
  | H : list_eqb N.eqb _ _ = true |- _ => apply list_eqb_N_eq in H
  | H : optN_eqb _ _ = true |- _ => apply optN_eqb_sound in H
  | H : optZN_eqb _ _ = true |- _ => apply optZN_eqb_sound in H
  end.
  match goal with H : list_eqb _ me1 me2 = true |- _ =>
    apply (list_eqb_sound _ (fun x y (E : (fst x =? fst y)%N && (snd x =? snd y)%N = true) =>
      ltac:(destruct x, y; cbn [fst snd] in E; apply andb_true_iff in E; destruct E as [E1 E2];
            apply N.eqb_eq in E1, E2; subst; reflexivity))) in H end.
  subst. reflexivity. Qed.
Lemma pins_eqb_sound a b : pins_eqb a b = true -> a = b.
Proof. apply list_eqb_sound. exact pin_eqb_sound. Qed.

(* ---------- multiset comparison of tracker calls is equality up to order ---------- *)
Lemma remove_first_perm x : forall l l', remove_first x l = Some l' -> Permutation l (x :: l').
Proof. induction l as [|y r IH]; intros l' H; [discriminate|]. cbn [remove_first] in H.
  destruct (tcall_eqb x y) eqn:E.
  - injection H as <-. apply tcall_eqb_eq in E. subst. apply Permutation_refl.
  - destruct (remove_first x r) as [r'|] eqn:F; [|discriminate]. injection H as <-.
    rewrite (IH r' eq_refl). apply perm_swap. Qed.
Lemma remove_first_in x : forall l, In x l -> exists l', remove_first x l = Some l'.
Proof. induction l as [|y r IH]; intros H; [destruct H|]. cbn [remove_first].
  destruct (tcall_eqb x y) eqn:E; [eauto|]. destruct H as [->|H].
  - assert (tcall_eqb x x = true) by now apply tcall_eqb_eq. congruence.
  - destruct (IH H) as [l' ->]. eauto. Qed.
Lemma multiset_eqb_perm : forall a b, multiset_eqb a b = true -> Permutation a b.
Proof. induction a as [|x r IH]; intros b H; cbn [multiset_eqb] in H.
  - destruct b; [constructor|discriminate].
  - destruct (remove_first x b) as [b'|] eqn:F; [|discriminate]. rewrite (remove_first_perm _ _ _ F). constructor. now apply IH. Qed.
Lemma perm_multiset_eqb : forall a b, Permutation a b -> multiset_eqb a b = true.
Proof. induction a as [|x r IH]; intros b P.
  - apply Permutation_nil in P. subst. reflexivity.
  - cbn [multiset_eqb]. destruct (remove_first_in x b) as [b' F]; [eapply Permutation_in; [exact P|now left]|].
    rewrite F. apply IH. apply remove_first_perm in F. apply Permutation_cons_inv with x. now transitivity b. Qed.

(* ---------- the monitor split by event kind ---------- *)
(* the conjuncts the model speaks about: everything except the C17 readiness observation (its lower bound m0 is C17's clause) *)
Definition core (e : oevent) : bool := match e with OReady _ _ _ _ => false | _ => true end.
Fixpoint spec_run_sel (sel : oevent -> bool) (cmds : list logop) (lg : list N) (ak : list (N * nat)) (sn : list snode) (es : list oevent) : bool :=
  match es with
  | [] => true
  | e :: r => let '(lg', sn', ok) := spec_step cmds lg ak sn e in (if sel e then ok else true) && spec_run_sel sel cmds lg' (ack_step lg ak e) sn' r
  end.
Lemma spec_run_split cmds : forall es lg ak sn,
  spec_run cmds lg ak sn es = spec_run_sel core cmds lg ak sn es && spec_run_sel (fun e => negb (core e)) cmds lg ak sn es.
Proof. induction es as [|e r IH]; intros lg ak sn; [reflexivity|]. cbn [spec_run spec_run_sel].
  destruct (spec_step cmds lg ak sn e) as [[lg' sn'] ok]. rewrite IH.
  destruct (core e), ok, (spec_run_sel core cmds lg' (ack_step lg ak e) sn' r), (spec_run_sel (fun e0 => negb (core e0)) cmds lg' (ack_step lg ak e) sn' r); reflexivity. Qed.

(* ---------- guards ---------- *)
(* what the harness guarantees about the FORM of a trace (no reference to the model):
   * a committed command is a row of the command table;
   * the R3 observation (process killed and started again) is the last event of its trace and names a replica of the rig *)
Definition wf_step (k : nat) (cmds : list logop) (e : oevent) (rest : list oevent) : bool :=
  match e with
  | OCommit c => (nn c <? length cmds)%nat
  | ORecovered n _ _ => (nn n <? k)%nat && match rest with [] => true | _ => false end
  | _ => true
  end.
Fixpoint wf_run (k : nat) (cmds : list logop) (es : list oevent) : bool :=
  match es with [] => true | e :: r => wf_step k cmds e r && wf_run k cmds r end.
Definition trace_wf (k : N) (cmds : list logop) (es : list oevent) : bool := wf_run (nn k) cmds es.

(* the same with the guard `ev_atomic` of the theorems of Props/C01.v, evaluated along the model's run: nothing is applied or
   restored on a replica between its FSM.Snapshot and the Persist of that snapshot. It implies that the S23 recogniser stays
   silent (atomic_not_late_l below), so the theorems under `tag_of = 0` cover every trace with atomic snapshots. *)
Definition guard_step (k : nat) (cmds : list logop) (cl : cluster) (e : oevent) (rest : list oevent) : bool :=
  match e with
  | OCommit c => (nn c <? length cmds)%nat
  | OApply n _ | ORestore n _ _ _ => match pending (getn (nn n) cl) with None => true | Some _ => false end
  | ORecovered n _ _ => (nn n <? k)%nat && match rest with [] => true | _ => false end
  | _ => true
  end.
Fixpoint guard_run (k : nat) (cmds : list logop) (lg : list N) (ak : list (N * nat)) (cl : cluster) (es : list oevent) : bool :=
  match es with
  | [] => true
  | e :: r => guard_step k cmds cl e r && guard_run k cmds (log_step cmds lg e) (ack_step lg ak e) (fst (model_step cmds lg ak cl e)) r
  end.
Definition trace_guard (k : N) (cmds : list logop) (es : list oevent) : bool := guard_run (nn k) cmds [] [] (init (nn k)) es.

(* the premise of the property and the absence of the S19 shape make every command a plain decodable pin / unpin *)
Definition cmds_ok (cmds : list logop) : Prop := forall op, In op cmds -> in_premise op = true /\ clean_op op = true.
Lemma cmds_ok_of cmds : forallb in_premise cmds = true -> is_S19 cmds = false -> cmds_ok cmds.
Proof. intros Hp Hs op Hin. rewrite forallb_forall in Hp. specialize (Hp op Hin). split; auto.
  unfold is_S19 in Hs. assert (Hn : (match pin_of op with Some p => negb (wire_ok p) | None => false end) = false).
  { destruct (match pin_of op with Some p => negb (wire_ok p) | None => false end) eqn:E; auto.
    assert (existsb (fun op => match pin_of op with Some p => negb (wire_ok p) | None => false end) cmds = true); [|congruence].
    apply existsb_exists. exists op. auto. }
  destruct op as [p|p|p| | |]; cbn in *; try discriminate; now apply negb_false_iff in Hn. Qed.

(* tag_of = 0: neither the S19 shape nor the S23 shape *)
Lemma tag_of_0 cmds es : tag_of cmds es = 0 -> is_S19 cmds = false /\ late_restore [] [] [] es = false.
Proof. unfold tag_of. destruct (is_S19 cmds); [discriminate|]. destruct (late_restore [] [] [] es); [discriminate|]. auto. Qed.

(* ---------- tracker calls ---------- *)
Lemma proj_track p : wf_pin p = true -> proj_call (track_of (store_norm p)) = proj_call (track_of p).
Proof. intros H. destruct (wf_pin_stored p H) as [E1 [E2 [E3 [E4 E5]]]]. unfold track_of, proj_call. rewrite E1, E2, E3, E4.
  destruct (N.eqb_spec (p_type p) 2) as [E|_]; [now rewrite (E5 E)|reflexivity]. Qed.

Definition call_of (op : logop) : list tcall :=
  match op with LPin p => [track_of (store_norm p)] | LUnpin p => [untrack_of p] | _ => [] end.
Lemma expected_calls_snoc ops hist j : expected_calls ops (hist ++ [j]) =
  expected_calls ops hist ++ match nth_error ops j with Some op => call_of op | None => [] end.
Proof. unfold expected_calls. rewrite flat_map_app. cbn [flat_map]. rewrite app_nil_r.
  destruct (nth_error ops j) as [[p|p|p| | |]|]; reflexivity. Qed.
Lemma expected_calls_commit ops op hist : Forall (fun j => (j < length ops)%nat) hist ->
  expected_calls (ops ++ [op]) hist = expected_calls ops hist.
Proof. intros H. unfold expected_calls. induction hist as [|j r IH]; [reflexivity|]. inversion H as [|? ? Hj Hr]; subst.
  cbn [flat_map]. rewrite (IH Hr), nth_error_app1 by exact Hj. reflexivity. Qed.

(* ---------- the state of a replica without its snapshots ---------- *)
(* `node_strict` of Proofs/C01_RaftLog.v minus the clauses about the pending and the persisted snapshots: those hold of the
   snapshots the recogniser does not call late (node_rec below) *)
Record node_core (lg : list logop) (nd : node) : Prop := mk_node_core {
  c_dirty : dirty nd = false;
  c_crashed : crashed nd = false;
  c_incons : incons nd = false;
  c_applied : (applied nd <= length lg)%nat;
  c_st : st nd = replay (firstn (applied nd) lg)
}.
Lemma core_node0_any ops : node_core ops node0.
Proof. constructor; cbn; auto. lia. Qed.
Lemma core_commit lg nd op : node_core lg nd -> node_core (lg ++ [op]) nd.
Proof. intros [H1 H2 H3 H4 H5]. constructor; auto.
  - rewrite app_length. cbn. lia.
  - now rewrite firstn_app_le. Qed.
Lemma core_apply lg nd op : node_core lg nd -> nth_error lg (applied nd) = Some op -> good_op op = true ->
  node_core lg (apply_entry op nd).
Proof. intros [H1 H2 H3 H4 H5] Hn Hg. apply andb_true_iff in Hg. destruct Hg as [Hc Ha].
  destruct (apply_entry_clean op nd Hc Ha H1 H2) as [E1 [E2 [E3 [E4 [E5 [E6 [E7 E8]]]]]]].
  assert (Hlen : (applied nd < length lg)%nat) by (apply nth_error_Some; congruence).
  constructor; auto.
  - congruence.
  - rewrite E2. lia.
  - rewrite E1, E2, H5. symmetry. now apply replay_step. Qed.
Lemma core_snap_req lg nd : node_core lg nd -> node_core lg (snap_req nd).
Proof. intros [H1 H2 H3 H4 H5]. unfold snap_req. rewrite H2. constructor; cbn; auto. Qed.
Lemma core_persist lg nd : node_core lg nd -> node_core lg (snap_persist nd).
Proof. intros G. pose proof G as [H1 H2 H3 H4 H5]. unfold snap_persist. destruct (pending nd) as [l|]; auto.
  constructor; cbn; auto. Qed.
Lemma core_restore lg nd s : node_core lg nd -> snap_strict lg s -> node_core lg (restore s nd).
Proof. intros [H1 H2 H3 H4 H5] [S1 S2]. unfold restore. rewrite H2. constructor; cbn; auto.
  rewrite restore_onto_id; auto. rewrite S2. apply sorted_replay. Qed.
Lemma core_install lg nd s : node_core lg nd -> snap_strict lg s -> node_core lg (install s nd).
Proof. intros [H1 H2 H3 H4 H5] [S1 S2]. unfold install. rewrite H2. constructor; cbn; auto.
  rewrite restore_onto_id; auto. rewrite S2. apply sorted_replay. Qed.
Lemma core_restart lg nd : node_core lg nd -> node_core lg (restart nd).
Proof. intros [H1 H2 H3 H4 H5]. unfold restart. constructor; cbn; auto. lia. Qed.

(* ---------- the simulation invariant, part A: model replica / monitor bookkeeping ---------- *)
Record pair_inv (ops : list logop) (nd : node) (s : snode) : Prop := mk_pair_inv {
  pi_core : node_core ops nd;
  pi_applied : s_applied s = applied nd;
  pi_pending : s_pending s = pending nd;
  pi_labels : s_labels s = map fst (snaps nd);
  pi_inited : inited nd = false -> applied nd = 0%nat;
  pi_hist : Forall (fun j => (j < length ops)%nat) (s_hist s);
  pi_calls : Permutation (map proj_call (calls nd)) (map proj_call (expected_calls ops (s_hist s)))
}.
Definition inv (cmds : list logop) (cl : cluster) (lg : list N) (sn : list snode) : Prop :=
  log cl = map (cmd_of cmds) lg /\ forallb good_op (log cl) = true /\ forallb in_premise (log cl) = true /\
  Forall2 (pair_inv (log cl)) (nodes cl) sn.

Lemma pair_inv0 ops : pair_inv ops node0 snode0.
Proof. constructor; cbn; auto using core_node0_any. Qed.
Lemma pair_inv_commit ops op nd s : pair_inv ops nd s -> pair_inv (ops ++ [op]) nd s.
Proof. intros [H1 H2 H3 H4 H5 H6 H7]. constructor; auto; try (now apply core_commit); try (now rewrite expected_calls_commit).
  eapply Forall_impl; [|exact H6]. intros j Hj. cbv beta in *. rewrite app_length. cbn. lia. Qed.

Lemma Forall2_upd (R : node -> snode -> Prop) f g n : forall l l', Forall2 R l l' ->
  (forall x y, nth_error l n = Some x -> nth_error l' n = Some y -> R x y -> R (f x) (g y)) -> Forall2 R (upd n f l) (supd n g l').
Proof. revert n. induction n as [|n IH]; intros l l' H Hf; destruct H as [|x y r r' Hxy Hr]; cbn [upd supd]; try constructor; auto. Qed.
Lemma Forall2_get (R : node -> snode -> Prop) n : forall l l', Forall2 R l l' -> R node0 snode0 -> R (nth n l node0) (nth n l' snode0).
Proof. induction n as [|n IH]; intros l l' H H0; destruct H as [|x y r r' Hxy Hr]; cbn [nth]; auto. Qed.
Lemma sgetn_nth n sn y : nth_error sn n = Some y -> sgetn n sn = y.
Proof. intros H. unfold sgetn. now apply nth_error_nth. Qed.

Lemma inv_get cmds cl lg sn n : inv cmds cl lg sn -> pair_inv (log cl) (getn n cl) (sgetn n sn).
Proof. intros [_ [_ [_ H]]]. unfold getn, sgetn. apply Forall2_get; auto. apply pair_inv0. Qed.

Lemma inv_init cmds k : inv cmds (init k) [] (repeat snode0 k).
Proof. split; [reflexivity|]. split; [reflexivity|]. split; [reflexivity|]. cbn [init nodes log].
  induction k as [|k IH]; cbn [repeat]; constructor; auto. apply pair_inv0. Qed.

(* the view of a replica in the invariant is the replay of the prefix it was given *)
Lemma view_strict ops nd s : pair_inv ops nd s -> view nd = Some (replay (firstn (applied nd) ops)).
Proof. intros [[_ _ Hi _ Hst] _ _ _ Hin _ _]. unfold view. destruct (inited nd) eqn:E; cbn [negb].
  - now rewrite Hi, Hst.
  - rewrite (Hin eq_refl). reflexivity. Qed.

(* updating replica n on both sides *)
Lemma inv_upd cmds cl lg sn n f g : inv cmds cl lg sn ->
  (pair_inv (log cl) (getn n cl) (sgetn n sn) -> pair_inv (log cl) (f (getn n cl)) (g (sgetn n sn))) ->
  inv cmds (mkcluster (log cl) (upd n f (nodes cl))) lg (supd n g sn).
Proof. intros [H1 [H2 [H3 H4]]] Hf. split; [exact H1|]. split; [exact H2|]. split; [exact H3|]. cbn [log nodes].
  apply Forall2_upd; auto. intros x y Hx Hy Hxy. rewrite <- (getn_nth n cl x Hx), <- (sgetn_nth n sn y Hy). apply Hf.
  now rewrite (getn_nth n cl x Hx), (sgetn_nth n sn y Hy). Qed.

Lemma step_nodes_length cl e : length (nodes (step cl e)) = length (nodes cl).
Proof. destruct e as [op|n|n|n|n src k|n]; cbn [step].
  - destruct (accepts op); reflexivity.
  - destruct (nth_error _ _); cbn [nodes]; auto using upd_length.
  - cbn [nodes]. apply upd_length.
  - cbn [nodes]. apply upd_length.
  - destruct (nth_error _ _); cbn [nodes]; auto using upd_length.
  - cbn [nodes]. apply upd_length. Qed.
Lemma Forall2_weaken {A B} (R R' : A -> B -> Prop) : (forall x y, R x y -> R' x y) -> forall l l', Forall2 R l l' -> Forall2 R' l l'.
Proof. intros H l l' F. induction F; constructor; auto. Qed.

(* ---------- the simulation invariant, part B: the recogniser's bookkeeping and the model's snapshots ---------- *)
(* replica i of the model against the state (pend, cnt, late) of `late_restore`:
   * a pending snapshot is known to the recogniser, and while it has seen nothing given to the replica since the FSM.Snapshot,
     the label is the replica's position;
   * it has counted the replica's snapshots;
   * every snapshot it does not call late is the replay of the prefix it is labelled with *)
Record node_rec (lg : list logop) (pend : list (N * bool)) (cnt late : list (N * N)) (i : nat) (nd : node) : Prop := mk_node_rec {
  r_pending : forall l, pending nd = Some l -> exists b, aget (N.of_nat i) pend = Some b /\ (b = false -> l = applied nd);
  r_cnt : cnt_of (N.of_nat i) cnt = N.of_nat (length (snaps nd));
  r_snaps : forall k s, nth_error (snaps nd) k = Some s -> is_late late (N.of_nat i) (N.of_nat k) = false -> snap_strict lg s
}.
Definition rec_inv (lg : list logop) (pend : list (N * bool)) (cnt late : list (N * N)) (l : list node) : Prop :=
  forall i nd, nth_error l i = Some nd -> node_rec lg pend cnt late i nd.

Lemma aget_touch_other n k pend : k <> n -> aget k (touch n pend) = aget k pend.
Proof. intros H. unfold touch. destruct (aget n pend); [now apply aget_aput_other|reflexivity]. Qed.
Lemma aget_touch_same n pend b : aget n pend = Some b -> aget n (touch n pend) = Some true.
Proof. intros H. unfold touch. rewrite H. apply aget_aput_same. Qed.
Lemma cnt_of_aput_same n v cnt : cnt_of n (aput n v cnt) = v.
Proof. unfold cnt_of. now rewrite aget_aput_same. Qed.
Lemma cnt_of_aput_other n k v cnt : k <> n -> cnt_of k (aput n v cnt) = cnt_of k cnt.
Proof. intros H. unfold cnt_of. now rewrite aget_aput_other. Qed.
Lemma is_late_cons x late a b : is_late (x :: late) a b = false -> is_late late a b = false.
Proof. unfold is_late. cbn [existsb]. intros H. apply orb_false_iff in H. tauto. Qed.
Lemma is_late_hd late a b : is_late ((a, b) :: late) a b = true.
Proof. unfold is_late. cbn [existsb fst snd]. now rewrite !N.eqb_refl. Qed.
Lemma of_nat_neq n i : nn n <> i -> N.of_nat i <> n.
Proof. intros H E. apply H. subst n. unfold nn. apply Nat2N.id. Qed.
Lemma of_nat_nn n : N.of_nat (nn n) = n.
Proof. unfold nn. apply N2Nat.id. Qed.

Lemma rec_init k : rec_inv [] [] [] [] (repeat node0 k).
Proof. intros i nd Hi. apply nth_error_In, repeat_spec in Hi. subst nd. constructor; cbn.
  - intros l H. discriminate.
  - reflexivity.
  - intros j s H. destruct j; discriminate. Qed.

Lemma snap_strict_commit lg op s : snap_strict lg s -> snap_strict (lg ++ [op]) s.
Proof. intros [S1 S2]. split; [rewrite app_length; cbn; lia|now rewrite firstn_app_le]. Qed.
Lemma rec_commit lg op pend cnt late l : rec_inv lg pend cnt late l -> rec_inv (lg ++ [op]) pend cnt late l.
Proof. intros R i nd Hi. destruct (R i nd Hi) as [R1 R2 R3]. constructor; auto.
  intros k s Hs Hl. apply snap_strict_commit. eauto. Qed.

(* replica n changes, the recogniser's state changes at key n at most, `late` grows at most *)
Lemma rec_upd lg pend pend' cnt cnt' late late' n f l :
  rec_inv lg pend cnt late l ->
  (forall k, k <> n -> aget k pend' = aget k pend) ->
  (forall k, k <> n -> cnt_of k cnt' = cnt_of k cnt) ->
  (forall a b, is_late late' a b = false -> is_late late a b = false) ->
  (forall x, nth_error l (nn n) = Some x -> node_rec lg pend cnt late (nn n) x -> node_rec lg pend' cnt' late' (nn n) (f x)) ->
  rec_inv lg pend' cnt' late' (upd (nn n) f l).
Proof. intros R Hp Hc Hl Hf i nd Hi. rewrite nth_error_upd in Hi. destruct (Nat.eqb_spec (nn n) i) as [E|Hne].
  - subst i. destruct (nth_error l (nn n)) as [x|] eqn:Ex; [|discriminate]. cbn in Hi. injection Hi as <-. apply Hf; auto.
  - destruct (R i nd Hi) as [R1 R2 R3]. pose proof (of_nat_neq n i Hne) as Hk. constructor.
    + intros l0 Hl0. rewrite (Hp _ Hk). now apply R1.
    + rewrite (Hc _ Hk). exact R2.
    + intros k s Hs Hlate. apply (R3 k s Hs). now apply Hl. Qed.

(* what the recogniser does not flag is strict *)
Lemma rec_snap_strict cl pend cnt late src k s : rec_inv (log cl) pend cnt late (nodes cl) ->
  nth_error (snaps (getn (nn src) cl)) (nn k) = Some s -> is_late late src k = false -> snap_strict (log cl) s.
Proof. intros R Es Hl. destruct (getn_cases (nn src) cl) as [[y [Hy Ey]]|[_ Ey]]; rewrite Ey in Es.
  - apply (r_snaps _ _ _ _ _ _ (R _ _ Hy) (nn k) s Es). now rewrite !of_nat_nn.
  - cbn in Es. destruct (nn k); discriminate. Qed.
Lemma is_late_none late n k : existsb (fun x : N * N => fst x =? n) late = false -> is_late late n k = false.
Proof. unfold is_late. induction late as [|x r IH]; [reflexivity|]. cbn [existsb]. intros H. apply orb_false_iff in H. destruct H as [H1 H2].
  rewrite H1, (IH H2). reflexivity. Qed.
Lemma rec_all_strict cl pend cnt late n s : rec_inv (log cl) pend cnt late (nodes cl) ->
  existsb (fun x : N * N => fst x =? n) late = false -> In s (snaps (getn (nn n) cl)) -> snap_strict (log cl) s.
Proof. intros R Hl Hin. destruct (getn_cases (nn n) cl) as [[y [Hy Ey]]|[_ Ey]]; rewrite Ey in Hin; [|destruct Hin].
  destruct (In_nth_error _ _ Hin) as [k Hk]. apply (r_snaps _ _ _ _ _ _ (R _ _ Hy) k s Hk). rewrite of_nat_nn. now apply is_late_none. Qed.
Ltac split_model Em Eok := let E1 := fresh "E" in
  pose proof (f_equal fst Em) as E1; pose proof (f_equal snd Em) as Eok; cbn [fst snd] in E1, Eok; clear Em; match type of E1 with _ = ?x => subst x end.


Section Sim.
Context (cmds : list logop) (Hok : cmds_ok cmds).

Lemma inv_good_nth cl lg sn j op : inv cmds cl lg sn -> nth_error (log cl) j = Some op ->
  clean_op op = true /\ accepts op = true /\ in_premise op = true.
Proof. intros [_ [H2 [H3 _]]] E. apply nth_error_In in E. rewrite forallb_forall in H2, H3.
  specialize (H2 op E). specialize (H3 op E). unfold good_op in H2. apply andb_true_iff in H2. tauto. Qed.
Lemma inv_len cl lg sn : inv cmds cl lg sn -> length (log cl) = length lg.
Proof. intros [H1 _]. now rewrite H1, map_length. Qed.

(* OCommit *)
Lemma sim_commit cl lg sn c : inv cmds cl lg sn -> (nn c < length cmds)%nat -> accepts (cmd_of cmds c) = true ->
  inv cmds (step cl (MCommit (cmd_of cmds c))) (lg ++ [c]) sn.
Proof. intros [H1 [H2 [H3 H4]]] Hc Ha.
  assert (Hin : In (cmd_of cmds c) cmds) by (unfold cmd_of; apply nth_In; exact Hc).
  destruct (Hok _ Hin) as [Hp Hcl]. cbn [step]. rewrite Ha. split; [|split; [|split]]; cbn [log nodes].
  - now rewrite map_app, H1.
  - rewrite forallb_app, H2. cbn [forallb]. unfold good_op. now rewrite Hcl, Ha.
  - rewrite forallb_app, H3. cbn [forallb]. now rewrite Hp.
  - eapply Forall2_weaken; [|exact H4]. intros nd s. apply pair_inv_commit. Qed.

(* OApply *)
Lemma perm_cons_snoc {A} (a : A) X Y : Permutation X Y -> Permutation (a :: X) (Y ++ [a]).
Proof. intros H. apply Permutation_trans with (a :: Y); [now constructor|apply Permutation_cons_append]. Qed.

Lemma pair_apply ops nd s op : pair_inv ops nd s -> nth_error ops (applied nd) = Some op ->
  clean_op op = true -> accepts op = true -> in_premise op = true ->
  pair_inv ops (apply_entry op nd) (mksnode (S (applied nd)) (s_hist s ++ [applied nd]) (s_pending s) (s_labels s)).
Proof. intros P E Hc Ha Hp. pose proof P as [H1 H2 H3 H4 H5 H6 H7]. pose proof H1 as [Hd Hcr _ _ _].
  destruct (apply_entry_clean op nd Hc Ha Hd Hcr) as [E1 [E2 [E3 [E4 [E5 [E6 [E7 E8]]]]]]].
  assert (Hlt : (applied nd < length ops)%nat) by (apply nth_error_Some; congruence).
  constructor; cbn [s_applied s_pending s_labels s_hist].
  - apply core_apply; auto. unfold good_op. now rewrite Hc, Ha.
  - now rewrite E2.
  - now rewrite E6.
  - now rewrite E7.
  - rewrite E8. discriminate.
  - apply Forall_app. split; auto.
  - rewrite (apply_entry_calls op nd Hc Ha Hd Hcr), expected_calls_snoc, E.
    destruct op as [p|p|p| | |]; cbn in Hp; try discriminate; cbn [call_of map]; rewrite map_app; cbn [map].
    + rewrite (proj_track p Hp). now apply perm_cons_snoc.
    + now apply perm_cons_snoc. Qed.

Lemma sim_apply cl lg sn n j : inv cmds cl lg sn -> applied (getn n cl) = j ->
  (j < length (log cl))%nat ->
  inv cmds (step cl (MApply n)) lg (supd n (fun s => mksnode (S j) (s_hist s ++ [j]) (s_pending s) (s_labels s)) sn) /\
  s_applied (sgetn n sn) = j /\ (j < length lg)%nat.
Proof. intros I Ha Hj. pose proof (inv_get cmds cl lg sn n I) as P. split; [|split].
  - cbn [step]. rewrite Ha. destruct (nth_error (log cl) j) as [op|] eqn:E; [|apply nth_error_None in E; lia].
    destruct (inv_good_nth cl lg sn j op I E) as [Hc [Hac Hpr]].
    apply inv_upd; auto. intros P'. rewrite <- Ha. apply pair_apply; auto. now rewrite Ha.
  - rewrite (pi_applied _ _ _ P). exact Ha.
  - now rewrite <- (inv_len cl lg sn I). Qed.

Lemma sim_no_crash cl lg sn n : inv cmds cl lg sn -> crashed (getn n (step cl (MApply n))) = false.
Proof. intros I. pose proof (inv_get cmds cl lg sn n I) as P. pose proof (pi_core _ _ _ P) as [Hd Hcr _ _ _].
  cbn [step]. destruct (nth_error (log cl) (applied (getn n cl))) as [op|] eqn:E; [|exact Hcr].
  destruct (inv_good_nth cl lg sn _ op I E) as [Hc [Hac _]]. rewrite getn_upd_same.
  destruct (nth_error (nodes cl) n) as [x|] eqn:Ex; [|reflexivity].
  rewrite (getn_nth n cl x Ex) in Hd, Hcr. now destruct (apply_entry_clean op x Hc Hac Hd Hcr) as [_ [_ [_ [E4 _]]]]. Qed.

(* OSnapReq *)
Lemma snap_req0 : snap_req node0 = node0. Proof. reflexivity. Qed.
Lemma sim_snapreq cl lg sn n ok : inv cmds cl lg sn ->
  Bool.eqb ok (match pending (getn n (step cl (MSnapReq n))) with Some _ => true | None => false end) = true ->
  inv cmds (step cl (MSnapReq n)) lg
      (supd n (fun s => mksnode (s_applied s) (s_hist s) (if ok then Some (s_applied s) else None) (s_labels s)) sn).
Proof. intros I Hb. cbn [step] in *. rewrite (getn_upd_fix _ _ _ _ snap_req0) in Hb. fold (getn n cl) in Hb.
  apply Bool.eqb_prop in Hb. apply inv_upd; auto. intros P. pose proof P as [H1 H2 H3 H4 H5 H6 H7].
  pose proof H1 as [Hd Hcr _ _ _]. pose proof (core_snap_req _ _ H1) as S1.
  unfold snap_req in *. rewrite Hcr in *. cbn [pending] in Hb.
  constructor; cbn [s_applied s_pending s_labels s_hist applied pending snaps inited calls]; auto.
  rewrite H2, Hb. destruct (inited (getn n cl) && negb (incons (getn n cl))); reflexivity. Qed.

(* OPersist *)
Lemma sim_persist cl lg sn n : inv cmds cl lg sn ->
  inv cmds (step cl (MPersist n)) lg
      (supd n (fun s => mksnode (s_applied s) (s_hist s) None (match s_pending s with Some l => s_labels s ++ [l] | None => s_labels s end)) sn).
Proof. intros I. cbn [step]. apply inv_upd; auto. intros P. pose proof P as [H1 H2 H3 H4 H5 H6 H7].
  pose proof (core_persist _ _ H1) as S1. unfold snap_persist in *. rewrite H3.
  destruct (pending (getn n cl)) as [l|] eqn:Ep.
  - constructor; cbn [s_applied s_pending s_labels s_hist applied pending snaps inited calls]; auto.
    rewrite map_app, H4. reflexivity.
  - constructor; cbn [s_applied s_pending s_labels s_hist]; auto. Qed.

(* ORestore: of a snapshot that is the replay of the prefix it is labelled with *)
Lemma sim_restore cl lg sn n src k s : inv cmds cl lg sn ->
  nth_error (snaps (getn src cl)) k = Some s -> snap_strict (log cl) s ->
  inv cmds (step cl (MRestore n src k)) lg
      (supd n (fun x => mksnode (fst s) (s_hist x) (s_pending x) (if Nat.eqb src n then s_labels x else s_labels x ++ [fst s])) sn) /\
  (fst s <= length lg)%nat.
Proof. intros I Es Hs.
  split; [|destruct Hs as [S1 _]; now rewrite <- (inv_len cl lg sn I)].
  cbn [step]. rewrite Es. apply inv_upd; auto. intros P. pose proof P as [H1 H2 H3 H4 H5 H6 H7].
  pose proof H1 as [Hd Hcr _ _ _]. pose proof (core_restore _ _ s H1 Hs) as S1. pose proof (core_install _ _ s H1 Hs) as S2.
  destruct (Nat.eqb src n).
  - unfold restore in *. rewrite Hcr in *.
    constructor; cbn [s_applied s_pending s_labels s_hist applied pending snaps inited calls]; auto. discriminate.
  - unfold install in *. rewrite Hcr in *.
    constructor; cbn [s_applied s_pending s_labels s_hist applied pending snaps inited calls]; auto; [|discriminate].
    now rewrite map_app, H4. Qed.

(* ORestart *)
Lemma sim_restart cl lg sn n : inv cmds cl lg sn ->
  inv cmds (step cl (MRestart n)) lg (supd n (fun s => mksnode 0 (s_hist s) None (s_labels s)) sn).
Proof. intros I. cbn [step]. apply inv_upd; auto. intros P. pose proof P as [H1 H2 H3 H4 H5 H6 H7].
  pose proof (core_restart _ _ H1) as S1. unfold restart in *.
  constructor; cbn [s_applied s_pending s_labels s_hist applied pending snaps inited calls]; auto. Qed.

(* observations *)
Definition view_matches (v : option pinset) (o : option (list pin)) : bool :=
  match v, o with Some s, Some l => pins_eqb (map snd s) l | None, None => true | _, _ => false end.

Lemma sim_obs cl lg sn n o : inv cmds cl lg sn -> view_matches (view (getn n cl)) o = true ->
  match o with
  | Some l => let a := s_applied (sgetn n sn) in
              existsb (fun m => pins_eqb (map snd (replay (firstn m (map (cmd_of cmds) lg)))) l) (seq a (S (length lg - a)))
  | None => false end = true.
Proof. intros I Hv. pose proof (inv_get cmds cl lg sn n I) as P. rewrite (view_strict _ _ _ P) in Hv.
  destruct I as [H1 _]. rewrite H1 in Hv. destruct o as [l|]; [|discriminate]. cbn [view_matches] in Hv. cbv zeta.
  apply existsb_exists. exists (applied (getn n cl)). rewrite (pi_applied _ _ _ P). split; [|exact Hv].
  apply in_seq. lia. Qed.

Lemma sim_trk cl lg sn n cs : inv cmds cl lg sn -> multiset_eqb (calls (getn n cl)) cs = true ->
  multiset_eqb (map proj_call (expected_calls (map (cmd_of cmds) lg) (s_hist (sgetn n sn)))) (map proj_call cs) = true.
Proof. intros I Hm. pose proof (inv_get cmds cl lg sn n I) as P. destruct I as [H1 _]. rewrite <- H1.
  apply perm_multiset_eqb. apply Permutation_trans with (map proj_call (calls (getn n cl))).
  - apply Permutation_sym, (pi_calls _ _ _ P).
  - apply Permutation_map. now apply multiset_eqb_perm. Qed.

(* OOffline: the newest snapshot is the replay of the prefix it is labelled with *)
Lemma sim_offline cl lg sn n l : inv cmds cl lg sn ->
  (forall s, In s (snaps (getn n cl)) -> snap_strict (log cl) s) ->
  pins_eqb (map snd (offline (getn n cl))) l = true ->
  match s_labels (sgetn n sn) with
  | [] => match l with [] => true | _ => false end
  | lbs => pins_eqb (map snd (replay (firstn (newlbl lbs) (map (cmd_of cmds) lg)))) l end = true.
Proof. intros I Hs Hv. pose proof (inv_get cmds cl lg sn n I) as P. destruct I as [H1 _]. rewrite <- H1.
  rewrite (pi_labels _ _ _ P). unfold offline in Hv.
  destruct (snaps (getn n cl)) as [|x r] eqn:Es.
  - cbn in Hv |- *. destruct l; [reflexivity|discriminate].
  - cbn [map]. change (fst x :: map fst r) with (map fst (x :: r)). unfold newlbl. rewrite newest_label.
    destruct (newest (x :: r)) as [s|] eqn:En; [|apply newest_none in En; discriminate].
    destruct (Hs s (newest_in _ _ En)) as [_ S2].
    rewrite restore_merge_nil_id in Hv by (rewrite S2; apply sorted_replay). now rewrite S2 in Hv. Qed.

(* ORecovered: a new process replays m committed entries, m0 <= m *)
Lemma getn_apply_in cl n x op : nth_error (nodes cl) n = Some x -> nth_error (log cl) (applied x) = Some op ->
  getn n (step cl (MApply n)) = apply_entry op x.
Proof. intros Ex E. cbn [step]. rewrite (getn_nth n cl x Ex), E, getn_upd_same, Ex. reflexivity. Qed.

Lemma cand_view n : forall m cl lg sn, inv cmds cl lg sn -> (n < length (nodes cl))%nat ->
  view (getn n (fold_left step (repeat (MApply n) m) cl)) = Some (replay (firstn (applied (getn n cl) + m) (log cl))).
Proof. induction m as [|m IH]; intros cl lg sn I Hn.
  - cbn [repeat fold_left]. rewrite Nat.add_0_r. exact (view_strict _ _ _ (inv_get cmds cl lg sn n I)).
  - cbn [repeat fold_left]. destruct (nth_error (nodes cl) n) as [x|] eqn:Ex; [|apply nth_error_None in Ex; lia].
    pose proof (getn_nth n cl x Ex) as Eg. rewrite Eg in *.
    destruct (nth_error (log cl) (applied x)) as [op|] eqn:E.
    + assert (Hlt : (applied x < length (log cl))%nat) by (apply nth_error_Some; congruence).
      destruct (sim_apply cl lg sn n (applied x) I) as [I' _]; auto; [now rewrite Eg|].
      destruct (inv_good_nth cl lg sn _ op I E) as [Hc [Hac _]].
      pose proof (pi_core _ _ _ (inv_get cmds cl lg sn n I)) as [Hd Hcr _ _ _]. rewrite Eg in Hd, Hcr.
      destruct (apply_entry_clean op x Hc Hac Hd Hcr) as [_ [E2 [_ [_ [_ [E6 _]]]]]].
      pose proof (getn_apply_in cl n x op Ex E) as Ea.
      rewrite (IH _ lg _ I'); [|now rewrite step_nodes_length].
      rewrite Ea, E2. replace (log (step cl (MApply n))) with (log cl) by (cbn [step]; rewrite Eg, E; reflexivity).
      f_equal. f_equal. f_equal. lia.
    + assert (Es : step cl (MApply n) = cl) by (cbn [step]; now rewrite Eg, E). rewrite Es.
      rewrite (IH cl lg sn I Hn). rewrite Eg. apply nth_error_None in E.
      now rewrite !firstn_all2 by lia. Qed.

Lemma sim_recovered cl lg sn n m0 o c : inv cmds cl lg sn -> (n < length (nodes cl))%nat ->
  find (fun c => view_matches (view (getn n c)) o)
       (map (fun m => fold_left step (repeat (MApply n) m) (step cl (MRestart n))) (seq m0 (S (length (log cl) - m0)))) = Some c ->
  match o with
  | Some l => existsb (fun m => pins_eqb (map snd (replay (firstn m (map (cmd_of cmds) lg)))) l) (seq m0 (S (length lg - m0)))
  | None => false end = true.
Proof. intros I Hn F. apply find_some in F. destruct F as [Hin Hv]. apply in_map_iff in Hin. destruct Hin as [m [<- Hm]].
  pose proof (sim_restart cl lg sn n I) as I0.
  assert (E0 : getn n (step cl (MRestart n)) = restart (getn n cl)) by (cbn [step]; now rewrite (getn_upd_fix _ restart n _ eq_refl)).
  rewrite (cand_view n m _ lg _ I0) in Hv; [|now rewrite step_nodes_length].
  rewrite E0 in Hv. cbn [restart applied step log Nat.add] in Hv. destruct o as [l|]; [|discriminate]. cbn [view_matches] in Hv.
  apply existsb_exists. exists m. destruct I as [H1 _]. rewrite <- H1. split; [|exact Hv].
  rewrite <- (map_length (cmd_of cmds) lg), <- H1. exact Hm. Qed.

(* ---------- part B, event by event ---------- *)
Lemma rec_apply cl lg sn pend cnt late n op : inv cmds cl lg sn -> rec_inv (log cl) pend cnt late (nodes cl) ->
  nth_error (log cl) (applied (getn (nn n) cl)) = Some op ->
  rec_inv (log cl) (touch n pend) cnt late (upd (nn n) (apply_entry op) (nodes cl)).
Proof. intros I R E. destruct (inv_good_nth cl lg sn _ op I E) as [Hc [Hac _]].
  pose proof (pi_core _ _ _ (inv_get cmds cl lg sn (nn n) I)) as [Hd Hcr _ _ _].
  apply (rec_upd _ pend _ cnt _ late); auto.
  - intros k Hk. now apply aget_touch_other.
  - intros x Ex [R1 R2 R3]. rewrite (getn_nth _ cl x Ex) in Hd, Hcr.
    destruct (apply_entry_clean op x Hc Hac Hd Hcr) as [_ [_ [_ [_ [_ [E6 [E7 _]]]]]]]. rewrite of_nat_nn in *.
    constructor; rewrite ?of_nat_nn, ?E6, ?E7; auto.
    intros l Hl. destruct (R1 l Hl) as [b [Hb _]]. exists true. split; [eapply aget_touch_same; eauto|discriminate]. Qed.

Lemma rec_restore cl lg sn pend cnt late n s : inv cmds cl lg sn -> rec_inv (log cl) pend cnt late (nodes cl) ->
  rec_inv (log cl) (touch n pend) cnt late (upd (nn n) (restore s) (nodes cl)).
Proof. intros I R. pose proof (pi_core _ _ _ (inv_get cmds cl lg sn (nn n) I)) as [_ Hcr _ _ _].
  apply (rec_upd _ pend _ cnt _ late); auto.
  - intros k Hk. now apply aget_touch_other.
  - intros x Ex [R1 R2 R3]. rewrite (getn_nth _ cl x Ex) in Hcr. unfold restore. rewrite Hcr. rewrite of_nat_nn in *.
    constructor; rewrite ?of_nat_nn; cbn [pending snaps applied]; auto.
    intros l Hl. destruct (R1 l Hl) as [b [Hb _]]. exists true. split; [eapply aget_touch_same; eauto|discriminate]. Qed.

Lemma rec_install cl lg sn pend cnt late n s : inv cmds cl lg sn -> rec_inv (log cl) pend cnt late (nodes cl) ->
  snap_strict (log cl) s ->
  rec_inv (log cl) (touch n pend) (aput n (cnt_of n cnt + 1) cnt) late (upd (nn n) (install s) (nodes cl)).
Proof. intros I R Hs. pose proof (pi_core _ _ _ (inv_get cmds cl lg sn (nn n) I)) as [_ Hcr _ _ _].
  apply (rec_upd _ pend _ cnt _ late); auto.
  - intros k Hk. now apply aget_touch_other.
  - intros k Hk. now apply cnt_of_aput_other.
  - intros x Ex [R1 R2 R3]. rewrite (getn_nth _ cl x Ex) in Hcr. unfold install. rewrite Hcr. rewrite of_nat_nn in *.
    constructor; rewrite ?of_nat_nn; cbn [pending snaps applied].
    + intros l Hl. destruct (R1 l Hl) as [b [Hb _]]. exists true. split; [eapply aget_touch_same; eauto|discriminate].
    + rewrite cnt_of_aput_same, R2, app_length. cbn [length]. lia.
    + intros k s0 Hs0 Hl. destruct (Nat.lt_ge_cases k (length (snaps x))) as [Hlt|Hge].
      * rewrite nth_error_app1 in Hs0 by exact Hlt. now apply (R3 k s0 Hs0).
      * assert (Hk : k = length (snaps x)).
        { assert (k < length (snaps x ++ [s]))%nat by (apply nth_error_Some; congruence).
          rewrite app_length in *. cbn [length] in *. lia. }
        subst k. rewrite nth_error_app2, Nat.sub_diag in Hs0 by lia. cbn in Hs0. injection Hs0 as <-. exact Hs. Qed.

Lemma rec_snapreq cl lg sn pend cnt late n (ok : bool) : inv cmds cl lg sn -> rec_inv (log cl) pend cnt late (nodes cl) ->
  Bool.eqb ok (match pending (getn (nn n) (step cl (MSnapReq (nn n)))) with Some _ => true | None => false end) = true ->
  rec_inv (log cl) (if ok then aput n false pend else pend) cnt late (upd (nn n) snap_req (nodes cl)).
Proof. intros I R Hb. cbn [step] in Hb. rewrite (getn_upd_fix _ _ _ _ snap_req0) in Hb. fold (getn (nn n) cl) in Hb.
  apply Bool.eqb_prop in Hb. pose proof (pi_core _ _ _ (inv_get cmds cl lg sn (nn n) I)) as [_ Hcr _ _ _].
  apply (rec_upd _ pend _ cnt _ late); auto.
  - intros k Hk. destruct ok; [now apply aget_aput_other|reflexivity].
  - intros x Ex [R1 R2 R3]. rewrite (getn_nth _ cl x Ex) in Hcr, Hb. unfold snap_req in *. rewrite Hcr in *. cbn [pending] in Hb.
    constructor; rewrite ?of_nat_nn; cbn [pending snaps applied]; auto; [|now rewrite of_nat_nn in R2|now rewrite of_nat_nn in R3].
    intros l Hl. destruct ok.
    + exists false. split; [apply aget_aput_same|]. intros _.
      destruct (inited x && negb (incons x)); [now injection Hl as <-|discriminate].
    + rewrite Hl in Hb. discriminate. Qed.

Lemma rec_persist cl lg sn pend cnt late n l0 : inv cmds cl lg sn -> rec_inv (log cl) pend cnt late (nodes cl) ->
  pending (getn (nn n) cl) = Some l0 ->
  rec_inv (log cl) (adel n pend) (aput n (cnt_of n cnt + 1) cnt)
          (match aget n pend with Some true => (n, cnt_of n cnt) :: late | _ => late end) (upd (nn n) snap_persist (nodes cl)).
Proof. intros I R Hp. pose proof (pi_core _ _ _ (inv_get cmds cl lg sn (nn n) I)) as [_ _ _ Ha Hst].
  apply (rec_upd _ pend _ cnt _ late); auto.
  - intros k Hk. now apply aget_adel_other.
  - intros k Hk. now apply cnt_of_aput_other.
  - intros a b Hl. destruct (aget n pend) as [[|]|]; auto. eapply is_late_cons; eauto.
  - intros x Ex [R1 R2 R3]. rewrite (getn_nth _ cl x Ex) in Hp, Ha, Hst. rewrite of_nat_nn in *. unfold snap_persist. rewrite Hp.
    constructor; rewrite ?of_nat_nn; cbn [pending snaps applied].
    + intros l Hl. discriminate.
    + rewrite cnt_of_aput_same, R2, app_length. cbn [length]. lia.
    + intros k s Hs Hl. destruct (Nat.lt_ge_cases k (length (snaps x))) as [Hlt|Hge].
      * rewrite nth_error_app1 in Hs by exact Hlt. apply (R3 k s Hs).
        destruct (aget n pend) as [[|]|]; auto. eapply is_late_cons; eauto.
      * assert (Hk : k = length (snaps x)).
        { assert (k < length (snaps x ++ [(l0, st x)]))%nat by (apply nth_error_Some; congruence).
          rewrite app_length in *. cbn [length] in *. lia. }
        subst k. rewrite nth_error_app2, Nat.sub_diag in Hs by lia. cbn in Hs. injection Hs as <-.
        destruct (R1 l0 Hp) as [b [Hb Hb2]]. rewrite Hb in Hl. destruct b.
        -- rewrite R2, is_late_hd in Hl. discriminate.
        -- rewrite (Hb2 eq_refl). split; cbn [fst snd]; auto. Qed.

Lemma rec_restart cl pend cnt late n : rec_inv (log cl) pend cnt late (nodes cl) ->
  rec_inv (log cl) (adel n pend) cnt late (upd (nn n) restart (nodes cl)).
Proof. intros R. apply (rec_upd _ pend _ cnt _ late); auto.
  - intros k Hk. now apply aget_adel_other.
  - intros x Ex [R1 R2 R3]. constructor; cbn [restart pending snaps applied]; auto. intros l Hl. discriminate. Qed.

(* ---------- one event ---------- *)
Definition inv2 (cl : cluster) (lg : list N) (sn : list snode) (pend : list (N * bool)) (cnt late : list (N * N)) : Prop :=
  inv cmds cl lg sn /\ rec_inv (log cl) pend cnt late (nodes cl).

Lemma is_none_true {A} (o : option A) : match o with None => true | Some _ => false end = true -> o = None.
Proof. destruct o; [discriminate|reflexivity]. Qed.
Lemma is_some_true {A} (o : option A) : match o with Some _ => true | None => false end = true -> exists x, o = Some x.
Proof. destruct o; [eauto|discriminate]. Qed.

(* the model accepts the event, the recogniser does not flag it: the monitor's conjunct holds (C17's OReady excepted) and the
   invariant goes on - except past the R3 observation, which ends its trace *)
Lemma sim_step k cl lg ak sn pend cnt late e rest cl' lg' sn' ok pend' cnt' late' :
  inv2 cl lg sn pend cnt late -> length (nodes cl) = k -> wf_step k cmds e rest = true ->
  model_step cmds lg ak cl e = (cl', true) ->
  spec_step cmds lg ak sn e = (lg', sn', ok) ->
  late_step pend cnt late e = (pend', cnt', late', false) ->
  (core e = true -> ok = true) /\
  (rest = [] \/ (inv2 cl' lg' sn' pend' cnt' late' /\ lg' = log_step cmds lg e /\ length (nodes cl') = k)).
Proof. intros [I R] Hk Hw Em Es El.
  destruct e as [c|n j|n j|n okk|n|n src kk lbl|n|c n|n o|n cs|n l|n m0 o|n m0 q o|n];
    unfold model_step in Em; cbv zeta in Em; cbn [spec_step] in Es; cbn [late_step] in El; cbn [wf_step] in Hw; cbn [core log_step].
  - (* OCommit *) split_model Em Ha. injection Es as <- <- <-. injection El as <- <- <-. apply Nat.ltb_lt in Hw.
    split; [reflexivity|]. right. rewrite Ha. split; [|split; [reflexivity|now rewrite step_nodes_length]].
    split; [now apply sim_commit|]. cbn [step]. rewrite Ha. cbn [log nodes]. now apply rec_commit.
  - (* OApply *) split_model Em Eok. injection Es as <- <- <-. injection El as <- <- <-.
    rewrite !andb_true_iff in Eok. destruct Eok as [[E1 _] E3]. apply Nat.eqb_eq in E1. apply Nat.ltb_lt in E3.
    destruct (sim_apply cl lg sn (nn n) (nn j) I E1 E3) as [I' [A1 A2]].
    split; [intros _; rewrite A1, Nat.eqb_refl; apply Nat.ltb_lt in A2; now rewrite A2|].
    right. split; [|split; [reflexivity|now rewrite step_nodes_length]]. split; [exact I'|].
    cbn [step]. destruct (nth_error (log cl) (applied (getn (nn n) cl))) as [op|] eqn:E; [|apply nth_error_None in E; lia].
    cbn [log nodes]. eapply rec_apply; eauto.
  - (* OCrash: the model never crashes on a trace in the premise *) split_model Em Eok. exfalso.
    rewrite andb_true_iff in Eok. destruct Eok as [_ E2].
    pose proof (sim_no_crash cl lg sn (nn n) I) as X. rewrite X in E2. discriminate.
  - (* OSnapReq *) split_model Em Eok. injection Es as <- <- <-.
    split; [reflexivity|]. right.
    assert (El' : (pend', cnt', late') = (if okk then aput n false pend else pend, cnt, late)) by (destruct okk; congruence).
    injection El' as -> -> ->.
    split; [|split; [reflexivity|now rewrite step_nodes_length]]. split; [now apply sim_snapreq|].
    cbn [step log nodes]. eapply rec_snapreq; eauto.
  - (* OPersist *) split_model Em Eok. injection Es as <- <- <-. injection El as <- <- <-.
    split; [reflexivity|]. right. apply is_some_true in Eok. destruct Eok as [l0 Ep].
    split; [|split; [reflexivity|now rewrite step_nodes_length]]. split; [now apply sim_persist|].
    cbn [step log nodes]. eapply rec_persist; eauto.
  - (* ORestore *) split_model Em Eok. injection Es as <- <- <-. injection El as <- <- <- Hl.
    destruct (nth_error (snaps (getn (nn src) cl)) (nn kk)) as [s|] eqn:Esn; [|discriminate].
    pose proof Eok as E1. apply Nat.eqb_eq in E1.
    pose proof (rec_snap_strict cl pend cnt late src kk s R Esn Hl) as Hs.
    destruct (sim_restore cl lg sn (nn n) (nn src) (nn kk) s I Esn Hs) as [I' A]. rewrite E1 in I', A.
    split; [intros _; now apply Nat.leb_le|]. right.
    split; [|split; [reflexivity|now rewrite step_nodes_length]]. split; [exact I'|].
    cbn [step]. rewrite Esn. cbn [log nodes]. destruct (Nat.eqb (nn src) (nn n)); [eapply rec_restore; eauto|eapply rec_install; eauto].
  - (* ORestart *) split_model Em Eok. injection Es as <- <- <-. injection El as <- <- <-.
    split; [reflexivity|]. right.
    split; [|split; [reflexivity|now rewrite step_nodes_length]]. split; [now apply sim_restart|].
    cbn [step log nodes]. now apply rec_restart.
  - (* OAck *) split_model Em Eok. injection Es as <- <- <-. injection El as <- <- <-.
    split; [intros _; now rewrite (pi_applied _ _ _ (inv_get cmds cl lg sn (nn n) I))|]. right. split; [split; [exact I|exact R]|split; [reflexivity|exact Hk]].
  - (* OObs *) split_model Em Eok. injection Es as <- <- <-. injection El as <- <- <-.
    rewrite andb_true_iff in Eok. destruct Eok as [_ E2].
    split; [intros _; exact (sim_obs cl lg sn (nn n) o I E2)|]. right. split; [split; [exact I|exact R]|split; [reflexivity|exact Hk]].
  - (* OTrk *) split_model Em Eok. injection Es as <- <- <-. injection El as <- <- <-.
    split; [intros _; exact (sim_trk cl lg sn (nn n) cs I Eok)|]. right. split; [split; [exact I|exact R]|split; [reflexivity|exact Hk]].
  - (* OOffline *) split_model Em Eok. injection Es as <- <- <-. injection El as <- <- <- Hl.
    split; [intros _|right; split; [split; [exact I|exact R]|split; [reflexivity|exact Hk]]].
    apply (sim_offline cl lg sn (nn n) l I); auto. intros s Hin. eapply rec_all_strict; eauto.
  - (* ORecovered: the last event *) apply andb_true_iff in Hw. destruct Hw as [G1 G2]. apply Nat.ltb_lt in G1.
    destruct rest as [|e' r']; [|discriminate]. split; [|now left]. intros _. injection Es as <- <- <-.
    match type of Em with (match ?f with Some _ => _ | None => _ end) = _ => destruct f as [c|] eqn:F end; [|discriminate].
    apply (sim_recovered cl lg sn (nn n) (nn m0) o c I); [lia|exact F].
  - (* OReady *) split_model Em Eok. injection Es as <- <- <-. injection El as <- <- <-.
    split; [discriminate|]. right. split; [split; [exact I|exact R]|split; [reflexivity|exact Hk]].
  - (* OStopped *) split_model Em Eok. injection Es as <- <- <-. injection El as <- <- <-.
    split; [intros _; now rewrite (pi_labels _ _ _ (inv_get cmds cl lg sn (nn n) I))|]. right. split; [split; [exact I|exact R]|split; [reflexivity|exact Hk]]. Qed.

(* ---------- the whole trace ---------- *)
Lemma sim_run k : forall es cl lg ak sn pend cnt late, inv2 cl lg sn pend cnt late -> length (nodes cl) = k ->
  wf_run k cmds es = true -> model_run cmds lg ak cl es = true -> late_restore pend cnt late es = false ->
  spec_run_sel core cmds lg ak sn es = true.
Proof. induction es as [|e r IH]; intros cl lg ak sn pend cnt late I Hk Hw Hm Hl; [reflexivity|].
  cbn [wf_run] in Hw. apply andb_true_iff in Hw. destruct Hw as [Hw1 Hw2].
  cbn [model_run] in Hm. destruct (model_step cmds lg ak cl e) as [cl' ok] eqn:Em. apply andb_true_iff in Hm. destruct Hm as [-> Hm].
  cbn [late_restore] in Hl. destruct (late_step pend cnt late e) as [[[pend' cnt'] late'] f] eqn:El. destruct f; [discriminate|].
  cbn [spec_run_sel]. destruct (spec_step cmds lg ak sn e) as [[lg' sn'] ok'] eqn:Es.
  destruct (sim_step k cl lg ak sn pend cnt late e r cl' lg' sn' ok' pend' cnt' late' I Hk Hw1 Em Es El) as [Hc [->|[I' [Elg Hk']]]].
  - cbn [spec_run_sel]. rewrite andb_true_r. destruct (core e); [now apply Hc|reflexivity].
  - assert (X : (if core e then ok' else true) = true) by (destruct (core e); [now apply Hc|reflexivity]). rewrite X. cbn [andb].
    rewrite <- Elg in Hm. eapply IH; eauto. Qed.

(* the state the model is in after a prefix of the trace *)
Fixpoint model_after (lg : list N) (ak : list (N * nat)) (cl : cluster) (pre : list oevent) : cluster * list N :=
  match pre with
  | [] => (cl, lg)
  | e :: r => model_after (log_step cmds lg e) (ack_step lg ak e) (fst (model_step cmds lg ak cl e)) r
  end.
Fixpoint ack_after (lg : list N) (ak : list (N * nat)) (pre : list oevent) : list (N * nat) :=
  match pre with
  | [] => ak
  | e :: r => ack_after (log_step cmds lg e) (ack_step lg ak e) r
  end.

Lemma wf_run_app_nonnil k : forall pre rest, rest <> [] -> wf_run k cmds (pre ++ rest) = true ->
  forall e r, pre = e :: r -> r ++ rest <> [].
Proof. intros pre rest Hr _ e r _ E. apply app_eq_nil in E. tauto. Qed.

Lemma sim_prefix k : forall pre rest cl lg ak sn pend cnt late, inv2 cl lg sn pend cnt late -> length (nodes cl) = k ->
  rest <> [] -> wf_run k cmds (pre ++ rest) = true -> model_run cmds lg ak cl (pre ++ rest) = true ->
  late_restore pend cnt late (pre ++ rest) = false ->
  exists sn' pend' cnt' late', inv2 (fst (model_after lg ak cl pre)) (snd (model_after lg ak cl pre)) sn' pend' cnt' late' /\
    model_run cmds (snd (model_after lg ak cl pre)) (ack_after lg ak pre) (fst (model_after lg ak cl pre)) rest = true.
Proof. induction pre as [|e r IH]; intros rest cl lg ak sn pend cnt late I Hk Hr Hw Hm Hl.
  - cbn [model_after ack_after fst snd app] in *. eauto 6.
  - cbn [app] in Hw, Hm, Hl. cbn [wf_run] in Hw. apply andb_true_iff in Hw. destruct Hw as [Hw1 Hw2].
    cbn [model_run] in Hm. destruct (model_step cmds lg ak cl e) as [cl' ok] eqn:Em. apply andb_true_iff in Hm. destruct Hm as [-> Hm].
    cbn [late_restore] in Hl. destruct (late_step pend cnt late e) as [[[pend' cnt'] late'] f] eqn:El. destruct f; [discriminate|].
    destruct (spec_step cmds lg ak sn e) as [[lg' sn'] ok'] eqn:Es.
    destruct (sim_step k cl lg ak sn pend cnt late e (r ++ rest) cl' lg' sn' ok' pend' cnt' late' I Hk Hw1 Em Es El) as [_ [E|[I' [Elg Hk']]]].
    + apply app_eq_nil in E. tauto.
    + cbn [model_after ack_after]. rewrite Em. cbn [fst]. rewrite <- Elg. eapply IH; eauto. now rewrite Elg. Qed.
End Sim.

(* completeness w.r.t. the model, for every number of replicas, every command table and every trace *)
Lemma model_passes_monitor_l k cmds es :
  forallb in_premise cmds = true -> tag_of cmds es = 0 -> trace_wf k cmds es = true ->
  model_eqb k cmds es = true -> spec_run_sel core cmds [] [] (repeat snode0 (nn k)) es = true.
Proof. intros Hp Ht Hw Hm. destruct (tag_of_0 _ _ Ht) as [Hs Hl].
  apply (sim_run cmds (cmds_ok_of cmds Hp Hs) (nn k) es (init (nn k)) [] [] (repeat snode0 (nn k)) [] [] []); auto.
  - split; [apply inv_init|apply rec_init].
  - cbn [init nodes]. apply repeat_length. Qed.

(* with the conjunct of C17, the whole monitor: a trace the model accepts fails the monitor only with a tag *)
Lemma model_passes_spec_okb_l k cmds es :
  tag_of cmds es = 0 -> trace_wf k cmds es = true -> model_eqb k cmds es = true ->
  spec_run_sel (fun e => negb (core e)) cmds [] [] (repeat snode0 (nn k)) es = true ->
  spec_okb k cmds es = true.
Proof. intros Ht Hw Hm Ha. unfold spec_okb. destruct (forallb in_premise cmds) eqn:Hp; [|reflexivity].
  rewrite spec_run_split, Ha, (model_passes_monitor_l k cmds es Hp Ht Hw Hm). reflexivity. Qed.

Lemma no_untagged_failure_l k cmds es :
  trace_wf k cmds es = true -> model_eqb k cmds es = true ->
  spec_run_sel (fun e => negb (core e)) cmds [] [] (repeat snode0 (nn k)) es = true ->
  spec_okb k cmds es = false -> tag_of cmds es <> 0.
Proof. intros Hw Hm Ha Hf Ht. rewrite (model_passes_spec_okb_l k cmds es Ht Hw Hm Ha) in Hf. discriminate. Qed.

(* ---------- the atomic guard of the theorems implies that the recogniser is silent ---------- *)
Lemma pending_apply_entry op nd : pending (apply_entry op nd) = pending nd.
Proof. unfold apply_entry. destruct (crashed nd); [reflexivity|].
  destruct op as [p|p|p| | |]; cbn [pending];
    repeat match goal with |- context [if ?b then _ else _] => destruct b end; reflexivity. Qed.
Lemma pending_restore s nd : pending (restore s nd) = pending nd.
Proof. unfold restore. destruct (crashed nd); reflexivity. Qed.
Lemma pending_install s nd : pending (install s nd) = pending nd.
Proof. unfold install. destruct (crashed nd); reflexivity. Qed.

Lemma pending_getn_upd lg f n i l : (forall x, pending (f x) = pending x) ->
  pending (getn i (mkcluster lg (upd n f l))) = pending (nth i l node0).
Proof. intros Hf. destruct (Nat.eq_dec n i) as [<-|Hne].
  - rewrite getn_upd_same. destruct (nth_error l n) as [x|] eqn:E.
    + now rewrite Hf, (nth_error_nth l n node0 E).
    + now rewrite nth_overflow by (now apply nth_error_None).
  - now rewrite getn_upd_other. Qed.

(* commits, applies and restores leave every replica's pending snapshot as it is *)
Lemma pending_step_same cl ev i : (match ev with MCommit _ | MApply _ | MRestore _ _ _ => true | _ => false end) = true ->
  pending (getn i (step cl ev)) = pending (getn i cl).
Proof. destruct ev as [op|n|n|n|n src k|n]; intros H; try discriminate; cbn [step].
  - destruct (accepts op); reflexivity.
  - destruct (nth_error (log cl) (applied (getn n cl))) as [op|]; [|reflexivity].
    apply pending_getn_upd. intros x. apply pending_apply_entry.
  - destruct (nth_error (snaps (getn src cl)) k) as [s|]; [|reflexivity].
    apply pending_getn_upd. intros x. destruct (Nat.eqb src n); [apply pending_restore|apply pending_install]. Qed.
(* the other events touch one replica *)
Lemma pending_step_other cl ev m i : (match ev with MSnapReq x | MPersist x | MRestart x => Nat.eqb x m | _ => false end) = true ->
  m <> i -> pending (getn i (step cl ev)) = pending (getn i cl).
Proof. destruct ev as [op|n|n|n|n src k|n]; intros H Hne; try discriminate; apply Nat.eqb_eq in H; subst m; cbn [step];
    now rewrite getn_upd_other. Qed.

Lemma nn_inj a b : nn a = nn b -> a = b.
Proof. apply N2Nat.inj. Qed.

Lemma aget_touch_true n k pend : aget k (touch n pend) = Some true -> k = n \/ aget k pend = Some true.
Proof. destruct (N.eq_dec k n) as [->|Hne]; [now left|]. rewrite aget_touch_other by exact Hne. now right. Qed.

Lemma atomic_not_late_run cmds k : forall es lg ak cl pend cnt,
  (forall n, aget n pend = Some true -> pending (getn (nn n) cl) = None) ->
  guard_run k cmds lg ak cl es = true -> model_run cmds lg ak cl es = true -> late_restore pend cnt [] es = false.
Proof. induction es as [|e r IH]; intros lg ak cl pend cnt J Hg Hm; [reflexivity|].
  cbn [guard_run] in Hg. apply andb_true_iff in Hg. destruct Hg as [Hg1 Hg2].
  cbn [model_run] in Hm. destruct (model_step cmds lg ak cl e) as [cl' ok] eqn:Em. apply andb_true_iff in Hm. destruct Hm as [-> Hm].
  cbn [fst] in Hg2. cbn [late_restore].
  destruct e as [c|n j|n j|n okk|n|n src kk lbl|n|c n|n o|n cs|n l|n m0 o|n m0 q o|n];
    unfold model_step in Em; cbv zeta in Em; cbn [late_step guard_step] in *.
  - (* OCommit *) split_model Em Ha. eapply IH; [|exact Hg2|exact Hm]. intros n Hn. rewrite pending_step_same; auto.
  - (* OApply *) split_model Em Ha. apply is_none_true in Hg1. eapply IH; [|exact Hg2|exact Hm]. intros n' Hn.
    rewrite pending_step_same by reflexivity. destruct (aget_touch_true _ _ _ Hn) as [->|Hn']; auto.
  - (* OCrash *) split_model Em Ha. eapply IH; [|exact Hg2|exact Hm]. intros n' Hn. rewrite pending_step_same by reflexivity. auto.
  - (* OSnapReq *) split_model Em Ha. destruct okk.
    + eapply IH; [|exact Hg2|exact Hm]. intros n' Hn. destruct (N.eq_dec n' n) as [->|Hne].
      * rewrite aget_aput_same in Hn. discriminate.
      * rewrite aget_aput_other in Hn by exact Hne.
        rewrite (pending_step_other cl (MSnapReq (nn n)) (nn n)); auto; [apply Nat.eqb_refl|]. intros E. apply nn_inj in E. congruence.
    + eapply IH; [|exact Hg2|exact Hm]. intros n' Hn. destruct (N.eq_dec n' n) as [->|Hne].
      * apply Bool.eqb_prop in Ha. destruct (pending (getn (nn n) (step cl (MSnapReq (nn n))))); [discriminate|reflexivity].
      * rewrite (pending_step_other cl (MSnapReq (nn n)) (nn n)); auto; [apply Nat.eqb_refl|]. intros E. apply nn_inj in E. congruence.
  - (* OPersist *) split_model Em Ha.
    assert (Hl : match aget n pend with Some true => (n, cnt_of n cnt) :: [] | _ => [] end = []).
    { destruct (aget n pend) as [[|]|] eqn:Ea; auto. rewrite (J n Ea) in Ha. discriminate. }
    rewrite Hl. eapply IH; [|exact Hg2|exact Hm]. intros n' Hn. destruct (N.eq_dec n' n) as [->|Hne].
    + rewrite aget_adel_same in Hn. discriminate.
    + rewrite aget_adel_other in Hn by exact Hne.
      rewrite (pending_step_other cl (MPersist (nn n)) (nn n)); auto; [apply Nat.eqb_refl|]. intros E. apply nn_inj in E. congruence.
  - (* ORestore *) split_model Em Ha. apply is_none_true in Hg1. cbn [is_late existsb]. eapply IH; [|exact Hg2|exact Hm]. intros n' Hn.
    rewrite pending_step_same by reflexivity. destruct (aget_touch_true _ _ _ Hn) as [->|Hn']; auto.
  - (* ORestart *) split_model Em Ha. eapply IH; [|exact Hg2|exact Hm]. intros n' Hn. destruct (N.eq_dec n' n) as [->|Hne].
    + rewrite aget_adel_same in Hn. discriminate.
    + rewrite aget_adel_other in Hn by exact Hne.
      rewrite (pending_step_other cl (MRestart (nn n)) (nn n)); auto; [apply Nat.eqb_refl|]. intros E. apply nn_inj in E. congruence.
  - (* OAck *) split_model Em Ha. eapply IH; [|exact Hg2|exact Hm]; exact J.
  - (* OObs *) split_model Em Ha. eapply IH; [|exact Hg2|exact Hm]; exact J.
  - (* OTrk *) split_model Em Ha. eapply IH; [|exact Hg2|exact Hm]; exact J.
  - (* OOffline *) split_model Em Ha. cbn [existsb]. eapply IH; [|exact Hg2|exact Hm]; exact J.
  - (* ORecovered *) apply andb_true_iff in Hg1. destruct Hg1 as [_ G2]. destruct r; [reflexivity|discriminate].
  - (* OReady *) split_model Em Ha. eapply IH; [|exact Hg2|exact Hm]; exact J.
  - (* OStopped *) split_model Em Ha. eapply IH; [|exact Hg2|exact Hm]; exact J. Qed.

Lemma atomic_not_late_l k cmds es : trace_guard k cmds es = true -> model_eqb k cmds es = true -> late_restore [] [] [] es = false.
Proof. intros Hg Hm. apply (atomic_not_late_run cmds (nn k) es [] [] (init (nn k))); auto. intros n H. discriminate. Qed.

Lemma guard_wf_run cmds k : forall es lg ak cl, guard_run k cmds lg ak cl es = true -> wf_run k cmds es = true.
Proof. induction es as [|e r IH]; intros lg ak cl H; [reflexivity|]. cbn [guard_run] in H. apply andb_true_iff in H. destruct H as [H1 H2].
  cbn [wf_run]. rewrite (IH _ _ _ H2), andb_true_r. destruct e; cbn [guard_step wf_step] in *; auto. Qed.
Lemma guard_wf_l k cmds es : trace_guard k cmds es = true -> trace_wf k cmds es = true.
Proof. apply guard_wf_run. Qed.

(* the statement under the atomic guard of the theorems (no reference to the recogniser) *)
Lemma model_passes_monitor_atomic_l k cmds es :
  forallb in_premise cmds = true -> is_S19 cmds = false -> trace_guard k cmds es = true ->
  model_eqb k cmds es = true -> spec_run_sel core cmds [] [] (repeat snode0 (nn k)) es = true.
Proof. intros Hp Hs Hg Hm. apply model_passes_monitor_l; auto using guard_wf_l.
  unfold tag_of. now rewrite Hs, (atomic_not_late_l k cmds es Hg Hm). Qed.

(* ---------- acknowledgements ---------- *)
(* the model's log is the committed sequence of command numbers, mapped through the table - on every trace, no guard *)
Lemma step_log_same cl ev : (match ev with MCommit _ => false | _ => true end) = true -> log (step cl ev) = log cl.
Proof. destruct ev as [op|n|n|n|n src k|n]; intros H; try discriminate; cbn [step]; auto.
  - destruct (nth_error (log cl) (applied (getn n cl))); reflexivity.
  - destruct (nth_error (snaps (getn src cl)) k); reflexivity. Qed.
Lemma fold_apply_log n : forall m cl, log (fold_left step (repeat (MApply n) m) cl) = log cl.
Proof. induction m as [|m IH]; intros cl; [reflexivity|]. cbn [repeat fold_left]. rewrite IH. now apply step_log_same. Qed.
Lemma model_step_log cmds lg ak cl e : log cl = map (cmd_of cmds) lg ->
  log (fst (model_step cmds lg ak cl e)) = map (cmd_of cmds) (log_step cmds lg e).
Proof. intros H. destruct e as [c|n j|n j|n okk|n|n src kk lbl|n|c n|n o|n cs|n l|n m0 o|n m0 q o|n];
    unfold model_step; cbv zeta; cbn [fst log_step]; auto; try (rewrite step_log_same; [exact H|reflexivity]).
  - cbn [step]. destruct (accepts (cmd_of cmds c)); [|exact H]. cbn [log]. now rewrite map_app, H.
  - match goal with |- context [find ?f ?l] => destruct (find f l) as [c|] eqn:F end; cbn [fst].
    + apply find_some in F. destruct F as [Hin _]. apply in_map_iff in Hin. destruct Hin as [m [<- _]].
      rewrite fold_apply_log, step_log_same; [exact H|reflexivity].
    + rewrite step_log_same; [exact H|reflexivity]. Qed.

Lemma model_after_log cmds : forall pre lg ak cl, log cl = map (cmd_of cmds) lg ->
  log (fst (model_after cmds lg ak cl pre)) = map (cmd_of cmds) (snd (model_after cmds lg ak cl pre)).
Proof. induction pre as [|e r IH]; intros lg ak cl H; [exact H|]. cbn [model_after]. apply IH. now apply model_step_log. Qed.

Lemma model_run_app cmds : forall pre rest lg ak cl, model_run cmds lg ak cl (pre ++ rest) = true ->
  model_run cmds (snd (model_after cmds lg ak cl pre)) (ack_after cmds lg ak pre) (fst (model_after cmds lg ak cl pre)) rest = true.
Proof. induction pre as [|e r IH]; intros rest lg ak cl H; [exact H|]. cbn [app model_run] in H. cbn [model_after ack_after].
  destruct (model_step cmds lg ak cl e) as [cl' ok]. apply andb_true_iff in H. destruct H as [_ H]. cbn [fst]. now apply IH. Qed.

Lemma acked_nth lg a c : acked lg a c = true -> exists j, (j < a)%nat /\ nth_error lg j = Some c.
Proof. unfold acked. intros H. apply existsb_exists in H. destruct H as [j [Hj He]]. apply in_seq in Hj. apply N.eqb_eq in He.
  exists j. split; [lia|]. rewrite <- He. apply nth_error_nth'. lia. Qed.

(* an acknowledged operation is in the log at a position its committer has applied: on every trace the model accepts *)
Lemma ack_in_log_l k cmds pre c n post : model_eqb k cmds (pre ++ OAck c n :: post) = true ->
  let cl := fst (model_after cmds [] [] (init (nn k)) pre) in
  exists j, (j < applied (getn (nn n) cl))%nat /\ nth_error (log cl) j = Some (cmd_of cmds c).
Proof. intros H. cbv zeta. unfold model_eqb in H. apply model_run_app in H. cbn [model_run model_step] in H.
  apply andb_true_iff in H. destruct H as [H _]. apply acked_nth in H. destruct H as [j [Hj Hn]]. exists j. split; [exact Hj|].
  rewrite (model_after_log cmds pre [] [] (init (nn k)) eq_refl). now apply map_nth_error. Qed.

(* ... hence in the committer's pinset, unless a later operation the committer has applied writes the same cid *)
Lemma last_write_visible (lg : list logop) a j op x : (j < a)%nat -> nth_error lg j = Some op -> writes x op = true ->
  existsb (writes x) (slice (S j) a lg) = false -> sget x (replay (firstn a lg)) = effect op.
Proof. intros Hj Hn Hw Hs. rewrite (firstn_split_slice lg (S j) a) by lia. rewrite (firstn_snoc_nth lg j op Hn).
  rewrite replay_last_write_l, !lastw_app. apply lastw_none in Hs. rewrite Hs. cbn [lastw]. now rewrite Hw. Qed.

Lemma ack_in_pinset_l k cmds pre c n post :
  forallb in_premise cmds = true -> tag_of cmds (pre ++ OAck c n :: post) = 0 -> trace_wf k cmds (pre ++ OAck c n :: post) = true ->
  model_eqb k cmds (pre ++ OAck c n :: post) = true ->
  let cl := fst (model_after cmds [] [] (init (nn k)) pre) in
  let nd := getn (nn n) cl in
  exists j, (j < applied nd)%nat /\ nth_error (log cl) j = Some (cmd_of cmds c) /\
    forall x, writes x (cmd_of cmds c) = true -> existsb (writes x) (slice (S j) (applied nd) (log cl)) = false ->
              sget x (st nd) = effect (cmd_of cmds c).
Proof. intros Hp Ht Hw Hm. cbv zeta. destruct (ack_in_log_l k cmds pre c n post Hm) as [j [Hj Hn]]. exists j. split; [exact Hj|]. split; [exact Hn|].
  destruct (tag_of_0 _ _ Ht) as [Hs Hl].
  destruct (sim_prefix cmds (cmds_ok_of cmds Hp Hs) (nn k) pre (OAck c n :: post) (init (nn k)) [] [] (repeat snode0 (nn k)) [] [] [])
    as [sn' [pend' [cnt' [late' [[I _] _]]]]]; auto.
  - split; [apply inv_init|apply rec_init].
  - cbn [init nodes]. apply repeat_length.
  - discriminate.
  - pose proof (pi_core _ _ _ (inv_get cmds _ _ sn' (nn n) I)) as [_ _ _ _ Hst]. rewrite Hst.
    intros x Hx Hsl. eapply last_write_visible; eauto. Qed.

(* ---------- clean shutdown: nothing acknowledged is lost ---------- *)
(* a replica that has been given an entry is initialised (clean ops) *)
Definition node_sane2 (nd : node) : Prop := node_sane nd /\ (inited nd = false -> applied nd = 0%nat).
Lemma step_sane2 cl e : forallb good_op (log cl) = true -> Forall node_sane2 (nodes cl) -> clean_ev e = true ->
  forallb good_op (log (step cl e)) = true /\ Forall node_sane2 (nodes (step cl e)).
Proof.
  intros HL HN Hc. destruct e as [op|n|n|n|n src k|n]; cbn [step clean_ev] in *.
  - destruct (accepts op) eqn:Ha; [|split; auto]. split; cbn [log nodes]; auto.
    rewrite forallb_app, HL. cbn [forallb]. unfold good_op. now rewrite Hc, Ha.
  - destruct (nth_error (log cl) (applied (getn n cl))) as [op|] eqn:Hn; [|split; auto].
    split; cbn [log nodes]; auto. apply Forall_upd; auto. intros x Hx [[G1 [G2 G3]] G4].
    assert (Hg : good_op op = true) by (rewrite forallb_forall in HL; apply HL; eapply nth_error_In; eauto).
    apply andb_true_iff in Hg. destruct Hg as [Hcl Ha].
    destruct (apply_entry_clean op x Hcl Ha G1 G2) as [_ [_ [E3 [E4 [E5 [_ [_ E8]]]]]]].
    split; [repeat split; congruence|]. rewrite E8. discriminate.
  - split; cbn [log nodes]; auto. apply Forall_upd; auto. intros x _ [[G1 [G2 G3]] G4]. unfold snap_req. rewrite G2.
    split; [repeat split; auto|exact G4].
  - split; cbn [log nodes]; auto. apply Forall_upd; auto. intros x _ [[G1 [G2 G3]] G4]. unfold snap_persist.
    destruct (pending x); (split; [repeat split; auto|exact G4]).
  - destruct (nth_error (snaps (getn src cl)) k) as [s|]; [|split; auto].
    split; cbn [log nodes]; auto. apply Forall_upd; auto. intros x _ [[G1 [G2 G3]] G4].
    destruct (Nat.eqb src n); [unfold restore|unfold install]; rewrite G2; (split; [repeat split; auto|cbn [inited]; discriminate]).
  - split; cbn [log nodes]; auto. apply Forall_upd; auto. intros x _ _. split; [repeat split; auto|reflexivity].
Qed.
Lemma run_sane2 es : forall cl, forallb good_op (log cl) = true -> Forall node_sane2 (nodes cl) -> forallb clean_ev es = true ->
  Forall node_sane2 (nodes (run cl es)).
Proof.
  unfold run. induction es as [|e r IH]; intros cl HL HN Hc; cbn [fold_left forallb] in *; auto.
  apply andb_true_iff in Hc. destruct Hc as [Hc1 Hc2]. destruct (step_sane2 cl e HL HN Hc1) as [HL' HN']. now apply IH.
Qed.
Lemma given_is_inited k es n nd : forallb clean_ev es = true -> nth_error (nodes (run (init k) es)) n = Some nd ->
  (0 < applied nd)%nat -> inited nd = true.
Proof.
  intros Hc Hn Ha. assert (H0 : Forall node_sane2 (nodes (init k))).
  { cbn [init nodes]. apply Forall_forall. intros x Hx. apply repeat_spec in Hx. subst x. split; [repeat split; reflexivity|reflexivity]. }
  pose proof (run_sane2 es (init k) eq_refl H0 Hc) as HN. rewrite Forall_forall in HN.
  destruct (HN nd (nth_error_In _ _ Hn)) as [_ G4]. destruct (inited nd); [reflexivity|]. specialize (G4 eq_refl). lia.
Qed.

(* after a clean shutdown the newest snapshot of the replica's store is labelled L >= its position (the final snapshot, or a
   snapshot with a higher label that the store already held: after a snapshot was installed on a replica that was ahead of it)
   and is the replay of the first L entries; OfflineState reads it, and so does the process that starts again on the folder *)
Lemma shutdown_keeps_l cl n nd : nth_error (nodes cl) n = Some nd -> node_strict (log cl) nd -> inited nd = true ->
  let cl' := run cl (shutdown n) in
  exists L k, (applied nd <= L <= length (log cl))%nat /\
    offline (getn n cl') = replay (firstn L (log cl)) /\
    (let cl'' := run cl' (from_disk n k) in st (getn n cl'') = replay (firstn L (log cl)) /\ applied (getn n cl'') = L).
Proof.
  intros Hn [H1 H2 H3 H4 H5 H6 H7] Hi. cbv zeta. unfold run, shutdown, from_disk. cbn [fold_left step log nodes].
  assert (E1 : nth_error (upd n snap_req (nodes cl)) n = Some (snap_req nd)) by (now rewrite nth_error_upd, Nat.eqb_refl, Hn).
  assert (E2 : nth_error (upd n snap_persist (upd n snap_req (nodes cl))) n = Some (snap_persist (snap_req nd)))
    by (now rewrite nth_error_upd, Nat.eqb_refl, E1).
  assert (Ep : snap_persist (snap_req nd) =
               mknode (st nd) (applied nd) (inited nd) (incons nd) (dirty nd) false None (snaps nd ++ [(applied nd, st nd)]) (calls nd) (optype nd)).
  { unfold snap_req. rewrite H2, Hi, H3. reflexivity. }
  set (store := snaps nd ++ [(applied nd, st nd)]) in *.
  assert (Hall : forall s, In s store -> snap_strict (log cl) s).
  { intros s Hin. apply in_app_or in Hin. destruct Hin as [Hin|[<-|[]]].
    - rewrite Forall_forall in H7. now apply H7.
    - split; cbn [fst snd]; auto. }
  destruct (newest store) as [s|] eqn:En; [|apply newest_none in En; unfold store in En; destruct (snaps nd); discriminate].
  pose proof (newest_in _ _ En) as Hin. destruct (Hall s Hin) as [S1 S2].
  assert (Hge : (applied nd <= fst s)%nat).
  { apply (newest_max store s (applied nd, st nd) En). unfold store. apply in_or_app. right. now left. }
  destruct (In_nth_error _ _ Hin) as [k Hk].
  assert (Hsorted : sorted (snd s)) by (rewrite S2; apply sorted_replay).
  exists (fst s), k. split; [lia|]. split.
  - rewrite getn_upd_same, E1. rewrite Ep. unfold offline. cbn [snaps]. rewrite En, S2.
    apply restore_merge_nil_id. apply sorted_replay.
  - set (nodes2 := upd n snap_persist (upd n snap_req (nodes cl))).
    assert (E3 : nth_error (upd n restart nodes2) n = Some (restart (snap_persist (snap_req nd))))
      by (unfold nodes2; now rewrite nth_error_upd, Nat.eqb_refl, E2).
    assert (Eg : getn n (mkcluster (log cl) (upd n restart nodes2)) = restart (snap_persist (snap_req nd)))
      by (unfold getn; cbn [nodes]; now apply nth_error_nth).
    rewrite Eg, Ep. cbn [restart snaps]. rewrite Hk, Nat.eqb_refl.
    rewrite getn_upd_same, E3, Ep. unfold restore. cbn [restart crashed st applied fst snd].
    split; [rewrite restore_onto_id by exact Hsorted; exact S2|reflexivity].
Qed.

Lemma shutdown_loses_nothing_l k es n nd j op x :
  forallb clean_ev es = true -> run_ok ev_atomic (init k) es = true -> nth_error (nodes (run (init k) es)) n = Some nd ->
  nth_error (log (run (init k) es)) j = Some op -> (j < applied nd)%nat -> writes x op = true ->
  let cl' := run (run (init k) es) (shutdown n) in
  exists L kk, (applied nd <= L)%nat /\
    (existsb (writes x) (slice (S j) L (log (run (init k) es))) = false ->
     sget x (offline (getn n cl')) = effect op /\ sget x (st (getn n (run cl' (from_disk n kk)))) = effect op).
Proof.
  intros Hc Ha Hn Hj Hlt Hw. cbv zeta.
  pose proof (strict_node k es n nd Hc Ha Hn) as S.
  assert (Hi : inited nd = true) by (apply (given_is_inited k es n nd Hc Hn); lia).
  destruct (shutdown_keeps_l (run (init k) es) n nd Hn S Hi) as [L [kk [HL [E1 [E2 _]]]]].
  exists L, kk. split; [lia|]. intros Hs. rewrite E1, E2. split; eapply last_write_visible; eauto; lia.
Qed.

(* without the lock: an operation committed, applied and acknowledged at the replica between its final snapshot and its stop
   is not in what it leaves on disk for OfflineState *)
Definition shutdown_race_events : list mevent :=
  [MCommit (LPin (wpin 0 1)); MApply 0; MSnapReq 0; MPersist 0; MCommit (LPin (wpin 1 1)); MApply 0].
Lemma shutdown_race_loses :
  let cl := run (init 1) shutdown_race_events in
  forallb clean_ev shutdown_race_events = true /\ run_ok ev_atomic (init 1) shutdown_race_events = true /\
  nth_error (log cl) 1 = Some (LPin (wpin 1 1)) /\ applied (getn 0 cl) = 2%nat /\ sget 1 (offline (getn 0 cl)) = None.
Proof. vm_compute. repeat split; reflexivity. Qed.

Lemma shutdown_race_refuted_l :
  exists k es n j op x, forallb clean_ev es = true /\ run_ok ev_atomic (init k) es = true /\
    nth_error (log (run (init k) es)) j = Some op /\ (j < applied (getn n (run (init k) es)))%nat /\ writes x op = true /\
    sget x (offline (getn n (run (init k) es))) <> effect op.
Proof. exists 1%nat, shutdown_race_events, 0%nat, 1%nat, (LPin (wpin 1 1)), 1.
  destruct shutdown_race_loses as [H1 [H2 [H3 [H4 H5]]]].
  split; [exact H1|]. split; [exact H2|]. split; [exact H3|]. split; [rewrite H4; lia|]. split; [reflexivity|].
  rewrite H5. discriminate. Qed.

(* ---------- soundness: the Prop-level reading of an accepted trace ---------- *)
(* `lg` is the committed sequence (command numbers) and `sn` the monitor's bookkeeping per replica (next position, positions
   applied so far, snapshot labels), both folded from the trace by spec_step *)
Definition prefix_between (cmds : list logop) (lg : list N) (a : nat) (l : list pin) : Prop :=
  exists m, (a <= m < a + S (length lg - a))%nat /\ l = map snd (replay (firstn m (map (cmd_of cmds) lg))).

Definition event_spec (cmds : list logop) (lg : list N) (ak : list (N * nat)) (sn : list snode) (e : oevent) : Prop :=
  let ops := map (cmd_of cmds) lg in
  match e with
  | OApply n j => s_applied (sgetn (nn n) sn) = nn j /\ (nn j < length lg)%nat      (* the next entry of the one sequence *)
  | OCrash _ _ => False                                                              (* no replica crashes *)
  | ORestore _ _ _ lbl => (nn lbl <= length lg)%nat
  | OAck c n => exists j, (j < s_applied (sgetn (nn n) sn))%nat /\ nth_error lg j = Some c   (* acknowledged: committed and applied on the committer *)
  | OObs n o => exists l, o = Some l /\ prefix_between cmds lg (s_applied (sgetn (nn n) sn)) l
  | OTrk n cs => Permutation (map proj_call (expected_calls ops (s_hist (sgetn (nn n) sn)))) (map proj_call cs)
  | OOffline n l => l = map snd (match s_labels (sgetn (nn n) sn) with [] => [] | lbs => replay (firstn (newlbl lbs) ops) end)
  | ORecovered _ m0 o => exists l, o = Some l /\ prefix_between cmds lg (nn m0) l
  | OReady n m0 _ o => exists l, o = Some l /\ prefix_between cmds lg (Nat.max (s_applied (sgetn (nn n) sn)) (nn m0)) l
  | OStopped n => (nget n ak <= newlbl (s_labels (sgetn (nn n) sn)))%nat            (* acknowledged at n: below the snapshot n leaves on disk *)
  | _ => True
  end.
Fixpoint trace_spec (cmds : list logop) (lg : list N) (ak : list (N * nat)) (sn : list snode) (es : list oevent) : Prop :=
  match es with
  | [] => True
  | e :: r => event_spec cmds lg ak sn e /\
              trace_spec cmds (fst (fst (spec_step cmds lg ak sn e))) (ack_step lg ak e) (snd (fst (spec_step cmds lg ak sn e))) r
  end.

Lemma existsb_prefix cmds lg a l :
  existsb (fun m => pins_eqb (map snd (replay (firstn m (map (cmd_of cmds) lg)))) l) (seq a (S (length lg - a))) = true ->
  prefix_between cmds lg a l.
Proof. intros H. apply existsb_exists in H. destruct H as [m [Hm He]]. apply in_seq in Hm. apply pins_eqb_sound in He.
  exists m. split; [lia|now symmetry]. Qed.

Lemma event_sound cmds lg ak sn e : snd (spec_step cmds lg ak sn e) = true -> event_spec cmds lg ak sn e.
Proof. destruct e as [c|n j|n j|n okk|n|n src kk lbl|n|c n|n o|n cs|n l|n m0 o|n m0 q o|n]; cbn [spec_step snd event_spec]; cbv zeta; intros H; auto.
  - apply andb_true_iff in H. destruct H as [H1 H2]. apply Nat.eqb_eq in H1. apply Nat.ltb_lt in H2. auto.
  - discriminate.
  - now apply Nat.leb_le.
  - now apply acked_nth.
  - destruct o as [l|]; [|discriminate]. exists l. split; auto. now apply existsb_prefix.
  - now apply multiset_eqb_perm.
  - destruct (s_labels (sgetn (nn n) sn)) as [|lb r]; [destruct l; [reflexivity|discriminate]|].
    apply pins_eqb_sound in H. now symmetry.
  - destruct o as [l|]; [|discriminate]. exists l. split; auto. now apply existsb_prefix.
  - destruct o as [l|]; [|discriminate]. exists l. split; auto. now apply existsb_prefix.
  - now apply Nat.leb_le. Qed.

Lemma spec_run_sound cmds : forall es lg ak sn, spec_run cmds lg ak sn es = true -> trace_spec cmds lg ak sn es.
Proof. induction es as [|e r IH]; intros lg ak sn H; [exact I|]. cbn [spec_run] in H. cbn [trace_spec].
  destruct (spec_step cmds lg ak sn e) as [[lg' sn'] ok] eqn:E. apply andb_true_iff in H. destruct H as [-> H].
  split; [apply event_sound; now rewrite E|cbn [fst snd]; now apply IH]. Qed.

Lemma monitor_sound_l k cmds es : forallb in_premise cmds = true -> spec_okb k cmds es = true ->
  trace_spec cmds [] [] (repeat snode0 (nn k)) es.
Proof. intros Hp H. unfold spec_okb in H. rewrite Hp in H. now apply spec_run_sound. Qed.

(* ---------- the clean-stop clause read back ---------- *)
(* the monitor's state after a prefix of the trace *)
Fixpoint spec_after (cmds : list logop) (lg : list N) (ak : list (N * nat)) (sn : list snode) (pre : list oevent)
  : list N * list (N * nat) * list snode :=
  match pre with
  | [] => (lg, ak, sn)
  | e :: r => spec_after cmds (fst (fst (spec_step cmds lg ak sn e))) (ack_step lg ak e) (snd (fst (spec_step cmds lg ak sn e))) r
  end.
Lemma trace_spec_app cmds : forall pre rest lg ak sn, trace_spec cmds lg ak sn (pre ++ rest) ->
  trace_spec cmds (fst (fst (spec_after cmds lg ak sn pre))) (snd (fst (spec_after cmds lg ak sn pre))) (snd (spec_after cmds lg ak sn pre)) rest.
Proof. induction pre as [|e r IH]; intros rest lg ak sn H; [exact H|]. cbn [app trace_spec] in H. destruct H as [_ H].
  cbn [spec_after]. now apply IH. Qed.

Lemma spec_step_lg cmds lg ak sn e : fst (fst (spec_step cmds lg ak sn e)) = lg ++ match e with OCommit c => [c] | _ => [] end.
Proof. destruct e; cbn [spec_step fst]; now rewrite ?app_nil_r. Qed.
Lemma nget_ack_step lg ak e n : (nget n ak <= nget n (ack_step lg ak e))%nat.
Proof. destruct e; cbn [ack_step]; auto. destruct (first_pos c lg) as [j|]; auto. unfold nget at 2.
  destruct (N.eq_dec n n0) as [->|Hne]; [rewrite aget_aput_same; lia|rewrite aget_aput_other by exact Hne; fold (nget n ak); lia]. Qed.
Lemma spec_after_mono cmds n : forall mid lg ak sn,
  (exists suf, fst (fst (spec_after cmds lg ak sn mid)) = lg ++ suf) /\
  (nget n ak <= nget n (snd (fst (spec_after cmds lg ak sn mid))))%nat.
Proof. induction mid as [|e r IH]; intros lg ak sn; cbn [spec_after fst snd].
  - split; [exists []; now rewrite app_nil_r|lia].
  - destruct (IH (fst (fst (spec_step cmds lg ak sn e))) (ack_step lg ak e) (snd (fst (spec_step cmds lg ak sn e)))) as [[suf E] L].
    split.
    + rewrite E, spec_step_lg, <- app_assoc. eauto.
    + pose proof (nget_ack_step lg ak e n). lia. Qed.

Lemma first_pos_nth c : forall lg j, nth_error lg j = Some c -> exists j0, first_pos c lg = Some j0 /\ nth_error lg j0 = Some c.
Proof. induction lg as [|x r IH]; intros j H; [destruct j; discriminate|]. cbn [first_pos].
  destruct (N.eqb_spec x c) as [->|Hne]; [exists O; auto|].
  destruct j as [|j]; [cbn in H; congruence|]. destruct (IH j H) as [j0 [E1 E2]]. rewrite E1. exists (S j0). auto. Qed.

Lemma sgetn_supd_applied i f g a : (forall s, s_applied (f s) = a) -> forall sn,
  s_applied (sgetn i (supd i f (supd i g sn))) = a \/ (i >= length sn)%nat.
Proof. intros Hf. induction i as [|i IH]; intros [|y r]; cbn [supd sgetn nth length]; auto; try (right; lia).
  destruct (IH r) as [E|E]; [left; exact E|right; lia]. Qed.

(* for every trace the monitor accepts: an operation acknowledged at n before Shutdown returned on n is in the committed sequence
   below the label lb of the snapshot n leaves on disk; what OfflineState returns right afterwards is the pinset
   replay (firstn lb ops), which holds the operation's effect for the cid it writes unless an entry between it and lb writes the
   cid; and if the process that starts again restores a snapshot labelled lbl >= lb, what it serves before any replay is
   replay (firstn m ops) for some m >= lbl, which holds the effect unless an entry between the operation and m writes the cid *)
Lemma stop_sound_l k cmds pre c n mid l post x :
  forallb in_premise cmds = true ->
  spec_okb k cmds (pre ++ OAck c n :: mid ++ OStopped n :: OOffline n l :: post) = true ->
  writes x (cmd_of cmds c) = true ->
  exists ops lb j, (j < lb)%nat /\ nth_error ops j = Some (cmd_of cmds c) /\
    l = map snd (replay (firstn lb ops)) /\
    (existsb (writes x) (slice (S j) lb ops) = false -> sget x (replay (firstn lb ops)) = effect (cmd_of cmds c)) /\
    (forall src kk lbl o post', post = ORestart n :: ORestore n src kk lbl :: OObs n o :: post' -> (lb <= nn lbl)%nat ->
       exists m, (j < m)%nat /\ o = Some (map snd (replay (firstn m ops))) /\
         (existsb (writes x) (slice (S j) m ops) = false -> sget x (replay (firstn m ops)) = effect (cmd_of cmds c))).
Proof. intros Hp H Hw. apply (monitor_sound_l k cmds _ Hp) in H.
  apply trace_spec_app in H. destruct (spec_after cmds [] [] (repeat snode0 (nn k)) pre) as [[lg1 ak1] sn1]. cbn [fst snd] in H.
  cbn [trace_spec] in H. destruct H as [Hack H]. cbn [event_spec] in Hack. destruct Hack as [j1 [_ Hj1]].
  destruct (first_pos_nth c lg1 j1 Hj1) as [j [Efp Ej]].
  cbn [spec_step fst snd ack_step] in H. rewrite Efp in H.
  apply trace_spec_app in H.
  destruct (spec_after_mono cmds n mid lg1 (aput n (Nat.max (S j) (nget n ak1)) ak1) sn1) as [[suf Elg] Lak].
  destruct (spec_after cmds lg1 (aput n (Nat.max (S j) (nget n ak1)) ak1) sn1 mid) as [[lg3 ak3] sn3]. cbn [fst snd] in *.
  assert (Hak : (S j <= nget n ak3)%nat).
  { unfold nget at 1 in Lak. rewrite aget_aput_same in Lak. lia. }
  cbn [trace_spec] in H. destruct H as [Hstop H]. cbn [event_spec] in Hstop.
  cbn [spec_step fst snd ack_step] in H. cbn [trace_spec] in H. destruct H as [Hoff H]. cbn [event_spec] in Hoff. cbv zeta in Hoff.
  set (ops := map (cmd_of cmds) lg3) in *.
  set (lb := newlbl (s_labels (sgetn (nn n) sn3))) in *.
  assert (Hnth : nth_error ops j = Some (cmd_of cmds c)).
  { unfold ops. apply map_nth_error. rewrite Elg, nth_error_app1; [exact Ej|]. apply nth_error_Some. congruence. }
  assert (Hl : l = map snd (replay (firstn lb ops))).
  { unfold lb in *. destruct (s_labels (sgetn (nn n) sn3)) as [|lb0 r]; [cbn in Hstop; lia|exact Hoff]. }
  exists ops, lb, j. split; [lia|]. split; [exact Hnth|]. split; [exact Hl|]. split.
  - intros Hs. eapply last_write_visible; eauto. lia.
  - intros src kk lbl o post' -> Hlb. cbn [spec_step fst snd ack_step] in H.
    cbn [trace_spec] in H. destruct H as [_ H]. cbn [spec_step fst snd ack_step] in H.
    cbn [trace_spec] in H. destruct H as [_ H]. cbn [spec_step fst snd ack_step] in H.
    cbn [trace_spec] in H. destruct H as [Hobs _]. cbn [event_spec] in Hobs. destruct Hobs as [l' [-> [m [Hm ->]]]].
    assert (Ea : s_applied (sgetn (nn n) (supd (nn n) (fun s => mksnode (nn lbl) (s_hist s) (s_pending s) (if Nat.eqb (nn src) (nn n) then s_labels s else s_labels s ++ [nn lbl]))
                   (supd (nn n) (fun s => mksnode 0 (s_hist s) None (s_labels s)) sn3))) = nn lbl \/ (nn n >= length sn3)%nat).
    { apply sgetn_supd_applied. intros s0. reflexivity. }
    exists m. fold ops. destruct Ea as [Ea|Ea].
    + rewrite Ea in Hm. split; [lia|]. split; [reflexivity|]. intros Hs. eapply last_write_visible; eauto. lia.
    + exfalso. assert (E0 : sgetn (nn n) sn3 = snode0) by (unfold sgetn; apply nth_overflow; lia).
      unfold lb in Hstop. rewrite E0 in Hstop. cbn in Hstop. lia.
Qed.
