(* C06 — tracker views: the per-observation monitors of Model/C06_Check.v that do not depend on the script's bookkeeping
   (code 22: Status and StatusAll agree as classes; code 23: a filtered listing is the unfiltered one restricted to the
   filter). Soundness (what the absence of the code means at every observation of a history) and completeness (the
   observations the model itself produces along any event list never raise them). *)
From V Require Import Base.Common Base.CommonLemmas Model.C05_Tracker Model.C05_Check Model.C06_Check Proofs.C05_Tracker Proofs.C06_Status.
Open Scope N_scope.

(* the two inline checks of spec_walk6, named *)
Definition views_agree_okb (n : N) (o : obs) : bool :=
  forallb (fun c => cls_eqb (class_bits (o_st o c)) (entry_class (o_all o) c)) (nrange n).
Definition filter_law_okb (o : obs) : bool :=
  forallb (fun m => set_eqb pair_eqb (filter (fun e => match_ (snd e) (fst m)) (o_all o)) (snd m)) (o_masks o).

(* what the model shows after an event: everything the harness records, with the listings for the masks fs *)
Definition model_obs (n : N) (s : st) (r : ret) (fs : list N) : obs :=
  (ret_code r, map (fun c => st_bits (status_of s c)) (nrange n), status_all_obs s 0,
   map (fun e => (fst e, mode_code (snd e))) (ipfs s), map (call_obs s) (calls s), map (fun f => (f, status_all_obs s f)) fs).
Fixpoint mtrace (n : N) (fs : list N) (s : st) (evs : list event) : list (event * obs) :=
  match evs with
  | [] => []
  | e :: r => (e, model_obs n (fst (step s e)) (snd (step s e)) fs) :: mtrace n fs (fst (step s e)) r
  end.

Lemma cls_eqb_eq a b : cls_eqb a b = true <-> a = b.
Proof. destruct a, b; cbn; split; congruence. Qed.

(* ---------- soundness ---------- *)
Lemma walk6_codes n l : forall x e o, In (e, o) l ->
  (~ In 22 (spec_walk6 n x l) -> views_agree_okb n o = true) /\ (~ In 23 (spec_walk6 n x l) -> filter_law_okb o = true).
Proof. induction l as [|[e0 o0] r IH]; intros x e o Hin; [destruct Hin|]. cbn [spec_walk6]. cbv zeta.
  fold (views_agree_okb n o0). fold (filter_law_okb o0).
  destruct Hin as [E|Hin].
  - injection E as -> ->. split; intros Hno.
    + destruct (views_agree_okb n o) eqn:V; auto. exfalso. apply Hno.
      apply in_or_app. right. apply in_or_app. right. apply in_or_app. left. now left.
    + destruct (filter_law_okb o) eqn:V; auto. exfalso. apply Hno.
      apply in_or_app. right. apply in_or_app. right. apply in_or_app. right. apply in_or_app. left. now left.
  - destruct (IH (sp6_event x e0 o0) e o Hin) as [A B]. split; intros Hno; [apply A | apply B]; intros K; apply Hno;
      repeat (apply in_or_app; right); exact K. Qed.

(* code 22 absent: at every observation the class Status reports for a cid is the class of its entry in the listing
   (no entry = unpinned) *)
Theorem views_agree_monitor_sound_l c cf l e o : ~ In 22 (spec_codes6 cf l) -> In (e, o) l -> In c (nrange (ncid_of cf)) ->
  class_bits (o_st o c) = entry_class (o_all o) c.
Proof. unfold spec_codes6. rewrite nodup_In. intros Hno Hin Hc.
  destruct (walk6_codes (ncid_of cf) l (sp6_init cf) e o Hin) as [A _]. specialize (A Hno). unfold views_agree_okb in A.
  rewrite forallb_forall in A. now apply cls_eqb_eq, A. Qed.

Lemma set_eqb_sound (x y : list (N * N)) : set_eqb pair_eqb x y = true -> forall a, In a x <-> In a y.
Proof. unfold set_eqb. rewrite !andb_true_iff, !forallb_forall. intros [[_ H1] H2] a.
  assert (P : forall u v, pair_eqb u v = true -> u = v).
  { intros [u1 u2] [v1 v2]. unfold pair_eqb. cbn. rewrite andb_true_iff, !N.eqb_eq. intros [-> ->]. reflexivity. }
  split; intros Ha.
  - apply H1 in Ha. apply existsb_exists in Ha. destruct Ha as [b [Hb E]]. apply P in E. now subst.
  - apply H2 in Ha. apply existsb_exists in Ha. destruct Ha as [b [Hb E]]. apply P in E. now subst. Qed.

(* code 23 absent: every filtered listing recorded holds exactly the entries of the unfiltered listing that match the mask *)
Theorem filter_law_monitor_sound_l cf l e o f lf : ~ In 23 (spec_codes6 cf l) -> In (e, o) l -> In (f, lf) (o_masks o) ->
  forall a, In a lf <-> In a (o_all o) /\ match_ (snd a) f = true.
Proof. unfold spec_codes6. rewrite nodup_In. intros Hno Hin Hm a.
  destruct (walk6_codes (ncid_of cf) l (sp6_init cf) e o Hin) as [_ B]. specialize (B Hno). unfold filter_law_okb in B.
  rewrite forallb_forall in B. specialize (B _ Hm). cbn [fst snd] in B. rewrite <- (set_eqb_sound _ _ B a), filter_In. tauto. Qed.

(* ---------- completeness ---------- *)
Lemma nth_nrange (g : N -> N) n c : In c (nrange n) -> nth (N.to_nat c) (map g (nrange n)) 0 = g c.
Proof. unfold nrange. intros H. apply in_map_iff in H. destruct H as [k [<- Hk]]. apply in_seq in Hk.
  rewrite map_map, Nat2N.id. rewrite (nth_indep _ 0 (g (N.of_nat 0))) by (rewrite map_length, seq_length; lia).
  rewrite (map_nth (fun x => g (N.of_nat x))). rewrite seq_nth by lia. reflexivity. Qed.

Lemma aget_map_snd {A B} (g : A -> B) c (l : list (N * A)) :
  aget c (map (fun e => (fst e, g (snd e))) l) = match aget c l with Some x => Some (g x) | None => None end.
Proof. induction l as [|[k v] r IH]; [reflexivity|]. cbn. destruct (N.eqb c k); auto. Qed.

Lemma pair_eqb_refl a : pair_eqb a a = true.
Proof. unfold pair_eqb. now rewrite !N.eqb_refl. Qed.
Lemma set_eqb_refl (l : list (N * N)) : set_eqb pair_eqb l l = true.
Proof. unfold set_eqb. rewrite Nat.eqb_refl. cbn [andb].
  assert (F : forallb (fun a => existsb (pair_eqb a) l) l = true).
  { apply forallb_forall. intros a Ha. apply existsb_exists. exists a. split; auto. apply pair_eqb_refl. }
  now rewrite F. Qed.

Lemma model_views_agree n s r fs : NoDup (akeys (table s)) -> NoDup (akeys (pinset s)) ->
  views_agree_okb n (model_obs n s r fs) = true.
Proof. intros Nt Np. unfold views_agree_okb. apply forallb_forall. intros c Hc. apply cls_eqb_eq.
  unfold model_obs, o_st, o_status, o_all. rewrite (nth_nrange (fun c => st_bits (status_of s c)) n c Hc).
  unfold entry_class, status_all_obs. rewrite aget_map_snd. pose proof (views_agree_l s c Nt Np) as V. unfold class_of, listed in V.
  rewrite V. destruct (aget c (status_all s 0)); reflexivity. Qed.

Lemma model_filter_law n s r fs : filter_law_okb (model_obs n s r fs) = true.
Proof. unfold filter_law_okb. apply forallb_forall. intros m Hm. unfold model_obs, o_masks, o_all in *.
  apply in_map_iff in Hm. destruct Hm as [f [<- _]]. cbn [fst snd]. unfold status_all_obs.
  rewrite (status_filter_law_l s f). unfold mfilter.
  assert (E : forall l : list (N * status), filter (fun e => match_ (snd e) f) (map (fun e => (fst e, st_bits (snd e))) l)
                = map (fun e => (fst e, st_bits (snd e))) (filter (fun e => match_ (st_bits (snd e)) f) l)).
  { induction l as [|a l IH]; [reflexivity|]. cbn. destruct (match_ (st_bits (snd a)) f); cbn; now rewrite IH. }
  rewrite E. apply set_eqb_refl. Qed.

(* along any event list from a (re)started tracker, the model's own observations raise neither code 22 nor code 23 *)
Lemma mtrace_codes n fs evs : forall s x, Inv s -> LInv false s ->
  ~ In 22 (spec_walk6 n x (mtrace n fs s evs)) /\ ~ In 23 (spec_walk6 n x (mtrace n fs s evs)).
Proof. induction evs as [|e r IH]; intros s x I L; [split; intros []|]. cbn [mtrace spec_walk6]. cbv zeta.
  set (s' := fst (step s e)). set (o := model_obs n s' (snd (step s e)) fs).
  assert (I' : Inv s') by (apply step_inv; exact I).
  assert (L' : LInv false s') by (apply step_linv; auto; discriminate).
  fold (views_agree_okb n o). fold (filter_law_okb o).
  assert (V1 : views_agree_okb n o = true) by (apply model_views_agree; [apply I' | apply L']).
  assert (V2 : filter_law_okb o = true) by apply model_filter_law.
  rewrite V1, V2.
  destruct (IH s' (sp6_event x e o) I' L') as [A B]. split; intros K.
  - repeat (apply in_app_or in K; destruct K as [K|K]); try (apply A; exact K);
      repeat match type of K with In _ (if ?b then _ else _) => destruct b end; try destruct K as [K|K]; try discriminate; try contradiction.
  - repeat (apply in_app_or in K; destruct K as [K|K]); try (apply B; exact K);
      repeat match type of K with In _ (if ?b then _ else _) => destruct b end; try destruct K as [K|K]; try discriminate; try contradiction. Qed.

Theorem model_views_pass_l q np ps i nc fs evs x : wf_pinset ps ->
  ~ In 22 (spec_walk6 nc x (mtrace nc fs (init q np ps i) evs)) /\ ~ In 23 (spec_walk6 nc x (mtrace nc fs (init q np ps i) evs)).
Proof. intros W. apply mtrace_codes; [apply init_inv | now apply init_linv]. Qed.
