(* C09 — the run-time monitors of Model/C09_Check.v (`spec_walk`: latest_okb = code 2, alerts_fresh_okb = 10,
   alerts_once_okb = 11, reported_okb = 13), which judge the implementation's answers from the history alone,
   tied to the model and to Prop-level statements, for every history:
   (1) completeness: a history annotated with the model's own answers produces no code at all;
   (2) soundness: a history on which a code is not produced satisfies the Prop-level clause that code stands for. *)
From V Require Import Base.Common Base.CommonLemmas Model.C09_Metrics Model.C09_Check Proofs.C09_Metrics.
From Coq Require Import Permutation.
Open Scope Z_scope.

(* ---------- vocabulary ---------- *)
Definition adds_of (ops : list op) : list metric := flat_map (fun o => match o with OAdd m => [m] | _ => [] end) ops.
(* the harness numbers the metrics it adds 0, 1, 2, ... *)
Definition uniq_ids (ops : list op) : Prop := NoDup (map mid (adds_of ops)).

(* the model's own answer written into an observing operation *)
Definition answer (o : op) (s : mstate) : op :=
  match o with
  | OCheckPeers peers _ =>
      OCheckPeers peers (snd (check_peers (ms_now s) (phi_of (ms_phi s)) (names (ms_st s)) peers (ms_st s, ms_c s)))
  | OCheckAll _ => OCheckAll (snd (check_all (ms_now s) (phi_of (ms_phi s)) (ms_st s, ms_c s)))
  | OLatest name _ => OLatest name (map mid (latest_metrics (ms_now s) name (ms_ps s) (ms_st s)))
  | _ => o
  end.
Fixpoint annotate (ops : list op) (s : mstate) : list op :=
  match ops with [] => [] | o :: r => answer o s :: annotate r (fst (mstep o s)) end.

(* the monitor's own bookkeeping while it walks a history *)
Definition tick (now : Z) (o : op) : Z := match o with OTick dt => now + dt | _ => now end.
Definition setps (ps : pset) (o : op) : pset := match o with OPeerset p => p | _ => ps end.
Definition setphi (phi : list (key * bool)) (o : op) : list (key * bool) := match o with OSetPhi k b => kput k b phi | _ => phi end.
Definition time_at (pre : list op) : Z := fold_left tick pre 0.
Definition peerset_at (pre : list op) : pset := fold_left setps pre PNone.
Definition phi_at (pre : list op) : list (key * bool) := fold_left setphi pre [].
Definition codes_at (o : op) (past : list op) (now : Z) (ps : pset) (phi : list (key * bool)) : list N :=
  match o with
  | OLatest name obs => if latest_okb now ps past name obs then [] else [2%N]
  | OCheckPeers peers obs =>
      (if alerts_fresh_okb now past obs then [] else [10%N]) ++
      (if alerts_once_okb (o :: past) obs then [] else [11%N]) ++
      (if reported_okb now phi past peers obs then [] else [13%N])
  | OCheckAll obs =>
      (if alerts_fresh_okb now past obs then [] else [10%N]) ++
      (if alerts_once_okb (o :: past) obs then [] else [11%N])
  | _ => [] end.

(* Prop-level clauses *)
(* m is the most recently added metric of its (name, peer) in a newest-first history *)
Definition most_recent_add (past : list op) (m : metric) : Prop :=
  exists newer older, past = newer ++ OAdd m :: older /\ forall m', In (OAdd m') newer -> mkey m' <> mkey m.
Definition member (ps : pset) (p : N) : Prop := match ps with PNone => True | PErr => False | PSome l => In p l end.
(* a reported list of metric ids: the metrics they name are one per peer, each the most recently received for its
   (name, peer), of the asked name, valid, unexpired, and of a member *)
Definition latest_spec (now : Z) (ps : pset) (past : list op) (name : N) (obs : list N) : Prop :=
  exists ms, map mid ms = obs /\ NoDup (map mpeer ms) /\
    forall m, In m ms -> most_recent_add past m /\ mname m = name /\ mvalid m = true /\ now <= mexp m /\ member ps (mpeer m).
Definition obs_of_check (o : op) : option (list alert_t) :=
  match o with OCheckPeers _ obs => Some obs | OCheckAll obs => Some obs | _ => None end.
(* alerts for k reported by the checks of a stretch of history *)
Definition alerts_in (k : key) (l : list op) : nat :=
  fold_right (fun o n => match obs_of_check o with Some obs => alerts_for k obs + n | None => n end)%nat 0%nat l.
Definition adds_to (k : key) (o : op) : bool := match o with OAdd m => key_eqb (mkey m) k | _ => false end.

(* ---------- the history functions of the monitor ---------- *)
Lemma spec_walk_cons o r past now ps phi :
  spec_walk (o :: r) past now ps phi = codes_at o past now ps phi ++ spec_walk r (o :: past) (tick now o) (setps ps o) (setphi phi o).
Proof. destruct o; reflexivity. Qed.

Lemma spec_walk_at pre o post past now ps phi c :
  In c (codes_at o (rev pre ++ past) (fold_left tick pre now) (fold_left setps pre ps) (fold_left setphi pre phi)) ->
  In c (spec_walk (pre ++ o :: post) past now ps phi).
Proof. revert past now ps phi. induction pre as [|x pre IH]; intros past now ps phi H.
  - cbn [app]. rewrite spec_walk_cons. apply in_or_app. now left.
  - cbn [app]. rewrite spec_walk_cons. apply in_or_app. right. apply IH.
    cbn [rev fold_left] in H. rewrite <- app_assoc in H. exact H. Qed.

Lemma last_add_key k past m : last_add k past = Some m -> mkey m = k.
Proof. induction past as [|o r IH]; [discriminate|]. destruct o; cbn [last_add]; auto.
  destruct (key_eqb_spec (mkey m0) k) as [E|E]; auto. intros H. injection H as <-. exact E. Qed.
Lemma last_add_in k past m : last_add k past = Some m -> In m (adds_of past).
Proof. induction past as [|o r IH]; [discriminate|]. destruct o; cbn [last_add adds_of flat_map app]; auto.
  destruct (key_eqb (mkey m0) k).
  - intros H. injection H as <-. now left.
  - intros H. right. apply IH, H. Qed.
Lemma find_add_in id past m : find_add id past = Some m -> In m (adds_of past) /\ mid m = id.
Proof. induction past as [|o r IH]; [discriminate|]. destruct o; cbn [find_add adds_of flat_map app]; auto.
  destruct (N.eqb_spec (mid m0) id).
  - intros H. injection H as <-. split; auto. now left.
  - intros H. destruct (IH H). split; auto. now right. Qed.
Lemma uniq_ids_inj past m m' : uniq_ids past -> In m (adds_of past) -> In m' (adds_of past) -> mid m = mid m' -> m = m'.
Proof. unfold uniq_ids. induction (adds_of past) as [|x xs IH]; simpl; intros H A B E; [tauto|].
  inversion H as [|? ? Hn Hd]; subst. destruct A as [->|A]; destruct B as [->|B]; auto.
  - exfalso. apply Hn. rewrite E. now apply in_map.
  - exfalso. apply Hn. rewrite <- E. now apply in_map. Qed.
Lemma find_add_uniq past m : uniq_ids past -> In m (adds_of past) -> find_add (mid m) past = Some m.
Proof. intros Hu Hin. destruct (find_add (mid m) past) as [m'|] eqn:F.
  - apply find_add_in in F. destruct F as [A B]. f_equal. eapply uniq_ids_inj; eauto.
  - exfalso. clear Hu. induction past as [|o r IH]; [destruct Hin|].
    destruct o; cbn [find_add adds_of flat_map app] in *; auto.
    destruct (N.eqb_spec (mid m0) (mid m)); [discriminate|]. destruct Hin as [->|Hin]; [congruence|auto]. Qed.

Lemma last_add_split k past m : last_add k past = Some m ->
  exists newer older, past = newer ++ OAdd m :: older /\ forall m', In (OAdd m') newer -> mkey m' <> k.
Proof. induction past as [|o r IH]; [discriminate|]. intros H.
  assert (Hskip : (forall m0, o <> OAdd m0) -> last_add k r = Some m ->
     exists newer older, o :: r = newer ++ OAdd m :: older /\ forall m', In (OAdd m') newer -> mkey m' <> k).
  { intros Ho Hr. destruct (IH Hr) as [nw [ol [E F]]]. exists (o :: nw), ol. split; [now rewrite E|].
    intros m' [Hm|Hm]; [exfalso; eapply Ho; eauto | auto]. }
  destruct o; cbn [last_add] in H; try (apply Hskip; [intros m0; discriminate | exact H]).
  destruct (key_eqb_spec (mkey m0) k) as [E|E].
  - injection H as <-. exists [], r. split; [reflexivity | intros m' []].
  - destruct (IH H) as [nw [ol [E1 F]]]. exists (OAdd m0 :: nw), ol. split; [now rewrite E1|].
    intros m' [Hm|Hm]; [injection Hm as <-; exact E | auto]. Qed.

Lemma alerts_in_app k a b : alerts_in k (a ++ b) = (alerts_in k a + alerts_in k b)%nat.
Proof. induction a as [|o r IH]; [reflexivity|]. cbn [app alerts_in fold_right]. fold (alerts_in k (r ++ b)). fold (alerts_in k r).
  rewrite IH. destruct (obs_of_check o); lia. Qed.
Lemma alerts_in_rev k l : alerts_in k (rev l) = alerts_in k l.
Proof. induction l as [|o r IH]; [reflexivity|]. cbn [rev]. rewrite alerts_in_app, IH.
  cbn [alerts_in fold_right]. fold (alerts_in k r). destruct (obs_of_check o); lia. Qed.
(* over a stretch without an add for k, alerts_since_add is the number of alerts of the stretch plus what came before *)
Lemma alerts_since_add_app k newer past : forallb (fun o => negb (adds_to k o)) newer = true ->
  alerts_since_add k (newer ++ past) = (alerts_in k newer + alerts_since_add k past)%nat.
Proof. induction newer as [|o r IH]; [reflexivity|]. cbn [forallb]. rewrite andb_true_iff, negb_true_iff. intros [Ho Hr].
  specialize (IH Hr). cbn [app alerts_in fold_right]. fold (alerts_in k r).
  destruct o; cbn [alerts_since_add obs_of_check]; try exact IH; try lia.
  cbn [adds_to] in Ho. rewrite Ho. exact IH. Qed.

(* ---------- failure-decision passes ---------- *)
Lemma visit_window now v st c k :
  window k (fst (fst (visit now v (st, c)))) = window k st \/
  (window k (fst (fst (visit now v (st, c)))) = [] /\ (1 <= alerts_for k (snd (visit now v (st, c))))%nat).
Proof. destruct (visit_cases now v st c) as [E|[m [_ [_ [_ E]]]]]; rewrite E; cbn [fst snd]; auto.
  destruct (key_eqb_spec k (fst v)) as [->|Hn].
  - right. rewrite window_rpm_same. split; auto. unfold alerts_for. cbn [filter fst]. rewrite key_eqb_refl. simpl. lia.
  - left. now apply window_rpm_other. Qed.
Lemma visits_window now vs st c k :
  window k (fst (fst (visits now vs (st, c)))) = window k st \/
  (window k (fst (fst (visits now vs (st, c)))) = [] /\ (1 <= alerts_for k (snd (visits now vs (st, c))))%nat).
Proof. revert st c. induction vs as [|v r IH]; intros st c; [left; reflexivity|].
  rewrite visits_cons. cbn [fst snd]. rewrite alerts_for_app. pose proof (visit_window now v st c k) as H1.
  destruct (visit now v (st, c)) as [[st1 c1] a1]. cbn [fst snd] in *.
  destruct (IH st1 c1) as [E|[E F]]; rewrite E.
  - destruct H1 as [E1|[E1 F1]]; rewrite E1; [now left|right; split; auto; lia].
  - right. split; auto. lia. Qed.
Lemma visit_names now v st c : names (fst (fst (visit now v (st, c)))) = names st.
Proof. destruct (visit_cases now v st c) as [E|[m [_ [_ [_ E]]]]]; rewrite E; reflexivity. Qed.
Lemma visits_names now vs st c : names (fst (fst (visits now vs (st, c)))) = names st.
Proof. revert st c. induction vs as [|v r IH]; intros st c; [reflexivity|].
  rewrite visits_cons. cbn [fst snd]. pose proof (visit_names now v st c) as H1.
  destruct (visit now v (st, c)) as [[st1 c1] a1]. cbn [fst snd] in *. now rewrite IH. Qed.

(* a decision on k is in the pass, its latest metric is expired and the accrual detector has no say or says failed: reported *)
Lemma visits_reports now vs st c k b m : In (k, b) vs ->
  latest k st = Some m -> expired now m = true -> ((length (window k st) < accrual_num)%nat \/ b = true) ->
  (1 <= alerts_for k (snd (visits now vs (st, c))))%nat.
Proof. revert st c. induction vs as [|v r IH]; intros st c Hin L X Hf; [destruct Hin|].
  rewrite visits_cons. cbn [fst snd]. rewrite alerts_for_app.
  destruct Hin as [->|Hin].
  - destruct (visit_reports now k b st c m L X Hf) as [E _]. rewrite E. unfold alerts_for at 1. cbn [filter fst].
    rewrite key_eqb_refl. simpl. lia.
  - pose proof (visit_window now v st c k) as H1.
    destruct (visit now v (st, c)) as [[st1 c1] a1]. cbn [fst snd] in *.
    destruct H1 as [E1|[_ F1]]; [|lia].
    assert (L1 : latest k st1 = Some m) by (unfold latest in *; now rewrite E1).
    specialize (IH st1 c1 Hin L1 X). rewrite E1 in IH. specialize (IH Hf). lia. Qed.

Lemma in_peers_visits phi order peers n p : In n order -> In p peers -> In ((n, p), phi (n, p)) (peers_visits phi order peers).
Proof. intros Hn Hp. unfold peers_visits. apply in_flat_map. exists n. split; auto. apply in_map_iff. exists p. auto. Qed.

(* ---------- (1) completeness: the model's own answers produce no code ---------- *)
(* what ties the model's store to the history the monitor has seen (newest first) *)
Record rel (st : store) (past : list op) : Prop := mk_rel {
  r_inv : inv st;
  r_latest : forall k m, latest k st = Some m -> last_add k past = Some m;
  r_once : forall k, (alerts_since_add k past + budget k st <= 1)%nat;
  r_present : forall k m, last_add k past = Some m -> removed_since_add k past = false ->
                alerts_since_add k past = 0%nat -> latest k st = Some m;
  r_len : forall k, (length (window k st) <= count_adds k past)%nat;
  r_names : forall n, In n (names st) <-> In n (names_added past)
}.

Lemma rel_empty : rel empty_store [].
Proof. constructor; try (intros; discriminate).
  - apply inv_empty.
  - intros k. unfold budget, latest, window. simpl. lia.
  - intros k. unfold window. simpl. lia.
  - intros n. simpl. tauto. Qed.

Lemma rel_add m st past : rel st past -> rel (s_add m st) (OAdd m :: past).
Proof. intros R. constructor.
  - apply inv_add, R.
  - intros k m0 L. cbn [last_add]. destruct (key_eqb_spec (mkey m) k) as [E|E].
    + subst k. now rewrite latest_add_same in L.
    + rewrite latest_add_other in L by congruence. now apply (r_latest _ _ R).
  - intros k. cbn [alerts_since_add]. destruct (key_eqb_spec (mkey m) k) as [E|E].
    + pose proof (budget_le_1 k (s_add m st)). lia.
    + unfold budget. rewrite latest_add_other by congruence. apply (r_once _ _ R).
  - intros k m0. cbn [last_add removed_since_add alerts_since_add]. destruct (key_eqb_spec (mkey m) k) as [E|E].
    + intros H _ _. injection H as <-. subst k. apply latest_add_same.
    + rewrite latest_add_other by congruence. apply (r_present _ _ R).
  - intros k. cbn [count_adds]. destruct (key_eqb_spec (mkey m) k) as [E|E].
    + subst k. rewrite window_add_same. pose proof (r_len _ _ R (mkey m)).
      rewrite firstn_length. cbn [length]. lia.
    + rewrite window_add_other by congruence. pose proof (r_len _ _ R k). lia.
  - intros n. unfold s_add. cbn [names names_added]. pose proof (r_names _ _ R n) as Hn.
    destruct (memN (mname m) (names st)) eqn:M.
    + apply memN_in in M. split; [intros H; right; tauto|]. intros [<-|H]; tauto.
    + rewrite in_app_iff. simpl. tauto. Qed.

Lemma rel_remove p st past : rel st past -> rel (s_remove_peer p st) (ORemovePeer p :: past).
Proof. intros R. constructor.
  - apply inv_remove_peer, R.
  - intros k m L. rewrite latest_remove_peer in L. destruct (N.eqb (snd k) p); [discriminate|].
    cbn [last_add]. now apply (r_latest _ _ R).
  - intros k. cbn [alerts_since_add]. pose proof (r_once _ _ R k). unfold budget in *. rewrite latest_remove_peer.
    destruct (N.eqb (snd k) p); [destruct (latest k st); lia | exact H].
  - intros k m. cbn [last_add removed_since_add alerts_since_add]. intros H1 H2 H3.
    apply orb_false_iff in H2. destruct H2 as [H2 H2']. rewrite latest_remove_peer, N.eqb_sym, H2.
    now apply (r_present _ _ R).
  - intros k. cbn [count_adds]. rewrite window_remove_peer. pose proof (r_len _ _ R k).
    destruct (N.eqb (snd k) p); simpl; lia.
  - intros n. cbn [names_added]. apply (r_names _ _ R). Qed.

Lemma rel_check now vs st c past o : rel st past -> obs_of_check o = Some (snd (visits now vs (st, c))) ->
  rel (fst (fst (visits now vs (st, c)))) (o :: past).
Proof. intros R Ho.
  assert (Hasa : forall k, alerts_since_add k (o :: past) = (alerts_for k (snd (visits now vs (st, c))) + alerts_since_add k past)%nat).
  { intros k. destruct o; try discriminate; cbn [obs_of_check] in Ho; injection Ho as ->; reflexivity. }
  assert (Hla : forall k, last_add k (o :: past) = last_add k past) by (intros k; destruct o; try discriminate; reflexivity).
  assert (Hrm : forall k, removed_since_add k (o :: past) = removed_since_add k past) by (intros k; destruct o; try discriminate; reflexivity).
  assert (Hca : forall k, count_adds k (o :: past) = count_adds k past) by (intros k; destruct o; try discriminate; reflexivity).
  assert (Hna : names_added (o :: past) = names_added past) by (destruct o; try discriminate; reflexivity).
  constructor.
  - apply visits_inv, R.
  - intros k m L. rewrite Hla. destruct (visits_latest now vs st c k) as [E|E]; rewrite E in L; [|discriminate].
    now apply (r_latest _ _ R).
  - intros k. rewrite Hasa. pose proof (visits_budget now vs st c k). pose proof (r_once _ _ R k). lia.
  - intros k m. rewrite Hla, Hrm, Hasa. intros H1 H2 H3.
    assert (L : latest k st = Some m) by (apply (r_present _ _ R); auto; lia).
    destruct (visits_window now vs st c k) as [E|[_ F]]; [|lia]. unfold latest in *. now rewrite E.
  - intros k. rewrite Hca. pose proof (r_len _ _ R k). destruct (visits_window now vs st c k) as [E|[E _]]; rewrite E; simpl; lia.
  - intros n. rewrite Hna, visits_names. apply (r_names _ _ R). Qed.

Lemma rel_skip o st past : rel st past ->
  match o with OTick _ | OPeerset _ | OSetPhi _ _ | OLatest _ _ => True | _ => False end -> rel st (o :: past).
Proof. intros R Ho. destruct o; try contradiction; (constructor; [apply R | apply (r_latest _ _ R) | apply (r_once _ _ R) |
  apply (r_present _ _ R) | apply (r_len _ _ R) | apply (r_names _ _ R)]). Qed.

Lemma flat_map_some_peers (L : list metric) :
  flat_map (fun om : option metric => match om with Some m => [mpeer m] | None => [] end) (map Some L) = map mpeer L.
Proof. induction L as [|m r IH]; [reflexivity|]. simpl. now rewrite IH. Qed.

Lemma latest_metrics_nodup now name ps st : inv st -> NoDup (map mpeer (latest_metrics now name ps st)).
Proof. intros [A [B _]]. destruct ps as [| |l]; simpl.
  - now apply latest_valid_nodup.
  - constructor.
  - unfold peerset_filter. apply NoDup_map_filter. now apply latest_valid_nodup. Qed.

(* code 2 *)
Lemma latest_code_complete st past now ps name : rel st past -> uniq_ids past ->
  latest_okb now ps past name (map mid (latest_metrics now name ps st)) = true.
Proof. intros R Hu. destruct (r_inv _ _ R) as [A [B C]]. unfold latest_okb. rewrite map_map.
  set (L := latest_metrics now name ps st).
  assert (HL : forall m, In m L -> last_add (mkey m) past = Some m /\ mname m = name /\ discard now m = false /\
                                   match ps with PSome l => memN (mpeer m) l = true | PNone => True | PErr => False end).
  { intros m Hm. assert (Hv : In m (latest_valid now name st)) by (eapply latest_metrics_incl; eauto).
    apply in_latest_valid in Hv; auto. destruct Hv as [Hn [Hl Hd]]. split; [now apply (r_latest _ _ R)|].
    split; auto. split; auto. unfold L in Hm. destruct ps as [| |l]; simpl in Hm; auto.
    unfold peerset_filter in Hm. apply filter_In in Hm. tauto. }
  assert (E : map (fun id => find_add (mid id) past) L = map Some L).
  { apply map_ext_in. intros m Hm. apply find_add_uniq; auto. eapply last_add_in. apply (HL m Hm). }
  rewrite E. apply andb_true_iff. split.
  - apply forallb_forall. intros om Hin. apply in_map_iff in Hin. destruct Hin as [m [<- Hm]].
    destruct (HL m Hm) as [H1 [H2 [H3 H4]]]. unfold discard in H3. apply orb_false_iff in H3. destruct H3 as [H3 H5].
    apply negb_false_iff in H3. rewrite H1, H2, H3, H5, !N.eqb_refl. cbn [negb andb].
    destruct ps; auto.
  - rewrite flat_map_some_peers. apply nodupb_NoDup. apply latest_metrics_nodup. split; auto. Qed.

(* code 10 *)
Lemma fresh_code_complete st c past now vs : rel st past -> alerts_fresh_okb now past (snd (visits now vs (st, c))) = true.
Proof. intros R. unfold alerts_fresh_okb. apply forallb_forall. intros a Ha.
  destruct (visits_alerts_expired now vs st c a Ha) as [m [L [X _]]]. now rewrite (r_latest _ _ R _ _ L). Qed.

(* code 11 *)
Lemma once_code_complete st c past now vs o : rel st past -> obs_of_check o = Some (snd (visits now vs (st, c))) ->
  alerts_once_okb (o :: past) (snd (visits now vs (st, c))) = true.
Proof. intros R Ho. unfold alerts_once_okb. apply forallb_forall. intros a _. apply Nat.leb_le.
  pose proof (rel_check now vs st c past o R Ho) as R'. pose proof (r_once _ _ R' (fst a)). lia. Qed.

(* code 13 *)
Lemma reported_code_complete st c past now phil peers : rel st past ->
  reported_okb now phil past peers (snd (check_peers now (phi_of phil) (names st) peers (st, c))) = true.
Proof. intros R. unfold reported_okb. apply forallb_forall. intros n Hn. apply forallb_forall. intros p Hp.
  destruct (last_add (n, p) past) as [m|] eqn:LA; auto.
  match goal with |- (if ?c then _ else _) = true => destruct c eqn:Cnd; auto end.
  rewrite !andb_true_iff in Cnd. destruct Cnd as [[[C1 C2] C3] C4]. apply negb_true_iff in C2. apply Nat.eqb_eq in C3.
  apply Nat.leb_le. unfold check_peers. apply (visits_reports now _ st c (n, p) (phi_of phil (n, p)) m); auto.
  - apply in_peers_visits; auto. now apply (r_names _ _ R).
  - now apply (r_present _ _ R).
  - apply orb_true_iff in C4. destruct C4 as [C4|C4]; [left|now right].
    apply Nat.ltb_lt in C4. pose proof (r_len _ _ R (n, p)). unfold accrual_num. lia. Qed.

Lemma mstep_checkpeers peers obs s :
  fst (mstep (OCheckPeers peers obs) s) =
  let X := check_peers (ms_now s) (phi_of (ms_phi s)) (names (ms_st s)) peers (ms_st s, ms_c s) in
  mk_ms (ms_now s) (fst (fst X)) (snd (fst X)) (ms_phi s) (ms_ps s).
Proof. unfold mstep. destruct (check_peers _ _ _ _ _) as [[st c] al]. reflexivity. Qed.
Lemma mstep_checkall obs s :
  fst (mstep (OCheckAll obs) s) =
  let X := check_all (ms_now s) (phi_of (ms_phi s)) (ms_st s, ms_c s) in
  mk_ms (ms_now s) (fst (fst X)) (snd (fst X)) (ms_phi s) (ms_ps s).
Proof. unfold mstep. destruct (check_all _ _ _) as [[st c] al]. reflexivity. Qed.

Lemma adds_of_cons o r : adds_of (o :: r) = adds_of [o] ++ adds_of r.
Proof. unfold adds_of. simpl. now rewrite app_nil_r. Qed.
Lemma adds_of_answer o s : adds_of [answer o s] = adds_of [o].
Proof. destruct o; reflexivity. Qed.

Lemma uniq_shift (a b c : list metric) : NoDup (map mid ((a ++ b) ++ c)) -> NoDup (map mid (b ++ a ++ c)).
Proof. apply Permutation_NoDup. apply Permutation_map. rewrite (app_assoc b a c). apply Permutation_app_tail, Permutation_app_comm. Qed.
Lemma uniq_tail (a b : list metric) : NoDup (map mid (a ++ b)) -> NoDup (map mid b).
Proof. rewrite map_app. induction (map mid a) as [|x xs IH]; simpl; auto. intros H. inversion H; auto. Qed.

Theorem model_passes_monitor_gen ops : forall s past, rel (ms_st s) past -> NoDup (map mid (adds_of ops ++ adds_of past)) ->
  spec_walk (annotate ops s) past (ms_now s) (ms_ps s) (ms_phi s) = [].
Proof. induction ops as [|o r IH]; intros s past R Hu; [reflexivity|].
  cbn [annotate]. rewrite spec_walk_cons.
  assert (Hup : uniq_ids past) by (eapply uniq_tail; eauto).
  assert (Hu' : NoDup (map mid (adds_of r ++ adds_of (answer o s :: past)))).
  { rewrite (adds_of_cons (answer o s)), adds_of_answer. apply uniq_shift. now rewrite <- adds_of_cons. }
  destruct s as [now st c phi ps]. cbn [ms_now ms_st ms_c ms_phi ms_ps] in *.
  destruct o as [m|dt|p|ps'|k b|peers obs|obs|name obs].
  - (* OAdd *) cbn [answer codes_at app tick setps setphi]. apply (IH (mk_ms now (s_add m st) c phi ps)); auto. now apply rel_add.
  - cbn [answer codes_at app tick setps setphi]. apply (IH (mk_ms (now + dt) st c phi ps)); auto. now apply rel_skip.
  - cbn [answer codes_at app tick setps setphi]. apply (IH (mk_ms now (s_remove_peer p st) c phi ps)); auto. now apply rel_remove.
  - cbn [answer codes_at app tick setps setphi]. apply (IH (mk_ms now st c phi ps')); auto. now apply rel_skip.
  - cbn [answer codes_at app tick setps setphi]. apply (IH (mk_ms now st c (kput k b phi) ps)); auto. now apply rel_skip.
  - (* OCheckPeers *) rewrite mstep_checkpeers. cbn [answer ms_now ms_st ms_c ms_phi ms_ps] in *. cbv zeta.
    pose proof (reported_code_complete st c past now phi peers R) as H13.
    unfold check_peers in *. set (vs := peers_visits (phi_of phi) (names st) peers) in *.
    cbn [codes_at tick setps setphi].
    rewrite (fresh_code_complete st c past now vs R), H13.
    rewrite (once_code_complete st c past now vs (OCheckPeers peers (snd (visits now vs (st, c)))) R eq_refl). cbn [app].
    apply (IH (mk_ms now (fst (fst (visits now vs (st, c)))) (snd (fst (visits now vs (st, c)))) phi ps)); auto.
    cbn [ms_st]. apply rel_check; auto.
  - (* OCheckAll *) rewrite mstep_checkall. cbn [answer ms_now ms_st ms_c ms_phi ms_ps] in *. cbv zeta.
    unfold check_all in *. cbn [fst] in *. set (vs := all_visits (phi_of phi) st) in *.
    cbn [codes_at tick setps setphi].
    rewrite (fresh_code_complete st c past now vs R).
    rewrite (once_code_complete st c past now vs (OCheckAll (snd (visits now vs (st, c)))) R eq_refl). cbn [app].
    apply (IH (mk_ms now (fst (fst (visits now vs (st, c)))) (snd (fst (visits now vs (st, c)))) phi ps)); auto.
    cbn [ms_st]. apply rel_check; auto.
  - (* OLatest *) cbn [answer codes_at tick setps setphi mstep fst ms_now ms_st ms_ps].
    rewrite latest_code_complete by auto. cbn [app].
    apply (IH (mk_ms now st c phi ps)); auto. now apply rel_skip.
Qed.

Theorem model_passes_monitor_l ops : uniq_ids ops -> spec_walk (annotate ops ms0) [] 0 PNone [] = [].
Proof. intros Hu. apply (model_passes_monitor_gen ops ms0 []); [apply rel_empty|].
  cbn [adds_of flat_map]. now rewrite app_nil_r. Qed.

(* and the annotated history is one the model agrees with (code 1 is not produced either) *)
Lemma list_eqb_N_refl (l : list N) : list_eqb N.eqb l l = true.
Proof. induction l as [|x r IH]; [reflexivity|]. simpl. now rewrite N.eqb_refl. Qed.
Lemma mstep_answer o s : fst (mstep (answer o s) s) = fst (mstep o s) /\ snd (mstep (answer o s) s) = true.
Proof. destruct o; cbn [answer]; try (split; reflexivity).
  - unfold mstep. destruct (check_peers _ _ _ _ _) as [[st c] al]. cbn [fst snd]. split; auto. apply list_eqb_N_refl.
  - unfold mstep. destruct (check_all _ _ _) as [[st c] al]. cbn [fst snd]. split; auto. apply list_eqb_N_refl.
  - cbn [mstep fst snd]. split; auto. apply list_eqb_N_refl. Qed.
Theorem annotate_agrees_l ops : forall s, mrun (annotate ops s) s = true.
Proof. induction ops as [|o r IH]; intros s; [reflexivity|]. cbn [annotate mrun].
  destruct (mstep_answer o s) as [E1 E2]. destruct (mstep (answer o s) s) as [s' ok]. cbn [fst snd] in *. subst. cbn [andb]. apply IH. Qed.

(* ---------- (2) soundness: what a code that is not produced guarantees ---------- *)
Lemma codes_in_walk pre o post c :
  In c (codes_at o (rev pre) (time_at pre) (peerset_at pre) (phi_at pre)) -> In c (spec_walk (pre ++ o :: post) [] 0 PNone []).
Proof. intros H. apply spec_walk_at. now rewrite app_nil_r. Qed.

Lemma adds_of_app a b : adds_of (a ++ b) = adds_of a ++ adds_of b.
Proof. unfold adds_of. apply flat_map_app. Qed.
Lemma adds_of_rev l : adds_of (rev l) = rev (adds_of l).
Proof. induction l as [|o r IH]; [reflexivity|]. cbn [rev]. rewrite adds_of_app, IH, (adds_of_cons o r), rev_app_distr.
  f_equal. destruct o; reflexivity. Qed.
Lemma uniq_ids_prefix pre rest : uniq_ids (pre ++ rest) -> uniq_ids (rev pre).
Proof. unfold uniq_ids. rewrite adds_of_app, adds_of_rev, map_app, map_rev. intros H. apply NoDup_rev.
  induction (map mid (adds_of pre)) as [|x xs IH]; [constructor|]. simpl in H. inversion H as [|? ? Hn Hd]; subst.
  constructor; auto. intros Hin. apply Hn. apply in_or_app. now left. Qed.

(* code 2 *)
Lemma latest_okb_sound now ps past name obs : uniq_ids past ->
  latest_okb now ps past name obs = true -> latest_spec now ps past name obs.
Proof. intros Hu H. unfold latest_okb in H. apply andb_true_iff in H. destruct H as [Hall Hnd].
  assert (Hms : exists ms, map (fun id => find_add id past) obs = map Some ms /\ map mid ms = obs).
  { clear Hnd. induction obs as [|id r IH]; [exists []; split; reflexivity|].
    cbn [map forallb] in Hall. apply andb_true_iff in Hall. destruct Hall as [H1 H2].
    destruct (find_add id past) as [m|] eqn:F; [|discriminate]. destruct (IH H2) as [ms [E1 E2]].
    exists (m :: ms). cbn [map]. rewrite F, E1, E2. apply find_add_in in F. destruct F as [_ ->]. split; reflexivity. }
  destruct Hms as [ms [E1 E2]]. rewrite E1 in Hall, Hnd. rewrite flat_map_some_peers in Hnd.
  exists ms. split; auto. split; [now apply nodupb_NoDup|]. intros m Hm.
  rewrite forallb_forall in Hall. specialize (Hall (Some m) (in_map Some ms m Hm)). cbn beta iota in Hall.
  rewrite !andb_true_iff in Hall. destruct Hall as [[[[H1 H2] H3] H4] H5].
  assert (Hin : In m (adds_of past)).
  { assert (In (Some m) (map (fun id => find_add id past) obs)) as Hs by (rewrite E1; now apply in_map).
    apply in_map_iff in Hs. destruct Hs as [id [F _]]. now apply find_add_in in F. }
  destruct (last_add (mkey m) past) as [m'|] eqn:LA; [|discriminate]. apply N.eqb_eq in H4.
  assert (m' = m) by (eapply uniq_ids_inj; eauto; eapply last_add_in; eauto). subst m'.
  split; [|split; [now apply N.eqb_eq|split; [exact H2|split]]].
  - destruct (last_add_split _ _ _ LA) as [nw [ol [E F]]]. exists nw, ol. auto.
  - apply negb_true_iff in H3. unfold expired in H3. now apply Z.ltb_ge.
  - unfold member. destruct ps; auto; [discriminate|now apply memN_in]. Qed.

Theorem latest_monitor_sound_l ops : uniq_ids ops -> ~ In 2%N (spec_walk ops [] 0 PNone []) ->
  forall pre name obs post, ops = pre ++ OLatest name obs :: post ->
  latest_spec (time_at pre) (peerset_at pre) (rev pre) name obs.
Proof. intros Hu Hno pre name obs post ->. apply latest_okb_sound; [eapply uniq_ids_prefix; eauto|].
  destruct (latest_okb (time_at pre) (peerset_at pre) (rev pre) name obs) eqn:E; auto.
  exfalso. apply Hno. apply codes_in_walk. cbn [codes_at]. rewrite E. now left. Qed.

(* code 10 *)
Theorem alerts_fresh_monitor_sound_l ops : ~ In 10%N (spec_walk ops [] 0 PNone []) ->
  forall pre o obs post, ops = pre ++ o :: post -> obs_of_check o = Some obs ->
  forall a, In a obs -> exists m, most_recent_add (rev pre) m /\ mkey m = fst a /\ mexp m < time_at pre.
Proof. intros Hno pre o obs post -> Ho a Ha.
  assert (H : alerts_fresh_okb (time_at pre) (rev pre) obs = true).
  { destruct (alerts_fresh_okb (time_at pre) (rev pre) obs) eqn:E; auto. exfalso. apply Hno. apply codes_in_walk.
    destruct o; try discriminate; cbn [obs_of_check] in Ho; injection Ho as ->; cbn [codes_at]; rewrite E; apply in_or_app; left; now left. }
  unfold alerts_fresh_okb in H. rewrite forallb_forall in H. specialize (H a Ha).
  destruct (last_add (fst a) (rev pre)) as [m|] eqn:LA; [|discriminate]. exists m.
  pose proof (last_add_key _ _ _ LA) as Ek. split; [|split; auto].
  - destruct (last_add_split _ _ _ LA) as [nw [ol [E F]]]. exists nw, ol. rewrite Ek. auto.
  - unfold expired in H. now apply Z.ltb_lt. Qed.

(* code 11: between two adds for (name, peer) the checks report at most one alert for it *)
Lemma alerts_for_pos k obs : (1 <= alerts_for k obs)%nat -> exists a, In a obs /\ fst a = k.
Proof. unfold alerts_for. destruct (filter (fun a => key_eqb (fst a) k) obs) as [|a r] eqn:F; simpl; [lia|]. intros _.
  assert (In a (filter (fun a => key_eqb (fst a) k) obs)) as Hin by (rewrite F; now left).
  apply filter_In in Hin. destruct Hin as [Hin E]. exists a. split; auto. now destruct (key_eqb_spec (fst a) k). Qed.

Theorem alerts_once_monitor_sound_l ops : ~ In 11%N (spec_walk ops [] 0 PNone []) ->
  forall k pre seg post, ops = pre ++ seg ++ post -> forallb (fun o => negb (adds_to k o)) seg = true ->
  (alerts_in k seg <= 1)%nat.
Proof. intros Hno k pre seg. induction seg as [|o seg' IH] using rev_ind; intros post E Hna; [simpl; lia|].
  rewrite forallb_app in Hna. apply andb_true_iff in Hna. destruct Hna as [Hna' Hno'].
  assert (E' : ops = pre ++ seg' ++ o :: post) by (rewrite E, <- !app_assoc; reflexivity).
  specialize (IH (o :: post) E' Hna'). rewrite alerts_in_app. cbn [alerts_in fold_right].
  destruct (obs_of_check o) as [obs|] eqn:Ho; [|lia].
  destruct (Nat.le_gt_cases 1 (alerts_for k obs)) as [Hpos|Hz]; [|lia].
  destruct (alerts_for_pos k obs Hpos) as [a [Ha Ek]].
  assert (H : alerts_once_okb (o :: rev (pre ++ seg')) obs = true).
  { destruct (alerts_once_okb (o :: rev (pre ++ seg')) obs) eqn:X; auto. exfalso. apply Hno.
    rewrite E', app_assoc. apply codes_in_walk.
    destruct o; try discriminate; cbn [obs_of_check] in Ho; injection Ho as ->; cbn [codes_at]; rewrite X;
      apply in_or_app; right; try (apply in_or_app; left); now left. }
  unfold alerts_once_okb in H. rewrite forallb_forall in H. specialize (H a Ha). apply Nat.leb_le in H. rewrite Ek in H.
  assert (Eq : o :: rev (pre ++ seg') = rev (seg' ++ [o]) ++ rev pre).
  { rewrite rev_app_distr. cbn [rev app]. now rewrite rev_app_distr. }
  rewrite Eq, alerts_since_add_app, alerts_in_rev, alerts_in_app in H.
  - cbn [alerts_in fold_right] in H. rewrite Ho in H. lia.
  - apply forallb_forall. intros x Hx. apply in_rev in Hx. apply in_app_or in Hx. destruct Hx as [Hx|[<-|[]]].
    + rewrite forallb_forall in Hna'. auto.
    + cbn [forallb] in Hno'. now rewrite andb_true_r in Hno'. Qed.

(* code 13: an expiry seen by CheckPeers is reported *)
Theorem reported_monitor_sound_l ops : ~ In 13%N (spec_walk ops [] 0 PNone []) ->
  forall pre peers obs post, ops = pre ++ OCheckPeers peers obs :: post ->
  forall n p m, In n (names_added (rev pre)) -> In p peers -> last_add (n, p) (rev pre) = Some m -> mexp m < time_at pre ->
    removed_since_add (n, p) (rev pre) = false -> alerts_since_add (n, p) (rev pre) = 0%nat ->
    ((count_adds (n, p) (rev pre) < 6)%nat \/ phi_of (phi_at pre) (n, p) = true) ->
    (1 <= alerts_for (n, p) obs)%nat.
Proof. intros Hno pre peers obs post -> n p m Hn Hp LA X Hr Ha Hc.
  assert (H : reported_okb (time_at pre) (phi_at pre) (rev pre) peers obs = true).
  { destruct (reported_okb (time_at pre) (phi_at pre) (rev pre) peers obs) eqn:E; auto. exfalso. apply Hno. apply codes_in_walk.
    cbn [codes_at]. rewrite E. apply in_or_app; right; apply in_or_app; right; now left. }
  unfold reported_okb in H. rewrite forallb_forall in H. specialize (H n Hn). rewrite forallb_forall in H. specialize (H p Hp).
  cbv zeta in H. rewrite LA, Hr, Ha in H. unfold expired in H. apply Z.ltb_lt in X. rewrite X in H. cbn [negb andb Nat.eqb] in H.
  assert (Hc' : ((count_adds (n, p) (rev pre) <? 6)%nat || phi_of (phi_at pre) (n, p)) = true).
  { apply orb_true_iff. destruct Hc as [Hc|Hc]; [left; now apply Nat.ltb_lt | now right]. }
  rewrite Hc' in H. now apply Nat.leb_le. Qed.

(* ---------- (1') any history the model agrees with (code 1 not produced) produces no other code ---------- *)
(* `alerts_eqb` compares alert lists through `alert_code`, which separates alerts only while peer indices are
   below 1000 and metric ids below 999; the statement is made for such histories *)
Definition small_metric (m : metric) : Prop := (mpeer m < 1000)%N /\ (mid m < 999)%N.
Definition small_alert (a : alert_t) : Prop :=
  (snd (fst a) < 1000)%N /\ match snd a with Some i => (i < 999)%N | None => True end.
Definition small_history (ops : list op) : Prop :=
  (forall m, In m (adds_of ops) -> small_metric m) /\
  (forall o obs a, In o ops -> obs_of_check o = Some obs -> In a obs -> small_alert a).
Definition key_of_code (c : N) : key := (c / 1000000, (c mod 1000000) / 1000)%N.

Lemma key_of_alert_code a : small_alert a -> key_of_code (alert_code a) = fst a.
Proof. destruct a as [[n p] oi]. unfold small_alert, key_of_code, alert_code. cbn [fst snd]. intros [Hp Hi].
  set (j := match oi with Some i => (i + 1)%N | None => 0%N end).
  assert (Hj : (j < 1000)%N) by (unfold j; destruct oi; lia).
  assert (E1 : ((n * 1000000 + p * 1000 + j) / 1000000 = n)%N).
  { symmetry. apply (N.div_unique _ _ n (p * 1000 + j)%N); lia. }
  assert (E2 : ((n * 1000000 + p * 1000 + j) mod 1000000 = p * 1000 + j)%N).
  { symmetry. apply (N.mod_unique _ _ n (p * 1000 + j)%N); lia. }
  assert (E3 : ((p * 1000 + j) / 1000 = p)%N).
  { symmetry. apply (N.div_unique _ _ p j); lia. }
  now rewrite E1, E2, E3. Qed.

Lemma insertN_perm x l : Permutation (insertN x l) (x :: l).
Proof. induction l as [|y r IH]; [reflexivity|]. cbn [insertN]. destruct (x <=? y)%N; [reflexivity|].
  rewrite IH. apply perm_swap. Qed.
Lemma sortN_perm l : Permutation (sortN l) l.
Proof. induction l as [|x r IH]; [reflexivity|]. cbn [sortN fold_right]. fold (sortN r). rewrite insertN_perm. now constructor. Qed.
Lemma list_eqb_N_eq (a b : list N) : list_eqb N.eqb a b = true -> a = b.
Proof. revert b. induction a as [|x xs IH]; intros [|y ys]; simpl; try discriminate; auto.
  rewrite andb_true_iff, N.eqb_eq. intros [-> H]. f_equal. auto. Qed.

Lemma alerts_eqb_keys al obs : (forall a, In a al -> small_alert a) -> (forall a, In a obs -> small_alert a) ->
  alerts_eqb al obs = true -> Permutation (map fst obs) (map fst al).
Proof. intros Hal Hobs H. unfold alerts_eqb in H. apply list_eqb_N_eq in H.
  assert (P : Permutation (map alert_code obs) (map alert_code al)).
  { rewrite <- (sortN_perm (map alert_code obs)), <- H. apply sortN_perm. }
  apply (Permutation_map key_of_code) in P. rewrite !map_map in P.
  rewrite (map_ext_in _ fst obs) in P by (intros a Ha; apply key_of_alert_code; auto).
  rewrite (map_ext_in _ fst al) in P by (intros a Ha; apply key_of_alert_code; auto). exact P. Qed.

Lemma forallb_ext' {A} (f g : A -> bool) l : (forall x, f x = g x) -> forallb f l = forallb g l.
Proof. intros H. induction l as [|x r IH]; [reflexivity|]. simpl. now rewrite H, IH. Qed.
Lemma filter_perm {A} (f : A -> bool) l l' : Permutation l l' -> Permutation (filter f l) (filter f l').
Proof. induction 1 as [|x l l' P IH|x y l|l l' l'' P1 IH1 P2 IH2]; simpl.
  - constructor.
  - destruct (f x); auto.
  - destruct (f x), (f y); auto. apply perm_swap.
  - eapply perm_trans; eauto. Qed.
Lemma alerts_for_keys k l : alerts_for k l = length (filter (fun x => key_eqb x k) (map fst l)).
Proof. unfold alerts_for. induction l as [|a r IH]; [reflexivity|]. simpl. destruct (key_eqb (fst a) k); simpl; congruence. Qed.
Lemma alerts_for_perm k a b : Permutation (map fst a) (map fst b) -> alerts_for k a = alerts_for k b.
Proof. intros P. rewrite !alerts_for_keys. apply Permutation_length. now apply filter_perm. Qed.

(* the invariant only looks at the history through the monitor's five functions *)
Lemma rel_ext st p1 p2 : rel st p1 ->
  (forall k, last_add k p2 = last_add k p1) -> (forall k, alerts_since_add k p2 = alerts_since_add k p1) ->
  (forall k, removed_since_add k p2 = removed_since_add k p1) -> (forall k, count_adds k p2 = count_adds k p1) ->
  names_added p2 = names_added p1 -> rel st p2.
Proof. intros R H1 H2 H3 H4 H5. constructor.
  - apply R.
  - intros k m. rewrite H1. apply R.
  - intros k. rewrite H2. apply R.
  - intros k m. rewrite H1, H2, H3. apply R.
  - intros k. rewrite H4. apply R.
  - intros n. rewrite H5. apply R. Qed.

Definition with_obs (o : op) (al : list alert_t) : op :=
  match o with OCheckPeers peers _ => OCheckPeers peers al | OCheckAll _ => OCheckAll al | _ => o end.

Lemma rel_check_perm now vs st c past o obs : rel st past -> obs_of_check o = Some obs ->
  Permutation (map fst obs) (map fst (snd (visits now vs (st, c)))) ->
  rel (fst (fst (visits now vs (st, c)))) (o :: past).
Proof. intros R Ho P. set (al := snd (visits now vs (st, c))) in *.
  assert (R' : rel (fst (fst (visits now vs (st, c)))) (with_obs o al :: past)).
  { apply rel_check; auto. destruct o; try discriminate; reflexivity. }
  apply (rel_ext _ _ _ R'); try (intros k); destruct o; try discriminate; try reflexivity;
    cbn [obs_of_check] in Ho; injection Ho as ->; cbn [with_obs alerts_since_add]; now rewrite (alerts_for_perm k _ _ P). Qed.

Lemma fresh_code_perm st c past now vs obs : rel st past ->
  Permutation (map fst obs) (map fst (snd (visits now vs (st, c)))) -> alerts_fresh_okb now past obs = true.
Proof. intros R P. unfold alerts_fresh_okb. apply forallb_forall. intros a Ha.
  assert (Hk : In (fst a) (map fst (snd (visits now vs (st, c))))) by (eapply Permutation_in; [exact P | now apply in_map]).
  apply in_map_iff in Hk. destruct Hk as [a' [E Ha']].
  destruct (visits_alerts_expired now vs st c a' Ha') as [m [L [X _]]]. rewrite E in L. now rewrite (r_latest _ _ R _ _ L). Qed.

Lemma visits_alerts_small now vs st c past : rel st past -> (forall m, In m (adds_of past) -> small_metric m) ->
  forall a, In a (snd (visits now vs (st, c))) -> small_alert a.
Proof. intros R Hs a Ha. destruct (visits_alerts_expired now vs st c a Ha) as [m [L [_ S]]].
  apply (r_latest _ _ R) in L. pose proof (last_add_key _ _ _ L) as Ek. apply last_add_in, Hs in L. destruct L as [L1 L2].
  unfold small_alert. rewrite S, <- Ek. cbn [mkey snd]. auto. Qed.

Lemma mrun_cons o r s : mrun (o :: r) s = snd (mstep o s) && mrun r (fst (mstep o s)).
Proof. cbn [mrun]. destruct (mstep o s). reflexivity. Qed.
Lemma mstep_checkpeers_ok peers obs s :
  snd (mstep (OCheckPeers peers obs) s) =
  alerts_eqb (snd (check_peers (ms_now s) (phi_of (ms_phi s)) (names (ms_st s)) peers (ms_st s, ms_c s))) obs.
Proof. unfold mstep. destruct (check_peers _ _ _ _ _) as [[st c] al]. reflexivity. Qed.
Lemma mstep_checkall_ok obs s :
  snd (mstep (OCheckAll obs) s) = alerts_eqb (snd (check_all (ms_now s) (phi_of (ms_phi s)) (ms_st s, ms_c s))) obs.
Proof. unfold mstep. destruct (check_all _ _ _) as [[st c] al]. reflexivity. Qed.

Theorem agreeing_passes_monitor_gen ops : forall s past, rel (ms_st s) past ->
  NoDup (map mid (adds_of ops ++ adds_of past)) -> (forall m, In m (adds_of ops ++ adds_of past) -> small_metric m) ->
  (forall o obs a, In o ops -> obs_of_check o = Some obs -> In a obs -> small_alert a) ->
  mrun ops s = true -> spec_walk ops past (ms_now s) (ms_ps s) (ms_phi s) = [].
Proof. induction ops as [|o r IH]; intros s past R Hu Hsm Hso Hrun; [reflexivity|].
  rewrite spec_walk_cons. rewrite mrun_cons in Hrun. apply andb_true_iff in Hrun. destruct Hrun as [Hok Hrun].
  assert (Hup : uniq_ids past) by (eapply uniq_tail; eauto).
  assert (Hu' : NoDup (map mid (adds_of r ++ adds_of (o :: past)))).
  { rewrite (adds_of_cons o past). apply uniq_shift. now rewrite <- adds_of_cons. }
  assert (Hsm' : forall m, In m (adds_of r ++ adds_of (o :: past)) -> small_metric m).
  { intros m Hm. apply Hsm. rewrite (adds_of_cons o r). rewrite (adds_of_cons o past) in Hm. rewrite !in_app_iff in *. tauto. }
  assert (Hsp : forall m, In m (adds_of past) -> small_metric m) by (intros m Hm; apply Hsm; apply in_or_app; now right).
  assert (Hso' : forall o' obs a, In o' r -> obs_of_check o' = Some obs -> In a obs -> small_alert a)
    by (intros o' obs' a Ho'; apply Hso; now right).
  destruct s as [now st c phi ps]. cbn [ms_now ms_st ms_c ms_phi ms_ps] in *.
  destruct o as [m|dt|p|ps'|k b|peers obs|obs|name obs].
  - cbn [codes_at app tick setps setphi]. apply (IH (mk_ms now (s_add m st) c phi ps)); auto. now apply rel_add.
  - cbn [codes_at app tick setps setphi]. apply (IH (mk_ms (now + dt) st c phi ps)); auto. now apply rel_skip.
  - cbn [codes_at app tick setps setphi]. apply (IH (mk_ms now (s_remove_peer p st) c phi ps)); auto. now apply rel_remove.
  - cbn [codes_at app tick setps setphi]. apply (IH (mk_ms now st c phi ps')); auto. now apply rel_skip.
  - cbn [codes_at app tick setps setphi]. apply (IH (mk_ms now st c (kput k b phi) ps)); auto. now apply rel_skip.
  - (* OCheckPeers *) rewrite mstep_checkpeers_ok in Hok. rewrite mstep_checkpeers in Hrun.
    cbn [ms_now ms_st ms_c ms_phi ms_ps] in *. cbv zeta in Hrun.
    pose proof (reported_code_complete st c past now phi peers R) as H13.
    unfold check_peers in *. set (vs := peers_visits (phi_of phi) (names st) peers) in *.
    assert (P : Permutation (map fst obs) (map fst (snd (visits now vs (st, c))))).
    { apply alerts_eqb_keys; auto.
      - eapply visits_alerts_small; eauto.
      - intros a Ha. apply (Hso (OCheckPeers peers obs) obs a); auto. now left. }
    assert (R' : rel (fst (fst (visits now vs (st, c)))) (OCheckPeers peers obs :: past)) by (eapply rel_check_perm; eauto; reflexivity).
    cbn [codes_at tick setps setphi].
    rewrite (fresh_code_perm st c past now vs obs R P).
    assert (H11 : alerts_once_okb (OCheckPeers peers obs :: past) obs = true).
    { unfold alerts_once_okb. apply forallb_forall. intros a _. apply Nat.leb_le. pose proof (r_once _ _ R' (fst a)). lia. }
    rewrite H11.
    assert (H13' : reported_okb now phi past peers obs = true).
    { unfold reported_okb in *. etransitivity; [|exact H13]. apply forallb_ext'. intros n. apply forallb_ext'. intros p.
      now rewrite (alerts_for_perm (n, p) _ _ P). }
    rewrite H13'. cbn [app].
    apply (IH (mk_ms now (fst (fst (visits now vs (st, c)))) (snd (fst (visits now vs (st, c)))) phi ps)); auto.
  - (* OCheckAll *) rewrite mstep_checkall_ok in Hok. rewrite mstep_checkall in Hrun.
    cbn [ms_now ms_st ms_c ms_phi ms_ps] in *. cbv zeta in Hrun.
    unfold check_all in *. cbn [fst] in *. set (vs := all_visits (phi_of phi) st) in *.
    assert (P : Permutation (map fst obs) (map fst (snd (visits now vs (st, c))))).
    { apply alerts_eqb_keys; auto.
      - eapply visits_alerts_small; eauto.
      - intros a Ha. apply (Hso (OCheckAll obs) obs a); auto. now left. }
    assert (R' : rel (fst (fst (visits now vs (st, c)))) (OCheckAll obs :: past)) by (eapply rel_check_perm; eauto; reflexivity).
    cbn [codes_at tick setps setphi].
    rewrite (fresh_code_perm st c past now vs obs R P).
    assert (H11 : alerts_once_okb (OCheckAll obs :: past) obs = true).
    { unfold alerts_once_okb. apply forallb_forall. intros a _. apply Nat.leb_le. pose proof (r_once _ _ R' (fst a)). lia. }
    rewrite H11. cbn [app].
    apply (IH (mk_ms now (fst (fst (visits now vs (st, c)))) (snd (fst (visits now vs (st, c)))) phi ps)); auto.
  - (* OLatest *) cbn [mstep fst snd ms_now ms_st ms_ps] in Hok, Hrun. apply list_eqb_N_eq in Hok. subst obs.
    cbn [codes_at tick setps setphi]. rewrite latest_code_complete by auto. cbn [app].
    apply (IH (mk_ms now st c phi ps)); auto. now apply rel_skip.
Qed.

Theorem agreeing_passes_monitor_l ops : uniq_ids ops -> small_history ops -> mrun ops ms0 = true ->
  spec_walk ops [] 0 PNone [] = [].
Proof. intros Hu [Hs1 Hs2] Hrun. apply (agreeing_passes_monitor_gen ops ms0 []); auto.
  - apply rel_empty.
  - cbn [adds_of flat_map]. now rewrite app_nil_r.
  - cbn [adds_of flat_map]. now rewrite app_nil_r. Qed.

(* outside that range the comparison does not separate alerts: two different alerts with one code *)
Lemma alert_code_collision : alerts_eqb [((0, 1)%N, None)] [((0, 0)%N, Some 999%N)] = true.
Proof. reflexivity. Qed.
