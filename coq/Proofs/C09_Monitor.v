(* C09 — the run-time monitors of Model/C09_Check.v (`spec_walk`: latest_okb = code 2, alerts_fresh_okb = 10,
   alerts_once_okb = 11, reported_okb = 13), which judge the implementation's answers from the history alone,
   tied to the model and to Prop-level statements, for every history:
   (1) completeness: a history annotated with the model's own answers produces no code at all;
   (2) soundness: a history on which a code is not produced satisfies the Prop-level clause that code stands for. *)
From V Require Import Base.Common Base.CommonLemmas Model.C09_Metrics Model.C09_Check Proofs.C09_Metrics.
From Coq Require Import Permutation.
Open Scope Z_scope.

(* ---------- vocabulary ---------- *)
Definition adds_of (ops : list op) : list metric := flat_map (fun o => match o with OAdd m => [m] | _ => [] end) ops.
(* the harness numbers the metrics it adds 0, 1, 2, ... *)
Definition uniq_ids (ops : list op) : Prop := NoDup (map mid (adds_of ops)).

(* the model's own answer written into an observing operation *)
Definition answer (o : op) (s : mstate) : op :=
  match o with
  | OCheckPeers peers _ =>
      OCheckPeers peers (snd (check_peers (ms_now s) (phi_of (ms_phi s)) (names (ms_st s)) peers (ms_st s, ms_c s)))
  | OCheckAll _ => OCheckAll (snd (check_all (ms_now s) (phi_of (ms_phi s)) (ms_st s, ms_c s)))
  | OLatest name _ => OLatest name (map mid (latest_metrics (ms_now s) name (ms_ps s) (ms_st s)))
  | _ => o
  end.
Fixpoint annotate (ops : list op) (s : mstate) : list op :=
  match ops with [] => [] | o :: r => answer o s :: annotate r (fst (mstep o s)) end.

(* the monitor's own bookkeeping while it walks a history *)
Definition tick (now : Z) (o : op) : Z := match o with OTick dt => now + dt | _ => now end.
Definition setps (ps : pset) (o : op) : pset := match o with OPeerset p => p | _ => ps end.
Definition setphi (phi : list (key * bool)) (o : op) : list (key * bool) := match o with OSetPhi k b => kput k b phi | _ => phi end.
Definition time_at (pre : list op) : Z := fold_left tick pre 0.
Definition peerset_at (pre : list op) : pset := fold_left setps pre PNone.
Definition phi_at (pre : list op) : list (key * bool) := fold_left setphi pre [].
Definition codes_at (o : op) (past : list op) (now : Z) (ps : pset) (phi : list (key * bool)) : list N :=
  match o with
  | OLatest name obs => if latest_okb now ps past name obs then [] else [2%N]
  | OCheckPeers peers obs =>
      (if alerts_fresh_okb now past obs then [] else [10%N]) ++
      (if alerts_once_okb (o :: past) obs then [] else [11%N]) ++
      (if reported_okb now phi past peers obs then [] else [13%N])
  | OCheckAll obs =>
      (if alerts_fresh_okb now past obs then [] else [10%N]) ++
      (if alerts_once_okb (o :: past) obs then [] else [11%N])
  | _ => [] end.

(* Prop-level clauses *)
(* m is the most recently added metric of its (name, peer) in a newest-first history *)
Definition most_recent_add (past : list op) (m : metric) : Prop :=
  exists newer older, past = newer ++ OAdd m :: older /\ forall m', In (OAdd m') newer -> mkey m' <> mkey m.
Definition member (ps : pset) (p : N) : Prop := match ps with PNone => True | PErr => False | PSome l => In p l end.
(* a reported list of metric ids: the metrics they name are one per peer, each the most recently received for its
   (name, peer), of the asked name, valid, unexpired, and of a member *)
Definition latest_spec (now : Z) (ps : pset) (past : list op) (name : N) (obs : list N) : Prop :=
  exists ms, map mid ms = obs /\ NoDup (map mpeer ms) /\
    forall m, In m ms -> most_recent_add past m /\ mname m = name /\ mvalid m = true /\ now <= mexp m /\ member ps (mpeer m).
Definition obs_of_check (o : op) : option (list alert_t) :=
  match o with OCheckPeers _ obs => Some obs | OCheckAll obs => Some obs | _ => None end.
(* alerts for k reported by the checks of a stretch of history *)
Definition alerts_in (k : key) (l : list op) : nat :=
  fold_right (fun o n => match obs_of_check o with Some obs => alerts_for k obs + n | None => n end)%nat 0%nat l.
Definition adds_to (k : key) (o : op) : bool := match o with OAdd m => key_eqb (mkey m) k | _ => false end.

(* ---------- the history functions of the monitor ---------- *)
Lemma spec_walk_cons o r past now ps phi :
  spec_walk (o :: r) past now ps phi = codes_at o past now ps phi ++ spec_walk r (o :: past) (tick now o) (setps ps o) (setphi phi o).
Proof. destruct o; reflexivity. Qed.

Lemma spec_walk_at pre o post past now ps phi c :
  In c (codes_at o (rev pre ++ past) (fold_left tick pre now) (fold_left setps pre ps) (fold_left setphi pre phi)) ->
  In c (spec_walk (pre ++ o :: post) past now ps phi).
Proof. revert past now ps phi. induction pre as [|x pre IH]; intros past now ps phi H.
  - cbn [app]. rewrite spec_walk_cons. apply in_or_app. now left.
  - cbn [app]. rewrite spec_walk_cons. apply in_or_app. right. apply IH.
    cbn [rev fold_left] in H. rewrite <- app_assoc in H. exact H. Qed.

Lemma last_add_key k past m : last_add k past = Some m -> mkey m = k.
Proof. induction past as [|o r IH]; [discriminate|]. destruct o; cbn [last_add]; auto.
  destruct (key_eqb_spec (mkey m0) k) as [E|E]; auto. intros H. injection H as <-. exact E. Qed.
Lemma last_add_in k past m : last_add k past = Some m -> In m (adds_of past).
Proof. induction past as [|o r IH]; [discriminate|]. destruct o; cbn [last_add adds_of flat_map app]; auto.
  destruct (key_eqb (mkey m0) k).
  - intros H. injection H as <-. now left.
  - intros H. right. apply IH, H. Qed.
Lemma find_add_in id past m : find_add id past = Some m -> In m (adds_of past) /\ mid m = id.
Proof. induction past as [|o r IH]; [discriminate|]. destruct o; cbn [find_add adds_of flat_map app]; auto.
  destruct (N.eqb_spec (mid m0) id).
  - intros H. injection H as <-. split; auto. now left.
  - intros H. destruct (IH H). split; auto. now right. Qed.
Lemma uniq_ids_inj past m m' : uniq_ids past -> In m (adds_of past) -> In m' (adds_of past) -> mid m = mid m' -> m = m'.
Proof. unfold uniq_ids. induction (adds_of past) as [|x xs IH]; simpl; intros H A B E; [tauto|].
  inversion H as [|? ? Hn Hd]; subst. destruct A as [->|A]; destruct B as [->|B]; auto.
  - exfalso. apply Hn. rewrite E. now apply in_map.
  - exfalso. apply Hn. rewrite <- E. now apply in_map. Qed.
Lemma find_add_uniq past m : uniq_ids past -> In m (adds_of past) -> find_add (mid m) past = Some m.
Proof. intros Hu Hin. destruct (find_add (mid m) past) as [m'|] eqn:F.
  - apply find_add_in in F. destruct F as [A B]. f_equal. eapply uniq_ids_inj; eauto.
  - exfalso. clear Hu. induction past as [|o r IH]; [destruct Hin|].
    destruct o; cbn [find_add adds_of flat_map app] in *; auto.
    destruct (N.eqb_spec (mid m0) (mid m)); [discriminate|]. destruct Hin as [->|Hin]; [congruence|auto]. Qed.

Lemma last_add_split k past m : last_add k past = Some m ->
  exists newer older, past = newer ++ OAdd m :: older /\ forall m', In (OAdd m') newer -> mkey m' <> k.
Proof. induction past as [|o r IH]; [discriminate|]. intros H.
  assert (Hskip : (forall m0, o <> OAdd m0) -> last_add k r = Some m ->
     exists newer older, o :: r = newer ++ OAdd m :: older /\ forall m', In (OAdd m') newer -> mkey m' <> k).
  { intros Ho Hr. destruct (IH Hr) as [nw [ol [E F]]]. exists (o :: nw), ol. split; [now rewrite E|].
    intros m' [Hm|Hm]; [exfalso; eapply Ho; eauto | auto]. }
  destruct o; cbn [last_add] in H; try (apply Hskip; [intros m0; discriminate | exact H]).
  destruct (key_eqb_spec (mkey m0) k) as [E|E].
  - injection H as <-. exists [], r. split; [reflexivity | intros m' []].
  - destruct (IH H) as [nw [ol [E1 F]]]. exists (OAdd m0 :: nw), ol. split; [now rewrite E1|].
    intros m' [Hm|Hm]; [injection Hm as <-; exact E | auto]. Qed.

Lemma alerts_in_app k a b : alerts_in k (a ++ b) = (alerts_in k a + alerts_in k b)%nat.
Proof. induction a as [|o r IH]; [reflexivity|]. cbn [app alerts_in fold_right]. fold (alerts_in k (r ++ b)). fold (alerts_in k r).
  rewrite IH. destruct (obs_of_check o); lia. Qed.
Lemma alerts_in_rev k l : alerts_in k (rev l) = alerts_in k l.
Proof. induction l as [|o r IH]; [reflexivity|]. cbn [rev]. rewrite alerts_in_app, IH.
  cbn [alerts_in fold_right]. fold (alerts_in k r). destruct (obs_of_check o); lia. Qed.
(* over a stretch without an add for k, alerts_since_add is the number of alerts of the stretch plus what came before *)
Lemma alerts_since_add_app k newer past : forallb (fun o => negb (adds_to k o)) newer = true ->
  alerts_since_add k (newer ++ past) = (alerts_in k newer + alerts_since_add k past)%nat.
Proof. induction newer as [|o r IH]; [reflexivity|]. cbn [forallb]. rewrite andb_true_iff, negb_true_iff. intros [Ho Hr].
  specialize (IH Hr). cbn [app alerts_in fold_right]. fold (alerts_in k r).
  destruct o; cbn [alerts_since_add obs_of_check]; try exact IH; try lia.
  cbn [adds_to] in Ho. rewrite Ho. exact IH. Qed.

(* ---------- failure-decision passes ---------- *)
Lemma visit_window now v st c k :
  window k (fst (fst (visit now v (st, c)))) = window k st \/
  (window k (fst (fst (visit now v (st, c)))) = [] /\ (1 <= alerts_for k (snd (visit now v (st, c))))%nat).
Proof. destruct (visit_cases now v st c) as [E|[m [_ [_ [_ E]]]]]; rewrite E; cbn [fst snd]; auto.
  destruct (key_eqb_spec k (fst v)) as [->|Hn].
  - right. rewrite window_rpm_same. split; auto. unfold alerts_for. cbn [filter fst]. rewrite key_eqb_refl. simpl. lia.
  - left. now apply window_rpm_other. Qed.
Lemma visits_window now vs st c k :
  window k (fst (fst (visits now vs (st, c)))) = window k st \/
  (window k (fst (fst (visits now vs (st, c)))) = [] /\ (1 <= alerts_for k (snd (visits now vs (st, c))))%nat).
Proof. revert st c. induction vs as [|v r IH]; intros st c; [left; reflexivity|].
  rewrite visits_cons. cbn [fst snd]. rewrite alerts_for_app. pose proof (visit_window now v st c k) as H1.
  destruct (visit now v (st, c)) as [[st1 c1] a1]. cbn [fst snd] in *.
  destruct (IH st1 c1) as [E|[E F]]; rewrite E.
  - destruct H1 as [E1|[E1 F1]]; rewrite E1; [now left|right; split; auto; lia].
  - right. split; auto. lia. Qed.
Lemma visit_names now v st c : names (fst (fst (visit now v (st, c)))) = names st.
Proof. destruct (visit_cases now v st c) as [E|[m [_ [_ [_ E]]]]]; rewrite E; reflexivity. Qed.
Lemma visits_names now vs st c : names (fst (fst (visits now vs (st, c)))) = names st.
Proof. revert st c. induction vs as [|v r IH]; intros st c; [reflexivity|].
  rewrite visits_cons. cbn [fst snd]. pose proof (visit_names now v st c) as H1.
  destruct (visit now v (st, c)) as [[st1 c1] a1]. cbn [fst snd] in *. now rewrite IH. Qed.

(* a decision on k is in the pass, its latest metric is expired and the accrual detector has no say or says failed: reported *)
Lemma visits_reports now vs st c k b m : In (k, b) vs ->
  latest k st = Some m -> expired now m = true -> ((length (window k st) < accrual_num)%nat \/ b = true) ->
  (1 <= alerts_for k (snd (visits now vs (st, c))))%nat.
Proof. revert st c. induction vs as [|v r IH]; intros st c Hin L X Hf; [destruct Hin|].
  rewrite visits_cons. cbn [fst snd]. rewrite alerts_for_app.
  destruct Hin as [->|Hin].
  - destruct (visit_reports now k b st c m L X Hf) as [E _]. rewrite E. unfold alerts_for at 1. cbn [filter fst].
    rewrite key_eqb_refl. simpl. lia.
  - pose proof (visit_window now v st c k) as H1.
    destruct (visit now v (st, c)) as [[st1 c1] a1]. cbn [fst snd] in *.
    destruct H1 as [E1|[_ F1]]; [|lia].
    assert (L1 : latest k st1 = Some m) by (unfold latest in *; now rewrite E1).
    specialize (IH st1 c1 Hin L1 X). rewrite E1 in IH. specialize (IH Hf). lia. Qed.

Lemma in_peers_visits phi order peers n p : In n order -> In p peers -> In ((n, p), phi (n, p)) (peers_visits phi order peers).
Proof. intros Hn Hp. unfold peers_visits. apply in_flat_map. exists n. split; auto. apply in_map_iff. exists p. auto. Qed.
