(* C13 — the layer structure of the trickle layout (tshape): purely structural facts of repeat_loop / depth_loop / trickle_rec. *)
From V Require Import Base.Common Model.C13_Importer Proofs.C13_Importer.
Open Scope N_scope.

Lemma repeat_loop_shape (P : tree -> Prop) mk : (forall s c sz s1, mk s = inr (c, sz, s1) -> P c) ->
  forall n node s node' s', repeat_loop mk n node s = inr (node', s') ->
  exists new, node' = node ++ new /\ Forall (fun l => P (fst l)) new /\ (length new <= n)%nat /\
    ((length new < n)%nat -> done s' = true) /\ (new <> [] -> done s = false).
Proof.
  intros Hmk. induction n as [|n IH]; intros node s node' s' E; cbn [repeat_loop] in E.
  - injection E as <- <-. exists []. rewrite app_nil_r. cbn [length]. repeat split; auto; try (intros; lia); try (intros; congruence).
  - destruct (done s) eqn:Hd.
    { injection E as <- <-. exists []. rewrite app_nil_r. cbn [length]. repeat split; auto; try (intros; lia); try (intros; congruence). }
    destruct (mk s) as [e|[[c sz] s1]] eqn:Em; [discriminate|]. unfold add_child in E.
    destruct (IH _ _ _ _ E) as (new & -> & Hf & Hlen & Hfin & _).
    exists ((c, sz) :: new). rewrite <- app_assoc. split; [reflexivity|].
    split; [constructor; [eapply Hmk; eauto|exact Hf]|]. cbn [length]. split; [lia|]. split; [intros H; apply Hfin; lia|auto].
Qed.

Lemma div4_small i : (i < 4)%nat -> (i / depthRepeat = 0)%nat.
Proof. intros H. apply Nat.div_small. exact H. Qed.
Lemma div4_shift i : (4 <= i)%nat -> (i / depthRepeat = S ((i - 4) / depthRepeat))%nat.
Proof. intros H. unfold depthRepeat. replace i with ((i - 4) + 1 * 4)%nat at 1 by lia. rewrite Nat.div_add by lia. lia. Qed.

Lemma depth_loop_shape (Pd : nat -> tree -> Prop) mkd md : (forall j s c sz s1, mkd j s = inr (c, sz, s1) -> Pd j c) ->
  forall fuel depth node s node' s', depth_loop mkd fuel depth md node s = inr (node', s') ->
  exists new, node' = node ++ new /\
    (forall i l, nth_error new i = Some l -> depth_allowed md (depth + i / depthRepeat) /\ Pd (depth + i / depthRepeat)%nat (fst l)) /\
    (new <> [] -> done s = false).
Proof.
  intros Hmk. induction fuel as [|f IH]; intros depth node s node' s' E; cbn [depth_loop] in E.
  - assert (Hnil : exists new, node = node ++ new /\ (forall i l, nth_error new i = Some l -> depth_allowed md (depth + i / depthRepeat) /\ Pd (depth + i / depthRepeat)%nat (fst l)) /\ (new <> [] -> done s = false)).
    { exists []. rewrite app_nil_r. split; [reflexivity|]. split; [intros [|i] l H; discriminate|congruence]. }
    destruct (match md with Some m => Nat.ltb depth m | None => true end); [|injection E as <- <-; exact Hnil].
    destruct (done s); [injection E as <- <-; exact Hnil|discriminate].
  - assert (Hnil : exists new, node = node ++ new /\ (forall i l, nth_error new i = Some l -> depth_allowed md (depth + i / depthRepeat) /\ Pd (depth + i / depthRepeat)%nat (fst l)) /\ (new <> [] -> done s = false)).
    { exists []. rewrite app_nil_r. split; [reflexivity|]. split; [intros [|i] l H; discriminate|congruence]. }
    destruct (match md with Some m => Nat.ltb depth m | None => true end) eqn:Hg; [|injection E as <- <-; exact Hnil].
    destruct (done s) eqn:Hd; [injection E as <- <-; exact Hnil|]. clear Hnil.
    assert (Hallow : depth_allowed md depth).
    { destruct md as [m|]; cbn; [apply Nat.ltb_lt; exact Hg|exact I]. }
    destruct (repeat_loop (mkd depth) depthRepeat node s) as [e|[n1 s1]] eqn:Er; [discriminate|].
    destruct (repeat_loop_shape (Pd depth) (mkd depth) (Hmk depth) _ _ _ _ _ Er) as (new1 & -> & Hf1 & Hlen1 & Hfin1 & _).
    destruct (IH _ _ _ _ _ E) as (new2 & -> & Hsh2 & Hne2).
    exists (new1 ++ new2). rewrite app_assoc. split; [reflexivity|]. split; [|auto].
    intros i l Hn. destruct (Nat.lt_ge_cases i (length new1)) as [Hi|Hi].
    + rewrite nth_error_app1 in Hn by exact Hi. rewrite div4_small by (unfold depthRepeat in Hlen1; lia). rewrite Nat.add_0_r.
      split; [exact Hallow|]. rewrite Forall_forall in Hf1. apply Hf1. eapply nth_error_In; eauto.
    + rewrite nth_error_app2 in Hn by exact Hi.
      assert (Hn2 : new2 <> []) by (intros ->; destruct (i - length new1)%nat; discriminate).
      assert (Hfull : length new1 = 4%nat).
      { specialize (Hne2 Hn2). destruct (Nat.lt_ge_cases (length new1) depthRepeat) as [H|H]; [rewrite (Hfin1 H) in Hne2; discriminate|].
        unfold depthRepeat in *. lia. }
      rewrite Hfull in *. destruct (Hsh2 _ _ Hn) as [Ha Hp].
      rewrite (div4_shift i Hi). replace (depth + S ((i - 4) / depthRepeat))%nat with (S depth + (i - 4) / depthRepeat)%nat by lia. auto.
Qed.

Lemma nth_error_map_fst {A B} (l : list (A * B)) i c : nth_error (map fst l) i = Some c -> exists x, nth_error l i = Some x /\ fst x = c.
Proof. rewrite nth_error_map. destruct (nth_error l i) as [x|]; cbn; [intros H; injection H as <-; eauto|discriminate]. Qed.

(* every tree fillTrickleRec returns, started on an empty node, has the trickle shape (whatever the fuel, when it returns at all) *)
Lemma trickle_rec_shape ml : 1 <= ml -> forall fuel md s t sz s', trickle_rec ml fuel md [] s = inr (t, sz, s') -> tshape fuel ml md t.
Proof.
  intros Hml. induction fuel as [|f IH]; intros md s t sz s' E; [discriminate|]. cbn [trickle_rec] in E.
  destruct (fill_loop_spec is_leaf leaf_mk ml (leaf_mk_spec is_leaf (fun d => I)) (N.to_nat ml) [] s ltac:(lia))
    as (new1 & s1 & E1 & [_ _ Hl1] & _ & Hle1 & _ & Hfull1).
  rewrite E1 in E. cbn [app] in *. cbn [length] in Hle1. specialize (Hle1 ltac:(lia)).
  destruct (depth_loop (fun d => trickle_rec ml f (Some d) []) (length (d_rest s1)) 1 md new1 s1) as [e|[n2 s2]] eqn:E2; [discriminate|].
  injection E as <- _ _.
  destruct (depth_loop_shape (fun j => tshape f ml (Some j)) _ md (fun j s0 c sz0 s3 H => IH (Some j) s0 c sz0 s3 H) _ _ _ _ _ _ E2)
    as (new2 & -> & Hsh & Hne).
  cbn [tshape]. exists (map fst new1), (map fst new2). rewrite map_app. split; [reflexivity|].
  split; [apply Forall_map; eapply Forall_impl; [|exact Hl1]; intros l (H & _); exact H|].
  rewrite map_length. split; [exact Hle1|]. split.
  - intros Hsub. assert (new2 <> []) by (intros ->; apply Hsub; reflexivity). specialize (Hne H).
    destruct Hfull1 as [Hd|Hd]; [congruence|lia].
  - intros i c Hn. apply nth_error_map_fst in Hn as (x & Hn & <-). destruct (Hsh _ _ Hn) as [Ha Hp]. cbn [Nat.add] in *. auto.
Qed.

Lemma trickle_layout_shape ml chunks : 1 <= ml -> tshape (S (length chunks)) ml None (layout_tree (trickle_layout ml chunks)).
Proof. intros Hml. unfold trickle_layout.
  destruct (trickle_rec_spec ml Hml (S (length chunks)) None [] (mkdb chunks [])) as (new & s' & E & _); [cbn; lia|lia|].
  rewrite E. cbn [layout_tree]. eapply trickle_rec_shape; eauto. Qed.

(* fan-out of a trickle node made with maxDepth m: at most maxlinks leaves and depthRepeat sub-trees for each depth below m *)
Lemma tshape_fanout fuel ml m ch : tshape fuel ml (Some m) (Node ch) -> N.of_nat (length ch) <= ml + 4 * N.of_nat (m - 1).
Proof.
  destruct fuel as [|f]; [intros []|]. cbn [tshape]. intros (lv & sub & E & _ & Hle & _ & Hsub).
  assert (Hlen : length ch = (length lv + length sub)%nat) by (rewrite <- (map_length fst ch), E, app_length; reflexivity).
  assert (Hs : (length sub <= 4 * (m - 1))%nat).
  { destruct (length sub) as [|n] eqn:En; [lia|].
    destruct (nth_error sub n) as [c|] eqn:Ec; [|apply nth_error_None in Ec; lia].
    destruct (Hsub n c Ec) as [Ha _]. cbn [depth_allowed] in Ha. unfold depthRepeat in Ha.
    pose proof (Nat.div_mod n 4 ltac:(lia)). pose proof (Nat.mod_upper_bound n 4 ltac:(lia)). lia. }
  lia.
Qed.
