(* C06 — the boolean monitors applied to the implementation's answers, tied to the statements, for every input.
   Cluster-wide view (Model/C06_GlobalCheck.v: codes 30, 31, 32): soundness (an accepted answer satisfies the Prop-level
   clause) and completeness (the model's own answer is accepted: check_case of a case carrying the model's answer is []).
   Tracker views (Model/C06_Check.v: codes 22, 23): the model's own observations pass, and what passing means. *)
From V Require Import Base.Common Base.CommonLemmas Model.C06_Global Model.C06_GlobalCheck Proofs.C06_Global.
Open Scope N_scope.

(* ---------- comparisons ---------- *)
Lemma pair_eqb_refl a : pair_eqb a a = true.
Proof. unfold pair_eqb. now rewrite !N.eqb_refl. Qed.
Lemma set_eqb_refl {A} (eqb : A -> A -> bool) (l : list A) : (forall a, eqb a a = true) -> set_eqb eqb l l = true.
Proof. intros H. unfold set_eqb. rewrite Nat.eqb_refl. cbn [andb].
  assert (F : forallb (fun a => existsb (eqb a) l) l = true).
  { apply forallb_forall. intros a Ha. apply existsb_exists. exists a. auto. }
  now rewrite F. Qed.
Lemma entry_eqb_refl a : entry_eqb a a = true.
Proof. unfold entry_eqb. rewrite N.eqb_refl. apply set_eqb_refl, pair_eqb_refl. Qed.

Lemma honest_b_iff l : honest_b l = true <-> honest l.
Proof. unfold honest_b, honest. rewrite forallb_forall. split.
  - intros H d r Hin. specialize (H _ Hin). cbn in H. destruct r; auto. now apply N.eqb_eq in H.
  - intros H [d r] Hin. specialize (H d r Hin). cbn. destruct r; auto. now apply N.eqb_eq. Qed.
Lemma shown_b_eq r : shown_b r = shown r. Proof. reflexivity. Qed.
Lemma optN_eqb_iff a b : optN_eqb a b = true <-> a = b.
Proof. destruct a, b; cbn; try (split; congruence). rewrite N.eqb_eq. split; congruence. Qed.

Lemma aget_in_keys {V} k (m : list (N * V)) : In k (akeys m) -> aget k m <> None.
Proof. induction m as [|[k' v] r IH]; simpl; [tauto|]. destruct (N.eqb_spec k k'); [discriminate|]. intros [E|H]; [congruence|auto]. Qed.
Lemma aget_some_in {V} k (v : V) m : aget k m = Some v -> In (k, v) m.
Proof. induction m as [|[k' v'] r IH]; simpl; [discriminate|]. destruct (N.eqb_spec k k') as [->|]; [intros H; injection H as ->; now left | auto]. Qed.
Lemma in_aget_nodup {V} k (v : V) m : NoDup (akeys m) -> In (k, v) m -> aget k m = Some v.
Proof. induction m as [|[k' v'] r IH]; simpl; intros Hn Hin; [destruct Hin|]. inversion Hn as [|? ? Hni Hnd]; subst.
  destruct Hin as [E|Hin].
  - injection E as -> ->. now rewrite N.eqb_refl.
  - destruct (N.eqb_spec k k') as [->|]; [|auto]. exfalso. apply Hni. apply in_map_iff. exists (k', v). auto. Qed.

(* ---------- one cid ---------- *)
(* what the answer for a pinned cid must look like (replies in the order of the allocation list) *)
Definition view_spec (members : list N) (g : gpin) (replies : list reply) (obs : list (N * N)) : Prop :=
  (forall d r, In (d, r) (combine (g_alloc g) replies) -> aget d obs = shown r) /\
  (forall m, In m members -> ~ In m (g_alloc g) -> aget m obs = Some 256) /\
  (forall x, In x (akeys obs) -> In x members \/ In x (g_alloc g)).

Theorem view_ok_sound members g replies obs :
  g_every g = false -> NoDup (g_alloc g) -> honest (combine (g_alloc g) replies) ->
  view_ok members g replies obs = true -> view_spec members g replies obs.
Proof. intros He Nd Hh H. unfold view_ok in H. cbv zeta in H.
  rewrite He, (proj2 (nodupb_NoDup _) Nd), (proj2 (honest_b_iff _) Hh) in H. cbn [negb andb] in H.
  rewrite !andb_true_iff, !forallb_forall in H. destruct H as [[H1 H2] H3]. split; [|split].
  - intros d r Hin. specialize (H1 _ Hin). cbn in H1. now apply optN_eqb_iff in H1.
  - intros m Hm Hn. specialize (H2 m Hm). apply memN_false in Hn. rewrite Hn in H2. now apply optN_eqb_iff in H2.
  - intros x Hx. apply in_map_iff in Hx. destruct Hx as [[k v] [E Hin]]. cbn in E. subst k.
    specialize (H3 _ Hin). cbn in H3. apply orb_true_iff in H3. destruct H3 as [H3|H3]; apply memN_in in H3; auto. Qed.

Theorem view_ok_complete self members g replies :
  view_ok members g replies (global_cid self false members (Some g) replies) = true.
Proof. unfold view_ok. cbv zeta.
  destruct (negb (g_every g) && nodupb (g_alloc g) && honest_b (combine (g_alloc g) replies)) eqn:C; [|reflexivity].
  rewrite !andb_true_iff in C. destruct C as [[C1 C2] C3]. apply negb_true_iff in C1. apply nodupb_NoDup in C2. apply honest_b_iff in C3.
  destruct (global_cid_view self members g replies C1 C2 C3) as [V1 [V2 V3]].
  rewrite !andb_true_iff, !forallb_forall. split; [split|].
  - intros [d r] Hin. cbn. apply optN_eqb_iff. rewrite shown_b_eq. now apply V1.
  - intros m Hm. destruct (memN m (g_alloc g)) eqn:M; [reflexivity|]. apply optN_eqb_iff. apply V2; auto. now apply memN_false.
  - intros [k v] Hin. cbn. destruct (memN k members) eqn:M1; [reflexivity|]. destruct (memN k (g_alloc g)) eqn:M2; [reflexivity|].
    exfalso. apply memN_false in M1, M2. specialize (V3 k M1 M2).
    apply (aget_in_keys k (global_cid self false members (Some g) replies)); auto. apply in_map_iff. exists (k, v). auto. Qed.

(* the whole case with the model's answer in the place of the observation *)
Theorem gcid_model_passes_l id self follower members pin replies :
  check_case (id, GCid self follower members pin replies (global_cid self follower members pin replies)) = [].
Proof. cbn [check_case]. rewrite (set_eqb_refl pair_eqb _ pair_eqb_refl).
  rewrite (proj2 (nodupb_NoDup _) (global_cid_once_l self follower members pin replies)). cbn [app].
  destruct follower; [destruct pin; reflexivity|]. cbn [orb]. destruct pin as [g|].
  - now rewrite view_ok_complete.
  - assert (F : forallb (fun m => optN_eqb (aget m (global_cid self false members None replies)) (Some 128)) members = true).
    { apply forallb_forall. intros m Hm. apply optN_eqb_iff. now apply global_cid_unpinned. }
    now rewrite F. Qed.

(* what the absence of a code means for one cid *)
Theorem gcid_monitor_sound_l id self follower members pin replies obs :
  (forall k t, In (id, k, t) (check_case (id, GCid self follower members pin replies obs)) -> k = 1) ->
  NoDup (akeys obs) /\
  (follower = false ->
     match pin with
     | Some g => g_every g = false -> NoDup (g_alloc g) -> honest (combine (g_alloc g) replies) -> view_spec members g replies obs
     | None => forall m, In m members -> aget m obs = Some 128 end).
Proof. intros H. cbn [check_case] in H. split.
  - destruct (nodupb (akeys obs)) eqn:E; [now apply nodupb_NoDup|]. exfalso.
    assert (K : 30 = 1); [|discriminate]. apply (H 30 0). apply in_or_app. right. apply in_or_app. left. now left.
  - intros ->. cbn [orb] in H. destruct pin as [g|].
    + intros He Nd Hh. destruct (view_ok members g replies obs) eqn:E; [now apply view_ok_sound|]. exfalso.
      assert (K : 31 = 1); [|discriminate]. apply (H 31 0). apply in_or_app. right. apply in_or_app. right. now left.
    + destruct (forallb (fun m => optN_eqb (aget m obs) (Some 128)) members) eqn:E.
      * rewrite forallb_forall in E. intros m Hm. now apply optN_eqb_iff, E.
      * exfalso. assert (K : 31 = 1); [|discriminate]. apply (H 31 0). apply in_or_app. right. apply in_or_app. right. now left. Qed.

(* ---------- the listing ---------- *)
Definition entry_of (fm : list (N * list (N * N))) (c : N) : list (N * N) := match aget c fm with Some m => m | None => [] end.
Definition inner (p : N) (ks : list N) (fm : list (N * list (N * N))) := fold_left (fun fm c => add_info fm c p 2) ks fm.

Lemma add_info_get fm c p stb c' :
  aget c' (add_info fm c p stb) = if N.eqb c' c then Some (aput p stb (entry_of fm c)) else aget c' fm.
Proof. unfold add_info, entry_of. destruct (N.eqb_spec c' c) as [->|Hn]; [apply aget_aput_same | now apply aget_aput_other]. Qed.

(* after writing cluster_error for peer p into the entries of the cids ks: those entries exist and carry it, every other
   peer's value is as before, nothing else changes *)
Lemma inner_spec p ks : forall fm c,
  (aget c (inner p ks fm) = None <-> aget c fm = None /\ ~ In c ks) /\
  (forall q, aget q (entry_of (inner p ks fm) c) =
             if memN c ks && N.eqb q p then Some 2 else aget q (entry_of fm c)).
Proof. induction ks as [|k r IH]; intros fm c; cbn [inner fold_left].
  - split; [cbn; tauto|]. intros q. reflexivity.
  - fold (inner p r (add_info fm k p 2)). destruct (IH (add_info fm k p 2) c) as [I1 I2]. split.
    + rewrite I1, add_info_get. destruct (N.eqb_spec c k) as [->|Hn].
      * split; [intros [H _]; discriminate | intros [_ H]; exfalso; apply H; now left].
      * cbn [In]. split; [intros [A B]; split; auto; intros [E|E]; [congruence|auto] | intros [A B]; split; auto].
    + intros q. rewrite I2.
      assert (E : aget q (entry_of (add_info fm k p 2) c) =
                  if N.eqb c k then (if N.eqb q p then Some 2 else aget q (entry_of fm k)) else aget q (entry_of fm c)).
      { unfold entry_of at 1. rewrite add_info_get. destruct (N.eqb_spec c k) as [->|Hn]; [|reflexivity].
        destruct (N.eqb_spec q p) as [->|Hq]; [now rewrite aget_aput_same | now rewrite aget_aput_other]. }
      rewrite E. cbn [memN existsb]. fold (memN c r). destruct (N.eqb_spec c k) as [->|Hn]; cbn [orb]; [|reflexivity].
      destruct (memN k r); cbn [andb]; destruct (N.eqb q p); reflexivity. Qed.

Definition estep (fm : list (N * list (N * N))) (p : N) := inner p (akeys fm) fm.
Definition good (p : N) (fm : list (N * list (N * N))) : Prop := forall c m, aget c fm = Some m -> aget p m = Some 2.

Lemma in_keys_aget {V} k (m : list (N * V)) : aget k m <> None -> In k (akeys m).
Proof. induction m as [|[k' v] r IH]; simpl; [congruence|]. destruct (N.eqb_spec k k'); [now left | right; auto]. Qed.

Lemma estep_good p fm : good p (estep fm p).
Proof. intros c m H. unfold estep in H. destruct (inner_spec p (akeys fm) fm c) as [I1 I2].
  specialize (I2 p). unfold entry_of at 1 in I2. rewrite H in I2. rewrite I2, N.eqb_refl, andb_true_r.
  destruct (memN c (akeys fm)) eqn:M; [reflexivity|]. exfalso. apply memN_false in M.
  assert (aget c (inner p (akeys fm) fm) = None) as K; [|congruence]. apply I1. split; auto.
  destruct (aget c fm) eqn:G; auto. exfalso. apply M. apply in_keys_aget. congruence. Qed.
Lemma estep_keeps p p' fm : good p fm -> good p (estep fm p').
Proof. intros G c m H. unfold estep in H. destruct (inner_spec p' (akeys fm) fm c) as [I1 I2].
  specialize (I2 p). unfold entry_of at 1 in I2. rewrite H in I2. rewrite I2.
  destruct (memN c (akeys fm) && N.eqb p p'); [reflexivity|]. unfold entry_of. destruct (aget c fm) as [m0|] eqn:G0; [now apply (G c m0)|].
  exfalso. assert (aget c (inner p' (akeys fm) fm) = None) as K; [|congruence]. apply I1. split; auto.
  intros Hin. apply (aget_in_keys c fm); auto. Qed.

Lemma fold_estep_good p errs : forall fm, good p fm \/ In p errs -> good p (fold_left estep errs fm).
Proof. induction errs as [|q r IH]; intros fm H; cbn [fold_left].
  - destruct H as [H|[]]. exact H.
  - apply IH. destruct H as [H|[->|H]]; [left; now apply estep_keeps | left; apply estep_good | now right]. Qed.

(* a member that could not be asked shows cluster_error under every listed cid *)
Theorem slice_errored_l (self : N) (follower : bool) (members : list N) (replies : list sreply) (m c : N) (e : list (N * N)) :
  In (m, SErr) (combine (if follower then [self] else members) replies) ->
  aget c (global_slice self follower members replies) = Some e -> aget m e = Some 2.
Proof. intros Hin H. unfold global_slice in H. cbv zeta in H.
  set (mrs := combine (if follower then [self] else members) replies) in *.
  change (fold_left (fun fm p => fold_left (fun fm c => add_info fm c p 2) (akeys fm) fm) (errored_of mrs) (fold_left add_sreply mrs []))
    with (fold_left estep (errored_of mrs) (fold_left add_sreply mrs [])) in H.
  apply (fold_estep_good m (errored_of mrs) (fold_left add_sreply mrs [])) with (c := c); auto.
  right. unfold errored_of. apply in_flat_map. exists (m, SErr). split; auto. now left. Qed.

Theorem gslice_model_passes_l id self follower members replies :
  check_case (id, GSlice self follower members replies (global_slice self follower members replies)) = [].
Proof. cbn [check_case]. rewrite (set_eqb_refl entry_eqb _ entry_eqb_refl).
  destruct (global_slice_ok self follower members replies) as [A B].
  rewrite (proj2 (nodupb_NoDup _) A). cbn [app andb].
  assert (F1 : forallb (fun e => nodupb (akeys (snd e))) (global_slice self follower members replies) = true).
  { apply forallb_forall. intros [c m] Hin. cbn. apply nodupb_NoDup. apply (B c m). now apply in_aget_nodup. }
  rewrite F1. cbn [app].
  assert (F2 : forallb (fun mr => match snd mr with
                                  | SErr => forallb (fun e => optN_eqb (aget (fst mr) (snd e)) (Some 2)) (global_slice self follower members replies)
                                  | _ => true end) (combine (if follower then [self] else members) replies) = true).
  { apply forallb_forall. intros [m r] Hin. cbn. destruct r; auto. apply forallb_forall. intros [c e] He. cbn.
    apply optN_eqb_iff. apply (slice_errored_l self follower members replies m c e Hin). now apply in_aget_nodup. }
  now rewrite F2. Qed.

Theorem gslice_monitor_sound_l id self follower members replies obs :
  (forall k t, In (id, k, t) (check_case (id, GSlice self follower members replies obs)) -> k = 1) ->
  NoDup (akeys obs) /\ (forall c e, In (c, e) obs -> NoDup (akeys e)) /\
  (forall m c e, In (m, SErr) (combine (if follower then [self] else members) replies) -> In (c, e) obs -> aget m e = Some 2).
Proof. intros H. cbn [check_case] in H.
  assert (H30 : nodupb (akeys obs) && forallb (fun e => nodupb (akeys (snd e))) obs = true).
  { match type of H with context [if ?b then [] else [(id, 30, 0)]] => destruct b eqn:E end; [reflexivity|]. exfalso.
    assert (K : 30 = 1); [|discriminate]. apply (H 30 0). apply in_or_app. right. apply in_or_app. left. now left. }
  apply andb_true_iff in H30. destruct H30 as [A B]. split; [now apply nodupb_NoDup|]. split.
  - intros c e Hin. rewrite forallb_forall in B. apply nodupb_NoDup. exact (B _ Hin).
  - intros m c e Hm He.
    match type of H with context [if ?b then [] else [(id, 32, 0)]] => destruct b eqn:E end.
    + rewrite forallb_forall in E. specialize (E _ Hm). cbn in E. rewrite forallb_forall in E. specialize (E _ He). cbn in E. now apply optN_eqb_iff.
    + exfalso. assert (K : 32 = 1); [|discriminate]. apply (H 32 0). apply in_or_app. right. apply in_or_app. right. now left. Qed.
