(* C18 — general theorems about the interleaving machine: mutual exclusion is an invariant of every
   interleaving; disciplined programs never race (lockset_drf); programs that acquire locks along a
   strict order and release what they hold never reach a lock deadlock (acyclic_no_lock_deadlock). *)
From V Require Import Model.C18_Conc.
From Coq Require Import Lia.

Lemma in_rm1 h x s : In x (rm1 h s) -> In x s.
Proof. induction s as [|y ys IH]; simpl; auto. destruct (hl_eqb h y); simpl; intuition. Qed.

Lemma scan_snoc p e : scan (p ++ [e]) = upd (scan p) e.
Proof. unfold scan. now rewrite fold_left_app. Qed.

Lemma in_upd x s e : In x (upd s e) ->
  In x s \/ (exists l, e = Acq l /\ x = (l, true)) \/ (exists l, e = RAcq l /\ x = (l, false)).
Proof.
  destruct e; simpl; intros H; auto.
  - destruct H as [<-|H]; eauto.
  - left; eapply in_rm1; eauto.
  - destruct H as [<-|H]; eauto.
  - left; eapply in_rm1; eauto.
Qed.

(* mutual exclusion: a lock held exclusively by one thread is held in no mode by any other *)
Definition mutex (s : st) : Prop := forall i j l, i <> j -> holds_excl (done_ (s i)) l -> ~ holds_any (done_ (s j)) l.

Lemma mutex_step s s' : mutex s -> step s s' -> mutex s'.
Proof.
  intros M St. destruct St as [s i e rest Ht En].
  intros a b l Hab Ha Hb. unfold set in *.
  destruct (Nat.eqb_spec a i) as [->|Hai]; destruct (Nat.eqb_spec b i) as [->|Hbi]; simpl in *; try congruence.
  - unfold holds_excl in Ha. rewrite scan_snoc in Ha. apply in_upd in Ha.
    destruct Ha as [Ha|[[l' [-> Hx]]|[l' [-> Hx]]]].
    + exact (M i b l Hab Ha Hb).
    + inversion Hx; subst. exact (En b Hbi Hb).
    + inversion Hx.
  - unfold holds_any in Hb. rewrite scan_snoc in Hb.
    destruct Hb as [Hb|Hb]; apply in_upd in Hb;
      destruct Hb as [Hb|[[l' [-> Hx]]|[l' [-> Hx]]]]; try (inversion Hx; subst).
    + exact (M a i l Hab Ha (or_introl Hb)).
    + exact (En a Hai (or_introl Ha)).
    + exact (M a i l Hab Ha (or_intror Hb)).
    + exact (En a Hai Ha).
  - exact (M a b l Hab Ha Hb).
Qed.

Lemma mutex_reach s0 s : init_ok s0 -> reach s0 s -> mutex s.
Proof.
  intros I R. induction R as [|s s' R IH St].
  - intros i j l _ H. unfold holds_excl in H. rewrite (I i) in H. inversion H.
  - eapply mutex_step; eauto.
Qed.

Lemma prog_inv_reach progs s0 s : prog_inv progs s0 -> reach s0 s -> prog_inv progs s.
Proof.
  intros P R. induction R as [|s s' R IH St]; auto. destruct St as [s i e rest Ht En].
  intros j. unfold set. destruct (Nat.eqb_spec j i) as [->|]; simpl; auto.
  rewrite <- app_assoc. simpl. rewrite <- Ht. apply IH.
Qed.

Lemma string_eqb_true a b : String.eqb a b = true -> a = b.
Proof. apply String.eqb_eq. Qed.

Lemma loc_eqb_true x y : loc_eqb x y = true -> x = y.
Proof.
  destruct x as [o [[t f] c]], y as [o' [[t' f'] c']]. unfold loc_eqb, xname_eqb. simpl. intros H.
  apply andb_true_iff in H. destruct H as [H1 H]. apply andb_true_iff in H. destruct H as [H H4].
  apply andb_true_iff in H. destruct H as [H2 H3].
  apply N.eqb_eq in H1. apply string_eqb_true in H2. apply string_eqb_true in H3. apply Bool.eqb_prop in H4.
  now subst.
Qed.

Lemma lockset_drf_l (guard : loc -> option lock) (progs : nat -> list ev) s0 s :
  init_ok s0 -> prog_inv progs s0 -> (forall i, disciplined guard (progs i)) ->
  reach s0 s -> ~ race s.
Proof.
  intros I P D R [i [j [e1 [r1 [e2 [r2 [x [Hij [H1 [H2 Hc]]]]]]]]]].
  pose proof (mutex_reach _ _ I R) as M.
  pose proof (prog_inv_reach _ _ _ P R) as PI.
  assert (G1 : guarded guard (done_ (s i)) e1) by (eapply (D i); rewrite (PI i), H1; reflexivity).
  assert (G2 : guarded guard (done_ (s j)) e2) by (eapply (D j); rewrite (PI j), H2; reflexivity).
  destruct e1 as [| | | |x1|x1], e2 as [| | | |x2|x2]; simpl in Hc; try discriminate;
    destruct (loc_eqb x1 x2) eqn:E; try discriminate; apply loc_eqb_true in E; subst x2; simpl in G1, G2;
    destruct (guard x1) as [g|]; try contradiction.
  - exact (M j i g (not_eq_sym Hij) G2 G1).
  - exact (M i j g Hij G1 G2).
  - exact (M i j g Hij G1 (or_introl G2)).
Qed.

(* ------------------------------------------------------------------------------------------- *)
(* deadlock freedom under a strict lock order *)

Lemma waited_acq t l r : todo t = Acq l :: r -> waited t = Some l.
Proof. unfold waited. now intros ->. Qed.
Lemma waited_racq t l r : todo t = RAcq l :: r -> waited t = Some l.
Proof. unfold waited. now intros ->. Qed.

Lemma dec_some (f : nat -> option nat) n :
  (exists i, i < n /\ f i <> None) \/ (forall i, i < n -> f i = None).
Proof.
  induction n as [|n IH].
  - right. intros i Hi. lia.
  - destruct IH as [[i [Hi Hf]]|Hnone].
    + left. exists i. split; auto.
    + destruct (f n) eqn:Fn.
      * left. exists n. split; auto. congruence.
      * right. intros i Hi. destruct (Nat.eq_dec i n) as [->|]; auto. apply Hnone. lia.
Qed.

(* among finitely many threads with a waited-for lock, one waits for a lock of maximal rank *)
Lemma max_waiter (f : nat -> option nat) n :
  (exists i, i < n /\ f i <> None) ->
  exists i m, i < n /\ f i = Some m /\ forall j m', j < n -> f j = Some m' -> m' <= m.
Proof.
  induction n as [|n IH]; intros [i [Hi Hf]]; [lia|].
  destruct (f n) as [mn|] eqn:Fn.
  - destruct (dec_some f n) as [Hex|Hnone].
    + destruct (IH Hex) as [k [m [Hk [Fk Hmax]]]].
      destruct (le_lt_dec mn m).
      * exists k, m. split; [lia|]. split; auto. intros j m' Hj Fj.
        destruct (Nat.eq_dec j n) as [->|]; [rewrite Fn in Fj; inversion Fj; subst; auto|].
        apply (Hmax j); auto; lia.
      * exists n, mn. split; [lia|]. split; auto. intros j m' Hj Fj.
        destruct (Nat.eq_dec j n) as [->|]; [rewrite Fn in Fj; inversion Fj; subst; auto|].
        assert (m' <= m) by (apply (Hmax j); auto; lia). lia.
    + exists n, mn. split; [lia|]. split; auto. intros j m' Hj Fj.
      destruct (Nat.eq_dec j n) as [->|]; [rewrite Fn in Fj; inversion Fj; subst; auto|].
      exfalso. assert (Hj' : j < n) by lia. rewrite (Hnone j Hj') in Fj. discriminate.
  - assert (Hin : i < n) by (destruct (Nat.eq_dec i n) as [->|]; [congruence|lia]).
    destruct (IH (ex_intro _ i (conj Hin Hf))) as [k [m [Hk [Fk Hmax]]]].
    exists k, m. split; [lia|]. split; auto. intros j m' Hj Fj.
    destruct (Nat.eq_dec j n) as [->|]; [congruence|]. apply (Hmax j); auto; lia.
Qed.

Lemma acyclic_no_lock_deadlock_l (rank : lname -> nat) (progs : nat -> list ev) n s0 s :
  init_ok s0 -> prog_inv progs s0 ->
  (forall i, ordered rank (progs i)) -> (forall i, balanced (progs i)) ->
  (forall i, n <= i -> progs i = []) ->
  reach s0 s -> ~ deadlocked n s.
Proof.
  intros I P O B Idle R [[i0 [Hi0 Hu0]] Hall].
  pose proof (prog_inv_reach _ _ _ P R) as PI.
  assert (Small : forall j, todo (s j) <> [] -> j < n).
  { intros j Hu. destruct (le_lt_dec n j) as [Hge|]; auto. exfalso.
    pose proof (Idle j Hge) as E. rewrite (PI j) in E. apply app_eq_nil in E. destruct E as [_ E]. contradiction. }
  assert (Hold : forall j l b, In (l, b) (scan (done_ (s j))) -> todo (s j) <> []).
  { intros j l b Hin E. pose proof (B j) as Bj. unfold balanced in Bj.
    rewrite (PI j), E, app_nil_r in Bj. rewrite Bj in Hin. inversion Hin. }
  set (f := fun i => match waited (s i) with Some l => Some (rank (snd l)) | None => None end).
  (* whoever holds a lock waits for a lock of strictly higher rank *)
  assert (Higher : forall j l b, In (l, b) (scan (done_ (s j))) ->
            exists m, j < n /\ f j = Some m /\ rank (snd l) < m).
  { intros j l b Hin. pose proof (Hold _ _ _ Hin) as Hu. pose proof (Small _ Hu) as Hj.
    pose proof (Hall j Hj Hu) as St. unfold stuck in St.
    destruct (todo (s j)) as [|[l'|l'|l'|l'|x|x] r] eqn:T; try contradiction.
    - exists (rank (snd l')). split; auto. split.
      + unfold f. now rewrite (waited_acq _ _ _ T).
      + apply (O j (done_ (s j)) l' r (or_introl (eq_trans (PI j) (f_equal _ T))) (l, b) Hin).
    - exists (rank (snd l')). split; auto. split.
      + unfold f. now rewrite (waited_racq _ _ _ T).
      + apply (O j (done_ (s j)) l' r (or_intror (eq_trans (PI j) (f_equal _ T))) (l, b) Hin). }
  assert (Hex : exists i, i < n /\ f i <> None).
  { exists i0. split; auto. pose proof (Hall i0 Hi0 Hu0) as St. unfold stuck in St. unfold f, waited.
    destruct (todo (s i0)) as [|[l'|l'|l'|l'|x|x] r]; try contradiction; discriminate. }
  destruct (max_waiter f n Hex) as [k [m [Hk [Fk Hmax]]]].
  assert (Hku : todo (s k) <> []).
  { intros E. unfold f, waited in Fk. rewrite E in Fk. discriminate. }
  pose proof (Hall k Hk Hku) as St. unfold stuck in St. unfold f, waited in Fk.
  destruct (todo (s k)) as [|[lk|lk|lk|lk|x|x] r] eqn:T; try contradiction.
  - inversion Fk; subst m. destruct St as [j [Hjk [Hh|Hh]]];
      destruct (Higher _ _ _ Hh) as [m' [Hj [Fj Hlt]]]; pose proof (Hmax j m' Hj Fj); lia.
  - inversion Fk; subst m. destruct St as [j [Hjk [Hh|[r' Tj]]]].
    + destruct (Higher _ _ _ Hh) as [m' [Hj [Fj Hlt]]]. pose proof (Hmax j m' Hj Fj). lia.
    + assert (Hju : todo (s j) <> []) by (rewrite Tj; discriminate).
      pose proof (Hall j (Small _ Hju) Hju) as Stj. unfold stuck in Stj. rewrite Tj in Stj.
      destruct Stj as [j2 [_ [Hh|Hh]]];
        destruct (Higher _ _ _ Hh) as [m' [Hj2 [Fj2 Hlt]]]; pose proof (Hmax j2 m' Hj2 Fj2); lia.
Qed.

(* non-vacuity: undisciplined threads do race in this machine *)
Lemma machine_can_race_l : exists s, race s.
Proof.
  pose (x := (0%N, ("T"%string, "f"%string, false)) : loc).
  exists (fun i => match i with 0 => {| done_ := []; todo := [Wr x] |} | 1 => {| done_ := []; todo := [Rd x] |}
                    | _ => {| done_ := []; todo := [] |} end).
  exists 0, 1, (Wr x), [], (Rd x), [], x. repeat split; auto.
Qed.
