(* C02 layer A, the queue in time — lemmas about Model/C02_BatchQueue.v: an accepted operation waits in the queue at most
   qcap * (lt + lc), hence stays uncommitted at most that plus max_age + lf + lw. *)
From V Require Import Base.Common Model.C02_Batch Model.C02_BatchTime Model.C02_BatchQueue Proofs.C02_Batch Proofs.C02_BatchTime.
Open Scope N_scope.

Section QueueLemmas.
Context {A : Type}.
Implicit Types (s : tbst A) (q : qinfo) (te : cev A) (c : tcfg) (tes : list (cev A)) (sq : tbst A * qinfo).

Lemma fst_qstep c sq te : fst (qstep c sq te) = tstep c (fst sq) te.
Proof. destruct sq as [s q]. reflexivity. Qed.

Lemma fst_qrun_from c tes : forall sq, fst (fold_left (qstep c) tes sq) = trun_from c (fst sq) tes.
Proof. induction tes as [|te r IH]; intros sq; simpl; [reflexivity|]. rewrite IH, fst_qstep. reflexivity. Qed.

Lemma fst_qrun c tes : fst (qrun c tes : tbst A * qinfo) = trun c tes.
Proof. unfold qrun. now rewrite fst_qrun_from. Qed.

Lemma timely_all_from lf lw lt lc c tes : forall sq, timely_all lf lw lt lc c sq tes = true -> timely_from lf lw c (fst sq) tes = true.
Proof.
  induction tes as [|te r IH]; intros sq H; cbn [timely_all timely_from] in *.
  - apply andb_true_iff in H. destruct H as [H _]. apply andb_true_iff in H. destruct H as [H _]. now rewrite H.
  - apply andb_true_iff in H. destruct H as [H H2]. apply andb_true_iff in H. destruct H as [H _]. rewrite H. cbn [andb].
    rewrite <- fst_qstep. now apply IH.
Qed.

(* F + j*sg <= a_j + C for the j-th queued operation, j counted from j0 *)
Fixpoint qok (F sg C j0 : N) (l : list N) : Prop :=
  match l with [] => True | a :: r => F + j0 * sg <= a + C /\ qok F sg C (j0 + 1) r end.

Lemma qok_mono F F' sg C l : F' <= F -> forall j0, qok F sg C j0 l -> qok F' sg C j0 l.
Proof. intros H. induction l as [|a r IH]; intros j0; simpl; auto. intros [H1 H2]. split; [lia|auto]. Qed.

Lemma qok_app F sg C l a : forall j0, qok F sg C j0 l -> F + (j0 + N.of_nat (length l)) * sg <= a + C -> qok F sg C j0 (l ++ [a]).
Proof.
  induction l as [|x r IH]; intros j0 H1 H2; simpl in *.
  - rewrite N.add_0_r in H2. auto.
  - destruct H1 as [H1 H3]. split; [exact H1|]. apply IH; [exact H3|].
    replace (j0 + 1 + N.of_nat (length r)) with (j0 + N.pos (Pos.of_succ_nat (length r))) by lia. exact H2.
Qed.

Lemma qok_In F sg C l : forall j0 a, qok F sg C j0 l -> In a l -> F <= a + C.
Proof.
  induction l as [|x r IH]; intros j0 a H Hin; simpl in *; [destruct Hin|]. destruct H as [H1 H2]. destruct Hin as [<-|Hin].
  - assert (0 <= j0 * sg) by lia. lia.
  - eapply IH; eauto.
Qed.

(* after the head is taken: F' <= max(F, a0) + sg, every remaining a is >= a0, indices shift down *)
Lemma qok_shift F F' sg C a0 l : F' <= N.max F a0 + sg ->
  (forall a, In a l -> a0 <= a) -> forall j0, qok F sg C (j0 + 1) l -> (j0 + N.of_nat (length l)) * sg <= C ->
  qok F' sg C j0 l.
Proof.
  intros HF HS. induction l as [|a r IH]; intros j0 H HL; simpl in *; auto.
  destruct H as [H1 H2]. split.
  - assert (a0 <= a) by (apply HS; now left).
    assert (E1 : (j0 + 1) * sg <= (j0 + N.pos (Pos.of_succ_nat (length r))) * sg) by (apply N.mul_le_mono_r; lia).
    assert (E2 : (j0 + 1) * sg = j0 * sg + sg) by lia.
    destruct (N.max_spec F a0) as [[_ E]|[_ E]]; rewrite E in HF; lia.
  - apply IH; [intros x Hx; apply HS; now right|exact H2|].
    replace (j0 + 1 + N.of_nat (length r)) with (j0 + N.pos (Pos.of_succ_nat (length r))) by lia. exact HL.
Qed.

(* how one step changes what the observer looks at *)
Inductive shape (c : tcfg) (b b' : bst A) : Prop :=
| ShSame : queue b' = queue b -> (pend b' = pend b \/ pend b' = []) ->
           (pc b' = pc b \/ (pc b = PCommit /\ pc b' = PIdle)) -> shape c b b'
| ShEnq it : queue b' = queue b ++ [it] -> pend b' = pend b -> pc b' = pc b ->
             N.of_nat (length (queue b)) < qcap (tc c) -> shape c b b'
| ShTake it (rest : list A) : queue b = it :: rest -> queue b' = rest -> pc b = PIdle ->
                 (pend b' = pend b ++ [it] \/ pend b' = pend b) -> shape c b b'.

Lemma bstep_shape c (b : bst A) e : blocked b = false -> shape c b (bstep (tc c) b e).
Proof.
  intros B. destruct e as [it|ok|ok| |ok|it|sk]; cbn [bstep].
  - destruct (N.ltb_spec (N.of_nat (length (queue b))) (qcap (tc c))).
    + eapply ShEnq; cbn; eauto.
    + apply ShSame; cbn; auto.
  - rewrite B. destruct (pc b) eqn:PC; [|apply ShSame; auto]. destruct (queue b) as [|it q] eqn:Q; [apply ShSame; rewrite ?Q; auto|].
    destruct ok; eapply ShTake; cbn; eauto.
  - rewrite B. destruct (pc b) eqn:PC; [apply ShSame; auto|]. destruct ok.
    + destruct (t_stop_drain (tm b)) as [t2 blk]. apply ShSame; cbn; auto.
    + apply ShSame; cbn; auto.
  - apply ShSame; cbn; auto.
  - rewrite B. destruct (pc b) eqn:PC; [|apply ShSame; auto]. destruct (t_chan (tm b)); [|apply ShSame; rewrite ?PC; auto].
    destruct (fixed_S28 (tc c) && (cur b =? 0)); [apply ShSame; cbn; auto|].
    destruct ok; apply ShSame; cbn; auto.
  - apply ShSame; cbn; auto.
  - rewrite B. destruct (pc b) eqn:PC; [|apply ShSame; auto]. destruct (queue b) eqn:Q; [|apply ShSame; rewrite ?Q; auto].
    destruct (fixed_S35 (tc c) && (0 <? cur b) && sk); apply ShSame; cbn; rewrite ?Q, ?PC; auto.
Qed.

Lemma tstep_shape c s te : reset_every_item c = false -> blocked (core s) = false -> shape c (core s) (core (tstep c s te)).
Proof.
  intros R B. rewrite (core_tstep c s te R). destruct (untime_ev s te) as [e|]; [now apply bstep_shape|].
  apply ShSame; auto.
Qed.

Lemma now_tstep c s te : now (ti s) <= now (ti (tstep c s te)) /\ (forall e, te = Ev e -> now (ti (tstep c s te)) = now (ti s)).
Proof.
  destruct te as [dt|e]; cbn [tstep]; [cbn; split; [lia|intros e E; discriminate]|].
  split; [|intros e0 _].
  all: destruct e as [it|ok|ok| |ok|it|sk]; cbn [tstep];
    repeat match goal with |- context [if ?x then _ else _] => destruct x end;
    repeat match goal with |- context [match ?x with _ => _ end] => destruct x end; cbn; try lia; try reflexivity.
Qed.

Lemma ptimes_tstep c s te :
  ptimes (ti (tstep c s te)) = ptimes (ti s) \/ ptimes (ti (tstep c s te)) = ptimes (ti s) ++ [now (ti s)] \/ ptimes (ti (tstep c s te)) = [].
Proof.
  destruct te as [dt|e]; [left; reflexivity|].
  destruct e as [it|ok|ok| |ok|it|sk]; cbn [tstep];
    repeat match goal with |- context [if ?x then _ else _] => destruct x end;
    repeat match goal with |- context [match ?x with _ => _ end] => destruct x end; cbn; auto.
Qed.

Fixpoint nondec (l : list N) : Prop :=
  match l with
  | a :: r => match r with b :: _ => a <= b | [] => True end /\ nondec r
  | [] => True
  end.
Lemma nondec_hd a0 r : nondec (a0 :: r) -> forall a, In a r -> a0 <= a.
Proof.
  revert a0. induction r as [|b r IH]; intros a0 H a Ha; [destruct Ha|].
  destruct H as [H1 H2]. destruct Ha as [<-|Ha]; [exact H1|]. specialize (IH b H2 a Ha). lia.
Qed.
Lemma nondec_app l x : nondec l -> (forall a, In a l -> a <= x) -> nondec (l ++ [x]).
Proof.
  induction l as [|a r IH]; intros H B; simpl; [auto|]. destruct H as [H1 H2]. split.
  - destruct r as [|b r']; simpl; [apply B; now left|exact H1].
  - apply IH; [exact H2|intros y Hy; apply B; now right].
Qed.

(* ---- the invariant ---- *)
Section Inv.
Variables (lt lc : N) (c : tcfg).
Let sg := lt + lc.
Let C := lc + (qcap (tc c) - 1) * sg.
Let LQ := qcap (tc c) * sg.

Definition first_take s : N := match ptimes (ti s) with t :: _ => t | [] => now (ti s) end.

Record qinv sq : Prop := mk_qinv {
  QT : tinv c (fst sq);
  QCAP : inv_cap (tc c) (core (fst sq));
  Q0 : wsince (snd sq) <= now (ti (fst sq));
  Q1 : length (qtimes (snd sq)) = length (queue (core (fst sq)));
  Q4 : nondec (qtimes (snd sq)) /\ forall a, In a (qtimes (snd sq)) -> a <= now (ti (fst sq));
  Q2 : qok (wfree lc sq) sg C 0 (qtimes (snd sq));
  Q3 : forall a, In a (patimes (snd sq)) -> first_take (fst sq) <= a + LQ;
  Q5 : pend (core (fst sq)) = [] -> patimes (snd sq) = [] }.

Lemma C_LQ : 1 <= qcap (tc c) -> C + lt = LQ.
Proof. intros H. unfold C, LQ, sg. nia. Qed.

(* an operation still in the queue was accepted at most LQ ago *)
Lemma queue_wait sq : qinv sq -> timely_q lt lc sq = true -> forall a, In a (qtimes (snd sq)) -> now (ti (fst sq)) <= a + LQ.
Proof.
  intros I T a Ha.
  assert (CAP : 1 <= qcap (tc c)).
  { pose proof (QCAP sq I) as K. unfold inv_cap in K. pose proof (Q1 sq I) as L.
    destruct (qtimes (snd sq)) as [|x r]; [destruct Ha|]. simpl in L. rewrite <- L in K. lia. }
  pose proof (qok_In _ _ _ _ 0 a (Q2 sq I) Ha) as HF.
  destruct (Q4 sq I) as [ND _].
  unfold timely_q in T. unfold wfree in HF. rewrite <- (C_LQ CAP).
  destruct (is_pcommit (pc (core (fst sq)))).
  - apply N.leb_le in T. lia.
  - destruct (qtimes (snd sq)) as [|a0 r]; [destruct Ha|]. apply N.leb_le in T.
    assert (a0 <= a) by (destruct Ha as [<-|Ha]; [lia|now apply (nondec_hd a0 r ND)]).
    destruct (N.max_spec (wsince (snd sq)) a0) as [[_ E]|[_ E]]; rewrite E in T; lia.
Qed.

Lemma ltb_len_app {B} (l : list B) x : Nat.ltb (length l) (length (l ++ [x])) = true /\ Nat.ltb (length (l ++ [x])) (length l) = false.
Proof. rewrite app_length. simpl. split; [apply Nat.ltb_lt|apply Nat.ltb_ge]; lia. Qed.
Lemma ltb_len_cons {B} (l : list B) x : Nat.ltb (length l) (length (x :: l)) = true /\ Nat.ltb (length (x :: l)) (length l) = false.
Proof. simpl. split; [apply Nat.ltb_lt|apply Nat.ltb_ge]; lia. Qed.

(* the take times of the pending batch after a step, from the lengths *)
Lemma ptimes_after s te : tinv c s -> tinv c (tstep c s te) ->
  (pend (core (tstep c s te)) = pend (core s) -> pend (core s) <> [] -> ptimes (ti (tstep c s te)) = ptimes (ti s)) /\
  (forall it, pend (core (tstep c s te)) = pend (core s) ++ [it] -> ptimes (ti (tstep c s te)) = ptimes (ti s) ++ [now (ti s)]).
Proof.
  intros (_ & _ & (DL & _) & _) (_ & _ & (DL' & _) & _). split.
  - intros E NE. rewrite E in DL'. destruct (ptimes_tstep c s te) as [H|[H|H]]; [exact H| |].
    + rewrite H, app_length in DL'. simpl in DL'. lia.
    + rewrite H in DL'. destruct (pend (core s)); [congruence|discriminate].
  - intros it E. rewrite E, app_length in DL'. simpl in DL'. destruct (ptimes_tstep c s te) as [H|[H|H]]; [|exact H|].
    + rewrite H in DL'. lia.
    + rewrite H in DL'. simpl in DL'. lia.
Qed.

Lemma step_qinv sq te : reset_every_item c = false -> fixed_S2 (tc c) = true ->
  qinv sq -> timely_q lt lc sq = true -> qinv (qstep c sq te).
Proof.
  intros R F I T. destruct sq as [s q].
  pose proof (QT _ I) as TI. cbn [fst snd] in *.
  pose proof TI as (IC & IT & (DL & _) & TO).
  pose proof IT as (B & _ & _).
  pose proof (tstep_shape c s te R B) as SH.
  pose proof (now_tstep c s te) as [NOW1 NOW2].
  assert (TI' : tinv c (tstep c s te)) by (apply step_tinv; auto).
  assert (CAP' : inv_cap (tc c) (core (tstep c s te))).
  { rewrite (core_tstep c s te R). destruct (untime_ev s te); [apply step_inv_cap|]; apply (QCAP _ I). }
  pose proof (queue_wait _ I T) as QW. cbn [fst snd] in QW.
  pose proof (ptimes_after s te TI TI') as [PSAME PGROW].
  pose proof (Q0 _ I) as W0. pose proof (Q1 _ I) as L1. pose proof (Q4 _ I) as [ND LE]. pose proof (Q2 _ I) as K2.
  pose proof (Q3 _ I) as K3. pose proof (Q5 _ I) as K5. cbn [fst snd] in *.
  unfold qstep. set (s' := tstep c s te) in *.
  destruct SH as [SQ SP SPC|it SQ SP SPC ROOM|it rest SQ SQ' SPC SP].
  - (* the queue does not change *)
    rewrite SQ, Nat.ltb_irrefl. cbn [orb andb].
    constructor; cbn [fst snd qtimes patimes wsince].
    + exact TI'.
    + exact CAP'.
    + destruct (is_pcommit (pc (core s)) && negb (is_pcommit (pc (core s')))); lia.
    + rewrite SQ. exact L1.
    + split; [exact ND|]. intros a Ha. specialize (LE a Ha). lia.
    + unfold wfree in *. cbn [fst snd wsince] in *.
      destruct SPC as [E|[E1 E2]].
      * rewrite E. destruct (is_pcommit (pc (core s))); cbn [andb negb]; exact K2.
      * rewrite E1, E2. cbn [is_pcommit andb negb]. rewrite E1 in K2. cbn [is_pcommit] in K2.
        eapply qok_mono; [|exact K2]. unfold timely_q in T. cbn [fst snd] in T. rewrite E1 in T. cbn [is_pcommit] in T.
        apply N.leb_le in T. lia.
    + intros a Ha. destruct (pend (core s')) eqn:PE; [destruct Ha|].
      destruct SP as [SP|SP]; [|congruence].
      assert (PN : pend (core s) <> []) by (rewrite <- SP; discriminate).
      unfold first_take in *. rewrite (PSAME SP PN).
      assert (TN : ptimes (ti s) <> []) by (apply (len_nil_iff _ _ DL PN)).
      specialize (K3 a Ha). destruct (ptimes (ti s)); [congruence|exact K3].
    + intros PE. rewrite PE. reflexivity.
  - (* an operation is accepted *)
    rewrite SQ. destruct (ltb_len_app (queue (core s)) it) as [E1 E2]. rewrite E1. cbn [orb andb].
    assert (NOW : now (ti s') = now (ti s)).
    { destruct te as [dt|e]; [|now apply (NOW2 e)]. exfalso. unfold s' in SQ. cbn [tstep core] in SQ.
      apply (f_equal (@length _)) in SQ. rewrite app_length in SQ. simpl in SQ. lia. }
    rewrite SPC. replace (is_pcommit (pc (core s)) && negb (is_pcommit (pc (core s)))) with false by (destruct (pc (core s)); reflexivity).
    rewrite E2. cbn [orb].
    constructor; cbn [fst snd qtimes patimes wsince].
    + exact TI'.
    + exact CAP'.
    + rewrite NOW. exact W0.
    + rewrite SQ, !app_length, L1. reflexivity.
    + rewrite NOW. split; [apply nondec_app; auto|]. intros a Ha. apply in_app_or in Ha. destruct Ha as [Ha|[<-|[]]]; [auto|lia].
    + unfold wfree in *. cbn [fst snd wsince] in *. rewrite SPC.
      apply qok_app; [exact K2|]. rewrite N.add_0_l, L1.
      assert (M : N.of_nat (length (queue (core s))) * sg <= (qcap (tc c) - 1) * sg) by (apply N.mul_le_mono_r; lia).
      unfold C. destruct (is_pcommit (pc (core s))); lia.
    + rewrite SP. intros a Ha. destruct (pend (core s)) eqn:PE; [destruct Ha|].
      unfold first_take in *. rewrite (PSAME SP ltac:(discriminate)), NOW. apply K3. exact Ha.
    + rewrite SP. intros PE. rewrite PE. reflexivity.
  - (* the worker takes the head *)
    rewrite SQ, SQ'. destruct (ltb_len_cons rest it) as [E1 E2]. rewrite E2, E1. cbn [orb andb].
    assert (NOW : now (ti s') = now (ti s)).
    { destruct te as [dt|e]; [|now apply (NOW2 e)]. exfalso. unfold s' in SQ'. cbn [tstep core] in SQ'. rewrite SQ in SQ'.
      apply (f_equal (@length _)) in SQ'. simpl in SQ'. lia. }
    rewrite SQ in L1.
    destruct (qtimes q) as [|a0 qr] eqn:QE; [discriminate|]. simpl in L1. cbn [hd tl].
    assert (A0 : now (ti s) <= a0 + LQ) by (apply QW; now left).
    pose proof (nondec_hd a0 qr ND) as HD.
    assert (TK : now (ti s) <= N.max (wsince q) a0 + lt).
    { unfold timely_q in T. cbn [fst snd] in T. rewrite SPC, QE in T. cbn [is_pcommit] in T. now apply N.leb_le in T. }
    constructor; cbn [fst snd qtimes patimes wsince].
    + exact TI'.
    + exact CAP'.
    + lia.
    + rewrite SQ'. lia.
    + rewrite NOW. split; [apply ND|]. intros a Ha. apply LE. now right.
    + unfold wfree in *. cbn [fst snd wsince] in *. rewrite SPC in K2. cbn [is_pcommit] in K2.
      destruct K2 as [_ K2]. rewrite N.add_0_l in K2.
      apply (qok_shift (wsince q) _ sg C a0 qr); [|exact HD|exact K2|].
      * unfold sg. destruct (is_pcommit (pc (core s'))); lia.
      * rewrite N.add_0_l. unfold C.
        assert (CP : N.of_nat (length (queue (core s))) <= qcap (tc c)) by apply (QCAP _ I).
        rewrite SQ in CP. simpl in CP.
        assert (M : N.of_nat (length qr) * sg <= (qcap (tc c) - 1) * sg) by (apply N.mul_le_mono_r; lia). lia.
    + intros a Ha. destruct SP as [SP|SP]; rewrite SP in Ha.
      * (* the operation joins the batch *)
        destruct (ltb_len_app (pend (core s)) it) as [LEN _]. rewrite LEN in Ha.
        assert (Ha' : In a (patimes q ++ [a0])) by (destruct (pend (core s) ++ [it]); [destruct Ha|exact Ha]). clear Ha.
        unfold first_take. rewrite (PGROW it SP).
        apply in_app_or in Ha'. destruct Ha' as [Ha|[<-|[]]].
        -- specialize (K3 a Ha). unfold first_take in K3.
           destruct (ptimes (ti s)) eqn:PT; [|exact K3].
           destruct (pend (core s)) eqn:PP; [rewrite (K5 eq_refl) in Ha; destruct Ha|]. simpl in DL. discriminate.
        -- destruct (ptimes (ti s)) as [|t0 r] eqn:PT; [simpl; exact A0|]. simpl.
           assert (t0 <= now (ti s)) by (apply (TO t0); rewrite PT; now left). lia.
      * rewrite Nat.ltb_irrefl in Ha.
        assert (PN : pend (core s) <> []) by (intros E; rewrite E in Ha; destruct Ha).
        assert (Ha' : In a (patimes q)) by (destruct (pend (core s)); [congruence|exact Ha]). clear Ha.
        unfold first_take. rewrite (PSAME SP PN).
        specialize (K3 a Ha'). unfold first_take in K3.
        assert (TN : ptimes (ti s) <> []) by (apply (len_nil_iff _ _ DL PN)).
        destruct (ptimes (ti s)); [congruence|exact K3].
    + intros PE. rewrite PE. reflexivity.
Qed.
End Inv.

Section Run.
Variables (lf lw lt lc : N) (c : tcfg).
Hypothesis R : reset_every_item c = false.
Hypothesis F : fixed_S2 (tc c) = true.

Lemma qinv_init : qinv lt lc c (tinit : tbst A, qinit).
Proof.
  constructor; cbn; try lia; try reflexivity; auto; try (intros a []); try apply tinv_init; try (unfold inv_cap; cbn; lia).
  split; [exact I|intros a []].
Qed.

Lemma run_qinv tes : forall sq, qinv lt lc c sq -> timely_all lf lw lt lc c sq tes = true ->
  qinv lt lc c (fold_left (qstep c) tes sq) /\ timely_q lt lc (fold_left (qstep c) tes sq) = true.
Proof.
  induction tes as [|te r IH]; intros sq I T; cbn [timely_all fold_left] in *;
    apply andb_true_iff in T; destruct T as [T T3]; apply andb_true_iff in T; destruct T as [T1 T2].
  - auto.
  - apply IH; [now apply step_qinv|exact T3].
Qed.

(* an accepted operation that is still in the queue was accepted at most qcap * (lt + lc) ago; one that is in the pending
   batch at most that plus max_age + lf + lw ago (after a failed age-limit commit: max_age + lf + lw from the failure) *)
Lemma accept_bound tes : timely_all lf lw lt lc c (tinit, qinit) tes = true ->
  let sq := qrun c tes in
  (forall a, In a (qtimes (snd sq)) -> now (ti (fst sq)) <= a + queue_wait_limit c lt lc) /\
  (forall a, In a (patimes (snd sq)) ->
     match rearm (ti (fst sq)) with
     | None => now (ti (fst sq)) <= a + accept_to_commit_limit c lf lw lt lc
     | Some r => now (ti (fst sq)) <= r + maxage c + lf + lw
     end).
Proof.
  intros T sq. destruct (run_qinv tes _ qinv_init T) as [I TQ]. fold (qrun c tes) in I, TQ. fold sq in I, TQ.
  split; [exact (queue_wait lt lc c sq I TQ)|].
  intros a Ha.
  assert (NE : pend (core (fst sq)) <> []).
  { intros E. rewrite (Q5 _ _ _ _ I E) in Ha. destruct Ha. }
  pose proof (age_bound c lf lw tes R F (timely_all_from lf lw lt lc c tes _ T)) as AB. cbn zeta in AB.
  rewrite <- fst_qrun in AB. fold sq in AB. specialize (AB NE).
  pose proof (Q3 _ _ _ _ I a Ha) as K. unfold first_take in K. unfold age_anchor in AB.
  unfold accept_to_commit_limit, queue_wait_limit.
  destruct (rearm (ti (fst sq))); [exact AB|].
  destruct (ptimes (ti (fst sq))); lia.
Qed.

End Run.

End QueueLemmas.

(* a burst of three operations into a worker that needs 2 to take one and 3 for a size commit (batch size 2), max_age 10 *)
Definition burst_cfg : tcfg := mk_tcfg (mk_bcfg 3 2 true true true) 10 false.
Definition burst : list (cev N) :=
  [Ev (Enq 1); Ev (Enq 2); Ev (Enq 3); Tick 2; Ev (Take true); Tick 2; Ev (Take true); Tick 3; Ev (SizeCommit true);
   Tick 2; Ev (Take true); Tick 10; Ev Fire; Tick 1; Ev (OnTimer true)].
Lemma burst_example :
  timely_all 1 1 2 3 burst_cfg (tinit, qinit) burst = true /\
  let sq := qrun burst_cfg burst in
  committed (core (fst sq)) = [[1; 2]; [3]] /\ now (ti (fst sq)) = 20 /\
  queue_wait_limit burst_cfg 2 3 = 15 /\ accept_to_commit_limit burst_cfg 1 1 2 3 = 27.
Proof. vm_compute. repeat split; reflexivity. Qed.
