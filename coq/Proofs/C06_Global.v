(* C06 — lemmas about the cluster-wide view (globalPinInfoCid / globalPinInfoSlice). *)
From V Require Import Base.Common Base.CommonLemmas Model.C06_Global.
Open Scope N_scope.

Lemma put_all_nodup ps stb : forall m, NoDup (akeys m) -> NoDup (akeys (put_all ps stb m)).
Proof. unfold put_all. induction ps as [|p r IH]; simpl; auto. intros m H. apply IH. now apply NoDup_akeys_aput. Qed.

Lemma add_reply_nodup m dr : NoDup (akeys m) -> NoDup (akeys (add_reply m dr)).
Proof. unfold add_reply. destruct (snd dr); auto using NoDup_akeys_aput. Qed.

Lemma fold_add_reply_nodup l : forall m, NoDup (akeys m) -> NoDup (akeys (fold_left add_reply l m)).
Proof. induction l as [|a r IH]; simpl; auto. intros m H. apply IH. now apply add_reply_nodup. Qed.

Lemma global_cid_once_l self follower members pin replies : NoDup (akeys (global_cid self follower members pin replies)).
Proof.
  unfold global_cid. destruct pin as [g|].
  - apply fold_add_reply_nodup, put_all_nodup. constructor.
  - apply put_all_nodup. constructor.
Qed.

Lemma put_all_get ps stb : forall m p, aget p (put_all ps stb m) = if memN p ps then Some stb else aget p m.
Proof.
  unfold put_all. induction ps as [|q r IH]; simpl; auto. intros m p. rewrite IH.
  destruct (memN p r) eqn:Hm; [now rewrite orb_true_r|]. rewrite orb_false_r.
  destruct (N.eqb_spec p q) as [->|Hne]; [apply aget_aput_same|now apply aget_aput_other].
Qed.

(* every reply carries the identity of the peer that sent it *)
Definition honest (l : list (N * reply)) : Prop := forall d r, In (d, r) l -> match r with RInfo p _ => p = d | _ => True end.
Definition shown (r : reply) : option N := match r with RInfo _ stb => Some stb | RErr => Some 2 | RAuth => None end.

Lemma fold_add_reply_get l : forall m, honest l -> NoDup (map fst l) ->
  forall d, aget d (fold_left add_reply l m) =
            match find (fun dr => N.eqb (fst dr) d) l with
            | Some dr => match shown (snd dr) with Some x => Some x | None => aget d m end
            | None => aget d m end.
Proof.
  induction l as [|[d0 r0] r IH]; intros m Hh Nd d; simpl; auto.
  inversion Nd as [|? ? Hnotin Nd']; subst.
  assert (Hh' : honest r) by (intros d1 r1 H; apply (Hh d1 r1); now right).
  rewrite (IH _ Hh' Nd'). pose proof (Hh d0 r0 (or_introl eq_refl)) as H0.
  destruct (N.eqb_spec d0 d) as [->|Hne].
  - assert (Hf : find (fun dr => N.eqb (fst dr) d) r = None).
    { destruct (find _ r) as [[d1 r1]|] eqn:Hf; auto. apply find_some in Hf as [Hin E]. simpl in E. apply N.eqb_eq in E. subst.
      exfalso. apply Hnotin. apply in_map_iff. exists (d, r1). auto. }
    rewrite Hf. unfold add_reply. simpl. destruct r0 as [p stb| |]; simpl; auto.
    + subst p. apply aget_aput_same.
    + apply aget_aput_same.
  - assert (Hm : aget d (add_reply m (d0, r0)) = aget d m).
    { unfold add_reply. simpl. destruct r0 as [p stb| |]; auto; [subst p|]; apply aget_aput_other; auto. }
    rewrite Hm. reflexivity.
Qed.

Lemma in_combine_find {A} (ds : list N) (rs : list A) d r : NoDup ds -> In (d, r) (combine ds rs) ->
  find (fun dr => N.eqb (fst dr) d) (combine ds rs) = Some (d, r).
Proof.
  revert rs. induction ds as [|d0 ds IH]; intros rs Nd Hin; simpl in *; [destruct Hin|].
  destruct rs as [|r0 rs]; [destruct Hin|]. simpl in *. inversion Nd; subst.
  destruct Hin as [E|Hin].
  - inversion E; subst. now rewrite N.eqb_refl.
  - destruct (N.eqb_spec d0 d) as [->|Hne]; [|auto]. exfalso. apply H1. apply in_combine_l in Hin. exact Hin.
Qed.

Lemma map_fst_combine_nodup {A} (ds : list N) (rs : list A) : NoDup ds -> NoDup (map fst (combine ds rs)).
Proof.
  revert rs. induction ds as [|d0 ds IH]; intros rs Nd; simpl; [constructor|]. destruct rs as [|r0 rs]; simpl; [constructor|].
  inversion Nd; subst. constructor; auto. intros Hin. apply in_map_iff in Hin as ([d r] & E & Hin). simpl in E. subst.
  apply H1. apply in_combine_l in Hin. exact Hin.
Qed.

Lemma find_none_combine {A} (ds : list N) (rs : list A) d : ~ In d ds -> find (fun dr => N.eqb (fst dr) d) (combine ds rs) = None.
Proof.
  intros Hn. destruct (find _ (combine ds rs)) as [[d1 r1]|] eqn:Hf; auto. apply find_some in Hf as [Hin E].
  simpl in E. apply N.eqb_eq in E. subst. exfalso. apply Hn. apply in_combine_l in Hin. exact Hin.
Qed.

(* allocated peers: their own report, cluster_error when unreachable, absent when not authorised;
   other members: remote *)
Lemma global_cid_view self members g replies :
  g_every g = false -> NoDup (g_alloc g) -> honest (combine (g_alloc g) replies) ->
  (forall d r, In (d, r) (combine (g_alloc g) replies) ->
     aget d (global_cid self false members (Some g) replies) = shown r) /\
  (forall m, In m members -> ~ In m (g_alloc g) -> aget m (global_cid self false members (Some g) replies) = Some 256) /\
  (forall x, ~ In x members -> ~ In x (g_alloc g) -> aget x (global_cid self false members (Some g) replies) = None).
Proof.
  intros He Nd Hh. unfold global_cid, dests_of, remote_of. rewrite He.
  pose proof (map_fst_combine_nodup (g_alloc g) replies Nd) as Nc. repeat split.
  - intros d r Hin. rewrite (fold_add_reply_get _ _ Hh Nc), (in_combine_find _ _ _ _ Nd Hin). simpl.
    destruct (shown r) eqn:Hs; auto. rewrite put_all_get. simpl.
    assert (memN d (subtract members (g_alloc g)) = false) as ->; auto.
    apply memN_false. unfold subtract. rewrite filter_In. intros [_ H]. apply negb_true_iff, memN_false in H.
    apply H. apply in_combine_l in Hin. exact Hin.
  - intros m Hm Hn. rewrite (fold_add_reply_get _ _ Hh Nc), (find_none_combine _ _ _ Hn), put_all_get.
    assert (memN m (subtract members (g_alloc g)) = true) as ->; auto.
    apply memN_in. unfold subtract. rewrite filter_In. split; auto. apply negb_true_iff, memN_false. exact Hn.
  - intros x Hx Hn. rewrite (fold_add_reply_get _ _ Hh Nc), (find_none_combine _ _ _ Hn), put_all_get.
    assert (memN x (subtract members (g_alloc g)) = false) as ->; auto.
    apply memN_false. unfold subtract. rewrite filter_In. tauto.
Qed.

Lemma global_cid_unpinned self members replies m : In m members ->
  aget m (global_cid self false members None replies) = Some 128.
Proof. intros Hm. unfold global_cid. rewrite put_all_get. apply memN_in in Hm. now rewrite Hm. Qed.

(* follower mode: only the local peer is asked and shown *)
Lemma global_cid_follower self members g r :
  global_cid self true members (Some g) [r] = match r with RInfo p stb => [(p, stb)] | RErr => [(self, 2)] | RAuth => [] end.
Proof. unfold global_cid, dests_of, remote_of, add_reply. destruct r; reflexivity. Qed.

(* ---- globalPinInfoSlice ---- *)
Definition fm_ok (fm : list (N * list (N * N))) : Prop :=
  NoDup (akeys fm) /\ forall c m, aget c fm = Some m -> NoDup (akeys m).

Lemma add_info_ok fm c p stb : fm_ok fm -> fm_ok (add_info fm c p stb).
Proof.
  intros [A B]. unfold add_info. split; [now apply NoDup_akeys_aput|].
  intros c' m. destruct (N.eq_dec c' c) as [->|Hne].
  - rewrite aget_aput_same. intros H. inversion H; subst. apply NoDup_akeys_aput.
    destruct (aget c fm) as [m0|] eqn:H0; [exact (B _ _ H0)|constructor].
  - rewrite aget_aput_other by auto. apply B.
Qed.

Lemma add_sreply_ok fm mr : fm_ok fm -> fm_ok (add_sreply fm mr).
Proof.
  unfold add_sreply. destruct (snd mr) as [l| |]; auto. revert fm. induction l as [|[[c p] stb] r IH]; simpl; auto.
  intros fm H. apply IH. now apply add_info_ok.
Qed.

Lemma global_slice_ok self follower members replies : fm_ok (global_slice self follower members replies).
Proof.
  unfold global_slice.
  set (mrs := combine (if follower then [self] else members) replies).
  assert (H1 : fm_ok (fold_left add_sreply mrs [])).
  { assert (G : forall l fm, fm_ok fm -> fm_ok (fold_left add_sreply l fm)).
    { induction l as [|a r IH]; simpl; auto. intros fm H. apply IH. now apply add_sreply_ok. }
    apply G. split; [constructor|]. intros c m. discriminate. }
  assert (G2 : forall ks p fm, fm_ok fm -> fm_ok (fold_left (fun fm c => add_info fm c p 2) ks fm)).
  { induction ks as [|k r IH]; simpl; auto. intros p fm H. apply IH. now apply add_info_ok. }
  generalize (fold_left add_sreply mrs []) H1. induction (errored_of mrs) as [|p r IH]; simpl; auto.
Qed.
