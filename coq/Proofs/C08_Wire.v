(* C08 — lemmas about the byte-level protobuf model: Model/C08_Wire.v *)
From Coq Require Import List NArith ZArith Bool Lia.
Import ListNotations.
From V Require Import Model.C08_Wire.
Open Scope N_scope.
Open Scope N_scope.

Lemma varint_dec_cons f b r shift acc : varint_dec_f (S f) (b :: r) shift acc =
  if b <? 128 then Some (acc + b * 2 ^ shift, r) else varint_dec_f f r (shift + 7) (acc + (b - 128) * 2 ^ shift).
Proof. reflexivity. Qed.
Lemma varint_enc_S f n : varint_enc_f (S f) n = if n <? 128 then [n] else (128 + n mod 128) :: varint_enc_f f (n / 128).
Proof. reflexivity. Qed.

Lemma varint_rt_f f : forall n rest shift acc, n < 128 ^ N.of_nat (S f) ->
  varint_dec_f (S f) (varint_enc_f (S f) n ++ rest) shift acc = Some (acc + n * 2 ^ shift, rest).
Proof.
  induction f as [|f IH]; intros n rest shift acc H.
  - change (128 ^ N.of_nat 1) with 128 in H. rewrite varint_enc_S. apply N.ltb_lt in H. rewrite H.
    cbn [app]. rewrite varint_dec_cons. now rewrite H.
  - rewrite varint_enc_S. destruct (N.ltb_spec n 128) as [Hl|Hg].
    + cbn [app]. rewrite varint_dec_cons. apply N.ltb_lt in Hl. now rewrite Hl.
    + cbn [app]. rewrite varint_dec_cons.
      assert (Hm : n mod 128 < 128) by (apply N.mod_lt; discriminate).
      pose proof (N.div_mod n 128 ltac:(discriminate)) as Hd.
      set (r := n mod 128) in *. set (q := n / 128) in *.
      assert (Hb : (128 + r <? 128) = false) by (apply N.ltb_ge; lia).
      rewrite Hb. rewrite IH.
      * f_equal. f_equal. replace (128 + r - 128) with r by lia.
        rewrite N.pow_add_r. change (2 ^ 7) with 128. rewrite Hd. lia.
      * rewrite Nnat.Nat2N.inj_succ, N.pow_succ_r' in H. lia.
Qed.

Lemma varint_rt n rest : n < 2 ^ 64 -> varint_dec (varint_enc n ++ rest) = Some (n, rest).
Proof.
  intros H. unfold varint_dec, varint_enc. rewrite varint_rt_f.
  - f_equal. f_equal. cbn. lia.
  - eapply N.lt_trans; [exact H|]. vm_compute. reflexivity.
Qed.

Open Scope Z_scope.
Lemma zigzag_rt z : unzigzag (zigzag z) = z.
Proof.
  unfold zigzag, unzigzag. destruct (Z.leb_spec 0 z) as [H|H].
  - assert (E : Z.to_N (2 * z) = (2 * Z.to_N z)%N) by lia. rewrite E.
    rewrite N.even_mul. cbn [N.even orb]. rewrite N.mul_comm, N.div_mul by discriminate. lia.
  - assert (E : Z.to_N (- 2 * z - 1) = (2 * Z.to_N (- z - 1) + 1)%N) by lia. rewrite E.
    rewrite N.even_add, N.even_mul. cbn [N.even orb Bool.eqb].
    replace (2 * Z.to_N (- z - 1) + 1 + 1)%N with ((Z.to_N (- z - 1) + 1) * 2)%N by lia.
    rewrite N.div_mul by discriminate. lia.
Qed.

Lemma zigzag_lt z : - 2 ^ 31 <= z < 2 ^ 31 -> (zigzag z < 2 ^ 32)%N.
Proof.
  change (2 ^ 31) with 2147483648. change (2 ^ 32)%N with 4294967296%N. unfold zigzag.
  destruct (Z.leb_spec 0 z); lia.
Qed.

Open Scope N_scope.
Lemma varint_enc_nonnil n : varint_enc n <> [].
Proof. unfold varint_enc. rewrite varint_enc_S. destruct (n <? 128); discriminate. Qed.

Lemma parse_ser fs : Forall wfield_ok fs -> forall fuel, (length fs < fuel)%nat -> wparse fuel (ser_fields fs) = Some fs.
Proof.
  induction fs as [|[fno v] r IH]; intros Hok fuel Hf.
  - destruct fuel; [inversion Hf | reflexivity].
  - destruct fuel as [|f]; [inversion Hf|]. inversion Hok as [|? ? H1 Hr]; subst.
    destruct H1 as (Hp & Ht & Hv). cbn [fst snd] in *.
    cbn [ser_fields flat_map]. fold (ser_fields r).
    assert (IHr : wparse f (ser_fields r) = Some r) by (apply IH; [exact Hr | cbn in Hf; lia]).
    cbn [wparse].
    destruct v as [n|b]; unfold ser_field; cbn [fst snd].
    + rewrite <- !app_assoc.
      destruct (varint_enc (fno * 8) ++ varint_enc n ++ ser_fields r) eqn:E.
      { exfalso. apply app_eq_nil in E as [E _]. exact (varint_enc_nonnil _ E). }
      rewrite <- E. rewrite varint_rt by lia.
      assert (M0 : fno * 8 mod 8 = 0) by (apply N.mod_mul; discriminate). rewrite M0.
      cbn [N.eqb]. rewrite varint_rt by exact Hv.
      rewrite N.div_mul by discriminate. now rewrite IHr.
    + rewrite <- !app_assoc.
      destruct (varint_enc (fno * 8 + 2) ++ varint_enc (blen b) ++ b ++ ser_fields r) eqn:E.
      { exfalso. apply app_eq_nil in E as [E _]. exact (varint_enc_nonnil _ E). }
      rewrite <- E. rewrite varint_rt by lia.
      assert (M : (fno * 8 + 2) mod 8 = 2).
      { rewrite N.add_comm, N.mod_add by discriminate. reflexivity. }
      rewrite M. cbn [N.eqb Pos.eqb]. rewrite varint_rt by exact Hv.
      assert (D : (fno * 8 + 2) / 8 = fno).
      { rewrite N.add_comm, N.div_add by discriminate. reflexivity. }
      rewrite D.
      assert (L : (blen (b ++ ser_fields r) <? blen b) = false).
      { apply N.ltb_ge. unfold blen. rewrite app_length. lia. }
      rewrite L. unfold blen. rewrite Nnat.Nat2N.id.
      rewrite firstn_app, Nat.sub_diag, firstn_all, firstn_O, app_nil_r.
      rewrite skipn_app, Nat.sub_diag, skipn_all, skipn_O. cbn [app]. now rewrite IHr.
Qed.

Lemma with_fno_app k a b : with_fno k (a ++ b) = with_fno k a ++ with_fno k b.
Proof. apply filter_app. Qed.
Lemma with_fno_var k j x : with_fno k (f_var j x) = if j =? k then f_var j x else [].
Proof. unfold f_var. destruct (x =? 0); cbn; destruct (j =? k); reflexivity. Qed.
Lemma with_fno_bytes k j b : with_fno k (f_bytes j b) = if j =? k then f_bytes j b else [].
Proof. unfold f_bytes. destruct b; cbn; destruct (j =? k); reflexivity. Qed.
Lemma with_fno_rep k j bs : with_fno k (f_rep j bs) = if j =? k then f_rep j bs else [].
Proof.
  unfold f_rep. induction bs as [|b r IH]; cbn; [destruct (j =? k); reflexivity|].
  unfold with_fno in IH. rewrite IH. destruct (j =? k); reflexivity.
Qed.
Lemma with_fno_one k j v : with_fno k [(j, v)] = if j =? k then [(j, v)] else [].
Proof. cbn. destruct (j =? k); reflexivity. Qed.

Lemma lastl_bytes j b : bytes_or_empty (lastl (f_bytes j b)) = b.
Proof. destruct b; reflexivity. Qed.
Lemma lastv_var j n : lastv (f_var j n) = n.
Proof. unfold f_var. destruct (N.eqb_spec n 0) as [->|]; reflexivity. Qed.
Lemma payloads_rep j bs : payloads (f_rep j bs) = bs.
Proof. unfold payloads, f_rep. induction bs as [|b r IH]; cbn; [reflexivity | now rewrite IH]. Qed.

Lemma ok_var j n : 0 < j -> j * 8 + 2 < 2 ^ 64 -> n < 2 ^ 64 -> Forall wfield_ok (f_var j n).
Proof. intros. unfold f_var. destruct (n =? 0); constructor; [|constructor]. split; [assumption | split; assumption]. Qed.
Lemma ok_bytes j b : 0 < j -> j * 8 + 2 < 2 ^ 64 -> bytes_ok b -> Forall wfield_ok (f_bytes j b).
Proof. intros. unfold f_bytes. destruct b; constructor; [|constructor]. split; [assumption | split; assumption]. Qed.
Lemma ok_rep j bs : 0 < j -> j * 8 + 2 < 2 ^ 64 -> Forall bytes_ok bs -> Forall wfield_ok (f_rep j bs).
Proof.
  intros Hj Ht H. unfold f_rep. induction H as [|b r Hb Hr IH]; cbn; constructor; [|exact IH]. split; [assumption | split; assumption].
Qed.

Lemma zz32 z : in_i32 z -> zigzag z < 2 ^ 64.
Proof. intros H. eapply N.lt_trans; [apply zigzag_lt; exact H | reflexivity]. Qed.

Lemma unzz32 z : in_i32 z -> unzigzag (zigzag z mod 2 ^ 32) = z.
Proof. intros H. rewrite N.mod_small by (apply zigzag_lt; exact H). apply zigzag_rt. Qed.

Lemma entry_rt kv : bytes_ok (fst kv) -> bytes_ok (snd kv) -> entry_of_bytes (entry_bytes kv) = Some kv.
Proof.
  intros Hk Hv. unfold entry_of_bytes, wparse_all, entry_bytes.
  rewrite parse_ser.
  - destruct kv as [k v]. reflexivity.
  - constructor; [split; [reflexivity | split; [reflexivity | exact Hk]]|].
    constructor; [split; [reflexivity | split; [reflexivity | exact Hv]]|]. constructor.
  - cbn [length]. unfold ser_fields, ser_field. cbn [flat_map fst snd]. rewrite !app_length.
    pose proof (varint_enc_nonnil (1 * 8 + 2)) as N1. destruct (varint_enc (1 * 8 + 2)); [congruence|]. cbn [length].
    pose proof (varint_enc_nonnil (2 * 8 + 2)) as N2. destruct (varint_enc (2 * 8 + 2)); [congruence|]. cbn [length]. lia.
Qed.

Lemma meta_rt m : Forall (fun kv => bytes_ok (fst kv) /\ bytes_ok (snd kv) /\ bytes_ok (entry_bytes kv)) m ->
  all_some (map entry_of_bytes (map entry_bytes m)) = Some m.
Proof.
  induction 1 as [|kv r (Hk & Hv & _) Hr IH]; [reflexivity|]. cbn [map all_some]. rewrite entry_rt by assumption. now rewrite IH.
Qed.

Lemma ser_fields_length fs : (length fs <= length (ser_fields fs))%nat.
Proof.
  induction fs as [|f r IH]; [apply le_n|]. cbn [ser_fields flat_map]. fold (ser_fields r). rewrite app_length. cbn [length].
  assert (1 <= length (ser_field f))%nat.
  { unfold ser_field. destruct (snd f).
    - rewrite app_length. pose proof (varint_enc_nonnil (fst f * 8)) as E. destruct (varint_enc (fst f * 8)); [congruence|]. cbn. lia.
    - rewrite app_length. pose proof (varint_enc_nonnil (fst f * 8 + 2)) as E. destruct (varint_enc (fst f * 8 + 2)); [congruence|]. cbn. lia. }
  lia.
Qed.

Lemma parse_all_ser fs : Forall wfield_ok fs -> wparse_all (ser_fields fs) = Some fs.
Proof. intros H. unfold wparse_all. apply parse_ser; [exact H|]. pose proof (ser_fields_length fs). lia. Qed.

Ltac fno_simpl :=
  unfold last_var, last_len, all_len;
  repeat rewrite with_fno_app;
  repeat rewrite with_fno_var; repeat rewrite with_fno_bytes; repeat rewrite with_fno_rep; repeat rewrite with_fno_one;
  cbn [N.eqb Pos.eqb app]; repeat rewrite app_nil_r.

Lemma opts_fields_ok o : wopts_ok o -> Forall wfield_ok (opts_fields o).
Proof.
  intros (A & B & C & D & E & F & G & H). unfold opts_fields.
  repeat (apply Forall_app; split);
    try (apply ok_var; [reflexivity | reflexivity | try assumption; try (apply zz32; assumption)]);
    try (apply ok_bytes; [reflexivity | reflexivity | assumption]);
    try (apply ok_rep; [reflexivity | reflexivity | assumption]).
  apply ok_rep; [reflexivity | reflexivity |]. clear -E. induction E as [|kv r (_ & _ & Hb) _ IH]; cbn; constructor; assumption.
Qed.

Lemma opts_rt o : wopts_ok o -> opts_of_fields (opts_fields o) = Some o.
Proof.
  intros Hok. pose proof Hok as (A & B & C & D & E & F & G & H). unfold opts_of_fields, opts_fields.
  assert (M : all_len 6 (f_var 1 (zigzag (w_rmin o)) ++ f_var 2 (zigzag (w_rmax o)) ++ f_bytes 3 (w_name o) ++ f_var 4 (w_shard o)
                          ++ f_rep 6 (map entry_bytes (w_meta o)) ++ f_bytes 7 (w_update o) ++ f_var 8 (w_expire o) ++ f_rep 9 (w_origins o))
              = map entry_bytes (w_meta o)).
  { fno_simpl. apply payloads_rep. }
  rewrite M, (meta_rt _ E).
  f_equal. destruct o as [r1 r2 nm sh mt up ex og]. cbn [w_rmin w_rmax w_name w_shard w_meta w_update w_expire w_origins] in *. f_equal.
  - fno_simpl. rewrite lastv_var. now apply unzz32.
  - fno_simpl. rewrite lastv_var. now apply unzz32.
  - fno_simpl. apply lastl_bytes.
  - fno_simpl. apply lastv_var.
  - fno_simpl. apply lastl_bytes.
  - fno_simpl. apply lastv_var.
  - fno_simpl. apply payloads_rep.
Qed.

Lemma pin_fields_ok p : wpin_ok p -> Forall wfield_ok (pin_fields p).
Proof.
  intros (A & B & C & D & E & F). unfold pin_fields.
  repeat (apply Forall_app; split);
    try (apply ok_var; [reflexivity | reflexivity | try assumption; try (apply zz32; assumption)]);
    try (apply ok_bytes; [reflexivity | reflexivity | assumption]);
    try (apply ok_rep; [reflexivity | reflexivity | assumption]).
  destruct (w_opts p) as [o|]; [|constructor]. destruct F as [_ Fb].
  constructor; [|constructor]. split; [reflexivity | split; [reflexivity | exact Fb]].
Qed.

Theorem wire_pin_roundtrip p : wpin_ok p -> parse_pin (ser_pin p) = Some p.
Proof.
  intros Hok. unfold parse_pin, ser_pin. rewrite parse_all_ser by (apply pin_fields_ok; exact Hok).
  destruct Hok as (A & B & C & D & E & F). unfold pin_of_fields, pin_fields.
  assert (O : match last_len 6 (f_bytes 1 (w_cid p) ++ f_var 2 (w_type p) ++ f_rep 3 (w_allocs p) ++ f_var 4 (zigzag (w_depth p))
                               ++ f_bytes 5 (w_ref p)
                               ++ match w_opts p with None => [] | Some o => [(6, FLen (ser_fields (opts_fields o)))] end) with
              | None => Some None
              | Some b => match wparse_all b with Some ofs => option_map Some (opts_of_fields ofs) | None => None end
              end = Some (w_opts p)).
  { fno_simpl. destruct (w_opts p) as [o|]; [|reflexivity]. destruct F as [Fo _].
    rewrite with_fno_one. cbn [N.eqb Pos.eqb]. cbn [lastl rev app].
    rewrite parse_all_ser by (apply opts_fields_ok; exact Fo). now rewrite opts_rt. }
  rewrite O. f_equal. destruct p as [pc pt pa pd pr po]. cbn [w_cid w_type w_allocs w_depth w_ref w_opts] in *. f_equal.
  - fno_simpl. destruct po; [rewrite with_fno_one|]; cbn [N.eqb Pos.eqb]; rewrite ?app_nil_r; apply lastl_bytes.
  - fno_simpl. destruct po; [rewrite with_fno_one|]; cbn [N.eqb Pos.eqb]; rewrite ?app_nil_r; apply lastv_var.
  - fno_simpl. destruct po; [rewrite with_fno_one|]; cbn [N.eqb Pos.eqb]; rewrite ?app_nil_r; apply payloads_rep.
  - fno_simpl. destruct po; [rewrite with_fno_one|]; cbn [N.eqb Pos.eqb]; rewrite ?app_nil_r; rewrite lastv_var; now apply unzz32.
  - fno_simpl. destruct po; [rewrite with_fno_one|]; cbn [N.eqb Pos.eqb]; rewrite ?app_nil_r; apply lastl_bytes.
Qed.
