(* C08 — decoding onto a used value, and the Raft FSM loop over one shared LogOp (Model/C08_Reuse.v):
   decoding onto a zero value is decoding into a fresh one; with the reset LogOp.ApplyTo performs, every well-formed
   entry comes out as itself whatever was applied before it; without the reset it does not. *)
From V Require Import Base.Common Base.C08_Str Base.C08_Schema Gen.C08Tags Model.C08_Codec Model.C08_Query Model.C08_Status Model.C08_Fmap
  Model.C08_Reuse Proofs.C08_Str Proofs.C08_Codec Proofs.C08_Fmap.
Open Scope string_scope.
Open Scope list_scope.
Open Scope Z_scope.

(* induction over wire values, through the lists they contain *)
Section WireInd.
Variable P : wire -> Prop.
Hypothesis HNil : P WNil.
Hypothesis HInt : forall z, P (WInt z).
Hypothesis HUint : forall n, P (WUint n).
Hypothesis HStr : forall s, P (WStr s).
Hypothesis HBool : forall b, P (WBool b).
Hypothesis HBytes : forall s, P (WBytes s).
Hypothesis HTime : forall t, P (WTime t).
Hypothesis HCid : forall x, P (WCid x).
Hypothesis HPeer : forall p, P (WPeer p).
Hypothesis HAddr : forall a, P (WAddr a).
Hypothesis HList : forall l, Forall P l -> P (WList l).
Hypothesis HMap : forall m, Forall (fun kv => P (snd kv)) m -> P (WMap m).
Hypothesis HSome : forall w, P w -> P (WSome w).

Fixpoint wire_ind' (w : wire) : P w :=
  match w with
  | WNil => HNil | WInt z => HInt z | WUint n => HUint n | WStr s => HStr s | WBool b => HBool b | WBytes s => HBytes s
  | WTime t => HTime t | WCid x => HCid x | WPeer p => HPeer p | WAddr a => HAddr a
  | WList l => HList l ((fix go (l : list wire) : Forall P l :=
                           match l with [] => Forall_nil P | x :: r => Forall_cons x (wire_ind' x) (go r) end) l)
  | WMap m => HMap m ((fix go (m : list (string * wire)) : Forall (fun kv => P (snd kv)) m :=
                         match m with [] => Forall_nil _ | kv :: r => Forall_cons kv (wire_ind' (snd kv)) (go r) end) m)
  | WSome w' => HSome w' (wire_ind' w')
  end.
End WireInd.

Section Onto.
Variable c : codec.
Variable sch : schema.
Notation dec := (dec c sch).
Notation dec_onto := (dec_onto c sch).

Lemma dec_onto_zero_is_dec_l : forall w t, dec_onto (zero_val t) t w = dec t w.
Proof.
  induction w using wire_ind'; intros ty0; destruct ty0; try reflexivity; try (destruct c; reflexivity).
  - (* slice *)
    cbn. f_equal. induction H as [|x r Hx Hr IH]; [reflexivity|]. cbn. rewrite Hx. now rewrite IH.
  - (* map *)
    cbn. f_equal.
    induction H as [|[k x] r Hx Hr IH]; [reflexivity|]. cbn [snd] in Hx.
    match goal with |- context [dec_onto ?p ty0 x] => replace p with (zero_val ty0) by (destruct c, x; reflexivity) end.
    rewrite Hx. now rewrite IH.
  - (* struct *)
    cbn. destruct (fields_of sch name) as [fs|]; [|reflexivity]. f_equal.
    induction fs as [|f fr IHf]; [reflexivity|]. cbn. rewrite IHf. f_equal.
    destruct (f_skip c f); [reflexivity|].
    clear IHf. induction H as [|[k x] r Hx Hr IH]; [reflexivity|]. cbn [snd] in Hx. destruct (String.eqb (f_key c f) k); [apply Hx | apply IH].
  - (* pointer *)
    cbn. now rewrite IHw.
Qed.
End Onto.

(* ---------- the Raft log entry ---------- *)
Lemma raft_schema_ok : schema_ok Msgpack raft_schema = true.
Proof. vm_compute. reflexivity. Qed.

Lemma layouts_ok : logop_layout_ok = true /\ pin_layout_ok = true.
Proof. vm_compute. split; reflexivity. Qed.

Lemma dec_onto_fresh_struct n w : dec_onto Msgpack raft_schema (VRec []) (TStruct n) w = dec Msgpack raft_schema (TStruct n) w.
Proof. exact (dec_onto_zero_is_dec_l Msgpack raft_schema w (TStruct n)). Qed.

Lemma all_some_map {A B} (f : A -> B) (g : B -> option A) l : (forall x, g (f x) = Some x) -> all_some (map g (map f l)) = Some l.
Proof. intros H. induction l as [|x r IH]; [reflexivity|]. cbn. now rewrite H, IH. Qed.

(* The order of the Pin fields in the generated table is computed here, not written down: the proof goes through for whatever
   order the source declares them in (layouts_ok says they are the fifteen, each once). *)
Lemma val_to_pin_to_val p : val_to_pin (pin_to_val p) = Some p.
Proof.
  destruct p as [[rn rx nm md sh ua ex me pu og] ci ty al dp rf]. unfold pin_to_val, val_to_pin, pin_canon_vals.
  cbn [popts pcid ptype allocs maxdepth reference
    rmin rmax name mode shard_size user_allocs expire metadata pin_update origins].
  let v := eval vm_compute in pin_schema_names in
    (assert (E : pin_schema_names = v) by (vm_compute; reflexivity)); rewrite !E.
  unfold pin_go_names, reorder. cbn. 
  rewrite (all_some_map VPeer peer_of ua) by reflexivity.
  rewrite (all_some_map (fun kv : string * string => (fst kv, VStr (snd kv))) meta_of me) by (intros [k v]; reflexivity).
  rewrite (all_some_map (fun a => VAddr (Some a)) addr_of og) by reflexivity.
  rewrite (all_some_map VPeer peer_of al) by reflexivity.
  destruct rf as [x|]; reflexivity.
Qed.

Lemma set_cid_lossy p : set_cid (pcid p) (lossy_pb p) = lossy_pb p.
Proof. reflexivity. Qed.

Lemma enc_logop pv ty pw : enc Msgpack raft_schema (TStruct "Pin") pv = Ok pw ->
  (forall (a b : result wire), match pw with WNil => a | _ => b end = b) -> (ty =? 0) = false ->
  enc Msgpack raft_schema logop_ty (logop_val "" (Some pv) ty) = Ok (WMap [("c", WSome pw); ("p", WInt ty)]).
Proof.
  intros E Hn T.
  unfold logop_ty, logop_val. rewrite enc_struct. cbn [fields_of raft_schema slookup String.eqb Ascii.eqb Bool.eqb].
  unfold raft_logop_fields. cbn [enc_fields f_skip f_omit f_key f_ty f_cskip f_comit f_codec is_empty String.eqb andb rbind].
  cbn [enc]. change (Model.C08_Fmap.enc Msgpack raft_schema (TStruct "Pin") pv) with (enc Msgpack raft_schema (TStruct "Pin") pv).
  rewrite E. cbn [rbind]. rewrite Hn. cbn [rbind]. rewrite T. reflexivity.
Qed.

(* the op carries any residue of earlier entries (tag context, type) but no pin: the pin of the entry is decoded into a fresh value *)
Lemma dec_onto_logop tg t0 pv ty pw : dec Msgpack raft_schema (TStruct "Pin") pw = Ok pv ->
  dec_onto Msgpack raft_schema (logop_val tg None t0) logop_ty (WMap [("c", WSome pw); ("p", WInt ty)]) = Ok (logop_val tg (Some pv) ty).
Proof.
  intros D.
  unfold logop_ty, logop_val. cbn [dec_onto fields_of raft_schema slookup String.eqb Ascii.eqb Bool.eqb].
  unfold raft_logop_fields. cbn [nth_prev fst snd f_skip f_key f_ty f_cskip f_codec String.eqb Ascii.eqb Bool.eqb zero_val rbind].
  cbn [dec_onto]. change (Model.C08_Reuse.dec_onto Msgpack raft_schema (VRec []) (TStruct "Pin") pw)
    with (dec_onto Msgpack raft_schema (VRec []) (TStruct "Pin") pw).
  rewrite dec_onto_fresh_struct, D. reflexivity.
Qed.

Lemma apply_to_pin tg pv p : val_to_pin pv = Some p -> wf_pin p = true ->
  apply_to true (logop_val tg (Some pv) 1) = (SPinned p (lossy_pb p), logop_val tg None 1).
Proof.
  intros V Wp. pose proof (pb_roundtrip_l p Wp) as R. unfold pb_norm in R.
  unfold apply_to, logop_val. rewrite V. cbn [Z.eqb Pos.eqb].
  destruct (pin_to_pb p) as [m|]; [|discriminate]. rewrite R. reflexivity.
Qed.

Lemma apply_to_unpin tg pv p : val_to_pin pv = Some p ->
  apply_to true (logop_val tg (Some pv) 2) = (SUnpinned p, logop_val tg None 2).
Proof. intros V. unfold apply_to, logop_val. rewrite V. reflexivity. Qed.

(* one well-formed entry, decoded onto an op that carries any residue of earlier entries but - thanks to the reset - no
   pin: it comes out as [expected] says, and leaves the op without a pin again *)
Lemma logop_step_wf tg t0 e : wf_entry e = true -> entry_has_iface e = false ->
  logop_step true (logop_val tg None t0) e = (expected e, logop_val tg None (fst e)).
Proof.
  destruct e as [ty p]. unfold wf_entry, entry_has_iface. cbn [fst snd]. intros W I.
  apply andb_true_iff in W as [W Wp]. apply andb_true_iff in W as [Wt Wv].
  destruct (codec_roundtrip_guarded_l Msgpack raft_schema raft_schema_ok (TStruct "Pin") (pin_to_val p) Wv I) as [pw [E D]].
  assert (Hn : forall (a b : result wire), match pw with WNil => a | _ => b end = b).
  { pose proof E as E2. unfold pin_to_val in E2. rewrite enc_struct in E2. destruct (fields_of raft_schema "Pin"); [|discriminate].
    apply rbind_ok in E2 as [ws [_ E2]]. inversion E2. reflexivity. }
  assert (T0 : (ty =? 0) = false) by (apply orb_true_iff in Wt as [T|T]; apply Z.eqb_eq in T; subst ty; reflexivity).
  unfold logop_step. cbn [fst snd].
  rewrite (enc_logop _ ty pw E Hn T0), (dec_onto_logop tg t0 _ ty pw D).
  unfold expected. cbn [fst snd].
  apply orb_true_iff in Wt as [T|T]; apply Z.eqb_eq in T; subst ty.
  - exact (apply_to_pin tg _ p (val_to_pin_to_val p) Wp).
  - exact (apply_to_unpin tg _ p (val_to_pin_to_val p)).
Qed.

Definition entry_ok (e : Z * pin) : bool := wf_entry e && negb (entry_has_iface e).

Theorem logop_reuse_roundtrip_l es : forall tg t0, forallb entry_ok es = true ->
  logop_apply_seq true (logop_val tg None t0) es = map expected es.
Proof.
  induction es as [|e r IH]; intros tg t0 H; [reflexivity|].
  cbn [forallb] in H. apply andb_true_iff in H as [He Hr]. unfold entry_ok in He. apply andb_true_iff in He as [W I].
  apply negb_true_iff in I.
  cbn [logop_apply_seq map]. rewrite (logop_step_wf tg t0 e W I). rewrite (IH tg (fst e) Hr).
  unfold expected. destruct (fst e =? 1); reflexivity.
Qed.

(* the assignment op.Cid = nil is what makes this true: the same loop without it *)
Definition reuse_first : pin :=
  mk_pin (mk_opts 2 3 "first entry" 0 1024 [] (Some (1790000000, 0%N)) [("owner", "alice")] (Some "QmOld") [])
         (Some "QmFirst") 2 [TOk "QmPeerA"] (-1) (Some (Some "QmRef")).
Definition reuse_second : pin := mk_pin (mk_opts 0 0 "" 1 0 [] None [] None []) (Some "QmSecond") 2 [] 0 None.
Definition reuse_second_stored : pin :=
  mk_pin (mk_opts 2 3 "first entry" 0 1024 [] (Some (1790000000, 0%N)) [("owner", "alice")] (Some "QmOld") [])
         (Some "QmSecond") 2 [TOk "QmPeerA"] (-1) (Some (Some "QmRef")).

Theorem logop_reuse_without_reset_refuted_l :
  exists p1 p2 tr st,
    forallb entry_ok [(1, p1); (1, p2)] = true /\ name (popts p2) = "" /\ name (popts p1) <> "" /\
    logop_apply_seq true logop_zero [(1, p1); (1, p2)] = [expected (1, p1); expected (1, p2)] /\
    logop_apply_seq false logop_zero [(1, p1); (1, p2)] = [expected (1, p1); SPinned tr st] /\
    name (popts st) = name (popts p1) /\ name (popts tr) = name (popts p1) /\ expected (1, p2) <> SPinned tr st.
Proof.
  exists reuse_first, reuse_second. eexists. exists reuse_second_stored.
  split; [vm_compute; reflexivity|]. split; [reflexivity|]. split; [discriminate|].
  split; [vm_compute; reflexivity|]. split; [vm_compute; reflexivity|].
  split; [reflexivity|]. split; [reflexivity|]. vm_compute. discriminate.
Qed.

(* ---------- streams of records ---------- *)
Section Stream.
Variable c : codec.
Variable sch : schema.
Hypothesis Hs : schema_ok c sch = true.
Variable t : ty.

(* the destination declared inside the loop: every record of a well-formed stream comes back as itself, whatever the
   destination held before the loop *)
Lemma stream_fresh_l vs : forallb (fun v => wf_val c sch true t false v && negb (has_iface sch t v)) vs = true ->
  exists ws, stream_encode c sch t vs = Ok ws /\ forall dest, stream_decode c sch t false dest ws = Ok vs.
Proof.
  induction vs as [|v r IH]; intros H; [exists []; split; [reflexivity | intros; reflexivity]|].
  cbn [forallb] in H. apply andb_true_iff in H as [Hv Hr]. apply andb_true_iff in Hv as [W I]. apply negb_true_iff in I.
  destruct (codec_roundtrip_guarded_l c sch Hs t v W I) as [w [E D]].
  destruct (IH Hr) as [ws [Es Ds]].
  exists (w :: ws). split.
  - cbn [stream_encode]. rewrite E. cbn [rbind]. rewrite Es. reflexivity.
  - intros dest. cbn [stream_decode]. rewrite dec_onto_zero_is_dec_l, D. cbn [rbind]. rewrite (Ds v). reflexivity.
Qed.
End Stream.

(* the destination hoisted out of the loop: two records are enough, in either codec *)
Definition stream_a : pin :=
  mk_pin (mk_opts 2 3 "first" 0 0 [] None [("owner", "alice")] None []) (Some "QmFirst") 2 [TOk "QmPeerA"] (-1) None.
Definition stream_b : pin :=
  mk_pin (mk_opts 0 0 "" 1 0 [] None [("tier", "gold")] None []) (Some "QmSecond") 2 [] 0 None.
(* msgpack: every empty member of the second pin is absent from the wire and keeps the first pin's value; the maps merge *)
Definition stream_b_msgpack : pin :=
  mk_pin (mk_opts 2 3 "first" 1 0 [] None [("owner", "alice"); ("tier", "gold")] None []) (Some "QmSecond") 2 [TOk "QmPeerA"] (-1) None.
(* JSON: every member but pin_update is written, so only the map shows it: the first pin's metadata stays *)
Definition stream_b_json : pin :=
  mk_pin (mk_opts 0 0 "" 1 0 [] None [("owner", "alice"); ("tier", "gold")] None []) (Some "QmSecond") 2 [] 0 None.

Lemma stream_reused_refuted_l : forall c,
  let vs := [pin_to_val stream_a; pin_to_val stream_b] in
  let t := TStruct "Pin" in
  forallb (fun v => wf_val c api_schema true t false v && negb (has_iface api_schema t v)) vs = true /\
  exists ws, stream_encode c api_schema t vs = Ok ws /\
    stream_decode c api_schema t false (zero_val t) ws = Ok vs /\
    stream_decode c api_schema t true (zero_val t) ws
      = Ok [pin_to_val stream_a; pin_to_val (match c with Msgpack => stream_b_msgpack | Json => stream_b_json end)] /\
    stream_decode c api_schema t true (zero_val t) ws <> Ok vs.
Proof.
  intros [|]; (split; [vm_compute; reflexivity|]); eexists; (split; [vm_compute; reflexivity|]);
    (split; [vm_compute; reflexivity|]); (split; [vm_compute; reflexivity|]); vm_compute; discriminate.
Qed.
