(* C18 — obligations on the generated table (Gen/Locksets.v), discharged by computation, and the
   soundness of the boolean forms. Recompiled at every run (it depends on Gen/). *)
From V Require Import Model.C18_Table Model.C18_Exempt Gen.Locksets.
From Coq Require Import Lia.

Lemma exemptb_spec ex a : exemptb ex a = true <-> exempt ex a.
Proof.
  unfold exemptb, exempt. rewrite existsb_exists. split; intros [e [H1 H2]]; exists e; split; auto.
  - now apply String.eqb_eq. - now apply String.eqb_eq.
Qed.

Lemma holdsb_spec a ne : guardedb a ne = true -> holds_guard a ne.
Proof.
  unfold guardedb, holds_guard. destruct (guard_of (a_ty a) (a_field a)) as [g|]; [|discriminate].
  unfold holdsb. rewrite existsb_exists. intros [l [Hin Hl]]. apply andb_true_iff in Hl. destruct Hl as [H1 H2].
  exists g, l. split; [reflexivity|]. split; [exact Hin|]. split; [now apply String.eqb_eq|].
  intros ->. destruct (l_excl l); auto.
Qed.

Lemma writtenb_complete ex accs a : written ex accs a -> writtenb ex accs a = true.
Proof.
  intros [b [Hin [Hl [Hk Hne]]]]. unfold writtenb. apply existsb_exists. exists b. split; auto.
  rewrite Hl. simpl. apply andb_true_iff. split.
  - unfold is_write. destruct (a_kind b); auto; congruence.
  - apply negb_true_iff. destruct (exemptb ex b) eqn:E; auto. apply exemptb_spec in E. contradiction.
Qed.

Lemma access_okb_sound ex accs a : access_okb ex accs a = true -> access_ok ex accs a.
Proof.
  unfold access_okb, access_ok. intros H. apply orb_true_iff in H. destruct H as [H|H].
  - left. now apply exemptb_spec.
  - right. apply andb_true_iff in H. destruct H as [Hu Hk]. apply negb_true_iff in Hu.
    destruct (a_kind a) eqn:K.
    + repeat split; try congruence. intros _ Hw. apply orb_true_iff in Hk. destruct Hk as [Hk|Hk].
      * apply negb_true_iff in Hk. rewrite (writtenb_complete _ _ _ Hw) in Hk. discriminate.
      * now apply holdsb_spec.
    + repeat split; try congruence. intros _. now apply holdsb_spec.
    + discriminate.
Qed.

Lemma discipline_okb_sound ex accs : discipline_okb ex accs = true -> forall a, In a accs -> access_ok ex accs a.
Proof. unfold discipline_okb. rewrite forallb_forall. intros H a Ha. apply access_okb_sound. auto. Qed.

(* ---------- the obligations, on the table generated from the current source ---------- *)
Lemma discipline_okb_holds : discipline_okb exemptions accesses = true.
Proof. vm_compute. reflexivity. Qed.

Lemma discipline_holds_l : forall a, In a accesses -> access_ok exemptions accesses a.
Proof. exact (discipline_okb_sound _ _ discipline_okb_holds). Qed.

Lemma lock_order_okb_holds : lock_order_okb nesting = true.
Proof. vm_compute. reflexivity. Qed.

Lemma lock_order_acyclic_l : exists rank : string -> nat, forall held acquired where_,
  In (held, acquired, where_) nesting -> (rank held < rank acquired)%nat.
Proof.
  exists (rank_of nesting). intros h a w Hin.
  pose proof lock_order_okb_holds as H. unfold lock_order_okb in H. rewrite forallb_forall in H.
  specialize (H _ Hin). unfold edge_okb in H. simpl in H. now apply PeanoNat.Nat.ltb_lt.
Qed.

Lemma accessors_atomic_l : atomic_okb exemptions accesses accessors = true.
Proof. vm_compute. reflexivity. Qed.

Lemma no_lock_leaks_l : leaks = [].
Proof. reflexivity. Qed.

Lemma table_covers_guards_l : coverage_okb tracked locks accesses = true.
Proof. vm_compute. reflexivity. Qed.
