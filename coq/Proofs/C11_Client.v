(* C11 — lemmas about the bundled client: the request each method builds (generated table Gen/RestClient.v),
   routed through the server model, performs exactly the operation of that method with the arguments given. *)
From V Require Import Base.Common Base.C11_Http Gen.RestRoutes Gen.RestClient Model.C11_Rest Model.C11_Check Model.C11_Tables Proofs.C11_Rest.
Open Scope string_scope.
Open Scope list_scope.

(* ------------------------------------------------------------------------------------------ *)
(* strings and segments                                                                       *)
(* ------------------------------------------------------------------------------------------ *)
Lemma app_nil_r_s (s : string) : (s ++ "")%string = s.
Proof. induction s as [|a s IH]; cbn; [reflexivity | rewrite IH; reflexivity]. Qed.

Lemma app_assoc_s (a b c : string) : ((a ++ b) ++ c)%string = (a ++ b ++ c)%string.
Proof. induction a as [|x a IH]; cbn; [reflexivity | rewrite IH; reflexivity]. Qed.

Lemma split_on_nonempty c s : forall acc, split_on c acc s <> [].
Proof. induction s as [|a s IH]; intros acc; cbn; [discriminate|]. destruct (Ascii.eqb a c); [discriminate | apply IH]. Qed.

Lemma split_on_nochar c s : forall acc, has_char c s = false -> split_on c acc s = [acc s].
Proof.
  induction s as [|a s IH]; intros acc H; cbn in *; [reflexivity|].
  apply orb_false_elim in H as [H1 H2]. rewrite H1. rewrite (IH _ H2). reflexivity.
Qed.

Lemma split_on_app c a b : forall acc, has_char c a = false ->
  split_on c acc (a ++ String c b) = acc a :: split_on c (fun x => x) b.
Proof.
  induction a as [|x a IH]; intros acc H; cbn in *.
  - rewrite Ascii.eqb_refl. reflexivity.
  - apply orb_false_elim in H as [H1 H2]. rewrite H1. rewrite (IH _ H2). reflexivity.
Qed.

Lemma join_slash_cons x l : l <> [] -> join_slash (x :: l) = (x ++ "/" ++ join_slash l)%string.
Proof. destruct l; [congruence | reflexivity]. Qed.

Lemma join_split s : forall acc pre, (forall x, acc x = (pre ++ x)%string) -> join_slash (split_on slash acc s) = (pre ++ s)%string.
Proof.
  induction s as [|a s IH]; intros acc pre H; cbn [split_on].
  - cbn. apply H.
  - destruct (Ascii.eqb a slash) eqn:E.
    + apply Ascii.eqb_eq in E. subst a. rewrite join_slash_cons by apply split_on_nonempty.
      rewrite (IH (fun x => x) "") by reflexivity. rewrite H, app_nil_r_s. reflexivity.
    + rewrite (IH _ (pre ++ String a "")%string).
      * rewrite app_assoc_s. reflexivity.
      * intros x. rewrite H, app_assoc_s. reflexivity.
Qed.

Lemma join_segments s : join_slash (split_on slash (fun x => x) s) = s.
Proof. apply (join_split s (fun x => x) ""). reflexivity. Qed.

Lemma ends_empty_cons x l : l <> [] -> ends_empty (x :: l) = ends_empty l.
Proof. destruct l; [congruence | reflexivity]. Qed.

Lemma last_is_cons c a s : s <> "" -> last_is c (String a s) = last_is c s.
Proof. destruct s; [congruence | reflexivity]. Qed.

Lemma ends_empty_split s : forall acc, (s = "" -> acc "" <> "") -> last_is slash s = false -> (forall x, x <> "" -> acc x <> "") ->
  ends_empty (split_on slash acc s) = false.
Proof.
  induction s as [|a s IH]; intros acc H0 Hl Hacc; cbn [split_on].
  - cbn. apply String.eqb_neq. apply H0. reflexivity.
  - destruct (Ascii.eqb a slash) eqn:E.
    + rewrite ends_empty_cons by apply split_on_nonempty.
      destruct s as [|b s].
      * cbn in Hl. rewrite E in Hl. discriminate.
      * apply IH; [discriminate | rewrite last_is_cons in Hl by discriminate; exact Hl | intros x Hx; exact Hx].
    + apply IH.
      * intros _. apply Hacc. discriminate.
      * destruct s as [|b s]; [reflexivity | rewrite last_is_cons in Hl by discriminate; exact Hl].
      * intros x _. apply Hacc. discriminate.
Qed.

Lemma trim_slash_id s : last_is slash s = false -> trim_slash s = s.
Proof.
  induction s as [|a s IH]; intros H; [reflexivity|].
  destruct s as [|b s].
  - cbn in *. unfold slash in H. rewrite H. reflexivity.
  - rewrite last_is_cons in H by discriminate.
    change (trim_slash (String a (String b s))) with (String a (trim_slash (String b s))). rewrite (IH H). reflexivity.
Qed.

(* a single path segment: what a CID, a peer ID or a metric name must be for the path built by Sprintf to have the
   segments the route expects (go-cid / peer.ID strings always are; a metric name is whatever the caller passes) *)
Definition plain_seg (s : string) : Prop := s <> "" /\ has_char slash s = false /\ s <> "." /\ s <> "..".
(* "." and "..": mux cleanPath would answer 301 (abstract re_redirect, false in renv_of). Other characters are arbitrary: the
   client escapes the metric name since fix-S27, CIDs and peer IDs are alphanumeric. *)

Lemma plain_seg_eqb s : plain_seg s -> String.eqb s "" = false.
Proof. intros (H & _). apply String.eqb_neq. exact H. Qed.

(* ------------------------------------------------------------------------------------------ *)
(* the generated client table                                                                 *)
(* ------------------------------------------------------------------------------------------ *)
Lemma client_table_is : map (fun n => (n, client_entry n)) known_calls = map (fun r => (fst r, Some (snd r))) client_spec_table.
Proof. vm_compute. reflexivity. Qed.

(* and the table has no method the model does not know *)
Lemma client_table_complete : forallb (fun r : string * string * string => str_in (fst (fst r)) known_calls) client_requests = true.
Proof. vm_compute. reflexivity. Qed.

Lemma client_entry_known n v : sget n client_spec_table = Some v -> client_entry n = Some v.
Proof.
  intros H.
  assert (G : forall l : list (string * (string * string * bool)),
            map (fun n => (n, client_entry n)) (map fst l) = map (fun r => (fst r, Some (snd r))) l ->
            sget n l = Some v -> client_entry n = Some v).
  { induction l as [|[k w] l IH]; cbn [map sget fst snd]; intros E Hs; [discriminate|].
    injection E as E1 E2. destruct (String.eqb n k) eqn:En.
    - apply String.eqb_eq in En. subst k. inversion Hs; subst. exact E1.
    - apply IH; assumption. }
  apply (G client_spec_table); [exact client_table_is | exact H].
Qed.

Lemma client_request_known c m f loc : sget (cc_name c) client_spec_table = Some (m, f, loc) ->
  client_request c = match client_path_args c with
                     | Some args => Some (mk_rreq m (subst_fmt f args) (if loc then [("local", [if cc_local c then "true" else "false"])] else []) false)
                     | None => None end.
Proof.
  intros H. apply client_entry_known in H. unfold client_entry in H. unfold client_request, client_request_with.
  destruct (client_lookup client_requests 3 (cc_name c)) as [[m' f']|]; [|discriminate].
  inversion H; subst. reflexivity.
Qed.

(* ------------------------------------------------------------------------------------------ *)
(* from "routed to the handler whose spec is `sent`" to "the call arrives"                     *)
(* ------------------------------------------------------------------------------------------ *)
Record arrives (e : cenv) (sent : list (string * list string)) (r : cres) : Prop := {
  ar_not_refused : cr_refused r = false;
  ar_performed : performed (cr_calls r) sent;                 (* nothing but the operation of this method, in order *)
  ar_success : cr_err r = 0%Z -> cr_calls r = ok_calls sent /\ cr_ret r = Some (ce_answer e);
  ar_error : cr_err r <> 0%Z -> any_failed (cr_calls r) = true;   (* an error is the cluster's own *)
  ar_clean : any_failed (cr_calls r) = false -> cr_err r = 0%Z
}.

Lemma imp_failed_client h c e : imp_failed h (renv_of c e) = false.
Proof. destruct h; reflexivity. Qed.

Lemma arrives_of_ops c e rq h vars sent :
  client_request c = Some rq -> routed rq (renv_of c e) h vars ->
  spec_expect h vars (rr_query rq) (renv_of c e) = Ops sent -> arrives e sent (client_run c e).
Proof.
  intros Hq Hr Hs. unfold client_run. rewrite Hq. rewrite (rest_run_routed _ _ _ _ Hr).
  pose proof (handle_ops _ _ _ _ _ Hs) as Ho. set (r := handle h vars (rr_query rq) (renv_of c e)) in *.
  assert (Herr : errb r = (400 <=? rs_status r)%N || rs_serr r) by reflexivity.
  destruct (400 <=? rs_status r)%N eqn:E4; [|destruct (rs_serr r) eqn:Es]; cbn [cr_refused cr_calls cr_err cr_ret]; cbn [orb] in Herr.
  - assert (Hnz : Z.of_N (rs_status r) <> 0%Z) by (apply N.leb_le in E4; lia).
    constructor; cbn [cr_refused cr_calls cr_err cr_ret].
    + reflexivity.
    + apply (oo_performed _ _ _ _ Ho).
    + intros H0. contradiction.
    + intros _. destruct (oo_error _ _ _ _ Ho Herr) as [H|[H _]]; [exact H | rewrite imp_failed_client in H; discriminate].
    + intros Hf. destruct (oo_error _ _ _ _ Ho Herr) as [H|[H _]]; [congruence | rewrite imp_failed_client in H; discriminate].
  - constructor; cbn [cr_refused cr_calls cr_err cr_ret].
    + reflexivity.
    + apply (oo_performed _ _ _ _ Ho).
    + discriminate.
    + intros _. destruct (oo_error _ _ _ _ Ho Herr) as [H|[H _]]; [exact H | rewrite imp_failed_client in H; discriminate].
    + intros Hf. destruct (oo_error _ _ _ _ Ho Herr) as [H|[H _]]; [congruence | rewrite imp_failed_client in H; discriminate].
  - constructor; cbn [cr_refused cr_calls cr_err cr_ret].
    + reflexivity.
    + apply (oo_performed _ _ _ _ Ho).
    + intros _. split; [apply (oo_success _ _ _ _ Ho Herr) | reflexivity].
    + intros H. exfalso. apply H. reflexivity.
    + reflexivity.
Qed.

Lemma arrives_route c e m f loc args h vars sent :
  sget (cc_name c) client_spec_table = Some (m, f, loc) -> client_path_args c = Some args -> cauthorized e = true ->
  resolve true route_spec m (segments (subst_fmt f args)) false = MFull h vars ->
  spec_expect h vars (if loc then [("local", [if cc_local c then "true" else "false"])] else []) (renv_of c e) = Ops sent ->
  arrives e sent (client_run c e).
Proof.
  intros Ht Ha Hauth Hres Hs.
  pose proof (client_request_known c m f loc Ht) as Hq. rewrite Ha in Hq.
  eapply arrives_of_ops; [exact Hq | | exact Hs].
  unfold routed. cbn [rr_preflight rr_meth rr_path]. repeat split; [exact Hauth | exact Hres].
Qed.

(* ------------------------------------------------------------------------------------------ *)
(* routing of the paths the client builds                                                     *)
(* ------------------------------------------------------------------------------------------ *)
Local Arguments String.eqb !s1 !s2 : simpl nomatch.

Lemma resolve_hit strict m segs t h v post : forall pre seen,
  path_match strict t segs = PExact v ->
  (forall rm' t' h', In (rm', t', h') pre -> String.eqb m rm' = false \/ path_match strict t' segs = PNo) ->
  resolve strict (pre ++ (m, t, h) :: post) m segs seen = MFull h v.
Proof.
  induction pre as [|[[rm' t'] h'] pre IH]; intros seen Hp Hpre; cbn [app resolve].
  - rewrite Hp, String.eqb_refl. reflexivity.
  - destruct (Hpre rm' t' h' (or_introl eq_refl)) as [Hm|Hn].
    + rewrite Hm. destruct (path_match strict t' segs); apply IH; try exact Hp; intros a b d Hi; apply (Hpre a b d); right; exact Hi.
    + rewrite Hn. apply IH; [exact Hp | intros a b d Hi; apply (Hpre a b d); right; exact Hi].
Qed.

Ltac pm_eval H1 H2 := unfold path_match, L; cbn; rewrite ?H1, ?H2; cbn; rewrite ?H1, ?H2; cbn; try reflexivity;
  try (repeat match goal with |- context[if ?b then _ else _] => destruct b end; reflexivity).

Ltac route_at n entry H1 H2 :=
  change route_spec with (firstn n route_spec ++ entry :: skipn (S n) route_spec);
  apply resolve_hit;
  [ pm_eval H1 H2
  | cbn [firstn route_spec In]; let rm' := fresh "rm" in let t' := fresh "t" in let h' := fresh "h" in let Hin := fresh "Hin" in
    intros rm' t' h' Hin;
    repeat (destruct Hin as [Hin|Hin]; [inversion Hin; subst; clear Hin; first [left; reflexivity | right; pm_eval H1 H2]|]); try contradiction ].

Ltac seg_one Hns := unfold segments; cbn [append split_on Ascii.eqb Bool.eqb slash]; rewrite (split_on_nochar _ _ _ Hns).

Lemma R_PeerRm x : plain_seg x ->
  resolve true route_spec "DELETE" (segments ("/peers/" ++ x)) false = MFull RPeerRemove [("peer", x)].
Proof.
  intros (Hne & Hns & _). apply String.eqb_neq in Hne. seg_one Hns.
  route_at 4%nat ("DELETE", [L ""; L "peers"; TVar "peer"], RPeerRemove) Hne Hne.
Qed.

Lemma R_Pin x : plain_seg x -> x <> "recover" ->
  resolve true route_spec "POST" (segments ("/pins/" ++ x)) false = MFull RPin [("hash", x)].
Proof.
  intros (Hne & Hns & _) Hr. apply String.eqb_neq in Hne.
  assert (Hr' : String.eqb "recover" x = false) by (apply String.eqb_neq; congruence).
  seg_one Hns. route_at 13%nat ("POST", [L ""; L "pins"; TVar "hash"], RPin) Hne Hr'.
Qed.

Lemma R_Unpin x : plain_seg x ->
  resolve true route_spec "DELETE" (segments ("/pins/" ++ x)) false = MFull RUnpin [("hash", x)].
Proof.
  intros (Hne & Hns & _). apply String.eqb_neq in Hne. seg_one Hns.
  route_at 14%nat ("DELETE", [L ""; L "pins"; TVar "hash"], RUnpin) Hne Hne.
Qed.

Lemma R_Status x : plain_seg x ->
  resolve true route_spec "GET" (segments ("/pins/" ++ x)) false = MFull RStatus [("hash", x)].
Proof.
  intros (Hne & Hns & _). apply String.eqb_neq in Hne. seg_one Hns.
  route_at 12%nat ("GET", [L ""; L "pins"; TVar "hash"], RStatus) Hne Hne.
Qed.

Lemma R_Allocation x : plain_seg x ->
  resolve true route_spec "GET" (segments ("/allocations/" ++ x)) false = MFull RAllocation [("hash", x)].
Proof.
  intros (Hne & Hns & _). apply String.eqb_neq in Hne. seg_one Hns.
  route_at 7%nat ("GET", [L ""; L "allocations"; TVar "hash"], RAllocation) Hne Hne.
Qed.

Lemma R_Metrics x : plain_seg x ->
  resolve true route_spec "GET" (segments ("/monitor/metrics/" ++ x)) false = MFull RMetrics [("name", x)].
Proof.
  intros (Hne & Hns & _). apply String.eqb_neq in Hne. seg_one Hns.
  route_at 19%nat ("GET", [L ""; L "monitor"; L "metrics"; TVar "name"], RMetrics) Hne Hne.
Qed.

(* the CID of Recover must not be one of the three key types: POST /pins/ipfs/recover is a path (a CID string never is) *)
Lemma R_Recover x : plain_seg x -> ~ In x ["ipfs"; "ipns"; "ipld"] ->
  resolve true route_spec "POST" (segments ("/pins/" ++ x ++ "/recover")) false = MFull RRecover [("hash", x)].
Proof.
  intros (Hne & Hns & _) Hnk. apply String.eqb_neq in Hne.
  assert (Hkt : (String.eqb x "ipfs") || ((String.eqb x "ipns") || ((String.eqb x "ipld") || false)) = false).
  { destruct (String.eqb x "ipfs") eqn:E1; [apply String.eqb_eq in E1; exfalso; apply Hnk; rewrite E1; cbn; auto|].
    destruct (String.eqb x "ipns") eqn:E2; [apply String.eqb_eq in E2; exfalso; apply Hnk; rewrite E2; cbn; auto|].
    destruct (String.eqb x "ipld") eqn:E3; [apply String.eqb_eq in E3; exfalso; apply Hnk; rewrite E3; cbn; auto|]. reflexivity. }
  unfold segments. cbn [append split_on Ascii.eqb Bool.eqb slash].
  change (x ++ "/recover")%string with (x ++ String slash "recover")%string. rewrite (split_on_app _ _ _ _ Hns).
  cbn [split_on Ascii.eqb Bool.eqb slash].
  route_at 10%nat ("POST", [L ""; L "pins"; TVar "hash"; L "recover"], RRecover) Hne Hkt.
Qed.

Lemma pm_no_trailing t segs : ends_empty segs = false ->
  path_match true t segs = match match_segs t segs with Some v => PExact v | None => PNo end.
Proof. intros H. unfold path_match. rewrite H. cbn [andb]. destruct (match_segs t segs); reflexivity. Qed.

Lemma kt_facts kt : In kt ["ipfs"; "ipns"; "ipld"] ->
  String.eqb kt "" = false /\ String.eqb "recover" kt = false /\ String.eqb "peers" kt = false /\ str_in kt ["ipfs"; "ipns"; "ipld"] = true /\ has_char slash kt = false.
Proof. cbn [In]. intros [<-|[<-|[<-|[]]]]; repeat split; reflexivity. Qed.

(* "/pins" ++ "/<ipfs|ipns|ipld>/<rest>": rest non-empty and not ending in '/' (PinPath is listed before Recover since fix-S26,
   so the rest may be anything, also the single segment "recover") *)
Lemma R_Path (post : bool) kt rest : In kt ["ipfs"; "ipns"; "ipld"] -> rest <> "" -> last_is slash rest = false ->
  resolve true route_spec (if post then "POST" else "DELETE") (segments ("/pins/" ++ kt ++ "/" ++ rest)) false
  = MFull (if post then RPinPath else RUnpinPath) [("keyType", kt); ("path", rest)].
Proof.
  intros Hk Hne Hl. destruct (kt_facts kt Hk) as (Hk1 & Hk2 & Hk4 & Hk3 & Hks).
  unfold segments. cbn [append split_on Ascii.eqb Bool.eqb slash].
  change (kt ++ "/" ++ rest)%string with (kt ++ String slash rest)%string. rewrite (split_on_app _ _ _ _ Hks).
  pose proof (split_on_nonempty slash rest (fun x => x)) as Hn.
  pose proof (join_segments rest) as Hj.
  assert (He : ends_empty (split_on slash (fun x => x) rest) = false).
  { apply ends_empty_split; [intros E; contradiction | exact Hl | intros x Hx; exact Hx]. }
  destruct (split_on slash (fun x => x) rest) as [|s1 S'] eqn:ES; [congruence|]. clear Hn.
  assert (Het : ends_empty ("" :: "pins" :: kt :: s1 :: S') = false) by (rewrite !ends_empty_cons by discriminate; exact He).
  destruct post.
  - change route_spec with (firstn 9 route_spec ++ ("POST", [L ""; L "pins"; TAlt "keyType" ["ipfs"; "ipns"; "ipld"]; TRest "path"], RPinPath) :: skipn 10 route_spec).
    apply resolve_hit.
    + rewrite (pm_no_trailing _ _ Het). unfold L. cbn [match_segs]. cbn. cbn in Hk3, Hj. rewrite Hk3, Hj. reflexivity.
    + cbn [firstn route_spec In]. intros rm' t' h' Hin.
      repeat (destruct Hin as [Hin|Hin]; [inversion Hin; subst rm' t' h'; clear Hin; first [left; reflexivity | right; rewrite (pm_no_trailing _ _ Het); unfold L; cbn; rewrite ?Hk1, ?Hk2, ?Hk4; cbn; try reflexivity]|]); try contradiction.
  - change route_spec with (firstn 15 route_spec ++ ("DELETE", [L ""; L "pins"; TAlt "keyType" ["ipfs"; "ipns"; "ipld"]; TRest "path"], RUnpinPath) :: skipn 16 route_spec).
    apply resolve_hit.
    + rewrite (pm_no_trailing _ _ Het). unfold L. cbn [match_segs]. cbn. cbn in Hk3, Hj. rewrite Hk3, Hj. reflexivity.
    + cbn [firstn route_spec In]. intros rm' t' h' Hin.
      repeat (destruct Hin as [Hin|Hin]; [inversion Hin; subst rm' t' h'; clear Hin; first [left; reflexivity | right; rewrite (pm_no_trailing _ _ Het); unfold L; cbn; rewrite ?Hk1, ?Hk2, ?Hk4; cbn; try reflexivity]|]); try contradiction.
Qed.

(* ------------------------------------------------------------------------------------------ *)
(* client_faithful                                                                            *)
(* ------------------------------------------------------------------------------------------ *)
(* an IPFS path as go-path prints it, up to one trailing '/': "/<ipfs|ipns|ipld>/<rest>", rest non-empty, not ending in '/',
   and canonical: no empty, "." or ".." segment (mux cleanPath answers those with a 301 the client cannot follow for a POST or
   DELETE; in the model that outcome is the abstract re_redirect, which renv_of sets to false). The characters of rest are otherwise
   arbitrary: since fix-S27 the client escapes the path and net/url's unescape on the server is its inverse (trusted). *)
Definition canonical_segs (rest : string) : Prop := forall s, In s (segments rest) -> s <> "" /\ s <> "." /\ s <> "..".
Definition ipfs_path_ok (p : string) : Prop :=
  exists kt rest, In kt ["ipfs"; "ipns"; "ipld"] /\ trim_slash p = ("/" ++ kt ++ "/" ++ rest)%string /\
    rest <> "" /\ last_is slash rest = false /\ canonical_segs rest.

(* the guard: arguments that are what they claim to be as far as the URL path is concerned *)
Definition client_guard (c : ccall) : Prop :=
  let n := cc_name c in
  (In n ["Pin"; "Unpin"; "Allocation"; "Status"; "Recover"] -> plain_seg (cc_cid c)) /\
  (n = "Pin" -> cc_cid c <> "recover") /\                              (* POST /pins/recover is RecoverAll *)
  (n = "Recover" -> ~ In (cc_cid c) ["ipfs"; "ipns"; "ipld"]) /\      (* POST /pins/ipfs/recover is a path *)
  (n = "PeerRm" -> plain_seg (cc_peer c)) /\
  (n = "Metrics" -> plain_seg (cc_mname c)) /\
  (In n ["PinPath"; "UnpinPath"] -> exists p, cc_path c = Some p /\ ipfs_path_ok p) /\
  (n = "StatusAll" -> cc_filter c <> None).

(* the server's parsers give back what the client's printers were given: CID, peer ID and path unchanged, the
   options as o, the status filter as f (for options and filters this is C08's query / status-name round trip) *)
Definition rt_ok (c : ccall) (e : cenv) (o f : string) : Prop :=
  let n := cc_name c in
  (In n ["Pin"; "Unpin"; "Allocation"; "Status"; "Recover"] -> ce_rt_cid e = Some (cc_cid c) /\ ce_rt_opts e = Some o) /\
  (In n ["PinPath"; "UnpinPath"] -> (forall p, cc_path c = Some p -> ce_rt_path e = Some (trim_slash p)) /\ ce_rt_opts e = Some o) /\
  (In n ["PeerAdd"; "PeerRm"] -> ce_rt_peer e = Some (cc_peer c)) /\
  (n = "StatusAll" -> ce_rt_filter e = Some f) /\
  (In n ["Add"; "AddMultiFile"] -> exists st, ce_rt_add e = Some (o, st)).

Definition client_op (c : ccall) : string :=
  match sget (cc_name c) client_ops with Some (g, l) => if cc_local c then l else g | None => "unknown client call" end.

(* the operation each client method denotes, with the arguments as given (hand-written) *)
Definition client_sent (c : ccall) (e : cenv) (o f : string) : list (string * list string) :=
  let n := cc_name c in
  if str_in n ["Add"; "AddMultiFile"]
  then [("Cluster.BlockAllocate", []); ("IPFSConnector.BlockPut", []); ("Cluster.Pin", [ce_root e; o; "-1"])]
  else [(client_op c,
         if str_in n ["Pin"; "Unpin"] then [cc_cid c; o; "-1"]
         else if str_in n ["PinPath"; "UnpinPath"] then match cc_path c with Some p => [trim_slash p; o] | None => [] end
         else if str_in n ["Allocation"; "Status"; "Recover"] then [cc_cid c]
         else if str_in n ["PeerAdd"; "PeerRm"] then [cc_peer c]
         else if String.eqb n "StatusAll" then [f]
         else if String.eqb n "Metrics" then [cc_mname c]
         else [])].

Ltac name_is Hn := rewrite <- Hn.

Ltac cf_closed c Hn Hauth mm ff ll hh :=
  eapply arrives_route with (m := mm) (f := ff) (loc := ll) (args := @nil string) (h := hh) (vars := @nil (string * string));
  [ name_is Hn; reflexivity
  | unfold client_path_args; name_is Hn; reflexivity
  | exact Hauth
  | vm_compute; reflexivity
  | unfold client_sent, client_op; name_is Hn; cbn; destruct (cc_local c); reflexivity ].

Lemma client_faithful_l c e o f :
  In (cc_name c) known_calls -> cauthorized e = true -> client_guard c -> rt_ok c e o f ->
  arrives e (client_sent c e o f) (client_run c e).
Proof.
  intros Hk Hauth (Gcid & Grec & Grecv & Gpeer & Gm & Gpath & Gf) (Rcid & Rpath & Rpeer & Rf & Radd).
  cbv zeta in *. unfold known_calls in Hk. cbn [map fst client_spec_table In] in Hk.
  repeat (destruct Hk as [Hn|Hk]); try contradiction.
  - (* ID *) cf_closed c Hn Hauth "GET" "/id" false RId.
  - (* Version *) cf_closed c Hn Hauth "GET" "/version" false RVersion.
  - (* Peers *) cf_closed c Hn Hauth "GET" "/peers" false RPeers.
  - (* PeerAdd *)
    assert (Hp : ce_rt_peer e = Some (cc_peer c)) by (apply Rpeer; rewrite <- Hn; cbn; tauto).
    eapply arrives_route with (m := "POST") (f := "/peers") (loc := false) (args := []) (h := RPeerAdd) (vars := []).
    + name_is Hn; reflexivity.
    + unfold client_path_args; name_is Hn; reflexivity.
    + exact Hauth.
    + vm_compute; reflexivity.
    + unfold client_sent, client_op; name_is Hn. cbn. rewrite Hp. destruct (cc_local c); reflexivity.
  - (* PeerRm *)
    assert (Hp : ce_rt_peer e = Some (cc_peer c)) by (apply Rpeer; rewrite <- Hn; cbn; tauto).
    assert (Hg : plain_seg (cc_peer c)) by (apply Gpeer; rewrite <- Hn; reflexivity).
    eapply arrives_route with (m := "DELETE") (f := "/peers/%s") (loc := false) (args := [cc_peer c]) (h := RPeerRemove) (vars := [("peer", cc_peer c)]).
    + name_is Hn; reflexivity.
    + unfold client_path_args; name_is Hn; reflexivity.
    + exact Hauth.
    + change (subst_fmt "/peers/%s" [cc_peer c]) with ("/peers/" ++ (cc_peer c ++ ""))%string. rewrite app_nil_r_s. apply R_PeerRm; exact Hg.
    + unfold client_sent, client_op; name_is Hn. cbn. unfold look. cbn [sget]. rewrite String.eqb_refl, Hp. destruct (cc_local c); reflexivity.
  - (* Pin *)
    destruct Rcid as [Hc Ho]; [rewrite <- Hn; cbn; tauto|].
    assert (Hg : plain_seg (cc_cid c)) by (apply Gcid; rewrite <- Hn; cbn; tauto).
    eapply arrives_route with (m := "POST") (f := "/pins/%s") (loc := false) (args := [cc_cid c]) (h := RPin) (vars := [("hash", cc_cid c)]).
    + name_is Hn; reflexivity.
    + unfold client_path_args; name_is Hn; reflexivity.
    + exact Hauth.
    + change (subst_fmt "/pins/%s" [cc_cid c]) with ("/pins/" ++ (cc_cid c ++ ""))%string. rewrite app_nil_r_s.
      apply R_Pin; [exact Hg | apply Grec; rewrite <- Hn; reflexivity].
    + unfold client_sent, client_op; name_is Hn. cbn. unfold look. cbn [sget]. rewrite String.eqb_refl, Hc, Ho. destruct (cc_local c); reflexivity.
  - (* Unpin *)
    destruct Rcid as [Hc Ho]; [rewrite <- Hn; cbn; tauto|].
    assert (Hg : plain_seg (cc_cid c)) by (apply Gcid; rewrite <- Hn; cbn; tauto).
    eapply arrives_route with (m := "DELETE") (f := "/pins/%s") (loc := false) (args := [cc_cid c]) (h := RUnpin) (vars := [("hash", cc_cid c)]).
    + name_is Hn; reflexivity.
    + unfold client_path_args; name_is Hn; reflexivity.
    + exact Hauth.
    + change (subst_fmt "/pins/%s" [cc_cid c]) with ("/pins/" ++ (cc_cid c ++ ""))%string. rewrite app_nil_r_s. apply R_Unpin; exact Hg.
    + unfold client_sent, client_op; name_is Hn. cbn. unfold look. cbn [sget]. rewrite String.eqb_refl, Hc, Ho. destruct (cc_local c); reflexivity.
  - (* PinPath *)
    destruct Rpath as [Hrp Ho]; [rewrite <- Hn; cbn; tauto|].
    destruct Gpath as (p & Hp & kt & rest & Hkt & Ht & Hne & Hl & _); [rewrite <- Hn; cbn; tauto|].
    specialize (Hrp p Hp).
    eapply arrives_route with (m := "POST") (f := "/pins%s") (loc := false) (args := [trim_slash p]) (h := RPinPath) (vars := [("keyType", kt); ("path", rest)]).
    + name_is Hn; reflexivity.
    + unfold client_path_args; name_is Hn. cbn. rewrite Hp. reflexivity.
    + exact Hauth.
    + change (subst_fmt "/pins%s" [trim_slash p]) with ("/pins" ++ (trim_slash p ++ ""))%string. rewrite app_nil_r_s, Ht.
      apply (R_Path true kt rest Hkt Hne Hl).
    + unfold client_sent, client_op; name_is Hn. cbn. rewrite Hp. cbn. rewrite (trim_slash_id _ Hl).
      change (String "/" (kt ++ String "/" rest)) with ("/" ++ kt ++ "/" ++ rest)%string. rewrite <- Ht. unfold look. cbn [sget]. rewrite String.eqb_refl, Hrp, Ho.
      destruct (cc_local c); reflexivity.
  - (* UnpinPath *)
    destruct Rpath as [Hrp Ho]; [rewrite <- Hn; cbn; tauto|].
    destruct Gpath as (p & Hp & kt & rest & Hkt & Ht & Hne & Hl & _); [rewrite <- Hn; cbn; tauto|].
    specialize (Hrp p Hp).
    eapply arrives_route with (m := "DELETE") (f := "/pins%s") (loc := false) (args := [trim_slash p]) (h := RUnpinPath) (vars := [("keyType", kt); ("path", rest)]).
    + name_is Hn; reflexivity.
    + unfold client_path_args; name_is Hn. cbn. rewrite Hp. reflexivity.
    + exact Hauth.
    + change (subst_fmt "/pins%s" [trim_slash p]) with ("/pins" ++ (trim_slash p ++ ""))%string. rewrite app_nil_r_s, Ht.
      apply (R_Path false kt rest Hkt Hne Hl).
    + unfold client_sent, client_op; name_is Hn. cbn. rewrite Hp. cbn. rewrite (trim_slash_id _ Hl).
      change (String "/" (kt ++ String "/" rest)) with ("/" ++ kt ++ "/" ++ rest)%string. rewrite <- Ht. unfold look. cbn [sget]. rewrite String.eqb_refl, Hrp, Ho.
      destruct (cc_local c); reflexivity.
  - (* Allocations *) cf_closed c Hn Hauth "GET" "/allocations" false RAllocations.
  - (* Allocation *)
    destruct Rcid as [Hc Ho]; [rewrite <- Hn; cbn; tauto|].
    assert (Hg : plain_seg (cc_cid c)) by (apply Gcid; rewrite <- Hn; cbn; tauto).
    eapply arrives_route with (m := "GET") (f := "/allocations/%s") (loc := false) (args := [cc_cid c]) (h := RAllocation) (vars := [("hash", cc_cid c)]).
    + name_is Hn; reflexivity.
    + unfold client_path_args; name_is Hn; reflexivity.
    + exact Hauth.
    + change (subst_fmt "/allocations/%s" [cc_cid c]) with ("/allocations/" ++ (cc_cid c ++ ""))%string. rewrite app_nil_r_s. apply R_Allocation; exact Hg.
    + unfold client_sent, client_op; name_is Hn. cbn. unfold look. cbn [sget]. rewrite String.eqb_refl, Hc, Ho. destruct (cc_local c); reflexivity.
  - (* Status *)
    destruct Rcid as [Hc Ho]; [rewrite <- Hn; cbn; tauto|].
    assert (Hg : plain_seg (cc_cid c)) by (apply Gcid; rewrite <- Hn; cbn; tauto).
    eapply arrives_route with (m := "GET") (f := "/pins/%s") (loc := true) (args := [cc_cid c]) (h := RStatus) (vars := [("hash", cc_cid c)]).
    + name_is Hn; reflexivity.
    + unfold client_path_args; name_is Hn; reflexivity.
    + exact Hauth.
    + change (subst_fmt "/pins/%s" [cc_cid c]) with ("/pins/" ++ (cc_cid c ++ ""))%string. rewrite app_nil_r_s. apply R_Status; exact Hg.
    + unfold client_sent, client_op; name_is Hn. cbn. unfold look. cbn [sget]. rewrite String.eqb_refl, Hc, Ho. destruct (cc_local c); reflexivity.
  - (* StatusAll *)
    specialize (Rf (eq_sym Hn)). assert (Hfl : cc_filter c <> None) by (apply Gf; rewrite <- Hn; reflexivity).
    eapply arrives_route with (m := "GET") (f := "/pins") (loc := true) (args := []) (h := RStatusAll) (vars := []).
    + name_is Hn; reflexivity.
    + unfold client_path_args; name_is Hn. cbn. destruct (cc_filter c); [reflexivity | congruence].
    + exact Hauth.
    + vm_compute; reflexivity.
    + unfold client_sent, client_op; name_is Hn. cbn. rewrite Rf. destruct (cc_local c); reflexivity.
  - (* Recover *)
    destruct Rcid as [Hc Ho]; [rewrite <- Hn; cbn; tauto|].
    assert (Hg : plain_seg (cc_cid c)) by (apply Gcid; rewrite <- Hn; cbn; tauto).
    eapply arrives_route with (m := "POST") (f := "/pins/%s/recover") (loc := true) (args := [cc_cid c]) (h := RRecover) (vars := [("hash", cc_cid c)]).
    + name_is Hn; reflexivity.
    + unfold client_path_args; name_is Hn; reflexivity.
    + exact Hauth.
    + change (subst_fmt "/pins/%s/recover" [cc_cid c]) with ("/pins/" ++ cc_cid c ++ "/recover")%string. apply R_Recover; [exact Hg | apply Grecv; rewrite <- Hn; reflexivity].
    + unfold client_sent, client_op; name_is Hn. cbn. unfold look. cbn [sget]. rewrite String.eqb_refl, Hc, Ho. destruct (cc_local c); reflexivity.
  - (* RecoverAll *) cf_closed c Hn Hauth "POST" "/pins/recover" true RRecoverAll.
  - (* Alerts *) cf_closed c Hn Hauth "GET" "/health/alerts" false RAlerts.
  - (* GetConnectGraph *) cf_closed c Hn Hauth "GET" "/health/graph" false RGraph.
  - (* Metrics *)
    assert (Hg : plain_seg (cc_mname c)) by (apply Gm; rewrite <- Hn; reflexivity).
    eapply arrives_route with (m := "GET") (f := "/monitor/metrics/%s") (loc := false) (args := [cc_mname c]) (h := RMetrics) (vars := [("name", cc_mname c)]).
    + name_is Hn; reflexivity.
    + unfold client_path_args; name_is Hn. cbn. rewrite (plain_seg_eqb _ Hg). reflexivity.
    + exact Hauth.
    + change (subst_fmt "/monitor/metrics/%s" [cc_mname c]) with ("/monitor/metrics/" ++ (cc_mname c ++ ""))%string. rewrite app_nil_r_s. apply R_Metrics; exact Hg.
    + unfold client_sent, client_op; name_is Hn. cbn. destruct (cc_local c); reflexivity.
  - (* MetricNames *) cf_closed c Hn Hauth "GET" "/monitor/metrics" false RMetricNames.
  - (* RepoGC *) cf_closed c Hn Hauth "POST" "/ipfs/gc" true RRepoGC.
  - (* Add *)
    destruct Radd as [st Ha]; [rewrite <- Hn; cbn; tauto|].
    eapply arrives_route with (m := "POST") (f := "/add") (loc := false) (args := []) (h := RAdd) (vars := []).
    + name_is Hn; reflexivity.
    + unfold client_path_args; name_is Hn; reflexivity.
    + exact Hauth.
    + vm_compute; reflexivity.
    + unfold client_sent; name_is Hn. cbn. rewrite Ha. reflexivity.
  - (* AddMultiFile *)
    destruct Radd as [st Ha]; [rewrite <- Hn; cbn; tauto|].
    eapply arrives_route with (m := "POST") (f := "/add") (loc := false) (args := []) (h := RAdd) (vars := []).
    + name_is Hn; reflexivity.
    + unfold client_path_args; name_is Hn; reflexivity.
    + exact Hauth.
    + vm_compute; reflexivity.
    + unfold client_sent; name_is Hn. cbn. rewrite Ha. reflexivity.
Qed.

Ltac canon_segs := let s := fresh "s" in let Hs := fresh "Hs" in
  intros s Hs; vm_compute in Hs; repeat (destruct Hs as [Hs|Hs]; [subst s; repeat split; discriminate|]); contradiction.

(* regression of S26 (fixed): PinPath("/ipns/recover") builds POST /pins/ipns/recover, which used to be taken by the
   Recover route (then listed first) with hash = "ipns": 400, nothing arrived. It is within the guard now. *)
Definition recover_call : ccall := mk_ccall "PinPath" false "" "" (Some "/ipns/recover") "" None (Some ["/ipns/recover"; "o"]).
Definition recover_env : cenv := mk_cenv None None None None (Some "/ipns/recover") (Some "o") None None "" [] "{}".

Lemma pinpath_recover_run :
  client_run recover_call recover_env = mk_cres [("Cluster.PinPath", ["/ipns/recover"; "o"], false)] 0 (Some "{}") false.
Proof. vm_compute. reflexivity. Qed.

Lemma pinpath_recover_in_guard : client_guard recover_call /\ rt_ok recover_call recover_env "o" "".
Proof.
  split.
  - unfold client_guard. cbn [cc_name recover_call cc_cid cc_peer cc_mname cc_path cc_filter In].
    split; [intros H; repeat (destruct H as [H|H]; try discriminate); contradiction|].
    split; [intros H; discriminate|]. split; [intros H; discriminate|]. split; [intros H; discriminate|]. split; [intros H; discriminate|].
    split; [|intros H; discriminate].
    intros _. exists "/ipns/recover". split; [reflexivity|]. exists "ipns", "recover". split; [cbn; tauto|]. split; [reflexivity|]. split; [discriminate|]. split; [reflexivity|]. canon_segs.
  - unfold rt_ok. cbn [cc_name recover_call In].
    split; [intros H; repeat (destruct H as [H|H]; try discriminate); contradiction|].
    split; [intros _; split; [intros p Hp; inversion Hp; subst; reflexivity | reflexivity]|].
    split; [intros H; repeat (destruct H as [H|H]; try discriminate); contradiction|].
    split; [intros H; discriminate|].
    intros H; repeat (destruct H as [H|H]; try discriminate); contradiction.
Qed.

(* non-vacuity of the guards *)
Example client_guard_example :
  let c := mk_ccall "PinPath" false "QmCid" "QmPeer" (Some "/ipfs/QmCid/a/b/") "ping" (Some "") None in
  client_guard c /\ plain_seg "ping" /\ ~ plain_seg "a/b".
Proof.
  cbv zeta. split; [|split].
  - unfold client_guard. cbn [cc_name cc_cid cc_peer cc_mname cc_path cc_filter In]. repeat split;
      try (intros H; repeat (destruct H as [H|H]; try discriminate); contradiction); try discriminate.
    intros _. exists "/ipfs/QmCid/a/b/". split; [reflexivity|]. exists "ipfs", "QmCid/a/b". split; [cbn; tauto|]. split; [reflexivity|]. split; [discriminate|]. split; [reflexivity|]. canon_segs.
  - repeat split; try discriminate.
  - intros (_ & H & _). discriminate.
Qed.

(* ------------------------------------------------------------------------------------------ *)
(* the boolean monitor for client cases                                                       *)
(* ------------------------------------------------------------------------------------------ *)
Inductive ClientSpec (c : ccall) (e : cenv) (o : cobs) : Prop :=
| CS_unauth : cauthorized e = false -> (co_err o = 401%Z \/ co_refused o = true) -> co_calls o = [] -> ClientSpec c e o
| CS_refused : cauthorized e = true -> client_expected c = None -> co_calls o = [] -> co_err o <> 0%Z -> ClientSpec c e o
| CS_ok exp : cauthorized e = true -> client_expected c = Some exp -> co_err o = 0%Z ->
    co_calls o = ok_calls exp -> co_ret o = ce_answer e -> ClientSpec c e o
| CS_err exp : cauthorized e = true -> client_expected c = Some exp -> co_err o <> 0%Z ->
    any_failed (co_calls o) = true -> performed (co_calls o) exp -> ClientSpec c e o.

Lemma spec_okb_client_sound c e o : spec_okb_client c e o = true -> ClientSpec c e o.
Proof.
  unfold spec_okb_client. rewrite is_nil_true. unfold spec_codes_client.
  destruct (cauthorized e) eqn:Ha; cbn [negb].
  2:{ intros H. apply if_nil_true in H. apply andb_prop in H as [H1 H2]. apply CS_unauth; [exact Ha | | apply is_nil_true; exact H2].
      apply orb_prop in H1 as [H1|H1]; [left; apply Z.eqb_eq; exact H1 | right; exact H1]. }
  destruct (client_expected c) as [exp|] eqn:Ee.
  - destruct (Z.eqb (co_err o) 0) eqn:Ez.
    + intros H. apply app_eq_nil in H as [H1 H2]. apply if_nil_true in H1. apply if_nil_true in H2.
      apply CS_ok with (exp := exp); [exact Ha | exact Ee | apply Z.eqb_eq; exact Ez | apply rcalls_eqb_eq; exact H1 | apply String.eqb_eq; exact H2].
    + intros H. apply if_nil_true in H. apply andb_prop in H as [H1 H2].
      apply CS_err with (exp := exp); [exact Ha | exact Ee | apply Z.eqb_neq; exact Ez | exact H1 | apply prefix_ops_performed; exact H2].
  - intros H. apply if_nil_true in H. apply andb_prop in H as [H1 H2].
    apply CS_refused; [exact Ha | exact Ee | apply is_nil_true; exact H1 |].
    apply negb_true_iff in H2. apply Z.eqb_neq. exact H2.
Qed.

Definition cobs_of (r : cres) : cobs :=
  mk_cobs (cr_calls r) (cr_err r) (match cr_ret r with Some s => s | None => "" end) (cr_refused r).

(* without a listed pair the library's call performs nothing, whatever the call *)
Lemma client_unauth_l c e : cauthorized e = false ->
  cr_calls (client_run c e) = [] /\ (cr_err (client_run c e) = 401%Z \/ cr_refused (client_run c e) = true).
Proof.
  intros Ha. unfold client_run. destruct (client_request c) as [rq|]; [|split; [reflexivity | right; reflexivity]].
  assert (Hn : ~ listed_pair (renv_of c e)).
  { rewrite <- authorized_spec. change (authorized (renv_of c e)) with (cauthorized e). rewrite Ha. discriminate. }
  destruct (auth_total_l rq (renv_of c e) Hn) as (H1 & H2 & _).
  rewrite H2. cbn. split; [exact H1 | left; reflexivity].
Qed.

Lemma arrives_codes c e sent : cauthorized e = true -> client_expected c = Some sent ->
  arrives e sent (client_run c e) -> spec_okb_client c e (cobs_of (client_run c e)) = true.
Proof.
  intros Ha He H. unfold spec_okb_client. apply is_nil_true. unfold spec_codes_client. rewrite Ha, He. cbn [negb cobs_of co_err co_calls co_ret].
  destruct (Z.eqb (cr_err (client_run c e)) 0) eqn:Ez.
  - apply Z.eqb_eq in Ez. destruct (ar_success _ _ _ H Ez) as [H1 H2]. rewrite H1, H2, rcalls_eqb_refl, String.eqb_refl. reflexivity.
  - apply Z.eqb_neq in Ez. rewrite (ar_error _ _ _ H Ez). cbn [andb].
    rewrite (proj2 (prefix_ops_performed _ _) (ar_performed _ _ _ H)). reflexivity.
Qed.

(* the model passes the client monitor: always when credentials are missing, and for every known call whose given
   arguments (as rendered by the harness, cc_given) are the ones the round trip preserves *)
Lemma client_model_satisfies_l c e o f :
  (cauthorized e = true -> In (cc_name c) known_calls /\ client_guard c /\ rt_ok c e o f /\ client_expected c = Some (client_sent c e o f)) ->
  spec_okb_client c e (cobs_of (client_run c e)) = true.
Proof.
  intros H. destruct (cauthorized e) eqn:Ha.
  - destruct (H eq_refl) as (Hk & Hg & Hr & He). apply (arrives_codes c e _ Ha He). apply client_faithful_l; assumption.
  - unfold spec_okb_client. apply is_nil_true. unfold spec_codes_client. rewrite Ha. cbn [negb cobs_of co_err co_calls co_refused].
    destruct (client_unauth_l c e Ha) as [H1 H2]. rewrite H1. cbn [is_nil]. rewrite andb_true_r.
    destruct H2 as [H2|H2]; rewrite H2; [reflexivity | rewrite orb_true_r; reflexivity].
Qed.
