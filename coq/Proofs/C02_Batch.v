(* C02 layer A — lemmas about the batch worker machine (Model/C02_Batch.v). *)
From V Require Import Base.Common Model.C02_Batch.
Open Scope N_scope.

Section BatchLemmas.
Context {A : Type}.
Implicit Types (s : bst A) (e : bev A) (c : bcfg).

Lemma fold_inv (P : bst A -> Prop) c :
  (forall s e, P s -> P (bstep c s e)) -> forall es s, P s -> P (fold_left (bstep c) es s).
Proof. intros H es. induction es as [|e r IH]; simpl; auto. Qed.

Lemma run_inv (P : bst A -> Prop) c :
  (forall s e, P s -> P (bstep c s e)) -> P binit -> forall es, P (brun c es).
Proof. intros H H0 es. unfold brun. now apply fold_inv. Qed.

Lemma added_app (l1 l2 : list (A * bool)) : added (l1 ++ l2) = added l1 ++ added l2.
Proof. unfold added. now rewrite filter_app, map_app. Qed.

Lemma added_snoc (l : list (A * bool)) i b : added (l ++ [(i, b)]) = added l ++ (if b then [i] else []).
Proof. rewrite added_app. destruct b; reflexivity. Qed.

(* ---- no loss, no reorder ---- *)
Definition inv_order s : Prop :=
  accepted s = map fst (tlog s) ++ queue s /\ added (tlog s) = concat (committed s) ++ pend s.

Lemma step_inv_order c s e : inv_order s -> inv_order (bstep c s e).
Proof.
  unfold inv_order. intros [H1 H2]. destruct e as [i|ok|ok| |ok|j|sk]; simpl.
  - destruct (_ <? qcap c); simpl; split; auto. rewrite H1, app_assoc. reflexivity.
  - destruct (blocked s); [auto|]. destruct (pc s); [|auto]. destruct (queue s) as [|i q] eqn:Q; [rewrite Q; auto|].
    destruct ok; simpl.
    + rewrite map_app, added_snoc, H1, H2. simpl. rewrite <- !app_assoc. auto.
    + rewrite map_app, added_snoc, H1, H2. simpl. rewrite <- !app_assoc, app_nil_r. auto.
  - destruct (blocked s); [auto|]. destruct (pc s); [auto|]. destruct ok; simpl; [|auto].
    destruct (t_stop_drain (tm s)) as [t2 blk]. simpl. split; auto.
    rewrite H2, concat_app. simpl. now rewrite !app_nil_r.
  - auto.
  - destruct (blocked s); [auto|]. destruct (pc s); [|auto]. destruct (t_chan (tm s)); [|auto].
    destruct (fixed_S28 c && (cur s =? 0)); [simpl; auto|].
    destruct ok; simpl; [|auto]. split; auto. rewrite H2, concat_app. simpl. now rewrite !app_nil_r.
  - auto.
  - destruct (blocked s); [auto|]. destruct (pc s); [|auto]. destruct (queue s) eqn:Q; [|rewrite Q; auto].
    destruct (fixed_S35 c && (0 <? cur s) && sk); [|rewrite Q; auto]. simpl. rewrite app_nil_r in *.
    split; auto. rewrite H2, concat_app. simpl. now rewrite !app_nil_r.
Qed.

Lemma run_inv_order c es : inv_order (brun c es).
Proof. apply run_inv; [apply step_inv_order|]. split; reflexivity. Qed.

(* a refused submission changes nothing but the record of refusals *)
Lemma refused_no_effect c s i : qcap c <= N.of_nat (length (queue s)) ->
  bstep c s (Enq i) = mk_bst (queue s) (cur s) (tm s) (pend s) (committed s) (tlog s) (pc s) (blocked s) (accepted s) (refused s ++ [i]).
Proof. intros H. simpl. destruct (N.ltb_spec (N.of_nat (length (queue s))) (qcap c)); [lia|reflexivity]. Qed.

Lemma accepted_when_room c s i : N.of_nat (length (queue s)) < qcap c ->
  queue (bstep c s (Enq i)) = queue s ++ [i] /\ accepted (bstep c s (Enq i)) = accepted s ++ [i] /\ refused (bstep c s (Enq i)) = refused s.
Proof. intros H. simpl. destruct (N.ltb_spec (N.of_nat (length (queue s))) (qcap c)); [simpl; auto|lia]. Qed.

Definition inv_cap c s : Prop := N.of_nat (length (queue s)) <= qcap c.
Lemma step_inv_cap c s e : inv_cap c s -> inv_cap c (bstep c s e).
Proof.
  unfold inv_cap. intros H. destruct e as [i|ok|ok| |ok|j|sk]; simpl; auto.
  - destruct (N.ltb_spec (N.of_nat (length (queue s))) (qcap c)); simpl; auto. rewrite app_length. simpl. lia.
  - destruct (blocked s); [auto|]. destruct (pc s); [|auto]. destruct (queue s) as [|i q] eqn:Q; [rewrite Q; auto|].
    simpl in H. destruct ok; simpl; lia.
  - destruct (blocked s); [auto|]. destruct (pc s); [auto|]. destruct ok; simpl; auto. destruct (t_stop_drain _); auto.
  - destruct (blocked s); [auto|]. destruct (pc s); [|auto]. destruct (t_chan _); [|auto].
    destruct (fixed_S28 c && (cur s =? 0)); [auto|]. destruct ok; auto.
  - destruct (blocked s); [auto|]. destruct (pc s); [|auto]. destruct (queue s) eqn:Q; [|rewrite Q; auto].
    destruct (fixed_S35 c && (0 <? cur s) && sk); [simpl; lia|rewrite Q; auto].
Qed.
Lemma run_inv_cap c es : inv_cap c (brun c es).
Proof. apply run_inv; [apply step_inv_cap|]. unfold inv_cap; simpl; lia. Qed.

(* ---- the counter is the length of the pending batch ---- *)
Definition inv_cur s : Prop := blocked s = false -> cur s = N.of_nat (length (pend s)).
Lemma step_inv_cur c s e : inv_cur s -> inv_cur (bstep c s e).
Proof.
  unfold inv_cur. intros H. destruct e as [i|ok|ok| |ok|j|sk]; simpl; auto.
  - destruct (_ <? qcap c); simpl; auto.
  - destruct (blocked s) eqn:B; [intros; congruence|]. destruct (pc s); [|rewrite B; auto].
    destruct (queue s) as [|i q] eqn:Q; [rewrite B; auto|].
    destruct ok; simpl; intros _; rewrite ?app_length; simpl; rewrite H by auto; lia.
  - destruct (blocked s) eqn:B; [intros; congruence|]. destruct (pc s); [rewrite B; auto|]. destruct ok; simpl; auto.
    destruct (t_stop_drain (tm s)) as [t2 blk]. simpl. intros ->. reflexivity.
  - destruct (blocked s) eqn:B; [intros; congruence|]. destruct (pc s); [|rewrite B; auto].
    destruct (t_chan _); [|rewrite B; auto]. destruct (fixed_S28 c && (cur s =? 0)); [simpl; auto|]. destruct ok; simpl; auto.
  - destruct (blocked s) eqn:B; [intros; congruence|]. destruct (pc s); [|rewrite B; auto]. destruct (queue s) eqn:Q; [|rewrite B; auto].
    destruct (fixed_S35 c && (0 <? cur s) && sk); [simpl; auto|rewrite B; auto].
Qed.
Lemma run_inv_cur c es : inv_cur (brun c es).
Proof. apply run_inv; [apply step_inv_cur|]. intros _; reflexivity. Qed.

(* ---- the worker never blocks (code with the S2 fix) ---- *)
Definition armed (t : timer) : Prop := t_active t = true \/ t_chan t = true.
Definition inv_timer s : Prop :=
  blocked s = false /\ (pc s = PCommit -> 0 < cur s) /\ (0 < cur s -> armed (tm s)).

Lemma armed_reset t : armed (t_reset t). Proof. left; reflexivity. Qed.
Lemma armed_fire t : armed t -> armed (t_fire t).
Proof. unfold armed, t_fire. destruct t as [[|] [|]]; simpl; tauto. Qed.

Lemma step_inv_timer c s e : fixed_S2 c = true -> inv_timer s -> inv_timer (bstep c s e).
Proof.
  unfold inv_timer. intros F (B & P & T). destruct e as [i|ok|ok| |ok|j|sk]; simpl.
  - destruct (_ <? qcap c); simpl; auto.
  - rewrite B. destruct (pc s) eqn:PC; [|auto]. destruct (queue s) as [|i q]; [rewrite PC; auto|].
    assert (T1 : armed (if cur s =? 0 then t_reset (tm s) else tm s)).
    { destruct (N.eqb_spec (cur s) 0); [apply armed_reset|apply T; lia]. }
    destruct ok; simpl.
    + repeat split; auto; try discriminate; try (intros; lia).
    + repeat split; auto; try discriminate; try (intros; lia).
  - rewrite B. destruct (pc s) eqn:PC; [rewrite PC; auto|]. destruct ok; simpl.
    + specialize (T (P eq_refl)). unfold t_stop_drain. destruct T as [T|T]; rewrite T; simpl.
      * repeat split; auto; try discriminate; intros; lia.
      * destruct (t_active (tm s)); simpl; repeat split; auto; try discriminate; intros; lia.
    + repeat split; auto; try discriminate; try (intros; lia).
  - repeat split; auto. intros H. apply armed_fire. auto.
  - rewrite B. destruct (pc s) eqn:PC; [|rewrite PC; auto]. destruct (t_chan (tm s)); [|rewrite PC; auto].
    destruct (fixed_S28 c && (cur s =? 0)) eqn:S28.
    { apply andb_true_iff in S28. destruct S28 as [_ C0]. apply N.eqb_eq in C0. simpl.
      repeat split; auto; try discriminate; intros; lia. }
    destruct ok; simpl.
    + repeat split; auto; try discriminate; intros; lia.
    + rewrite F. repeat split; auto; try discriminate. intros _. apply armed_reset.
  - simpl. auto.
  - rewrite B. destruct (pc s) eqn:PC; [|rewrite PC; auto]. destruct (queue s) eqn:Q; [|rewrite PC; auto].
    destruct (fixed_S35 c && (0 <? cur s) && sk); [|rewrite PC; auto]. simpl. repeat split; auto; try discriminate; intros; lia.
Qed.

Lemma never_blocks c es : fixed_S2 c = true -> blocked (brun c es : bst A) = false.
Proof.
  intros F. assert (H : inv_timer (brun c es : bst A)).
  { apply run_inv; [intros; now apply step_inv_timer|]. unfold inv_timer, armed; simpl. repeat split; try discriminate; intros; lia. }
  apply H.
Qed.

(* a non-empty batch always has its age commit pending: the timer is running or has fired and not been read *)
Lemma age_commit_pending c es : fixed_S2 c = true -> pend (brun c es : bst A) <> [] -> armed (tm (brun c es : bst A)).
Proof.
  intros F Hp. assert (H : inv_timer (brun c es : bst A)).
  { apply run_inv; [intros; now apply step_inv_timer|]. unfold inv_timer, armed; simpl. repeat split; try discriminate; intros; lia. }
  destruct H as (B & _ & T). apply T. rewrite (run_inv_cur c es B).
  destruct (pend (brun c es)); [congruence|simpl; lia].
Qed.

(* before the fix: the same holds as long as no age-limit commit fails *)
Definition no_age_failure (es : list (bev A)) : bool :=
  forallb (fun e => match e with OnTimer false => false | _ => true end) es.

Lemma step_inv_timer_unfixed c s e : (match e with OnTimer false => false | _ => true end) = true ->
  inv_timer s -> inv_timer (bstep c s e).
Proof.
  unfold inv_timer. intros E (B & P & T). destruct e as [i|ok|ok| |ok|j|sk]; simpl.
  - destruct (_ <? qcap c); simpl; auto.
  - rewrite B. destruct (pc s) eqn:PC; [|auto]. destruct (queue s) as [|i q]; [rewrite PC; auto|].
    assert (T1 : armed (if cur s =? 0 then t_reset (tm s) else tm s)).
    { destruct (N.eqb_spec (cur s) 0); [apply armed_reset|apply T; lia]. }
    destruct ok; simpl.
    + repeat split; auto; try discriminate; try (intros; lia).
    + repeat split; auto; try discriminate; try (intros; lia).
  - rewrite B. destruct (pc s) eqn:PC; [rewrite PC; auto|]. destruct ok; simpl.
    + specialize (T (P eq_refl)). unfold t_stop_drain. destruct T as [T|T]; rewrite T; simpl.
      * repeat split; auto; try discriminate; intros; lia.
      * destruct (t_active (tm s)); simpl; repeat split; auto; try discriminate; intros; lia.
    + repeat split; auto; try discriminate; try (intros; lia).
  - repeat split; auto. intros H. apply armed_fire. auto.
  - destruct ok; [|discriminate]. rewrite B. destruct (pc s) eqn:PC; [|rewrite PC; auto]. destruct (t_chan (tm s)); [|rewrite PC; auto].
    destruct (fixed_S28 c && (cur s =? 0)) eqn:S28.
    { apply andb_true_iff in S28. destruct S28 as [_ C0]. apply N.eqb_eq in C0. simpl.
      repeat split; auto; try discriminate; intros; lia. }
    simpl. repeat split; auto; try discriminate; intros; lia.
  - simpl. auto.
  - rewrite B. destruct (pc s) eqn:PC; [|rewrite PC; auto]. destruct (queue s) eqn:Q; [|rewrite PC; auto].
    destruct (fixed_S35 c && (0 <? cur s) && sk); [|rewrite PC; auto]. simpl. repeat split; auto; try discriminate; intros; lia.
Qed.

Lemma never_blocks_unfixed_partial c es : no_age_failure es = true -> blocked (brun c es : bst A) = false.
Proof.
  intros Hn. unfold brun.
  assert (G : forall s, inv_timer s -> no_age_failure es = true -> inv_timer (fold_left (bstep c) es s)).
  { clear Hn. induction es as [|e r IH]; simpl; auto. intros s Hs Hn. apply andb_true_iff in Hn. destruct Hn as [H1 H2].
    apply IH; auto. now apply step_inv_timer_unfixed. }
  apply G; auto. unfold inv_timer, armed; simpl. repeat split; try discriminate; intros; lia.
Qed.

(* ---- commits: on size and on age ---- *)
Lemma take_reaches_size c s i q : blocked s = false -> pc s = PIdle -> queue s = i :: q -> maxsize c <= cur s + 1 ->
  let s1 := bstep c s (Take true) in
  pc s1 = PCommit /\ pend s1 = pend s ++ [i] /\ committed s1 = committed s /\ blocked s1 = false /\ queue s1 = q.
Proof.
  intros B P Q M. simpl. rewrite B, P, Q. simpl.
  destruct (N.ltb_spec (cur s + 1) (maxsize c)); [lia|]. simpl. auto.
Qed.

(* between the Add/Rm that reaches the size limit and the commit the worker does nothing else *)
Lemma only_commit_follows c s e : blocked s = false -> pc s = PCommit -> pc (bstep c s e) = PIdle -> exists ok, e = SizeCommit ok.
Proof.
  intros B P. destruct e as [j|ok|ok| |ok|j'|sk]; simpl; rewrite ?B, ?P; try congruence; eauto.
  destruct (_ <? qcap c); simpl; congruence.
Qed.

Lemma size_commit_ok c s : blocked s = false -> pc s = PCommit -> armed (tm s) ->
  let s2 := bstep c s (SizeCommit true) in
  pend s2 = [] /\ committed s2 = committed s ++ [pend s] /\ cur s2 = 0 /\ blocked s2 = false /\ pc s2 = PIdle.
Proof.
  intros B P Ar. simpl. rewrite B, P. unfold t_stop_drain. destruct Ar as [Ar|Ar]; rewrite Ar; simpl; auto.
  destruct (t_active _); simpl; auto.
Qed.

Lemma commit_on_age c s ok : blocked s = false -> pc s = PIdle -> t_chan (tm s) = true -> 0 < cur s ->
  let s1 := bstep c s (OnTimer ok) in
  if ok then pend s1 = [] /\ committed s1 = committed s ++ [pend s] /\ cur s1 = 0
  else pend s1 = pend s /\ committed s1 = committed s /\ (fixed_S2 c = true -> t_active (tm s1) = true).
Proof.
  intros B P T C. simpl. rewrite B, P, T. destruct (N.eqb_spec (cur s) 0); [lia|]. rewrite andb_false_r.
  destruct ok; simpl; repeat split; auto. intros ->. reflexivity.
Qed.

(* fix S28: the timer branch of an empty batch reads the channel and does nothing else *)
Lemma empty_batch_not_committed c s ok : fixed_S28 c = true -> blocked s = false -> pc s = PIdle -> t_chan (tm s) = true -> cur s = 0 ->
  bstep c s (OnTimer ok) = mk_bst (queue s) (cur s) (t_recv (tm s)) (pend s) (committed s) (tlog s) PIdle false (accepted s) (refused s).
Proof. intros F B P T C. simpl. rewrite B, P, T, F, C. reflexivity. Qed.

Lemma rejected_no_effect c s i :
  bstep c s (Reject i) = mk_bst (queue s) (cur s) (tm s) (pend s) (committed s) (tlog s) (pc s) (blocked s) (accepted s) (refused s ++ [i]).
Proof. reflexivity. Qed.

(* ---- no empty batch is ever committed (repaired code) ---- *)
Definition inv_nonempty s : Prop := Forall (fun b : list A => b <> []) (committed s).

Lemma step_inv_nonempty c s e : fixed_S28 c = true -> inv_cur s -> inv_timer s -> inv_nonempty s -> inv_nonempty (bstep c s e).
Proof.
  unfold inv_nonempty. intros F IC (B & P & _) H. specialize (IC B).
  assert (NE : 0 < cur s -> pend s <> []).
  { intros C E. rewrite E in IC. simpl in IC. lia. }
  destruct e as [i|ok|ok| |ok|j|sk]; simpl; auto.
  - destruct (_ <? qcap c); simpl; auto.
  - rewrite B. destruct (pc s); [|auto]. destruct (queue s) as [|i q]; [auto|]. destruct ok; simpl; auto.
  - rewrite B. destruct (pc s) eqn:PC; [auto|]. destruct ok; simpl; [|auto].
    destruct (t_stop_drain (tm s)) as [t2 blk]. simpl. apply Forall_app. split; [exact H|]. constructor; [|constructor].
    apply NE, P. reflexivity.
  - rewrite B. destruct (pc s); [|auto]. destruct (t_chan (tm s)); [|auto]. rewrite F. cbn [andb].
    destruct (N.eqb_spec (cur s) 0) as [C0|C0]; [simpl; auto|].
    destruct ok; simpl; [|auto]. apply Forall_app. split; [exact H|]. constructor; [|constructor]. apply NE. lia.
  - rewrite B. destruct (pc s); [|auto]. destruct (queue s) eqn:Q; [|auto].
    destruct (fixed_S35 c && (0 <? cur s) && sk) eqn:G; [|auto]. simpl.
    apply andb_true_iff in G. destruct G as [G _]. apply andb_true_iff in G. destruct G as [_ G]. apply N.ltb_lt in G.
    apply Forall_app. split; [exact H|]. constructor; [|constructor]. now apply NE.
Qed.

Lemma never_commits_empty c es : fixed_S2 c = true -> fixed_S28 c = true -> Forall (fun b : list A => b <> []) (committed (brun c es)).
Proof.
  intros F2 F28.
  assert (H : inv_cur (brun c es : bst A) /\ inv_timer (brun c es : bst A) /\ inv_nonempty (brun c es : bst A)).
  { apply (run_inv (fun s => inv_cur s /\ inv_timer s /\ inv_nonempty s)).
    - intros s e (H1 & H2 & H3). split; [now apply step_inv_cur|]. split; [now apply step_inv_timer|]. now apply step_inv_nonempty.
    - split; [intros _; reflexivity|]. split; [|constructor].
      unfold inv_timer, armed; simpl. repeat split; try discriminate; intros; lia. }
  apply H.
Qed.

(* ---- Shutdown (fix S35): when the worker finds the closed queue empty it commits the open batch: nothing accepted is lost ---- *)
Lemma stop_commit_all c s : fixed_S35 c = true -> inv_order s -> inv_cur s -> blocked s = false -> pc s = PIdle -> queue s = [] ->
  let s1 := bstep c s (StopCommit true) in
  pend s1 = [] /\ queue s1 = [] /\ accepted s1 = map fst (tlog s1) /\ added (tlog s1) = concat (committed s1).
Proof.
  intros F [H1 H2] IC B P Q. specialize (IC B). cbn [bstep]. rewrite B, P, Q, F. cbn [andb]. rewrite andb_true_r.
  rewrite Q, app_nil_r in H1.
  destruct (N.ltb_spec 0 (cur s)) as [C|C].
  - simpl. repeat split; auto. rewrite H2, concat_app. simpl. now rewrite !app_nil_r.
  - simpl. assert (PE : pend s = []) by (destruct (pend s); [auto|simpl in IC; lia]).
    rewrite PE, app_nil_r in H2. repeat split; auto.
Qed.

Lemma shutdown_loses_nothing c (es : list (bev A)) : fixed_S2 c = true -> fixed_S35 c = true ->
  let s := brun c es in queue s = [] -> pc s = PIdle ->
  let s1 := bstep c s (StopCommit true) in
  pend s1 = [] /\ queue s1 = [] /\ accepted s1 = map fst (tlog s1) /\ added (tlog s1) = concat (committed s1).
Proof.
  intros F2 F35 s Q P. apply stop_commit_all; auto.
  - apply run_inv_order.
  - apply run_inv_cur.
  - now apply never_blocks.
Qed.

End BatchLemmas.

(* S2 as it was before the fix: the age-limit commit fails, two more operations arrive, the size commit succeeds,
   `Stop` reports false on the expired timer and the receive on its empty channel waits forever;
   a fourth accepted operation is never taken. *)
Definition s2_schedule : list (bev N) :=
  [Enq 1; Take true; Fire; OnTimer false; Enq 2; Take true; Enq 3; Take true; SizeCommit true; Enq 4; Take true].

Lemma deadlock_before_fix :
  let s := brun (mk_bcfg 10 3 false false false) s2_schedule in blocked s = true /\ queue s = [4] /\ accepted s = [1; 2; 3; 4].
Proof. vm_compute. auto. Qed.

Lemma no_deadlock_after_fix :
  let s := brun (mk_bcfg 10 3 true true true) s2_schedule in blocked s = false /\ queue s = [] /\ committed s = [[1; 2; 3]] /\ pend s = [4].
Proof. vm_compute. auto. Qed.

Lemma deadlock_before_fix_stmt :
  exists qcap maxsize (es : list (bev N)),
    let s := brun (mk_bcfg qcap maxsize false false false) es in blocked s = true /\ queue s <> [] /\ accepted s = [1; 2; 3; 4].
Proof. exists 10, 3, s2_schedule. vm_compute. repeat split; auto. discriminate. Qed.

Lemma batch_example_l :
  let s := brun (mk_bcfg 2 2 true true true) [Enq 1; Enq 2; Enq 3; Take true; Take true; SizeCommit true; Enq 4] in
  accepted s = [1; 2; 4] /\ refused s = [3] /\ committed s = [[1; 2]] /\ queue s = [4].
Proof. vm_compute. auto. Qed.

(* S28 as it was before the fix: the Add/Rm of the only operation fails (the pin cannot be serialised, or the datastore
   query of set.Rmv fails), the age timer was armed all the same, it fires, and the timer branch commits a batch that
   holds nothing (go-ds-crdt v0.1.21 then dereferences its nil delta). *)
Definition s28_schedule : list (bev N) := [Enq 1; Take false; Fire; OnTimer true].

Lemma empty_commit_before_fix :
  exists qcap maxsize (es : list (bev N)), In [] (committed (brun (mk_bcfg qcap maxsize true false false) es)).
Proof. exists 10, 3, s28_schedule. vm_compute. left. reflexivity. Qed.

Lemma no_empty_commit_after_fix :
  let s := brun (mk_bcfg 10 3 true true true) s28_schedule in committed s = [] /\ t_chan (tm s) = false /\ tlog s = [(1, false)].
Proof. vm_compute. auto. Qed.

(* S35 as it was before the fix: operation 1 is in the open batch, operation 2 still in the queue, both were accepted;
   Shutdown: the worker returns, nothing is committed *)
Definition s35_schedule : list (bev N) := [Enq 1; Take true; Enq 2; StopCommit true].
Lemma shutdown_drops_accepted_before_fix :
  exists qcap maxsize (es : list (bev N)),
    let s := brun (mk_bcfg qcap maxsize true true false) es in accepted s = [1; 2] /\ committed s = [].
Proof. exists 10, 3, s35_schedule. vm_compute. auto. Qed.

(* after the fix the worker first takes what is queued, then commits *)
Lemma shutdown_commits_after_fix :
  let s := brun (mk_bcfg 10 3 true true true) [Enq 1; Take true; Enq 2; Take true; StopCommit true] in
  accepted s = [1; 2] /\ committed s = [[1; 2]] /\ pend s = [] /\ queue s = [].
Proof. vm_compute. auto. Qed.
