(* C13 — the statements of Props/C13.v, derived from the run specifications of Proofs/C13_Adder.v *)
From V Require Import Base.Common Base.CommonLemmas Model.C13_Adder Model.C13_Check Model.C13_Spec Proofs.C13_Adder.
Open Scope N_scope.

Lemma block_adder_rule_l out dests :
  (ba_add out dests = None <-> forall d, In d dests -> is_err (out d) = true) /\
  (forall s, ba_add out dests = Some s ->
     s = filter (fun d => negb (is_rpc (out d))) dests /\ (exists d, In d dests /\ out d = POk) /\
     (forall d, In d dests -> out d = POk -> In d s)).
Proof.
  split; [apply ba_add_none|]. intros s H. destruct (ba_add_some _ _ _ H) as (A & B & C & _). tauto.
Qed.

Lemma in_dedup_from seen l c : In c (dedup_from seen l) <-> In c l /\ ~ In c seen.
Proof.
  revert seen. induction l as [|a l IH]; intros seen; simpl; [tauto|].
  destruct (memN a seen) eqn:E.
  - apply memN_in in E. rewrite IH. split; [tauto|]. intros [[<-|H] Hn]; [contradiction|tauto].
  - apply memN_false in E. simpl. rewrite IH. simpl. split.
    + intros [<-|[H Hn]]; [tauto|]. tauto.
    + intros [[<-|H] Hn]; [now left|]. destruct (N.eq_dec a c) as [->|Hne]; [now left|]. right. tauto.
Qed.

Lemma in_dedup l c : In c (dedup l) <-> In c l.
Proof. unfold dedup. rewrite in_dedup_from. simpl. tauto. Qed.

Lemma wf_any e P a j p t : wf e P a j p t -> wf e any_pin a j p t.
Proof. apply wf_mono. intros; exact I. Qed.

Lemma wf_puts_nth e P a j p t k c ds r :
  wf e P a j p t -> nth_error (puts t) k = Some (c, ds, r) -> r = ba_add (e_put e (j + N.of_nat k)) ds.
Proof.
  revert a j p k. induction t as [|ev t IH]; intros a j p k W H; [destruct k; discriminate|].
  destruct ev; simpl in *.
  - apply (IH _ _ _ _ (proj2 W) H).
  - destruct k; simpl in H.
    + inversion H; subst. rewrite N.add_0_r. apply W.
    + rewrite (IH _ _ _ _ (proj2 W) H). f_equal. f_equal. lia.
  - apply (IH _ _ _ _ (proj2 (proj2 W)) H).
Qed.

Lemma shard_pins_all_shard e k prv xs : filter is_shard_pin (shard_pins_of e k prv xs) = shard_pins_of e k prv xs.
Proof. revert k prv. induction xs as [|x xs IH]; intros k prv; simpl; [reflexivity|]. now rewrite IH. Qed.

Lemma shard_pins_flatten e k prv xs : 0 < e_maxlinks e ->
  flat_map (fun p => flatten_data (pcid p)) (shard_pins_of e k prv xs) = concat (map r_links xs).
Proof.
  intros Hml. revert k prv. induction xs as [|x xs IH]; intros k prv; simpl; [reflexivity|].
  rewrite IH. f_equal. unfold shard_cid. now apply flatten_dag_root.
Qed.

Lemma size_le_sum s l c : In c l -> size_of s c <= sum_sizes s l.
Proof. unfold sum_sizes. induction l as [|a l IH]; simpl; [intros []|]. intros [->|H]; [lia|]. specialize (IH H). lia. Qed.

Lemma in_shard_pins e k prv xs q : In q (shard_pins_of e k prv xs) ->
  exists x, In x xs /\ pcid q = shard_cid e x /\ pty q = TShard /\ pssize q = r_size x.
Proof.
  revert k prv. induction xs as [|x xs IH]; intros k prv; simpl; [intros []|].
  intros [<-|H]; [exists x; simpl; tauto|]. destruct (IH _ _ H) as (y & Hy & ?). exists y. tauto.
Qed.

Lemma wf_all_pins e (P : pin -> bool -> Prop) a j p t q : wf e P a j p t -> In q (all_pins t) -> exists ok, P q ok.
Proof.
  revert a j p. induction t as [|ev t IH]; intros a j p W Hq; [destruct Hq|].
  destruct ev; simpl in *.
  - apply (IH _ _ _ (proj2 W) Hq).
  - apply (IH _ _ _ (proj2 W) Hq).
  - destruct Hq as [<-|Hq]; [exists ok; apply W|apply (IH _ _ _ (proj2 (proj2 W)) Hq)].
Qed.

Section Statements.
Variable e : env.
Variable stream : list block.
Variable root : N.
Hypothesis Hstrict : strict stream.
Hypothesis Hml : 0 < e_maxlinks e.
Hypothesis Hsz : sizes_by_cid stream.

Lemma trace_follows_oracles_shard_l r t : shard_run e stream root = (r, t) -> wf e any_pin 0 0 0 t.
Proof.
  intros H. destruct (shard_run_spec e stream Hml Hsz root stream r t (incl_refl _) Hstrict H) as (W & _).
  eapply wf_any. exact W.
Qed.

Lemma delivered_equals_produced_l c t : shard_run e stream root = (ROk c, t) ->
  data_puts t = dedup (cids_of stream) /\
  Forall (fun x => snd x <> None) (puts t) /\
  (forall k cc ds r, nth_error (puts t) k = Some (cc, ds, r) -> exists d, In d ds /\ e_put e (N.of_nat k) d = POk) /\
  (forall p, In p (ok_pins t) -> pty p = TShard \/ pty p = TClusterDAG ->
     exists l, pcid p = dag_root (e_maxlinks e) l /\ incl (make_dag (e_maxlinks e) l) (put_cids t)).
Proof.
  intros H. destruct (shard_run_spec e stream Hml Hsz root stream _ t (incl_refl _) Hstrict H) as (W & _ & Hok).
  destruct (Hok c eq_refl) as (_ & xs & F). split; [apply F|]. split; [apply F|]. split.
  - intros k cc ds r Hn. pose proof (wf_puts_nth _ _ _ _ _ _ _ _ _ _ W Hn) as Hr. rewrite N.add_0_l in Hr.
    pose proof (f_putsok _ _ _ _ _ _ F) as Hall. rewrite Forall_forall in Hall.
    specialize (Hall _ (nth_error_In _ _ Hn)). simpl in Hall.
    destruct r as [sr|]; [|contradiction]. symmetry in Hr. destruct (ba_add_some _ _ _ Hr) as (_ & Hex & _). exact Hex.
  - intros p Hp Hty. rewrite (f_pins _ _ _ _ _ _ F) in Hp. apply in_app_or in Hp. destruct Hp as [Hp|[<-|[<-|[]]]].
    + destruct (in_shard_pins _ _ _ _ _ Hp) as (x & Hx & Hc & _). exists (map CData (r_links x)). split; [exact Hc|].
      now apply (f_nodes _ _ _ _ _ _ F).
    + exists (map (shard_cid e) xs). split; [reflexivity|apply F].
    + simpl in Hty. destruct Hty; discriminate.
Qed.

Lemma delivered_closed_l c t : link_closed stream -> In root (cids_of stream) ->
  shard_run e stream root = (ROk c, t) -> forall x, reach stream root x -> In x (data_puts t).
Proof.
  intros Hlc Hroot H x Hx. destruct (delivered_equals_produced_l _ _ H) as (Hd & _). rewrite Hd. apply in_dedup.
  induction Hx as [|cc b l _ IH Hb Hc Hl]; [assumption|]. eapply Hlc; eassumption.
Qed.

Lemma shards_partition_l c t : shard_run e stream root = (ROk c, t) ->
  flat_map (fun p => flatten_data (pcid p)) (filter is_shard_pin (ok_pins t)) = dedup (cids_of stream).
Proof.
  intros H. destruct (shard_run_spec e stream Hml Hsz root stream _ t (incl_refl _) Hstrict H) as (_ & _ & Hok).
  destruct (Hok c eq_refl) as (_ & xs & F). rewrite (f_pins _ _ _ _ _ _ F), filter_app, shard_pins_all_shard.
  simpl. rewrite app_nil_r, shard_pins_flatten by assumption. apply F.
Qed.

Lemma shard_pins_good_l r t q : shard_run e stream root = (r, t) -> In q (all_pins t) -> pty q = TShard -> shard_pin_good e stream q.
Proof.
  intros H Hq Hty. destruct (shard_run_spec e stream Hml Hsz root stream r t (incl_refl _) Hstrict H) as (W & _).
  destruct (wf_all_pins _ _ _ _ _ _ _ W Hq) as [ok HP]. now apply HP.
Qed.

Lemma shard_under_limit_l r t q : shard_run e stream root = (r, t) -> In q (all_pins t) -> pty q = TShard ->
  pssize q < e_limit e /\ pssize q = sum_sizes stream (flatten_data (pcid q)).
Proof.
  intros H Hq Hty. destruct (shard_pins_good_l _ _ _ H Hq Hty) as (l & Hc & Hs & Hlim & _).
  split; [assumption|]. rewrite Hc, flatten_dag_root by assumption. assumption.
Qed.

Lemma oversized_block_fails_l c t b : shard_run e stream root = (ROk c, t) -> In b stream -> bsize b < e_limit e.
Proof.
  intros H Hb. destruct (shard_run_spec e stream Hml Hsz root stream _ t (incl_refl _) Hstrict H) as (_ & _ & Hok).
  destruct (Hok c eq_refl) as (_ & xs & F).
  assert (Hin : In (bcid b) (concat (map r_links xs))).
  { rewrite (f_part _ _ _ _ _ _ F). apply in_dedup. apply in_map. assumption. }
  apply in_concat in Hin. destruct Hin as (l & Hl & Hbl). apply in_map_iff in Hl. destruct Hl as (x & <- & Hx).
  pose proof (f_xs _ _ _ _ _ _ F) as HF. rewrite Forall_forall in HF. destruct (HF x Hx) as (Hsum & Hlim & _).
  pose proof (size_le_sum stream _ _ Hbl) as Hle. rewrite (size_of_in _ _ Hsz Hb) in Hle. lia.
Qed.

Lemma shard_depth_covers_l r t q : shard_run e stream root = (r, t) -> In q (all_pins t) -> pty q = TShard ->
  covers (pcid q) (Z.to_nat (pdepth q)) = true /\ (pdepth q = 1 \/ pdepth q = 2)%Z /\
  (pdepth q = 1%Z <-> covers (pcid q) 1 = true).
Proof.
  intros H Hq Hty. destruct (shard_pins_good_l _ _ _ H Hq Hty) as (l & Hc & _ & _ & Hd).
  rewrite Hc, Hd. split; [apply covers_dag_root|].
  destruct (N.of_nat (length l) <=? e_maxlinks e) eqn:E.
  - split; [now left|]. split; [intros _|reflexivity].
    pose proof (covers_dag_root (e_maxlinks e) l) as Hcv. rewrite E in Hcv. exact Hcv.
  - split; [now right|]. apply N.leb_gt in E. rewrite (not_covers_indirect _ _ Hml E). split; discriminate.
Qed.

Lemma final_pins_sharded_l c t : shard_run e stream root = (ROk c, t) ->
  c = CData root /\ exists xs, xs <> [] /\
    ok_pins t = shard_pins_of e 0 None xs ++ [cdag_pin e root xs; meta_pin e root xs] /\
    all_pins t = ok_pins t /\
    concat (map r_links xs) = dedup (cids_of stream) /\
    Forall (fun x => r_size x = sum_sizes stream (r_links x) /\ r_size x < e_limit e /\ In (Some (r_allocs x)) (alloc_results t)) xs /\
    within_allocation e t.
Proof.
  intros H. destruct (shard_run_spec e stream Hml Hsz root stream _ t (incl_refl _) Hstrict H) as (_ & _ & Hok).
  destruct (Hok c eq_refl) as (Hc & xs & F). split; [assumption|]. exists xs.
  split; [apply F|]. split; [apply F|]. split; [apply F|]. split; [apply F|]. split; [apply F|]. apply F.
Qed.

Lemma failure_no_root_pin_l er t q : shard_run e stream root = (RErr er, t) -> In q (ok_pins t) -> pcid q <> CData root.
Proof.
  intros H Hq. destruct (shard_run_spec e stream Hml Hsz root stream _ t (incl_refl _) Hstrict H) as (_ & Herr & _).
  destruct (Herr er eq_refl) as (_ & HF). rewrite Forall_forall in HF. specialize (HF q Hq).
  intros Hc. rewrite Hc in HF. exact HF.
Qed.

Lemma ingest_fuel_enough_l r t : shard_run e stream root = (r, t) -> r <> RErr EFuel.
Proof.
  intros H Hr. subst r. destruct (shard_run_spec e stream Hml Hsz root stream _ t (incl_refl _) Hstrict H) as (_ & Herr & _).
  destruct (Herr EFuel eq_refl) as (Hf & _). now apply Hf.
Qed.

(* ---- single ---- *)
Lemma trace_follows_oracles_single_l r t : single_run e stream root = (r, t) -> wf e any_pin 0 0 0 t.
Proof. intros H. destruct (single_run_spec e root stream r t Hstrict H) as (W & _). exact W. Qed.

Lemma delivered_equals_produced_single_l c t : single_run e stream root = (ROk c, t) ->
  data_puts t = cids_of stream /\
  (forall k cc ds r, nth_error (puts t) k = Some (cc, ds, r) -> exists d, In d ds /\ e_put e (N.of_nat k) d = POk).
Proof.
  intros H. destruct (single_run_spec e root stream _ t Hstrict H) as (W & _ & Hok).
  destruct (Hok c eq_refl) as (_ & al & F). split; [apply F|].
  intros k cc ds r Hn. pose proof (wf_puts_nth _ _ _ _ _ _ _ _ _ _ W Hn) as Hr. rewrite N.add_0_l in Hr.
  pose proof (so_putsok _ _ _ _ _ F) as Hall. rewrite Forall_forall in Hall.
  specialize (Hall _ (nth_error_In _ _ Hn)). simpl in Hall.
  destruct r as [sr|]; [|contradiction]. symmetry in Hr. destruct (ba_add_some _ _ _ Hr) as (_ & Hex & _). exact Hex.
Qed.

Lemma delivered_closed_single_l c t : link_closed stream -> In root (cids_of stream) ->
  single_run e stream root = (ROk c, t) -> forall x, reach stream root x -> In x (data_puts t).
Proof.
  intros Hlc Hroot H x Hx. destruct (delivered_equals_produced_single_l _ _ H) as (Hd & _). rewrite Hd.
  induction Hx as [|cc b l _ IH Hb Hc Hl]; [assumption|]. eapply Hlc; eassumption.
Qed.

Lemma final_pins_single_l c t : single_run e stream root = (ROk c, t) ->
  c = CData root /\ exists al,
    ok_pins t = [single_pin e root al] /\ all_pins t = ok_pins t /\
    (stream <> [] -> alloc_results t = [Some al] /\ e_alloc e 0 = Some al) /\
    Forall (fun x => incl (snd (fst x)) (if e_local e then [0] else al)) (puts t).
Proof.
  intros H. destruct (single_run_spec e root stream _ t Hstrict H) as (_ & _ & Hok).
  destruct (Hok c eq_refl) as (Hc & al & F). split; [assumption|]. exists al.
  split; [apply F|]. split; [apply F|]. split; [apply F|]. apply F.
Qed.

Lemma failure_no_root_pin_single_l er t : single_run e stream root = (RErr er, t) -> ok_pins t = [].
Proof. intros H. destruct (single_run_spec e root stream _ t Hstrict H) as (_ & Herr & _). apply (Herr er eq_refl). Qed.

End Statements.

(* no fault: no destination is ever dropped, and every BlockAdder round succeeds unless it has no destination *)
Lemma no_fault_keeps_destinations_l e (P : pin -> bool -> Prop) a j p t :
  (forall k d, e_put e k d = POk) -> wf e P a j p t ->
  Forall (fun x => match x with (_, ds, r) => ds <> [] -> r = Some ds end) (puts t).
Proof.
  intros Hnf. revert a j p. induction t as [|ev t IH]; intros a j p W; [constructor|].
  destruct ev; simpl in *.
  - apply (IH _ _ _ (proj2 W)).
  - constructor; [|apply (IH _ _ _ (proj2 W))]. destruct W as [-> _]. intros Hne.
    unfold ba_add.
    assert (F1 : filter (fun d => is_err (e_put e j d)) dests = []).
    { clear Hne. induction dests as [|d l IHl]; [reflexivity|]. simpl. now rewrite Hnf. }
    assert (F2 : filter (fun d => negb (is_rpc (e_put e j d))) dests = dests).
    { clear Hne F1. induction dests as [|d l IHl]; [reflexivity|]. simpl. rewrite Hnf. simpl. now rewrite IHl. }
    rewrite F1, F2. destruct dests; [contradiction|]. reflexivity.
  - apply (IH _ _ _ (proj2 (proj2 W))).
Qed.

(* the condition shipped in shard.Flush answered depth 1 for 5985 links *)
Lemma shard_depth_shipped_refuted_l :
  let links := map N.of_nat (seq 0 5985) in
  let nodes := make_dag 5984 (map CData links) in
  shard_depth_shipped nodes links = 1%Z /\ covers (dag_root 5984 (map CData links)) 1 = false /\ shard_depth nodes links = 2%Z.
Proof. vm_compute. repeat split. Qed.

(* the logarithmic-set variant used by the boolean checks computes the same list as the specification's dedup *)
From Coq Require Import MSets.MSetPositive.
Lemma dedupF_from_eq S L l : (forall x, PositiveSet.In (key x) S <-> In x L) -> dedupF_from S l = dedup_from L l.
Proof.
  revert S L. induction l as [|a l IH]; intros S L H; simpl; [reflexivity|].
  assert (E : PositiveSet.mem (key a) S = memN a L).
  { destruct (memN a L) eqn:Em.
    - apply PositiveSet.mem_spec, H, memN_in. exact Em.
    - destruct (PositiveSet.mem (key a) S) eqn:Es; [|reflexivity].
      apply PositiveSet.mem_spec, H, memN_in in Es. congruence. }
  rewrite E. destruct (memN a L); [now apply IH|]. f_equal. apply IH.
  intros x. rewrite PositiveSet.add_spec. simpl. rewrite <- H. split.
  - intros [Hk|Hs]; [left; symmetry; now apply key_inj|now right].
  - intros [->|Hs]; [now left|now right].
Qed.

Lemma dedupF_eq l : dedupF l = dedup l.
Proof.
  apply dedupF_from_eq. intros x. simpl. split; [intros H; now apply PositiveSet.empty_spec in H|intros []].
Qed.

(* without `strict` the statements fail: an importer that goes on after a failed Add (observed: go-unixfs'
   balanced layout, first leaf of a multi-chunk file) ends with the root pinned and a block never delivered *)
Definition swallow_stream : list block := [mkbs 1 70 []; mkb 2 30 []; mkb 3 100 [1; 2]].
Definition swallow_env_alloc : env :=
  mkenv 1 2 100000 5984 false (fun k => if k =? 0 then None else Some [1; 2]) (fun _ _ => POk) (fun _ => true).
Definition swallow_env_put : env :=
  mkenv 1 2 100000 5984 false (fun _ => Some [1; 2]) (fun j _ => if j =? 0 then PIpfs else POk) (fun _ => true).

Lemma importer_swallow_refuted_l :
  sizes_by_cid swallow_stream /\ link_closed swallow_stream /\ reach swallow_stream 3 1 /\
  (exists t, single_run swallow_env_alloc swallow_stream 3 = (ROk (CData 3), t) /\ ~ In 1 (data_puts t) /\
             exists q, In q (ok_pins t) /\ pcid q = CData 3) /\
  (exists t, shard_run swallow_env_put swallow_stream 3 = (ROk (CData 3), t) /\
             Exists (fun x => fst (fst x) = CData 1 /\ snd x = None) (puts t) /\
             flat_map (fun p => flatten_data (pcid p)) (filter is_shard_pin (ok_pins t)) = [1; 2; 3]).
Proof.
  split; [intros b b' [<-|[<-|[<-|[]]]] [<-|[<-|[<-|[]]]]; simpl; intros; congruence|].
  split; [intros b l [<-|[<-|[<-|[]]]]; simpl; intuition (subst; auto)|].
  split; [eapply (reach_link _ _ 3 (mkb 3 100 [1; 2]) 1); [apply reach_root|simpl; tauto|reflexivity|simpl; tauto]|].
  split.
  - eexists. split; [vm_compute; reflexivity|]. split; [simpl; intuition discriminate|].
    eexists. split; [left; reflexivity|reflexivity].
  - eexists. split; [vm_compute; reflexivity|]. split; [left; split; reflexivity|reflexivity].
Qed.

(* soundness of two of the boolean clauses evaluated on the implementation's trace (Model/C13_Check.v) *)
Lemma depth_okb_sound i r t : depth_okb i r t = true ->
  forall q, In q (all_pins t) -> pty q = TShard -> (pdepth q < 0)%Z \/ covers (pcid q) (Z.to_nat (pdepth q)) = true.
Proof.
  unfold depth_okb. rewrite forallb_forall. intros H q Hq Hty. specialize (H q Hq).
  unfold is_shard_pin in H. rewrite Hty in H. simpl in H. apply orb_true_iff in H.
  destruct H as [H|H]; [left; now apply Z.ltb_lt|now right].
Qed.

Lemma failure_okb_sound i r t : failure_okb i r t = true -> is_ok r = false ->
  forall q, In q (ok_pins t) -> pcid q <> CData (i_root i).
Proof.
  unfold failure_okb. intros H Hr q Hq Hc. rewrite Hr in H. rewrite forallb_forall in H. specialize (H q Hq).
  rewrite Hc in H. simpl in H. now rewrite N.eqb_refl in H.
Qed.
