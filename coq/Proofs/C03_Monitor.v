(* C03 — the run-time monitor `spec_okb` (Model/C03_Check.v) tied to the theorems, for every input:
   (1) completeness: the model's own answer always passes the monitor (so the monitor never raises an
       alarm on behaviour the model allows, and "implementation = model on this input" transfers the theorems);
   (2) soundness: an observed answer that passes the monitor satisfies the Prop-level clauses of the property. *)
From V Require Import Base.Common Base.CommonLemmas Model.C03_Alloc Model.C03_Check Proofs.C03_Alloc.
From Coq Require Import Permutation Sorting.Sorted RelationClasses.
Open Scope Z_scope.

Definition obs_of (r : res) : obs := match r with Ok l => ObsOk l | ErrBadFactors => ObsErr | ErrNotEnough => ObsErr end.

(* ---------- Prop-level vocabulary of the property ---------- *)
(* the peers of l that are not current holders *)
Definition added_of (i : input) (l : list N) : list N := filter (fun p => negb (memN p (current i))) l.
(* v comes before-or-with w in the strategy's direction (ascending: smaller first; descending: larger first) *)
Definition dir_le (rv : bool) (v w : N) : Prop := if rv then (w <= v)%N else (v <= w)%N.
Definition has_value (i : input) (p v : N) : Prop := exists m, In m (metrics i) /\ mpeer m = p /\ mval m = Some v.
(* p can be newly chosen, and its metric value is v *)
Definition choosable (now : Z) (i : input) (p v : N) : Prop :=
  exists m, In m (metrics i) /\ mpeer m = p /\ mvalid m = true /\ now <= mexp m /\ mval m = Some v /\
            ~ In p (blacklist i) /\ ~ In p (current i).
Definition sorted_by_value (i : input) (l : list N) : Prop :=
  Sorted (fun p q => forall v w, has_value i p v -> has_value i q w -> dir_le (rev i) v w) l.
(* no choosable peer of the group was left out although strictly better than a chosen one *)
Definition none_better_left (now : Z) (i : input) (grp : N -> Prop) (chosen : list N) : Prop :=
  forall q v, choosable now i q v -> grp q -> ~ In q chosen ->
  forall p w, In p chosen -> has_value i p w -> dir_le (rev i) w v.

Record alloc_spec (now : Z) (i : input) (l : list N) : Prop := mk_alloc_spec {
  as_nodup : NoDup l;
  as_new_healthy : forall p, In p l -> ~ In p (current i) ->
      healthy now i p /\ exists m, In m (metrics i) /\ mpeer m = p /\ mval m <> None;
  as_keep : healthy_count now i (current i) <= rmax i -> forall p, healthy now i p -> In p (current i) -> In p l;
  as_trim : rmax i < healthy_count now i (current i) ->
      Z.of_nat (length l) = rmax i /\ forall p, In p l -> healthy now i p /\ In p (current i);
  as_min_max : rmin i <= healthy_count now i l <= rmax i;
  as_only_if_needed : rmin i <= healthy_count now i (current i) -> added_of i l = [];
  as_preference : exists ap ac, added_of i l = ap ++ ac /\
      (forall p, In p ap -> In p (priority i)) /\ (forall p, In p ac -> ~ In p (priority i)) /\
      sorted_by_value i ap /\ sorted_by_value i ac /\
      none_better_left now i (fun q => In q (priority i)) ap /\
      none_better_left now i (fun q => ~ In q (priority i)) ac /\
      (ac <> [] -> forall q v, choosable now i q v -> In q (priority i) -> In q ap)
}.

(* ---------- generic list facts ---------- *)
Lemma filter_all_true {A} (f : A -> bool) l : (forall x, In x l -> f x = true) -> filter f l = l.
Proof. induction l as [|x xs IH]; simpl; intros H; auto. rewrite (H x (or_introl eq_refl)). f_equal. apply IH. intros y Hy. apply H. now right. Qed.
Lemma filter_all_false {A} (f : A -> bool) l : (forall x, In x l -> f x = false) -> filter f l = [].
Proof. induction l as [|x xs IH]; simpl; intros H; auto. rewrite (H x (or_introl eq_refl)). apply IH. intros y Hy. apply H. now right. Qed.
Lemma filter_length_le {A} (f : A -> bool) l : (length (filter f l) <= length l)%nat.
Proof. induction l as [|x xs IH]; simpl; auto. destruct (f x); simpl; lia. Qed.
Lemma filter_and_length_le {A} (f g : A -> bool) l : (length (filter (fun x => f x && g x) l) <= length (filter f l))%nat.
Proof. induction l as [|x xs IH]; simpl; auto. destruct (f x); simpl; [destruct (g x); simpl; lia|auto]. Qed.
Lemma filter_disjoint_length {A} (f g : A -> bool) l : (forall x, f x && g x = false) ->
  (length (filter f l) + length (filter g l))%nat = length (filter (fun x => f x || g x) l).
Proof. intros H. induction l as [|x xs IH]; [reflexivity|]. cbn [filter]. specialize (H x).
  destruct (f x), (g x); try discriminate; cbn [orb length]; lia. Qed.
Lemma Sorted_firstn {A} (R : A -> A -> Prop) k l : Sorted R l -> Sorted R (firstn k l).
Proof. revert k. induction l as [|x xs IH]; intros k H; destruct k; simpl; try constructor.
  - apply IH. now inversion H.
  - inversion H as [|? ? Hs Hh]; subst. destruct xs as [|y ys]; destruct k; simpl; constructor. now inversion Hh. Qed.
Lemma StronglySorted_split {A} (R : A -> A -> Prop) k l a b :
  StronglySorted R l -> In a (firstn k l) -> In b (skipn k l) -> R a b.
Proof. revert k. induction l as [|x xs IH]; intros k H Ha Hb; destruct k; simpl in *; try tauto.
  inversion H as [|? ? Hs Hall]; subst. destruct Ha as [->|Ha].
  - rewrite Forall_forall in Hall. apply Hall. rewrite <- (firstn_skipn k xs). apply in_or_app. now right.
  - eapply IH; eauto. Qed.
Lemma nodup_same_peer ms m m' : NoDup (map mpeer ms) -> In m ms -> In m' ms -> mpeer m = mpeer m' -> m = m'.
Proof. induction ms as [|x xs IH]; simpl; intros H A B E; [tauto|]. inversion H as [|? ? Hn Hd]; subst.
  destruct A as [->|A]; destruct B as [->|B]; auto.
  - exfalso. apply Hn. rewrite E. now apply in_map.
  - exfalso. apply Hn. rewrite <- E. now apply in_map. Qed.

Instance lebm_trans rv : Transitive (lebm_p rv).
Proof. intros a b c. unfold lebm_p, lebm. destruct rv; rewrite !N.leb_le; lia. Qed.
Lemma sort_keyed_ssorted now rv ms : StronglySorted (lebm_p rv) (sort_keyed now rv ms).
Proof. apply Sorted_StronglySorted; [apply lebm_trans | apply sort_keyed_sorted]. Qed.
Lemma sort_keyed_in now rv ms x : In x (sort_keyed now rv ms) <-> In x (keyed now ms).
Proof. unfold sort_keyed. split; apply Permutation_in; [|symmetry]; apply isort_perm. Qed.
Lemma sort_keyed_in1 now rv ms x : In x (sort_keyed now rv ms) -> In x (keyed now ms).
Proof. apply sort_keyed_in. Qed.
Lemma sort_keyed_in2 now rv ms x : In x (keyed now ms) -> In x (sort_keyed now rv ms).
Proof. apply sort_keyed_in. Qed.

Lemma monotone_sorted rv (l : list (N * N)) : Sorted (lebm_p rv) l -> monotone rv (map snd l) = true.
Proof. induction l as [|a r IH]; intros H; [reflexivity|]. inversion H as [|? ? Hs Hh]; subst.
  destruct r as [|b r']; [reflexivity|]. change (map snd (a :: b :: r')) with (snd a :: snd b :: map snd r').
  cbn [monotone]. apply andb_true_iff. split; [|apply (IH Hs)].
  inversion Hh as [|? ? Hab]; subst. unfold lebm_p, lebm in Hab. destruct rv; exact Hab. Qed.

(* ---------- lookups by peer under one-metric-per-peer ---------- *)
Lemma metric_of_some i p m : metric_of i p = Some m -> In m (metrics i) /\ mpeer m = p.
Proof. unfold metric_of. intros H. apply find_some in H. destruct H as [A B]. apply N.eqb_eq in B. auto. Qed.
Lemma metric_of_in i m : NoDup (map mpeer (metrics i)) -> In m (metrics i) -> metric_of i (mpeer m) = Some m.
Proof. intros Hnd Hin. unfold metric_of. destruct (find _ (metrics i)) as [m'|] eqn:F.
  - apply find_some in F. destruct F as [A B]. apply N.eqb_eq in B. f_equal. eapply nodup_same_peer; eauto.
  - exfalso. apply (find_none _ _ F) in Hin. rewrite N.eqb_refl in Hin. discriminate. Qed.
Lemma value_of_metric i p : value_of i p = match metric_of i p with Some m => mval m | None => None end.
Proof. reflexivity. Qed.

Lemma healthy_m_iff now i m : healthy_m now i m = true <->
  mvalid m = true /\ now <= mexp m /\ ~ In (mpeer m) (blacklist i).
Proof. unfold healthy_m, discard. rewrite andb_true_iff, !negb_true_iff, orb_false_iff, negb_false_iff, Z.ltb_ge, memN_false. tauto. Qed.
Lemma discard_false_iff now m : discard now m = false <-> mvalid m = true /\ now <= mexp m.
Proof. unfold discard. rewrite orb_false_iff, negb_false_iff, Z.ltb_ge. tauto. Qed.
Lemma sortable_iff now i m : sortable now i m = true <->
  mvalid m = true /\ now <= mexp m /\ ~ In (mpeer m) (blacklist i) /\ ~ In (mpeer m) (current i) /\ mval m <> None.
Proof. unfold sortable. rewrite !andb_true_iff, healthy_m_iff, negb_true_iff, memN_false.
  destruct (mval m) as [v|]; split.
  - intros [[A B] _]. repeat split; try tauto. discriminate.
  - intros [A [B [C [D E]]]]. tauto.
  - intros [_ H]. discriminate.
  - intros [A [B [C [D E]]]]. congruence. Qed.

Section Monitor.
Variable now : Z.
Variable i : input.
Hypothesis Hms : NoDup (map mpeer (metrics i)).

Lemma healthy_p_iff p : healthy_p now i p = true <-> healthy now i p.
Proof. unfold healthy_p, healthy. split.
  - destruct (metric_of i p) as [m|] eqn:F; [|discriminate]. intros H. apply metric_of_some in F. destruct F as [A B].
    apply healthy_m_iff in H. exists m. subst p. tauto.
  - intros [m [A [B [C [D E]]]]]. subst p. rewrite (metric_of_in i m Hms A). apply healthy_m_iff. tauto. Qed.

Lemma sortable_p_iff p : sortable_p now i p = true <-> In p (new_candidates now i).
Proof. rewrite final_in. unfold sortable_p. split.
  - destruct (metric_of i p) as [m|] eqn:F; [|discriminate]. intros H. apply metric_of_some in F. destruct F as [A B].
    apply sortable_iff in H. exists m. subst p. rewrite discard_false_iff. tauto.
  - intros [m [A [B [C [D [E F]]]]]]. subst p. rewrite (metric_of_in i m Hms A). apply sortable_iff.
    apply discard_false_iff in C. tauto. Qed.

Lemma has_value_of p v : has_value i p v <-> value_of i p = Some v.
Proof. rewrite value_of_metric. unfold has_value. split.
  - intros [m [A [B C]]]. subst p. now rewrite (metric_of_in i m Hms A).
  - destruct (metric_of i p) as [m|] eqn:F; [|discriminate]. intros H. apply metric_of_some in F. exists m. tauto. Qed.

Lemma in_vals l w : In w (vals i l) <-> exists p, In p l /\ value_of i p = Some w.
Proof. unfold vals. rewrite in_flat_map. split; intros [p [A B]]; exists p; split; auto.
  - destruct (value_of i p); simpl in B; [|tauto]. destruct B as [->|[]]. reflexivity.
  - rewrite B. now left. Qed.

(* values along a list of (peer, value) pairs taken from the metrics *)
Lemma vals_keyed (sk : list (N * N)) :
  (forall x, In x sk -> has_value i (fst x) (snd x)) -> vals i (map fst sk) = map snd sk.
Proof. induction sk as [|x r IH]; intros H; [reflexivity|]. unfold vals in *. simpl.
  rewrite (proj1 (has_value_of _ _) (H x (or_introl eq_refl))). simpl. f_equal. apply IH. intros y Hy. apply H. now right. Qed.

Lemma keyed_has_value (g : metric -> bool) x :
  In x (keyed now (filter g (latest_valid now (metrics i)))) -> has_value i (fst x) (snd x).
Proof. destruct x as [p v]. intros H. apply keyed_incl in H. destruct H as [m [A [B [C D]]]].
  apply filter_In in A. destruct A as [A _]. apply latest_valid_in in A. exists m. simpl. tauto. Qed.

(* the count of sortable metrics is the length of the candidate list *)
Lemma keyed_cons m r : keyed now (m :: r) =
  (if discard now m then [] else match mval m with Some v => [(mpeer m, v)] | None => [] end) ++ keyed now r.
Proof. reflexivity. Qed.
Lemma sortable_count ms :
  length (filter (sortable now i) ms) =
  (length (keyed now (filter (is_prio i) (latest_valid now ms))) + length (keyed now (filter (is_cand i) (latest_valid now ms))))%nat.
Proof. induction ms as [|m r IH]; [reflexivity|]. unfold latest_valid in *. cbn [filter].
  assert (HS : sortable now i m = negb (discard now m) && (is_prio i m || is_cand i m) && match mval m with Some _ => true | None => false end).
  { unfold sortable, healthy_m, is_prio, is_cand.
    destruct (discard now m), (memN (mpeer m) (blacklist i)), (memN (mpeer m) (current i)), (memN (mpeer m) (priority i)), (mval m); reflexivity. }
  assert (HX : is_prio i m && is_cand i m = false).
  { unfold is_prio, is_cand.
    destruct (memN (mpeer m) (blacklist i)), (memN (mpeer m) (current i)), (memN (mpeer m) (priority i)); reflexivity. }
  rewrite HS. destruct (discard now m) eqn:D; cbn [negb andb]; [exact IH|]. cbn [filter].
  destruct (is_prio i m) eqn:P; destruct (is_cand i m) eqn:C; try discriminate; cbn [orb andb];
    rewrite ?keyed_cons, ?D; destruct (mval m); cbn [app length filter]; rewrite IH; lia.
Qed.

Lemma new_candidates_length :
  length (new_candidates now i) = length (filter (sortable now i) (metrics i)).
Proof. unfold new_candidates. rewrite app_length, sortable_count.
  rewrite !(Permutation_length (sort_numeric_perm _ _ _)), !map_length. reflexivity. Qed.

Lemma no_better_left_nil grp : no_better_left now i grp [] = true.
Proof. unfold no_better_left. apply forallb_forall. intros m _. destruct (_ && _ && _); auto. destruct (mval m); auto. Qed.

(* the chosen prefix of one sorted group leaves nothing strictly better behind *)
Lemma no_better_left_prefix (g : metric -> bool) (grp : N -> bool) k :
  (forall m, In m (metrics i) -> sortable now i m = true -> grp (mpeer m) = true -> g m = true) ->
  no_better_left now i grp (map fst (firstn k (sort_keyed now (rev i) (filter g (latest_valid now (metrics i)))))) = true.
Proof. intros Hg. set (sk := sort_keyed now (rev i) (filter g (latest_valid now (metrics i)))).
  unfold no_better_left. apply forallb_forall. intros m Hm.
  destruct (sortable now i m) eqn:S; cbn [andb]; auto. destruct (grp (mpeer m)) eqn:G; cbn [andb]; auto.
  destruct (memN (mpeer m) (map fst (firstn k sk))) eqn:M; cbn [negb]; auto.
  destruct (mval m) as [v|] eqn:V; auto. apply forallb_forall. intros w Hw.
  rewrite vals_keyed in Hw.
  2:{ intros x Hx. apply (keyed_has_value g). apply (sort_keyed_in1 now (rev i)). fold sk. eapply in_firstn; eauto. }
  apply in_map_iff in Hw. destruct Hw as [[p w'] [E Hpw]]. simpl in E. subst w'.
  assert (Hin : In (mpeer m, v) sk).
  { apply sort_keyed_in2. unfold keyed. apply in_flat_map. exists m. split.
    - apply filter_In. split; [|apply Hg; auto]. apply latest_valid_in. split; auto. apply sortable_iff in S. apply discard_false_iff. tauto.
    - apply sortable_iff in S. assert (D : discard now m = false) by (apply discard_false_iff; tauto). rewrite D, V. now left. }
  rewrite <- (firstn_skipn k sk) in Hin. apply in_app_or in Hin. destruct Hin as [Hin|Hin].
  - apply memN_false in M. exfalso. apply M. apply in_map_iff. exists (mpeer m, v). auto.
  - pose proof (StronglySorted_split _ k sk _ _ (sort_keyed_ssorted _ _ _) Hpw Hin) as R.
    unfold lebm_p, lebm in R. simpl in R. destruct (rev i); exact R. Qed.

Lemma prio_all_in p : In p (sort_numeric now (rev i) (filter (is_prio i) (latest_valid now (metrics i)))) -> memN p (priority i) = true.
Proof. intros H. apply sort_numeric_in in H. destruct H as [m [A [B _]]]. apply filter_In in A. destruct A as [_ A].
  unfold is_prio in A. rewrite !andb_true_iff in A. subst p. tauto. Qed.
Lemma cand_none_in p : In p (sort_numeric now (rev i) (filter (is_cand i) (latest_valid now (metrics i)))) -> memN p (priority i) = false.
Proof. intros H. apply sort_numeric_in in H. destruct H as [m [A [B _]]]. apply filter_In in A. destruct A as [_ A].
  unfold is_cand in A. rewrite !andb_true_iff, !negb_true_iff in A. subst p. tauto. Qed.

(* the monitor's clauses about the added part, for any prefix of the allocator's candidate list *)
Lemma prefix_clauses k :
  let added := firstn k (new_candidates now i) in
  let addp := filter (fun p => memN p (priority i)) added in
  let addc := filter (fun p => negb (memN p (priority i))) added in
  list_eqb N.eqb added (addp ++ addc) = true /\
  monotone (rev i) (vals i addp) = true /\ monotone (rev i) (vals i addc) = true /\
  no_better_left now i (fun p => memN p (priority i)) addp = true /\
  no_better_left now i (fun p => negb (memN p (priority i))) addc = true /\
  match addc with [] => true | _ =>
    forallb (fun m => if sortable now i m && memN (mpeer m) (priority i) then memN (mpeer m) addp else true) (metrics i) end = true.
Proof.
  set (lm := latest_valid now (metrics i)).
  set (skP := sort_keyed now (rev i) (filter (is_prio i) lm)).
  set (skC := sort_keyed now (rev i) (filter (is_cand i) lm)).
  assert (EP : sort_numeric now (rev i) (filter (is_prio i) lm) = map fst skP) by reflexivity.
  assert (EC : sort_numeric now (rev i) (filter (is_cand i) lm) = map fst skC) by reflexivity.
  cbv zeta. unfold new_candidates. fold lm. rewrite firstn_app, !filter_app.
  set (P := sort_numeric now (rev i) (filter (is_prio i) lm)) in *.
  set (C := sort_numeric now (rev i) (filter (is_cand i) lm)) in *.
  assert (HP : forall x, In x (firstn k P) -> memN x (priority i) = true) by (intros x Hx; apply prio_all_in; eapply in_firstn; eauto).
  assert (HC : forall x, In x (firstn (k - length P) C) -> memN x (priority i) = false) by (intros x Hx; apply cand_none_in; eapply in_firstn; eauto).
  rewrite (filter_all_true _ (firstn k P)) by exact HP.
  rewrite (filter_all_false _ (firstn (k - length P) C)) by exact HC.
  rewrite (filter_all_false (fun p => negb (memN p (priority i))) (firstn k P)) by (intros x Hx; rewrite (HP x Hx); reflexivity).
  rewrite (filter_all_true (fun p => negb (memN p (priority i))) (firstn (k - length P) C)) by (intros x Hx; rewrite (HC x Hx); reflexivity).
  rewrite app_nil_r. cbn [app].
  assert (VP : vals i (firstn k P) = map snd (firstn k skP)).
  { rewrite EP, firstn_map. apply vals_keyed. intros x Hx. apply (keyed_has_value (is_prio i)). apply (sort_keyed_in1 now (rev i)). eapply in_firstn; eauto. }
  assert (VC : vals i (firstn (k - length P) C) = map snd (firstn (k - length P) skC)).
  { rewrite EC, firstn_map. apply vals_keyed. intros x Hx. apply (keyed_has_value (is_cand i)). apply (sort_keyed_in1 now (rev i)). eapply in_firstn; eauto. }
  split; [|split; [|split; [|split; [|split]]]].
  - clear. induction (firstn k P ++ firstn (k - length P) C) as [|x xs IH]; simpl; auto. now rewrite N.eqb_refl.
  - rewrite VP. apply monotone_sorted, Sorted_firstn, sort_keyed_sorted.
  - rewrite VC. apply monotone_sorted, Sorted_firstn, sort_keyed_sorted.
  - rewrite EP, firstn_map. apply no_better_left_prefix. intros m Hm S G. apply sortable_iff in S.
    unfold is_prio. rewrite !andb_true_iff, !negb_true_iff, !memN_false. tauto.
  - rewrite EC, firstn_map. apply no_better_left_prefix. intros m Hm S G. apply sortable_iff in S.
    unfold is_cand. rewrite !andb_true_iff, !negb_true_iff, !memN_false. apply negb_true_iff, memN_false in G. tauto.
  - destruct (firstn (k - length P) C) as [|c cs] eqn:EF; [reflexivity|].
    assert (Hk : (length P < k)%nat).
    { destruct (Nat.ltb_spec (length P) k); auto. replace (k - length P)%nat with 0%nat in EF by lia. discriminate. }
    rewrite firstn_all2 by lia. apply forallb_forall. intros m Hm.
    destruct (sortable now i m) eqn:S; cbn [andb]; auto. destruct (memN (mpeer m) (priority i)) eqn:G; auto.
    apply memN_in. unfold P. apply sortable_iff in S.
    apply (Permutation_in _ (Permutation_sym (sort_numeric_perm _ _ _))).
    destruct (mval m) as [v|] eqn:V; [|tauto]. apply in_map_iff. exists (mpeer m, v). split; auto.
    unfold keyed. apply in_flat_map. exists m.
    assert (D : discard now m = false) by (apply discard_false_iff; tauto). split.
    + apply filter_In. split; [apply latest_valid_in; auto|]. unfold is_prio. rewrite !andb_true_iff, !negb_true_iff, !memN_false. tauto.
    + rewrite D, V. now left.
Qed.

End Monitor.

(* ---------- (1) the model always passes the monitor ---------- *)
Section Complete.
Variable now : Z.
Variable i : input.
Variable ord : list N -> list N.
Hypothesis Hord : forall xs, Permutation (ord xs) xs.
Hypothesis Hms : NoDup (map mpeer (metrics i)).
Hypothesis Hcur : NoDup (current i).

Let valid := valid_current now i ord.
Let final := new_candidates now i.
Let ncur := Z.of_nat (length valid).
Let cur_h := filter (healthy_p now i) (current i).

Lemma cur_h_in p : In p cur_h <-> In p valid.
Proof. unfold cur_h, valid. rewrite filter_In, (healthy_p_iff now i Hms), (valid_healthy now i ord Hord). tauto. Qed.
Lemma cur_h_perm : Permutation cur_h valid.
Proof. apply NoDup_Permutation; [apply NoDup_filter, Hcur | apply (valid_nodup now i ord Hord Hms) | apply cur_h_in]. Qed.
Lemma cur_h_len : Z.of_nat (length cur_h) = ncur.
Proof. unfold ncur. now rewrite (Permutation_length cur_h_perm). Qed.

Lemma reachable_eq : reachable now i = ncur + Z.of_nat (length final).
Proof. unfold reachable. rewrite Nat2Z.inj_add. f_equal.
  - change (healthy_count now i (current i) = ncur). apply (holders_current now i ord Hord).
  - unfold final. now rewrite new_candidates_length. Qed.

Lemma valid_is_cur p : In p valid -> In p (current i).
Proof. intros H. apply (valid_healthy now i ord Hord) in H. tauto. Qed.
Lemma valid_is_healthy_p p : In p valid -> healthy_p now i p = true.
Proof. intros H. apply (healthy_p_iff now i Hms). apply (valid_healthy now i ord Hord) in H. tauto. Qed.
Lemma final_not_cur p : In p final -> memN p (current i) = false.
Proof. intros H. apply final_healthy in H. apply memN_false. tauto. Qed.
Lemma final_is_healthy_p p : In p final -> healthy_p now i p = true.
Proof. intros H. apply (healthy_p_iff now i Hms). apply final_healthy in H. tauto. Qed.

Lemma added_none l : (forall p, In p l -> In p (current i)) -> filter (fun p => negb (memN p (current i))) l = [].
Proof. intros H. apply filter_all_false. intros p Hp. apply negb_false_iff, memN_in. auto. Qed.

(* how the monitor's verdict on a returned list is assembled *)
Lemma spec_okb_ok_intro l :
  (rmin i <? 0) && (rmax i <? 0) = false -> (0 <? rmin i) && (rmin i <=? rmax i) = true ->
  let ncur' := Z.of_nat (length cur_h) in
  let added := filter (fun p => negb (memN p (current i))) l in
  let addp := filter (fun p => memN p (priority i)) added in
  let addc := filter (fun p => negb (memN p (priority i))) added in
  let hl := Z.of_nat (length (filter (healthy_p now i) l)) in
  (reachable now i <? rmin i) = false -> nodupb l = true -> forallb (sortable_p now i) added = true ->
  (if ncur' <=? rmax i then subsetb cur_h l else (Z.of_nat (length l) =? rmax i) && subsetb l cur_h) = true ->
  (rmin i <=? hl) = true -> (hl <=? rmax i) = true ->
  (list_eqb N.eqb added (addp ++ addc) = true /\
   monotone (rev i) (vals i addp) = true /\ monotone (rev i) (vals i addc) = true /\
   no_better_left now i (fun p => memN p (priority i)) addp = true /\
   no_better_left now i (fun p => negb (memN p (priority i))) addc = true /\
   match addc with [] => true | _ =>
     forallb (fun m => if sortable now i m && memN (mpeer m) (priority i) then memN (mpeer m) addp else true) (metrics i) end = true) ->
  (if ncur' <? rmin i then true else match added with [] => true | _ => false end) = true ->
  spec_okb now i (ObsOk l) = true.
Proof. intros H1 H2 ncur' added addp addc hl H3 H4 H5 H6 H7 H8 [H9 [H10 [H11 [H12 [H13 H14]]]]] H15.
  unfold spec_okb. rewrite H1, H2. cbn [negb]. cbv zeta. fold cur_h. fold ncur'. fold added. fold addp. fold addc. fold hl.
  rewrite H3. cbn [negb]. rewrite H4, H5, H6, H7, H8, H9, H10, H11, H12, H13, H14, H15. reflexivity. Qed.

Lemma no_added_clauses :
  let added := @nil N in
  let addp := filter (fun p => memN p (priority i)) added in
  let addc := filter (fun p => negb (memN p (priority i))) added in
  list_eqb N.eqb added (addp ++ addc) = true /\
  monotone (rev i) (vals i addp) = true /\ monotone (rev i) (vals i addc) = true /\
  no_better_left now i (fun p => memN p (priority i)) addp = true /\
  no_better_left now i (fun p => negb (memN p (priority i))) addc = true /\
  match addc with [] => true | _ =>
    forallb (fun m => if sortable now i m && memN (mpeer m) (priority i) then memN (mpeer m) addp else true) (metrics i) end = true.
Proof. cbn [filter app list_eqb]. repeat split; try reflexivity; apply no_better_left_nil. Qed.

Theorem alloc_model_passes_monitor_l : spec_okb now i (obs_of (allocate now i ord)) = true.
Proof.
  destruct ((rmin i <? 0) && (rmax i <? 0)) eqn:Neg.
  { apply andb_true_iff in Neg. destruct Neg as [A B]. apply Z.ltb_lt in A, B.
    rewrite (alloc_everywhere_l now i ord A B). unfold spec_okb. cbn [obs_of].
    apply Z.ltb_lt in A, B. now rewrite A, B. }
  destruct ((0 <? rmin i) && (rmin i <=? rmax i)) eqn:VFb.
  2:{ unfold spec_okb. rewrite Neg, VFb. reflexivity. }
  pose proof VFb as VF. apply andb_true_iff in VF. destruct VF as [V1 V2]. apply Z.ltb_lt in V1. apply Z.leb_le in V2.
  assert (VF : valid_factors (rmin i) (rmax i)) by (split; auto).
  destruct (alloc_fail_is_error_l now i ord VF) as [Herr Hbad]. fold valid ncur final in Herr.
  pose proof reachable_eq as Hreach.
  destruct (allocate now i ord) as [l| |] eqn:EA; cbn [obs_of].
  - assert (Hnr : (reachable now i <? rmin i) = false).
    { apply Z.ltb_ge. rewrite Hreach. destruct (Z.lt_ge_cases (ncur + Z.of_nat (length final)) (rmin i)) as [C|C]; auto.
      apply Herr in C. discriminate. }
    apply alloc_shape in EA. fold valid ncur final in EA.
    destruct EA as [[A _]|[_ [[A ->]|[[A [B ->]]|[A [B [C ->]]]]]]]; [lia| | |].
    + (* more healthy holders than max: the first max of them *)
      assert (Hsub : forall p, In p (firstn (Z.to_nat (rmax i)) valid) -> In p valid) by (intros p; apply in_firstn).
      assert (Hlen : length (firstn (Z.to_nat (rmax i)) valid) = Z.to_nat (rmax i)).
      { rewrite firstn_length. unfold ncur in A. lia. }
      apply spec_okb_ok_intro; auto; cbv zeta.
      * apply nodupb_NoDup, NoDup_firstn, (valid_nodup now i ord Hord Hms).
      * rewrite added_none; auto. intros p Hp. apply valid_is_cur; auto.
      * rewrite cur_h_len. destruct (Z.leb_spec ncur (rmax i)); [lia|]. apply andb_true_iff. split.
        -- apply Z.eqb_eq. rewrite Hlen. lia.
        -- apply subsetb_incl. intros p Hp. apply cur_h_in. auto.
      * rewrite filter_all_true by (intros p Hp; apply valid_is_healthy_p; auto). rewrite Hlen. apply Z.leb_le. lia.
      * rewrite filter_all_true by (intros p Hp; apply valid_is_healthy_p; auto). rewrite Hlen. apply Z.leb_le. lia.
      * rewrite added_none by (intros p Hp; apply valid_is_cur; auto). apply no_added_clauses.
      * rewrite added_none by (intros p Hp; apply valid_is_cur; auto). match goal with |- (if ?c then _ else _) = _ => destruct c end; reflexivity.
    + (* enough healthy holders: the current list unchanged *)
      apply spec_okb_ok_intro; auto; cbv zeta.
      * now apply nodupb_NoDup.
      * rewrite added_none; auto.
      * rewrite cur_h_len. destruct (Z.leb_spec ncur (rmax i)); [|lia]. apply subsetb_incl. intros p Hp.
        unfold cur_h in Hp. apply filter_In in Hp. tauto.
      * fold cur_h. rewrite cur_h_len. apply Z.leb_le. lia.
      * fold cur_h. rewrite cur_h_len. apply Z.leb_le. lia.
      * rewrite added_none by auto. apply no_added_clauses.
      * rewrite added_none by auto. match goal with |- (if ?c then _ else _) = _ => destruct c end; reflexivity.
    + (* below min: healthy holders plus a prefix of the candidate list *)
      set (k := Z.to_nat (Z.min (rmax i - ncur) (Z.of_nat (length final)))).
      assert (Hadded : filter (fun p => negb (memN p (current i))) (valid ++ firstn k final) = firstn k final).
      { rewrite filter_app, added_none by (apply valid_is_cur). cbn [app]. apply filter_all_true.
        intros p Hp. apply in_firstn in Hp. now rewrite final_not_cur. }
      assert (Hlen : length (firstn k final) = k) by (rewrite firstn_length; unfold k; lia).
      assert (Hhl : filter (healthy_p now i) (valid ++ firstn k final) = valid ++ firstn k final).
      { apply filter_all_true. intros p Hp. apply in_app_or in Hp. destruct Hp as [Hp|Hp].
        - now apply valid_is_healthy_p. - apply in_firstn in Hp. now apply final_is_healthy_p. }
      apply spec_okb_ok_intro; auto; cbv zeta; rewrite ?Hadded, ?Hhl, ?app_length, ?Hlen.
      * apply nodupb_NoDup. apply NoDup_app_intro; [apply (valid_nodup now i ord Hord Hms) | apply NoDup_firstn, final_nodup, Hms|].
        intros x Hx Hy. apply in_firstn in Hy. apply valid_is_cur in Hx. apply final_not_cur in Hy. apply memN_false in Hy. tauto.
      * apply forallb_forall. intros p Hp. apply in_firstn in Hp. now apply (sortable_p_iff now i Hms).
      * rewrite cur_h_len. destruct (Z.leb_spec ncur (rmax i)); [|lia]. apply subsetb_incl. intros p Hp.
        apply in_or_app. left. now apply cur_h_in.
      * apply Z.leb_le. unfold ncur in *. unfold k. lia.
      * apply Z.leb_le. unfold ncur in *. unfold k. lia.
      * apply (prefix_clauses now i Hms k).
      * rewrite cur_h_len. destruct (Z.ltb_spec ncur (rmin i)); [reflexivity|lia].
  - congruence.
  - unfold spec_okb. rewrite Neg, VFb. cbn [negb]. apply Z.ltb_lt. rewrite Hreach. now apply Herr.
Qed.
End Complete.

(* ---------- (2) an answer accepted by the monitor satisfies the property ---------- *)
Lemma list_eqb_N_eq (a b : list N) : list_eqb N.eqb a b = true -> a = b.
Proof. revert b. induction a as [|x xs IH]; intros [|y ys]; simpl; try discriminate; auto.
  rewrite andb_true_iff, N.eqb_eq. intros [-> H]. f_equal. auto. Qed.

Lemma monotone_tail rv v l : monotone rv (v :: l) = true -> monotone rv l = true.
Proof. destruct l as [|w r]; [reflexivity|]. cbn [monotone]. rewrite andb_true_iff. tauto. Qed.

Section Sound.
Variable now : Z.
Variable i : input.
Hypothesis Hms : NoDup (map mpeer (metrics i)).

Lemma healthy_count_filter l : NoDup l -> healthy_count now i l = Z.of_nat (length (filter (healthy_p now i) l)).
Proof. intros Hl. set (l' := filter (healthy_p now i) l).
  assert (E : healthy_count now i l = healthy_count now i l').
  { unfold healthy_count, holders. do 2 f_equal. apply filter_ext_in. intros m Hm.
    destruct (healthy_m now i m) eqn:Hh; cbn [andb]; auto.
    assert (Hp : healthy_p now i (mpeer m) = true) by (unfold healthy_p; now rewrite (metric_of_in i m Hms Hm)).
    destruct (memN (mpeer m) l) eqn:A; destruct (memN (mpeer m) l') eqn:B; auto.
    - apply memN_in in A. apply memN_false in B. exfalso. apply B. apply filter_In. auto.
    - apply memN_in in B. apply memN_false in A. exfalso. apply A. apply filter_In in B. tauto. }
  rewrite E. apply (holders_count now i (fun x => x) Hms).
  - now apply NoDup_filter.
  - intros p Hp. apply filter_In in Hp. apply (healthy_p_iff now i Hms). tauto. Qed.

Lemma monotone_sorted_by_value l :
  (forall p, In p l -> exists v, value_of i p = Some v) -> monotone (rev i) (vals i l) = true -> sorted_by_value i l.
Proof. unfold sorted_by_value. induction l as [|p r IH]; intros Hv Hm; [constructor|].
  destruct (Hv p (or_introl eq_refl)) as [v Ev].
  assert (Evals : vals i (p :: r) = v :: vals i r) by (unfold vals; simpl; now rewrite Ev).
  rewrite Evals in Hm. constructor.
  - apply IH; [intros q Hq; apply Hv; now right | eapply monotone_tail; eauto].
  - destruct r as [|q r']; constructor. destruct (Hv q (or_intror (or_introl eq_refl))) as [w Ew].
    assert (Evals2 : vals i (q :: r') = w :: vals i r') by (unfold vals; simpl; now rewrite Ew).
    rewrite Evals2 in Hm. cbn [monotone] in Hm. apply andb_true_iff in Hm. destruct Hm as [Hm _].
    intros v' w' Hv' Hw'. apply (has_value_of i Hms) in Hv', Hw'. rewrite Ev in Hv'. rewrite Ew in Hw'.
    inversion Hv'; inversion Hw'; subst. unfold dir_le. destruct (rev i); now apply N.leb_le. Qed.

Lemma no_better_left_sound (grpb : N -> bool) (grp : N -> Prop) chosen :
  (forall q, grp q -> grpb q = true) -> no_better_left now i grpb chosen = true -> none_better_left now i grp chosen.
Proof. intros Hg H q v [m [A [B [C [D [E [F G]]]]]]] Hq Hn p w Hp Hw. unfold no_better_left in H.
  rewrite forallb_forall in H. specialize (H m A). subst q.
  assert (S : sortable now i m = true) by (apply sortable_iff; rewrite E; repeat split; auto; discriminate).
  rewrite S, (Hg _ Hq) in H. apply memN_false in Hn. rewrite Hn, E in H. cbn [negb andb] in H.
  rewrite forallb_forall in H. apply (has_value_of i Hms) in Hw.
  specialize (H w (proj2 (in_vals i chosen w) (ex_intro _ p (conj Hp Hw)))).
  unfold dir_le. destruct (rev i); now apply N.leb_le. Qed.

Theorem alloc_monitor_sound_l l : NoDup (current i) -> valid_factors (rmin i) (rmax i) ->
  spec_okb now i (ObsOk l) = true -> alloc_spec now i l.
Proof. intros Hcur [V1 V2] H. unfold spec_okb in H.
  assert (Neg : (rmin i <? 0) && (rmax i <? 0) = false) by (apply andb_false_iff; left; apply Z.ltb_ge; lia).
  assert (VFb : (0 <? rmin i) && (rmin i <=? rmax i) = true) by (apply andb_true_iff; split; [apply Z.ltb_lt | apply Z.leb_le]; lia).
  rewrite Neg, VFb in H. cbn [negb] in H. cbv zeta in H. fold (added_of i l) in H.
  set (added := added_of i l) in *.
  set (addp := filter (fun p => memN p (priority i)) added) in *.
  set (addc := filter (fun p => negb (memN p (priority i))) added) in *.
  set (cur_h := filter (healthy_p now i) (current i)) in *.
  rewrite !andb_true_iff in H.
  destruct H as [[[[[[[[[[[[H1 H2] H3] H4] H5] H6] H7] H8] H9] H10] H11] H12] H13].
  assert (Hl : NoDup l) by now apply nodupb_NoDup.
  assert (Hnc : healthy_count now i (current i) = Z.of_nat (length cur_h)) by (apply healthy_count_filter; auto).
  assert (Hadd : forall p, In p added -> In p (new_candidates now i)).
  { intros p Hp. rewrite forallb_forall in H3. apply (sortable_p_iff now i Hms). auto. }
  assert (Hval : forall p, In p added -> exists v, value_of i p = Some v).
  { intros p Hp. apply Hadd, final_in in Hp. destruct Hp as [m [A [B [C [D _]]]]]. destruct (mval m) as [v|] eqn:V; [|congruence].
    exists v. apply (has_value_of i Hms). exists m. auto. }
  constructor.
  - exact Hl.
  - intros p Hp Hn. assert (Hf : In p (new_candidates now i)).
    { apply Hadd. apply filter_In. split; auto. apply negb_true_iff, memN_false. auto. }
    apply final_healthy in Hf. tauto.
  - intros Hle p Hh Hc. rewrite Hnc in Hle. apply Z.leb_le in Hle. rewrite Hle in H4. rewrite subsetb_incl in H4. apply H4.
    apply filter_In. split; auto. now apply (healthy_p_iff now i Hms).
  - intros Hlt. rewrite Hnc in Hlt. apply Z.leb_gt in Hlt. rewrite Hlt in H4. apply andb_true_iff in H4. destruct H4 as [A B].
    apply Z.eqb_eq in A. split; auto. intros p Hp. rewrite subsetb_incl in B. apply B in Hp. apply filter_In in Hp.
    destruct Hp as [Hp Hh]. apply (healthy_p_iff now i Hms) in Hh. auto.
  - rewrite (healthy_count_filter l Hl). apply Z.leb_le in H5, H6. lia.
  - intros Hge. rewrite Hnc in Hge. apply Z.ltb_ge in Hge. rewrite Hge in H13. change (added = []). destruct added; [reflexivity|discriminate].
  - exists addp, addc. split; [change (added = addp ++ addc); now apply list_eqb_N_eq|]. split; [|split; [|split; [|split; [|split; [|split]]]]].
    + intros p Hp. apply filter_In in Hp. apply memN_in. tauto.
    + intros p Hp. apply filter_In in Hp. apply memN_false, negb_true_iff. tauto.
    + apply monotone_sorted_by_value; auto. intros p Hp. apply filter_In in Hp. apply Hval. tauto.
    + apply monotone_sorted_by_value; auto. intros p Hp. apply filter_In in Hp. apply Hval. tauto.
    + eapply no_better_left_sound; [|exact H10]. intros q Hq. now apply memN_in.
    + eapply no_better_left_sound; [|exact H11]. intros q Hq. now apply negb_true_iff, memN_false.
    + intros Hne q v [m [A [B [C [D [E [F G]]]]]]] Hq. destruct addc as [|c cs]; [congruence|].
      rewrite forallb_forall in H12. specialize (H12 m A). subst q.
      assert (S : sortable now i m = true) by (apply sortable_iff; rewrite E; repeat split; auto; discriminate).
      apply memN_in in Hq. rewrite S, Hq in H12. cbn [andb] in H12. now apply memN_in.
Qed.

(* an error passes the monitor only when the minimum cannot be reached *)
Theorem alloc_monitor_err_sound_l : valid_factors (rmin i) (rmax i) ->
  spec_okb now i ObsErr = true -> reachable now i < rmin i.
Proof. intros [V1 V2] H. unfold spec_okb in H.
  assert (Neg : (rmin i <? 0) && (rmax i <? 0) = false) by (apply andb_false_iff; left; apply Z.ltb_ge; lia).
  assert (VFb : (0 <? rmin i) && (rmin i <=? rmax i) = true) by (apply andb_true_iff; split; [apply Z.ltb_lt | apply Z.leb_le]; lia).
  rewrite Neg, VFb in H. cbn [negb] in H. now apply Z.ltb_lt. Qed.

(* what `reachable` bounds: any duplicate-free set of usable peers (healthy, and either a current holder or
   with a numeric metric). Fewer than min reachable = no admissible allocation exists. *)
Theorem reachable_bounds_usable l : NoDup l ->
  (forall p, In p l -> healthy now i p /\ (In p (current i) \/ exists m, In m (metrics i) /\ mpeer m = p /\ mval m <> None)) ->
  Z.of_nat (length l) <= reachable now i.
Proof. intros Hl Hu. unfold reachable.
  set (A := fun m => healthy_m now i m && memN (mpeer m) (current i)).
  set (P := fun m => A m || sortable now i m).
  assert (E : (length (filter A (metrics i)) + length (filter (sortable now i) (metrics i)))%nat = length (filter P (metrics i))).
  { unfold P. apply filter_disjoint_length. intros m. unfold A, sortable.
    destruct (healthy_m now i m), (memN (mpeer m) (current i)); reflexivity. }
  rewrite E. apply Nat2Z.inj_le. rewrite <- (count_holders P (metrics i) l Hms Hl).
  - apply filter_and_length_le.
  - intros p Hp. destruct (Hu p Hp) as [[m [A1 [A2 [A3 [A4 A5]]]]] Hor]. exists m. split; auto. split; auto.
    unfold P, A. subst p. assert (Hh : healthy_m now i m = true) by (apply healthy_m_iff; auto). rewrite Hh. cbn [andb].
    destruct (memN (mpeer m) (current i)) eqn:Mc; [reflexivity|]. cbn [orb]. apply memN_false in Mc.
    destruct Hor as [Hc|[m' [B1 [B2 B3]]]]; [tauto|].
    assert (Em : m = m') by (apply (nodup_same_peer _ _ _ Hms A1 B1); auto). subst m'.
    apply sortable_iff. auto.
Qed.
End Sound.

(* the monitor on the everywhere case *)
Theorem alloc_monitor_everywhere_l now i o : rmin i < 0 -> rmax i < 0 -> spec_okb now i o = true -> o = ObsOk [].
Proof. intros A B. unfold spec_okb. apply Z.ltb_lt in A, B. rewrite A, B. cbn [andb].
  destruct o as [[|x xs]|]; try discriminate. reflexivity. Qed.

(* composition: the model's answer satisfies the Prop-level property *)
Corollary alloc_model_satisfies_spec_l now i ord l :
  (forall xs, Permutation (ord xs) xs) -> NoDup (map mpeer (metrics i)) -> NoDup (current i) ->
  valid_factors (rmin i) (rmax i) -> allocate now i ord = Ok l -> alloc_spec now i l.
Proof. intros Ho Hm Hc Hv E. apply alloc_monitor_sound_l; auto.
  pose proof (alloc_model_passes_monitor_l now i ord Ho Hm Hc) as H. now rewrite E in H. Qed.
