(* C04 — (1) the guard chains translated from the source are the model's (by computation on Gen/C04Guards.v);
   (2) interpreting the model's chains IS the decision of Model/C04_ClusterOps.v. *)
From V Require Import Base.Common Base.CommonLemmas Model.C03_Alloc Model.C04_ClusterOps Model.C04_Guards Gen.C04Guards.
From Coq Require Import String.
Open Scope string_scope.
Open Scope Z_scope.

Lemma c04_guards_source_is_model_l : gen_guard_table = model_guard_table.
Proof. reflexivity. Qed.

(* ---- (2) the model's chains against Model/C04_ClusterOps.v ---- *)
Lemma with_locals_pin L L' p x : with_locals L (with_locals L' (with_pin p (with_locals [] x))) = with_locals L (with_pin p x).
Proof. destruct x; reflexivity. Qed.
Lemma with_locals_same x : with_locals (x_locals x) x = x.
Proof. destruct x; reflexivity. Qed.

Definition rf_ok (c : cfg) (p : pin) : bool :=
  let p1 := setup_rf c p in factors_valid (o_rmin (p_opts p1)) (o_rmax (p_opts p1)).

(* isReplicationFactorValid on the two locals *)
Lemma rf_guards x a b : lget "rplMin" (x_locals x) = a -> lget "rplMax" (x_locals x) = b ->
  run_steps no_callee (skipn 5 model_setupReplicationFactor) x
  = (Done (if factors_valid a b then Accept else Refuse "EBadFactors"), x).
Proof.
  intros A B. unfold model_setupReplicationFactor, lmin, lmax, always. cbn [skipn run_steps eval_c eval_z].
  rewrite A, B. unfold factors_valid.
  destruct (a =? 0), (b =? 0), (b <? a), (a <? -1), (b <? -1), (a =? -1), (b =? -1); reflexivity.
Qed.

Ltac gsimp := cbv beta iota zeta delta [run_steps eval_c eval_z fold_left apply_eff x_locals x_pin x_cfg x_now x_existing x_bl x_opts x_fails x_alloc
  with_locals with_pin lset lget set_opts set_factors set_allocs who_pin
  p_opts p_cid p_ty p_allocs p_depth p_ref o_rmin o_rmax o_name o_mode o_shard o_ualloc o_expire o_meta o_update o_origins
  String.eqb Ascii.eqb Bool.eqb firstn skipn app def_min def_max follower everywhere with_defaults setup_rf rf_ok negb andb orb fst snd].

Lemma run_rf_spec x : x_locals x = [] -> exists L,
  run_rf x = (Done (if rf_ok (x_cfg x) (x_pin x) then Accept else Refuse "EBadFactors"),
              with_locals L (with_pin (setup_rf (x_cfg x) (x_pin x)) x)).
Proof.
  destruct x as [c now p ex bl L0 o fl al]. cbn [x_locals x_cfg x_pin]. intros ->.
  destruct p as [po pc pt pa pd pr]. destruct po as [rmin rmax nm md sh ua exr me up org]. destruct c as [dmin dmax fo ar].
  unfold run_rf.
  change model_setupReplicationFactor with (firstn 5 model_setupReplicationFactor ++ skipn 5 model_setupReplicationFactor)%list.
  unfold model_setupReplicationFactor at 1. unfold lmin, lmax, always. gsimp.
  destruct (rmin =? 0) eqn:E1; destruct (rmax =? 0) eqn:E2; gsimp;
    match goal with |- context [if (if ?a then ?b else false) then _ else _] => destruct a eqn:EV1; [destruct b eqn:EV2|] end; gsimp;
    eexists; (erewrite rf_guards; [reflexivity| |]; reflexivity).
Qed.

Lemma run_cpt_spec x : run_cpt x = (Done (if check_pin_type (x_pin x) then Accept else Refuse "EPinType"), x).
Proof.
  unfold run_cpt, model_checkPinType, always, check_pin_type. cbn [run_steps eval_c eval_z who_pin].
  destruct (x_pin x) as [po pc pt pa pd pr]. cbn [p_ty p_ref p_depth p_allocs].
  destruct pt; cbn [ptype_eqb andb orb negb]; destruct pr; cbn [is_some negb andb]; try reflexivity;
    try (destruct (pd =? 1); reflexivity); try (destruct (pd =? 0); reflexivity);
    destruct pa; cbn [zlen List.length Z.of_nat Z.eqb negb andb]; reflexivity.
Qed.

Definition class_name (e : err) : string :=
  match e with
  | EFollower => "EFollower" | ENotFound => "ENotFound" | EBadFactors => "EBadFactors" | EExpired => "EExpired"
  | ETypeChange => "ETypeChange" | EDowngrade => "EDowngrade" | EPinType => "EPinType" | EAlloc => "EAlloc"
  | EUpdateType => "EUpdateType" | EUnpinType => "EUnpinType" | EResolve => "EResolve" | EMeta => "EMeta" | EOther => "EOther" end.

Lemma err_of_class_name e : e <> EResolve -> err_of_class (class_name e) = Some e.
Proof. destruct e; intros H; try reflexivity. now elim H. Qed.

(* what setupPin decides (the part of pin_main before the meta / shortcut / allocation steps) *)
Definition setup_decision (c : cfg) (now : Z) (p : pin) (existing : option pin) : option err :=
  let p1 := setup_rf c p in
  if negb (factors_valid (o_rmin (p_opts p1)) (o_rmax (p_opts p1))) then Some EBadFactors
  else if expire_past now (o_expire (p_opts p1)) then Some EExpired
  else setup_existing p1 existing.

Lemma setup_rf_expire c p : o_expire (p_opts (setup_rf c p)) = o_expire (p_opts p).
Proof. unfold setup_rf, with_defaults. destruct (everywhere _); reflexivity. Qed.

Lemma run_steps_guard callee g o r y :
  run_steps callee (SGuard g o :: r) y = if eval_c y g then (Done o, y) else run_steps callee r y.
Proof. reflexivity. Qed.

Lemma setup_tail x :
  run_steps setup_callee (skipn 2 model_setupPin) x
  = (Done (match setup_existing (x_pin x) (x_existing x) with Some e => Refuse (class_name e) | None => Accept end), x).
Proof.
  unfold model_setupPin. cbn [skipn run_steps eval_c who_pin]. unfold setup_existing.
  destruct (x_existing x) as [ex|]; cbn [is_some negb]; [|reflexivity].
  destruct (ptype_eqb (p_ty ex) (p_ty (x_pin x))); cbn [negb]; [|reflexivity].
  destruct ((o_mode (p_opts ex) =? 0)%N); cbn [andb negb].
  - destruct ((o_mode (p_opts (x_pin x)) =? 0)%N); cbn [negb]; [|reflexivity].
    cbn [setup_callee String.eqb Ascii.eqb Bool.eqb]. rewrite run_cpt_spec.
    replace (x_pin (with_locals [] x)) with (x_pin x) by (destruct x; reflexivity).
    replace (with_locals (x_locals x) (with_locals [] x)) with x by (destruct x; reflexivity).
    destruct (check_pin_type (x_pin x)); reflexivity.
  - cbn [setup_callee String.eqb Ascii.eqb Bool.eqb]. rewrite run_cpt_spec.
    replace (x_pin (with_locals [] x)) with (x_pin x) by (destruct x; reflexivity).
    replace (with_locals (x_locals x) (with_locals [] x)) with x by (destruct x; reflexivity).
    destruct (check_pin_type (x_pin x)); reflexivity.
Qed.

Lemma run_setup_spec x :
  run_setup x = (Done (match setup_decision (x_cfg x) (x_now x) (x_pin x) (x_existing x) with
                       | Some e => Refuse (class_name e) | None => Accept end),
                 with_pin (setup_rf (x_cfg x) (x_pin x)) x).
Proof.
  unfold run_setup, model_setupPin. cbn [run_steps setup_callee String.eqb Ascii.eqb Bool.eqb].
  destruct (run_rf_spec (with_locals [] x)) as [L R]; [destruct x; reflexivity|]. rewrite R.
  replace (x_cfg (with_locals [] x)) with (x_cfg x) by (destruct x; reflexivity).
  replace (x_pin (with_locals [] x)) with (x_pin x) by (destruct x; reflexivity).
  rewrite with_locals_pin. unfold setup_decision, rf_ok. cbv zeta.
  set (p1 := setup_rf (x_cfg x) (x_pin x)).
  replace (with_locals (x_locals x) (with_pin p1 x)) with (with_pin p1 x) by (destruct x; reflexivity).
  destruct (factors_valid (o_rmin (p_opts p1)) (o_rmax (p_opts p1))); cbn [negb]; [|reflexivity].
  cbv iota beta.
  pose proof (setup_tail (with_pin p1 x)) as T. unfold model_setupPin in T.
  cbn [skipn run_steps setup_callee String.eqb Ascii.eqb Bool.eqb] in T. cbv iota beta in T.
  rewrite T. clear T. cbn [eval_c].
  replace (x_pin (with_pin p1 x)) with p1 by (destruct x; reflexivity).
  replace (x_now (with_pin p1 x)) with (x_now x) by (destruct x; reflexivity).
  replace (x_existing (with_pin p1 x)) with (x_existing x) by (destruct x; reflexivity).
  unfold expire_past. destruct (o_expire (p_opts p1)) as [t|]; cbn [is_some negb andb]; [|reflexivity].
  destruct (t_before t (x_now x)); reflexivity.
Qed.

Lemma run_steps_effect callee g es r y :
  run_steps callee (SEffect g es :: r) y = run_steps callee r (if eval_c y g then fold_left apply_eff es y else y).
Proof. reflexivity. Qed.

Lemma zlen_nil {A} (l : list A) : (zlen l =? 0) = match l with [] => true | _ => false end.
Proof. destruct l; [reflexivity|]. unfold zlen. cbn [List.length]. rewrite Nat2Z.inj_succ. apply Z.eqb_neq. lia. Qed.

(* ---- pin() ---- *)
Definition shortcut_pin (c : cfg) (st : list (N * pin)) (p : pin) (bl : list N) : pin :=
  let p1 := setup_rf c p in
  match aget (p_cid p) st with
  | Some ex => if opts_equal (p_opts p1) (p_opts ex) && (match bl with [] => true | _ => false end) then ex else p1
  | None => p1 end.

(* the context pin() runs in: the state lookup is `existing`; the oracle "allocate fails" and the list it returns are
   what C03's allocate answers for the pin as it is when the call is made *)
Definition pin_ctx (c : cfg) (e : env) (ord : list N -> list N) (st : list (N * pin)) (p : pin) (bl : list N) : gctx :=
  let existing := aget (p_cid p) st in
  let r := allocate (e_now e) (alloc_input c e (shortcut_pin c st p bl) existing bl) ord in
  mk_gctx c (e_now e) p existing bl [] (p_opts p)
    (fun f => if String.eqb f "allocate" then match r with Ok _ => false | _ => true end else false)
    (match r with Ok l => l | _ => [] end).

Lemma setup_decision_classes c now p ex e : setup_decision c now p ex = Some e -> e <> EResolve.
Proof.
  unfold setup_decision, setup_existing. cbv zeta.
  destruct (negb _); [intros [= <-]; discriminate|]. destruct (expire_past _ _); [intros [= <-]; discriminate|].
  destruct ex as [x|]; [|discriminate]. destruct (negb _); [intros [= <-]; discriminate|].
  destruct (_ && _); [intros [= <-]; discriminate|]. destruct (negb _); [intros [= <-]; discriminate|discriminate].
Qed.

Lemma pin_main_decision c e ord st p bl :
  pin_main c e ord st p bl =
  match setup_decision c (e_now e) p (aget (p_cid p) st) with
  | Some er => (RErr er, st)
  | None =>
      let p1 := setup_rf c p in
      if ptype_eqb (p_ty p1) MetaT then (ROk p1, log_pin st p1)
      else let p2 := shortcut_pin c st p bl in
           match p_allocs p2 with
           | _ :: _ => (ROk p2, log_pin st p2)
           | [] => match allocate (e_now e) (alloc_input c e p2 (aget (p_cid p) st) bl) ord with
                   | Ok l => let p3 := set_allocs l p2 in (ROk p3, log_pin st p3)
                   | _ => (RErr EAlloc, st) end
           end
  end.
Proof.
  unfold pin_main, setup_decision, shortcut_pin. cbv zeta.
  destruct (negb (factors_valid _ _)); [reflexivity|]. destruct (expire_past _ _); [reflexivity|].
  destruct (setup_existing _ _); reflexivity.
Qed.

Lemma run_steps_call callee f r y :
  run_steps callee (SCall f :: r) y =
  let '(res, x') := callee f (with_locals [] y) in
  let x'' := with_locals (x_locals y) x' in
  match res with Done Accept => run_steps callee r x'' | other => (other, x'') end.
Proof. reflexivity. Qed.

Ltac xsimp := cbn [with_locals with_pin x_locals x_cfg x_now x_pin x_existing x_bl x_opts x_fails x_alloc].

Lemma run_pin_main c e ord st p bl :
  let r := run_steps pin_callee (skipn 3 model_pin) (pin_ctx c e ord st p bl) in
  match fst r with
  | Done (Refuse cls) => exists er, err_of_class cls = Some er /\ pin_main c e ord st p bl = (RErr er, st)
  | Done (Commit op) => op = "LogPin" /\ pin_main c e ord st p bl = (ROk (x_pin (snd r)), log_pin st (x_pin (snd r)))
  | _ => False end.
Proof.
  cbv zeta. rewrite pin_main_decision. unfold model_pin, always. cbn [skipn].
  rewrite run_steps_effect. cbn [eval_c fold_left apply_eff].
  rewrite run_steps_guard. cbn [eval_c].
  rewrite run_steps_call. cbn [pin_callee String.eqb Ascii.eqb Bool.eqb]. rewrite run_setup_spec.
  unfold pin_ctx. cbv zeta. xsimp.
  destruct (setup_decision c (e_now e) p (aget (p_cid p) st)) as [er|] eqn:SD.
  { cbn [fst]. exists er. split; [|reflexivity]. apply err_of_class_name. eapply setup_decision_classes; eauto. }
  set (p1 := setup_rf c p). fold p1.
  rewrite run_steps_guard. cbn [eval_c who_pin]. xsimp.
  destruct (ptype_eqb (p_ty p1) MetaT).
  { cbn [fst snd]. xsimp. split; reflexivity. }
  rewrite run_steps_effect. cbn [eval_c eval_z who_pin]. xsimp. rewrite zlen_nil.
  unfold shortcut_pin. fold p1.
  destruct (aget (p_cid p) st) as [ex|] eqn:EX; cbn [is_some negb andb].
  - destruct (opts_equal (p_opts p1) (p_opts ex) && match bl with [] => true | _ :: _ => false end) eqn:SC.
    + cbn [fold_left apply_eff]. xsimp.
      rewrite run_steps_guard. cbn [eval_c eval_z]. xsimp. rewrite zlen_nil.
      destruct (p_allocs ex) as [|a al] eqn:AL.
      * cbn [andb String.eqb Ascii.eqb Bool.eqb].
        destruct (allocate _ _ _) as [l| |].
        -- rewrite run_steps_effect. cbn [eval_c eval_z]. xsimp. rewrite AL. cbn [zlen List.length Z.of_nat Z.eqb fold_left apply_eff]. xsimp.
           rewrite run_steps_guard. cbn [eval_c fst snd]. xsimp. split; reflexivity.
        -- cbn [fst]. exists EAlloc. split; reflexivity.
        -- cbn [fst]. exists EAlloc. split; reflexivity.
      * cbn [andb]. rewrite run_steps_effect. cbn [eval_c eval_z]. xsimp. rewrite zlen_nil, AL.
        rewrite run_steps_guard. cbn [eval_c fst snd]. xsimp. split; reflexivity.
    + rewrite run_steps_guard. cbn [eval_c eval_z]. xsimp. rewrite zlen_nil.
      destruct (p_allocs p1) as [|a al] eqn:AL.
      * cbn [andb String.eqb Ascii.eqb Bool.eqb].
        destruct (allocate _ _ _) as [l| |].
        -- rewrite run_steps_effect. cbn [eval_c eval_z]. xsimp. rewrite AL. cbn [zlen List.length Z.of_nat Z.eqb fold_left apply_eff]. xsimp.
           rewrite run_steps_guard. cbn [eval_c fst snd]. xsimp. split; reflexivity.
        -- cbn [fst]. exists EAlloc. split; reflexivity.
        -- cbn [fst]. exists EAlloc. split; reflexivity.
      * cbn [andb]. rewrite run_steps_effect. cbn [eval_c eval_z]. xsimp. rewrite zlen_nil, AL.
        rewrite run_steps_guard. cbn [eval_c fst snd]. xsimp. split; reflexivity.
  - rewrite run_steps_guard. cbn [eval_c eval_z]. xsimp. rewrite zlen_nil.
    destruct (p_allocs p1) as [|a al] eqn:AL.
    + cbn [andb String.eqb Ascii.eqb Bool.eqb].
      destruct (allocate _ _ _) as [l| |].
      * rewrite run_steps_effect. cbn [eval_c eval_z]. xsimp. rewrite AL. cbn [zlen List.length Z.of_nat Z.eqb fold_left apply_eff]. xsimp.
        rewrite run_steps_guard. cbn [eval_c fst snd]. xsimp. split; reflexivity.
      * cbn [fst]. exists EAlloc. split; reflexivity.
      * cbn [fst]. exists EAlloc. split; reflexivity.
    + cbn [andb]. rewrite run_steps_effect. cbn [eval_c eval_z]. xsimp. rewrite zlen_nil, AL.
      rewrite run_steps_guard. cbn [eval_c fst snd]. xsimp. split; reflexivity.
Qed.

Theorem run_pin_spec c e ord st p bl :
  let r := run_pin (pin_ctx c e ord st p bl) in
  match fst r with
  | Done (Refuse cls) => exists er, err_of_class cls = Some er /\ pin_core c e ord st p bl = (RErr er, st)
  | Done (Redirect f) => f = "PinUpdate" /\ exists u, o_update (p_opts p) = Some u /\ (u =? p_cid p)%N = false
                         /\ pin_core c e ord st p bl = pin_update_op c e st u (p_cid p) (p_opts p)
  | Done (Commit op) => op = "LogPin" /\ pin_core c e ord st p bl = (ROk (x_pin (snd r)), log_pin st (x_pin (snd r)))
  | _ => False end.
Proof.
  pose proof (run_pin_main c e ord st p bl) as M. cbv zeta in M. unfold model_pin, always in M. cbn [skipn] in M.
  cbv zeta. unfold run_pin, model_pin, always, pin_core.
  set (x := pin_ctx c e ord st p bl) in *.
  rewrite run_steps_guard. cbn [eval_c]. change (x_cfg x) with c.
  destruct (follower c) eqn:F.
  { cbn [fst]. exists EFollower. split; reflexivity. }
  rewrite run_steps_guard. cbn [eval_c].
  rewrite run_steps_guard. cbn [eval_c]. change (x_pin x) with p.
  destruct (o_update (p_opts p)) as [u|] eqn:U; cbn [is_some negb andb].
  - destruct ((u =? p_cid p)%N) eqn:UE; cbn [negb].
    2:{ cbn [fst]. split; [reflexivity|]. exists u. split; [reflexivity|split; [exact UE|reflexivity]]. }
    match goal with |- context [run_steps pin_callee ?l x] => set (R := run_steps pin_callee l x) in * end.
    destruct (fst R) as [[cls|f|op|]|]; try exact M; contradiction.
  - match goal with |- context [run_steps pin_callee ?l x] => set (R := run_steps pin_callee l x) in * end.
    destruct (fst R) as [[cls|f|op|]|]; try exact M; contradiction.
Qed.

(* ---- Unpin, PinUpdate ---- *)
Definition dummy_pin : pin := mk_pin (mk_opts 0 0 0%N 0%N 0%N [] None [] None []) 0%N BadT [] 0 None.

(* Unpin: `pin` is what PinGet found; the oracles: PinGet fails = not in the state, unpinClusterDag fails = cids_from_meta has no answer *)
Definition unpin_ctx (c : cfg) (e : env) (st : list (N * pin)) (h : N) : gctx :=
  let found := aget h st in
  let p := match found with Some p => p | None => dummy_pin end in
  mk_gctx c (e_now e) p None [] [] (p_opts p)
    (fun f => if String.eqb f "PinGet" then negb (is_some found)
              else if String.eqb f "unpinClusterDag" then negb (is_some (cids_from_meta e st h p)) else false) [].

Theorem run_unpin_spec c e st h :
  match fst (run_unpin (unpin_ctx c e st h)) with
  | Done (Refuse cls) => exists er, err_of_class cls = Some er /\ unpin_op c e st h = (RErr er, st)
  | Done (Commit op) => op = "LogUnpin" /\ exists p st', aget h st = Some p /\ unpin_op c e st h = (ROk p, st')
  | _ => False end.
Proof.
  unfold run_unpin, model_Unpin, unpin_op, unpin_ctx. cbv zeta.
  rewrite run_steps_guard. cbn [eval_c]. xsimp.
  destruct (follower c). { cbn [fst]. exists EFollower. split; reflexivity. }
  rewrite run_steps_guard. cbn [eval_c String.eqb Ascii.eqb Bool.eqb]. xsimp.
  destruct (aget h st) as [p|] eqn:G; cbn [is_some negb].
  2:{ cbn [fst]. exists ENotFound. split; reflexivity. }
  cbn [run_steps eval_c who_pin String.eqb Ascii.eqb Bool.eqb]. xsimp.
  destruct (p_ty p); cbn [ptype_eqb orb negb andb fst].
  - exists EUnpinType. split; reflexivity.
  - split; [reflexivity|]. eexists _, _. split; reflexivity.
  - destruct (cids_from_meta e st h p) as [cs|]; cbn [is_some negb fst].
    + split; [reflexivity|]. eexists _, _. split; reflexivity.
    + exists EMeta. split; reflexivity.
  - exists EUnpinType. split; reflexivity.
  - exists EUnpinType. split; reflexivity.
Qed.

Definition update_ctx (c : cfg) (e : env) (st : list (N * pin)) (f : N) (o : opts) : gctx :=
  mk_gctx c (e_now e) dummy_pin (aget f st) [] [] o
    (fun g => if String.eqb g "PinGet" then negb (is_some (aget f st)) else false) [].

Theorem run_update_spec c e st f t o :
  match fst (run_update (update_ctx c e st f o)) with
  | Done (Refuse cls) => exists er, err_of_class cls = Some er /\ pin_update_op c e st f t o = (RErr er, st)
  | Done (Commit op) => op = "LogPin" /\ exists ex, aget f st = Some ex
        /\ pin_update_op c e st f t o = (ROk (updated_pin (e_now e) ex f t o), log_pin st (updated_pin (e_now e) ex f t o))
  | _ => False end.
Proof.
  unfold run_update, model_PinUpdate, pin_update_op, update_ctx, always.
  rewrite run_steps_guard. cbn [eval_c]. xsimp.
  destruct (follower c). { cbn [fst]. exists EFollower. split; reflexivity. }
  rewrite run_steps_guard. cbn [eval_c String.eqb Ascii.eqb Bool.eqb]. xsimp.
  destruct (aget f st) as [ex|] eqn:G; cbn [is_some negb].
  2:{ cbn [fst]. exists ENotFound. split; reflexivity. }
  rewrite run_steps_guard. cbn [eval_c who_pin]. xsimp.
  destruct (ptype_eqb (p_ty ex) DataT); cbn [negb].
  2:{ cbn [fst]. exists EUpdateType. split; reflexivity. }
  rewrite !run_steps_effect. rewrite run_steps_guard. cbn [eval_c fst]. split; [reflexivity|]. exists ex. split; reflexivity.
Qed.
