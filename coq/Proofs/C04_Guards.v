(* C04 — (1) the guard chains translated from the source are the model's (by computation on Gen/C04Guards.v);
   (2) interpreting the model's chains IS the decision of Model/C04_ClusterOps.v. *)
From V Require Import Base.Common Base.CommonLemmas Model.C03_Alloc Model.C04_ClusterOps Model.C04_Guards Gen.C04Guards.
From Coq Require Import String.
Open Scope string_scope.
Open Scope Z_scope.

Lemma c04_guards_source_is_model_l : gen_guard_table = model_guard_table.
Proof. reflexivity. Qed.
