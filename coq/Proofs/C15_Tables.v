(* C15 — obligations on the generated tables (Gen/ConfigSchemas.v), discharged by computation at every run. *)
From Coq Require Import String List ZArith Bool.
From V Require Import Model.C15_Config Model.C15_Valid Model.C15_Custom Gen.ConfigSchemas Gen.ConfigValidators Gen.ConfigCustoms Proofs.C15_Config Proofs.C15_Validators.
Import ListNotations.
Open Scope string_scope.

Definition section_names : list string :=
  ["cluster"; "raft"; "crdt"; "restapi"; "ipfsproxy"; "ipfshttp"; "stateless"; "pubsubmon"; "disk"; "numpin";
   "metrics"; "tracing"; "badger"; "leveldb"].

Lemma all_sections_present_l : map sname all_schemas = section_names.
Proof. vm_compute. reflexivity. Qed.

Lemma all_coherent_l : forallb schema_coherentb all_schemas = true.
Proof. vm_compute. reflexivity. Qed.

Lemma coherent_in S : In S all_schemas -> schema_coherentb S = true.
Proof. intros H. pose proof all_coherent_l as A. rewrite forallb_forall in A. auto. Qed.

(* ---- the translated Validate() of every section is the model's validator ---- *)
Definition sec_matches (s : string) : bool :=
  match assoc_get s gen_clause_table, assoc_get s model_clauses with
  | Some g, Some m => clauses_match (map snd g) m
  | _, _ => false end.

Lemma validators_match_l : forallb (fun S => sec_matches (sname S)) all_schemas = true.
Proof. vm_compute. reflexivity. Qed.

Definition gen_by (cl : list (string * vcond)) : validator := fun orc c => rejects_none orc c (map snd cl).

Lemma gen_validators_shape : gen_validators = map (fun p => (fst p, gen_by (snd p))) gen_clause_table.
Proof. reflexivity. Qed.

Lemma assoc_get_map {A B} (f : A -> B) s (l : list (string * A)) :
  assoc_get s (map (fun p => (fst p, f (snd p))) l) = option_map f (assoc_get s l).
Proof.
  induction l as [|[k v] r IH]; [reflexivity|]. cbn [map assoc_get fst snd].
  destruct (String.eqb s k); [reflexivity|exact IH].
Qed.

Lemma validators_source_is_model_l S : In S all_schemas ->
  exists G M, assoc_get (sname S) gen_validators = Some G /\ assoc_get (sname S) validators = Some M
              /\ forall orc c, G orc c = M orc c.
Proof.
  intros I. pose proof validators_match_l as A. rewrite forallb_forall in A. specialize (A S I). cbv beta in A.
  unfold sec_matches in A.
  destruct (assoc_get (sname S) gen_clause_table) as [g|] eqn:EG; [|discriminate A].
  destruct (assoc_get (sname S) model_clauses) as [m|] eqn:EM; [|discriminate A].
  exists (gen_by g), (valid_by m). split; [|split].
  - rewrite gen_validators_shape, assoc_get_map, EG. reflexivity.
  - unfold validators. rewrite assoc_get_map, EM. reflexivity.
  - intros orc c. unfold gen_by, valid_by. now apply clauses_match_sound.
Qed.

Definition gen_validator_of (s : string) : validator :=
  match assoc_get s gen_validators with Some v => v | None => reject_all end.

Lemma gen_validator_of_model S orc c : In S all_schemas -> gen_validator_of (sname S) orc c = validator_of (sname S) orc c.
Proof.
  intros I. destruct (validators_source_is_model_l S I) as [G [M [EG [EM E]]]].
  unfold gen_validator_of, validator_of. rewrite EG, EM. apply E.
Qed.

(* ---- custom rules: translated to the model's rule, or pinned by the hash of their source ---- *)
Definition custom_pin_ok (S : schema) : bool :=
  forallb (fun '(id, h) => custom_translated gen_custom_rules id
                           || match assoc_get id expected_custom_hash with Some e => String.eqb e h | None => false end) (scustom_hashes S).
Lemma customs_pinned_l : forallb custom_pin_ok all_schemas = true.
Proof. vm_compute. reflexivity. Qed.

Lemma star_load_save_scan acc l :
  option_map (star_save "*") (star_load_from "*" acc l)
  = option_map (fun q => if is_star_list q then ["*"] else (acc ++ q)%list) (star_scan l).
Proof.
  revert acc. induction l as [|[p|] r IH]; intros acc.
  - cbn. now rewrite app_nil_r.
  - cbn [star_load_from star_scan]. destruct (String.eqb p "*") eqn:E.
    + reflexivity.
    + rewrite IH. destruct (star_scan r) as [q|]; [|reflexivity]. cbn [option_map].
      destruct (is_star_list q) eqn:Q; cbn [option_map].
      * reflexivity.
      * assert (N : is_star_list (p :: q) = false).
        { destruct q as [|x q']; cbn [is_star_list]; [exact E|reflexivity]. }
        rewrite N. now rewrite <- app_assoc.
  - reflexivity.
Qed.

(* the model's pair of rules for crdt trusted_peers, executed on the two Config members, is `custom_load` *)
Lemma model_custom_sem_l : exists F, custom_sem model_custom_rules "crdt.trusted_peers" = Some F
  /\ forall k cur v, F v = custom_load "crdt.trusted_peers" k cur v.
Proof.
  eexists. split; [reflexivity|]. intros k cur v. unfold custom_load. cbn [String.eqb Ascii.eqb Bool.eqb].
  destruct (as_tl v) as [tl|]; [|reflexivity].
  unfold star_load.
  transitivity (option_map VL (option_map (star_save "*") (star_load_from "*" [] tl))).
  { destruct (star_load_from "*" [] tl); reflexivity. }
  rewrite star_load_save_scan. destruct (star_scan tl) as [q|] eqn:SS; [|reflexivity]. cbn [option_map app].
  destruct (is_star_list q) eqn:Q; [|reflexivity].
  destruct q as [|x [|y q']]; try discriminate Q. cbn [is_star_list] in Q. apply String.eqb_eq in Q. now subst.
Qed.

Lemma cr_get_eq a b id : cr_get id a = cr_get id b -> cr_get (String.append id "/save") a = cr_get (String.append id "/save") b ->
  custom_sem a id = custom_sem b id.
Proof. intros E1 E2. unfold custom_sem. now rewrite E1, E2. Qed.

Lemma crule_eqb_eq a b : crule_eqb a b = true -> a = b.
Proof.
  destruct a, b; cbn [crule_eqb]; intros H; try discriminate H;
    apply andb_true_iff in H; destruct H as [H H3]; apply andb_true_iff in H; destruct H as [H1 H2];
    apply String.eqb_eq in H1, H2, H3; now subst.
Qed.

Lemma custom_translated_get id : custom_translated gen_custom_rules id = true -> cr_get id gen_custom_rules = cr_get id model_custom_rules.
Proof.
  unfold custom_translated. destruct (cr_get id gen_custom_rules) as [r|]; [|discriminate].
  destruct (cr_get id model_custom_rules) as [r'|]; [|discriminate]. intros E. apply crule_eqb_eq in E. now subst.
Qed.

Lemma customs_source_is_model_gen id : custom_translated gen_custom_rules id = true ->
  custom_translated gen_custom_rules (String.append id "/save") = true ->
  custom_sem gen_custom_rules id = custom_sem model_custom_rules id.
Proof. intros T1 T2. apply cr_get_eq; now apply custom_translated_get. Qed.

(* on the current source the member IS translated (both sides) *)
Lemma trusted_peers_translated_l :
  custom_translated gen_custom_rules "crdt.trusted_peers" && custom_translated gen_custom_rules "crdt.trusted_peers/save" = true.
Proof. vm_compute. reflexivity. Qed.

(* the rules translated from the source for crdt trusted_peers (load and save side), executed on the two Config members,
   are the model's custom_load *)
Lemma customs_source_is_model_l : exists F, custom_sem gen_custom_rules "crdt.trusted_peers" = Some F
  /\ forall k cur v, F v = custom_load "crdt.trusted_peers" k cur v.
Proof.
  pose proof trusted_peers_translated_l as T. apply andb_true_iff in T. destruct T as [T1 T2].
  rewrite (customs_source_is_model_gen _ T1 T2). exact model_custom_sem_l.
Qed.

Definition default_ok (S : schema) (orc : string -> bool) : bool := validator_of (sname S) orc (cget S (defaults S)).
Lemma default_valid_l orc : forallb (fun S => default_ok S orc) all_schemas = true.
Proof. vm_compute. reflexivity. Qed.

Lemma default_valid_in S orc : In S all_schemas -> validator_of (sname S) orc (cget S (defaults S)) = true.
Proof. intros H. pose proof (default_valid_l orc) as A. rewrite forallb_forall in A. exact (A S H). Qed.

(* the generic theorems, instantiated on every section with its own validator *)
Lemma sections_roundtrip_l S orc j c : In S all_schemas ->
  load S (validator_of (sname S)) orc j = Some c ->
  validator_of (sname S) orc (cget S c) = true /\ load S (validator_of (sname S)) orc (save S c) = Some c.
Proof. intros H. apply load_save_load_l. now apply coherent_in. Qed.

Lemma sections_faithful_l S orc j c f : In S all_schemas ->
  load S (validator_of (sname S)) orc j = Some c -> wf_doc S j = true -> In f (sfields S) -> is_setting f j = true ->
  cget S c (fname f) = canon_in (jval (fname f) j).
Proof. intros H. apply load_faithful_l. now apply coherent_in. Qed.

Lemma sections_display_l S c n v : In S all_schemas -> In (n, v) (display S c) ->
  existsb (fun f => String.eqb (fname f) n && fhidden f) (sfields S) = true -> v = hidden_marker.
Proof. intros H. apply display_hides_l. now apply coherent_in. Qed.

(* every member that carries a secret is hidden-tagged at top level (part of schema_coherentb, restated) *)
Lemma secrets_tagged_l : forallb (fun S => forallb secret_tagged (sfields S)) all_schemas = true.
Proof. vm_compute. reflexivity. Qed.
