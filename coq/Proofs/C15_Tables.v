(* C15 — obligations on the generated tables (Gen/ConfigSchemas.v), discharged by computation at every run. *)
From Coq Require Import String List ZArith Bool.
From V Require Import Model.C15_Config Model.C15_Valid Gen.ConfigSchemas Proofs.C15_Config.
Import ListNotations.
Open Scope string_scope.

Definition section_names : list string :=
  ["cluster"; "raft"; "crdt"; "restapi"; "ipfsproxy"; "ipfshttp"; "stateless"; "pubsubmon"; "disk"; "numpin";
   "metrics"; "tracing"; "badger"; "leveldb"].

Lemma all_sections_present_l : map sname all_schemas = section_names.
Proof. vm_compute. reflexivity. Qed.

Lemma all_coherent_l : forallb schema_coherentb all_schemas = true.
Proof. vm_compute. reflexivity. Qed.

Lemma coherent_in S : In S all_schemas -> schema_coherentb S = true.
Proof. intros H. pose proof all_coherent_l as A. rewrite forallb_forall in A. auto. Qed.

Definition pin_ok (S : schema) : bool :=
  match assoc_get (sname S) expected_valid_hash with Some h => String.eqb h (svalid_hash S) | None => false end.
Lemma validators_pinned_l : forallb pin_ok all_schemas = true.
Proof. vm_compute. reflexivity. Qed.

Definition custom_pin_ok (S : schema) : bool :=
  forallb (fun '(id, h) => match assoc_get id expected_custom_hash with Some e => String.eqb e h | None => false end) (scustom_hashes S).
Lemma customs_pinned_l : forallb custom_pin_ok all_schemas = true.
Proof. vm_compute. reflexivity. Qed.

Definition default_ok (S : schema) (orc : string -> bool) : bool := validator_of (sname S) orc (cget S (defaults S)).
Lemma default_valid_l orc : forallb (fun S => default_ok S orc) all_schemas = true.
Proof. vm_compute. reflexivity. Qed.

Lemma default_valid_in S orc : In S all_schemas -> validator_of (sname S) orc (cget S (defaults S)) = true.
Proof. intros H. pose proof (default_valid_l orc) as A. rewrite forallb_forall in A. exact (A S H). Qed.

(* the generic theorems, instantiated on every section with its own validator *)
Lemma sections_roundtrip_l S orc j c : In S all_schemas ->
  load S (validator_of (sname S)) orc j = Some c ->
  validator_of (sname S) orc (cget S c) = true /\ load S (validator_of (sname S)) orc (save S c) = Some c.
Proof. intros H. apply load_save_load_l. now apply coherent_in. Qed.

Lemma sections_faithful_l S orc j c f : In S all_schemas ->
  load S (validator_of (sname S)) orc j = Some c -> wf_doc S j = true -> In f (sfields S) -> is_setting f j = true ->
  cget S c (fname f) = canon_in (jval (fname f) j).
Proof. intros H. apply load_faithful_l. now apply coherent_in. Qed.

Lemma sections_display_l S c n v : In S all_schemas -> In (n, v) (display S c) ->
  existsb (fun f => String.eqb (fname f) n && fhidden f) (sfields S) = true -> v = hidden_marker.
Proof. intros H. apply display_hides_l. now apply coherent_in. Qed.

(* every member that carries a secret is hidden-tagged at top level (part of schema_coherentb, restated) *)
Lemma secrets_tagged_l : forallb (fun S => forallb secret_tagged (sfields S)) all_schemas = true.
Proof. vm_compute. reflexivity. Qed.
