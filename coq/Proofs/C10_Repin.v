(* C10 — lemmas about alertsHandler / vacatePeer / repinFromPeer / isClosest / StateSync (Model/C10_Repin.v). *)
From V Require Import Base.Common Base.CommonLemmas Model.C03_Alloc Proofs.C03_Alloc Model.C04_ClusterOps Proofs.C04_ClusterOps Model.C10_Repin.
From Coq Require Import Permutation.
Open Scope Z_scope.

(* ================= exactly one closest peer ================= *)
Section Closest.
Variables hp hc : N -> N.

Lemma lxor_cancel_r a b c : N.lxor a c = N.lxor b c -> a = b.
Proof. intro H. assert (H0 : N.lxor (N.lxor a c) c = N.lxor (N.lxor b c) c) by (now rewrite H).
  now rewrite !N.lxor_assoc, N.lxor_nilpotent, !N.lxor_0_r in H0. Qed.

Lemma is_closest_spec self others c :
  is_closest hp hc self others c = true <-> forall p, In p others -> (dist hp hc self c <= dist hp hc p c)%N.
Proof. unfold is_closest. rewrite forallb_forall. split; intros H p Hp; [apply N.leb_le|apply N.leb_le]; auto. Qed.

Lemma min_exists (g : N -> N) (l : list N) : l <> [] -> exists m, In m l /\ forall x, In x l -> (g m <= g x)%N.
Proof. induction l as [|a l IH]; [congruence|]. intros _. destruct l as [|b l'].
  - exists a. split; [now left|]. intros x [->|[]]. lia.
  - destruct IH as [m [Hm Hmin]]; [congruence|]. destruct (N.le_gt_cases (g a) (g m)).
    + exists a. split; [now left|]. intros x [->|Hx]; [lia|]. specialize (Hmin x Hx). lia.
    + exists m. split; [now right|]. intros x [->|Hx]; [lia|]. auto. Qed.

(* candidates S; each looks at all the others *)
Lemma one_closest_among (S : list N) (c : N) :
  S <> [] -> (forall a b, In a S -> In b S -> hp a = hp b -> a = b) ->
  exists s, In s S /\ (forall p, In p S -> (dist hp hc s c <= dist hp hc p c)%N) /\
            forall s', In s' S -> (forall p, In p S -> p <> s' -> (dist hp hc s' c <= dist hp hc p c)%N) -> s' = s.
Proof. intros Hne Hinj. destruct (min_exists (fun p => dist hp hc p c) S Hne) as [m [Hm Hmin]].
  exists m. split; [exact Hm|]. split; [exact Hmin|].
  intros s' Hs' Hc. destruct (N.eq_dec s' m) as [|Hneq]; [assumption|exfalso].
  assert (H1 : (dist hp hc s' c <= dist hp hc m c)%N) by (apply Hc; auto).
  assert (H2 : (dist hp hc m c <= dist hp hc s' c)%N) by (apply Hmin; auto).
  assert (E : dist hp hc s' c = dist hp hc m c) by lia. unfold dist in E. apply lxor_cancel_r in E. apply Hneq. now apply Hinj. Qed.
End Closest.

Lemma trusted_others_in self members excl trusted p :
  In p (trusted_others self members excl trusted) <->
  In p members /\ p <> self /\ (match excl with Some x => p <> x | None => True end) /\ trusted p = true.
Proof. unfold trusted_others. rewrite filter_In, !andb_true_iff, !negb_true_iff, N.eqb_neq.
  destruct excl as [x|]; [rewrite N.eqb_neq|]; intuition congruence. Qed.

Definition survivors (members : list N) (excl : option N) : list N :=
  filter (fun p => negb (match excl with Some x => (p =? x)%N | None => false end)) members.

Lemma survivors_in members excl p : In p (survivors members excl) <-> In p members /\ match excl with Some x => p <> x | None => True end.
Proof. unfold survivors. rewrite filter_In, negb_true_iff. destruct excl as [x|]; [rewrite N.eqb_neq|]; intuition congruence. Qed.

Theorem exactly_one_closest_l hp hc members excl trusted c :
  (forall p, In p members -> trusted p = true) ->
  survivors members excl <> [] ->
  (forall a b, In a (survivors members excl) -> In b (survivors members excl) -> hp a = hp b -> a = b) ->
  exists s, In s (survivors members excl) /\
            is_closest hp hc s (trusted_others s members excl trusted) c = true /\
            forall s', In s' (survivors members excl) ->
                       is_closest hp hc s' (trusted_others s' members excl trusted) c = true -> s' = s.
Proof. intros Ht Hne Hinj. destruct (one_closest_among hp hc _ c Hne Hinj) as [s [Hs [Hmin Huniq]]].
  exists s. split; auto. split.
  - apply is_closest_spec. intros p Hp. apply trusted_others_in in Hp. apply Hmin. apply survivors_in. tauto.
  - intros s' Hs' Hc. apply Huniq; auto. intros p Hp Hn. rewrite is_closest_spec in Hc. apply Hc.
    apply trusted_others_in. apply survivors_in in Hp. destruct Hp as [Hp1 Hp2]. repeat split; auto. Qed.

(* ================= what one re-pin does ================= *)
(* pin() past the guards as a function of the existing entry only *)
Definition pin_res (c : cfg) (e : env) (ord : list N -> list N) (existing : option pin) (p : pin) (bl : list N) : result :=
  let p1 := setup_rf c p in
  if negb (factors_valid (o_rmin (p_opts p1)) (o_rmax (p_opts p1))) then RErr EBadFactors
  else if expire_past (e_now e) (o_expire (p_opts p1)) then RErr EExpired
  else match setup_existing p1 existing with
  | Some er => RErr er
  | None =>
      if ptype_eqb (p_ty p1) MetaT then ROk p1
      else
        let p2 := match existing with
                  | Some ex => if opts_equal (p_opts p1) (p_opts ex) && (match bl with [] => true | _ => false end) then ex else p1
                  | None => p1 end in
        match p_allocs p2 with
        | _ :: _ => ROk p2
        | [] => match allocate (e_now e) (alloc_input c e p2 existing bl) ord with
                | Ok l => ROk (set_allocs l p2)
                | _ => RErr EAlloc end
        end
  end.

Definition apply_res (st : list (N * pin)) (r : result) : list (N * pin) := match r with ROk q => log_pin st q | RErr _ => st end.

Lemma pin_main_res c e ord st p bl :
  pin_main c e ord st p bl = (pin_res c e ord (aget (p_cid p) st) p bl, apply_res st (pin_res c e ord (aget (p_cid p) st) p bl)).
Proof. unfold pin_main, pin_res.
  destruct (negb (factors_valid _ _)); [reflexivity|]. destruct (expire_past _ _); [reflexivity|].
  destruct (setup_existing _ _); [reflexivity|]. destruct (ptype_eqb _ MetaT); [reflexivity|].
  match goal with |- context [p_allocs ?z] => destruct (p_allocs z) end; [|reflexivity].
  destruct (allocate _ _ _); reflexivity. Qed.

(* any pin() call writes at most the entry of its own CID *)
Lemma pin_core_frame c e ord st p bl h : bl <> [] -> h <> p_cid p -> aget h (snd (pin_core c e ord st p bl)) = aget h st.
Proof. intros Hbl Hh. unfold pin_core. destruct (follower c); [reflexivity|].
  assert (M : aget h (snd (pin_main c e ord st p bl)) = aget h st).
  { destruct (pin_main c e ord st p bl) as [[q|x] st'] eqn:H; simpl.
    - apply pin_main_ok in H. cbv zeta in H. destruct H as [-> [_ [_ [_ D]]]]. apply log_pin_other.
      assert (p_cid q = p_cid p); [|congruence].
      destruct D as [[_ ->]|[_ [p2 [Hc A]]]]; [apply setup_rf_cid|].
      assert (p_cid q = p_cid p2) by (destruct A as [[_ ->]|[_ [l [_ ->]]]]; auto).
      destruct Hc as [->|[ex [_ [_ [B _]]]]]; [rewrite H; apply setup_rf_cid|congruence].
    - apply pin_main_err in H. now subst. }
  assert (U : forall u, aget h (snd (pin_update_op c e st u (p_cid p) (p_opts p))) = aget h st).
  { intros u. destruct (pin_update_op c e st u (p_cid p) (p_opts p)) as [[q|x] st'] eqn:H; simpl.
    - apply pin_update_ok in H. destruct H as [_ [ex [_ [_ [-> ->]]]]]. apply log_pin_other. simpl. auto.
    - apply pin_update_err in H. now subst. }
  destruct (o_update (p_opts p)) as [u|]; [destruct (negb (u =? p_cid p)%N)|]; auto. Qed.

Lemma pin_core_shape c e ord st p bl :
  snd (pin_core c e ord st p bl) = st \/ exists q, snd (pin_core c e ord st p bl) = log_pin st q.
Proof. destruct (pin_core c e ord st p bl) as [[q|x] st'] eqn:H; simpl.
  - right. unfold pin_core in H. destruct (follower c); [discriminate|].
    destruct (o_update (p_opts p)) as [u|]; [destruct (negb (u =? p_cid p)%N)|].
    + apply pin_update_ok in H. destruct H as [_ [ex [_ [_ [_ ->]]]]]. eauto.
    + apply pin_main_ok in H. cbv zeta in H. destruct H as [-> _]. eauto.
    + apply pin_main_ok in H. cbv zeta in H. destruct H as [-> _]. eauto.
  - left. now apply pin_core_err in H. Qed.

Lemma log_pin_keeps st q h : aget h st <> None -> aget h (log_pin st q) <> None.
Proof. intros Hs. destruct (N.eq_dec h (p_cid q)) as [->|E]; [rewrite log_pin_same; discriminate|]. now rewrite log_pin_other. Qed.

Lemma pin_core_keeps c e ord st p bl h : aget h st <> None -> aget h (snd (pin_core c e ord st p bl)) <> None.
Proof. intros Hs. destruct (pin_core_shape c e ord st p bl) as [->|[q ->]]; auto using log_pin_keeps. Qed.

(* ================= the re-pin loop ================= *)
Definition body (c : cfg) (e : env) (ord : N -> list N -> list N) (f : N) (sel : pin -> bool) :=
  fun (acc : list (N * pin) * list N) (x : pin) =>
    if memN f (p_allocs x) && sel x then
      match repin_from_peer c e (ord (p_cid x)) (fst acc) f x with
      | (ROk _, s') => (s', snd acc ++ [p_cid x])
      | (RErr _, s') => (s', snd acc) end
    else acc.

Lemma repin_loop_fold c e ord f sel snap st : repin_loop c e ord f sel snap st = fold_left (body c e ord f sel) snap (st, []).
Proof. reflexivity. Qed.

Definition cnt (h : N) (l : list N) : nat := length (filter (N.eqb h) l).
Lemma cnt_app h a b : cnt h (a ++ b) = (cnt h a + cnt h b)%nat.
Proof. unfold cnt. now rewrite filter_app, app_length. Qed.
Lemma cnt_single_other h c : h <> c -> cnt h [c] = 0%nat.
Proof. intros H. unfold cnt. simpl. apply N.eqb_neq in H. now rewrite H. Qed.
Lemma cnt_single_same h : cnt h [h] = 1%nat.
Proof. unfold cnt. simpl. now rewrite N.eqb_refl. Qed.

Lemma body_state c e ord f sel acc x :
  fst (body c e ord f sel acc x) = (if memN f (p_allocs x) && sel x then snd (pin_core c e (ord (p_cid x)) (fst acc) (set_allocs [] x) [f]) else fst acc).
Proof. unfold body, repin_from_peer. destruct (memN f (p_allocs x) && sel x); auto.
  destruct (pin_core _ _ _ _ _ _) as [[q|er] s']; reflexivity. Qed.

Lemma body_frame c e ord f sel acc x h : h <> p_cid x ->
  aget h (fst (body c e ord f sel acc x)) = aget h (fst acc) /\ cnt h (snd (body c e ord f sel acc x)) = cnt h (snd acc).
Proof. intros Hh. split.
  - rewrite body_state. destruct (memN f (p_allocs x) && sel x); auto. apply pin_core_frame; [discriminate|exact Hh].
  - unfold body. destruct (memN f (p_allocs x) && sel x); auto.
    destruct (repin_from_peer _ _ _ _ _ _) as [[q|er] s']; simpl; auto. rewrite cnt_app, cnt_single_other by assumption. lia. Qed.

Lemma body_skip c e ord f sel acc x : memN f (p_allocs x) && sel x = false -> body c e ord f sel acc x = acc.
Proof. intros H. unfold body. now rewrite H. Qed.

Lemma loop_frame c e ord f sel h snap : forall acc,
  (forall y, In y snap -> p_cid y <> h \/ memN f (p_allocs y) && sel y = false) ->
  aget h (fst (fold_left (body c e ord f sel) snap acc)) = aget h (fst acc) /\
  cnt h (snd (fold_left (body c e ord f sel) snap acc)) = cnt h (snd acc).
Proof. induction snap as [|y l IH]; simpl; intros acc H; auto.
  destruct (IH (body c e ord f sel acc y)) as [A B]; [intros z Hz; apply H; now right|]. rewrite A, B.
  destruct (H y (or_introl eq_refl)) as [Hn|Hs].
  - apply body_frame. congruence.
  - rewrite body_skip; auto. Qed.

Lemma loop_keeps c e ord f sel h snap : forall acc, aget h (fst acc) <> None -> aget h (fst (fold_left (body c e ord f sel) snap acc)) <> None.
Proof. induction snap as [|y l IH]; simpl; intros acc H; auto. apply IH. rewrite body_state.
  destruct (memN f (p_allocs y) && sel y); auto. now apply pin_core_keeps. Qed.

Lemma loop_inv c e ord f sel snap : forall acc, inv (fst acc) -> inv (fst (fold_left (body c e ord f sel) snap acc)).
Proof. induction snap as [|y l IH]; simpl; intros acc H; auto. apply IH. rewrite body_state.
  destruct (memN f (p_allocs y) && sel y); auto. now apply inv_pin_core. Qed.

(* no new keys: a re-pin writes the CID of a listed pin *)
Lemma loop_no_new c e ord f sel h snap : forall acc,
  (forall y, In y snap -> aget (p_cid y) (fst acc) <> None) -> aget h (fst acc) = None ->
  aget h (fst (fold_left (body c e ord f sel) snap acc)) = None.
Proof. induction snap as [|y l IH]; simpl; intros acc Hs H; auto. apply IH.
  - intros z Hz. rewrite body_state. destruct (memN f (p_allocs y) && sel y); [apply pin_core_keeps|]; apply Hs; now right.
  - rewrite body_state. destruct (memN f (p_allocs y) && sel y); auto. rewrite pin_core_frame; auto; [discriminate|].
    simpl. intros ->. apply (Hs y); auto. Qed.

Definition is_update (x : pin) : Prop := exists u, o_update (p_opts x) = Some u /\ u <> p_cid x.

Lemma not_update_no_redirect x l : ~ is_update x -> no_redirect (set_allocs l x).
Proof. intros H. unfold no_redirect. simpl. destruct (o_update (p_opts x)) as [u|] eqn:U; auto.
  right. f_equal. destruct (N.eq_dec u (p_cid x)); auto. exfalso. apply H. exists u. auto. Qed.

(* the entry written for a listed pin that is not an update pin depends only on that entry *)
Definition repin_res (c : cfg) (e : env) (ord : N -> list N -> list N) (f : N) (x : pin) : result :=
  pin_res c e (ord (p_cid x)) (Some x) (set_allocs [] x) [f].

Lemma body_act c e ord f sel acc x :
  follower c = false -> ~ is_update x -> aget (p_cid x) (fst acc) = Some x -> memN f (p_allocs x) && sel x = true ->
  fst (body c e ord f sel acc x) = apply_res (fst acc) (repin_res c e ord f x) /\
  snd (body c e ord f sel acc x) = snd acc ++ (match repin_res c e ord f x with ROk _ => [p_cid x] | RErr _ => [] end).
Proof. intros F NU G S. unfold body, repin_from_peer. rewrite S.
  rewrite pin_core_no_redirect by (auto using not_update_no_redirect). rewrite pin_main_res. change (p_cid (set_allocs [] x)) with (p_cid x). rewrite G.
  fold (repin_res c e ord f x). destruct (repin_res c e ord f x); simpl; auto. now rewrite app_nil_r. Qed.

Lemma apply_res_same st r x : aget (p_cid x) st = Some x ->
  (forall q, r = ROk q -> p_cid q = p_cid x) ->
  aget (p_cid x) (apply_res st r) = match r with ROk q => Some (pb_norm q) | RErr _ => Some x end.
Proof. intros G H. destruct r as [q|er]; simpl; auto. rewrite <- (H q eq_refl). apply log_pin_same. Qed.

Lemma repin_res_cid c e ord f x q : repin_res c e ord f x = ROk q -> p_cid q = p_cid x.
Proof. unfold repin_res, pin_res. intros H.
  destruct (negb (factors_valid _ _)); [discriminate|]. destruct (expire_past _ _); [discriminate|].
  destruct (setup_existing _ _); [discriminate|]. rewrite andb_false_r in H.
  destruct (ptype_eqb _ MetaT).
  - inversion H. now rewrite setup_rf_cid.
  - destruct (p_allocs (setup_rf c (set_allocs [] x))).
    + destruct (allocate _ _ _); inversion H. simpl. now rewrite setup_rf_cid.
    + inversion H. now rewrite setup_rf_cid. Qed.

Lemma loop_entry c e ord f sel snap x : forall acc,
  follower c = false -> ~ is_update x -> NoDup (map p_cid snap) -> In x snap ->
  aget (p_cid x) (fst acc) = Some x ->
  let r := repin_res c e ord f x in
  let act := memN f (p_allocs x) && sel x in
  aget (p_cid x) (fst (fold_left (body c e ord f sel) snap acc)) =
    (if act then match r with ROk q => Some (pb_norm q) | RErr _ => Some x end else Some x) /\
  cnt (p_cid x) (snd (fold_left (body c e ord f sel) snap acc)) =
    (cnt (p_cid x) (snd acc) + (if act then match r with ROk _ => 1 | RErr _ => 0 end else 0))%nat.
Proof. intros acc F NU ND Hin G. cbv zeta.
  apply in_split in Hin. destruct Hin as [l1 [l2 ->]]. rewrite fold_left_app. simpl.
  rewrite map_app in ND. simpl in ND. apply NoDup_remove in ND. destruct ND as [_ ND].
  assert (H1 : forall y, In y l1 -> p_cid y <> p_cid x).
  { intros y Hy E. apply ND. apply in_or_app. left. rewrite <- E. now apply in_map. }
  assert (H2 : forall y, In y l2 -> p_cid y <> p_cid x).
  { intros y Hy E. apply ND. apply in_or_app. right. rewrite <- E. now apply in_map. }
  set (a1 := fold_left (body c e ord f sel) l1 acc).
  destruct (loop_frame c e ord f sel (p_cid x) l1 acc) as [A1 B1]; [intros y Hy; left; auto|]. fold a1 in A1, B1.
  destruct (loop_frame c e ord f sel (p_cid x) l2 (body c e ord f sel a1 x)) as [A2 B2]; [intros y Hy; left; auto|].
  rewrite A2, B2. destruct (memN f (p_allocs x) && sel x) eqn:S.
  - assert (G1 : aget (p_cid x) (fst a1) = Some x) by (rewrite A1; exact G).
    destruct (body_act c e ord f sel a1 x F NU G1 S) as [E1 E2]. rewrite E1, E2.
    rewrite apply_res_same; [|exact G1|apply repin_res_cid]. rewrite cnt_app, B1. split; auto.
    destruct (repin_res c e ord f x); simpl; [rewrite cnt_single_same|]; reflexivity.
  - rewrite body_skip by assumption. rewrite A1, B1, G. split; auto. Qed.

(* ================= one peer handling one alert ================= *)
Definition list_oracle (lord : list pin -> list pin) : Prop := forall l, Permutation (lord l) l.

Lemma in_aget {V} k (v : V) m : NoDup (akeys m) -> In (k, v) m -> aget k m = Some v.
Proof. induction m as [|[k' v'] r IH]; simpl; [tauto|]. intros ND [E|Hin].
  - inversion E; subst. now rewrite N.eqb_refl.
  - inversion ND; subst. destruct (N.eqb_spec k k') as [->|Hn]; [|auto].
    exfalso. apply H1. apply (in_map fst) in Hin. exact Hin. Qed.

Lemma listed_in lord st y : list_oracle lord -> inv st -> In y (listed lord st) -> aget (p_cid y) st = Some y.
Proof. intros L [ND K] Hin. unfold listed in Hin. apply (Permutation_in _ (L _)) in Hin.
  apply in_map_iff in Hin. destruct Hin as [[k v] [E Hin]]. simpl in E. subst v.
  pose proof (in_aget _ _ _ ND Hin) as G. destruct (K _ _ G) as [C _]. now rewrite C. Qed.

Lemma listed_has lord st c x : list_oracle lord -> aget c st = Some x -> In x (listed lord st).
Proof. intros L G. unfold listed. apply (Permutation_in _ (Permutation_sym (L _))).
  apply aget_in in G. apply (in_map snd) in G. exact G. Qed.

Lemma listed_nodup lord st : list_oracle lord -> inv st -> NoDup (map p_cid (listed lord st)).
Proof. intros L [ND K]. unfold listed. apply (Permutation_NoDup (Permutation_map p_cid (Permutation_sym (L _)))).
  assert (E : map p_cid (map snd st) = akeys st).
  { unfold akeys. rewrite map_map. apply map_ext_in. intros [k v] Hin. simpl.
    pose proof (in_aget _ _ _ ND Hin) as G. now destruct (K _ _ G). }
  now rewrite E. Qed.

Section OnePeer.
Variables (pc : pcfg) (e : env) (ord : N -> list N -> list N) (lord : list pin -> list pin) (hp hc : N -> N)
          (self : N) (members : list N) (trusted : N -> bool) (st : pinset) (f : N).
Let others := trusted_others self members (Some f) trusted.
Let sel := fun x : pin => is_closest hp hc self others (p_cid x).

Lemma on_alert_idle is_ping :
  follower (pc_cfg pc) = true \/ is_ping = false \/ pc_norepin pc = true ->
  snd (fst (on_alert pc e ord lord hp hc self members trusted st is_ping f)) = st /\
  snd (on_alert pc e ord lord hp hc self members trusted st is_ping f) = [].
Proof. unfold on_alert. destruct (follower (pc_cfg pc)); [auto|]. destruct is_ping; simpl; [|auto].
  destruct (pc_norepin pc); simpl; auto. intros [H|[H|H]]; discriminate. Qed.

Lemma on_alert_active :
  follower (pc_cfg pc) = false -> pc_norepin pc = false ->
  on_alert pc e ord lord hp hc self members trusted st true f =
  (true, fst (fold_left (body (pc_cfg pc) e ord f sel) (listed lord st) (st, [])),
         snd (fold_left (body (pc_cfg pc) e ord f sel) (listed lord st) (st, []))).
Proof. intros F R. unfold on_alert. rewrite F, R. reflexivity. Qed.

(* a peer that is not the closest one for c leaves entry c alone and does not log it: any pinset, any pin *)
Lemma on_alert_not_closest is_ping c :
  is_closest hp hc self others c = false ->
  aget c (snd (fst (on_alert pc e ord lord hp hc self members trusted st is_ping f))) = aget c st /\
  cnt c (snd (on_alert pc e ord lord hp hc self members trusted st is_ping f)) = 0%nat.
Proof. intros NC.
  destruct (follower (pc_cfg pc)) eqn:F; [destruct (on_alert_idle is_ping) as [-> ->]; auto|].
  destruct is_ping; [|destruct (on_alert_idle false) as [-> ->]; auto].
  destruct (pc_norepin pc) eqn:R; [destruct (on_alert_idle true) as [-> ->]; auto|].
  rewrite on_alert_active by assumption. simpl.
  apply (loop_frame (pc_cfg pc) e ord f sel c (listed lord st) (st, [])).
  intros y _. destruct (N.eq_dec (p_cid y) c) as [E|E]; [right|now left].
  unfold sel. rewrite E, NC. apply andb_false_r. Qed.

Lemma on_alert_keeps is_ping h : aget h st <> None -> aget h (snd (fst (on_alert pc e ord lord hp hc self members trusted st is_ping f))) <> None.
Proof. intros H. unfold on_alert. destruct (follower (pc_cfg pc)); auto. destruct is_ping; simpl; auto.
  destruct (pc_norepin pc); simpl; auto. rewrite repin_loop_fold. now apply loop_keeps. Qed.

Lemma on_alert_inv is_ping : inv st -> inv (snd (fst (on_alert pc e ord lord hp hc self members trusted st is_ping f))).
Proof. intros H. unfold on_alert. destruct (follower (pc_cfg pc)); auto. destruct is_ping; simpl; auto.
  destruct (pc_norepin pc); simpl; auto. rewrite repin_loop_fold. now apply loop_inv. Qed.

Lemma on_alert_no_new is_ping h : list_oracle lord -> inv st -> aget h st = None ->
  aget h (snd (fst (on_alert pc e ord lord hp hc self members trusted st is_ping f))) = None.
Proof. intros L I H. unfold on_alert. destruct (follower (pc_cfg pc)); auto. destruct is_ping; simpl; auto.
  destruct (pc_norepin pc); simpl; auto. rewrite repin_loop_fold. apply loop_no_new; auto.
  intros y Hy. simpl. rewrite (listed_in lord st y L I Hy). discriminate. Qed.

(* the pin is not held by the failed peer: untouched, not logged *)
Lemma on_alert_not_holder is_ping c x : list_oracle lord -> inv st -> aget c st = Some x -> memN f (p_allocs x) = false ->
  aget c (snd (fst (on_alert pc e ord lord hp hc self members trusted st is_ping f))) = Some x /\
  cnt c (snd (on_alert pc e ord lord hp hc self members trusted st is_ping f)) = 0%nat.
Proof. intros L I G NH.
  destruct (follower (pc_cfg pc)) eqn:F; [destruct (on_alert_idle is_ping) as [-> ->]; auto|].
  destruct is_ping; [|destruct (on_alert_idle false) as [-> ->]; auto].
  destruct (pc_norepin pc) eqn:R; [destruct (on_alert_idle true) as [-> ->]; auto|].
  rewrite on_alert_active by assumption. simpl. rewrite <- G.
  apply (loop_frame (pc_cfg pc) e ord f sel c (listed lord st) (st, [])).
  intros y Hy. destruct (N.eq_dec (p_cid y) c) as [E|E]; [right|now left].
  pose proof (listed_in lord st y L I Hy) as Gy. rewrite E, G in Gy. inversion Gy; subst. now rewrite NH. Qed.

(* the closest active peer: entry c becomes what the re-pin of x yields (x not an update pin) *)
Lemma on_alert_closest c x : list_oracle lord -> inv st ->
  follower (pc_cfg pc) = false -> pc_norepin pc = false ->
  aget c st = Some x -> ~ is_update x -> memN f (p_allocs x) = true -> is_closest hp hc self others c = true ->
  let r := repin_res (pc_cfg pc) e ord f x in
  aget c (snd (fst (on_alert pc e ord lord hp hc self members trusted st true f))) =
    match r with ROk q => Some (pb_norm q) | RErr _ => Some x end /\
  cnt c (snd (on_alert pc e ord lord hp hc self members trusted st true f)) = match r with ROk _ => 1%nat | RErr _ => 0%nat end.
Proof. intros L I F R G NU H C. cbv zeta. rewrite on_alert_active by assumption. simpl.
  assert (Cx : p_cid x = c) by (destruct I as [_ K]; now destruct (K _ _ G)). subst c.
  destruct (loop_entry (pc_cfg pc) e ord f sel (listed lord st) x (st, []) F NU) as [A B]; auto.
  - now apply listed_nodup.
  - eapply listed_has; eauto.
  - cbv zeta in A, B. unfold sel in A, B. rewrite H, C in A, B. simpl in A, B. auto. Qed.
End OnePeer.

(* ================= vacate (PeerRemove) ================= *)
Lemma vacate_fold pc e ord lord st f : pc_norepin pc = false ->
  vacate pc e ord lord st f = fold_left (body (pc_cfg pc) e ord f (fun _ => true)) (listed lord st) (st, []).
Proof. intros R. unfold vacate. now rewrite R. Qed.

Lemma body_follower c e ord f sel acc x : follower c = true ->
  fst (body c e ord f sel acc x) = fst acc /\ snd (body c e ord f sel acc x) = snd acc.
Proof. intros F. unfold body, repin_from_peer, pin_core. rewrite F. destruct (memN f (p_allocs x) && sel x); auto. Qed.

Lemma loop_follower c e ord f sel snap : forall acc, follower c = true ->
  fst (fold_left (body c e ord f sel) snap acc) = fst acc /\ snd (fold_left (body c e ord f sel) snap acc) = snd acc.
Proof. induction snap as [|y l IH]; simpl; intros acc F; auto. destruct (IH (body c e ord f sel acc y) F) as [A B].
  destruct (body_follower c e ord f sel acc y F) as [A' B']. split; congruence. Qed.

Theorem vacate_idle_l pc e ord lord st f : pc_norepin pc = true \/ follower (pc_cfg pc) = true -> vacate pc e ord lord st f = (st, []).
Proof. intros H. unfold vacate. destruct (pc_norepin pc) eqn:R; auto. destruct H as [H|H]; [discriminate|].
  rewrite repin_loop_fold. destruct (loop_follower (pc_cfg pc) e ord f (fun _ => true) (listed lord st) (st, []) H) as [A B].
  simpl in A, B. destruct (fold_left _ _ _); simpl in *; congruence. Qed.

Theorem vacate_entry_l pc e ord lord st f c x : list_oracle lord -> inv st ->
  follower (pc_cfg pc) = false -> pc_norepin pc = false -> aget c st = Some x -> ~ is_update x ->
  let r := repin_res (pc_cfg pc) e ord f x in
  aget c (fst (vacate pc e ord lord st f)) =
    (if memN f (p_allocs x) then match r with ROk q => Some (pb_norm q) | RErr _ => Some x end else Some x) /\
  cnt c (snd (vacate pc e ord lord st f)) = (if memN f (p_allocs x) then match r with ROk _ => 1%nat | RErr _ => 0%nat end else 0%nat).
Proof. intros L I F R G NU. cbv zeta. rewrite vacate_fold by assumption.
  assert (Cx : p_cid x = c) by (destruct I as [_ K]; now destruct (K _ _ G)). subst c.
  destruct (loop_entry (pc_cfg pc) e ord f (fun _ => true) (listed lord st) x (st, []) F NU) as [A B]; auto.
  - now apply listed_nodup.
  - eapply listed_has; eauto.
  - cbv zeta in A, B. rewrite andb_true_r in A, B. simpl in B. auto. Qed.

Theorem vacate_keeps_l pc e ord lord st f h : aget h st <> None -> aget h (fst (vacate pc e ord lord st f)) <> None.
Proof. intros H. unfold vacate. destruct (pc_norepin pc); auto. rewrite repin_loop_fold. now apply loop_keeps. Qed.

Theorem vacate_no_new_l pc e ord lord st f h : list_oracle lord -> inv st -> aget h st = None -> aget h (fst (vacate pc e ord lord st f)) = None.
Proof. intros L I H. unfold vacate. destruct (pc_norepin pc); auto. rewrite repin_loop_fold. apply loop_no_new; auto.
  intros y Hy. simpl. rewrite (listed_in lord st y L I Hy). discriminate. Qed.

(* ================= what the re-pin of a well-formed stored pin is: C03's allocate ================= *)
Definition repin_input (c : cfg) (e : env) (f : N) (x : pin) : input :=
  mk_input (o_rmin (p_opts x)) (o_rmax (p_opts x)) (p_allocs x) (e_metrics e) [f] (o_ualloc (p_opts x)) (alloc_rev c).

Record wf_repin (e : env) (x : pin) : Prop := {
  wf_factors : 0 < o_rmin (p_opts x) <= o_rmax (p_opts x);
  wf_unexpired : expire_past (e_now e) (o_expire (p_opts x)) = false;
  wf_not_meta : p_ty x <> MetaT;
  wf_type : check_pin_type (set_allocs [] x) = true }.

Lemma with_defaults_id c o : o_rmin o <> 0 -> o_rmax o <> 0 -> with_defaults c o = o.
Proof. intros A B. unfold with_defaults. apply Z.eqb_neq in A. apply Z.eqb_neq in B. rewrite A, B. destruct o; reflexivity. Qed.

Lemma factors_valid_pos a b : 0 < a <= b -> factors_valid a b = true.
Proof. intros H. unfold factors_valid.
  destruct (Z.eqb_spec a 0); [lia|]. destruct (Z.eqb_spec b 0); [lia|]. destruct (Z.ltb_spec b a); [lia|].
  destruct (Z.ltb_spec a (-1)); [lia|]. destruct (Z.ltb_spec b (-1)); [lia|].
  destruct (Z.eqb_spec a (-1)); [lia|]. destruct (Z.eqb_spec b (-1)); [lia|]. reflexivity. Qed.

Lemma repin_res_wf c e ord f x : wf_repin e x ->
  repin_res c e ord f x =
  match allocate (e_now e) (repin_input c e f x) (ord (p_cid x)) with Ok l => ROk (set_allocs l x) | _ => RErr EAlloc end.
Proof. intros [WF WE WM WT]. unfold repin_res, pin_res.
  assert (D : with_defaults c (p_opts x) = p_opts x) by (apply with_defaults_id; lia).
  assert (P1 : setup_rf c (set_allocs [] x) = set_allocs [] x).
  { unfold setup_rf. simpl p_opts. rewrite D. unfold everywhere.
    destruct (Z.eqb_spec (o_rmin (p_opts x)) (-1)); [lia|]. simpl. destruct x; reflexivity. }
  rewrite P1. simpl p_opts. rewrite factors_valid_pos by assumption. simpl negb. cbv iota. rewrite WE.
  unfold setup_existing. simpl p_ty. replace (ptype_eqb (p_ty x) (p_ty x)) with true by (symmetry; now apply ptype_eqb_eq).
  simpl negb. cbv iota. simpl p_opts.
  destruct (o_mode (p_opts x) =? 0)%N; simpl; rewrite WT; simpl;
  (replace (ptype_eqb (p_ty x) MetaT) with false by (symmetry; now apply ptype_eqb_neq));
  rewrite andb_false_r; simpl; unfold alloc_input, repin_input; simpl;
  destruct (allocate _ _ _); try reflexivity; destruct x; reflexivity. Qed.

(* C03 on the re-pin input: the failed peer is never in a fresh allocation; enough healthy holders => allocation kept *)
Lemma realloc_excludes_failed now i ord f l :
  (forall xs, Permutation (ord xs) xs) -> NoDup (map mpeer (metrics i)) -> In f (blacklist i) ->
  valid_factors (rmin i) (rmax i) -> allocate now i ord = Ok l ->
  healthy_count now i (current i) < rmin i -> ~ In f l.
Proof. intros Ho Hm Hb V H U.
  rewrite (holders_current now i ord Ho) in U.
  destruct (alloc_preference_l now i ord l V H U) as [k [-> _]]. intros Hin. apply in_app_or in Hin.
  destruct Hin as [Hin|Hin].
  - apply (valid_healthy now i ord Ho) in Hin. destruct Hin as [[m [_ [_ [_ [_ NB]]]]] _]. auto.
  - apply in_firstn in Hin. apply (final_healthy now i) in Hin. destruct Hin as [[m [_ [_ [_ [_ NB]]]]] _]. auto. Qed.

Lemma realloc_kept_when_enough now i ord l :
  (forall xs, Permutation (ord xs) xs) -> NoDup (map mpeer (metrics i)) ->
  valid_factors (rmin i) (rmax i) -> allocate now i ord = Ok l ->
  rmin i <= healthy_count now i (current i) <= rmax i -> l = current i.
Proof. intros Ho Hm [V1 V2] H U. rewrite (holders_current now i ord Ho) in U.
  apply (alloc_shape now i ord) in H.
  destruct H as [[A _]|[_ [[A _]|[[_ [_ ->]]|[_ [B _]]]]]]; auto; lia. Qed.

Lemma realloc_total_when_enough now i ord :
  (forall xs, Permutation (ord xs) xs) -> NoDup (map mpeer (metrics i)) ->
  valid_factors (rmin i) (rmax i) -> rmin i <= healthy_count now i (current i) <= rmax i -> allocate now i ord = Ok (current i).
Proof. intros Ho Hm [V1 V2] U. rewrite (holders_current now i ord Ho) in U. unfold allocate.
  destruct (Z.eqb_spec (rmin i + rmax i) 0); [lia|]. destruct (Z.ltb_spec (rmin i) 0); [lia|]. simpl.
  destruct (Z.ltb_spec (rmax i - Z.of_nat (length (valid_current now i ord))) 0); [lia|].
  destruct (Z.leb_spec (rmin i - Z.of_nat (length (valid_current now i ord))) 0); [reflexivity|lia]. Qed.

(* ================= every survivor handles the alert, one after the other ================= *)
Definition total_cnt (c : N) (res : list (N * list N)) : nat := list_sum (map (fun sl => cnt c (snd sl)) res).
Lemma total_cnt_app c a b : total_cnt c (a ++ b) = (total_cnt c a + total_cnt c b)%nat.
Proof. unfold total_cnt. now rewrite map_app, list_sum_app. Qed.

Definition actor_active (a : actor) : bool := negb (follower (pc_cfg (a_pc a))) && negb (pc_norepin (a_pc a)).

Section Schedule.
Variables (e : env) (hp hc : N -> N) (members : list N) (trusted : N -> bool) (f : N).

Definition closest_for (s c : N) : bool := is_closest hp hc s (trusted_others s members (Some f) trusted) c.

Definition astep (acc : pinset * list (N * list N)) (a : actor) : pinset * list (N * list N) :=
  let r := on_alert (a_pc a) e (a_ord a) (a_lord a) hp hc (a_self a) members trusted (fst acc) true f in
  (snd (fst r), snd acc ++ [(a_self a, snd r)]).

Lemma alert_all_fold sched st : alert_all e hp hc members trusted true f sched st = fold_left astep sched (st, []).
Proof. reflexivity. Qed.

(* whoever logs c is a closest peer for c — any pinset, any pin (update pins included) *)
Lemma loggers_closest c sched : forall acc,
  (forall s lg, In (s, lg) (snd acc) -> cnt c lg <> 0%nat -> closest_for s c = true) ->
  forall s lg, In (s, lg) (snd (fold_left astep sched acc)) -> cnt c lg <> 0%nat -> closest_for s c = true.
Proof. induction sched as [|a l IH]; simpl; intros acc H; auto. apply IH. simpl. intros s lg Hin Hc.
  apply in_app_or in Hin. destruct Hin as [Hin|[E|[]]]; [eauto|]. inversion E; subst.
  destruct (closest_for (a_self a) c) eqn:C; auto. exfalso. apply Hc.
  now destruct (on_alert_not_closest (a_pc a) e (a_ord a) (a_lord a) hp hc (a_self a) members trusted (fst acc) f true c C). Qed.

Lemma sched_inv sched : forall acc, inv (fst acc) -> inv (fst (fold_left astep sched acc)).
Proof. induction sched as [|a l IH]; simpl; intros acc H; auto. apply IH. simpl. now apply on_alert_inv. Qed.

Lemma sched_keeps h sched : forall acc, aget h (fst acc) <> None -> aget h (fst (fold_left astep sched acc)) <> None.
Proof. induction sched as [|a l IH]; simpl; intros acc H; auto. apply IH. simpl. now apply on_alert_keeps. Qed.

Lemma sched_no_new h sched : forall acc, (forall a, In a sched -> list_oracle (a_lord a)) -> inv (fst acc) ->
  aget h (fst acc) = None -> aget h (fst (fold_left astep sched acc)) = None.
Proof. induction sched as [|a l IH]; simpl; intros acc L I H; auto. apply IH; auto.
  - simpl. now apply on_alert_inv.
  - simpl. apply on_alert_no_new; auto. Qed.

(* peers that are not closest for c: entry c stays, nothing logged for c *)
Lemma sched_skip c sched : forall acc,
  (forall a, In a sched -> closest_for (a_self a) c = false) ->
  aget c (fst (fold_left astep sched acc)) = aget c (fst acc) /\
  total_cnt c (snd (fold_left astep sched acc)) = total_cnt c (snd acc).
Proof. induction sched as [|a l IH]; simpl; intros acc H; auto.
  destruct (IH (astep acc a)) as [A B]; [intros b Hb; apply H; now right|]. rewrite A, B.
  destruct (on_alert_not_closest (a_pc a) e (a_ord a) (a_lord a) hp hc (a_self a) members trusted (fst acc) f true c (H a (or_introl eq_refl))) as [X Y].
  unfold astep. simpl. split; auto. rewrite total_cnt_app. unfold total_cnt at 2. simpl. rewrite Y. lia. Qed.

(* inactive peers (follower / repinning disabled): whole pinset stays *)
Lemma astep_inactive acc a : actor_active a = false -> fst (astep acc a) = fst acc /\ snd (astep acc a) = snd acc ++ [(a_self a, [])].
Proof. intros H. unfold actor_active in H. unfold astep.
  assert (P : follower (pc_cfg (a_pc a)) = true \/ true = false \/ pc_norepin (a_pc a) = true).
  { destruct (follower (pc_cfg (a_pc a))); auto. destruct (pc_norepin (a_pc a)); auto. }
  destruct (on_alert_idle (a_pc a) e (a_ord a) (a_lord a) hp hc (a_self a) members trusted (fst acc) f true P) as [A B].
  simpl. rewrite A, B. auto. Qed.

Variable sstar : N.   (* the closest survivor for c *)
Variable c : N.
Hypothesis Hstar : closest_for sstar c = true.
Hypothesis Huniq : forall s, In s (survivors members (Some f)) -> closest_for s c = true -> s = sstar.

Definition outcome (x : pin) (a : actor) : result := repin_res (pc_cfg (a_pc a)) e (a_ord a) f x.

(* what the whole schedule does to entry c (x not an update pin, held by the failed peer) *)
Lemma sched_entry x sched : forall acc,
  (forall a, In a sched -> list_oracle (a_lord a)) ->
  (forall a, In a sched -> In (a_self a) (survivors members (Some f))) ->
  NoDup (map a_self sched) -> inv (fst acc) ->
  aget c (fst acc) = Some x -> ~ is_update x -> memN f (p_allocs x) = true ->
  match find (fun a => (a_self a =? sstar)%N) sched with
  | Some a =>
      if actor_active a then
        aget c (fst (fold_left astep sched acc)) = (match outcome x a with ROk q => Some (pb_norm q) | RErr _ => Some x end) /\
        total_cnt c (snd (fold_left astep sched acc)) = (total_cnt c (snd acc) + match outcome x a with ROk _ => 1 | RErr _ => 0 end)%nat
      else aget c (fst (fold_left astep sched acc)) = Some x /\ total_cnt c (snd (fold_left astep sched acc)) = total_cnt c (snd acc)
  | None => aget c (fst (fold_left astep sched acc)) = Some x /\ total_cnt c (snd (fold_left astep sched acc)) = total_cnt c (snd acc)
  end.
Proof. induction sched as [|a l IH]; intros acc L S ND I G NU H; [simpl; auto|].
  simpl find. simpl fold_left. inversion ND as [|? ? Hnotin ND']; subst.
  destruct (N.eqb_spec (a_self a) sstar) as [E|E].
  - (* the closest survivor runs now; nobody after it is closest *)
    assert (T : forall b, In b l -> closest_for (a_self b) c = false).
    { intros b Hb. destruct (closest_for (a_self b) c) eqn:C; auto. exfalso.
      apply Huniq in C; [|apply S; now right]. apply Hnotin. rewrite E, <- C. now apply in_map. }
    destruct (sched_skip c l (astep acc a) T) as [A B]. rewrite A, B.
    destruct (actor_active a) eqn:ACT.
    + unfold actor_active in ACT. apply andb_true_iff in ACT. destruct ACT as [F R]. apply negb_true_iff in F, R.
      destruct (on_alert_closest (a_pc a) e (a_ord a) (a_lord a) hp hc (a_self a) members trusted (fst acc) f c x) as [X Y]; auto.
      * apply L. now left.
      * rewrite E. exact Hstar.
      * unfold astep. simpl. cbv zeta in X, Y. unfold outcome. rewrite X. split; auto.
        rewrite total_cnt_app. unfold total_cnt at 2. simpl. rewrite Y. destruct (repin_res _ _ _ _ _); lia.
    + destruct (astep_inactive acc a ACT) as [X Y]. rewrite X, Y, G. split; auto.
      rewrite total_cnt_app. unfold total_cnt at 2. simpl. unfold cnt. simpl. lia.
  - (* not the closest one: skips c *)
    assert (NC : closest_for (a_self a) c = false).
    { destruct (closest_for (a_self a) c) eqn:C; auto. exfalso. apply E. apply Huniq; auto. apply S. now left. }
    destruct (on_alert_not_closest (a_pc a) e (a_ord a) (a_lord a) hp hc (a_self a) members trusted (fst acc) f true c NC) as [X Y].
    specialize (IH (astep acc a)).
    assert (G' : aget c (fst (astep acc a)) = Some x) by (unfold astep; simpl; now rewrite X).
    assert (TC : total_cnt c (snd (astep acc a)) = total_cnt c (snd acc)).
    { unfold astep. simpl. rewrite total_cnt_app. unfold total_cnt at 2. simpl. rewrite Y. lia. }
    rewrite <- TC. apply IH; auto.
    + intros b Hb. apply L. now right.
    + intros b Hb. apply S. now right.
    + unfold astep. simpl. now apply on_alert_inv.
Qed.
End Schedule.

(* ================= expiry sweep (StateSync) on pinsets of ordinary (data) pins ================= *)
Definition all_data (st : pinset) : Prop := forall k p, aget k st = Some p -> p_ty p = DataT.

Lemma all_data_adel st h : all_data st -> all_data (adel h st).
Proof. intros H k p G. destruct (N.eq_dec k h) as [->|Hn]; [now rewrite aget_adel_same in G|].
  rewrite aget_adel_other in G by assumption. eauto. Qed.

Definition sbody (c : cfg) (e : env) (sel : pin -> bool) :=
  fun (acc : list (N * pin) * list N) (x : pin) =>
    if expired_at (e_now e) x && sel x then
      match unpin_op c e (fst acc) (p_cid x) with
      | (ROk q, s') => (s', snd acc ++ unpin_logs e (fst acc) (p_cid x) q)
      | (RErr _, s') => (s', snd acc) end
    else acc.

Lemma unpin_data c e st h : follower c = false -> all_data st ->
  unpin_op c e st h = match aget h st with Some p => (ROk p, adel h st) | None => (RErr ENotFound, st) end.
Proof. intros F D. unfold unpin_op. rewrite F. destruct (aget h st) as [p|] eqn:G; auto. now rewrite (D _ _ G). Qed.

Lemma sbody_data c e sel acc x : follower c = false -> all_data (fst acc) ->
  sbody c e sel acc x =
  if expired_at (e_now e) x && sel x then
    match aget (p_cid x) (fst acc) with
    | Some p => (adel (p_cid x) (fst acc), snd acc ++ [p_cid x])
    | None => acc end
  else acc.
Proof. intros F D. unfold sbody. destruct (expired_at (e_now e) x && sel x); auto. rewrite unpin_data by assumption.
  destruct (aget (p_cid x) (fst acc)) as [p|] eqn:G; [|now destruct acc].
  unfold unpin_logs. now rewrite (D _ _ G). Qed.

Lemma sbody_all_data c e sel acc x : follower c = false -> all_data (fst acc) -> all_data (fst (sbody c e sel acc x)).
Proof. intros F D. rewrite sbody_data by assumption. destruct (expired_at (e_now e) x && sel x); auto.
  destruct (aget (p_cid x) (fst acc)); auto. simpl. now apply all_data_adel. Qed.

Lemma sloop_frame c e sel h snap : forall acc, follower c = false -> all_data (fst acc) ->
  (forall y, In y snap -> p_cid y <> h \/ expired_at (e_now e) y && sel y = false) ->
  aget h (fst (fold_left (sbody c e sel) snap acc)) = aget h (fst acc) /\
  cnt h (snd (fold_left (sbody c e sel) snap acc)) = cnt h (snd acc).
Proof. induction snap as [|y l IH]; simpl; intros acc F D H; auto.
  destruct (IH (sbody c e sel acc y) F) as [A B]; [now apply sbody_all_data|intros z Hz; apply H; now right|]. rewrite A, B.
  rewrite sbody_data by assumption. destruct (H y (or_introl eq_refl)) as [Hn|Hs]; [|now rewrite Hs].
  destruct (expired_at (e_now e) y && sel y); auto. destruct (aget (p_cid y) (fst acc)); auto. simpl.
  rewrite aget_adel_other by congruence. rewrite cnt_app, cnt_single_other by congruence. split; auto. Qed.

Lemma sloop_all_data c e sel snap : forall acc, follower c = false -> all_data (fst acc) -> all_data (fst (fold_left (sbody c e sel) snap acc)).
Proof. induction snap as [|y l IH]; simpl; intros acc F D; auto. apply IH; auto. now apply sbody_all_data. Qed.

Lemma sloop_inv c e sel snap : forall acc, inv (fst acc) -> inv (fst (fold_left (sbody c e sel) snap acc)).
Proof. induction snap as [|y l IH]; simpl; intros acc I; auto. apply IH. unfold sbody.
  destruct (expired_at (e_now e) y && sel y); auto.
  pose proof (inv_unpin c e (fst acc) (p_cid y) I) as I'. destruct (unpin_op c e (fst acc) (p_cid y)) as [[q|er] s']; exact I'. Qed.

Lemma sloop_entry c e sel snap x : forall acc, follower c = false -> all_data (fst acc) ->
  NoDup (map p_cid snap) -> In x snap -> aget (p_cid x) (fst acc) = Some x ->
  let act := expired_at (e_now e) x && sel x in
  aget (p_cid x) (fst (fold_left (sbody c e sel) snap acc)) = (if act then None else Some x) /\
  cnt (p_cid x) (snd (fold_left (sbody c e sel) snap acc)) = (cnt (p_cid x) (snd acc) + if act then 1 else 0)%nat.
Proof. intros acc F D ND Hin G. cbv zeta.
  apply in_split in Hin. destruct Hin as [l1 [l2 ->]]. rewrite fold_left_app. simpl.
  rewrite map_app in ND. simpl in ND. apply NoDup_remove in ND. destruct ND as [_ ND].
  assert (H1 : forall y, In y l1 -> p_cid y <> p_cid x).
  { intros y Hy E. apply ND. apply in_or_app. left. rewrite <- E. now apply in_map. }
  assert (H2 : forall y, In y l2 -> p_cid y <> p_cid x).
  { intros y Hy E. apply ND. apply in_or_app. right. rewrite <- E. now apply in_map. }
  set (a1 := fold_left (sbody c e sel) l1 acc).
  destruct (sloop_frame c e sel (p_cid x) l1 acc F D) as [A1 B1]; [intros y Hy; left; auto|]. fold a1 in A1, B1.
  assert (D1 : all_data (fst a1)) by (now apply sloop_all_data).
  destruct (sloop_frame c e sel (p_cid x) l2 (sbody c e sel a1 x) F) as [A2 B2]; [now apply sbody_all_data|intros y Hy; left; auto|].
  rewrite A2, B2. rewrite sbody_data by assumption. rewrite A1, G.
  destruct (expired_at (e_now e) x && sel x); simpl; [|rewrite A1, B1, G; split; auto].
  rewrite aget_adel_same, cnt_app, cnt_single_same, B1. auto. Qed.

Section OneSync.
Variables (pc : pcfg) (e : env) (lord : list pin -> list pin) (hp hc : N -> N)
          (self : N) (members : list N) (trusted : N -> bool) (st : pinset).
Let others := trusted_others self members None trusted.
Let sel := fun x : pin => is_closest hp hc self others (p_cid x).

Lemma sync_fold : follower (pc_cfg pc) = false ->
  state_sync pc e lord hp hc self members trusted st = fold_left (sbody (pc_cfg pc) e sel) (listed lord st) (st, []).
Proof. intros F. unfold state_sync. rewrite F. reflexivity. Qed.

Lemma sync_follower : follower (pc_cfg pc) = true -> state_sync pc e lord hp hc self members trusted st = (st, []).
Proof. intros F. unfold state_sync. now rewrite F. Qed.

Lemma sync_inv : inv st -> inv (fst (state_sync pc e lord hp hc self members trusted st)).
Proof. intros I. destruct (follower (pc_cfg pc)) eqn:F; [now rewrite sync_follower|]. rewrite sync_fold by assumption. now apply sloop_inv. Qed.

Lemma sync_all_data : all_data st -> all_data (fst (state_sync pc e lord hp hc self members trusted st)).
Proof. intros D. destruct (follower (pc_cfg pc)) eqn:F; [now rewrite sync_follower|]. rewrite sync_fold by assumption. now apply sloop_all_data. Qed.

(* entry c is left alone and not logged unless this peer is closest for c and the listed pin has expired *)
Lemma sync_skip c : all_data st -> list_oracle lord -> inv st ->
  (is_closest hp hc self others c = false \/ aget c st = None \/ exists x, aget c st = Some x /\ expired_at (e_now e) x = false) ->
  aget c (fst (state_sync pc e lord hp hc self members trusted st)) = aget c st /\
  cnt c (snd (state_sync pc e lord hp hc self members trusted st)) = 0%nat.
Proof. intros D L I H. destruct (follower (pc_cfg pc)) eqn:F; [rewrite sync_follower by assumption; auto|].
  rewrite sync_fold by assumption. apply (sloop_frame (pc_cfg pc) e sel c (listed lord st) (st, []) F D).
  intros y Hy. destruct (N.eq_dec (p_cid y) c) as [E|E]; [right|now left].
  pose proof (listed_in lord st y L I Hy) as Gy. rewrite E in Gy.
  destruct H as [H|[H|[x [G H]]]].
  - unfold sel. rewrite E, H. apply andb_false_r.
  - congruence.
  - rewrite G in Gy. inversion Gy; subst. now rewrite H. Qed.

Lemma sync_closest c x : all_data st -> list_oracle lord -> inv st -> follower (pc_cfg pc) = false ->
  aget c st = Some x -> expired_at (e_now e) x = true -> is_closest hp hc self others c = true ->
  aget c (fst (state_sync pc e lord hp hc self members trusted st)) = None /\
  cnt c (snd (state_sync pc e lord hp hc self members trusted st)) = 1%nat.
Proof. intros D L I F G X C. rewrite sync_fold by assumption.
  assert (Cx : p_cid x = c) by (destruct I as [_ K]; now destruct (K _ _ G)). subst c.
  destruct (sloop_entry (pc_cfg pc) e sel (listed lord st) x (st, []) F D) as [A B]; auto.
  - now apply listed_nodup.
  - eapply listed_has; eauto.
  - cbv zeta in A, B. unfold sel in A, B. rewrite X, C in A, B. simpl in A, B. auto. Qed.
End OneSync.

Section SyncSchedule.
Variables (e : env) (hp hc : N -> N) (members : list N) (trusted : N -> bool).

Definition sclosest_for (s c : N) : bool := is_closest hp hc s (trusted_others s members None trusted) c.

Definition sstep (acc : pinset * list (N * list N)) (a : actor) : pinset * list (N * list N) :=
  let r := state_sync (a_pc a) e (a_lord a) hp hc (a_self a) members trusted (fst acc) in
  (fst r, snd acc ++ [(a_self a, snd r)]).

Lemma sync_all_fold sched st : sync_all e hp hc members trusted sched st = fold_left sstep sched (st, []).
Proof. reflexivity. Qed.

Lemma ssched_skip c sched : forall acc,
  (forall a, In a sched -> list_oracle (a_lord a)) -> all_data (fst acc) -> inv (fst acc) ->
  ((forall a, In a sched -> sclosest_for (a_self a) c = false) \/ aget c (fst acc) = None \/
   exists x, aget c (fst acc) = Some x /\ expired_at (e_now e) x = false) ->
  aget c (fst (fold_left sstep sched acc)) = aget c (fst acc) /\
  total_cnt c (snd (fold_left sstep sched acc)) = total_cnt c (snd acc).
Proof. induction sched as [|a l IH]; simpl; intros acc L D I H; auto.
  assert (S : aget c (fst (sstep acc a)) = aget c (fst acc) /\ cnt c (snd (state_sync (a_pc a) e (a_lord a) hp hc (a_self a) members trusted (fst acc))) = 0%nat).
  { unfold sstep. simpl. apply sync_skip; auto. destruct H as [H|[H|H]]; [left; apply H; now left|right; left; exact H|right; right; exact H]. }
  destruct S as [S1 S2].
  destruct (IH (sstep acc a)) as [A B].
  - intros b Hb. apply L. now right.
  - unfold sstep. simpl. now apply sync_all_data.
  - unfold sstep. simpl. now apply sync_inv.
  - rewrite S1. destruct H as [H|[H|H]]; [left; intros b Hb; apply H; now right|right; left; exact H|right; right; exact H].
  - rewrite A, B, S1. split; auto. unfold sstep. simpl. rewrite total_cnt_app. unfold total_cnt at 2. simpl. rewrite S2. lia. Qed.

Variables (sstar c : N).
Hypothesis Hstar : sclosest_for sstar c = true.
Hypothesis Huniq : forall s, In s (survivors members None) -> sclosest_for s c = true -> s = sstar.

Lemma ssched_entry x sched : forall acc,
  (forall a, In a sched -> list_oracle (a_lord a)) ->
  (forall a, In a sched -> In (a_self a) (survivors members None)) ->
  NoDup (map a_self sched) -> all_data (fst acc) -> inv (fst acc) ->
  aget c (fst acc) = Some x -> expired_at (e_now e) x = true ->
  match find (fun a => (a_self a =? sstar)%N) sched with
  | Some a => if follower (pc_cfg (a_pc a))
              then aget c (fst (fold_left sstep sched acc)) = Some x /\ total_cnt c (snd (fold_left sstep sched acc)) = total_cnt c (snd acc)
              else aget c (fst (fold_left sstep sched acc)) = None /\ total_cnt c (snd (fold_left sstep sched acc)) = (total_cnt c (snd acc) + 1)%nat
  | None => aget c (fst (fold_left sstep sched acc)) = Some x /\ total_cnt c (snd (fold_left sstep sched acc)) = total_cnt c (snd acc)
  end.
Proof. induction sched as [|a l IH]; intros acc L S ND D I G X; [simpl; auto|].
  simpl find. simpl fold_left. inversion ND as [|? ? Hnotin ND']; subst.
  assert (D' : all_data (fst (sstep acc a))) by (unfold sstep; simpl; now apply sync_all_data).
  assert (I' : inv (fst (sstep acc a))) by (unfold sstep; simpl; now apply sync_inv).
  assert (L' : forall b, In b l -> list_oracle (a_lord b)) by (intros b Hb; apply L; now right).
  destruct (N.eqb_spec (a_self a) sstar) as [E|E].
  - assert (T : forall b, In b l -> sclosest_for (a_self b) c = false).
    { intros b Hb. destruct (sclosest_for (a_self b) c) eqn:C; auto. exfalso.
      apply Huniq in C; [|apply S; now right]. apply Hnotin. rewrite E, <- C. now apply in_map. }
    destruct (ssched_skip c l (sstep acc a) L' D' I' (or_introl T)) as [A B]. rewrite A, B.
    destruct (follower (pc_cfg (a_pc a))) eqn:F.
    + unfold sstep. simpl. rewrite sync_follower by assumption. simpl. rewrite G. split; auto.
      rewrite total_cnt_app. unfold total_cnt at 2. simpl. unfold cnt. simpl. lia.
    + destruct (sync_closest (a_pc a) e (a_lord a) hp hc (a_self a) members trusted (fst acc) c x) as [P Q]; auto.
      * apply L. now left.
      * rewrite E. exact Hstar.
      * unfold sstep. simpl. rewrite P. split; auto. rewrite total_cnt_app. unfold total_cnt at 2. simpl. rewrite Q. lia.
  - assert (NC : sclosest_for (a_self a) c = false).
    { destruct (sclosest_for (a_self a) c) eqn:C; auto. exfalso. apply E. apply Huniq; auto. apply S. now left. }
    destruct (sync_skip (a_pc a) e (a_lord a) hp hc (a_self a) members trusted (fst acc) c D) as [P Q]; auto.
    { apply L. now left. }
    assert (G' : aget c (fst (sstep acc a)) = Some x) by (unfold sstep; simpl; now rewrite P).
    assert (TC : total_cnt c (snd (sstep acc a)) = total_cnt c (snd acc)).
    { unfold sstep. simpl. rewrite total_cnt_app. unfold total_cnt at 2. simpl. rewrite Q. lia. }
    rewrite <- TC. apply IH; auto. intros b Hb. apply S. now right.
Qed.
End SyncSchedule.

(* ================= statement-level lemmas ================= *)
Lemma pb_norm_set_allocs l x : pb_norm x = x -> pb_norm (set_allocs l x) = set_allocs l x.
Proof. intros H. destruct x as [o c t a d r]. unfold pb_norm, set_allocs in *. simpl in *. inversion H as [H0]. now rewrite !H0. Qed.

Lemma set_allocs_same x : set_allocs (p_allocs x) x = x.
Proof. destruct x; reflexivity. Qed.

Definition map_oracle (ord : N -> list N -> list N) : Prop := forall k xs, Permutation (ord k xs) xs.

(* what must have happened to entry c (pin x, held by the failed peer f) once every survivor in sched handled the alert *)
Definition rehome_spec (e : env) (hp hc : N -> N) (members : list N) (trusted : N -> bool) (f : N) (sched : list actor)
           (st : pinset) (c : N) (x : pin) : Prop :=
  let res := alert_all e hp hc members trusted true f sched st in
  exists a, In a sched /\ closest_for hp hc members trusted f (a_self a) c = true /\
    let i := repin_input (pc_cfg (a_pc a)) e f x in
    (* still enough healthy holders without f: untouched *)
    (o_rmin (p_opts x) <= healthy_count (e_now e) i (p_allocs x) <= o_rmax (p_opts x) -> aget c (fst res) = Some x) /\
    (* fewer than the minimum: re-allocated by C03 without f, every other field kept, logged once, by the closest survivor only *)
    (healthy_count (e_now e) i (p_allocs x) < o_rmin (p_opts x) ->
       match allocate (e_now e) i (a_ord a c) with
       | Ok l => aget c (fst res) = Some (set_allocs l x) /\ ~ In f l /\ NoDup l /\
                 o_rmin (p_opts x) <= healthy_count (e_now e) i l <= o_rmax (p_opts x) /\
                 total_cnt c (snd res) = 1%nat /\
                 (forall s lg, In (s, lg) (snd res) -> cnt c lg <> 0%nat -> s = a_self a)
       | _ => aget c (fst res) = Some x /\ total_cnt c (snd res) = 0%nat
       end).

Record alert_premises (e : env) (hp hc : N -> N) (members : list N) (trusted : N -> bool) (f : N) (sched : list actor)
       (st : pinset) (c : N) (x : pin) : Prop := {
  ap_trust : forall p, In p members -> trusted p = true;
  ap_inj : forall a b, In a (survivors members (Some f)) -> In b (survivors members (Some f)) -> hp a = hp b -> a = b;
  ap_some : survivors members (Some f) <> [];
  ap_actors : forall a, In a sched -> list_oracle (a_lord a) /\ map_oracle (a_ord a) /\ actor_active a = true;
  ap_once : NoDup (map a_self sched);
  ap_all : forall s, In s (map a_self sched) <-> In s (survivors members (Some f));
  ap_metrics : NoDup (map mpeer (e_metrics e));
  ap_inv : inv st;
  ap_entry : aget c st = Some x;
  ap_nodup : NoDup (p_allocs x);
  ap_wf : wf_repin e x;
  ap_held : In f (p_allocs x) }.

Lemma find_self sched s : In s (map a_self sched) -> exists a, find (fun a => (a_self a =? s)%N) sched = Some a /\ In a sched /\ a_self a = s.
Proof. intros H. apply in_map_iff in H. destruct H as [a0 [E Hin]].
  destruct (find (fun a => (a_self a =? s)%N) sched) as [a|] eqn:Fd.
  - apply find_some in Fd. destruct Fd as [Ha Hb]. apply N.eqb_eq in Hb. eauto.
  - exfalso. apply (find_none _ _ Fd) in Hin. rewrite E, N.eqb_refl in Hin. discriminate. Qed.

Lemma loggers_are_actors e hp hc members trusted f sched : forall acc s lg,
  In (s, lg) (snd (fold_left (astep e hp hc members trusted f) sched acc)) -> In (s, lg) (snd acc) \/ In s (map a_self sched).
Proof. induction sched as [|b l IH]; simpl; intros acc s lg H; auto. apply IH in H. destruct H as [H|H]; auto.
  unfold astep in H. simpl in H. apply in_app_or in H. destruct H as [H|[E|[]]]; auto. inversion E. auto. Qed.

Theorem alert_rehomes_partial_s e hp hc members trusted f sched st c x :
  alert_premises e hp hc members trusted f sched st c x -> ~ is_update x -> rehome_spec e hp hc members trusted f sched st c x.
Proof. intros [Ht Hi Hs Ha Ho Hall Hm I G NDx W Hf] NU. unfold rehome_spec. cbv zeta.
  destruct (exactly_one_closest_l hp hc members (Some f) trusted c Ht Hs Hi) as [s [S1 [S2 S3]]].
  destruct (find_self sched s) as [a [Fd [Hin Es]]]; [now apply Hall|].
  exists a. split; auto. split; [unfold closest_for; now rewrite Es|].
  rewrite alert_all_fold.
  pose proof (sched_entry e hp hc members trusted f s c S2 S3 x sched (st, [])) as SE.
  rewrite Fd in SE. destruct (Ha a Hin) as [La [Oa Act]]. rewrite Act in SE.
  destruct SE as [E1 E2]; auto.
  { intros b Hb. now destruct (Ha b Hb). }
  { intros b Hb. apply Hall. now apply in_map. }
  { now apply memN_in. }
  unfold outcome in E1, E2. rewrite (repin_res_wf _ _ _ _ _ W) in E1, E2.
  assert (Cx : p_cid x = c) by (destruct I as [_ K]; now destruct (K _ _ G)). rewrite Cx in E1, E2.
  assert (PN : pb_norm x = x) by (destruct I as [_ K]; now destruct (K _ _ G) as [_ [? _]]).
  set (i := repin_input (pc_cfg (a_pc a)) e f x) in *.
  assert (V : valid_factors (rmin i) (rmax i)) by (destruct W as [[? ?] _ _ _]; split; simpl; lia).
  assert (Hb : In f (blacklist i)) by (simpl; auto).
  split.
  - intros U. rewrite (realloc_total_when_enough (e_now e) i (a_ord a c) (Oa c) Hm V U) in E1.
    simpl current in E1. now rewrite set_allocs_same, PN in E1.
  - intros U. destruct (allocate (e_now e) i (a_ord a c)) as [l| |] eqn:AL; simpl in E2; try (split; [exact E1|exact E2]).
    rewrite pb_norm_set_allocs in E1 by assumption.
    split; [exact E1|]. split; [exact (realloc_excludes_failed (e_now e) i (a_ord a c) f l (Oa c) Hm Hb V AL U)|].
    split; [exact (alloc_nodup_l (e_now e) i (a_ord a c) (Oa c) Hm l NDx AL)|].
    split; [exact (alloc_min_max_l (e_now e) i (a_ord a c) (Oa c) Hm l V AL)|]. split; [exact E2|].
    intros s' lg Hlg Hc. rewrite Es. apply S3.
    + apply Hall. apply (loggers_are_actors e hp hc members trusted f sched (st, [])) in Hlg. simpl in Hlg. tauto.
    + apply (loggers_closest e hp hc members trusted f c sched (st, [])) with (lg := lg); auto.
Qed.

(* a pin the failed peer does not hold: never touched, never logged (update pins included) *)
Lemma sched_not_holder e hp hc members trusted f c x sched : forall acc,
  (forall a, In a sched -> list_oracle (a_lord a)) -> inv (fst acc) -> aget c (fst acc) = Some x -> memN f (p_allocs x) = false ->
  aget c (fst (fold_left (astep e hp hc members trusted f) sched acc)) = Some x /\
  total_cnt c (snd (fold_left (astep e hp hc members trusted f) sched acc)) = total_cnt c (snd acc).
Proof. induction sched as [|a l IH]; simpl; intros acc L I G H; auto.
  destruct (on_alert_not_holder (a_pc a) e (a_ord a) (a_lord a) hp hc (a_self a) members trusted (fst acc) f true c x) as [X Y]; auto.
  destruct (IH (astep e hp hc members trusted f acc a)) as [A B]; auto.
  - unfold astep. simpl. now apply on_alert_inv.
  - rewrite A, B. split; auto. unfold astep. simpl. rewrite total_cnt_app. unfold total_cnt at 2. simpl. rewrite Y. lia. Qed.

Theorem alert_not_held_untouched_s e hp hc members trusted f sched st c x :
  (forall a, In a sched -> list_oracle (a_lord a)) -> inv st -> aget c st = Some x -> ~ In f (p_allocs x) ->
  let res := alert_all e hp hc members trusted true f sched st in
  aget c (fst res) = Some x /\ total_cnt c (snd res) = 0%nat.
Proof. intros L I G H. cbv zeta. rewrite alert_all_fold.
  apply (sched_not_holder e hp hc members trusted f c x sched (st, [])); auto. now apply memN_false. Qed.

(* followers, peers with repinning disabled, and alerts that are not ping alerts: nothing at all happens *)
Definition astep_g (e : env) (hp hc : N -> N) (members : list N) (trusted : N -> bool) (is_ping : bool) (f : N)
           (acc : list (N * pin) * list (N * list N)) (a : actor) : list (N * pin) * list (N * list N) :=
  let r := on_alert (a_pc a) e (a_ord a) (a_lord a) hp hc (a_self a) members trusted (fst acc) is_ping f in
  (snd (fst r), snd acc ++ [(a_self a, snd r)]).

Lemma idle_gen e hp hc members trusted is_ping f sched : forall acc,
  (is_ping = false \/ forall a, In a sched -> actor_active a = false) ->
  fst (fold_left (astep_g e hp hc members trusted is_ping f) sched acc) = fst acc /\
  forall s lg, In (s, lg) (snd (fold_left (astep_g e hp hc members trusted is_ping f) sched acc)) -> In (s, lg) (snd acc) \/ lg = [].
Proof. induction sched as [|a l IH]; simpl; intros acc H; auto.
  assert (P : follower (pc_cfg (a_pc a)) = true \/ is_ping = false \/ pc_norepin (a_pc a) = true).
  { destruct H as [H|H]; auto. specialize (H a (or_introl eq_refl)). unfold actor_active in H.
    destruct (follower (pc_cfg (a_pc a))); auto. destruct (pc_norepin (a_pc a)); auto. }
  destruct (on_alert_idle (a_pc a) e (a_ord a) (a_lord a) hp hc (a_self a) members trusted (fst acc) f is_ping P) as [A B].
  destruct (IH (astep_g e hp hc members trusted is_ping f acc a)) as [X Y].
  { destruct H as [H|H]; auto. }
  split; [rewrite X; unfold astep_g; simpl; exact A|]. intros s lg Hin. apply Y in Hin. unfold astep_g in Hin. simpl in Hin.
  destruct Hin as [Hin|Hin]; auto. apply in_app_or in Hin. destruct Hin as [Hin|[E|[]]]; auto. inversion E. right. congruence. Qed.

Theorem alert_idle_untouched_s e hp hc members trusted is_ping f sched st :
  (is_ping = false \/ forall a, In a sched -> actor_active a = false) ->
  let res := alert_all e hp hc members trusted is_ping f sched st in
  fst res = st /\ forall s lg, In (s, lg) (snd res) -> lg = [].
Proof. intros H. cbv zeta. change (alert_all e hp hc members trusted is_ping f sched st)
    with (fold_left (astep_g e hp hc members trusted is_ping f) sched (st, [])).
  destruct (idle_gen e hp hc members trusted is_ping f sched (st, []) H) as [X Y]. split; auto.
  intros s lg Hin. apply Y in Hin. simpl in Hin. tauto. Qed.

(* nothing is ever removed (nor added) by handling alerts or by vacating a peer *)
Theorem alert_never_removes_s e hp hc members trusted f sched st h :
  (forall a, In a sched -> list_oracle (a_lord a)) -> inv st ->
  (aget h (fst (alert_all e hp hc members trusted true f sched st)) = None <-> aget h st = None).
Proof. intros L I. rewrite alert_all_fold. split; intros H.
  - destruct (aget h st) eqn:G; auto. exfalso. apply (sched_keeps e hp hc members trusted f h sched (st, [])); auto. simpl. congruence.
  - apply (sched_no_new e hp hc members trusted f h sched (st, [])); auto. Qed.

Theorem vacate_never_removes_s pc e ord lord st f h : list_oracle lord -> inv st ->
  (aget h (fst (vacate pc e ord lord st f)) = None <-> aget h st = None).
Proof. intros L I. split; intros H.
  - destruct (aget h st) eqn:G; auto. exfalso. apply (vacate_keeps_l pc e ord lord st f h); auto. congruence.
  - now apply vacate_no_new_l. Qed.

(* PeerRemove: the removed peer's pins, re-homed by the peer that runs it *)
Theorem vacate_rehomes_s pc e ord lord st f c x :
  list_oracle lord -> map_oracle ord -> NoDup (map mpeer (e_metrics e)) -> inv st ->
  follower (pc_cfg pc) = false -> pc_norepin pc = false ->
  aget c st = Some x -> ~ is_update x -> wf_repin e x -> NoDup (p_allocs x) -> In f (p_allocs x) ->
  let res := vacate pc e ord lord st f in
  let i := repin_input (pc_cfg pc) e f x in
  (o_rmin (p_opts x) <= healthy_count (e_now e) i (p_allocs x) <= o_rmax (p_opts x) -> aget c (fst res) = Some x) /\
  (healthy_count (e_now e) i (p_allocs x) < o_rmin (p_opts x) ->
     match allocate (e_now e) i (ord c) with
     | Ok l => aget c (fst res) = Some (set_allocs l x) /\ ~ In f l /\ NoDup l /\
               o_rmin (p_opts x) <= healthy_count (e_now e) i l <= o_rmax (p_opts x) /\ cnt c (snd res) = 1%nat
     | _ => aget c (fst res) = Some x /\ cnt c (snd res) = 0%nat end).
Proof. intros L O Hm I F R G NU W NDx Hf. cbv zeta.
  destruct (vacate_entry_l pc e ord lord st f c x L I F R G NU) as [E1 E2]. cbv zeta in E1, E2.
  apply memN_in in Hf. rewrite Hf in E1, E2. rewrite (repin_res_wf _ _ _ _ _ W) in E1, E2.
  assert (Cx : p_cid x = c) by (destruct I as [_ K]; now destruct (K _ _ G)). rewrite Cx in E1, E2.
  assert (PN : pb_norm x = x) by (destruct I as [_ K]; now destruct (K _ _ G) as [_ [? _]]).
  set (i := repin_input (pc_cfg pc) e f x) in *.
  assert (V : valid_factors (rmin i) (rmax i)) by (destruct W as [[? ?] _ _ _]; split; simpl; lia).
  assert (Hb : In f (blacklist i)) by (simpl; auto).
  split.
  - intros U. rewrite (realloc_total_when_enough (e_now e) i (ord c) (O c) Hm V U) in E1.
    simpl current in E1. now rewrite set_allocs_same, PN in E1.
  - intros U. destruct (allocate (e_now e) i (ord c)) as [l| |] eqn:AL; try (split; [exact E1|exact E2]).
    rewrite pb_norm_set_allocs in E1 by assumption.
    split; [exact E1|]. split; [exact (realloc_excludes_failed (e_now e) i (ord c) f l (O c) Hm Hb V AL U)|].
    split; [exact (alloc_nodup_l (e_now e) i (ord c) (O c) Hm l NDx AL)|].
    split; [exact (alloc_min_max_l (e_now e) i (ord c) (O c) Hm l V AL)|exact E2]. Qed.

(* expiry: an expired pin is unpinned by exactly one member, an unexpired one by none *)
Lemma sloggers_closest e hp hc members trusted c sched : forall acc,
  (forall a, In a sched -> list_oracle (a_lord a)) -> all_data (fst acc) -> inv (fst acc) ->
  (forall s lg, In (s, lg) (snd acc) -> cnt c lg <> 0%nat -> sclosest_for hp hc members trusted s c = true) ->
  forall s lg, In (s, lg) (snd (fold_left (sstep e hp hc members trusted) sched acc)) -> cnt c lg <> 0%nat ->
               sclosest_for hp hc members trusted s c = true.
Proof. induction sched as [|a l IH]; simpl; intros acc L D I H; auto. apply IH.
  - intros b Hb. apply L. now right.
  - unfold sstep. simpl. now apply sync_all_data.
  - unfold sstep. simpl. now apply sync_inv.
  - unfold sstep. simpl. intros s lg Hin Hc. apply in_app_or in Hin. destruct Hin as [Hin|[E|[]]]; [eauto|]. inversion E; subst.
    destruct (sclosest_for hp hc members trusted (a_self a) c) eqn:C; auto. exfalso. apply Hc.
    assert (La : list_oracle (a_lord a)) by (apply L; now left).
    destruct (sync_skip (a_pc a) e (a_lord a) hp hc (a_self a) members trusted (fst acc) c D La I (or_introl C)) as [_ Y]. exact Y. Qed.

Theorem expiry_exactly_one_s e hp hc members trusted sched st c x :
  (forall p, In p members -> trusted p = true) ->
  (forall a b, In a members -> In b members -> hp a = hp b -> a = b) -> members <> [] ->
  (forall a, In a sched -> list_oracle (a_lord a) /\ follower (pc_cfg (a_pc a)) = false) ->
  NoDup (map a_self sched) -> (forall s, In s (map a_self sched) <-> In s members) ->
  all_data st -> inv st -> aget c st = Some x ->
  let res := sync_all e hp hc members trusted sched st in
  (expired_at (e_now e) x = true ->
     aget c (fst res) = None /\ total_cnt c (snd res) = 1%nat /\
     exists s, sclosest_for hp hc members trusted s c = true /\ forall s' lg, In (s', lg) (snd res) -> cnt c lg <> 0%nat -> s' = s) /\
  (expired_at (e_now e) x = false -> aget c (fst res) = Some x /\ total_cnt c (snd res) = 0%nat).
Proof. intros Ht Hi Hne Ha Ho Hall D I G. cbv zeta. rewrite sync_all_fold.
  assert (SV : survivors members None = members).
  { unfold survivors. simpl. clear. induction members; simpl; congruence. }
  assert (La : forall a, In a sched -> list_oracle (a_lord a)) by (intros a Hin; now destruct (Ha a Hin)).
  split.
  - intros X.
    destruct (exactly_one_closest_l hp hc members None trusted c Ht) as [s [S1 [S2 S3]]]; rewrite ?SV; auto.
    rewrite SV in S1, S3.
    destruct (find_self sched s) as [a [Fd [Hin Es]]]; [now apply Hall|].
    pose proof (ssched_entry e hp hc members trusted s c S2) as SE. rewrite SV in SE.
    specialize (SE S3 x sched (st, [])). rewrite Fd in SE. destruct (Ha a Hin) as [_ Fa]. rewrite Fa in SE.
    destruct SE as [E1 E2]; auto.
    { intros b Hb. apply Hall. now apply in_map. }
    split; [exact E1|]. split; [exact E2|]. exists s. split; [exact S2|].
    intros s' lg Hlg Hc. apply S3.
    + apply Hall.
      assert (Gen : forall sched acc s lg, In (s, lg) (snd (fold_left (sstep e hp hc members trusted) sched acc)) ->
                In (s, lg) (snd acc) \/ In s (map a_self sched)).
      { clear. induction sched as [|b l IH]; simpl; intros acc s lg H; auto. apply IH in H. destruct H as [H|H]; auto.
        unfold sstep in H. simpl in H. apply in_app_or in H. destruct H as [H|[E|[]]]; auto. inversion E. auto. }
      apply Gen in Hlg. simpl in Hlg. tauto.
    + apply (sloggers_closest e hp hc members trusted c sched (st, [])) with (lg := lg); auto.
  - intros X. destruct (ssched_skip e hp hc members trusted c sched (st, []) La D I) as [A B].
    + right. right. exists x. auto.
    + rewrite A, B. auto. Qed.

Lemma loggers_closest_s e hp hc members trusted f sched st c s lg :
  In (s, lg) (snd (alert_all e hp hc members trusted true f sched st)) -> cnt c lg <> 0%nat ->
  closest_for hp hc members trusted f s c = true.
Proof. rewrite alert_all_fold. apply (loggers_closest e hp hc members trusted f c sched (st, [])). simpl. tauto. Qed.

(* ================= S10: the full statement fails for a pin created by pin-update ================= *)
Module S10.
Definition e : env := mk_env 0 [mk_metric 1 (Some 10%N) 3600 true; mk_metric 2 (Some 20%N) 3600 true] [] [].
Definition idf : N -> N := fun p => p.
Definition members : list N := [0; 1; 2]%N.
Definition trusted : N -> bool := fun _ => true.
Definition f : N := 0%N.
Definition pc : pcfg := mk_pcfg (mk_cfg 1 1 false false) false.
Definition act (s : N) : actor := mk_actor s pc (fun _ xs => xs) (fun l => l).
Definition sched : list actor := [act 1%N; act 2%N].
(* CID 1 was created by pin-update from CID 2, which has since been unpinned; its only holder is the failed peer *)
Definition x : pin := mk_pin (mk_opts 1 1 0%N 0%N 0%N [] None [] (Some 2%N) []) 1%N DataT [0%N] (-1) None.
Definition st : pinset := [(1%N, x)].
(* the same pin without an update source *)
Definition x0 : pin := mk_pin (mk_opts 1 1 0%N 0%N 0%N [] None [] None []) 1%N DataT [0%N] (-1) None.
Definition st0 : pinset := [(1%N, x0)].

Lemma premises_gen y : p_cid y = 1%N -> pb_norm y = y -> o_rmin (p_opts y) = 1 -> o_rmax (p_opts y) = 1 ->
  o_expire (p_opts y) = None -> p_ty y = DataT -> p_ref y = None -> p_allocs y = [0%N] ->
  alert_premises e idf idf members trusted f sched [(1%N, y)] 1%N y.
Proof. intros C PN R1 R2 EX T RF AL. constructor.
  - reflexivity.
  - intros a b _ _ H. exact H.
  - vm_compute. discriminate.
  - intros a [<-|[<-|[]]]; (split; [intros l; apply Permutation_refl|split; [intros k xs; apply Permutation_refl|reflexivity]]).
  - simpl. repeat constructor; simpl; intuition discriminate.
  - intros s. vm_compute. tauto.
  - simpl. repeat constructor; simpl; intuition discriminate.
  - split; [simpl; repeat constructor; simpl; tauto|]. intros k p G. simpl in G. destruct (N.eqb_spec k 1); [|discriminate].
    inversion G; subst. unfold stored_ok. rewrite R1, R2. repeat split; auto.
  - simpl. reflexivity.
  - rewrite AL. repeat constructor. simpl. tauto.
  - constructor; [rewrite R1, R2; lia|rewrite EX; reflexivity|rewrite T; discriminate|].
    unfold check_pin_type. simpl. rewrite T, RF. reflexivity.
  - rewrite AL. now left. Qed.

Lemma premises : alert_premises e idf idf members trusted f sched st 1%N x.
Proof. apply premises_gen; reflexivity. Qed.

Lemma not_rehomed : ~ rehome_spec e idf idf members trusted f sched st 1%N x.
Proof. intros [a [Hin [Hc [_ H2]]]]. destruct Hin as [<-|[<-|[]]].
  - assert (U : healthy_count (e_now e) (repin_input (pc_cfg (a_pc (act 1%N))) e f x) (p_allocs x) < o_rmin (p_opts x)) by (vm_compute; reflexivity).
    specialize (H2 U). vm_compute in H2. destruct H2 as [H2 _]. discriminate.
  - vm_compute in Hc. discriminate. Qed.

(* under-replicated, allocatable, and yet: entry unchanged (the failed peer is still its only holder), nothing logged *)
Lemma what_happens :
  let res := alert_all e idf idf members trusted true f sched st in
  aget 1%N (fst res) = Some x /\ total_cnt 1%N (snd res) = 0%nat /\
  allocate (e_now e) (repin_input (pc_cfg pc) e f x) (fun xs => xs) = Ok [1%N].
Proof. vm_compute. auto. Qed.

(* non-vacuity of the partial statement: the same pin without the update source is re-homed to peer 1 by peer 1 *)
Lemma rehomed_example :
  alert_premises e idf idf members trusted f sched st0 1%N x0 /\ ~ is_update x0 /\
  let res := alert_all e idf idf members trusted true f sched st0 in
  aget 1%N (fst res) = Some (set_allocs [1%N] x0) /\ snd res = [(1%N, [1%N]); (2%N, [])].
Proof. split; [apply premises_gen; reflexivity|]. split; [intros [u [H _]]; discriminate|]. vm_compute. auto. Qed.
End S10.

Theorem redirect_refuted_s :
  exists e hp hc members trusted f sched st c x,
    alert_premises e hp hc members trusted f sched st c x /\ ~ rehome_spec e hp hc members trusted f sched st c x.
Proof. exists S10.e, S10.idf, S10.idf, S10.members, S10.trusted, S10.f, S10.sched, S10.st, 1%N, S10.x.
  split; [exact S10.premises|exact S10.not_rehomed]. Qed.
