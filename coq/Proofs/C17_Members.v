(* C17 — lemmas about Raft membership changes (Model/C17_Members.v). *)
From V Require Import Base.Common Base.CommonLemmas Model.C01_RaftLog Proofs.C01_RaftLog Model.C17_Members.
Open Scope N_scope.

(* ---- the peer set ---- *)
Lemma memN_app x a b : memN x (a ++ b) = memN x a || memN x b.
Proof. unfold memN. apply existsb_app. Qed.

Lemma memN_removeN q p s : memN q (removeN p s) = memN q s && negb (q =? p).
Proof.
  induction s as [|y r IH]; simpl; auto.
  destruct (N.eqb_spec p y) as [Heq|Hn].
  - subst y. rewrite IH. unfold memN. simpl. destruct (q =? p); simpl; [now rewrite andb_false_r|reflexivity].
  - unfold memN in *. simpl. rewrite IH. destruct (N.eqb_spec q y) as [Hq|Hq]; simpl; auto.
    subst y. destruct (N.eqb_spec q p); [congruence|reflexivity].
Qed.

Lemma memN_step_add q p s : memN q (peers_step s (EAdd p)) = memN q s || (q =? p).
Proof.
  simpl. destruct (memN p s) eqn:E.
  - destruct (N.eqb_spec q p) as [->|Hn]; [now rewrite E|now rewrite orb_false_r].
  - rewrite memN_app. simpl. now rewrite orb_false_r.
Qed.

Lemma memN_step_rm q p s : memN q (peers_step s (ERm p)) = memN q s && negb (q =? p).
Proof. apply memN_removeN. Qed.

Lemma peers_of_app init a b : peers_of init (a ++ b) = peers_of (peers_of init a) b.
Proof. unfold peers_of. apply fold_left_app. Qed.

Lemma peers_of_snoc init lg e : peers_of init (lg ++ [e]) = peers_step (peers_of init lg) e.
Proof. now rewrite peers_of_app. Qed.

Lemma peers_of_ops init l : (forall e, In e l -> is_member_entry e = false) -> peers_of init l = init.
Proof.
  revert init. induction l as [|e r IH]; intros init H; simpl; auto.
  unfold peers_of in *. simpl. assert (He : is_member_entry e = false) by (apply H; now left).
  destruct e; try discriminate. simpl. apply IH. intros e' Hin. apply H. now right.
Qed.

Lemma removeN_notin p s : ~ In p (removeN p s).
Proof.
  induction s as [|y r IH]; simpl; auto. destruct (N.eqb_spec p y); simpl; auto. intros [E|E]; auto.
Qed.
Lemma in_removeN x p s : In x (removeN p s) -> In x s.
Proof. induction s as [|y r IH]; simpl; auto. destruct (N.eqb p y); simpl; intuition. Qed.
Lemma NoDup_removeN p s : NoDup s -> NoDup (removeN p s).
Proof.
  induction 1 as [|y r Hy Hr IH]; simpl; [constructor|]. destruct (N.eqb p y); auto.
  constructor; auto. intros Hin. apply Hy. eapply in_removeN; eauto.
Qed.

Lemma NoDup_snoc (s : list N) p : NoDup s -> ~ In p s -> NoDup (s ++ [p]).
Proof.
  induction 1 as [|y r Hy Hr IH]; intros E; simpl.
  - constructor; [intros []|constructor].
  - constructor.
    + intros Hin. apply in_app_or in Hin. destruct Hin as [Hin|[Hin|[]]]; [auto|]. subst. apply E. now left.
    + apply IH. intros Hin. apply E. now right.
Qed.

Lemma NoDup_peers_step s e : NoDup s -> NoDup (peers_step s e).
Proof.
  intros H. destruct e as [op|p|p]; simpl; auto.
  - destruct (memN p s) eqn:E; auto. apply memN_false in E. now apply NoDup_snoc.
  - now apply NoDup_removeN.
Qed.

Lemma NoDup_peers_of lg : forall init, NoDup init -> NoDup (peers_of init lg).
Proof.
  unfold peers_of. induction lg as [|e r IH]; intros init H; simpl; auto.
  apply IH. now apply NoDup_peers_step.
Qed.

(* a member that was not there at the start was added by an entry of the log *)
Lemma member_was_added p lg : forall init, memN p (peers_of init lg) = true -> memN p init = false -> In (EAdd p) lg.
Proof.
  unfold peers_of. induction lg as [|e r IH]; intros init H Hn; simpl in *.
  - congruence.
  - destruct (memN p (peers_step init e)) eqn:E.
    + destruct e as [op|q|q].
      * simpl in E. congruence.
      * rewrite memN_step_add in E. rewrite Hn in E. simpl in E. apply N.eqb_eq in E. subst. now left.
      * rewrite memN_step_rm in E. rewrite Hn in E. discriminate.
    + right. eapply IH; eauto.
Qed.

(* ---- one attempt ---- *)
Definition att_spec (init : list N) (p : N) (want : bool) (lg lg' : list mentry) (err : bool) : Prop :=
  (exists suf, lg' = lg ++ suf) /\
  (forall q, q <> p -> memN q (peers_of init lg') = memN q (peers_of init lg)) /\
  (err = false -> memN p (peers_of init lg') = want).

Lemma attempt_add_spec init lg p o :
  att_spec init p true lg (fst (attempt_add init lg p o)) (snd (attempt_add init lg p o)).
Proof.
  unfold attempt_add, att_spec. destruct (memN p (peers_of init lg)) eqn:E; simpl.
  - split; [exists []; now rewrite app_nil_r|]. split; auto.
  - assert (Hq : forall q, q <> p -> memN q (peers_of init (lg ++ [EAdd p])) = memN q (peers_of init lg)).
    { intros q Hq. rewrite peers_of_snoc, memN_step_add. destruct (N.eqb_spec q p); [contradiction|]. apply orb_false_r. }
    assert (Hp : memN p (peers_of init (lg ++ [EAdd p])) = true).
    { rewrite peers_of_snoc, memN_step_add, N.eqb_refl. apply orb_true_r. }
    destruct o; simpl.
    + split; [now exists [EAdd p]|]. split; auto.
    + split; [now exists [EAdd p]|]. split; auto; try discriminate.
    + split; [exists []; now rewrite app_nil_r|]. split; auto; try discriminate.
Qed.

Lemma attempt_rm_spec init lg p o :
  att_spec init p false lg (fst (attempt_rm init lg p o)) (snd (attempt_rm init lg p o)).
Proof.
  unfold attempt_rm, att_spec. destruct (memN p (peers_of init lg)) eqn:E; simpl.
  - assert (Hq : forall q, q <> p -> memN q (peers_of init (lg ++ [ERm p])) = memN q (peers_of init lg)).
    { intros q Hq. rewrite peers_of_snoc, memN_step_rm. destruct (N.eqb_spec q p); [contradiction|]. apply andb_true_r. }
    assert (Hp : memN p (peers_of init (lg ++ [ERm p])) = false).
    { rewrite peers_of_snoc, memN_step_rm, N.eqb_refl. apply andb_false_r. }
    destruct (Nat.eqb (length (peers_of init lg)) 1 && match peers_of init lg with q :: _ => q =? p | [] => false end); simpl.
    + split; [exists []; now rewrite app_nil_r|]. split; auto; try discriminate.
    + destruct o; simpl.
      * split; [now exists [ERm p]|]. split; auto.
      * split; [now exists [ERm p]|]. split; auto; try discriminate.
      * split; [exists []; now rewrite app_nil_r|]. split; auto; try discriminate.
  - split; [exists []; now rewrite app_nil_r|]. split; auto.
Qed.

(* ---- the retry loop ---- *)
Lemma retry_spec init p want att :
  (forall lg o, att_spec init p want lg (fst (att lg o)) (snd (att lg o))) ->
  forall os lg, att_spec init p want lg (fst (retry att lg os)) (snd (retry att lg os)).
Proof.
  intros Hatt. induction os as [|o r IH]; intros lg; simpl.
  - split; [exists []; now rewrite app_nil_r|]. split; auto; try discriminate.
  - pose proof (Hatt lg o) as [[suf Hs] [Hq Hp]]. destruct (att lg o) as [lg' err] eqn:Ea. simpl in *.
    destruct err.
    + destruct r as [|o' r'].
      * simpl. split; [now exists suf|]. split; auto.
      * pose proof (IH lg') as [[suf' Hs'] [Hq' Hp']].
        split; [exists (suf ++ suf'); rewrite Hs', Hs; now rewrite app_assoc|].
        split; auto. intros q Hne. rewrite Hq' by auto. now apply Hq.
    + simpl. split; [now exists suf|]. split; auto.
Qed.

Lemma cons_add_spec init lg p os :
  att_spec init p true lg (fst (cons_add init lg p os)) (snd (cons_add init lg p os)).
Proof. unfold cons_add. apply retry_spec. intros l o. apply attempt_add_spec. Qed.

Lemma cons_rm_spec init lg p os :
  att_spec init p false lg (fst (cons_rm init lg p os)) (snd (cons_rm init lg p os)).
Proof. unfold cons_rm. apply retry_spec. intros l o. apply attempt_rm_spec. Qed.

Lemma add_present_noop_l init lg p o os : memN p (peers_of init lg) = true -> cons_add init lg p (o :: os) = (lg, false).
Proof. intros H. unfold cons_add. simpl. unfold attempt_add. now rewrite H. Qed.

Lemma rm_absent_noop_l init lg p o os : memN p (peers_of init lg) = false -> cons_rm init lg p (o :: os) = (lg, false).
Proof. intros H. unfold cons_rm. simpl. unfold attempt_rm. now rewrite H. Qed.

Lemma last_peer_not_removable_l init lg p os : peers_of init lg = [p] -> os <> [] -> cons_rm init lg p os = (lg, true).
Proof.
  intros H. unfold cons_rm. induction os as [|o r IH]; intros Hne; [congruence|].
  simpl. unfold attempt_rm at 1. rewrite H. simpl. rewrite N.eqb_refl. simpl.
  destruct r as [|o' r']; auto. apply IH. discriminate.
Qed.

(* ---- agreement ---- *)
Lemma in_firstn_skipn {A} (x : A) k i l : In x (firstn k (skipn i l)) -> In x (skipn i l).
Proof. apply in_firstn. Qed.

Lemma peers_stable init lg i a :
  (forall e, In e (skipn i lg) -> is_member_entry e = false) -> (i <= a)%nat ->
  peers_of init (firstn a lg) = peers_of init (firstn i lg).
Proof.
  intros H Hle. replace a with (i + (a - i))%nat by lia. rewrite firstn_plus, peers_of_app.
  apply peers_of_ops. intros e Hin. apply H. eapply in_firstn; eauto.
Qed.

Lemma members_agree_l init lg i a b :
  (forall e, In e (skipn i lg) -> is_member_entry e = false) -> (i <= a)%nat -> (i <= b)%nat ->
  peers_of init (firstn a lg) = peers_of init (firstn b lg).
Proof. intros H Ha Hb. rewrite (peers_stable init lg i a H Ha), (peers_stable init lg i b H Hb). reflexivity. Qed.

(* ---- members: received <= log, applied <= received, pinset = replay of the applied prefix ---- *)
Definition member_ok (lg : list mentry) (m : member) : Prop :=
  (m_applied m <= m_queued m)%nat /\ (m_queued m <= m_recv m)%nat /\ (m_recv m <= length lg)%nat /\ m_st m = state_at lg (m_applied m).

Lemma state_at_app lg x j : (j <= length lg)%nat -> state_at (lg ++ [x]) j = state_at lg j.
Proof. intros H. unfold state_at. now rewrite firstn_app_le. Qed.

Lemma ops_of_app a b : ops_of (a ++ b) = ops_of a ++ ops_of b.
Proof. unfold ops_of. apply flat_map_app. Qed.

Lemma state_at_step lg j x : nth_error lg j = Some x -> state_at lg (S j) = entry_apply (state_at lg j) x.
Proof.
  intros H. unfold state_at. rewrite (firstn_snoc_nth lg j x H), ops_of_app. destruct x as [op|p|p]; simpl.
  - now rewrite replay_app.
  - now rewrite app_nil_r.
  - now rewrite app_nil_r.
Qed.

Lemma Forall_mupd (P : member -> Prop) f n l : Forall P l -> (forall x, P x -> P (f x)) -> Forall P (mupd n f l).
Proof.
  revert n. induction l as [|y r IH]; intros n HF Hf; destruct n as [|n]; simpl; auto.
  - inversion HF; subst. constructor; auto.
  - inversion HF; subst. constructor; auto.
Qed.

Lemma cstep_ok cl e : Forall (member_ok (mlog cl)) (members cl) -> Forall (member_ok (mlog (cstep cl e))) (members (cstep cl e)).
Proof.
  intros H. destruct e as [x|n|n|n|n j|n]; simpl.
  - eapply Forall_impl; [|exact H]. intros m [G0 [G1 [G2 G3]]]. repeat split; auto.
    + rewrite app_length. simpl. lia.
    + rewrite state_at_app by lia. exact G3.
  - apply Forall_mupd; auto. intros m [G0 [G1 [G2 G3]]].
    destruct (Nat.ltb_spec (m_recv m) (length (mlog cl))); repeat split; simpl; auto; lia.
  - apply Forall_mupd; auto. intros m [G0 [G1 [G2 G3]]].
    destruct (Nat.ltb_spec (m_queued m) (m_recv m)); repeat split; simpl; auto; lia.
  - apply Forall_mupd; auto. intros m [G0 [G1 [G2 G3]]].
    destruct (Nat.ltb_spec (m_applied m) (m_queued m)); [|repeat split; auto].
    destruct (nth_error (mlog cl) (m_applied m)) as [x|] eqn:E; [|repeat split; auto].
    repeat split; simpl; auto; try lia. rewrite G3. symmetry. now apply state_at_step.
  - destruct (Nat.leb_spec j (length (mlog cl))); auto. simpl.
    apply Forall_mupd; auto. intros m [G0 [G1 [G2 G3]]]. repeat split; simpl; auto; lia.
  - apply Forall_mupd; auto. intros m [G0 [G1 [G2 G3]]]. repeat split; simpl; auto; lia.
Qed.

Lemma crun_ok es : forall cl, Forall (member_ok (mlog cl)) (members cl) -> Forall (member_ok (mlog (crun cl es))) (members (crun cl es)).
Proof. unfold crun. induction es as [|e r IH]; intros cl H; simpl; auto. apply IH. now apply cstep_ok. Qed.

Lemma cinit_ok k : Forall (member_ok (mlog (cinit k))) (members (cinit k)).
Proof. simpl. induction k; simpl; constructor; auto. repeat split; simpl; auto. Qed.

Lemma nth_error_In_index {A} (x : A) l : In x l -> exists i, nth_error l i = Some x.
Proof. apply In_nth_error. Qed.

Lemma nth_error_firstn {A} (l : list A) k i x : nth_error (firstn k l) i = Some x -> (i < k)%nat /\ nth_error l i = Some x.
Proof.
  revert k i. induction l as [|y r IH]; intros k i H; destruct k; destruct i; simpl in *; try discriminate.
  - split; [lia|assumption].
  - apply IH in H. destruct H. split; [lia|assumption].
Qed.

Lemma joiner_ready_l init k es n m p :
  nth_error (members (crun (cinit k) es)) n = Some m ->
  memN p init = false -> ready init (crun (cinit k) es) p m = true -> m_applied m = m_queued m ->
  m_st m = state_at (mlog (crun (cinit k) es)) (m_applied m) /\
  exists ia, (ia < m_applied m)%nat /\ nth_error (mlog (crun (cinit k) es)) ia = Some (EAdd p).
Proof.
  intros Hn Hi Hr Hq. pose proof (crun_ok es (cinit k) (cinit_ok k)) as HF.
  rewrite Forall_forall in HF. destruct (HF m (nth_error_In _ _ Hn)) as [H0 [H1 [H2 H3]]].
  split; auto. unfold ready in Hr. apply andb_true_iff in Hr. destruct Hr as [Hm Ha]. apply Nat.eqb_eq in Ha.
  unfold report in Hm. apply member_was_added in Hm; auto.
  destruct (In_nth_error _ _ Hm) as [ia Hia]. apply nth_error_firstn in Hia. destruct Hia as [Hlt Hnth].
  exists ia. split; [lia|assumption].
Qed.

(* S25: ready although the FSM has applied nothing of what was queued *)
(* whatever the schedule (no assumption on how the cluster got here): a member that is ready as peer p, p no initial member,
   has the add entry of p within the prefix of the log it has RECEIVED *)
Lemma ready_needs_own_add_entry_l init cl p m :
  memN p init = false -> ready init cl p m = true ->
  exists ia, (ia < m_recv m)%nat /\ nth_error (mlog cl) ia = Some (EAdd p).
Proof.
  intros Hi Hr. unfold ready in Hr. apply andb_true_iff in Hr. destruct Hr as [Hm _].
  unfold report in Hm. apply member_was_added in Hm; auto.
  destruct (In_nth_error _ _ Hm) as [ia Hia]. apply nth_error_firstn in Hia. destruct Hia as [Hlt Hnth].
  exists ia. split; assumption.
Qed.
(* hence a joiner that has received fewer entries than the index of its add entry is not ready, whatever it has applied *)
Lemma lagging_joiner_not_ready_l init cl p m ia :
  memN p init = false -> nth_error (mlog cl) ia = Some (EAdd p) ->
  (forall ib, nth_error (mlog cl) ib = Some (EAdd p) -> ib = ia) -> (m_recv m <= ia)%nat -> ready init cl p m = false.
Proof.
  intros Hi Ha Hu Hl. destruct (ready init cl p m) eqn:R; auto.
  destruct (ready_needs_own_add_entry_l init cl p m Hi R) as [ib [Hlt Hb]]. specialize (Hu ib Hb). lia.
Qed.

Definition early_ready : list cevent :=
  [CAppend (EOp (LPin (wpin 0 1))); CAppend (EAdd 1); CRecv 1; CRecv 1; CQueue 1; CQueue 1].
Lemma joiner_ready_refuted_l :
  exists init k es n p, memN p init = false /\
    let cl := crun (cinit k) es in
    ready init cl p (mget n cl) = true /\ m_st (mget n cl) = [] /\ state_at (mlog cl) (m_recv (mget n cl)) <> [].
Proof.
  exists [0], 2%nat, early_ready, 1%nat, 1. split; [reflexivity|]. simpl.
  split; [reflexivity|]. split; [reflexivity|]. intros E. vm_compute in E. discriminate.
Qed.

(* every member that has received the whole log reports the configuration of the whole log *)
Lemma report_full init cl m : (length (mlog cl) <= m_recv m)%nat -> report init cl m = peers_of init (mlog cl).
Proof. intros H. unfold report. now rewrite firstn_all2. Qed.

(* ---- witnesses (non-vacuity) ---- *)
Lemma demo_add_rm :
  let '(lg1, e1) := cons_add [0; 1] [] 2 [LostAfter; Done] in
  let '(lg2, e2) := cons_rm [0; 1] lg1 0 [Done] in
  let '(lg3, e3) := cons_rm [0] [] 0 [Done; Done] in
  lg1 = [EAdd 2] /\ e1 = false /\ peers_of [0; 1] lg2 = [1; 2] /\ e2 = false /\ lg3 = [] /\ e3 = true.
Proof. vm_compute. repeat split; reflexivity. Qed.

Definition demo_join : list cevent :=
  [CAppend (EOp (LPin (wpin 0 1))); CRecv 0; CQueue 0; CApply 0; CAppend (EAdd 1); CRecv 0; CQueue 0; CApply 0;
   CInstall 1 1; CRecv 1; CQueue 1; CApply 1].
Lemma demo_join_ready :
  let cl := crun (cinit 2) demo_join in
  ready [0] cl 1 (mget 1 cl) = true /\ m_applied (mget 1 cl) = m_queued (mget 1 cl) /\ map fst (m_st (mget 1 cl)) = [0] /\
  report [0] cl (mget 0 cl) = report [0] cl (mget 1 cl).
Proof. vm_compute. repeat split; reflexivity. Qed.
