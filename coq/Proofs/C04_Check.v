(* C04 — soundness of the boolean form used on the implementation's observations (Model/C04_Check.v):
   what `spec_okb ... = true` means as a proposition, for the "refused => unchanged" and "follower => refused" clauses,
   and what the canonical comparisons pin_eqb / st_eqb identify. *)
From V Require Import Base.Common Base.CommonLemmas Model.C03_Alloc Model.C03_Check Model.C04_ClusterOps Model.C04_Check Proofs.C04_ClusterOps.
From Coq Require Import Permutation.
Open Scope Z_scope.

(* two pins the comparison identifies: same fields, allocations up to order, metadata as a map *)
Record pin_equiv (a b : pin) : Prop := {
  pe_cid : p_cid a = p_cid b; pe_ty : p_ty a = p_ty b; pe_depth : p_depth a = p_depth b; pe_ref : p_ref a = p_ref b;
  pe_allocs : Permutation (p_allocs a) (p_allocs b);
  pe_factors : o_rmin (p_opts a) = o_rmin (p_opts b) /\ o_rmax (p_opts a) = o_rmax (p_opts b);
  pe_name : o_name (p_opts a) = o_name (p_opts b); pe_mode : o_mode (p_opts a) = o_mode (p_opts b);
  pe_shard : o_shard (p_opts a) = o_shard (p_opts b); pe_ualloc : o_ualloc (p_opts a) = o_ualloc (p_opts b);
  pe_expire : o_expire (p_opts a) = o_expire (p_opts b);
  pe_meta : forall k, aget k (o_meta (p_opts a)) = aget k (o_meta (p_opts b));
  pe_update : o_update (p_opts a) = o_update (p_opts b); pe_origins : o_origins (p_opts a) = o_origins (p_opts b) }.

Lemma meta_eqb_sound a b : meta_eqb a b = true -> forall k, aget k a = aget k b.
Proof. unfold meta_eqb, meta_sub. rewrite andb_true_iff, !forallb_forall. intros [H1 H2] k.
  destruct (aget k a) as [v|] eqn:A.
  - apply aget_in in A. apply H1 in A. simpl in A. apply optN_eqb_eq in A. now rewrite A.
  - destruct (aget k b) as [v|] eqn:B; auto. apply aget_in in B. apply H2 in B. simpl in B. rewrite A in B. discriminate. Qed.

Lemma perm_eqb_sound a b : perm_eqb a b = true -> Permutation a b.
Proof. unfold perm_eqb. intros H. apply list_eqb_N_eq in H. rewrite <- (sortN_perm a), <- (sortN_perm b), H. reflexivity. Qed.

Lemma pin_eqb_sound a b : pin_eqb a b = true -> pin_equiv a b.
Proof. unfold pin_eqb, opts_eqb. rewrite !andb_true_iff.
  intros [[[[[[[[[[[[[[H1 H2] H3] H4] H5] H6] H7] H8] H9] H10] C] T] A] D] R].
  constructor.
  - now apply N.eqb_eq. - now apply ptype_eqb_eq. - now apply Z.eqb_eq. - now apply optN_eqb_eq.
  - now apply perm_eqb_sound.
  - split; now apply Z.eqb_eq.
  - now apply N.eqb_eq. - now apply N.eqb_eq. - now apply N.eqb_eq. - now apply list_eqb_N_eq.
  - now apply expire_eqb_eq. - now apply meta_eqb_sound. - now apply optN_eqb_eq. - now apply list_eqb_N_eq. Qed.

(* two pinsets the comparison identifies: the same keys, equivalent entries *)
Definition st_equiv (st st' : pinset) : Prop :=
  forall h, match aget h st, aget h st' with
            | Some p, Some q => pin_equiv p q
            | None, None => True
            | _, _ => False end.

Lemma st_eqb_sound st st' : st_eqb st st' = true -> st_equiv st st'.
Proof. unfold st_eqb, same_except. rewrite !andb_true_iff, !forallb_forall. intros [[[H1 H2] _] _] h.
  destruct (aget h st) as [p|] eqn:A.
  - pose proof (aget_in _ _ _ A) as Hin. apply H1 in Hin. simpl in Hin. rewrite A in Hin.
    destruct (aget h st') as [q|]; [now apply pin_eqb_sound|discriminate].
  - destruct (aget h st') as [q|] eqn:B; auto. apply aget_in in B. apply H2 in B. simpl in B. rewrite A in B. discriminate. Qed.

(* what the monitor accepts: a refused call left the pinset as it was; a follower refused the call *)
Theorem spec_okb_refused_sound_l c e st k x st' : spec_okb c e st k (OErr x) st' = true -> st_equiv st st'.
Proof. unfold spec_okb. rewrite !andb_true_iff. intros [[_ H] _]. now apply st_eqb_sound. Qed.

Theorem spec_okb_follower_sound_l c e st k q st' : spec_okb c e st k (OOk q) st' = true -> follower c = false.
Proof. unfold spec_okb. rewrite !andb_true_iff. intros [[_ H] _]. now apply negb_true_iff in H. Qed.

Theorem spec_okb_one_entry_l c e st k r st' : spec_okb c e st k r st' = true -> NoDup (akeys st').
Proof. unfold spec_okb. rewrite !andb_true_iff. intros [[H _] _]. now apply nodupb_NoDup. Qed.

