(* C04 — the run-time monitor spec_okb of Model/C04_Check.v (code 2: the property judged on what the implementation returned
   and on the pinset it left), tied to the model and to Prop-level statements, for every configuration, environment, map
   order, reachable pinset and call (no bound):
   (1) completeness: what the model answers to a call passes the monitor, at every point of every history;
   (2) soundness of the clauses not covered by Proofs/C04_Check.v: what an accepted observation means for pin, unpin, update. *)
From V Require Import Base.Common Base.CommonLemmas Model.C03_Alloc Model.C03_Check Proofs.C03_Alloc Proofs.C03_Monitor.
From V Require Import Model.C04_ClusterOps Model.C04_Check Proofs.C04_ClusterOps Proofs.C04_Check.
From Coq Require Import Permutation.
Open Scope Z_scope.

Definition obsres_of (r : result) : obsres := match r with ROk p => OOk p | RErr x => OErr x end.

(* ---------- input invariants (what the harness guarantees) ---------- *)
(* metadata is a Go map: one value per key *)
Definition meta_nodup (o : opts) : Prop := NoDup (map fst (o_meta o)).
(* a stored pin: metadata a map, allocations a set of peers *)
Definition stored_wf (p : pin) : Prop := meta_nodup (p_opts p) /\ NoDup (p_allocs p).
Definition inv2 (st : pinset) : Prop := inv st /\ forall k p, aget k st = Some p -> stored_wf p.
Definition call_wf (k : call) : Prop :=
  match k with
  | CPin _ o | CPinPath _ o => meta_nodup o
  | CRpcPin p => meta_nodup (p_opts p) /\ NoDup (p_allocs p)
  | _ => True
  end.
Definition order_oracle (ord : list N -> list N) : Prop := forall xs, Permutation (ord xs) xs.
Definition one_metric_per_peer (e : env) : Prop := NoDup (map mpeer (e_metrics e)).

(* ---------- reflexivity of the canonical comparisons ---------- *)
Lemma aget_of_in {V} k (v : V) m : NoDup (map fst m) -> In (k, v) m -> aget k m = Some v.
Proof. induction m as [|[k' v'] r IH]; intros ND Hin; [destruct Hin|]. cbn [map fst] in ND. inversion ND as [|? ? Hn Hr]; subst.
  cbn [aget]. destruct (N.eqb_spec k k') as [->|Hne].
  - destruct Hin as [E|Hin]; [now inversion E|]. exfalso. apply Hn. now apply (in_map fst) in Hin.
  - destruct Hin as [E|Hin]; [inversion E; congruence|]. now apply IH. Qed.
Lemma in_aget_some {V} k (v : V) m : In (k, v) m -> exists v', aget k m = Some v'.
Proof. induction m as [|[k' v'] r IH]; intros Hin; [destruct Hin|]. cbn [aget]. destruct (N.eqb_spec k k'); [eauto|].
  destruct Hin as [E|Hin]; [inversion E; congruence|]. now apply IH. Qed.

Lemma optN_eqb_refl a : optN_eqb a a = true. Proof. now apply optN_eqb_eq. Qed.
Lemma expire_eqb_refl a : expire_eqb a a = true. Proof. now apply expire_eqb_eq. Qed.
Lemma ptype_eqb_refl a : ptype_eqb a a = true. Proof. now apply ptype_eqb_eq. Qed.
Lemma perm_eqb_refl a : perm_eqb a a = true. Proof. apply list_eqb_N_refl. Qed.
Lemma meta_sub_refl m : NoDup (map fst m) -> meta_sub m m = true.
Proof. intros ND. apply forallb_forall. intros [k v] Hin. cbn [fst snd]. rewrite (aget_of_in k v m ND Hin). apply optN_eqb_refl. Qed.
Lemma meta_eqb_refl m : NoDup (map fst m) -> meta_eqb m m = true.
Proof. intros ND. unfold meta_eqb. now rewrite meta_sub_refl. Qed.
Lemma opts_eqb_refl o : meta_nodup o -> opts_eqb o o = true.
Proof. intros ND. unfold opts_eqb. rewrite !Z.eqb_refl, !N.eqb_refl, !list_eqb_N_refl, expire_eqb_refl, optN_eqb_refl, meta_eqb_refl; auto. Qed.
Lemma pin_eqb_refl p : meta_nodup (p_opts p) -> pin_eqb p p = true.
Proof. intros ND. unfold pin_eqb. now rewrite opts_eqb_refl, N.eqb_refl, ptype_eqb_refl, perm_eqb_refl, Z.eqb_refl, optN_eqb_refl. Qed.
Lemma pb_norm_meta_nodup p : meta_nodup (p_opts p) -> meta_nodup (p_opts (pb_norm p)).
Proof. exact (fun H => H). Qed.

Lemma memN_true x l : memN x l = true <-> In x l. Proof. apply memN_in. Qed.

(* same_except from the Prop-level statement *)
Lemma same_except_intro ks st st' : (forall k p, aget k st = Some p -> meta_nodup (p_opts p)) ->
  (forall k, ~ In k ks -> aget k st' = aget k st) -> same_except ks st st' = true.
Proof. intros Hm Hs. unfold same_except. apply andb_true_iff. split; apply forallb_forall; intros [k p] Hin; cbn [fst].
  - destruct (memN k ks) eqn:M; [reflexivity|]. cbn [orb]. apply memN_false in M.
    destruct (in_aget_some k p st Hin) as [p' E]. rewrite (Hs k M), E. apply pin_eqb_refl. eapply Hm; eauto.
  - destruct (memN k ks) eqn:M; [reflexivity|]. cbn [orb]. apply memN_false in M.
    destruct (in_aget_some k p st' Hin) as [p' E]. rewrite <- (Hs k M), E. reflexivity. Qed.

Lemma st_eqb_refl st : inv2 st -> st_eqb st st = true.
Proof. intros [[ND _] Hw]. unfold st_eqb. rewrite same_except_intro; auto.
  - apply nodupb_NoDup in ND. now rewrite ND.
  - intros k p E. exact (proj1 (Hw k p E)). Qed.

(* ---------- the stronger invariant is kept by every call ---------- *)
Lemma with_defaults_meta c o : o_meta (with_defaults c o) = o_meta o. Proof. reflexivity. Qed.
Lemma with_defaults_ualloc c o : o_ualloc (with_defaults c o) = o_ualloc o. Proof. reflexivity. Qed.

Lemma setup_rf_allocs c p : p_allocs (setup_rf c p) = if everywhere (with_defaults c (p_opts p)) then [] else p_allocs p.
Proof. unfold setup_rf. cbn [p_opts set_opts]. destruct (everywhere (with_defaults c (p_opts p))); reflexivity. Qed.

(* the entry a successful pin_main leaves, by cases *)
Lemma pin_main_cases c e ord st p q st' : pin_main c e ord st p [] = (ROk q, st') ->
  let p1 := setup_rf c p in let existing := aget (p_cid p) st in
  (p_ty p = MetaT /\ q = p1) \/
  (p_ty p <> MetaT /\
   ((exists l, q = set_allocs l p1 /\
       (forall ex, existing = Some ex -> opts_equal (with_defaults c (p_opts p)) (p_opts ex) = false) /\
       ((p_allocs p1 <> [] /\ l = p_allocs p1) \/ (p_allocs p1 = [] /\ allocate (e_now e) (alloc_input c e p1 existing []) ord = Ok l))) \/
    (exists ex l, existing = Some ex /\ opts_equal (with_defaults c (p_opts p)) (p_opts ex) = true /\ q = set_allocs l ex /\
       ((p_allocs ex <> [] /\ l = p_allocs ex) \/ (p_allocs ex = [] /\ allocate (e_now e) (alloc_input c e ex existing []) ord = Ok l))))).
Proof. intros H. cbv zeta. unfold pin_main in H.
  destruct (negb (factors_valid _ _)); [discriminate|]. destruct (expire_past _ _); [discriminate|].
  destruct (setup_existing _ _); [discriminate|]. rewrite setup_rf_ty in H.
  destruct (ptype_eqb (p_ty p) MetaT) eqn:TM.
  - apply ptype_eqb_eq in TM. left. split; auto. now inversion H.
  - apply ptype_eqb_neq in TM. right. split; auto. rewrite setup_rf_opts in H.
    assert (Hset : forall x : pin, set_allocs (p_allocs x) x = x) by (intros []; reflexivity).
    destruct (aget (p_cid p) st) as [ex|] eqn:Ex.
    + destruct (opts_equal (with_defaults c (p_opts p)) (p_opts ex)) eqn:OE; cbn [andb] in H.
      * right. exists ex. destruct (p_allocs ex) as [|a r] eqn:PA.
        -- destruct (allocate _ _ _) as [l| |] eqn:AL; try discriminate. inversion H; subst. exists l. repeat split; auto.
        -- inversion H; subst. exists (a :: r). repeat split; auto; [now rewrite <- PA, Hset|left; split; [discriminate|reflexivity]].
      * left. destruct (p_allocs (setup_rf c p)) as [|a r] eqn:PA.
        -- destruct (allocate _ _ _) as [l| |] eqn:AL; try discriminate. inversion H; subst. exists l. repeat split; auto.
           intros ex0 E0. inversion E0; subst. exact OE.
        -- inversion H; subst. exists (a :: r). repeat split; auto; [now rewrite <- PA, Hset|intros ex0 E0; inversion E0; subst; exact OE|left; split; [discriminate|reflexivity]].
    + left. destruct (p_allocs (setup_rf c p)) as [|a r] eqn:PA.
      * destruct (allocate _ _ _) as [l| |] eqn:AL; try discriminate. inversion H; subst. exists l. repeat split; auto. intros ex0 E0. discriminate.
      * inversion H; subst. exists (a :: r). repeat split; auto; [now rewrite <- PA, Hset|intros ex0 E0; discriminate|left; split; [discriminate|reflexivity]]. Qed.

Lemma stored_wf_norm q : stored_wf q -> stored_wf (pb_norm q).
Proof. exact (fun H => H). Qed.

Lemma inv2_log_pin st q : inv2 st -> factors_valid (o_rmin (p_opts q)) (o_rmax (p_opts q)) = true -> stored_wf q -> inv2 (log_pin st q).
Proof. intros [I W] FV Wq. split; [now apply inv_log_pin|]. intros k p E.
  destruct (N.eq_dec k (p_cid q)) as [->|Hn].
  - rewrite log_pin_same in E. inversion E; subst. now apply stored_wf_norm.
  - rewrite log_pin_other in E by assumption. eauto. Qed.

Lemma aget_adel_some {V} k h (m : list (N * V)) v : aget k (adel h m) = Some v -> aget k m = Some v.
Proof. destruct (N.eq_dec k h) as [->|Hn]; [now rewrite aget_adel_same|now rewrite aget_adel_other]. Qed.
Lemma aget_fold_unpin_some cs : forall st k (p : pin), aget k (fold_left log_unpin cs st) = Some p -> aget k st = Some p.
Proof. induction cs as [|c r IH]; intros st k p E; [exact E|]. cbn [fold_left] in E. apply IH in E. now apply aget_adel_some in E. Qed.

Lemma stored_wf_pin_main c e ord st p q st' : inv2 st -> order_oracle ord -> one_metric_per_peer e ->
  meta_nodup (p_opts p) -> NoDup (p_allocs p) -> pin_main c e ord st p [] = (ROk q, st') -> stored_wf q.
Proof. intros [I W] Ho Hm Mp Ap H. pose proof (pin_main_cases c e ord st p q st' H) as C. cbv zeta in C.
  assert (A1 : NoDup (p_allocs (setup_rf c p))) by (rewrite setup_rf_allocs; destruct (everywhere _); [constructor|exact Ap]).
  assert (M1 : meta_nodup (p_opts (setup_rf c p))) by (rewrite setup_rf_opts; exact Mp).
  assert (Hcur : NoDup (match aget (p_cid p) st with Some ex => p_allocs ex | None => [] end)).
  { destruct (aget (p_cid p) st) as [ex|] eqn:E; [exact (proj2 (W _ _ E))|constructor]. }
  destruct C as [[_ ->]|[_ [[l [-> [_ Hl]]]|[ex [l [Ex [_ [-> Hl]]]]]]]].
  - split; auto.
  - split; [exact M1|]. cbn [p_allocs set_allocs]. destruct Hl as [[_ ->]|[_ AL]]; [exact A1|].
    exact (alloc_nodup_l (e_now e) (alloc_input c e (setup_rf c p) (aget (p_cid p) st) []) ord Ho Hm l Hcur AL).
  - destruct (W _ _ Ex) as [Me Ae]. split; [exact Me|]. cbn [p_allocs set_allocs]. destruct Hl as [[_ ->]|[_ AL]]; [exact Ae|].
    refine (alloc_nodup_l (e_now e) (alloc_input c e ex (aget (p_cid p) st) []) ord Ho Hm l _ AL).
    cbn [alloc_input current]. exact Hcur. Qed.

Lemma stored_wf_updated now ex f t o : stored_wf ex -> stored_wf (updated_pin now ex f t o).
Proof. intros [M A]. split; [|exact A]. unfold meta_nodup, updated_pin, update_opts. cbn [p_opts].
  destruct (o_name o =? 0)%N; destruct (o_expire o) as [x|]; try destruct (t_after x now); exact M. Qed.

Lemma inv2_pin_update c e st f t o : inv2 st -> inv2 (snd (pin_update_op c e st f t o)).
Proof. intros I2. pose proof (inv_pin_update c e st f t o (proj1 I2)) as I'.
  destruct (pin_update_op c e st f t o) as [[q|x] st'] eqn:E; cbn [snd] in *.
  - split; auto. destruct (pin_update_ok _ _ _ _ _ _ _ _ E) as [_ [ex [G [_ [-> ->]]]]]. intros k p Ek.
    destruct (N.eq_dec k t) as [->|Hn].
    + change t with (p_cid (updated_pin (e_now e) ex f t o)) in Ek at 1. rewrite log_pin_same in Ek. inversion Ek; subst.
      apply stored_wf_norm, stored_wf_updated. exact (proj2 I2 _ _ G).
    + rewrite log_pin_other in Ek by exact Hn. exact (proj2 I2 _ _ Ek).
  - apply pin_update_err in E. now subst. Qed.

Lemma inv2_pin_core c e ord st p : inv2 st -> order_oracle ord -> one_metric_per_peer e ->
  meta_nodup (p_opts p) -> NoDup (p_allocs p) -> inv2 (snd (pin_core c e ord st p [])).
Proof. intros I2 Ho Hm Mp Ap. unfold pin_core. destruct (follower c); [exact I2|].
  assert (Hmain : inv2 (snd (pin_main c e ord st p []))).
  { pose proof (inv_pin_main c e ord st p [] (proj1 I2)) as I'.
    destruct (pin_main c e ord st p []) as [[q|x] st'] eqn:E; cbn [snd] in *.
    - split; auto. pose proof (stored_wf_pin_main c e ord st p q st' I2 Ho Hm Mp Ap E) as Wq.
      destruct (pin_main_ok _ _ _ _ _ _ _ _ E) as [-> _]. intros k r Ek.
      destruct (N.eq_dec k (p_cid q)) as [->|Hn].
      + rewrite log_pin_same in Ek. inversion Ek; subst. now apply stored_wf_norm.
      + rewrite log_pin_other in Ek by exact Hn. exact (proj2 I2 _ _ Ek).
    - apply pin_main_err in E. now subst. }
  destruct (o_update (p_opts p)) as [u|]; [|exact Hmain].
  destruct (negb (u =? p_cid p)%N); [apply inv2_pin_update; exact I2|exact Hmain]. Qed.

Lemma inv2_unpin c e st h : inv2 st -> inv2 (snd (unpin_op c e st h)).
Proof. intros I2. split; [apply inv_unpin; exact (proj1 I2)|]. intros k p E. apply (proj2 I2 k). revert E. unfold unpin_op.
  destruct (follower c); [auto|]. destruct (aget h st) as [q|]; [|auto].
  destruct (p_ty q); cbn [snd]; auto.
  - unfold log_unpin. apply aget_adel_some.
  - destruct (cids_from_meta e st h q) as [cs|]; cbn [snd]; auto. unfold log_unpin at 1. intros E.
    apply aget_adel_some in E. now apply aget_fold_unpin_some in E. Qed.

Theorem inv2_step c e ord st k : inv2 st -> call_wf k -> order_oracle ord -> one_metric_per_peer e ->
  inv2 (snd (step c e ord st k)).
Proof. intros I2 Wk Ho Hm. destruct k as [h o|pa o|f t o|h|pa|p]; cbn [step call_wf] in *.
  - apply inv2_pin_core; auto. constructor.
  - destruct (aget pa (e_resolve e)); [|exact I2]. apply inv2_pin_core; auto. constructor.
  - now apply inv2_pin_update.
  - now apply inv2_unpin.
  - destruct (aget pa (e_resolve e)); [|exact I2]. now apply inv2_unpin.
  - destruct Wk. now apply inv2_pin_core. Qed.

Lemma inv2_empty : inv2 [].
Proof. split; [apply inv_empty|]. intros k p E. discriminate. Qed.
