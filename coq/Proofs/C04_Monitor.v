(* C04 — the run-time monitor spec_okb of Model/C04_Check.v (code 2: the property judged on what the implementation returned
   and on the pinset it left), tied to the model and to Prop-level statements, for every configuration, environment, map
   order, reachable pinset and call (no bound):
   (1) completeness: what the model answers to a call passes the monitor, at every point of every history;
   (2) soundness of the clauses not covered by Proofs/C04_Check.v: what an accepted observation means for pin, unpin, update. *)
From V Require Import Base.Common Base.CommonLemmas Model.C03_Alloc Model.C03_Check Proofs.C03_Alloc Proofs.C03_Monitor.
From V Require Import Model.C04_ClusterOps Model.C04_Check Proofs.C04_ClusterOps Proofs.C04_Check.
From Coq Require Import Permutation.
Open Scope Z_scope.

Definition obsres_of (r : result) : obsres := match r with ROk p => OOk p | RErr x => OErr x end.

(* ---------- input invariants (what the harness guarantees) ---------- *)
(* metadata is a Go map: one value per key *)
Definition meta_nodup (o : opts) : Prop := NoDup (map fst (o_meta o)).
(* a stored pin: metadata a map, allocations a set of peers *)
Definition stored_wf (p : pin) : Prop := meta_nodup (p_opts p) /\ NoDup (p_allocs p).
Definition inv2 (st : pinset) : Prop := inv st /\ forall k p, aget k st = Some p -> stored_wf p.
Definition call_wf (k : call) : Prop :=
  match k with
  | CPin _ o | CPinPath _ o => meta_nodup o
  | CRpcPin p => meta_nodup (p_opts p) /\ NoDup (p_allocs p)
  | _ => True
  end.
Definition order_oracle (ord : list N -> list N) : Prop := forall xs, Permutation (ord xs) xs.
Definition one_metric_per_peer (e : env) : Prop := NoDup (map mpeer (e_metrics e)).

(* ---------- reflexivity of the canonical comparisons ---------- *)
Lemma aget_of_in {V} k (v : V) m : NoDup (map fst m) -> In (k, v) m -> aget k m = Some v.
Proof. induction m as [|[k' v'] r IH]; intros ND Hin; [destruct Hin|]. cbn [map fst] in ND. inversion ND as [|? ? Hn Hr]; subst.
  cbn [aget]. destruct (N.eqb_spec k k') as [->|Hne].
  - destruct Hin as [E|Hin]; [now inversion E|]. exfalso. apply Hn. now apply (in_map fst) in Hin.
  - destruct Hin as [E|Hin]; [inversion E; congruence|]. now apply IH. Qed.
Lemma in_aget_some {V} k (v : V) m : In (k, v) m -> exists v', aget k m = Some v'.
Proof. induction m as [|[k' v'] r IH]; intros Hin; [destruct Hin|]. cbn [aget]. destruct (N.eqb_spec k k'); [eauto|].
  destruct Hin as [E|Hin]; [inversion E; congruence|]. now apply IH. Qed.

Lemma optN_eqb_refl a : optN_eqb a a = true. Proof. now apply optN_eqb_eq. Qed.
Lemma expire_eqb_refl a : expire_eqb a a = true. Proof. now apply expire_eqb_eq. Qed.
Lemma ptype_eqb_refl a : ptype_eqb a a = true. Proof. now apply ptype_eqb_eq. Qed.
Lemma perm_eqb_refl a : perm_eqb a a = true. Proof. apply list_eqb_N_refl. Qed.
Lemma meta_sub_refl m : NoDup (map fst m) -> meta_sub m m = true.
Proof. intros ND. apply forallb_forall. intros [k v] Hin. cbn [fst snd]. rewrite (aget_of_in k v m ND Hin). apply optN_eqb_refl. Qed.
Lemma meta_eqb_refl m : NoDup (map fst m) -> meta_eqb m m = true.
Proof. intros ND. unfold meta_eqb. now rewrite meta_sub_refl. Qed.
Lemma opts_eqb_refl o : meta_nodup o -> opts_eqb o o = true.
Proof. intros ND. unfold opts_eqb. rewrite !Z.eqb_refl, !N.eqb_refl, !list_eqb_N_refl, expire_eqb_refl, optN_eqb_refl, meta_eqb_refl; auto. Qed.
Lemma pin_eqb_refl p : meta_nodup (p_opts p) -> pin_eqb p p = true.
Proof. intros ND. unfold pin_eqb. now rewrite opts_eqb_refl, N.eqb_refl, ptype_eqb_refl, perm_eqb_refl, Z.eqb_refl, optN_eqb_refl. Qed.
Lemma pb_norm_meta_nodup p : meta_nodup (p_opts p) -> meta_nodup (p_opts (pb_norm p)).
Proof. exact (fun H => H). Qed.

Lemma memN_true x l : memN x l = true <-> In x l. Proof. apply memN_in. Qed.

(* same_except from the Prop-level statement *)
Lemma same_except_intro ks st st' : (forall k p, aget k st = Some p -> meta_nodup (p_opts p)) ->
  (forall k, ~ In k ks -> aget k st' = aget k st) -> same_except ks st st' = true.
Proof. intros Hm Hs. unfold same_except. apply andb_true_iff. split; apply forallb_forall; intros [k p] Hin; cbn [fst].
  - destruct (memN k ks) eqn:M; [reflexivity|]. cbn [orb]. apply memN_false in M.
    destruct (in_aget_some k p st Hin) as [p' E]. rewrite (Hs k M), E. apply pin_eqb_refl. eapply Hm; eauto.
  - destruct (memN k ks) eqn:M; [reflexivity|]. cbn [orb]. apply memN_false in M.
    destruct (in_aget_some k p st' Hin) as [p' E]. rewrite <- (Hs k M), E. reflexivity. Qed.

Lemma st_eqb_refl st : inv2 st -> st_eqb st st = true.
Proof. intros [[ND _] Hw]. unfold st_eqb. rewrite same_except_intro; auto.
  - apply nodupb_NoDup in ND. now rewrite ND.
  - intros k p E. exact (proj1 (Hw k p E)). Qed.

(* ---------- the stronger invariant is kept by every call ---------- *)
Lemma with_defaults_meta c o : o_meta (with_defaults c o) = o_meta o. Proof. reflexivity. Qed.
Lemma with_defaults_ualloc c o : o_ualloc (with_defaults c o) = o_ualloc o. Proof. reflexivity. Qed.

Lemma setup_rf_allocs c p : p_allocs (setup_rf c p) = if everywhere (with_defaults c (p_opts p)) then [] else p_allocs p.
Proof. unfold setup_rf. cbn [p_opts set_opts]. destruct (everywhere (with_defaults c (p_opts p))); reflexivity. Qed.

(* the entry a successful pin_main leaves, by cases *)
Lemma pin_main_cases c e ord st p q st' : pin_main c e ord st p [] = (ROk q, st') ->
  let p1 := setup_rf c p in let existing := aget (p_cid p) st in
  (p_ty p = MetaT /\ q = p1) \/
  (p_ty p <> MetaT /\
   ((exists l, q = set_allocs l p1 /\
       (forall ex, existing = Some ex -> opts_equal (with_defaults c (p_opts p)) (p_opts ex) = false) /\
       ((p_allocs p1 <> [] /\ l = p_allocs p1) \/ (p_allocs p1 = [] /\ allocate (e_now e) (alloc_input c e p1 existing []) ord = Ok l))) \/
    (exists ex l, existing = Some ex /\ opts_equal (with_defaults c (p_opts p)) (p_opts ex) = true /\ q = set_allocs l ex /\
       ((p_allocs ex <> [] /\ l = p_allocs ex) \/ (p_allocs ex = [] /\ allocate (e_now e) (alloc_input c e ex existing []) ord = Ok l))))).
Proof. intros H. cbv zeta. unfold pin_main in H.
  destruct (negb (factors_valid _ _)); [discriminate|]. destruct (expire_past _ _); [discriminate|].
  destruct (setup_existing _ _); [discriminate|]. rewrite setup_rf_ty in H.
  destruct (ptype_eqb (p_ty p) MetaT) eqn:TM.
  - apply ptype_eqb_eq in TM. left. split; auto. now inversion H.
  - apply ptype_eqb_neq in TM. right. split; auto. rewrite setup_rf_opts in H.
    assert (Hset : forall x : pin, set_allocs (p_allocs x) x = x) by (intros []; reflexivity).
    destruct (aget (p_cid p) st) as [ex|] eqn:Ex.
    + destruct (opts_equal (with_defaults c (p_opts p)) (p_opts ex)) eqn:OE; cbn [andb] in H.
      * right. exists ex. destruct (p_allocs ex) as [|a r] eqn:PA.
        -- destruct (allocate _ _ _) as [l| |] eqn:AL; try discriminate. inversion H; subst. exists l. repeat split; auto.
        -- inversion H; subst. exists (a :: r). repeat split; auto; [now rewrite <- PA, Hset|left; split; [discriminate|reflexivity]].
      * left. destruct (p_allocs (setup_rf c p)) as [|a r] eqn:PA.
        -- destruct (allocate _ _ _) as [l| |] eqn:AL; try discriminate. inversion H; subst. exists l. repeat split; auto.
           intros ex0 E0. inversion E0; subst. exact OE.
        -- inversion H; subst. exists (a :: r). repeat split; auto; [now rewrite <- PA, Hset|intros ex0 E0; inversion E0; subst; exact OE|left; split; [discriminate|reflexivity]].
    + left. destruct (p_allocs (setup_rf c p)) as [|a r] eqn:PA.
      * destruct (allocate _ _ _) as [l| |] eqn:AL; try discriminate. inversion H; subst. exists l. repeat split; auto. intros ex0 E0. discriminate.
      * inversion H; subst. exists (a :: r). repeat split; auto; [now rewrite <- PA, Hset|intros ex0 E0; discriminate|left; split; [discriminate|reflexivity]]. Qed.

Lemma stored_wf_norm q : stored_wf q -> stored_wf (pb_norm q).
Proof. exact (fun H => H). Qed.

Lemma inv2_log_pin st q : inv2 st -> factors_valid (o_rmin (p_opts q)) (o_rmax (p_opts q)) = true -> stored_wf q -> inv2 (log_pin st q).
Proof. intros [I W] FV Wq. split; [now apply inv_log_pin|]. intros k p E.
  destruct (N.eq_dec k (p_cid q)) as [->|Hn].
  - rewrite log_pin_same in E. inversion E; subst. now apply stored_wf_norm.
  - rewrite log_pin_other in E by assumption. eauto. Qed.

Lemma aget_adel_some {V} k h (m : list (N * V)) v : aget k (adel h m) = Some v -> aget k m = Some v.
Proof. destruct (N.eq_dec k h) as [->|Hn]; [now rewrite aget_adel_same|now rewrite aget_adel_other]. Qed.
Lemma aget_fold_unpin_some cs : forall st k (p : pin), aget k (fold_left log_unpin cs st) = Some p -> aget k st = Some p.
Proof. induction cs as [|c r IH]; intros st k p E; [exact E|]. cbn [fold_left] in E. apply IH in E. now apply aget_adel_some in E. Qed.

Lemma stored_wf_pin_main c e ord st p q st' : inv2 st -> order_oracle ord -> one_metric_per_peer e ->
  meta_nodup (p_opts p) -> NoDup (p_allocs p) -> pin_main c e ord st p [] = (ROk q, st') -> stored_wf q.
Proof. intros [I W] Ho Hm Mp Ap H. pose proof (pin_main_cases c e ord st p q st' H) as C. cbv zeta in C.
  assert (A1 : NoDup (p_allocs (setup_rf c p))) by (rewrite setup_rf_allocs; destruct (everywhere _); [constructor|exact Ap]).
  assert (M1 : meta_nodup (p_opts (setup_rf c p))) by (rewrite setup_rf_opts; exact Mp).
  assert (Hcur : NoDup (match aget (p_cid p) st with Some ex => p_allocs ex | None => [] end)).
  { destruct (aget (p_cid p) st) as [ex|] eqn:E; [exact (proj2 (W _ _ E))|constructor]. }
  destruct C as [[_ ->]|[_ [[l [-> [_ Hl]]]|[ex [l [Ex [_ [-> Hl]]]]]]]].
  - split; auto.
  - split; [exact M1|]. cbn [p_allocs set_allocs]. destruct Hl as [[_ ->]|[_ AL]]; [exact A1|].
    exact (alloc_nodup_l (e_now e) (alloc_input c e (setup_rf c p) (aget (p_cid p) st) []) ord Ho Hm l Hcur AL).
  - destruct (W _ _ Ex) as [Me Ae]. split; [exact Me|]. cbn [p_allocs set_allocs]. destruct Hl as [[_ ->]|[_ AL]]; [exact Ae|].
    refine (alloc_nodup_l (e_now e) (alloc_input c e ex (aget (p_cid p) st) []) ord Ho Hm l _ AL).
    cbn [alloc_input current]. exact Hcur. Qed.

Lemma stored_wf_updated now ex f t o : stored_wf ex -> stored_wf (updated_pin now ex f t o).
Proof. intros [M A]. split; [|exact A]. unfold meta_nodup, updated_pin, update_opts. cbn [p_opts].
  destruct (o_name o =? 0)%N; destruct (o_expire o) as [x|]; try destruct (t_after x now); exact M. Qed.

Lemma inv2_pin_update c e st f t o : inv2 st -> inv2 (snd (pin_update_op c e st f t o)).
Proof. intros I2. pose proof (inv_pin_update c e st f t o (proj1 I2)) as I'.
  destruct (pin_update_op c e st f t o) as [[q|x] st'] eqn:E; cbn [snd] in *.
  - split; auto. destruct (pin_update_ok _ _ _ _ _ _ _ _ E) as [_ [ex [G [_ [-> ->]]]]]. intros k p Ek.
    destruct (N.eq_dec k t) as [->|Hn].
    + change t with (p_cid (updated_pin (e_now e) ex f t o)) in Ek at 1. rewrite log_pin_same in Ek. inversion Ek; subst.
      apply stored_wf_norm, stored_wf_updated. exact (proj2 I2 _ _ G).
    + rewrite log_pin_other in Ek by exact Hn. exact (proj2 I2 _ _ Ek).
  - apply pin_update_err in E. now subst. Qed.

Lemma inv2_pin_core c e ord st p : inv2 st -> order_oracle ord -> one_metric_per_peer e ->
  meta_nodup (p_opts p) -> NoDup (p_allocs p) -> inv2 (snd (pin_core c e ord st p [])).
Proof. intros I2 Ho Hm Mp Ap. unfold pin_core. destruct (follower c); [exact I2|].
  assert (Hmain : inv2 (snd (pin_main c e ord st p []))).
  { pose proof (inv_pin_main c e ord st p [] (proj1 I2)) as I'.
    destruct (pin_main c e ord st p []) as [[q|x] st'] eqn:E; cbn [snd] in *.
    - split; auto. pose proof (stored_wf_pin_main c e ord st p q st' I2 Ho Hm Mp Ap E) as Wq.
      destruct (pin_main_ok _ _ _ _ _ _ _ _ E) as [-> _]. intros k r Ek.
      destruct (N.eq_dec k (p_cid q)) as [->|Hn].
      + rewrite log_pin_same in Ek. inversion Ek; subst. now apply stored_wf_norm.
      + rewrite log_pin_other in Ek by exact Hn. exact (proj2 I2 _ _ Ek).
    - apply pin_main_err in E. now subst. }
  destruct (o_update (p_opts p)) as [u|]; [|exact Hmain].
  destruct (negb (u =? p_cid p)%N); [apply inv2_pin_update; exact I2|exact Hmain]. Qed.

Lemma inv2_unpin c e st h : inv2 st -> inv2 (snd (unpin_op c e st h)).
Proof. intros I2. split; [apply inv_unpin; exact (proj1 I2)|]. intros k p E. apply (proj2 I2 k). revert E. unfold unpin_op.
  destruct (follower c); [auto|]. destruct (aget h st) as [q|]; [|auto].
  destruct (p_ty q); cbn [snd]; auto.
  - unfold log_unpin. apply aget_adel_some.
  - destruct (cids_from_meta e st h q) as [cs|]; cbn [snd]; auto. unfold log_unpin at 1. intros E.
    apply aget_adel_some in E. now apply aget_fold_unpin_some in E. Qed.

Theorem inv2_step c e ord st k : inv2 st -> call_wf k -> order_oracle ord -> one_metric_per_peer e ->
  inv2 (snd (step c e ord st k)).
Proof. intros I2 Wk Ho Hm. destruct k as [h o|pa o|f t o|h|pa|p]; cbn [step call_wf] in *.
  - apply inv2_pin_core; auto. constructor.
  - destruct (aget pa (e_resolve e)); [|exact I2]. apply inv2_pin_core; auto. constructor.
  - now apply inv2_pin_update.
  - now apply inv2_unpin.
  - destruct (aget pa (e_resolve e)); [|exact I2]. now apply inv2_unpin.
  - destruct Wk. now apply inv2_pin_core. Qed.

Lemma inv2_empty : inv2 [].
Proof. split; [apply inv_empty|]. intros k p E. discriminate. Qed.

(* ---------- PinOptions.Equals against the monitor's readings of "identical" ---------- *)
Lemma aget_nz k m : k <> 0%N -> aget k (nz m) = aget k m.
Proof. intros Hk. unfold nz. induction m as [|[k' v'] r IH]; [reflexivity|]. cbn [filter fst aget].
  destruct (N.eqb_spec k' 0) as [->|Hk']; cbn [negb].
  - destruct (N.eqb_spec k 0); [contradiction|exact IH].
  - cbn [aget]. destruct (N.eqb_spec k k'); [reflexivity|exact IH]. Qed.
Lemma nz_nodup m : NoDup (map fst m) -> NoDup (map fst (nz m)).
Proof. unfold nz. induction m as [|[k v] r IH]; intros ND; [constructor|]. cbn [map fst] in ND. inversion ND as [|? ? Hn Hr]; subst.
  cbn [filter fst]. destruct (negb (k =? 0)%N); [|auto]. cbn [map fst]. constructor; auto.
  intros Hin. apply Hn. apply in_map_iff in Hin. destruct Hin as [x [E Hx]]. apply filter_In in Hx. apply in_map_iff. exists x. tauto. Qed.
Lemma in_nz k v m : In (k, v) (nz m) -> In (k, v) m /\ k <> 0%N.
Proof. unfold nz. intros H. apply filter_In in H. destruct H as [H1 H2]. cbn [fst] in H2. split; auto.
  apply negb_true_iff in H2. now apply N.eqb_neq. Qed.

Lemma meta_nz_sub a b : NoDup (map fst a) -> meta_same a b -> meta_sub (nz a) (nz b) = true.
Proof. intros ND Hs. apply forallb_forall. intros [k v] Hin. cbn [fst snd]. apply in_nz in Hin. destruct Hin as [Hin Hk].
  rewrite (aget_nz k b Hk), <- (Hs k Hk), (aget_of_in k v a ND Hin). apply optN_eqb_refl. Qed.
Lemma meta_nz_eqb a b : NoDup (map fst a) -> NoDup (map fst b) -> meta_same a b -> meta_eqb (nz a) (nz b) = true.
Proof. intros Na Nb Hs. unfold meta_eqb. rewrite (meta_nz_sub a b Na Hs), (meta_nz_sub b a Nb); auto.
  intros k Hk. symmetry. now apply Hs. Qed.

Lemma seteqb_of_incl a b : incl a b -> incl b a -> seteqb a b = true.
Proof. intros H1 H2. unfold seteqb. apply andb_true_iff. split; apply subsetb_incl; assumption. Qed.

(* a stored pin is in stored normal form: mode from depth, no user allocations, expiry in whole seconds *)
Lemma norm_fields ex : pb_norm ex = ex ->
  o_mode (p_opts ex) = mode_of_depth (p_depth ex) /\ o_ualloc (p_opts ex) = [] /\
  (match o_expire (p_opts ex) with Some (s, _) => Some (s, 0%N) | None => None end) = o_expire (p_opts ex).
Proof. intros H. destruct ex as [o ci ty al d rf]. unfold pb_norm in H. cbn [p_opts p_depth p_cid p_ty p_allocs p_ref] in *.
  injection H as E. destruct o as [a b nm md sh ua ex mt up og]. unfold pb_norm_opts in E.
  cbn [o_rmin o_rmax o_name o_mode o_shard o_ualloc o_expire o_meta o_update o_origins] in *.
  injection E as E1 E2 E3. rewrite E3. auto. Qed.

Lemma opts_equal_length_ualloc a b : opts_equal a b = true -> length (o_ualloc a) = length (o_ualloc b).
Proof. unfold opts_equal. rewrite !andb_true_iff. intros [[[[[[[[_ H] _] _] _] _] _] _] _]. now apply Nat.eqb_eq. Qed.

(* Equals = true: the stored entry reads as the request (the property's reading of options) *)
Lemma opts_equal_sem o' ex d : opts_equal o' (p_opts ex) = true -> pb_norm ex = ex -> meta_nodup o' -> meta_nodup (p_opts ex) ->
  mode_of_depth d = o_mode o' ->
  opts_sem_eqb (pb_norm_opts d o') (p_opts ex) = true /\ opts_sem_eqb (p_opts ex) (pb_norm_opts (p_depth ex) o') = true /\
  expire_eqb (o_expire o') (o_expire (p_opts ex)) = true /\ o_ualloc o' = [] /\ (o_mode o' =? o_mode (p_opts ex))%N = true.
Proof. intros OE Hn Mo Me Hd. pose proof (opts_equal_length_ualloc _ _ OE) as Hlen.
  destruct (opts_equal_sound _ _ OE) as [S1 S2 S3 S4 S5 _ S7 S8 [S9a S9b]]. destruct (norm_fields ex Hn) as [N1 [N2 N3]].
  assert (Hex : expire_eqb (match o_expire o' with Some (s, _) => Some (s, 0%N) | None => None end) (o_expire (p_opts ex)) = true).
  { rewrite S7, N3. apply expire_eqb_refl. }
  assert (Hex2 : expire_eqb (o_expire (p_opts ex)) (match o_expire o' with Some (s, _) => Some (s, 0%N) | None => None end) = true).
  { rewrite S7, N3. apply expire_eqb_refl. }
  assert (Hm1 : meta_eqb (nz (o_meta o')) (nz (o_meta (p_opts ex))) = true) by (apply meta_nz_eqb; auto).
  assert (Hm2 : meta_eqb (nz (o_meta (p_opts ex))) (nz (o_meta o')) = true).
  { apply meta_nz_eqb; auto. intros k Hk. symmetry. now apply S8. }
  split; [|split; [|split; [|split]]].
  - unfold opts_sem_eqb, pb_norm_opts. cbn [o_rmin o_rmax o_name o_mode o_shard o_expire o_meta o_origins].
    rewrite S3, S4, S1, S5, Hd, S2, !Z.eqb_refl, !N.eqb_refl, Hex, Hm1, (seteqb_of_incl _ _ S9a S9b). reflexivity.
  - unfold opts_sem_eqb, pb_norm_opts. cbn [o_rmin o_rmax o_name o_mode o_shard o_expire o_meta o_origins].
    rewrite <- S3, <- S4, <- S1, <- S5, N1, !Z.eqb_refl, !N.eqb_refl, Hex2, Hm2, (seteqb_of_incl _ _ S9b S9a). reflexivity.
  - rewrite S7. apply expire_eqb_refl.
  - rewrite N2 in Hlen. destruct (o_ualloc o'); [reflexivity|discriminate].
  - rewrite S2. apply N.eqb_refl. Qed.

(* the monitor's "literally identical" implies Equals = true *)
Lemma ident_lit_equal o' d ex : identical_req o' d ex = true -> literal_req o' ex = true -> pb_norm ex = ex ->
  opts_equal o' (p_opts ex) = true.
Proof. unfold identical_req, literal_req, opts_sem_eqb, pb_norm_opts. cbn [o_rmin o_rmax o_name o_mode o_shard o_expire o_meta o_origins].
  rewrite !andb_true_iff. intros [[[[[[[[[[H1 H2] H3] _] H5] _] _] _] He] Hu] Hm] [Ho Hl] Hn.
  destruct (norm_fields ex Hn) as [_ [N2 _]].
  apply Z.eqb_eq in H1, H2. apply N.eqb_eq in H3, H5, Hm. apply expire_eqb_eq in He. apply list_eqb_N_eq in Ho.
  unfold meta_eqb in Hl. apply andb_true_iff in Hl. destruct Hl as [L1 L2]. unfold meta_sub in L1, L2. rewrite forallb_forall in L1, L2.
  destruct (o_ualloc o') as [|u us] eqn:Eu; [|discriminate].
  unfold opts_equal. rewrite H3, Hm, H2, H1, H5, Eu, N2, He, Ho, !N.eqb_refl, !Z.eqb_refl, !Nat.eqb_refl, expire_eqb_refl. cbn [length Nat.eqb sortN fold_right list_eqb andb].
  assert (F1 : forallb (fun kv => (fst kv =? 0)%N || optN_eqb (aget (fst kv) (o_meta (p_opts ex))) (Some (snd kv))) (o_meta o') = true).
  { apply forallb_forall. intros kv Hin. rewrite (L1 kv Hin). apply orb_true_r. }
  assert (F2 : forallb (fun kv => (fst kv =? 0)%N || is_some (aget (fst kv) (o_meta o'))) (o_meta (p_opts ex)) = true).
  { apply forallb_forall. intros kv Hin. specialize (L2 kv Hin). apply optN_eqb_eq in L2. rewrite L2. apply orb_true_r. }
  rewrite F1, F2. cbn [andb].
  assert (F3 : forallb (fun x => memN x (o_origins (p_opts ex))) (o_origins (p_opts ex)) = true).
  { apply forallb_forall. intros x Hx. now apply memN_in. }
  now rewrite F3. Qed.

(* ---------- the model's answers pass the monitor ---------- *)
Lemma inv2_meta st : inv2 st -> forall k p, aget k st = Some p -> meta_nodup (p_opts p).
Proof. intros [_ W] k p E. exact (proj1 (W k p E)). Qed.

Lemma unpin_passes c e st h : inv2 st ->
  spec_unpin c e st h (obsres_of (fst (unpin_op c e st h))) (snd (unpin_op c e st h)) = true.
Proof. intros I2. unfold unpin_op. destruct (follower c); [reflexivity|].
  destruct (aget h st) as [p|] eqn:Ep; [|reflexivity].
  pose proof (inv2_meta st I2 h p Ep) as Mp.
  destruct (p_ty p) eqn:Ty; try reflexivity.
  - (* data pin *) cbn [fst snd obsres_of spec_unpin]. rewrite Ep, (pin_eqb_refl p Mp), Ty. cbn [andb].
    unfold log_unpin. rewrite aget_adel_same. cbn [is_some negb andb].
    apply same_except_intro; [exact (inv2_meta st I2)|]. intros k Hk. apply aget_adel_other. intros ->. apply Hk. now left.
  - (* meta pin *) unfold cids_from_meta. destruct (p_ref p) as [r|] eqn:Er; [|reflexivity].
    destruct (aget r st) as [cd|]; [|reflexivity]. destruct (aget r (e_links e)) as [ls|] eqn:El; [|reflexivity].
    cbn [fst snd obsres_of spec_unpin]. rewrite Ep, (pin_eqb_refl p Mp), Ty, Er, El. cbn [andb].
    set (cs := List.rev ls ++ [r; h]).
    assert (Hgone : forall k, In k (h :: r :: ls) -> aget k (log_unpin (fold_left log_unpin cs st) h) = None).
    { intros k Hk. unfold log_unpin at 1. destruct (N.eq_dec k h) as [->|Hn]; [apply aget_adel_same|].
      rewrite aget_adel_other by exact Hn. apply fold_unpin_in. unfold cs. apply in_or_app.
      destruct Hk as [->|[->|Hk]]; [contradiction|right; now left|left; now apply in_rev in Hk]. }
    apply andb_true_iff. split.
    + apply forallb_forall. intros k Hk. now rewrite (Hgone k Hk).
    + apply same_except_intro; [exact (inv2_meta st I2)|]. intros k Hk. unfold log_unpin at 1.
      rewrite aget_adel_other by (intros ->; apply Hk; now left). apply fold_unpin_notin. unfold cs. intros Hin. apply Hk.
      apply in_app_or in Hin. destruct Hin as [Hin|[<-|[<-|[]]]]; [right; right; now apply in_rev|right; now left|now left]. Qed.

Lemma update_passes c e st f t o : inv2 st ->
  spec_update c e st f t o (obsres_of (fst (pin_update_op c e st f t o))) (snd (pin_update_op c e st f t o)) = true.
Proof. intros I2. destruct (pin_update_op c e st f t o) as [[q|x] st'] eqn:E; cbn [fst snd obsres_of spec_update].
  - destruct (pin_update_ok _ _ _ _ _ _ _ _ E) as [_ [ex [G [_ [Eq ->]]]]]. unfold spec_update. rewrite G.
    assert (Hc : p_cid q = t) by (rewrite Eq; reflexivity).
    rewrite <- Hc at 1. rewrite log_pin_same. cbn [is_some]. rewrite andb_true_r.
    assert (Mq : meta_nodup (p_opts q)).
    { rewrite Eq. apply stored_wf_updated. destruct I2 as [_ W]. exact (W _ _ G). }
    unfold update_expected. rewrite <- Eq. rewrite (pin_eqb_refl (pb_norm q) Mq). cbn [andb].
    apply same_except_intro; [exact (inv2_meta st I2)|]. intros k Hk. apply log_pin_other. rewrite Hc. intros ->. apply Hk. now left.
  - unfold spec_update. destruct (is_some (aget f st)); reflexivity. Qed.

(* the allocation clause, on the entry the model stores *)
Section Main.
Context (c : cfg) (e : env) (ord : list N -> list N) (st : pinset) (p : pin) (q : pin) (st' : pinset).
Hypothesis I2 : inv2 st.
Hypothesis Ho : order_oracle ord.
Hypothesis Hm : one_metric_per_peer e.
Hypothesis Mp : meta_nodup (p_opts p).
Hypothesis H : pin_main c e ord st p [] = (ROk q, st').
Let h := p_cid p.
Let o' := with_defaults c (p_opts p).
Let p1 := setup_rf c p.
Let existing := aget h st.
Let cur := match existing with Some ex => p_allocs ex | None => [] end.

Lemma main_cid : p_cid q = h.
Proof. destruct (pin_main_cases c e ord st p q st' H) as [[_ ->]|[_ [[l [-> _]]|[ex [l [Ex [_ [-> _]]]]]]]]; cbn [p_cid set_allocs]; try apply setup_rf_cid.
  exact (inv_keyed st (proj1 I2) _ _ Ex). Qed.

Lemma fresh_of_allocate prio i l : rmin i = o_rmin o' -> rmax i = o_rmax o' -> current i = cur -> metrics i = e_metrics e ->
  blacklist i = [] -> priority i = prio -> rev i = alloc_rev c ->
  allocate (e_now e) i ord = Ok l ->
  (if everywhere o' then (match l with [] => true | _ => false end)
   else C03_Check.spec_okb (e_now e) (mk_input (o_rmin o') (o_rmax o') cur (e_metrics e) [] prio (alloc_rev c)) (ObsOk l)) = true.
Proof. intros E1 E2 E3 E4 E5 E6 E7 AL.
  assert (Ei : i = mk_input (o_rmin o') (o_rmax o') cur (e_metrics e) [] prio (alloc_rev c)).
  { destruct i; cbn in *; subst; reflexivity. }
  rewrite Ei in AL. clear Ei E1 E2 E3 E4 E5 E6 E7 i.
  set (i := mk_input (o_rmin o') (o_rmax o') cur (e_metrics e) [] prio (alloc_rev c)) in *.
  destruct (everywhere o') eqn:Ev.
  - unfold everywhere in Ev. apply andb_true_iff in Ev. destruct Ev as [A B]. apply Z.eqb_eq in A, B.
    rewrite (alloc_everywhere_l (e_now e) i ord) in AL by (unfold i; cbn [rmin rmax]; lia). now inversion AL.
  - assert (Hcur : NoDup cur).
    { unfold cur, existing. destruct (aget h st) as [ex|] eqn:Ex; [exact (proj2 (proj2 I2 _ _ Ex))|constructor]. }
    pose proof (alloc_model_passes_monitor_l (e_now e) i ord Ho Hm Hcur) as X. rewrite AL in X. exact X. Qed.
End Main.

Lemma setup_existing_none p1 ex : setup_existing p1 (Some ex) = None ->
  ptype_eqb (p_ty ex) (p_ty p1) = true /\ ((o_mode (p_opts ex) =? 0)%N && negb (o_mode (p_opts p1) =? 0)%N) = false.
Proof. unfold setup_existing. destruct (ptype_eqb (p_ty ex) (p_ty p1)); cbn [negb]; [|discriminate].
  destruct ((o_mode (p_opts ex) =? 0)%N && negb (o_mode (p_opts p1) =? 0)%N); [discriminate|auto]. Qed.

Lemma main_passes c e ord st p q st' : inv2 st -> order_oracle ord -> one_metric_per_peer e ->
  meta_nodup (p_opts p) -> NoDup (p_allocs p) ->
  (match o_update (p_opts p) with Some u => if negb (u =? p_cid p)%N then Some u else None | None => None end) = None ->
  pin_main c e ord st p [] = (ROk q, st') -> spec_pin c e st p (OOk q) st' = true.
Proof. intros I2 Ho Hm Mp Ap NR H. unfold spec_pin. cbv zeta. rewrite NR.
  pose proof (main_cid c e ord st p q st' I2 H) as Hc.
  destruct (pin_main_ok _ _ _ _ _ _ _ _ H) as [Est [FV [EP [SE _]]]]. cbv zeta in FV, EP, SE. rewrite setup_rf_opts in FV, EP.
  set (o' := with_defaults c (p_opts p)) in *. set (h := p_cid p) in *.
  (* refusal conditions are all false *)
  assert (MR : negb (negb (factors_valid (o_rmin o') (o_rmax o')) || expire_past (e_now e) (o_expire o')
                 || match aget h st with
                    | Some ex => negb (ptype_eqb (p_ty ex) (p_ty p)) || ((o_mode (p_opts ex) =? 0)%N && negb (o_mode o' =? 0)%N)
                    | None => false end) = true).
  { rewrite FV, EP. cbn [negb orb]. destruct (aget h st) as [ex|] eqn:Ex; [|reflexivity].
    destruct (setup_existing_none _ _ SE) as [T1 T2]. rewrite setup_rf_ty in T1. rewrite setup_rf_opts in T2. fold o' in T2. now rewrite T1, T2. }
  rewrite MR. cbn [andb].
  assert (Es : aget h st' = Some (pb_norm q)) by (rewrite Est, <- Hc; apply log_pin_same). rewrite Es.
  assert (Hse : same_except [h] st st' = true).
  { apply same_except_intro; [exact (inv2_meta st I2)|]. intros k Hk. rewrite Est. apply log_pin_other. rewrite Hc. intros ->. apply Hk. now left. }
  rewrite Hse. cbn [andb].
  pose proof (stored_wf_pin_main c e ord st p q st' I2 Ho Hm Mp Ap H) as [Mq Aq].
  rewrite (pin_eqb_refl (pb_norm q) Mq). cbn [andb].
  (* by cases on what the model stored *)
  pose proof (pin_main_cases c e ord st p q st' H) as C. cbv zeta in C. fold h in C. fold o' in C.
  assert (Hset : forall l x, p_opts (pb_norm (set_allocs l x)) = pb_norm_opts (p_depth x) (p_opts x)) by reflexivity.
  assert (Mo : meta_nodup o') by exact Mp.
  assert (Osem : forall d, opts_sem_eqb (pb_norm_opts d o') (pb_norm_opts d o') = true).
  { intros d. unfold opts_sem_eqb, pb_norm_opts. cbn [o_rmin o_rmax o_name o_mode o_shard o_expire o_meta o_origins].
    rewrite !Z.eqb_refl, !N.eqb_refl, expire_eqb_refl, (meta_eqb_refl _ (nz_nodup _ Mo)). cbn [andb].
    apply seteqb_of_incl; apply incl_refl. }
  destruct C as [[Ty ->]|[Ty [[l [-> [NE Hl]]]|[ex [l [Ex [OE [-> Hl]]]]]]]].
  - (* a meta pin is stored as given *)
    cbn [pb_norm p_ty p_opts p_depth]. rewrite setup_rf_ty, setup_rf_opts, setup_rf_depth, ptype_eqb_refl. fold o'. rewrite Osem. cbn [andb].
    rewrite Ty. reflexivity.
  - (* the request is stored (new, or some option differs) *)
    cbn [pb_norm p_ty p_opts p_depth p_allocs set_allocs]. rewrite setup_rf_ty, setup_rf_opts, setup_rf_depth, ptype_eqb_refl. fold o'. rewrite Osem. cbn [andb].
    destruct (ptype_eqb (p_ty p) MetaT || negb (mode_of_depth (p_depth p) =? o_mode o')%N) eqn:Skip; [reflexivity|].
    apply orb_false_iff in Skip. destruct Skip as [_ Md]. apply negb_false_iff, N.eqb_eq in Md.
    (* not literally identical, since Equals answered false *)
    assert (IL : match aget h st with Some ex => identical_req o' (p_depth p) ex && literal_req o' ex | None => false end = false).
    { destruct (aget h st) as [ex|] eqn:Ex; [|reflexivity]. destruct (identical_req o' (p_depth p) ex && literal_req o' ex) eqn:B; [|reflexivity].
      apply andb_true_iff in B. destruct B as [B1 B2]. exfalso.
      assert (Nex : pb_norm ex = ex) by (destruct I2 as [[_ S] _]; exact (proj1 (proj2 (S _ _ Ex)))).
      pose proof (NE ex eq_refl) as NE'. rewrite (ident_lit_equal o' (p_depth p) ex B1 B2 Nex) in NE'. discriminate. }
    rewrite IL.
    (* so `changed` must hold *)
    assert (CH : match p_allocs p with
                 | _ :: _ => if everywhere o' then (if everywhere o' then match l with [] => true | _ :: _ => false end
                                 else C03_Check.spec_okb (e_now e) (mk_input (o_rmin o') (o_rmax o') (match aget h st with Some ex => p_allocs ex | None => [] end) (e_metrics e) [] [] (alloc_rev c)) (ObsOk l))
                             else perm_eqb l (p_allocs p)
                 | [] => if everywhere o' then match l with [] => true | _ :: _ => false end
                         else C03_Check.spec_okb (e_now e) (mk_input (o_rmin o') (o_rmax o') (match aget h st with Some ex => p_allocs ex | None => [] end) (e_metrics e) [] (o_ualloc o') (alloc_rev c)) (ObsOk l) end = true).
    { rewrite setup_rf_allocs in Hl. fold o' in Hl.
      destruct (p_allocs p) as [|a r] eqn:Pa.
      - assert (E0 : (if everywhere o' then @nil N else []) = []) by (destruct (everywhere o'); reflexivity). rewrite E0 in Hl.
        destruct Hl as [[Hx _]|[_ AL]]; [congruence|].
        apply (fresh_of_allocate c e ord st p I2 Ho Hm (o_ualloc o') (alloc_input c e (setup_rf c p) (aget h st) []) l); try exact AL;
          cbn [alloc_input rmin rmax priority current metrics blacklist rev]; rewrite ?setup_rf_opts; reflexivity.
      - destruct (everywhere o') eqn:Ev.
        + destruct Hl as [[Hx _]|[_ AL]]; [congruence|].
          pose proof (fresh_of_allocate c e ord st p I2 Ho Hm (o_ualloc o') (alloc_input c e (setup_rf c p) (aget h st) []) l) as X.
          fold h in X. fold o' in X. rewrite Ev in X.
          apply X; try exact AL; cbn [alloc_input rmin rmax priority current metrics blacklist rev]; rewrite ?setup_rf_opts; reflexivity.
        + destruct Hl as [[_ ->]|[Hx _]]; [apply perm_eqb_refl|discriminate]. }
    destruct (match aget h st with Some ex => identical_req o' (p_depth p) ex | None => false end); cbn [negb].
    + rewrite CH. apply orb_true_iff. left. apply orb_true_r.
    + exact CH.
  - (* Equals answered true: the stored entry is kept *)
    rewrite Ex in *.
    assert (Sx : stored_ok h ex) by (destruct I2 as [[_ S] _]; exact (S _ _ Ex)). destruct Sx as [_ [Nex _]].
    destruct (proj2 I2 _ _ Ex) as [Mex Aex].
    destruct (setup_existing_none _ _ SE) as [T1 _]. rewrite setup_rf_ty in T1.
    cbn [pb_norm p_ty p_opts p_depth p_allocs set_allocs]. rewrite T1. cbn [andb].
    destruct (ptype_eqb (p_ty p) MetaT || negb (mode_of_depth (p_depth p) =? o_mode o')%N) eqn:Skip.
    + (* the allocation clause is not applied; the options clause needs no depth/mode agreement of the request *)
      rewrite andb_true_r.
      destruct (opts_equal_sound _ _ OE) as [S1 S2 S3 S4 S5 _ S7 S8 [S9a S9b]]. destruct (norm_fields ex Nex) as [N1 [N2 N3]].
      unfold opts_sem_eqb, pb_norm_opts. cbn [o_rmin o_rmax o_name o_mode o_shard o_expire o_meta o_origins].
      rewrite <- S3, <- S4, <- S1, <- S5, <- N1, !Z.eqb_refl, !N.eqb_refl. cbn [andb].
      rewrite N3, S7, N3, expire_eqb_refl. cbn [andb].
      rewrite (meta_nz_eqb _ _ Mex Mo) by (intros k Hk; symmetry; now apply S8). cbn [andb].
      apply seteqb_of_incl; assumption.
    + apply orb_false_iff in Skip. destruct Skip as [_ Md]. apply negb_false_iff, N.eqb_eq in Md.
      destruct (opts_equal_sem o' ex (p_depth p) OE Nex Mo Mex Md) as [Q1 [Q2 [Q3 [Q4 Q5]]]].
      assert (Eo : pb_norm_opts (p_depth ex) (p_opts ex) = p_opts ex) by (change (p_opts (pb_norm ex) = p_opts ex); now rewrite Nex).
      rewrite Eo, Q2. cbn [andb].
      assert (IS : identical_req o' (p_depth p) ex = true) by (unfold identical_req; now rewrite Q1, Q3, Q4, Q5).
      rewrite IS. cbn [negb].
      destruct Hl as [[Hne ->]|[Hnil AL]].
      * (* allocations kept *)
        assert (K : match p_allocs ex with [] => false | _ :: _ => perm_eqb (p_allocs ex) (p_allocs ex) end = true).
        { destruct (p_allocs ex); [congruence|apply perm_eqb_refl]. }
        destruct (literal_req o' ex); cbn [andb].
        -- destruct (p_allocs ex) eqn:Pa; [congruence|]. apply perm_eqb_refl.
        -- rewrite K. reflexivity.
      * (* the kept entry had no allocations: a fresh allocation *)
        rewrite Hnil.
        assert (F : (if everywhere o' then match l with [] => true | _ :: _ => false end
                     else C03_Check.spec_okb (e_now e) (mk_input (o_rmin o') (o_rmax o') [] (e_metrics e) [] [] (alloc_rev c)) (ObsOk l)) = true).
        { pose proof (fresh_of_allocate c e ord st p I2 Ho Hm [] (alloc_input c e ex (Some ex) []) l) as X. fold h in X. fold o' in X.
          rewrite Ex, Hnil in X. destruct (opts_equal_sound _ _ OE) as [_ _ S3 S4 _ _ _ _ _]. destruct (norm_fields ex Nex) as [_ [N2 _]].
          apply X; try reflexivity; try exact AL; cbn [alloc_input rmin rmax current priority]; auto. }
        destruct (literal_req o' ex); cbn [andb]; [exact F|]. rewrite F. apply orb_true_r. Qed.

Lemma pin_passes c e ord st p : inv2 st -> order_oracle ord -> one_metric_per_peer e ->
  meta_nodup (p_opts p) -> NoDup (p_allocs p) ->
  spec_pin c e st p (obsres_of (fst (pin_core c e ord st p []))) (snd (pin_core c e ord st p [])) = true.
Proof. intros I2 Ho Hm Mp Ap. unfold pin_core.
  assert (Herr : forall x, spec_pin c e st p (OErr x) st = true).
  { intros x. unfold spec_pin. cbv zeta. destruct (match o_update (p_opts p) with Some u => if negb (u =? p_cid p)%N then Some u else None | None => None end) as [u|]; [|reflexivity].
    unfold spec_update. destruct (is_some (aget u st)); reflexivity. }
  destruct (follower c); [apply Herr|].
  assert (Hmain : (match o_update (p_opts p) with Some u => if negb (u =? p_cid p)%N then Some u else None | None => None end) = None ->
                  spec_pin c e st p (obsres_of (fst (pin_main c e ord st p []))) (snd (pin_main c e ord st p [])) = true).
  { intros NR. destruct (pin_main c e ord st p []) as [[q|x] st'] eqn:E; cbn [fst snd obsres_of].
    - now apply (main_passes c e ord st p q st').
    - apply pin_main_err in E. subst. apply Herr. }
  destruct (o_update (p_opts p)) as [u|] eqn:Eu; [|now apply Hmain].
  destruct (negb (u =? p_cid p)%N) eqn:Ne; [|now apply Hmain].
  unfold spec_pin. cbv zeta. rewrite Eu, Ne. apply update_passes. exact I2. Qed.

(* completeness: every configuration, environment, map order, pinset satisfying the invariant of reachable pinsets, call *)
Theorem step_passes_monitor_l c e ord st k : inv2 st -> call_wf k -> order_oracle ord -> one_metric_per_peer e ->
  spec_okb c e st k (obsres_of (fst (step c e ord st k))) (snd (step c e ord st k)) = true.
Proof. intros I2 Wk Ho Hm. unfold spec_okb.
  pose proof (inv_step c e ord st k (proj1 I2)) as [ND' _]. apply nodupb_NoDup in ND'. rewrite ND'. cbn [andb].
  assert (H2 : match obsres_of (fst (step c e ord st k)) with OErr _ => st_eqb st (snd (step c e ord st k)) | OOk _ => negb (follower c) end = true).
  { destruct (step c e ord st k) as [[q|x] st'] eqn:E; cbn [fst snd obsres_of].
    - destruct (follower c) eqn:F; [|reflexivity]. destruct (follower_refuses_l c e ord st k F) as [x Ex]. congruence.
    - apply refused_unchanged_l in E. subst. now apply st_eqb_refl. }
  rewrite H2. cbn [andb].
  destruct k as [h o|pa o|f t o|h|pa|p]; cbn [step call_wf] in *.
  - apply pin_passes; auto. constructor.
  - destruct (aget pa (e_resolve e)) as [h|]; [|reflexivity]. apply pin_passes; auto. constructor.
  - now apply update_passes.
  - now apply unpin_passes.
  - destruct (aget pa (e_resolve e)) as [h|]; [|reflexivity]. now apply unpin_passes.
  - destruct Wk. now apply pin_passes. Qed.

(* ... hence at every point of every history (each call with its own environment and map order) *)
Definition hist_wf (h : list (env * (list N -> list N) * call)) : Prop :=
  forall x, In x h -> call_wf (snd x) /\ order_oracle (snd (fst x)) /\ one_metric_per_peer (fst (fst x)).

Lemma inv2_run c : forall h st, inv2 st -> hist_wf h -> inv2 (run c st h).
Proof. induction h as [|x r IH]; intros st I2 Hw; [exact I2|]. unfold run. cbn [fold_left]. apply IH.
  - destruct (Hw x (or_introl eq_refl)) as [A [B C]]. now apply inv2_step.
  - intros y Hy. apply Hw. now right. Qed.

Theorem history_passes_monitor_l c h e ord k : hist_wf (h ++ [(e, ord, k)]) ->
  let st := run c [] h in
  spec_okb c e st k (obsres_of (fst (step c e ord st k))) (snd (step c e ord st k)) = true.
Proof. intros Hw st.
  assert (Hh : hist_wf h) by (intros x Hx; apply Hw; apply in_or_app; now left).
  destruct (Hw (e, ord, k)) as [A [B C]]; [apply in_or_app; right; now left|].
  apply step_passes_monitor_l; auto. apply inv2_run; auto. apply inv2_empty. Qed.

(* ================================================================== *)
(* soundness of the remaining clauses                                  *)
(* ================================================================== *)
(* every entry outside ks is the same (up to the order of allocations and of metadata) before and after *)
Definition unchanged_outside (ks : list N) (st st' : pinset) : Prop :=
  forall k, ~ In k ks -> match aget k st, aget k st' with
                         | Some p, Some q => pin_equiv p q | None, None => True | _, _ => False end.

Lemma same_except_sound ks st st' : same_except ks st st' = true -> unchanged_outside ks st st'.
Proof. unfold same_except. rewrite andb_true_iff, !forallb_forall. intros [H1 H2] k Hk.
  assert (Mk : memN k ks = false) by (now apply memN_false).
  destruct (aget k st) as [p|] eqn:A.
  - pose proof (C04_ClusterOps.aget_in _ _ _ A) as Hin. apply H1 in Hin. cbn [fst] in Hin. rewrite Mk, A in Hin. cbn [orb] in Hin.
    destruct (aget k st') as [q|]; [now apply pin_eqb_sound|discriminate].
  - destruct (aget k st') as [q|] eqn:B; auto. apply C04_ClusterOps.aget_in in B. apply H2 in B. cbn [fst] in B. rewrite Mk, A in B. discriminate. Qed.

(* the property's reading of options *)
Record opts_read_same (a b : opts) : Prop := {
  rs_rmin : o_rmin a = o_rmin b; rs_rmax : o_rmax a = o_rmax b; rs_name : o_name a = o_name b; rs_mode : o_mode a = o_mode b;
  rs_shard : o_shard a = o_shard b; rs_expire : o_expire a = o_expire b;
  rs_meta : meta_same (o_meta a) (o_meta b); rs_origins : origins_same (o_origins a) (o_origins b) }.

Lemma opts_sem_eqb_sound a b : opts_sem_eqb a b = true -> opts_read_same a b.
Proof. unfold opts_sem_eqb. rewrite !andb_true_iff. intros [[[[[[[H1 H2] H3] H4] H5] H6] H7] H8].
  constructor; try (now apply Z.eqb_eq); try (now apply N.eqb_eq).
  - now apply expire_eqb_eq.
  - intros k Hk. rewrite <- (aget_nz k (o_meta a) Hk), <- (aget_nz k (o_meta b) Hk). now apply meta_eqb_sound.
  - unfold seteqb in H8. apply andb_true_iff in H8. destruct H8 as [A B]. split; now apply subsetb_incl. Qed.

(* unpin *)
Lemma spec_unpin_sound_l c e st h q st' : spec_unpin c e st h (OOk q) st' = true ->
  exists p, aget h st = Some p /\ pin_equiv p q /\
    ((p_ty p <> MetaT /\ aget h st' = None /\ unchanged_outside [h] st st') \/
     (p_ty p = MetaT /\ exists rf ls, p_ref p = Some rf /\ aget rf (e_links e) = Some ls /\
        (forall k, In k (h :: rf :: ls) -> aget k st' = None) /\ unchanged_outside (h :: rf :: ls) st st')).
Proof. unfold spec_unpin. destruct (aget h st) as [p|]; [|discriminate]. rewrite andb_true_iff. intros [H1 H2].
  exists p. split; auto. split; [now apply pin_eqb_sound|].
  assert (Hplain : negb (is_some (aget h st')) && same_except [h] st st' = true -> aget h st' = None /\ unchanged_outside [h] st st').
  { rewrite andb_true_iff. intros [A B]. split; [destruct (aget h st'); [discriminate|reflexivity]|now apply same_except_sound]. }
  destruct (p_ty p) eqn:Ty; try (left; split; [discriminate|now apply Hplain]).
  right. split; auto. destruct (p_ref p) as [rf|]; [|discriminate]. destruct (aget rf (e_links e)) as [ls|] eqn:El; [|discriminate].
  apply andb_true_iff in H2. destruct H2 as [A B]. exists rf, ls. repeat split; auto.
  - intros k Hk. rewrite forallb_forall in A. specialize (A k Hk). destruct (aget k st'); [discriminate|reflexivity].
  - now apply same_except_sound. Qed.

(* update *)
Lemma spec_update_sound_l c e st f t o q st' : spec_update c e st f t o (OOk q) st' = true ->
  exists ex s, aget f st = Some ex /\ aget t st' = Some s /\
    pin_equiv s (pb_norm (updated_pin (e_now e) ex f t o)) /\ pin_equiv s (pb_norm q) /\ unchanged_outside [t] st st'.
Proof. unfold spec_update. rewrite andb_true_iff. intros [H _].
  destruct (aget f st) as [ex|]; [|discriminate]. destruct (aget t st') as [s|]; [|discriminate].
  rewrite !andb_true_iff in H. destruct H as [[A B] C]. exists ex, s. split; [reflexivity|]. split; [reflexivity|].
  split; [now apply pin_eqb_sound|]. split; [now apply pin_eqb_sound|now apply same_except_sound]. Qed.

(* pin (no update redirect): the allocation clause of the monitor, named *)
Definition alloc_clause (c : cfg) (e : env) (st : pinset) (p0 s : pin) : bool :=
  let h := p_cid p0 in let o' := with_defaults c (p_opts p0) in let existing := aget h st in
  let cur := match existing with Some ex => p_allocs ex | None => [] end in
  let ident_lit := match existing with Some ex => identical_req o' (p_depth p0) ex && literal_req o' ex | None => false end in
  let ident_sem := match existing with Some ex => identical_req o' (p_depth p0) ex | None => false end in
  let kept := match cur with [] => false | _ => perm_eqb (p_allocs s) cur end in
  let fresh (prio : list N) :=
    if everywhere o' then (match p_allocs s with [] => true | _ => false end)
    else C03_Check.spec_okb (e_now e) (mk_input (o_rmin o') (o_rmax o') cur (e_metrics e) [] prio (alloc_rev c)) (ObsOk (p_allocs s)) in
  let changed := match p_allocs p0 with
                 | _ :: _ => if everywhere o' then fresh [] else perm_eqb (p_allocs s) (p_allocs p0)
                 | [] => fresh (o_ualloc o') end in
  if ptype_eqb (p_ty p0) MetaT || negb (mode_of_depth (p_depth p0) =? o_mode o')%N then true
  else if ident_lit then (match cur with [] => fresh [] | _ => kept end)
  else if negb ident_sem then changed
  else kept || changed || fresh [].

Definition no_redirectb (p0 : pin) : bool :=
  match o_update (p_opts p0) with Some u => (u =? p_cid p0)%N | None => true end.

Lemma spec_pin_sound_l c e st p0 q st' : no_redirectb p0 = true -> spec_pin c e st p0 (OOk q) st' = true ->
  let h := p_cid p0 in let o' := with_defaults c (p_opts p0) in
  factors_valid (o_rmin o') (o_rmax o') = true /\ expire_past (e_now e) (o_expire o') = false /\
  (forall ex, aget h st = Some ex -> p_ty ex = p_ty p0 /\ (o_mode (p_opts ex) = 0%N -> o_mode o' = 0%N)) /\
  exists s, aget h st' = Some s /\ unchanged_outside [h] st st' /\ pin_equiv s (pb_norm q) /\ p_ty s = p_ty p0 /\
            opts_read_same (p_opts s) (pb_norm_opts (p_depth s) o') /\ alloc_clause c e st p0 s = true.
Proof. intros NR H. cbv zeta. unfold spec_pin in H. cbv zeta in H.
  assert (R : match o_update (p_opts p0) with Some u => if negb (u =? p_cid p0)%N then Some u else None | None => None end = None).
  { unfold no_redirectb in NR. destruct (o_update (p_opts p0)); [now rewrite NR|reflexivity]. }
  rewrite R in H. apply andb_true_iff in H. destruct H as [MR H]. apply negb_true_iff in MR.
  apply orb_false_iff in MR. destruct MR as [MR M3]. apply orb_false_iff in MR. destruct MR as [M1 M2]. apply negb_false_iff in M1.
  split; [exact M1|]. split; [exact M2|]. split.
  - intros ex Ex. rewrite Ex in M3. apply orb_false_iff in M3. destruct M3 as [A B]. apply negb_false_iff, ptype_eqb_eq in A. split; auto.
    intros Z0. rewrite Z0 in B. cbn [N.eqb andb] in B. apply negb_false_iff in B. now apply N.eqb_eq in B.
  - destruct (aget (p_cid p0) st') as [s|]; [|discriminate]. rewrite !andb_true_iff in H. destruct H as [[[[A B] C] D] E].
    exists s. split; auto. split; [now apply same_except_sound|]. split; [now apply pin_eqb_sound|].
    split; [now apply ptype_eqb_eq|]. split; [now apply opts_sem_eqb_sound|exact E]. Qed.

(* readings of the allocation clause *)
(* the request is literally the stored entry (and that entry has allocations): the allocations stay *)
Lemma alloc_clause_identical c e st p0 s ex : alloc_clause c e st p0 s = true ->
  p_ty p0 <> MetaT -> mode_of_depth (p_depth p0) = o_mode (with_defaults c (p_opts p0)) ->
  aget (p_cid p0) st = Some ex -> identical_req (with_defaults c (p_opts p0)) (p_depth p0) ex = true ->
  literal_req (with_defaults c (p_opts p0)) ex = true -> p_allocs ex <> [] -> Permutation (p_allocs s) (p_allocs ex).
Proof. unfold alloc_clause. cbv zeta. intros H Ty Md Ex I1 I2 Ne. apply ptype_eqb_neq in Ty. rewrite Ty, Md, N.eqb_refl in H.
  cbn [negb orb] in H. rewrite Ex, I1, I2 in H. cbn [andb] in H. destruct (p_allocs ex) as [|a r]; [congruence|]. now apply perm_eqb_sound. Qed.

(* some option differs (as the property reads options) and the request names its allocations: they are the stored ones *)
Lemma alloc_clause_explicit c e st p0 s : alloc_clause c e st p0 s = true ->
  p_ty p0 <> MetaT -> mode_of_depth (p_depth p0) = o_mode (with_defaults c (p_opts p0)) ->
  (forall ex, aget (p_cid p0) st = Some ex -> identical_req (with_defaults c (p_opts p0)) (p_depth p0) ex = false) ->
  p_allocs p0 <> [] -> everywhere (with_defaults c (p_opts p0)) = false -> Permutation (p_allocs s) (p_allocs p0).
Proof. unfold alloc_clause. cbv zeta. intros H Ty Md Hid Ne Ev. apply ptype_eqb_neq in Ty. rewrite Ty, Md, N.eqb_refl in H.
  cbn [negb orb] in H. rewrite Ev in H.
  assert (E1 : match aget (p_cid p0) st with Some ex => identical_req (with_defaults c (p_opts p0)) (p_depth p0) ex | None => false end = false).
  { destruct (aget (p_cid p0) st) as [ex|]; [now apply Hid|reflexivity]. }
  assert (E2 : match aget (p_cid p0) st with Some ex => identical_req (with_defaults c (p_opts p0)) (p_depth p0) ex && literal_req (with_defaults c (p_opts p0)) ex | None => false end = false).
  { destruct (aget (p_cid p0) st) as [ex|]; [now rewrite (Hid ex eq_refl)|reflexivity]. }
  rewrite E1, E2 in H. cbn [negb] in H. destruct (p_allocs p0) as [|a r]; [congruence|]. now apply perm_eqb_sound. Qed.

(* a first pin without named allocations: the stored allocation satisfies C03's property (alloc_spec) *)
Lemma alloc_clause_first c e st p0 s : alloc_clause c e st p0 s = true ->
  p_ty p0 <> MetaT -> mode_of_depth (p_depth p0) = o_mode (with_defaults c (p_opts p0)) ->
  aget (p_cid p0) st = None -> p_allocs p0 = [] -> one_metric_per_peer e ->
  let o' := with_defaults c (p_opts p0) in
  valid_factors (o_rmin o') (o_rmax o') ->
  alloc_spec (e_now e) (mk_input (o_rmin o') (o_rmax o') [] (e_metrics e) [] (o_ualloc o') (alloc_rev c)) (p_allocs s).
Proof. unfold alloc_clause. cbv zeta. intros H Ty Md Ex Pa Hm Vf. apply ptype_eqb_neq in Ty. rewrite Ty, Md, N.eqb_refl in H.
  cbn [negb orb] in H. rewrite Ex, Pa in H. cbn [negb] in H.
  assert (Ev : everywhere (with_defaults c (p_opts p0)) = false).
  { unfold valid_factors in Vf. unfold everywhere. destruct (Z.eqb_spec (o_rmin (with_defaults c (p_opts p0))) (-1)); [lia|reflexivity]. }
  rewrite Ev in H. apply alloc_monitor_sound_l; auto. constructor. Qed.

(* from the monitor to its per-call clause *)
Lemma spec_okb_clause c e st k r st' : spec_okb c e st k r st' = true ->
  match k with
  | CPin h o => spec_pin c e st (pin_with_opts h o) r st'
  | CPinPath pa o => match aget pa (e_resolve e) with
                     | Some h => spec_pin c e st (pin_with_opts h o) r st'
                     | None => match r with OErr _ => true | OOk _ => false end end
  | CRpcPin p => spec_pin c e st p r st'
  | CPinUpdate f t o => spec_update c e st f t o r st'
  | CUnpin h => spec_unpin c e st h r st'
  | CUnpinPath pa => match aget pa (e_resolve e) with
                     | Some h => spec_unpin c e st h r st'
                     | None => match r with OErr _ => true | OOk _ => false end end
  end = true.
Proof. unfold spec_okb. rewrite !andb_true_iff. intros [_ H]. exact H. Qed.

Lemma spec_okb_unpin_sound_l c e st h q st' : spec_okb c e st (CUnpin h) (OOk q) st' = true ->
  exists p, aget h st = Some p /\ pin_equiv p q /\
    ((p_ty p <> MetaT /\ aget h st' = None /\ unchanged_outside [h] st st') \/
     (p_ty p = MetaT /\ exists rf ls, p_ref p = Some rf /\ aget rf (e_links e) = Some ls /\
        (forall k, In k (h :: rf :: ls) -> aget k st' = None) /\ unchanged_outside (h :: rf :: ls) st st')).
Proof. intros H. apply spec_okb_clause in H. exact (spec_unpin_sound_l c e st h q st' H). Qed.

Lemma spec_okb_update_sound_l c e st f t o q st' : spec_okb c e st (CPinUpdate f t o) (OOk q) st' = true ->
  exists ex s, aget f st = Some ex /\ aget t st' = Some s /\
    pin_equiv s (pb_norm (updated_pin (e_now e) ex f t o)) /\ pin_equiv s (pb_norm q) /\ unchanged_outside [t] st st'.
Proof. intros H. apply spec_okb_clause in H. exact (spec_update_sound_l c e st f t o q st' H). Qed.

Lemma spec_okb_pin_sound_l c e st p0 q st' : no_redirectb p0 = true -> spec_okb c e st (CRpcPin p0) (OOk q) st' = true ->
  let h := p_cid p0 in let o' := with_defaults c (p_opts p0) in
  factors_valid (o_rmin o') (o_rmax o') = true /\ expire_past (e_now e) (o_expire o') = false /\
  (forall ex, aget h st = Some ex -> p_ty ex = p_ty p0 /\ (o_mode (p_opts ex) = 0%N -> o_mode o' = 0%N)) /\
  exists s, aget h st' = Some s /\ unchanged_outside [h] st st' /\ pin_equiv s (pb_norm q) /\ p_ty s = p_ty p0 /\
            opts_read_same (p_opts s) (pb_norm_opts (p_depth s) o') /\ alloc_clause c e st p0 s = true.
Proof. intros NR H. apply spec_okb_clause in H. exact (spec_pin_sound_l c e st p0 q st' NR H). Qed.

(* a pin whose update source is another CID is judged as the update it is *)
Lemma spec_okb_pin_redirect_sound_l c e st p0 u q st' : o_update (p_opts p0) = Some u -> u <> p_cid p0 ->
  spec_okb c e st (CRpcPin p0) (OOk q) st' = true ->
  exists ex s, aget u st = Some ex /\ aget (p_cid p0) st' = Some s /\
    pin_equiv s (pb_norm (updated_pin (e_now e) ex u (p_cid p0) (p_opts p0))) /\ pin_equiv s (pb_norm q) /\
    unchanged_outside [p_cid p0] st st'.
Proof. intros Eu Hne H. apply spec_okb_clause in H. unfold spec_pin in H. cbv zeta in H. rewrite Eu in H.
  destruct (N.eqb_spec u (p_cid p0)); [contradiction|]. cbn [negb] in H. exact (spec_update_sound_l c e st u (p_cid p0) (p_opts p0) q st' H). Qed.

(* calls by CID and by path are judged as the RPC call they reduce to *)
Lemma spec_okb_calls_reduce c e st h o pa r st' :
  spec_okb c e st (CPin h o) r st' = spec_okb c e st (CRpcPin (pin_with_opts h o)) r st' /\
  (aget pa (e_resolve e) = Some h -> spec_okb c e st (CPinPath pa o) r st' = spec_okb c e st (CPin h o) r st' /\
                                     spec_okb c e st (CUnpinPath pa) r st' = spec_okb c e st (CUnpin h) r st').
Proof. split; [reflexivity|]. intros E. unfold spec_okb. now rewrite E. Qed.
