(* C06 — lemmas: the two status views agree, the filter law, truthfulness at quiescence, status constants. *)
From V Require Import Base.Common Base.CommonLemmas Model.C05_Tracker Model.C05_Check Model.C06_Check Proofs.C05_Tracker.
Open Scope N_scope.

(* ------------------------------------------------------------------------------------------------------------ *)
(* status constants and Match *)

Lemma status_bits_disjoint : forallb (fun x => forallb (fun y =>
    N.eqb (st_bits x) (st_bits y) || N.eqb (N.land (st_bits x) (st_bits y)) 0) all_statuses) all_statuses = true.
Proof. vm_compute. reflexivity. Qed.

Lemma all_statuses_complete x : In x all_statuses.
Proof. destruct x; simpl; tauto. Qed.

Lemma st_bits_inj x y : st_bits x = st_bits y -> x = y.
Proof. destruct x, y; simpl; intros H; try reflexivity; discriminate. Qed.

Lemma bits_disjoint x y : x <> y -> N.land (st_bits x) (st_bits y) = 0.
Proof.
  intros Hne. pose proof status_bits_disjoint as H. rewrite forallb_forall in H.
  specialize (H x (all_statuses_complete x)). rewrite forallb_forall in H. specialize (H y (all_statuses_complete y)).
  apply orb_true_iff in H as [H|H]; apply N.eqb_eq in H; auto. exfalso. apply Hne. now apply st_bits_inj.
Qed.

Lemma match_spec stb f : match_ stb f = true <-> f = 0 \/ stb = 0 \/ N.land stb f <> 0.
Proof.
  unfold match_. rewrite !orb_true_iff, !N.eqb_eq, N.ltb_lt. split.
  - intros [[H|H]|H]; auto. right. right. lia.
  - intros [H|[H|H]]; auto. right. lia.
Qed.

Lemma match_sym a b : match_ a b = match_ b a.
Proof. unfold match_. rewrite N.land_comm. destruct (N.eqb a 0), (N.eqb b 0); reflexivity. Qed.

Lemma pos_lor a b : (0 <? N.lor a b) = (0 <? a) || (0 <? b).
Proof.
  destruct (N.eq_dec a 0) as [->|Ha]; [now rewrite N.lor_0_l|].
  assert (0 <? a = true) as -> by (apply N.ltb_lt; lia). simpl. apply N.ltb_lt.
  destruct (N.eq_dec (N.lor a b) 0) as [E|E]; [apply N.lor_eq_0_iff in E; tauto|lia].
Qed.

(* a filter that is a union: a status matches iff it matches one of the parts *)
Lemma match_union stb f g : f <> 0 -> g <> 0 -> match_ stb (N.lor f g) = match_ stb f || match_ stb g.
Proof.
  intros Hf Hg. unfold match_. rewrite N.land_lor_distr_r, pos_lor.
  assert (Hl : N.lor f g <> 0) by (intros E; apply N.lor_eq_0_iff in E; tauto).
  apply N.eqb_neq in Hf, Hg, Hl. rewrite Hf, Hg, Hl.
  destruct (N.eqb stb 0), (0 <? N.land stb f), (0 <? N.land stb g); reflexivity.
Qed.

Lemma nomatch_bit f k a : a <> 0 -> N.land a k = a -> match_ f k = false -> match_ a f = false.
Proof.
  intros Ha Hsub. unfold match_. intros H. rewrite !orb_false_iff in H. destruct H as [[H1 H2] H3].
  apply N.ltb_ge in H3. assert (E : N.land f k = 0) by lia.
  assert (E2 : N.land a f = 0).
  { rewrite <- Hsub, <- N.land_assoc, (N.land_comm k f), E. apply N.land_0_r. }
  rewrite E2. apply N.eqb_neq in Ha. rewrite H2, Ha. reflexivity.
Qed.

(* ------------------------------------------------------------------------------------------------------------ *)
(* the filter law *)

Lemma filter_flat_map {A B} (f : B -> bool) (g : A -> list B) l :
  filter f (flat_map g l) = flat_map (fun a => filter f (g a)) l.
Proof. induction l as [|a r IH]; simpl; auto. now rewrite filter_app, IH. Qed.

Lemma filter_comm {A} (f g : A -> bool) l : filter f (filter g l) = filter g (filter f l).
Proof.
  induction l as [|a r IH]; simpl; auto. destruct (g a) eqn:Hg, (f a) eqn:Hf; simpl; rewrite ?Hg, ?Hf, IH; auto.
Qed.

Lemma flat_map_ext_eq {A B} (g h : A -> list B) l : (forall a, g a = h a) -> flat_map g l = flat_map h l.
Proof. intros H. induction l as [|a r IH]; simpl; auto. now rewrite H, IH. Qed.

Definition mfilter (f : N) (e : N * status) : bool := match_ (st_bits (snd e)) f.

Lemma local_entry_filter s f e : want_state f = true ->
  filter (mfilter f) (local_entry s f e) = filter (mfilter f) (local_entry s 0 e).
Proof.
  intros Hw. destruct e as [c p]. rewrite local_entry0. unfold local_entry, mfilter.
  destruct (pmeta p).
  - rewrite (match_sym f 2048). simpl. destruct (match_ 2048 f) eqn:E; simpl; rewrite ?E; reflexivity.
  - destruct (premote p).
    + rewrite (match_sym f 256). simpl. destruct (match_ 256 f) eqn:E; simpl; rewrite ?E; reflexivity.
    + destruct (ipfs_has s c (pdirect p)); [|rewrite andb_false_r; reflexivity].
      rewrite andb_true_r. destruct (want_ipfs f) eqn:Hi; [reflexivity|].
      unfold want_ipfs in Hi. simpl.
      rewrite (nomatch_bit f (16 + 4096) 4096) by (auto; try discriminate; reflexivity).
      rewrite (nomatch_bit f (16 + 4096) 16) by (auto; try discriminate; reflexivity). reflexivity.
Qed.

Lemma local_status_filter s f :
  filter (mfilter f) (local_status s f) = filter (mfilter f) (flat_map (local_entry s 0) (pinset s)).
Proof.
  unfold local_status. destruct (want_state f) eqn:Hw.
  - rewrite !filter_flat_map. apply flat_map_ext_eq. intros e. now apply local_entry_filter.
  - simpl. rewrite filter_flat_map. symmetry.
    assert (H : forall e, filter (mfilter f) (local_entry s 0 e) = []).
    { intros [c p]. rewrite local_entry0. unfold mfilter. simpl. unfold want_state in Hw.
      assert (M : forall x, In x [SSharded; SRemote; SPinned; SUnexpectedly] -> match_ (st_bits x) f = false).
      { intros x Hx. apply (nomatch_bit f (16 + 4096 + 2048 + 256)); auto.
        - destruct x; discriminate.
        - simpl in Hx. destruct Hx as [<-|[<-|[<-|[<-|[]]]]]; reflexivity. }
      destruct (pmeta p); [rewrite M; simpl; auto|]. destruct (premote p); [rewrite M; simpl; auto|].
      destruct (ipfs_has s c (pdirect p)); rewrite M; simpl; auto. }
    induction (pinset s) as [|e r IH]; simpl; auto. now rewrite H, IH.
Qed.

Lemma status_filter_law_l s f : status_all s f = filter (mfilter f) (status_all s 0).
Proof.
  rewrite status_all0. unfold status_all. fold (mfilter f). rewrite !filter_app. f_equal.
  rewrite (filter_comm (mfilter f)), local_status_filter, (filter_comm (mfilter f)). reflexivity.
Qed.

(* ------------------------------------------------------------------------------------------------------------ *)
(* the two views agree, at every state *)

Definition listed (s : st) (c : N) : option status := aget c (status_all s 0).

Lemma listed_entry s c : NoDup (akeys (table s)) -> NoDup (akeys (pinset s)) -> listed s c = entry_of s c.
Proof.
  intros Nt Np. unfold listed. destruct (entry_of s c) as [x|] eqn:He.
  - apply aget_in_nodup; [apply (status_all0_nodup s Nt Np)|]. now apply status_all0_in.
  - destruct (aget c (status_all s 0)) as [x|] eqn:Ha; auto. apply aget_some_in in Ha.
    apply status_all0_in in Ha; auto. congruence.
Qed.

Lemma views_agree_l s c : NoDup (akeys (table s)) -> NoDup (akeys (pinset s)) ->
  class_of (status_of s c) = match listed s c with Some x => class_of x | None => CUnpinned end.
Proof.
  intros Nt Np. rewrite (listed_entry s c Nt Np). unfold entry_of, status_of.
  destruct (aget c (table s)) as [o|]; auto. destruct (aget c (pinset s)) as [p|]; auto.
  destruct (pmeta p); auto. destruct (premote p); auto. destruct (ipfs_has s c (pdirect p)); auto.
Qed.

(* ------------------------------------------------------------------------------------------------------------ *)
(* truthfulness at quiescence *)

(* a cid does not change between meta and non-meta without being unpinned first (Cluster.pin enforces it) *)
Definition ev_stable (s : st) (e : event) : Prop :=
  match e with
  | ETrack p => match aget (pcid p) (pinset s) with Some p0 => pmeta p0 = pmeta p | None => True end
  | _ => True
  end.
Fixpoint stable_run (s : st) (evs : list event) : Prop :=
  match evs with [] => True | e :: r => ev_stable s e /\ stable_run (fst (step s e)) r end.

(* a meta pin never sits on top of the operation of a remote pin *)
Definition MInv (s : st) : Prop :=
  forall c p, aget c (last s) = Some (ITrack p) -> pmeta p = true -> ty s c <> Some ORemote.

Lemma recover_with_ty s c x c' : Inv s -> (forall p, aget c (pinset s) = Some p -> pcid p = c) ->
  ty (fst (recover_with s c x)) c' = ty s c' \/ (c' = c /\ ty (fst (recover_with s c x)) c' <> Some ORemote).
Proof.
  intros I K. destruct (N.eq_dec c' c) as [->|Hne].
  2:{ left. apply ty_frame. now apply recover_with_frame. }
  unfold recover_with. destruct x; auto.
  - destruct (aget c (pinset s)) as [p|] eqn:Hp; auto. right. split; auto.
    destruct (enqueue_result s p OPin I) as (o & Ho & T & _); [discriminate|]. rewrite (K _ eq_refl) in Ho.
    unfold ty. rewrite Ho. simpl. rewrite T. discriminate.
  - right. split; auto. destruct (enqueue_result s (pincid c) OUnpin I) as (o & Ho & T & _); [discriminate|]. simpl in Ho.
    unfold ty. rewrite Ho. simpl. rewrite T. discriminate.
  - destruct (aget c (pinset s)) as [p|] eqn:Hp; auto. right. split; auto.
    destruct (enqueue_result s p OPin I) as (o & Ho & T & _); [discriminate|]. rewrite (K _ eq_refl) in Ho.
    unfold ty. rewrite Ho. simpl. rewrite T. discriminate.
Qed.

Lemma recover_list_minv b l : forall s, Inv s -> LInv b s -> NoDup (map fst l) ->
  (forall c x, In (c, x) l -> x_ok s c x) -> MInv s -> MInv (fst (recover_list s l)).
Proof.
  induction l as [|[c x] r IH]; intros s I L Nd X M; simpl; auto.
  pose proof (recover_with_inv s c x I) as I1.
  pose proof (recover_with_linv b s c x I L (X c x (or_introl eq_refl))) as L1.
  destruct (recover_with_fields s c x) as (Hi & Hp & Hl).
  assert (M1 : MInv (fst (recover_with s c x))).
  { intros c' p. rewrite Hl. intros Hla Hm. destruct (recover_with_ty s c x c' I (li_keyed _ _ L c)) as [E|[_ E]]; auto.
    rewrite E. exact (M c' p Hla Hm). }
  assert (X1 : forall c' x', In (c', x') r -> x_ok (fst (recover_with s c x)) c' x').
  { intros c' x' Hin. simpl in Nd. inversion Nd; subst.
    assert (Hne : c' <> c). { intros ->. apply H1. apply in_map_iff. exists (c, x'). auto. }
    destruct (X c' x' (or_intror Hin)) as [A|A]; [now left|right]. rewrite A. symmetry. apply status_of_frame; auto.
    - apply recover_with_frame; auto. apply L.
    - now rewrite Hi. }
  destruct (recover_with s c x) as [s' [|]]; simpl in *; auto.
  apply IH; auto. now inversion Nd.
Qed.

Lemma step_minv b s e : Inv s -> LInv b s -> MInv s -> ev_stable s e -> MInv (fst (step s e)).
Proof.
  intros I L M St. unfold step.
  assert (M1 : MInv (fst (step_raw s e))).
  { destruct e; simpl.
    - (* track *) destruct (track_effect s p I) as (Hp & Hl & _ & Fo & Fc). intros c q. rewrite Hl.
      destruct (N.eq_dec c (pcid p)) as [->|Hne].
      + rewrite aget_aput_same. intros H Hm. inversion H; subst q. rewrite Hm in Fc. rewrite (ty_frame _ _ _ Fc).
        intros Hr. pose proof (li_lab _ _ L (pcid p)) as Lc. unfold lab in Lc. simpl in St.
        destruct (aget (pcid p) (last s)) as [[p0|]|] eqn:Hla.
        * destruct Lc as [Lp Lc]. rewrite Lp in St. destruct (pmeta p0) eqn:Hm0; [exact (M _ _ Hla Hm0 Hr)|congruence].
        * destruct Lc as [_ [Lc|[Lc _]]]; congruence.
        * destruct Lc; congruence.
      + rewrite aget_aput_other by auto. rewrite (ty_frame _ _ _ (Fo c Hne)). apply M.
    - (* untrack *) destruct (untrack_effect s c I) as (_ & Hl & _ & Fo & Fc). intros c' q. rewrite Hl.
      destruct (N.eq_dec c' c) as [->|Hne]; [rewrite aget_aput_same; discriminate|].
      rewrite aget_aput_other by auto. rewrite (ty_frame _ _ _ (Fo c' Hne)). apply M.
    - (* recover *) destruct (recover_with_fields s c (status_of s c)) as (_ & _ & Hl). intros c' q. unfold recover. rewrite Hl.
      intros Hla Hm. destruct (recover_with_ty s c (status_of s c) c' I (li_keyed _ _ L c)) as [E|[_ E]]; auto.
      rewrite E. exact (M c' q Hla Hm).
    - (* recoverall *) unfold recover_all.
      pose proof (status_all0_nodup s (inv_nodup _ I) (li_pnodup _ _ L)) as Nd.
      apply (recover_list_minv b); auto; [now apply order_by_nodup|].
      intros c x Hin. apply order_by_in in Hin; auto. apply entry_xok. apply status_all0_in; auto. apply I. apply L.
    - (* complete *) destruct (complete_effect s c fault I) as (_ & Hl & Fo & Hc). intros c' q. rewrite Hl. intros Hla Hm.
      destruct (N.eq_dec c' c) as [->|Hne]; [|rewrite (ty_frame _ _ _ (proj1 (Fo c' Hne))); now apply (M c' q)].
      destruct Hc as [[E _]|(cl & o & _ & _ & Ho & _ & _ & _ & _ & Hres)]; [rewrite E; now apply (M c q)|].
      destruct (snd (call_outcome s c fault (ckd cl) o)).
      + unfold ty. rewrite Hres. discriminate.
      + destruct Hres as (o' & Ho' & T & _). unfold ty. rewrite Ho'. simpl. rewrite T.
        pose proof (M c q Hla Hm) as Mc. unfold ty in Mc. rewrite Ho in Mc. exact Mc.
    - (* daemon *) exact M. }
  pose proof (step_raw_inv s e I) as I1. destruct (step_raw s e) as [s' r]. simpl in *.
  intros c p. rewrite dispatch_last, (ty_frame _ _ _ (dispatch_frame s' c I1)). apply M1.
Qed.

Lemma run_minv evs : forall s, Inv s -> LInv false s -> MInv s -> stable_run s evs -> MInv (run s evs).
Proof.
  induction evs as [|e r IH]; intros s I L M St; simpl; auto. destruct St as [St1 St2]. apply IH; auto.
  - now apply step_inv.
  - apply step_linv; auto. discriminate.
  - now apply (step_minv false).
Qed.

Definition failed_op (s : st) (c : N) : bool :=
  match aget c (table s) with
  | Some o => match otyp o with ORemote => false | _ => phase_eqb (oph o) PError end
  | None => false end.

(* the facts: shared state, daemon content, whether the last pin / unpin of the cid failed *)
Definition expected_class (s : st) (c : N) : cls :=
  if failed_op s c then CError
  else match aget c (pinset s) with
       | None => CUnpinned
       | Some p => if pmeta p then CSharded else if premote p then CRemote
                   else if ipfs_has s c (pdirect p) then CPinned else CError
       end.

Lemma truthful_l s c : Inv s -> LInv false s -> MInv s -> quiescent s = true ->
  class_of (status_of s c) = expected_class s c.
Proof.
  intros I L M Q. unfold expected_class, failed_op, status_of.
  destruct (aget c (table s)) as [o|] eqn:Ho.
  - rewrite (quiescent_errors s I Q c o Ho). unfold op_status. rewrite (quiescent_errors s I Q c o Ho).
    destruct (otyp o) eqn:T; simpl; auto.
    (* the failed local unpin of a remote pin: reported as remote, and the shared state says remote *)
    pose proof (li_lab _ _ L c) as Lc. unfold lab, ty in Lc. rewrite Ho in Lc. simpl in Lc. rewrite T in Lc.
    destruct (aget c (last s)) as [[p|]|] eqn:Hla.
    + destruct Lc as [Lp Lc]. rewrite Lp. destruct (pmeta p) eqn:Hm.
      * exfalso. apply (M c p Hla Hm). unfold ty. rewrite Ho. simpl. now rewrite T.
      * destruct (premote p); auto. destruct Lc; congruence.
    + destruct Lc as [_ [Lc|[Lc _]]]; congruence.
    + destruct Lc; congruence.
  - destruct (aget c (pinset s)) as [p|]; auto. destruct (pmeta p); auto. destruct (premote p); auto.
    destruct (ipfs_has s c (pdirect p)); auto.
Qed.

Lemma init_minv q n ps i : MInv (init q n ps i).
Proof. intros c p. simpl. discriminate. Qed.

(* ------------------------------------------------------------------------------------------------------------ *)
(* statements over reachable states *)

Lemma no_pending_l s c : Inv s -> quiescent s = true -> class_of (status_of s c) <> CPending.
Proof.
  intros I Q. unfold status_of. destruct (aget c (table s)) as [o|] eqn:Ho.
  - unfold op_status. rewrite (quiescent_errors s I Q c o Ho). destruct (otyp o); discriminate.
  - destruct (aget c (pinset s)) as [p|]; [|discriminate]. destruct (pmeta p); [discriminate|].
    destruct (premote p); [discriminate|]. destruct (ipfs_has s c (pdirect p)); discriminate.
Qed.

Lemma views_agree_reached q n ps i evs c : wf_pinset ps ->
  class_of (status_of (run (init q n ps i) evs) c) =
  match listed (run (init q n ps i) evs) c with Some x => class_of x | None => CUnpinned end.
Proof.
  intros W. apply views_agree_l; [apply (inv_nodup _ (reached_inv q n ps i evs))|apply (li_pnodup _ _ (reached_linv_all q n ps i evs W))].
Qed.

Lemma truthful_reached q n ps i evs c : wf_pinset ps -> stable_run (init q n ps i) evs ->
  quiescent (run (init q n ps i) evs) = true ->
  class_of (status_of (run (init q n ps i) evs) c) = expected_class (run (init q n ps i) evs) c /\
  match listed (run (init q n ps i) evs) c with Some x => class_of x | None => CUnpinned end
    = expected_class (run (init q n ps i) evs) c.
Proof.
  intros W St Q.
  assert (T : class_of (status_of (run (init q n ps i) evs) c) = expected_class (run (init q n ps i) evs) c).
  { apply truthful_l; auto using reached_inv, reached_linv_all.
    apply run_minv; auto using init_inv, init_minv. now apply init_linv. }
  split; auto. now rewrite <- views_agree_reached.
Qed.
