(* C16 — lemmas about the connector model (Model/C16_Connector.v) and the boolean checks (Model/C16_Check.v). *)
From V Require Import Base.Common Base.CommonLemmas Model.C16_Connector Model.C16_Check.
Open Scope Z_scope.

Lemma pmode_eqb_eq a b : pmode_eqb a b = true <-> a = b.
Proof. destruct a, b; simpl; split; intro H; congruence. Qed.

(* ---------- the daemon contract ---------- *)
Lemma serve_ls_fst d c t b : fst (serve d (CLs c t) b) = d.
Proof. destruct b as [k sl|m| |acted| |k| |k| ]; simpl; auto. destruct acted; auto. Qed.

Lemma serve_body d cl b : snd (serve d cl b) = PBody ->
  snd (act d cl) = AOk /\ fst (serve d cl b) = fst (act d cl).
Proof.
  destruct b as [k sl|m| |acted| |k| |k| ]; simpl; try discriminate.
  - destruct (act d cl) as [d1 [|m]]; simpl; auto; discriminate.
  - destruct (is_add cl); discriminate.
  - destruct (is_add cl || is_ls cl); discriminate.
Qed.

Lemma serve_fst d cl b : fst (serve d cl b) = d \/ fst (serve d cl b) = fst (act d cl).
Proof.
  destruct b as [k sl|m| |acted| |k| |k| ]; simpl; auto.
  - destruct (act d cl); simpl; auto.
  - destruct acted; auto.
Qed.

Lemma serve_notpinned d cl b : snd (serve d cl b) = PErr MNotPinned ->
  (exists k sl, b = BOk k sl /\ snd (act d cl) = AErr MNotPinned /\ fst (serve d cl b) = fst (act d cl))
  \/ (b = BErr MNotPinned /\ fst (serve d cl b) = d).
Proof.
  destruct b as [k sl|m| |acted| |k| |k| ]; simpl; try discriminate.
  - destruct (act d cl) as [d1 [|m]]; simpl; try discriminate. intros H; injection H as ->. left; eauto.
  - intros H; injection H as ->. auto.
  - destruct (is_add cl); discriminate.
  - destruct (is_add cl || is_ls cl); discriminate.
Qed.

Lemma act_ls_ok d c t : snd (act d (CLs c t)) = AOk <-> aget c d = Some t.
Proof.
  simpl. destruct (aget c d) as [m|]; simpl.
  - destruct (pmode_eqb m t) eqn:E; simpl.
    + apply pmode_eqb_eq in E. subst. tauto.
    + split; [discriminate|]. intros H; injection H as ->. destruct t; discriminate.
  - split; discriminate.
Qed.

Lemma act_add_frame d c rc md pr k : k <> c -> aget k (fst (act d (CAdd c rc md pr))) = aget k d.
Proof.
  intros Hk. destruct rc; simpl.
  - now apply aget_aput_other.
  - destruct (aget c d) as [[|]|]; simpl; auto; now apply aget_aput_other.
Qed.

Lemma act_add_ok d c rc md pr : snd (act d (CAdd c rc md pr)) = AOk ->
  aget c (fst (act d (CAdd c rc md pr))) = Some (if rc then Rec else Dir).
Proof.
  destruct rc; simpl.
  - intros _. apply aget_aput_same.
  - destruct (aget c d) as [[|]|]; simpl; try discriminate; intros _; apply aget_aput_same.
Qed.

Lemma act_update_frame d f t k : k <> t -> aget k (fst (act d (CUpdate f t false))) = aget k d.
Proof.
  intros Hk. simpl. destruct (aget f d) as [[|]|]; simpl; auto.
  destruct (N.eqb f t); simpl; auto.
  destruct (aget t d) as [[|]|]; simpl; auto; now apply aget_aput_other.
Qed.

Lemma act_update_ok d f t : snd (act d (CUpdate f t false)) = AOk ->
  aget f d = Some Rec /\ aget t (fst (act d (CUpdate f t false))) = Some Rec.
Proof.
  simpl. destruct (aget f d) as [[|]|] eqn:Ef; simpl; try discriminate.
  destruct (N.eqb f t) eqn:Eft; simpl.
  - apply N.eqb_eq in Eft. subst. auto.
  - destruct (aget t d) as [[|]|]; simpl; try discriminate; intros _; split; auto; apply aget_aput_same.
Qed.

Lemma act_update_src d f t : aget f d = Some Rec -> aget f (fst (act d (CUpdate f t false))) = Some Rec.
Proof.
  intros Hf. destruct (N.eq_dec f t) as [->|Hne].
  - simpl. rewrite Hf, N.eqb_refl. simpl. exact Hf.
  - rewrite act_update_frame; auto.
Qed.

Lemma act_rm_frame d c k : k <> c -> aget k (fst (act d (CRm c))) = aget k d.
Proof.
  intros Hk. simpl. destruct (aget c d); simpl; auto. now apply aget_adel_other.
Qed.

Lemma act_rm_ok d c : snd (act d (CRm c)) = AOk -> aget c (fst (act d (CRm c))) = None.
Proof. simpl. destruct (aget c d); simpl; try discriminate. intros _. apply aget_adel_same. Qed.

Lemma act_rm_notpinned d c : snd (act d (CRm c)) = AErr MNotPinned -> aget c d = None /\ fst (act d (CRm c)) = d.
Proof. simpl. destruct (aget c d); simpl; try discriminate. auto. Qed.

Lemma act_rm_unpinned d c : aget c d = None -> act d (CRm c) = (d, AErr MNotPinned).
Proof. simpl. intros ->. reflexivity. Qed.

(* ---------- the four ways through Pin ---------- *)
Definition pt (p : pinreq) := to_pin_mode (p_depth p).
Definition ls1 (p : pinreq) := CLs (p_cid p) (pt p).
Definition r1 (p : pinreq) (d : daemon) (s : script) := snd (serve d (ls1 p) (fst (pop s))).
Definition pt2 (p : pinreq) := to_pin_mode (to_pin_depth (p_mode p)).
Definition ls2 (p : pinreq) (from : N) := CLs from (pt2 p).
Definition r2 (p : pinreq) (from : N) (d : daemon) (s : script) := snd (serve d (ls2 p from) (fst (pop (snd (pop s))))).

Inductive pin_path (ct : bool) (p : pinreq) (d : daemon) (s : script) : result * daemon * list exchange -> Prop :=
| PLsErr :
    snd (ls_outcome (pt p) (r1 p d s)) = true ->
    pin_path ct p d s (RErr, d, [(ls1 p, r1 p d s)])
| PShort :
    snd (ls_outcome (pt p) (r1 p d s)) = false ->
    is_pinned (fst (ls_outcome (pt p) (r1 p d s))) (p_depth p) = true ->
    pin_path ct p d s (ROk, d, [(ls1 p, r1 p d s)])
| PUpdate from b3 :
    snd (ls_outcome (pt p) (r1 p d s)) = false ->
    is_pinned (fst (ls_outcome (pt p) (r1 p d s))) (p_depth p) = false ->
    p_update p = Some from ->
    is_pinned (fst (ls_outcome (pt2 p) (r2 p from d s))) (-1) = true ->
    b3 = fst (pop (snd (pop (snd (pop s))))) ->
    pin_path ct p d s (update_outcome (snd (serve d (CUpdate from (p_cid p) false) b3)),
                       fst (serve d (CUpdate from (p_cid p) false) b3),
                       [(ls1 p, r1 p d s); (ls2 p from, r2 p from d s);
                        (CUpdate from (p_cid p) false, snd (serve d (CUpdate from (p_cid p) false) b3))])
| PAdd pre b3 :
    snd (ls_outcome (pt p) (r1 p d s)) = false ->
    is_pinned (fst (ls_outcome (pt p) (r1 p d s))) (p_depth p) = false ->
    (p_update p = None /\ pre = [(ls1 p, r1 p d s)] /\ b3 = fst (pop (snd (pop s)))) \/
    (exists from, p_update p = Some from /\
       is_pinned (fst (ls_outcome (pt2 p) (r2 p from d s))) (-1) = false /\
       pre = [(ls1 p, r1 p d s); (ls2 p from, r2 p from d s)] /\ b3 = fst (pop (snd (pop (snd (pop s)))))) ->
    pin_path ct p d s (add_outcome ct (snd (serve d (add_call (p_cid p) (p_depth p)) b3)),
                       fst (serve d (add_call (p_cid p) (p_depth p)) b3),
                       pre ++ [(add_call (p_cid p) (p_depth p), snd (serve d (add_call (p_cid p) (p_depth p)) b3))]).

Lemma conn_pin_path ct p d s : pin_path ct p d s (conn_pin_gen ct p d s).
Proof.
  unfold conn_pin_gen, pin_ls_cid. cbv beta iota zeta. rewrite !serve_ls_fst.
  fold (pt p) (ls1 p). fold (r1 p d s).
  destruct (snd (ls_outcome (pt p) (r1 p d s))) eqn:E1; [now apply PLsErr|].
  destruct (is_pinned (fst (ls_outcome (pt p) (r1 p d s))) (p_depth p)) eqn:E2; [now apply PShort|].
  destruct (p_update p) as [from|] eqn:EU.
  - rewrite !serve_ls_fst. fold (pt2 p) (ls2 p from). fold (r2 p from d s).
    destruct (is_pinned (fst (ls_outcome (pt2 p) (r2 p from d s))) (-1)) eqn:E3.
    + unfold pin_update. cbv beta iota zeta. cbn [app]. eapply PUpdate; eauto.
    + unfold pin_progress. cbv beta iota zeta.
      apply (PAdd ct p d s [(ls1 p, r1 p d s); (ls2 p from, r2 p from d s)]); auto.
      right. exists from. auto.
  - unfold pin_progress. cbv beta iota zeta.
    apply (PAdd ct p d s [(ls1 p, r1 p d s)]); auto.
Qed.

Lemma is_pinned_unpinned depth : is_pinned StUnpinned depth = false.
Proof. unfold is_pinned. destruct (depth <? 0), (depth =? 0); reflexivity. Qed.
Lemma is_pinned_error depth : is_pinned StError depth = false.
Proof. unfold is_pinned. destruct (depth <? 0), (depth =? 0); reflexivity. Qed.

Lemma ls_pinned_inv t r depth : is_pinned (fst (ls_outcome t r)) depth = true ->
  r = PBody /\ is_pinned (status_of_mode t) depth = true.
Proof.
  destruct r; simpl; auto; rewrite ?is_pinned_unpinned, ?is_pinned_error; discriminate.
Qed.

Lemma is_pinned_mode t depth : is_pinned (status_of_mode t) depth = true -> t = mode_of depth.
Proof.
  unfold is_pinned, mode_of.
  destruct (depth <? 0) eqn:E1; destruct (depth =? 0) eqn:E2; destruct t; simpl; try discriminate; auto.
  apply Z.ltb_lt in E1. apply Z.eqb_eq in E2. lia.
Qed.

Lemma pt_mode_of p : pt p = mode_of (p_depth p).
Proof. reflexivity. Qed.

Lemma pt2_mode p : pt2 p = p_mode p.
Proof. unfold pt2, to_pin_mode, to_pin_depth. destruct (p_mode p); reflexivity. Qed.

Lemma add_call_shape c depth : exists md, add_call c depth = CAdd c (negb (depth =? 0)) md true.
Proof.
  unfold add_call. destruct (depth <? 0) eqn:E1; destruct (depth =? 0) eqn:E2; simpl; eauto.
  apply Z.ltb_lt in E1. apply Z.eqb_eq in E2. lia.
Qed.

Lemma add_ok_inv ct r : add_outcome ct r = ROk -> r = PBody \/ (ct = false /\ r = PTrailer).
Proof. destruct r; simpl; auto; try discriminate. destruct ct; auto; discriminate. Qed.
Lemma update_ok_inv r : update_outcome r = ROk -> r = PBody.
Proof. destruct r; simpl; auto; discriminate. Qed.
Lemma rm_ok_inv r : rm_outcome r = ROk -> r = PBody \/ r = PErr MNotPinned.
Proof. destruct r as [|[|]| | | | |]; simpl; auto; discriminate. Qed.

(* the short-cut: the answer was the entry, so the daemon holds c in the asked mode *)
Lemma short_inv p d s : is_pinned (fst (ls_outcome (pt p) (r1 p d s))) (p_depth p) = true ->
  r1 p d s = PBody /\ aget (p_cid p) d = Some (mode_of (p_depth p)).
Proof.
  intros H. apply ls_pinned_inv in H as [Hr _]. split; auto.
  unfold r1 in Hr. apply serve_body in Hr as [Ha _]. unfold ls1 in Ha. apply act_ls_ok in Ha. exact Ha.
Qed.

Lemma src_inv p from d s : is_pinned (fst (ls_outcome (pt2 p) (r2 p from d s))) (-1) = true ->
  p_mode p = Rec /\ aget from d = Some Rec.
Proof.
  intros H. apply ls_pinned_inv in H as [Hr Hm]. apply is_pinned_mode in Hm. rewrite pt2_mode in Hm.
  split; [exact Hm|].
  unfold r2 in Hr. apply serve_body in Hr as [Ha _]. unfold ls2 in Ha. apply act_ls_ok in Ha.
  rewrite pt2_mode, Hm in Ha. exact Ha.
Qed.

(* ---------- pin_success_sound ---------- *)
Lemma pin_success_sound_l p d s d' x : update_consistent p = true ->
  conn_pin p d s = (ROk, d', x) -> aget (p_cid p) d' = Some (mode_of (p_depth p)).
Proof.
  intros Hc H. pose proof (conn_pin_path true p d s) as P. unfold conn_pin in H. rewrite H in P.
  inversion P as [E1 | E1 E2 | from b3 E1 E2 EU E3 Eb Hr | pre b3 E1 E2 Hor Hr]; subst.
  - apply short_inv in E2 as [_ Hd]. exact Hd.
  - apply src_inv in E3 as [Hm Hs].
    apply update_ok_inv in Hr. apply serve_body in Hr as [Ha Hf]. rewrite Hf.
    apply act_update_ok in Ha as [_ Ht]. rewrite Ht.
    unfold update_consistent in Hc. rewrite EU, Hm in Hc. unfold mode_of.
    destruct (p_depth p =? 0); [discriminate|reflexivity].
  - apply add_ok_inv in Hr as [Hr|[Hf _]]; [|discriminate].
    apply serve_body in Hr as [Ha Hf]. rewrite Hf.
    destruct (add_call_shape (p_cid p) (p_depth p)) as [md Hs]. rewrite Hs in *.
    apply act_add_ok in Ha. rewrite Ha. unfold mode_of. destruct (p_depth p =? 0); reflexivity.
Qed.

(* the code as first written (no trailer check) reports a pin the daemon never made *)
Lemma pin_trailer_refuted_l : exists p d s d' x,
  update_consistent p = true /\ conn_pin_as_written p d s = (ROk, d', x) /\ aget (p_cid p) d' = None.
Proof.
  exists (mk_pin 0%N (-1) Rec 0%N None), [], [BOk 0%N false; BProgErr 1%N].
  eexists. eexists. vm_compute. repeat split.
Qed.

(* ---------- only the target changes ---------- *)
Lemma pin_frame_l p d s r d' x k : conn_pin p d s = (r, d', x) -> k <> p_cid p -> aget k d' = aget k d.
Proof.
  intros H Hk. pose proof (conn_pin_path true p d s) as P. unfold conn_pin in H. rewrite H in P.
  inversion P as [E1 | E1 E2 | from b3 E1 E2 EU E3 Eb Hr | pre b3 E1 E2 Hor Hr]; subst; auto.
  - destruct (serve_fst d (CUpdate from (p_cid p) false) (fst (pop (snd (pop (snd (pop s))))))) as [->| ->]; auto.
    now apply act_update_frame.
  - destruct (serve_fst d (add_call (p_cid p) (p_depth p)) b3) as [->| ->]; auto.
    destruct (add_call_shape (p_cid p) (p_depth p)) as [md ->]. now apply act_add_frame.
Qed.

(* ---------- already pinned as asked: exactly the pin/ls ---------- *)
Lemma head_ok_pop s : head_ok s = true -> exists k sl, fst (pop s) = BOk k sl.
Proof. destruct s as [|[]]; simpl; try discriminate; eauto. Qed.

Lemma already_pinned_l p d s : aget (p_cid p) d = Some (mode_of (p_depth p)) -> head_ok s = true ->
  conn_pin p d s = (ROk, d, [(CLs (p_cid p) (to_pin_mode (p_depth p)), PBody)]).
Proof.
  intros Hd Hs. apply head_ok_pop in Hs as (k & sl & Hb).
  assert (Hr : r1 p d s = PBody).
  { unfold r1, ls1, pt. rewrite Hb. simpl. unfold to_pin_mode, mode_of in *. rewrite Hd.
    destruct (p_depth p =? 0); reflexivity. }
  unfold conn_pin, conn_pin_gen, pin_ls_cid. cbv beta iota zeta. rewrite !serve_ls_fst.
  fold (pt p) (ls1 p). fold (r1 p d s). rewrite Hr. simpl.
  assert (Hp : is_pinned (status_of_mode (pt p)) (p_depth p) = true).
  { unfold pt, to_pin_mode, is_pinned. destruct (p_depth p <? 0) eqn:E1; destruct (p_depth p =? 0) eqn:E2; simpl; auto.
    apply Z.ltb_lt in E1. apply Z.eqb_eq in E2. lia. }
  rewrite Hp. reflexivity.
Qed.

(* ---------- pin/update discipline ---------- *)
Lemma update_request_l p d s r d' x f t u : conn_pin p d s = (r, d', x) -> In (CUpdate f t u) (requests x) ->
  p_update p = Some f /\ t = p_cid p /\ u = false /\ p_mode p = Rec /\ aget f d = Some Rec /\ aget f d' = Some Rec.
Proof.
  intros H Hin. pose proof (conn_pin_path true p d s) as P. unfold conn_pin in H. rewrite H in P.
  inversion P as [E1 | E1 E2 | from b3 E1 E2 EU E3 Eb Hr | pre b3 E1 E2 Hor Hr]; subst; unfold requests in Hin; simpl in Hin.
  - destruct Hin as [Hc|[]]. discriminate.
  - destruct Hin as [Hc|[]]. discriminate.
  - destruct Hin as [Hc|[Hc|[Hc|[]]]]; try discriminate. injection Hc as Hf Ht Hu. subst from t u.
    apply src_inv in E3 as [Hm Hs].
    assert (Hk : aget f (fst (serve d (CUpdate f (p_cid p) false) (fst (pop (snd (pop (snd (pop s)))))))) = Some Rec).
    { destruct (serve_fst d (CUpdate f (p_cid p) false) (fst (pop (snd (pop (snd (pop s))))))) as [->| ->]; auto.
      now apply act_update_src. }
    repeat split; auto.
  - exfalso. destruct (add_call_shape (p_cid p) (p_depth p)) as [md Hs]. rewrite Hs in Hin.
    rewrite map_app in Hin. apply in_app_or in Hin as [Hin|Hin].
    + destruct Hor as [(_ & -> & _)|(from & _ & _ & -> & _)]; simpl in Hin.
      * destruct Hin as [Hc|[]]. discriminate.
      * destruct Hin as [Hc|[Hc|[]]]; discriminate.
    + simpl in Hin. destruct Hin as [Hc|[]]. discriminate.
Qed.

(* ---------- failures on the decisive exchange ---------- *)
Lemma last_failed_snoc pre e : last_failed (pre ++ [e]) = is_failure e.
Proof. unfold last_failed. rewrite rev_app_distr. reflexivity. Qed.
Lemma last_stall_snoc pre e : last_is_update_stall (pre ++ [e]) = match e with (CUpdate _ _ _, PStall) => true | _ => false end.
Proof. unfold last_is_update_stall. rewrite rev_app_distr. reflexivity. Qed.

Lemma ls_err_or_failure t r : snd (ls_outcome t r) = true -> r <> PBody.
Proof. destruct r; simpl; discriminate. Qed.

Lemma pin_failure_l p d s r d' x : conn_pin p d s = (r, d', x) -> last_failed x = true ->
  r = RErr \/ (r = RHang /\ last_is_update_stall x = true).
Proof.
  intros H Hl. pose proof (conn_pin_path true p d s) as P. unfold conn_pin in H. rewrite H in P.
  inversion P as [E1 | E1 E2 | from b3 E1 E2 EU E3 Eb Hr | pre b3 E1 E2 Hor Hr]; subst; auto.
  - apply short_inv in E2 as [Hr _]. unfold last_failed in Hl. simpl in Hl. unfold is_failure in Hl. simpl in Hl.
    rewrite Hr in Hl. discriminate.
  - change [(ls1 p, r1 p d s); (ls2 p from, r2 p from d s);
            (CUpdate from (p_cid p) false, snd (serve d (CUpdate from (p_cid p) false) (fst (pop (snd (pop (snd (pop s))))))))]
      with ([(ls1 p, r1 p d s); (ls2 p from, r2 p from d s)] ++
            [(CUpdate from (p_cid p) false, snd (serve d (CUpdate from (p_cid p) false) (fst (pop (snd (pop (snd (pop s))))))))]) in *.
    rewrite last_failed_snoc in Hl. rewrite last_stall_snoc. unfold is_failure in Hl. simpl in Hl.
    destruct (snd (serve d (CUpdate from (p_cid p) false) (fst (pop (snd (pop (snd (pop s)))))))) as [|[|]| | | | |];
      simpl in *; auto; discriminate.
  - rewrite last_failed_snoc in Hl. unfold is_failure in Hl. simpl in Hl.
    destruct (add_call_shape (p_cid p) (p_depth p)) as [md Hs]. rewrite Hs in *. simpl in Hl.
    destruct (snd (serve d (CAdd (p_cid p) (negb (p_depth p =? 0)) md true) b3)) as [|[|]| | | | |];
      simpl in *; auto; discriminate.
Qed.

Lemma pin_stall_l p d s r d' x pre cl : conn_pin p d s = (r, d', x) -> x = pre ++ [(cl, PStall)] ->
  is_update cl = false -> r = RErr.
Proof.
  intros H Hx Hu.
  assert (Hl : last_failed x = true) by (rewrite Hx, last_failed_snoc; reflexivity).
  destruct (pin_failure_l _ _ _ _ _ _ H Hl) as [->|[_ Hs]]; auto.
  rewrite Hx, last_stall_snoc in Hs. destruct cl; simpl in *; discriminate.
Qed.

Lemma pin_update_stall_hangs_l : exists p d s r d' x pre cl,
  conn_pin p d s = (r, d', x) /\ x = pre ++ [(cl, PStall)] /\ r = RHang.
Proof.
  exists (mk_pin 0%N (-1) Rec 0%N (Some 1%N)), [(1%N, Rec)], [BOk 0%N false; BOk 0%N false; BStall].
  do 3 eexists. exists [(CLs 0%N Rec, PErr MOther); (CLs 1%N Rec, PBody)], (CUpdate 1%N 0%N false).
  vm_compute. repeat split.
Qed.

(* ---------- Unpin ---------- *)
Lemma unpin_success_sound_l c d s d' x : conn_unpin false c d s = (ROk, d', x) -> honest_rm c d s = true ->
  aget c d' = None.
Proof.
  unfold conn_unpin. intros H Hh. injection H as Hr Hd Hx. subst d'.
  apply rm_ok_inv in Hr as [Hr|Hr].
  - apply serve_body in Hr as [Ha Hf]. rewrite Hf. now apply act_rm_ok.
  - apply serve_notpinned in Hr as [(k & sl & Hb & Ha & Hf)|[Hb Hf]]; rewrite Hf.
    + apply act_rm_notpinned in Ha as [Hn Hd]. rewrite Hd. exact Hn.
    + unfold honest_rm in Hh. destruct s as [|b s']; simpl in Hb; [discriminate|]. subst b.
      destruct (aget c d); [discriminate|reflexivity].
Qed.

Lemma unpin_disabled_l c d s : conn_unpin true c d s = (RErr, d, []).
Proof. reflexivity. Qed.

Lemma unpin_not_pinned_l c d s : aget c d = None -> head_ok s = true ->
  conn_unpin false c d s = (ROk, d, [(CRm c, PErr MNotPinned)]).
Proof.
  intros Hd Hs. apply head_ok_pop in Hs as (k & sl & Hb).
  unfold conn_unpin. rewrite Hb. simpl. rewrite Hd. reflexivity.
Qed.

Lemma unpin_failure_l dis c d s r d' x : conn_unpin dis c d s = (r, d', x) -> last_failed x = true -> r = RErr.
Proof.
  unfold conn_unpin. destruct dis; intros H Hl; injection H as Hr Hd Hx; subst; auto.
  unfold last_failed, is_failure in Hl. simpl in Hl.
  destruct (snd (serve d (CRm c) (fst (pop s)))) as [|[|]| | | | |]; simpl in *; auto; discriminate.
Qed.

Lemma unpin_frame_l dis c d s r d' x k : conn_unpin dis c d s = (r, d', x) -> k <> c -> aget k d' = aget k d.
Proof.
  unfold conn_unpin. destruct dis; intros H Hk; injection H as Hr Hd Hx; subst; auto.
  destruct (serve_fst d (CRm c) (fst (pop s))) as [->| ->]; auto. now apply act_rm_frame.
Qed.

(* ---------- PinLsCid ---------- *)
Lemma pin_ls_truthful_l c depth d s : head_ok s = true ->
  fst (fst (fst (pin_ls_cid c depth d s))) =
    (if optmode_eqb (aget c d) (Some (to_pin_mode depth)) then (status_of_mode (to_pin_mode depth), false) else (StUnpinned, false))
  /\ snd (fst (fst (pin_ls_cid c depth d s))) = d.
Proof.
  intros Hs. apply head_ok_pop in Hs as (k & sl & Hb).
  unfold pin_ls_cid. cbv beta iota zeta. cbn [fst snd]. rewrite serve_ls_fst. split; auto.
  rewrite Hb. simpl. destruct (aget c d) as [m|]; simpl; auto.
  destruct (pmode_eqb m (to_pin_mode depth)); reflexivity.
Qed.

Lemma update_only_l p d s r d' x f t u : conn_pin p d s = (r, d', x) ->
  In (CUpdate f t u) (requests x) -> p_update p = Some f /\ t = p_cid p /\ u = false /\ aget f d = Some Rec.
Proof. intros H Hi. destruct (update_request_l p d s r d' x f t u H Hi) as (a & b & c & _ & e & _). auto. Qed.

Lemma update_keeps_l p d s r d' x f t u : conn_pin p d s = (r, d', x) ->
  In (CUpdate f t u) (requests x) -> aget f d' = Some Rec.
Proof. intros H Hi. destruct (update_request_l p d s r d' x f t u H Hi) as (_ & _ & _ & _ & _ & e). exact e. Qed.

Lemma unpin_stall_l dis c d s r d' cl : conn_unpin dis c d s = (r, d', [(cl, PStall)]) -> r = RErr.
Proof. intros H. exact (unpin_failure_l dis c d s r d' [(cl, PStall)] H eq_refl). Qed.

(* ---------- the boolean check means what it says (soundness of spec_fails on an observation) ---------- *)
Lemma optmode_eqb_eq a b : optmode_eqb a b = true <-> a = b.
Proof.
  destruct a as [x|], b as [y|]; simpl; split; intro H; try discriminate; auto.
  - apply pmode_eqb_eq in H. now subst.
  - injection H as ->. now apply pmode_eqb_eq.
Qed.

Lemma result_eqb_eq a b : result_eqb a b = true <-> a = b.
Proof. destruct a, b; simpl; split; intro H; congruence. Qed.

Definition PinSpec (p : pinreq) (d : daemon) (s : script) (ob : obs) : Prop :=
  let '(Obs r st d' reqs nconn) := ob in
  (r = ROk -> update_consistent p = true -> aget (p_cid p) d' = Some (mode_of (p_depth p))) /\
  (last_failed (replay d reqs s) = true -> r <> ROk) /\
  (forall pre cl, replay d reqs s = pre ++ [(cl, PStall)] -> r = RErr) /\
  (nconn <= min10 (p_origins p))%N.

Lemma spec_pin_sound p d s ob : spec_fails (OpPin p) d s ob = [] -> PinSpec p d s ob.
Proof.
  destruct ob as [r st d' reqs nconn]. unfold spec_fails, PinSpec.
  intros H.
  apply app_eq_nil in H as [H10 H]. apply app_eq_nil in H as [H11 H]. apply app_eq_nil in H as [H12 H].
  apply app_eq_nil in H as [H13 H]. apply app_eq_nil in H as [H14 H16].
  repeat split.
  - intros -> Hc. rewrite Hc in H10. simpl in H10.
    destruct (optmode_eqb (aget (p_cid p) d') (Some (mode_of (p_depth p)))) eqn:E; [|discriminate].
    now apply optmode_eqb_eq.
  - intros Hl ->. rewrite Hl in H13. discriminate.
  - intros pre cl Hx. rewrite Hx in H14. rewrite last_failed_snoc, rev_app_distr in H14. simpl in H14.
    destruct (result_eqb r RErr) eqn:E; [now apply result_eqb_eq|discriminate].
  - destruct (nconn <=? min10 (p_origins p))%N eqn:E; [now apply N.leb_le|discriminate].
Qed.

Definition UnpinSpec (c : N) (d : daemon) (s : script) (ob : obs) : Prop :=
  let '(Obs r st d' reqs nconn) := ob in
  (r = ROk -> honest_rm c d s = true -> aget c d' = None) /\
  (last_failed (replay d reqs s) = true -> r <> ROk).

Lemma spec_unpin_sound c dis d s ob : spec_fails (OpUnpin c dis) d s ob = [] -> UnpinSpec c d s ob.
Proof.
  destruct ob as [r st d' reqs nconn]. unfold spec_fails, UnpinSpec.
  intros H.
  apply app_eq_nil in H as [H10 H]. apply app_eq_nil in H as [_ H]. apply app_eq_nil in H as [H13 _].
  split.
  - intros -> Hh. rewrite Hh in H10. simpl in H10.
    destruct (optmode_eqb (aget c d') None) eqn:E; [|discriminate]. now apply optmode_eqb_eq.
  - intros Hl ->. rewrite Hl in H13. discriminate.
Qed.

(* the model's own run reproduces its exchange log when replayed against the daemon contract *)
Lemma replay_pin p d s r d' x : conn_pin p d s = (r, d', x) -> replay d (requests x) s = x.
Proof.
  intros H. pose proof (conn_pin_path true p d s) as P. unfold conn_pin in H. rewrite H in P.
  inversion P as [E1 | E1 E2 | from b3 E1 E2 EU E3 Eb Hr | pre b3 E1 E2 Hor Hr]; subst r x; subst d'; try subst b3; unfold requests; simpl.
  - unfold r1. destruct (pop s) as [b s'] eqn:Ep. simpl. destruct (serve d (ls1 p) b); reflexivity.
  - unfold r1. destruct (pop s) as [b s'] eqn:Ep. simpl. destruct (serve d (ls1 p) b); reflexivity.
  - unfold r1, r2.
    destruct (pop s) as [b s'] eqn:Ep. simpl.
    pose proof (serve_ls_fst d (p_cid p) (pt p) b) as F1. unfold ls1 in *.
    destruct (serve d (CLs (p_cid p) (pt p)) b) as [da ra] eqn:Es1. simpl in F1. subst da. simpl.
    destruct (pop s') as [b' s''] eqn:Ep'. simpl.
    pose proof (serve_ls_fst d from (pt2 p) b') as F2. unfold ls2 in *.
    destruct (serve d (CLs from (pt2 p)) b') as [db rb] eqn:Es2. simpl in F2. subst db. simpl.
    destruct (pop s'') as [b'' s'''] eqn:Ep''. simpl.
    destruct (serve d (CUpdate from (p_cid p) false) b''); reflexivity.
  - rewrite map_app. simpl.
    destruct Hor as [(EU & -> & ->)|(from & EU & E3 & -> & ->)]; simpl; unfold r1, r2.
    + destruct (pop s) as [b s'] eqn:Ep. simpl.
      pose proof (serve_ls_fst d (p_cid p) (pt p) b) as F1. unfold ls1 in *.
      destruct (serve d (CLs (p_cid p) (pt p)) b) as [da ra] eqn:Es1. simpl in F1. subst da. simpl.
      destruct (pop s') as [b' s''] eqn:Ep'. simpl.
      destruct (serve d (add_call (p_cid p) (p_depth p)) b'); reflexivity.
    + destruct (pop s) as [b s'] eqn:Ep. simpl.
      pose proof (serve_ls_fst d (p_cid p) (pt p) b) as F1. unfold ls1 in *.
      destruct (serve d (CLs (p_cid p) (pt p)) b) as [da ra] eqn:Es1. simpl in F1. subst da. simpl.
      destruct (pop s') as [b' s''] eqn:Ep'. simpl.
      pose proof (serve_ls_fst d from (pt2 p) b') as F2. unfold ls2 in *.
      destruct (serve d (CLs from (pt2 p)) b') as [db rb] eqn:Es2. simpl in F2. subst db. simpl.
      destruct (pop s'') as [b'' s'''] eqn:Ep''. simpl.
      destruct (serve d (add_call (p_cid p) (p_depth p)) b''); reflexivity.
Qed.
