(* C05 — lemmas about the tracker model: structural invariant of every reachable state, effect of each primitive,
   convergence at quiescence, queue-full reporting, recover round. *)
From V Require Import Base.Common Base.CommonLemmas Model.C05_Tracker.
Open Scope N_scope.

(* ------------------------------------------------------------------------------------------------------------ *)
(* basics *)

Lemma current_spec t i c : current t i c = true <-> exists o, aget c t = Some o /\ oid o = i.
Proof.
  unfold current. destruct (aget c t) as [o|].
  - rewrite N.eqb_eq. split.
    + intros H. eauto.
    + intros (o' & E & H). inversion E; subst; auto.
  - split; [discriminate|]. intros (o & E & _). discriminate.
Qed.

Definition marked (started : list (N * N)) (c : N) (o : oper) : bool :=
  existsb (fun e => N.eqb (fst e) (oid o) && N.eqb (snd e) c) started.

Lemma marked_in st c o : marked st c o = true <-> In (oid o, c) st.
Proof.
  unfold marked. rewrite existsb_exists. split.
  - intros ([i c'] & Hin & H). simpl in H. apply andb_true_iff in H as [H1 H2].
    apply N.eqb_eq in H1, H2. subst. exact Hin.
  - intros H. exists (oid o, c). split; auto. simpl. now rewrite !N.eqb_refl.
Qed.

Lemma marked_false st c o : marked st c o = false <-> ~ In (oid o, c) st.
Proof. rewrite <- marked_in. destruct (marked st c o); split; congruence. Qed.

Definition mark1 (st : list (N * N)) (c : N) (o : oper) : oper := if marked st c o then set_phase PInProgress o else o.

Lemma aget_mark st t c : aget c (mark_inprogress st t) = option_map (mark1 st c) (aget c t).
Proof.
  induction t as [|[c' o] r IH]; simpl; auto.
  destruct (N.eqb_spec c c') as [->|Hn]; simpl; auto.
Qed.

Lemma akeys_mark st t : akeys (mark_inprogress st t) = akeys t.
Proof. induction t as [|[c' o] r IH]; simpl; auto. unfold akeys in *. simpl. now rewrite IH. Qed.

Lemma mark1_oid st c o : oid (mark1 st c o) = oid o.
Proof. unfold mark1. destruct (marked st c o); reflexivity. Qed.
Lemma mark1_otyp st c o : otyp (mark1 st c o) = otyp o.
Proof. unfold mark1. destruct (marked st c o); reflexivity. Qed.
Lemma mark1_opin st c o : opin (mark1 st c o) = opin o.
Proof. unfold mark1. destruct (marked st c o); reflexivity. Qed.
Lemma mark1_phase st c o : oph (mark1 st c o) = if marked st c o then PInProgress else oph o.
Proof. unfold mark1. destruct (marked st c o); reflexivity. Qed.

Lemma current_mark st t i c : current (mark_inprogress st t) i c = current t i c.
Proof. unfold current. rewrite aget_mark. destruct (aget c t); simpl; auto. now rewrite mark1_oid. Qed.

(* fill *)
Lemma fill_spec t : forall q free st rest, fill t free q = (st, rest) ->
  (forall e, In e st -> In e q /\ current t (fst e) (snd e) = true) /\
  (forall e, In e rest -> In e q) /\
  (forall e, In e q -> current t (fst e) (snd e) = true -> In e st \/ In e rest) /\
  (NoDup q -> NoDup rest /\ forall e, In e st -> ~ In e rest).
Proof.
  induction q as [|[i c] r IH]; intros free st rest H; simpl in H.
  - inversion H; subst. split; [|split; [|split]].
    + intros e [].
    + intros e [].
    + intros e [].
    + intros _. split; [constructor | intros e []].
  - destruct free as [|f].
    + inversion H; subst. split; [|split; [|split]].
      * intros e [].
      * intros e He; exact He.
      * intros e He _. right; exact He.
      * intros Hnd. split; [exact Hnd | intros e []].
    + destruct (current t i c) eqn:Hc.
      * destruct (fill t f r) as [st' rest'] eqn:Hf. inversion H; subst. clear H.
        destruct (IH _ _ _ Hf) as (A & B & C & D). split; [|split; [|split]].
        -- intros e [<-|He]. { split; [now left | exact Hc]. }
           destruct (A e He) as [A1 A2]. split; [now right | exact A2].
        -- intros e He. right. exact (B e He).
        -- intros e [<-|He] Hce. { left; now left. }
           destruct (C e He Hce) as [X|X]; [left; now right | now right].
        -- intros Hnd. inversion Hnd as [|x l Hx Hl]; subst. destruct (D Hl) as [D1 D2]. split; [exact D1|].
           intros e [<-|He] Hin. { apply Hx. exact (B _ Hin). } exact (D2 e He Hin).
      * destruct (IH _ _ _ H) as (A & B & C & D). split; [|split; [|split]].
        -- intros e He. destruct (A e He) as [A1 A2]. split; [now right|exact A2].
        -- intros e He. right. exact (B e He).
        -- intros e [<-|He] Hce. { simpl in Hce. congruence. } exact (C e He Hce).
        -- intros Hnd. inversion Hnd as [|x l Hx Hl]; subst. exact (D Hl).
Qed.

(* ------------------------------------------------------------------------------------------------------------ *)
(* dispatch *)

Definition pcalls (sp : list (N * N)) := map (fun e => mk_call (fst e) (snd e) KPin) sp.
Definition ucalls (su : list (N * N)) := map (fun e => mk_call (fst e) (snd e) KUnpin) su.

Record dispatch_eff (s s' : st) (sp su : list (N * N)) : Prop := {
  de_sp : forall e, In e sp -> In e (pinq s) /\ current (table s) (fst e) (snd e) = true;
  de_su : forall e, In e su -> In e (unpinq s) /\ current (table s) (fst e) (snd e) = true;
  de_pq : forall e, In e (pinq s') -> In e (pinq s);
  de_uq : forall e, In e (unpinq s') -> In e (unpinq s);
  de_pc : forall e, In e (pinq s) -> current (table s) (fst e) (snd e) = true -> In e sp \/ In e (pinq s');
  de_uc : forall e, In e (unpinq s) -> current (table s) (fst e) (snd e) = true -> In e su \/ In e (unpinq s');
  de_pnd : NoDup (pinq s) -> NoDup (pinq s') /\ forall e, In e sp -> ~ In e (pinq s');
  de_und : NoDup (unpinq s) -> NoDup (unpinq s') /\ forall e, In e su -> ~ In e (unpinq s');
  de_table : table s' = mark_inprogress (sp ++ su) (table s);
  de_calls : calls s' = calls s ++ pcalls sp ++ ucalls su;
  de_ipfs : ipfs s' = ipfs s; de_pinset : pinset s' = pinset s; de_last : last s' = last s;
  de_next : next s' = next s; de_qcap : qcap s' = qcap s; de_npin : npin s' = npin s }.

Lemma dispatch_effect s : exists sp su, dispatch_eff s (dispatch s) sp su.
Proof.
  unfold dispatch.
  destruct (fill (table s) (npin s - busy KPin s) (pinq s)) as [sp qp] eqn:Hp.
  destruct (fill (table s) (1 - busy KUnpin s) (unpinq s)) as [su qu] eqn:Hu.
  exists sp, su.
  destruct (fill_spec _ _ _ _ _ Hp) as (A1 & A2 & A3 & A4).
  destruct (fill_spec _ _ _ _ _ Hu) as (B1 & B2 & B3 & B4).
  constructor; simpl; auto.
Qed.

(* ------------------------------------------------------------------------------------------------------------ *)
(* the structural invariant *)

Definition kind_type (k : ckind) : otype := match k with KPin => OPin | KUnpin => OUnpin | KSync => ORemote end.
Definition local_pin (p : tpin) : bool := negb (pmeta p) && negb (premote p).

Definition phase_ok (s : st) (c : N) (o : oper) : Prop :=
  match oph o with
  | PQueued => (otyp o = OPin /\ In (oid o, c) (pinq s)) \/ (otyp o = OUnpin /\ In (oid o, c) (unpinq s))
  | PInProgress => exists cl, In cl (calls s) /\ coid cl = oid o /\ ccid cl = c
  | PDone => False
  | PError => True
  end.

Definition last_ok (s : st) (c : N) : Prop :=
  match aget c (last s) with
  | Some (ITrack p) => aget c (pinset s) = Some p
  | Some IUntrack => aget c (pinset s) = None
  | None => True
  end.

Record Inv (s : st) : Prop := {
  inv_nodup : NoDup (akeys (table s));
  inv_fresh_t : forall c o, aget c (table s) = Some o -> oid o < next s;
  inv_fresh_p : forall i c, In (i, c) (pinq s) -> i < next s;
  inv_fresh_u : forall i c, In (i, c) (unpinq s) -> i < next s;
  inv_pnd : NoDup (pinq s);
  inv_und : NoDup (unpinq s);
  inv_pinq : forall i c, In (i, c) (pinq s) -> current (table s) i c = true ->
             exists o, aget c (table s) = Some o /\ otyp o = OPin /\ oph o = PQueued;
  inv_unpinq : forall i c, In (i, c) (unpinq s) -> current (table s) i c = true ->
             exists o, aget c (table s) = Some o /\ otyp o = OUnpin /\ oph o = PQueued;
  inv_calls : forall cl, In cl (calls s) ->
             exists o, aget (ccid cl) (table s) = Some o /\ oid o = coid cl /\ oph o = PInProgress /\ otyp o = kind_type (ckd cl);
  inv_phase : forall c o, aget c (table s) = Some o -> phase_ok s c o
}.

Lemma current_oid t c o : aget c t = Some o -> current t (oid o) c = true.
Proof. intros H. apply current_spec. eauto. Qed.

Lemma dispatch_inv s : Inv s -> Inv (dispatch s).
Proof.
  intros I. destruct (dispatch_effect s) as (sp & su & E).
  destruct (de_pnd _ _ _ _ E (inv_pnd _ I)) as [Pnd Pdis].
  destruct (de_und _ _ _ _ E (inv_und _ I)) as [Und Udis].
  (* an operation is marked iff its queue entry was started *)
  assert (Hmk : forall c o, aget c (table s) = Some o -> marked (sp ++ su) c o = true ->
                 (In (oid o, c) sp /\ otyp o = OPin /\ oph o = PQueued) \/ (In (oid o, c) su /\ otyp o = OUnpin /\ oph o = PQueued)).
  { intros c o Ho Hm. apply marked_in in Hm. apply in_app_or in Hm as [Hm|Hm].
    - left. destruct (de_sp _ _ _ _ E _ Hm) as [Hq Hc]. destruct (inv_pinq _ I _ _ Hq Hc) as (o' & Ho' & T & P).
      rewrite Ho in Ho'. inversion Ho'; subst. auto.
    - right. destruct (de_su _ _ _ _ E _ Hm) as [Hq Hc]. destruct (inv_unpinq _ I _ _ Hq Hc) as (o' & Ho' & T & P).
      rewrite Ho in Ho'. inversion Ho'; subst. auto. }
  constructor.
  - rewrite (de_table _ _ _ _ E), akeys_mark. apply I.
  - intros c o. rewrite (de_table _ _ _ _ E), aget_mark, (de_next _ _ _ _ E).
    destruct (aget c (table s)) as [o0|] eqn:H0; simpl; [|discriminate]. intros H. inversion H; subst.
    rewrite mark1_oid. eapply inv_fresh_t; eauto.
  - intros i c H. rewrite (de_next _ _ _ _ E). eapply inv_fresh_p; eauto. apply (de_pq _ _ _ _ E). exact H.
  - intros i c H. rewrite (de_next _ _ _ _ E). eapply inv_fresh_u; eauto. apply (de_uq _ _ _ _ E). exact H.
  - exact Pnd.
  - exact Und.
  - intros i c Hin Hc. rewrite (de_table _ _ _ _ E), current_mark in Hc.
    pose proof (de_pq _ _ _ _ E _ Hin) as Hq.
    destruct (inv_pinq _ I _ _ Hq Hc) as (o & Ho & T & P).
    assert (Hi : oid o = i). { apply current_spec in Hc as (o' & Ho' & Hi). rewrite Ho in Ho'. now inversion Ho'; subst. }
    exists (mark1 (sp ++ su) c o). rewrite (de_table _ _ _ _ E), aget_mark, Ho. simpl.
    rewrite mark1_otyp, mark1_phase. repeat split; auto.
    destruct (marked (sp ++ su) c o) eqn:Hm; auto. exfalso.
    destruct (Hmk _ _ Ho Hm) as [(Hs & _)|(_ & T' & _)]; [|congruence].
    rewrite Hi in Hs. exact (Pdis _ Hs Hin).
  - intros i c Hin Hc. rewrite (de_table _ _ _ _ E), current_mark in Hc.
    pose proof (de_uq _ _ _ _ E _ Hin) as Hq.
    destruct (inv_unpinq _ I _ _ Hq Hc) as (o & Ho & T & P).
    assert (Hi : oid o = i). { apply current_spec in Hc as (o' & Ho' & Hi). rewrite Ho in Ho'. now inversion Ho'; subst. }
    exists (mark1 (sp ++ su) c o). rewrite (de_table _ _ _ _ E), aget_mark, Ho. simpl.
    rewrite mark1_otyp, mark1_phase. repeat split; auto.
    destruct (marked (sp ++ su) c o) eqn:Hm; auto. exfalso.
    destruct (Hmk _ _ Ho Hm) as [(_ & T' & _)|(Hs & _)]; [congruence|].
    rewrite Hi in Hs. exact (Udis _ Hs Hin).
  - intros cl Hin. rewrite (de_calls _ _ _ _ E) in Hin. rewrite (de_table _ _ _ _ E), aget_mark.
    apply in_app_or in Hin as [Hin|Hin].
    + destruct (inv_calls _ I _ Hin) as (o & Ho & Hi & P & T). exists (mark1 (sp ++ su) (ccid cl) o).
      rewrite Ho. simpl. rewrite mark1_oid, mark1_otyp, mark1_phase, P. repeat split; auto.
      destruct (marked _ _ _); auto.
    + apply in_app_or in Hin as [Hin|Hin]; apply in_map_iff in Hin as ([i c] & <- & He); simpl.
      * destruct (de_sp _ _ _ _ E _ He) as [Hq Hc]. destruct (inv_pinq _ I _ _ Hq Hc) as (o & Ho & T & P).
        assert (Hi : oid o = i). { apply current_spec in Hc as (o' & Ho' & Hi). simpl in Ho'. rewrite Ho in Ho'. now inversion Ho'; subst. }
        exists (mark1 (sp ++ su) c o). rewrite Ho. simpl. rewrite mark1_oid, mark1_otyp, mark1_phase.
        replace (marked (sp ++ su) c o) with true; [auto|]. symmetry. apply marked_in. rewrite Hi. apply in_or_app. now left.
      * destruct (de_su _ _ _ _ E _ He) as [Hq Hc]. destruct (inv_unpinq _ I _ _ Hq Hc) as (o & Ho & T & P).
        assert (Hi : oid o = i). { apply current_spec in Hc as (o' & Ho' & Hi). simpl in Ho'. rewrite Ho in Ho'. now inversion Ho'; subst. }
        exists (mark1 (sp ++ su) c o). rewrite Ho. simpl. rewrite mark1_oid, mark1_otyp, mark1_phase.
        replace (marked (sp ++ su) c o) with true; [auto|]. symmetry. apply marked_in. rewrite Hi. apply in_or_app. now right.
  - intros c o'. rewrite (de_table _ _ _ _ E), aget_mark.
    destruct (aget c (table s)) as [o|] eqn:Ho; simpl; [|discriminate]. intros H. inversion H; subst. clear H.
    unfold phase_ok. rewrite mark1_phase, mark1_oid, mark1_otyp, (de_calls _ _ _ _ E).
    destruct (marked (sp ++ su) c o) eqn:Hm.
    + destruct (Hmk _ _ Ho Hm) as [(Hs & _)|(Hs & _)].
      * exists (mk_call (oid o) c KPin). split; auto. apply in_or_app. right. apply in_or_app. left.
        apply in_map_iff. exists (oid o, c). auto.
      * exists (mk_call (oid o) c KUnpin). split; auto. apply in_or_app. right. apply in_or_app. right.
        apply in_map_iff. exists (oid o, c). auto.
    + pose proof (inv_phase _ I _ _ Ho) as P. unfold phase_ok in P. apply marked_false in Hm.
      destruct (oph o); auto.
      * destruct P as [[T Hq]|[T Hq]].
        -- left. split; auto. destruct (de_pc _ _ _ _ E _ Hq (current_oid _ _ _ Ho)) as [X|X]; auto.
           exfalso. apply Hm. apply in_or_app. now left.
        -- right. split; auto. destruct (de_uc _ _ _ _ E _ Hq (current_oid _ _ _ Ho)) as [X|X]; auto.
           exfalso. apply Hm. apply in_or_app. now right.
      * destruct P as (cl & Hcl & A & B). exists cl. split; auto. apply in_or_app. now left.
Qed.

(* ------------------------------------------------------------------------------------------------------------ *)
(* TrackNewOperation and the installation of a new operation *)

Lemma track_new_some s p typ ph s1 i : track_new s p typ ph = Some (s1, i) ->
  i = next s /\ next s1 = next s + 1 /\
  table s1 = aput (pcid p) (mk_op (next s) typ ph p) (table s) /\
  calls s1 = match aget (pcid p) (table s) with
             | Some o0 => filter (fun cl => negb (N.eqb (coid cl) (oid o0) && N.eqb (ccid cl) (pcid p))) (calls s)
             | None => calls s end /\
  (forall o0, aget (pcid p) (table s) = Some o0 -> otype_eqb (otyp o0) typ && live (oph o0) = false) /\
  pinq s1 = pinq s /\ unpinq s1 = unpinq s /\ ipfs s1 = ipfs s /\ pinset s1 = pinset s /\ last s1 = last s /\
  qcap s1 = qcap s /\ npin s1 = npin s.
Proof.
  unfold track_new. destruct (aget (pcid p) (table s)) as [o0|] eqn:H0.
  - destruct (otype_eqb (otyp o0) typ && live (oph o0)) eqn:Hd; [discriminate|].
    intros H. inversion H; subst. simpl. repeat split; auto. intros o1 H1. inversion H1; subst. exact Hd.
  - intros H. inversion H; subst. simpl. repeat split; auto. intros o1 H1. discriminate.
Qed.

Lemma otype_eqb_eq a b : otype_eqb a b = true <-> a = b.
Proof. destruct a, b; simpl; split; congruence. Qed.

Lemma track_new_none s p typ ph : track_new s p typ ph = None ->
  exists o0, aget (pcid p) (table s) = Some o0 /\ otyp o0 = typ /\ live (oph o0) = true.
Proof.
  unfold track_new. destruct (aget (pcid p) (table s)) as [o0|] eqn:H0; [|discriminate].
  destruct (otype_eqb (otyp o0) typ && live (oph o0)) eqn:Hd; [|discriminate].
  intros _. apply andb_true_iff in Hd as [A B]. apply otype_eqb_eq in A. eauto.
Qed.

(* with the invariant, cancelling the tracked operation of c removes exactly the calls on c *)
Lemma track_new_calls s p typ ph s1 i : Inv s -> track_new s p typ ph = Some (s1, i) ->
  forall cl, In cl (calls s1) <-> In cl (calls s) /\ ccid cl <> pcid p.
Proof.
  intros I H cl. destruct (track_new_some _ _ _ _ _ _ H) as (_ & _ & _ & Hc & _). rewrite Hc.
  destruct (aget (pcid p) (table s)) as [o0|] eqn:H0.
  - rewrite filter_In, negb_true_iff, andb_false_iff, !N.eqb_neq. split.
    + intros [Hin [Hn|Hn]]; split; auto. intros Heq.
      destruct (inv_calls _ I _ Hin) as (o & Ho & Hi & _). rewrite Heq, H0 in Ho. inversion Ho; subst. congruence.
    + intros [Hin Hn]. split; auto.
  - split; [|tauto]. intros Hin. split; auto. intros Heq.
    destruct (inv_calls _ I _ Hin) as (o & Ho & _). rewrite Heq, H0 in Ho. discriminate.
Qed.

Lemma NoDup_snoc {A} (l : list A) x : NoDup l -> ~ In x l -> NoDup (l ++ [x]).
Proof.
  induction l as [|y ys IH]; simpl; intros H Hn.
  - constructor; [intros []|constructor].
  - inversion H; subst. constructor.
    + intros Hin. apply in_app_or in Hin as [Hin|[->|[]]]; [auto|]. apply Hn. now left.
    + apply IH; auto.
Qed.

Lemma install_inv s s2 c o2 :
  Inv s ->
  oid o2 = next s ->
  table s2 = aput c o2 (table s) ->
  next s2 = next s + 1 ->
  (forall cl, In cl (calls s2) <-> (In cl (calls s) /\ ccid cl <> c) \/
                                   (oph o2 = PInProgress /\ otyp o2 = ORemote /\ cl = mk_call (next s) c KSync)) ->
  (pinq s2 = pinq s \/ (pinq s2 = pinq s ++ [(next s, c)] /\ otyp o2 = OPin /\ oph o2 = PQueued)) ->
  (unpinq s2 = unpinq s \/ (unpinq s2 = unpinq s ++ [(next s, c)] /\ otyp o2 = OUnpin /\ oph o2 = PQueued)) ->
  phase_ok s2 c o2 ->
  Inv s2.
Proof.
  intros I Hoid Ht Hn Hc Hp Hu Hph.
  assert (Pin : forall e, In e (pinq s) -> In e (pinq s2)).
  { intros e He. destruct Hp as [->|[-> _]]; auto. apply in_or_app. now left. }
  assert (Uin : forall e, In e (unpinq s) -> In e (unpinq s2)).
  { intros e He. destruct Hu as [->|[-> _]]; auto. apply in_or_app. now left. }
  assert (Pold : forall j c', In (j, c') (pinq s2) -> In (j, c') (pinq s) \/ (j = next s /\ c' = c /\ otyp o2 = OPin /\ oph o2 = PQueued)).
  { intros j c' He. destruct Hp as [E|[E [T P]]]; rewrite E in He; auto.
    apply in_app_or in He as [He|[He|[]]]; auto. inversion He; subst. right. auto. }
  assert (Uold : forall j c', In (j, c') (unpinq s2) -> In (j, c') (unpinq s) \/ (j = next s /\ c' = c /\ otyp o2 = OUnpin /\ oph o2 = PQueued)).
  { intros j c' He. destruct Hu as [E|[E [T P]]]; rewrite E in He; auto.
    apply in_app_or in He as [He|[He|[]]]; auto. inversion He; subst. right. auto. }
  constructor.
  - rewrite Ht. apply NoDup_akeys_aput, I.
  - intros c' o. rewrite Ht, Hn. destruct (N.eq_dec c' c) as [->|Hne].
    + rewrite aget_aput_same. intros H. inversion H; subst. lia.
    + rewrite aget_aput_other by auto. intros H. pose proof (inv_fresh_t _ I _ _ H). lia.
  - intros j c' He. rewrite Hn. destruct (Pold _ _ He) as [H|(-> & _)]; [|lia]. pose proof (inv_fresh_p _ I _ _ H). lia.
  - intros j c' He. rewrite Hn. destruct (Uold _ _ He) as [H|(-> & _)]; [|lia]. pose proof (inv_fresh_u _ I _ _ H). lia.
  - destruct Hp as [->|[-> _]]; [apply I|]. apply NoDup_snoc; [apply I|].
    intros He. pose proof (inv_fresh_p _ I _ _ He). lia.
  - destruct Hu as [->|[-> _]]; [apply I|]. apply NoDup_snoc; [apply I|].
    intros He. pose proof (inv_fresh_u _ I _ _ He). lia.
  - intros j c' He Hcur. rewrite Ht in Hcur. rewrite Ht. destruct (N.eq_dec c' c) as [->|Hne].
    + unfold current in Hcur. rewrite aget_aput_same in Hcur. apply N.eqb_eq in Hcur. rewrite aget_aput_same.
      destruct (Pold _ _ He) as [H|(_ & _ & T & P)].
      * pose proof (inv_fresh_p _ I _ _ H). lia.
      * eauto.
    + unfold current in Hcur. rewrite aget_aput_other in Hcur by auto. rewrite aget_aput_other by auto.
      destruct (Pold _ _ He) as [H|(_ & E & _)]; [|congruence]. exact (inv_pinq _ I _ _ H Hcur).
  - intros j c' He Hcur. rewrite Ht in Hcur. rewrite Ht. destruct (N.eq_dec c' c) as [->|Hne].
    + unfold current in Hcur. rewrite aget_aput_same in Hcur. apply N.eqb_eq in Hcur. rewrite aget_aput_same.
      destruct (Uold _ _ He) as [H|(_ & _ & T & P)].
      * pose proof (inv_fresh_u _ I _ _ H). lia.
      * eauto.
    + unfold current in Hcur. rewrite aget_aput_other in Hcur by auto. rewrite aget_aput_other by auto.
      destruct (Uold _ _ He) as [H|(_ & E & _)]; [|congruence]. exact (inv_unpinq _ I _ _ H Hcur).
  - intros cl Hin. apply Hc in Hin as [[Hin Hne]|(P & T & ->)].
    + rewrite Ht, aget_aput_other by auto. exact (inv_calls _ I _ Hin).
    + simpl. rewrite Ht, aget_aput_same. exists o2. repeat split; auto.
  - intros c' o. rewrite Ht. destruct (N.eq_dec c' c) as [->|Hne].
    + rewrite aget_aput_same. intros H. inversion H; subst. exact Hph.
    + rewrite aget_aput_other by auto. intros H. pose proof (inv_phase _ I _ _ H) as P. unfold phase_ok in *.
      destruct (oph o); auto.
      * destruct P as [[T Q]|[T Q]]; [left|right]; auto.
      * destruct P as (cl & Hcl & A & B). exists cl. repeat split; auto. apply Hc. left. split; auto. congruence.
Qed.

Lemma adel_adel {V} k (m : list (N * V)) : adel k (adel k m) = adel k m.
Proof. induction m as [|[k' v] r IH]; simpl; auto. destruct (N.eqb_spec k k'); simpl; auto.
  destruct (N.eqb_spec k k'); [congruence|]. now rewrite IH. Qed.

Lemma aput_aput {V} k (v w : V) m : aput k v (aput k w m) = aput k v m.
Proof. unfold aput. simpl. rewrite N.eqb_refl. now rewrite adel_adel. Qed.

Definition unpin_last_ok (s : st) (c : N) : Prop :=
  aget c (last s) = Some IUntrack \/ exists p, aget c (last s) = Some (ITrack p) /\ pmeta p = true.

Lemma enqueue_inv s p typ : Inv s -> typ <> ORemote -> Inv (fst (enqueue s p typ)).
Proof.
  intros I Hty. unfold enqueue. destruct (track_new s p typ PQueued) as [[s1 i]|] eqn:Htn; [|exact I].
  destruct (track_new_some _ _ _ _ _ _ Htn) as (-> & Hn & Ht & _ & _ & Hpq & Huq & Hip & Hps & Hla & Hqc & Hnp).
  pose proof (track_new_calls _ _ _ _ _ _ I Htn) as Hcalls.
  assert (Hcs : forall ph, ph <> PInProgress -> forall (ty : otype) s2, calls s2 = calls s1 ->
           forall cl, In cl (calls s2) <-> (In cl (calls s) /\ ccid cl <> pcid p) \/
                                           (ph = PInProgress /\ ty = ORemote /\ cl = mk_call (next s) (pcid p) KSync)).
  { intros ph Hph ty s2 E cl. rewrite E, Hcalls. split; [auto|]. intros [H|(H & _)]; [auto|contradiction]. }
  assert (Herr : Inv (set_err_phase s1 (pcid p))).
  { unfold set_err_phase. rewrite Ht, aget_aput_same.
    apply (install_inv s _ (pcid p) (set_phase PError (mk_op (next s) typ PQueued p)) I); simpl.
    - reflexivity.
    - apply aput_aput.
    - exact Hn.
    - apply Hcs; [discriminate|reflexivity].
    - left. exact Hpq.
    - left. exact Huq.
    - exact Logic.I. }
  destruct typ; [| |congruence].
  - destruct ((busy KPin s1 <? npin s1)%nat || (length (pinq s1) <? qcap s1)%nat); [|exact Herr].
    simpl. apply dispatch_inv.
    apply (install_inv s _ (pcid p) (mk_op (next s) OPin PQueued p) I); simpl.
    + reflexivity.
    + exact Ht.
    + exact Hn.
    + apply Hcs; [discriminate|reflexivity].
    + right. rewrite Hpq. auto.
    + left. exact Huq.
    + left. split; auto. rewrite Hpq. apply in_or_app. right. now left.
  - destruct ((busy KUnpin s1 <? 1)%nat || (length (unpinq s1) <? qcap s1)%nat); [|exact Herr].
    simpl. apply dispatch_inv.
    apply (install_inv s _ (pcid p) (mk_op (next s) OUnpin PQueued p) I); simpl.
    + reflexivity.
    + exact Ht.
    + exact Hn.
    + apply Hcs; [discriminate|reflexivity].
    + left. exact Hpq.
    + right. rewrite Huq. auto.
    + right. split; auto. rewrite Huq. apply in_or_app. right. now left.
Qed.

Lemma inv_ext s s' : table s' = table s -> pinq s' = pinq s -> unpinq s' = unpinq s -> calls s' = calls s ->
  next s' = next s -> Inv s -> Inv s'.
Proof.
  intros Ht Hp Hu Hc Hn I. destruct I as [A B C D E F G H J K].
  constructor; unfold phase_ok in *; rewrite ?Ht, ?Hp, ?Hu, ?Hc, ?Hn; auto.
Qed.

Lemma track_inv s p : Inv s -> Inv (fst (track s p)).
Proof.
  intros I. unfold track.
  set (s0 := set_last (set_pinset s (aput (pcid p) p (pinset s))) (aput (pcid p) (ITrack p) (last s))).
  assert (I0 : Inv s0) by (apply (inv_ext s); auto).
  destruct (pmeta p); [exact I0|]. destruct (premote p); [|apply enqueue_inv; [exact I0|discriminate]].
  destruct (track_new s0 p ORemote PInProgress) as [[s1 i]|] eqn:Htn; [|exact I0].
  destruct (track_new_some _ _ _ _ _ _ Htn) as (-> & Hn & Ht & _ & _ & Hpq & Huq & _).
  pose proof (track_new_calls _ _ _ _ _ _ I0 Htn) as Hcalls.
  simpl. apply dispatch_inv.
  apply (install_inv s0 _ (pcid p) (mk_op (next s0) ORemote PInProgress p) I0); simpl.
  - reflexivity.
  - exact Ht.
  - exact Hn.
  - intros cl. rewrite in_app_iff, Hcalls. simpl. split.
    + intros [H|[<-|[]]]; auto.
    + intros [H|(_ & _ & ->)]; auto.
  - left. exact Hpq.
  - left. exact Huq.
  - exists (mk_call (next s0) (pcid p) KSync). split; auto. apply in_or_app. right. now left.
Qed.

Lemma untrack_inv s c : Inv s -> Inv (fst (untrack s c)).
Proof.
  intros I. unfold untrack. apply enqueue_inv; [|discriminate]. apply (inv_ext s); auto.
Qed.

Lemma finish_inv s s2 c o : Inv s -> aget c (table s) = Some o -> oph o = PInProgress ->
  (table s2 = adel c (table s) \/ table s2 = aput c (set_phase PError o) (table s)) ->
  calls s2 = filter (fun x => negb (N.eqb (coid x) (oid o) && N.eqb (ccid x) c)) (calls s) ->
  pinq s2 = pinq s -> unpinq s2 = unpinq s -> next s2 = next s -> Inv s2.
Proof.
  intros I Ho Hph Ht Hc Hp Hu Hn.
  assert (Hother : forall c', c' <> c -> aget c' (table s2) = aget c' (table s)).
  { intros c' Hne. destruct Ht as [->| ->]; [apply aget_adel_other|apply aget_aput_other]; auto. }
  assert (Hsame : aget c (table s2) = None \/ aget c (table s2) = Some (set_phase PError o)).
  { destruct Ht as [->| ->]; [left; apply aget_adel_same|right; apply aget_aput_same]. }
  assert (Hcall : forall cl, In cl (calls s2) <-> In cl (calls s) /\ ccid cl <> c).
  { intros cl. rewrite Hc, filter_In, negb_true_iff, andb_false_iff, !N.eqb_neq. split.
    - intros [Hin [Hx|Hx]]; split; auto. intros E. destruct (inv_calls _ I _ Hin) as (o' & Ho' & Hi & _).
      rewrite E, Ho in Ho'. inversion Ho'; subst. congruence.
    - intros [Hin Hx]. auto. }
  constructor.
  - destruct Ht as [->| ->]; [apply NoDup_akeys_adel|apply NoDup_akeys_aput]; apply I.
  - intros c' o'. rewrite Hn. destruct (N.eq_dec c' c) as [->|Hne].
    + destruct Hsame as [->| ->]; [discriminate|]. intros H. inversion H; subst. simpl. eapply inv_fresh_t; eauto.
    + rewrite Hother by auto. apply I.
  - intros i c'. rewrite Hp, Hn. apply I.
  - intros i c'. rewrite Hu, Hn. apply I.
  - rewrite Hp. apply I.
  - rewrite Hu. apply I.
  - intros i c' Hin Hcur. rewrite Hp in Hin. destruct (N.eq_dec c' c) as [->|Hne].
    + exfalso. unfold current in Hcur. destruct Hsame as [E|E]; rewrite E in Hcur; [discriminate|].
      simpl in Hcur. assert (Hcur' : current (table s) i c = true) by (unfold current; now rewrite Ho).
      destruct (inv_pinq _ I _ _ Hin Hcur') as (o' & Ho' & _ & P). rewrite Ho in Ho'. inversion Ho'; subst. congruence.
    + unfold current in Hcur. rewrite Hother in Hcur by auto. rewrite Hother by auto. exact (inv_pinq _ I _ _ Hin Hcur).
  - intros i c' Hin Hcur. rewrite Hu in Hin. destruct (N.eq_dec c' c) as [->|Hne].
    + exfalso. unfold current in Hcur. destruct Hsame as [E|E]; rewrite E in Hcur; [discriminate|].
      simpl in Hcur. assert (Hcur' : current (table s) i c = true) by (unfold current; now rewrite Ho).
      destruct (inv_unpinq _ I _ _ Hin Hcur') as (o' & Ho' & _ & P). rewrite Ho in Ho'. inversion Ho'; subst. congruence.
    + unfold current in Hcur. rewrite Hother in Hcur by auto. rewrite Hother by auto. exact (inv_unpinq _ I _ _ Hin Hcur).
  - intros cl Hin. apply Hcall in Hin as [Hin Hne]. rewrite Hother by auto. exact (inv_calls _ I _ Hin).
  - intros c' o'. destruct (N.eq_dec c' c) as [->|Hne].
    + destruct Hsame as [->| ->]; [discriminate|]. intros H. inversion H; subst. exact Logic.I.
    + rewrite Hother by auto. intros H. pose proof (inv_phase _ I _ _ H) as P. unfold phase_ok in *.
      rewrite Hp, Hu. destruct (oph o'); auto.
      destruct P as (cl & Hcl & A & B). exists cl. repeat split; auto. apply Hcall. split; auto. congruence.
Qed.

Lemma complete_inv s c fault : Inv s -> Inv (complete s c fault).
Proof.
  intros I. unfold complete.
  destruct (find (fun cl => N.eqb (ccid cl) c) (calls s)) as [cl|] eqn:Hf; [|exact I].
  destruct (aget c (table s)) as [o|] eqn:Ho; [|exact I].
  destruct (N.eqb_spec (oid o) (coid cl)) as [Hi|Hi]; simpl; [|exact I].
  apply find_some in Hf as [Hin Hc]. apply N.eqb_eq in Hc.
  destruct (inv_calls _ I _ Hin) as (o' & Ho' & _ & Hph & _). rewrite Hc, Ho in Ho'. inversion Ho'; subst o'.
  destruct (if fault then (ipfs s, false) else match ckd cl with KPin => conn_pin (ipfs s) c (pdirect (opin o)) | _ => (adel c (ipfs s), true) end) as [i' ok].
  apply dispatch_inv. destruct ok.
  - unfold clean. simpl. unfold current. rewrite Ho, Hi, N.eqb_refl.
    apply (finish_inv s _ c o I Ho Hph); simpl; auto. now rewrite Hi.
  - unfold set_err_phase. simpl. rewrite Ho.
    apply (finish_inv s _ c o I Ho Hph); simpl; auto. now rewrite Hi.
Qed.

Lemma recover_with_inv s c x : Inv s -> Inv (fst (recover_with s c x)).
Proof.
  intros I. unfold recover_with. destruct x; try exact I.
  - destruct (aget c (pinset s)); [apply enqueue_inv; auto; discriminate|exact I].
  - apply enqueue_inv; auto; discriminate.
  - destruct (aget c (pinset s)); [apply enqueue_inv; auto; discriminate|exact I].
Qed.

Lemma recover_list_inv l : forall s, Inv s -> Inv (fst (recover_list s l)).
Proof.
  induction l as [|[c x] r IH]; intros s I; simpl; auto.
  pose proof (recover_with_inv s c x I) as I1. destruct (recover_with s c x) as [s' [|]]; simpl in *; auto.
Qed.

Lemma step_raw_inv s e : Inv s -> Inv (fst (step_raw s e)).
Proof.
  intros I. destruct e; simpl.
  - now apply track_inv.
  - now apply untrack_inv.
  - unfold recover. now apply recover_with_inv.
  - unfold recover_all. now apply recover_list_inv.
  - now apply complete_inv.
  - apply (inv_ext s); auto.
Qed.

Lemma step_inv s e : Inv s -> Inv (fst (step s e)).
Proof.
  intros I. unfold step. pose proof (step_raw_inv s e I) as I1. destruct (step_raw s e) as [s' r]. simpl in *.
  now apply dispatch_inv.
Qed.

Lemma run_inv evs : forall s, Inv s -> Inv (run s evs).
Proof. induction evs as [|e r IH]; intros s I; simpl; auto. apply IH. now apply step_inv. Qed.

Lemma init_inv q n ps i : Inv (init q n ps i).
Proof.
  constructor; simpl; try (intros; contradiction); try discriminate; try constructor.
Qed.

(* ------------------------------------------------------------------------------------------------------------ *)
(* frames: what a primitive does to the operation of a cid it does not address *)

Definition op_frame (o o' : oper) : Prop :=
  oid o' = oid o /\ otyp o' = otyp o /\ opin o' = opin o /\ (oph o' = oph o \/ (oph o = PQueued /\ oph o' = PInProgress)).

Definition opframe (s s' : st) (c : N) : Prop :=
  match aget c (table s), aget c (table s') with
  | Some o, Some o' => op_frame o o'
  | None, None => True
  | _, _ => False
  end.

Lemma op_frame_refl o : op_frame o o.
Proof. unfold op_frame. auto. Qed.

Lemma opframe_refl s c : opframe s s c.
Proof. unfold opframe. destruct (aget c (table s)); auto using op_frame_refl. Qed.

Lemma opframe_eq s s' c : aget c (table s') = aget c (table s) -> opframe s s' c.
Proof. unfold opframe. intros ->. destruct (aget c (table s)); auto using op_frame_refl. Qed.

Lemma opframe_trans s1 s2 s3 c : opframe s1 s2 c -> opframe s2 s3 c -> opframe s1 s3 c.
Proof.
  unfold opframe. destruct (aget c (table s1)) as [o1|], (aget c (table s2)) as [o2|], (aget c (table s3)) as [o3|];
    try tauto.
  unfold op_frame. intros (A1 & A2 & A3 & A4) (B1 & B2 & B3 & B4). repeat split; try congruence.
  destruct A4 as [A4|[A4 A5]], B4 as [B4|[B4 B5]]; try (left; congruence); right; split; congruence.
Qed.

Lemma dispatch_frame s c : Inv s -> opframe s (dispatch s) c.
Proof.
  intros I. destruct (dispatch_effect s) as (sp & su & E). unfold opframe.
  rewrite (de_table _ _ _ _ E), aget_mark. destruct (aget c (table s)) as [o|] eqn:Ho; simpl; auto.
  unfold op_frame. rewrite mark1_oid, mark1_otyp, mark1_opin, mark1_phase. repeat split; auto.
  destruct (marked (sp ++ su) c o) eqn:Hm; auto. right. split; auto.
  apply marked_in in Hm. apply in_app_or in Hm as [Hm|Hm].
  - destruct (de_sp _ _ _ _ E _ Hm) as [Hq Hc]. destruct (inv_pinq _ I _ _ Hq Hc) as (o' & Ho' & _ & P).
    rewrite Ho in Ho'. now inversion Ho'; subst.
  - destruct (de_su _ _ _ _ E _ Hm) as [Hq Hc]. destruct (inv_unpinq _ I _ _ Hq Hc) as (o' & Ho' & _ & P).
    rewrite Ho in Ho'. now inversion Ho'; subst.
Qed.

Lemma dispatch_ipfs s : ipfs (dispatch s) = ipfs s.
Proof. destruct (dispatch_effect s) as (sp & su & E). apply E. Qed.
Lemma dispatch_pinset s : pinset (dispatch s) = pinset s.
Proof. destruct (dispatch_effect s) as (sp & su & E). apply E. Qed.
Lemma dispatch_last s : last (dispatch s) = last s.
Proof. destruct (dispatch_effect s) as (sp & su & E). apply E. Qed.

(* enqueue: other cids are framed; the addressed cid ends with an operation of the requested type *)
Lemma enqueue_frame s p typ c : Inv s -> typ <> ORemote -> c <> pcid p -> opframe s (fst (enqueue s p typ)) c.
Proof.
  intros I Hty Hne. unfold enqueue. destruct (track_new s p typ PQueued) as [[s1 i]|] eqn:Htn; [|apply opframe_refl].
  destruct (track_new_some _ _ _ _ _ _ Htn) as (-> & Hn & Ht & _).
  assert (F1 : opframe s s1 c) by (apply opframe_eq; rewrite Ht; now apply aget_aput_other).
  assert (Ferr : opframe s (set_err_phase s1 (pcid p)) c).
  { eapply opframe_trans; [exact F1|]. apply opframe_eq. unfold set_err_phase.
    destruct (aget (pcid p) (table s1)); simpl; auto. now apply aget_aput_other. }
  pose proof (enqueue_inv s p typ I Hty) as I2. unfold enqueue in I2. rewrite Htn in I2.
  destruct typ; [| |congruence].
  - destruct ((busy KPin s1 <? npin s1)%nat || (length (pinq s1) <? qcap s1)%nat) eqn:Hb; simpl; [|exact Ferr].
    eapply opframe_trans; [exact F1|]. eapply opframe_trans; [|apply dispatch_frame].
    + apply opframe_eq. reflexivity.
    + (* the state before dispatch satisfies the invariant: obtained as in enqueue_inv *)
      pose proof (track_new_calls _ _ _ _ _ _ I Htn) as Hcalls.
      destruct (track_new_some _ _ _ _ _ _ Htn) as (_ & _ & _ & _ & _ & Hpq & Huq & _).
      apply (install_inv s _ (pcid p) (mk_op (next s) OPin PQueued p) I); simpl; auto.
      * intros cl. rewrite Hcalls. split; [auto|]. intros [H|(H & _)]; [auto|discriminate].
      * right. rewrite Hpq. auto.
      * left. split; auto. rewrite Hpq. apply in_or_app. right. now left.
  - destruct ((busy KUnpin s1 <? 1)%nat || (length (unpinq s1) <? qcap s1)%nat) eqn:Hb; simpl; [|exact Ferr].
    eapply opframe_trans; [exact F1|]. eapply opframe_trans; [|apply dispatch_frame].
    + apply opframe_eq. reflexivity.
    + pose proof (track_new_calls _ _ _ _ _ _ I Htn) as Hcalls.
      destruct (track_new_some _ _ _ _ _ _ Htn) as (_ & _ & _ & _ & _ & Hpq & Huq & _).
      apply (install_inv s _ (pcid p) (mk_op (next s) OUnpin PQueued p) I); simpl; auto.
      * intros cl. rewrite Hcalls. split; [auto|]. intros [H|(H & _)]; [auto|discriminate].
      * right. rewrite Huq. auto.
      * right. split; auto. rewrite Huq. apply in_or_app. right. now left.
Qed.

Lemma enqueue_fields s p typ : ipfs (fst (enqueue s p typ)) = ipfs s /\ pinset (fst (enqueue s p typ)) = pinset s /\
  last (fst (enqueue s p typ)) = last s.
Proof.
  unfold enqueue. destruct (track_new s p typ PQueued) as [[s1 i]|] eqn:Htn; [|auto].
  destruct (track_new_some _ _ _ _ _ _ Htn) as (_ & _ & _ & _ & _ & _ & _ & Hi & Hp & Hl & _).
  assert (E : forall c, ipfs (set_err_phase s1 c) = ipfs s /\ pinset (set_err_phase s1 c) = pinset s /\ last (set_err_phase s1 c) = last s).
  { intros c. unfold set_err_phase. destruct (aget c (table s1)); simpl; auto. }
  destruct typ.
  - destruct (_ || _); simpl; [|apply E]. rewrite dispatch_ipfs, dispatch_pinset, dispatch_last. simpl. auto.
  - destruct (_ || _); simpl; [|apply E]. rewrite dispatch_ipfs, dispatch_pinset, dispatch_last. simpl. auto.
  - destruct (_ || _); simpl; [|apply E]. rewrite dispatch_ipfs, dispatch_pinset, dispatch_last. simpl. auto.
Qed.

Lemma live_frame o o' : op_frame o o' -> live (oph o) = true -> live (oph o') = true.
Proof. intros (_ & _ & _ & [E|[E1 E2]]) H; [now rewrite E|now rewrite E2]. Qed.

(* the addressed cid after enqueue *)
Lemma enqueue_result s p typ : Inv s -> typ <> ORemote ->
  exists o, aget (pcid p) (table (fst (enqueue s p typ))) = Some o /\ otyp o = typ /\
    match snd (enqueue s p typ) with
    | RFull => oph o = PError /\ opin o = p
    | ROk => live (oph o) = true /\ (track_new s p typ PQueued <> None -> opin o = p /\ oid o = next s)
    end.
Proof.
  intros I Hty. unfold enqueue. destruct (track_new s p typ PQueued) as [[s1 i]|] eqn:Htn.
  - destruct (track_new_some _ _ _ _ _ _ Htn) as (-> & Hn & Ht & _).
    assert (Herr : exists o, aget (pcid p) (table (set_err_phase s1 (pcid p))) = Some o /\ otyp o = typ /\ oph o = PError /\ opin o = p).
    { unfold set_err_phase. rewrite Ht, aget_aput_same. unfold set_table. cbn [table]. rewrite aget_aput_same.
      eexists. repeat split. }
    assert (Hok : forall s2, table s2 = table s1 -> exists o, aget (pcid p) (table (dispatch s2)) = Some o /\ otyp o = typ /\
              live (oph o) = true /\ (Some (s1, next s) <> None -> opin o = p /\ oid o = next s)).
    { intros s2 E. destruct (dispatch_effect s2) as (sp & su & D). rewrite (de_table _ _ _ _ D), aget_mark, E, Ht, aget_aput_same.
      simpl. eexists. split; [reflexivity|]. rewrite mark1_otyp, mark1_phase, mark1_opin, mark1_oid. simpl.
      repeat split. destruct (marked _ _ _); reflexivity. }
    destruct typ; [| |congruence].
    + destruct (_ || _); simpl; [apply Hok; reflexivity|]. destruct Herr as (o & A & B & C & D). eauto.
    + destruct (_ || _); simpl; [apply Hok; reflexivity|]. destruct Herr as (o & A & B & C & D). eauto.
  - simpl. destruct (track_new_none _ _ _ _ Htn) as (o0 & A & B & C). exists o0. repeat split; auto; congruence.
Qed.

Lemma conn_pin_other i c d c' : c' <> c -> aget c' (fst (conn_pin i c d)) = aget c' i.
Proof.
  intros Hne. unfold conn_pin. destruct (aget c i) as [d0|].
  - destruct (Bool.eqb d0 d); auto. destruct d; simpl; auto. now apply aget_aput_other.
  - simpl. now apply aget_aput_other.
Qed.

Definition call_outcome (s : st) (c : N) (fault : bool) (k : ckind) (o : oper) : list (N * bool) * bool :=
  if fault then (ipfs s, false)
  else match k with KPin => conn_pin (ipfs s) c (pdirect (opin o)) | _ => (adel c (ipfs s), true) end.

Lemma complete_effect s c fault : Inv s ->
  pinset (complete s c fault) = pinset s /\ last (complete s c fault) = last s /\
  (forall c', c' <> c -> opframe s (complete s c fault) c' /\ aget c' (ipfs (complete s c fault)) = aget c' (ipfs s)) /\
  ((complete s c fault = s /\ forall cl, In cl (calls s) -> ccid cl <> c) \/
   exists cl o, In cl (calls s) /\ ccid cl = c /\ aget c (table s) = Some o /\ oid o = coid cl /\ oph o = PInProgress /\
     otyp o = kind_type (ckd cl) /\
     ipfs (complete s c fault) = fst (call_outcome s c fault (ckd cl) o) /\
     if snd (call_outcome s c fault (ckd cl) o) then aget c (table (complete s c fault)) = None
     else exists o', aget c (table (complete s c fault)) = Some o' /\ otyp o' = otyp o /\ oph o' = PError).
Proof.
  intros I. unfold complete.
  destruct (find (fun cl => N.eqb (ccid cl) c) (calls s)) as [cl|] eqn:Hf.
  2:{ repeat split; auto using opframe_refl. left. split; auto. intros cl Hin E.
      pose proof (find_none _ _ Hf _ Hin) as H. simpl in H. apply N.eqb_neq in H. auto. }
  apply find_some in Hf as [Hin Hc]. apply N.eqb_eq in Hc.
  destruct (inv_calls _ I _ Hin) as (o & Ho & Hi & Hph & Hty). rewrite Hc in Ho. rewrite Ho.
  rewrite Hi, N.eqb_refl. simpl.
  fold (call_outcome s c fault (ckd cl) o). destruct (call_outcome s c fault (ckd cl) o) as [i' ok] eqn:Hco.
  set (s1 := set_calls (set_ipfs s i') (filter (fun x => negb (N.eqb (coid x) (coid cl) && N.eqb (ccid x) c)) (calls s))).
  set (s2 := if ok then clean s1 (coid cl) c else set_err_phase s1 c).
  assert (Ht2 : (ok = true /\ table s2 = adel c (table s)) \/ (ok = false /\ table s2 = aput c (set_phase PError o) (table s))).
  { unfold s2. destruct ok; [left|right]; split; auto.
    - unfold clean, s1. simpl. unfold current. now rewrite Ho, Hi, N.eqb_refl.
    - unfold set_err_phase, s1. simpl. now rewrite Ho. }
  assert (I2 : Inv s2).
  { apply (finish_inv s s2 c o I Ho Hph).
    - destruct Ht2 as [[_ E]|[_ E]]; auto.
    - unfold s2, clean, set_err_phase, s1. rewrite Hi. destruct ok; simpl.
      + destruct (current _ _ _); reflexivity.
      + rewrite Ho. reflexivity.
    - unfold s2, clean, set_err_phase, s1. destruct ok; simpl; [destruct (current _ _ _); reflexivity|rewrite Ho; reflexivity].
    - unfold s2, clean, set_err_phase, s1. destruct ok; simpl; [destruct (current _ _ _); reflexivity|rewrite Ho; reflexivity].
    - unfold s2, clean, set_err_phase, s1. destruct ok; simpl; [destruct (current _ _ _); reflexivity|rewrite Ho; reflexivity]. }
  assert (Hf2 : pinset s2 = pinset s /\ last s2 = last s /\ ipfs s2 = i').
  { unfold s2, clean, set_err_phase, s1. destruct ok; simpl; [destruct (current _ _ _); auto|rewrite Ho; auto]. }
  destruct Hf2 as (Hps & Hla & Hip).
  rewrite dispatch_pinset, dispatch_last, dispatch_ipfs, Hps, Hla, Hip. repeat split; auto.
  - eapply opframe_trans; [|apply dispatch_frame; exact I2]. apply opframe_eq.
    destruct Ht2 as [[_ E]|[_ E]]; rewrite E; [now apply aget_adel_other|now apply aget_aput_other].
  - assert (i' = fst (call_outcome s c fault (ckd cl) o)) as -> by now rewrite Hco.
    unfold call_outcome. destruct fault; simpl; auto. destruct (ckd cl); simpl.
    + now apply conn_pin_other.
    + now apply aget_adel_other.
    + now apply aget_adel_other.
  - right. exists cl, o. repeat split; auto; [now rewrite Hco|]. rewrite Hco. simpl.
    destruct (dispatch_effect s2) as (sp & su & D). rewrite (de_table _ _ _ _ D), aget_mark.
    destruct Ht2 as [[-> E]|[-> E]]; rewrite E.
    + now rewrite aget_adel_same.
    + rewrite aget_aput_same. simpl. eexists. split; [reflexivity|]. rewrite mark1_otyp, mark1_phase. simpl. split; auto.
      destruct (marked (sp ++ su) c (set_phase PError o)) eqn:Hm; auto. exfalso.
      (* an operation in error is not in a queue as the current one *)
      apply marked_in in Hm. simpl in Hm. apply in_app_or in Hm as [Hm|Hm].
      * destruct (de_sp _ _ _ _ D _ Hm) as [Hq Hcur]. destruct (inv_pinq _ I2 _ _ Hq Hcur) as (o' & Ho' & _ & P).
        rewrite E, aget_aput_same in Ho'. inversion Ho' as [Heq]. rewrite <- Heq in P. discriminate.
      * destruct (de_su _ _ _ _ D _ Hm) as [Hq Hcur]. destruct (inv_unpinq _ I2 _ _ Hq Hcur) as (o' & Ho' & _ & P).
        rewrite E, aget_aput_same in Ho'. inversion Ho' as [Heq]. rewrite <- Heq in P. discriminate.
Qed.

(* ------------------------------------------------------------------------------------------------------------ *)
(* label invariant: which operation types can be tracked for a cid, given the last instruction *)

Definition ty (s : st) (c : N) : option otype := option_map otyp (aget c (table s)).

Lemma ty_frame s s' c : opframe s s' c -> ty s' c = ty s c.
Proof. unfold opframe, ty. destruct (aget c (table s)), (aget c (table s')); simpl; try tauto. intros (_ & -> & _). auto. Qed.

(* b = true: no EDaemon event happened (the daemon is only changed by the tracker) *)
Definition lab (b : bool) (s : st) (c : N) : Prop :=
  match aget c (last s) with
  | Some IUntrack => aget c (pinset s) = None /\
      (ty s c = Some OUnpin \/ (ty s c = None /\ (b = true -> aget c (ipfs s) = None)))
  | Some (ITrack p) => aget c (pinset s) = Some p /\
      (if pmeta p then True
       else if premote p then ty s c = Some ORemote \/ (ty s c = None /\ (b = true -> aget c (ipfs s) = None))
       else ty s c = Some OPin \/ ty s c = None)
  | None => ty s c = Some OPin \/ ty s c = None
  end.

Record LInv (b : bool) (s : st) : Prop := {
  li_lab : forall c, lab b s c;
  li_keyed : forall c p, aget c (pinset s) = Some p -> pcid p = c;
  li_pnodup : NoDup (akeys (pinset s))
}.

Lemma lab_frame b s s' c : opframe s s' c -> last s' = last s -> pinset s' = pinset s ->
  aget c (ipfs s') = aget c (ipfs s) -> lab b s c -> lab b s' c.
Proof. intros F Hl Hp Hi. unfold lab. rewrite (ty_frame _ _ _ F), Hl, Hp, Hi. auto. Qed.

(* what recoverWithPinInfo does with a status *)
Definition act (x : status) : option otype :=
  match x with SPinError | SUnexpectedly => Some OPin | SUnpinError => Some OUnpin | _ => None end.
Definition x_ok (s : st) (c : N) (x : status) : Prop := act x = None \/ act x = act (status_of s c).

Lemma recover_with_noop s c x : act x = None -> recover_with s c x = (s, ROk).
Proof. destruct x; simpl; intros H; try discriminate; reflexivity. Qed.

Lemma status_of_frame s s' c : opframe s s' c -> pinset s' = pinset s -> aget c (ipfs s') = aget c (ipfs s) ->
  act (status_of s' c) = act (status_of s c).
Proof.
  unfold opframe, status_of, ipfs_has. intros F Hp Hi. rewrite Hp, Hi.
  destruct (aget c (table s)) as [o|], (aget c (table s')) as [o'|]; try tauto.
  destruct F as (_ & T & _ & [P|[P1 P2]]); unfold op_status; rewrite T.
  - now rewrite P.
  - rewrite P1, P2. destruct (otyp o); reflexivity.
Qed.

Lemma dispatch_linv b s : Inv s -> LInv b s -> LInv b (dispatch s).
Proof.
  intros I [A B C]. constructor.
  - intros c. apply (lab_frame b s); auto using dispatch_frame, dispatch_last, dispatch_pinset. now rewrite dispatch_ipfs.
  - rewrite dispatch_pinset. exact B.
  - rewrite dispatch_pinset. exact C.
Qed.

Lemma recover_with_fields s c x : ipfs (fst (recover_with s c x)) = ipfs s /\ pinset (fst (recover_with s c x)) = pinset s /\
  last (fst (recover_with s c x)) = last s.
Proof.
  unfold recover_with. destruct x; simpl; auto; try apply enqueue_fields.
  - destruct (aget c (pinset s)); simpl; auto. apply enqueue_fields.
  - destruct (aget c (pinset s)); simpl; auto. apply enqueue_fields.
Qed.

Lemma recover_with_frame s c x c' : Inv s -> (forall p, aget c (pinset s) = Some p -> pcid p = c) -> c' <> c ->
  opframe s (fst (recover_with s c x)) c'.
Proof.
  intros I K Hne. unfold recover_with. destruct x; simpl; auto using opframe_refl.
  - destruct (aget c (pinset s)) as [p|] eqn:Hp; simpl; auto using opframe_refl.
    apply enqueue_frame; auto; [discriminate|]. rewrite (K _ eq_refl). auto.
  - apply enqueue_frame; auto. discriminate.
  - destruct (aget c (pinset s)) as [p|] eqn:Hp; simpl; auto using opframe_refl.
    apply enqueue_frame; auto; [discriminate|]. rewrite (K _ eq_refl). auto.
Qed.

Lemma status_of_op s c o : aget c (table s) = Some o -> status_of s c = op_status o.
Proof. unfold status_of. now intros ->. Qed.

Lemma recover_with_linv b s c x : Inv s -> LInv b s -> x_ok s c x -> LInv b (fst (recover_with s c x)).
Proof.
  intros I L X. destruct (recover_with_fields s c x) as (Hi & Hp & Hl).
  destruct L as [A B C]. constructor; [|now rewrite Hp|now rewrite Hp].
  intros c'. destruct (N.eq_dec c' c) as [->|Hne].
  2:{ apply (lab_frame b s); auto. - apply recover_with_frame; auto. - now rewrite Hi. }
  destruct X as [X|X]; [now rewrite (recover_with_noop _ _ _ X)|].
  pose proof (A c) as Lc. unfold lab in *. rewrite Hl, Hp, Hi.
  destruct (act x) as [t|] eqn:Hact; [|destruct x; simpl in Hact; try discriminate; simpl; auto].
  (* the type of the operation tracked for c afterwards *)
  assert (Hty : match t with
                | OPin => aget c (pinset s) = None /\ fst (recover_with s c x) = s \/ ty (fst (recover_with s c x)) c = Some OPin
                | OUnpin => ty (fst (recover_with s c x)) c = Some OUnpin
                | ORemote => False end).
  { destruct x; simpl in Hact; inversion Hact; subst; unfold recover_with.
    - destruct (aget c (pinset s)) as [p|] eqn:Hps; [right|left; auto].
      destruct (enqueue_result s p OPin I) as (o & Ho & T & _); [discriminate|]. rewrite (B _ _ Hps) in Ho.
      unfold ty. now rewrite Ho, <- T.
    - destruct (enqueue_result s (pincid c) OUnpin I) as (o & Ho & T & _); [discriminate|]. simpl in Ho.
      unfold ty. now rewrite Ho, <- T.
    - destruct (aget c (pinset s)) as [p|] eqn:Hps; [right|left; auto].
      destruct (enqueue_result s p OPin I) as (o & Ho & T & _); [discriminate|]. rewrite (B _ _ Hps) in Ho.
      unfold ty. now rewrite Ho, <- T. }
  (* what the true status says about the tracked operation before *)
  assert (Hbefore : match t with
                    | OPin => ty s c = Some OPin \/ (ty s c = None /\ exists p, aget c (pinset s) = Some p /\ pmeta p = false /\ premote p = false)
                    | OUnpin => ty s c = Some OUnpin
                    | ORemote => False end).
  { unfold status_of, ty in *. destruct (aget c (table s)) as [o|] eqn:Ho; simpl.
    - unfold op_status in X. destruct t, (otyp o), (oph o); simpl in X; try discriminate; auto.
    - destruct (aget c (pinset s)) as [p|] eqn:Hps; simpl in X; [|destruct t; discriminate].
      destruct (pmeta p) eqn:Hm; [destruct t; discriminate|]. destruct (premote p) eqn:Hr; [destruct t; discriminate|].
      destruct (ipfs_has s c (pdirect p)); destruct t; try discriminate. right. split; auto. eauto. }
  destruct t; try contradiction.
  - destruct Hty as [[Hn E]|Hty]; [rewrite E; exact Lc|]. rewrite Hty.
    destruct (aget c (last s)) as [[p|]|] eqn:Hla.
    + destruct Lc as [Lp Lc]. split; auto. destruct (pmeta p) eqn:Hm; auto. destruct (premote p) eqn:Hr; [|auto].
      exfalso. destruct Hbefore as [Hb|(Hb & p' & Hp' & M & R)].
      * destruct Lc as [Lc|[Lc _]]; congruence.
      * rewrite Lp in Hp'. inversion Hp'; subst. congruence.
    + destruct Lc as [Lp Lc]. exfalso. destruct Hbefore as [Hb|(Hb & p' & Hp' & _)]; [|congruence].
      destruct Lc as [Lc|[Lc _]]; congruence.
    + auto.
  - rewrite Hty. destruct (aget c (last s)) as [[p|]|] eqn:Hla.
    + destruct Lc as [Lp Lc]. split; auto. destruct (pmeta p) eqn:Hm; auto. exfalso.
      destruct (premote p); [destruct Lc as [Lc|[Lc _]]|destruct Lc as [Lc|Lc]]; congruence.
    + destruct Lc as [Lp Lc]. auto.
    + destruct Lc; congruence.
Qed.

Lemma track_effect s p : Inv s ->
  pinset (fst (track s p)) = aput (pcid p) p (pinset s) /\
  last (fst (track s p)) = aput (pcid p) (ITrack p) (last s) /\
  ipfs (fst (track s p)) = ipfs s /\
  (forall c', c' <> pcid p -> opframe s (fst (track s p)) c') /\
  (if pmeta p then opframe s (fst (track s p)) (pcid p)
   else if premote p then ty (fst (track s p)) (pcid p) = Some ORemote
   else ty (fst (track s p)) (pcid p) = Some OPin).
Proof.
  intros I. unfold track.
  set (s0 := set_last (set_pinset s (aput (pcid p) p (pinset s))) (aput (pcid p) (ITrack p) (last s))).
  assert (I0 : Inv s0) by (apply (inv_ext s); auto).
  assert (F0 : forall c, opframe s s0 c) by (intros c; apply opframe_eq; reflexivity).
  destruct (pmeta p); [simpl; repeat split; auto|].
  destruct (premote p).
  - destruct (track_new s0 p ORemote PInProgress) as [[s1 i]|] eqn:Htn.
    + destruct (track_new_some _ _ _ _ _ _ Htn) as (-> & Hn & Ht & _ & _ & Hpq & Huq & Hip & Hps & Hla & _).
      pose proof (track_new_calls _ _ _ _ _ _ I0 Htn) as Hcalls.
      set (s2 := set_calls s1 (calls s1 ++ [mk_call (next s0) (pcid p) KSync])).
      assert (I2 : Inv s2).
      { apply (install_inv s0 _ (pcid p) (mk_op (next s0) ORemote PInProgress p) I0); simpl; auto.
        - intros cl. rewrite in_app_iff, Hcalls. simpl. split.
          + intros [H|[<-|[]]]; auto.
          + intros [H|(_ & _ & ->)]; auto.
        - exists (mk_call (next s0) (pcid p) KSync). split; auto. apply in_or_app. right. now left. }
      simpl. rewrite dispatch_pinset, dispatch_last, dispatch_ipfs. simpl. rewrite Hps, Hla, Hip. repeat split; auto.
      * intros c' Hne. eapply opframe_trans; [|apply dispatch_frame; exact I2]. apply opframe_eq. simpl. rewrite Ht.
        now apply aget_aput_other.
      * rewrite (ty_frame _ _ _ (dispatch_frame s2 (pcid p) I2)). unfold ty. simpl. now rewrite Ht, aget_aput_same.
    + simpl. repeat split; auto. destruct (track_new_none _ _ _ _ Htn) as (o0 & A & B & _). unfold ty. now rewrite A, <- B.
  - destruct (enqueue_fields s0 p OPin) as (Hi & Hp & Hl). rewrite Hi, Hp, Hl. repeat split; auto.
    + intros c' Hne. eapply opframe_trans; [apply F0|]. apply enqueue_frame; auto. discriminate.
    + destruct (enqueue_result s0 p OPin I0) as (o & Ho & T & _); [discriminate|]. unfold ty. now rewrite Ho, <- T.
Qed.

Lemma untrack_effect s c : Inv s ->
  pinset (fst (untrack s c)) = adel c (pinset s) /\
  last (fst (untrack s c)) = aput c IUntrack (last s) /\
  ipfs (fst (untrack s c)) = ipfs s /\
  (forall c', c' <> c -> opframe s (fst (untrack s c)) c') /\
  ty (fst (untrack s c)) c = Some OUnpin.
Proof.
  intros I. unfold untrack.
  set (s0 := set_last (set_pinset s (adel c (pinset s))) (aput c IUntrack (last s))).
  assert (I0 : Inv s0) by (apply (inv_ext s); auto).
  destruct (enqueue_fields s0 (pincid c) OUnpin) as (Hi & Hp & Hl). rewrite Hi, Hp, Hl. repeat split; auto.
  - intros c' Hne. apply (opframe_trans s s0); [apply opframe_eq; reflexivity|]. apply enqueue_frame; auto. discriminate.
  - destruct (enqueue_result s0 (pincid c) OUnpin I0) as (o & Ho & T & _); [discriminate|]. simpl in Ho. unfold ty.
    now rewrite Ho, <- T.
Qed.

Lemma aget_in_nodup {V} k (v : V) m : NoDup (akeys m) -> In (k, v) m -> aget k m = Some v.
Proof.
  induction m as [|[k' v'] r IH]; simpl; [tauto|]. intros Hnd [E|Hin].
  - inversion E; subst. now rewrite N.eqb_refl.
  - inversion Hnd; subst. destruct (N.eqb_spec k k') as [->|Hne]; auto.
    exfalso. apply H1. unfold akeys. apply in_map_iff. exists (k', v). auto.
Qed.

Lemma aget_some_in {V} k (v : V) m : aget k m = Some v -> In (k, v) m.
Proof.
  induction m as [|[k' v'] r IH]; simpl; [discriminate|]. destruct (N.eqb_spec k k') as [->|Hne].
  - intros H. inversion H; subst. now left.
  - intros H. right. auto.
Qed.

Lemma track_linv b s p : Inv s -> LInv b s -> LInv b (fst (track s p)).
Proof.
  intros I [A B C]. destruct (track_effect s p I) as (Hp & Hl & Hi & Fo & Fc). constructor.
  - intros c. destruct (N.eq_dec c (pcid p)) as [->|Hne].
    + unfold lab. rewrite Hl, Hp, !aget_aput_same. split; auto.
      destruct (pmeta p); auto. destruct (premote p); auto.
    + pose proof (A c) as Lc. unfold lab in *. rewrite Hl, Hp, Hi, !aget_aput_other by auto.
      now rewrite (ty_frame _ _ _ (Fo c Hne)).
  - intros c q. rewrite Hp. destruct (N.eq_dec c (pcid p)) as [->|Hne].
    + rewrite aget_aput_same. intros H. now inversion H.
    + rewrite aget_aput_other by auto. apply B.
  - rewrite Hp. now apply NoDup_akeys_aput.
Qed.

Lemma untrack_linv b s c : Inv s -> LInv b s -> LInv b (fst (untrack s c)).
Proof.
  intros I [A B C]. destruct (untrack_effect s c I) as (Hp & Hl & Hi & Fo & Fc). constructor.
  - intros c'. destruct (N.eq_dec c' c) as [->|Hne].
    + unfold lab. rewrite Hl, Hp, aget_aput_same, aget_adel_same. auto.
    + pose proof (A c') as Lc. unfold lab in *. rewrite Hl, Hp, Hi, aget_aput_other, aget_adel_other by auto.
      now rewrite (ty_frame _ _ _ (Fo c' Hne)).
  - intros c' q. rewrite Hp. destruct (N.eq_dec c' c) as [->|Hne].
    + now rewrite aget_adel_same.
    + rewrite aget_adel_other by auto. apply B.
  - rewrite Hp. now apply NoDup_akeys_adel.
Qed.

Lemma complete_linv b s c fault : Inv s -> LInv b s -> LInv b (complete s c fault).
Proof.
  intros I [A B C]. destruct (complete_effect s c fault I) as (Hp & Hl & Fo & Hc).
  constructor; [|now rewrite Hp|now rewrite Hp].
  intros c'. destruct (N.eq_dec c' c) as [->|Hne].
  2:{ destruct (Fo c' Hne) as [F Hi]. pose proof (A c') as Lc. unfold lab in *. now rewrite Hl, Hp, Hi, (ty_frame _ _ _ F). }
  destruct Hc as [[E _]|(cl & o & Hin & Hcc & Ho & Hid & Hph & Hty & Hip & Hres)]; [rewrite E; apply A|].
  pose proof (A c) as Lc. unfold lab in *. rewrite Hl, Hp.
  assert (Tc : ty s c = Some (kind_type (ckd cl))) by (unfold ty; now rewrite Ho, <- Hty).
  unfold call_outcome in *. destruct fault; simpl in *.
  - destruct Hres as (o' & Ho' & T' & _). assert (Tc' : ty (complete s c true) c = ty s c) by (unfold ty; rewrite Ho', Ho; simpl; now rewrite T').
    rewrite Tc', Hip. exact Lc.
  - (* the call succeeded or was refused by the daemon *)
    destruct (ckd cl) eqn:Hk; simpl in *.
    + (* pin *) destruct (conn_pin (ipfs s) c (pdirect (opin o))) as [i' ok] eqn:Hcp. simpl in *.
      assert (Tc' : ty (complete s c false) c = Some OPin \/ ty (complete s c false) c = None).
      { destruct ok; [right; unfold ty; now rewrite Hres|left]. destruct Hres as (o' & Ho' & T' & _). unfold ty. rewrite Ho'. simpl. now rewrite T', Hty. }
      destruct (aget c (last s)) as [[p|]|].
      * destruct Lc as [Lp Lc]. split; auto. destruct (pmeta p); auto. destruct (premote p); [|tauto].
        destruct Lc as [Lc|[Lc _]]; congruence.
      * destruct Lc as [Lp [Lc|[Lc _]]]; congruence.
      * tauto.
    + (* unpin *) rewrite Hip. assert (Tc' : ty (complete s c false) c = None) by (unfold ty; now rewrite Hres).
      rewrite Tc', aget_adel_same. destruct (aget c (last s)) as [[p|]|].
      * destruct Lc as [Lp Lc]. split; auto. destruct (pmeta p); auto. destruct (premote p); auto.
      * destruct Lc as [Lp Lc]. auto.
      * auto.
    + (* synchronous unpin of a remote pin *) rewrite Hip. assert (Tc' : ty (complete s c false) c = None) by (unfold ty; now rewrite Hres).
      rewrite Tc', aget_adel_same. destruct (aget c (last s)) as [[p|]|].
      * destruct Lc as [Lp Lc]. split; auto. destruct (pmeta p); auto. destruct (premote p); auto.
      * destruct Lc as [Lp Lc]. auto.
      * auto.
Qed.

(* ------------------------------------------------------------------------------------------------------------ *)
(* RecoverAll: the listing taken at the start stays accurate for the entries not yet visited *)

Lemma NoDup_app_intro {A} (l1 l2 : list A) : NoDup l1 -> NoDup l2 -> (forall x, In x l1 -> ~ In x l2) -> NoDup (l1 ++ l2).
Proof.
  induction l1 as [|a r IH]; simpl; auto. intros H1 H2 Hd. inversion H1; subst. constructor.
  - intros Hin. apply in_app_or in Hin as [Hin|Hin]; [auto|]. exact (Hd a (or_introl eq_refl) Hin).
  - apply IH; auto.
Qed.

Lemma filter_all {A} (f : A -> bool) l : (forall x, f x = true) -> filter f l = l.
Proof. intros H. induction l as [|a r IH]; simpl; auto. now rewrite H, IH. Qed.

Lemma match_zero b : match_ b 0 = true.
Proof. reflexivity. Qed.

Lemma status_all0 s : status_all s 0 =
  map (fun e => (fst e, op_status (snd e))) (table s)
  ++ filter (fun e => negb (in_table s (fst e))) (flat_map (local_entry s 0) (pinset s)).
Proof. unfold status_all. rewrite filter_all by (intros; apply match_zero). reflexivity. Qed.

Lemma local_entry0 s c p : local_entry s 0 (c, p) =
  [(c, if pmeta p then SSharded else if premote p then SRemote else if ipfs_has s c (pdirect p) then SPinned else SUnexpectedly)].
Proof. unfold local_entry. destruct (pmeta p); [reflexivity|]. destruct (premote p); [reflexivity|].
  change (want_ipfs 0) with true. simpl. destruct (ipfs_has s c (pdirect p)); reflexivity. Qed.

Definition entry_of (s : st) (c : N) : option status :=
  match aget c (table s) with
  | Some o => Some (op_status o)
  | None => match aget c (pinset s) with
            | Some p => Some (if pmeta p then SSharded else if premote p then SRemote
                              else if ipfs_has s c (pdirect p) then SPinned else SUnexpectedly)
            | None => None end
  end.

Lemma status_all0_in s c x : NoDup (akeys (table s)) -> NoDup (akeys (pinset s)) ->
  (In (c, x) (status_all s 0) <-> entry_of s c = Some x).
Proof.
  intros Nt Np. rewrite status_all0, in_app_iff, in_map_iff, filter_In, in_flat_map. unfold entry_of. split.
  - intros [([c' o] & E & Hin)|[([c' p] & Hin & He) Hnt]].
    + simpl in E. inversion E; subst. now rewrite (aget_in_nodup _ _ _ Nt Hin).
    + rewrite local_entry0 in He. destruct He as [He|[]]. inversion He; subst c'. simpl in Hnt.
      unfold in_table in Hnt. destruct (aget c (table s)); [discriminate|].
      rewrite (aget_in_nodup _ _ _ Np Hin). now inversion He.
  - destruct (aget c (table s)) as [o|] eqn:Ho.
    + intros H. inversion H; subst. left. exists (c, o). split; auto. now apply aget_some_in.
    + destruct (aget c (pinset s)) as [p|] eqn:Hp; [|discriminate]. intros H. inversion H; subst. right. split.
      * exists (c, p). split; [now apply aget_some_in|]. rewrite local_entry0. now left.
      * simpl. unfold in_table. now rewrite Ho.
Qed.

Lemma status_all0_nodup s : NoDup (akeys (table s)) -> NoDup (akeys (pinset s)) -> NoDup (map fst (status_all s 0)).
Proof.
  intros Nt Np. rewrite status_all0, map_app. apply NoDup_app_intro.
  - rewrite map_map. simpl. exact Nt.
  - (* keys of the local entries are keys of the shared state, each once *)
    assert (H : forall l, NoDup (akeys l) -> NoDup (map fst (filter (fun e : N * status => negb (in_table s (fst e))) (flat_map (local_entry s 0) l)))).
    { induction l as [|[c p] r IH]; [constructor|]. intros Hn. cbn [akeys map fst] in Hn. inversion Hn; subst.
      cbn [flat_map]. rewrite local_entry0. cbn [app filter fst]. destruct (negb (in_table s c)); cbn [map fst]; auto. constructor; auto.
      intros Hin. apply in_map_iff in Hin as ([c' x] & E & Hin). simpl in E. subst c'.
      apply filter_In in Hin as [Hin _]. apply in_flat_map in Hin as ([c2 p2] & Hin2 & He).
      rewrite local_entry0 in He. destruct He as [He|[]]. inversion He; subst. apply H1.
      unfold akeys. apply in_map_iff. exists (c, p2). auto. }
    apply H, Np.
  - intros c Hin1 Hin2. rewrite map_map in Hin1. simpl in Hin1.
    apply in_map_iff in Hin2 as ([c' x] & E & Hin2). simpl in E. subst c'. apply filter_In in Hin2 as [_ Hnt].
    simpl in Hnt. unfold in_table in Hnt. destruct (aget c (table s)) eqn:Ho; [discriminate|].
    apply in_map_iff in Hin1 as ([c' o] & E & Hin1). simpl in E. subst c'.
    rewrite (aget_in_nodup _ _ _ Nt Hin1) in Ho. discriminate.
Qed.

Lemma entry_xok s c x : entry_of s c = Some x -> x_ok s c x.
Proof.
  unfold entry_of, x_ok, status_of. destruct (aget c (table s)) as [o|].
  - intros H. inversion H; subst. now right.
  - destruct (aget c (pinset s)) as [p|]; [|discriminate]. intros H. inversion H; subst. right.
    destruct (pmeta p); auto. destruct (premote p); auto. destruct (ipfs_has s c (pdirect p)); auto.
Qed.

Lemma order_by_in ord snap e : NoDup (map fst snap) -> (In e (order_by ord snap) <-> In e snap).
Proof.
  intros Nd. unfold order_by. rewrite in_app_iff, in_flat_map, filter_In. split.
  - intros [(c & Hc & He)|[He _]]; auto. destruct (aget c snap) as [x|] eqn:Hx; [|destruct He].
    destruct He as [<-|[]]. now apply aget_some_in.
  - intros He. destruct e as [c x]. destruct (memN c ord) eqn:Hm.
    + left. exists c. split; [apply nodup_In; now apply memN_in|].
      assert (Hn : NoDup (akeys snap)) by exact Nd. rewrite (aget_in_nodup _ _ _ Hn He). now left.
    + right. split; auto. simpl. now rewrite Hm.
Qed.

Lemma order_by_nodup ord snap : NoDup (map fst snap) -> NoDup (map fst (order_by ord snap)).
Proof.
  intros Nd. unfold order_by. rewrite map_app. apply NoDup_app_intro.
  - assert (H : forall l, NoDup l -> NoDup (map fst (flat_map (fun c => match aget c snap with Some x => [(c, x)] | None => [] end) l))).
    { induction l as [|c r IH]; simpl; [constructor|]. intros Hn. inversion Hn; subst. rewrite map_app.
      apply NoDup_app_intro; auto.
      - destruct (aget c snap); simpl; constructor; [intros []|constructor].
      - intros k Hk Hin. destruct (aget c snap); [|destruct Hk]. destruct Hk as [<-|[]]. simpl in Hin.
        apply in_map_iff in Hin as ([c' x] & E & Hin). simpl in E. subst c'. apply in_flat_map in Hin as (c2 & Hc2 & He).
        destruct (aget c2 snap); [|destruct He]. destruct He as [He|[]]. inversion He; subst. auto. }
    apply H, NoDup_nodup.
  - clear -Nd. induction snap as [|[c x] r IH]; simpl in *; [constructor|]. inversion Nd; subst.
    destruct (negb (memN c ord)); simpl; auto. constructor; auto. intros Hin. apply H1.
    apply in_map_iff in Hin as (e & E & Hin). apply filter_In in Hin as [Hin _]. apply in_map_iff. eauto.
  - intros k Hk Hin. apply in_map_iff in Hk as ([c x] & E & Hk). simpl in E. subst c.
    apply in_flat_map in Hk as (c & Hc & He). destruct (aget c snap); [|destruct He]. destruct He as [He|[]]. inversion He; subst.
    apply nodup_In in Hc. apply in_map_iff in Hin as ([c' x'] & E & Hin). simpl in E. subst c'.
    apply filter_In in Hin as [_ Hm]. simpl in Hm. apply negb_true_iff in Hm. apply memN_false in Hm. auto.
Qed.

Lemma recover_list_linv b l : forall s, Inv s -> LInv b s -> NoDup (map fst l) ->
  (forall c x, In (c, x) l -> x_ok s c x) -> LInv b (fst (recover_list s l)).
Proof.
  induction l as [|[c x] r IH]; intros s I L Nd X; simpl; auto.
  pose proof (recover_with_inv s c x I) as I1.
  pose proof (recover_with_linv b s c x I L (X c x (or_introl eq_refl))) as L1.
  destruct (recover_with_fields s c x) as (Hi & Hp & Hl).
  assert (X1 : forall c' x', In (c', x') r -> x_ok (fst (recover_with s c x)) c' x').
  { intros c' x' Hin. simpl in Nd. inversion Nd; subst.
    assert (Hne : c' <> c). { intros ->. apply H1. apply in_map_iff. exists (c, x'). auto. }
    destruct (X c' x' (or_intror Hin)) as [A|A]; [now left|right]. rewrite A. symmetry. apply status_of_frame; auto.
    - apply recover_with_frame; auto. apply L.
    - now rewrite Hi. }
  destruct (recover_with s c x) as [s' [|]]; simpl in *; auto.
  apply IH; auto. now inversion Nd.
Qed.

Lemma recover_all_linv b s ord : Inv s -> LInv b s -> LInv b (fst (recover_all s ord)).
Proof.
  intros I L. unfold recover_all.
  pose proof (status_all0_nodup s (inv_nodup _ I) (li_pnodup _ _ L)) as Nd.
  apply recover_list_linv; auto.
  - now apply order_by_nodup.
  - intros c x Hin. apply order_by_in in Hin; auto. apply entry_xok. apply status_all0_in; auto. apply I. apply L.
Qed.

Lemma xok_self s c : x_ok s c (status_of s c).
Proof. now right. Qed.

Lemma step_raw_linv b s e : Inv s -> LInv b s -> (b = true -> match e with EDaemon _ _ => False | _ => True end) ->
  LInv b (fst (step_raw s e)).
Proof.
  intros I L Hb. destruct e; simpl.
  - now apply track_linv.
  - now apply untrack_linv.
  - unfold recover. apply recover_with_linv; auto using xok_self.
  - now apply recover_all_linv.
  - now apply complete_linv.
  - destruct b; [exfalso; now apply Hb|]. destruct L as [A B C]. constructor; auto.
    intros c'. pose proof (A c') as Lc. unfold lab in *. simpl. unfold ty in *. simpl.
    destruct (aget c' (last s)) as [[p|]|]; auto.
    + destruct Lc as [Lp Lc]. split; auto. destruct (pmeta p); auto. destruct (premote p); auto.
      destruct Lc as [Lc|[Lc _]]; auto. right. split; auto. discriminate.
    + destruct Lc as [Lp [Lc|[Lc _]]]; auto. split; auto. right. split; auto. discriminate.
Qed.

Definition tracker_ev (e : event) : Prop := match e with EDaemon _ _ => False | _ => True end.

Lemma step_linv b s e : Inv s -> LInv b s -> (b = true -> tracker_ev e) -> LInv b (fst (step s e)).
Proof.
  intros I L Hb. unfold step. pose proof (step_raw_inv s e I) as I1. pose proof (step_raw_linv b s e I L Hb) as L1.
  destruct (step_raw s e) as [s' r]. simpl in *. now apply dispatch_linv.
Qed.

Lemma run_linv b evs : forall s, Inv s -> LInv b s -> (b = true -> Forall tracker_ev evs) -> LInv b (run s evs).
Proof.
  induction evs as [|e r IH]; intros s I L Hb; simpl; auto. apply IH.
  - now apply step_inv.
  - apply step_linv; auto. intros E. specialize (Hb E). now inversion Hb.
  - intros E. specialize (Hb E). now inversion Hb.
Qed.

Definition wf_pinset (ps : list (N * tpin)) : Prop := NoDup (akeys ps) /\ forall c p, aget c ps = Some p -> pcid p = c.

Lemma init_linv b q n ps i : wf_pinset ps -> LInv b (init q n ps i).
Proof. intros [A B]. constructor; simpl; auto. intros c. unfold lab, ty. simpl. auto. Qed.

(* ------------------------------------------------------------------------------------------------------------ *)
(* quiescence *)

Lemma quiescent_errors s : Inv s -> quiescent s = true -> forall c o, aget c (table s) = Some o -> oph o = PError.
Proof.
  intros I Q c o Ho. unfold quiescent in Q. apply andb_true_iff in Q as [Qc Qq]. apply negb_true_iff in Qq.
  pose proof (inv_phase _ I _ _ Ho) as P. unfold phase_ok in P. destruct (oph o); auto; exfalso.
  - assert (E : existsb (fun e => current (table s) (fst e) (snd e)) (pinq s ++ unpinq s) = true).
    { apply existsb_exists. exists (oid o, c). split; [|now apply current_oid].
      apply in_or_app. destruct P as [[_ H]|[_ H]]; auto. }
    congruence.
  - destruct P as (cl & Hin & _). destruct (calls s); [destruct Hin|discriminate].
  - exact P.
Qed.

Lemma converged b s : Inv s -> LInv b s -> quiescent s = true -> forall c,
  (forall p, aget c (pinset s) = Some p -> local_pin p = true ->
     ipfs_has s c (pdirect p) = true \/ is_error (status_of s c) = true) /\
  (b = true -> aget c (last s) = Some IUntrack -> aget c (ipfs s) = None \/ is_error (status_of s c) = true) /\
  (b = true -> forall p, aget c (last s) = Some (ITrack p) -> pmeta p = false -> premote p = true ->
     aget c (ipfs s) = None \/ exists o, aget c (table s) = Some o /\ otyp o = ORemote /\ oph o = PError).
Proof.
  intros I L Q c. pose proof (li_lab _ _ L c) as Lc. unfold lab, ty in Lc.
  pose proof (quiescent_errors s I Q c) as Qe. repeat split.
  - intros p Hp Hloc. unfold local_pin in Hloc. apply andb_true_iff in Hloc as [Hm Hr].
    apply negb_true_iff in Hm, Hr. unfold status_of. destruct (aget c (table s)) as [o|] eqn:Ho.
    + right. specialize (Qe o eq_refl). unfold op_status. rewrite Qe. simpl in Lc.
      destruct (aget c (last s)) as [[p'|]|].
      * destruct Lc as [Lp Lc]. rewrite Hp in Lp. inversion Lp; subst p'. rewrite Hm, Hr in Lc.
        destruct Lc as [Lc|Lc]; inversion Lc as [T]. now rewrite T.
      * destruct Lc as [Lp _]. congruence.
      * destruct Lc as [Lc|Lc]; inversion Lc as [T]. now rewrite T.
    + rewrite Hp, Hm, Hr. destruct (ipfs_has s c (pdirect p)); auto.
  - intros Hb Hl. rewrite Hl in Lc. destruct Lc as [Lp [Lc|[Lc Li]]].
    + right. unfold status_of. destruct (aget c (table s)) as [o|] eqn:Ho; [|discriminate]. simpl in Lc. inversion Lc as [T].
      unfold op_status. now rewrite T, (Qe o eq_refl).
    + left. auto.
  - intros Hb p Hl Hm Hr. rewrite Hl, Hm, Hr in Lc. destruct Lc as [Lp [Lc|[Lc Li]]].
    + right. destruct (aget c (table s)) as [o|] eqn:Ho; [|discriminate]. simpl in Lc. inversion Lc as [T].
      exists o. auto.
    + left. auto.
Qed.

(* an instruction is queued (or already being worked on) after a nil return, in error after ErrFullQueue *)
Lemma instr_reported s e c typ : Inv s ->
  match e with
  | ETrack p => pmeta p = false /\ premote p = false /\ c = pcid p /\ typ = OPin
  | EUntrack c' => c = c' /\ typ = OUnpin
  | _ => False end ->
  exists o, aget c (table (fst (step s e))) = Some o /\ otyp o = typ /\
    match snd (step s e) with RFull => oph o = PError | ROk => live (oph o) = true end.
Proof.
  intros I He. unfold step.
  assert (H : exists o, aget c (table (fst (step_raw s e))) = Some o /\ otyp o = typ /\
            match snd (step_raw s e) with RFull => oph o = PError | ROk => live (oph o) = true end).
  { destruct e; try contradiction; simpl.
    - destruct He as (Hm & Hr & -> & ->). unfold track. rewrite Hm, Hr.
      set (s0 := set_last _ _). assert (I0 : Inv s0) by (apply (inv_ext s); auto).
      destruct (enqueue_result s0 p OPin I0) as (o & Ho & T & R); [discriminate|]. exists o. repeat split; auto.
      destruct (snd (enqueue s0 p OPin)); tauto.
    - destruct He as (-> & ->). unfold untrack. set (s0 := set_last _ _). assert (I0 : Inv s0) by (apply (inv_ext s); auto).
      destruct (enqueue_result s0 (pincid c0) OUnpin I0) as (o & Ho & T & R); [discriminate|]. exists o. repeat split; auto.
      destruct (snd (enqueue s0 (pincid c0) OUnpin)); tauto. }
  pose proof (step_raw_inv s e I) as I1. destruct (step_raw s e) as [s' r]. simpl in *.
  destruct H as (o & Ho & T & R). pose proof (dispatch_frame s' c I1) as F. unfold opframe in F. rewrite Ho in F.
  destruct (aget c (table (dispatch s'))) as [o'|]; [|contradiction]. exists o'. destruct F as (_ & T' & _ & P).
  repeat split; [congruence|]. destruct r.
  - destruct P as [P|[P1 P2]]; [now rewrite P|now rewrite P2].
  - destruct P as [P|[P1 P2]]; congruence.
Qed.

(* recoverWithPinInfo re-issues the pin recorded in the shared state *)
Lemma recover_reissues s c x o : Inv s -> (forall p, aget c (pinset s) = Some p -> pcid p = c) ->
  aget c (table (fst (recover_with s c x))) = Some o -> oid o = next s -> otyp o = OPin ->
  aget c (pinset s) = Some (opin o).
Proof.
  intros I K Ho Hid Ht.
  assert (Hold : fst (recover_with s c x) = s -> False).
  { intros E. rewrite E in Ho. pose proof (inv_fresh_t _ I _ _ Ho). lia. }
  assert (Hpin : forall p, aget c (pinset s) = Some p -> aget c (table (fst (enqueue s p OPin))) = Some o -> Some p = Some (opin o)).
  { intros p Hp Ho'. destruct (enqueue_result s p OPin I) as (o' & Ho2 & T & R); [discriminate|].
    rewrite (K _ Hp), Ho' in Ho2. inversion Ho2; subst o'.
    destruct (track_new s p OPin PQueued) as [[s1 i]|] eqn:Htn.
    - destruct (snd (enqueue s p OPin)); [|now destruct R as [_ ->]]. destruct R as [_ R]. destruct R as [-> _]; [discriminate|auto].
    - exfalso. apply Hold. unfold recover_with. unfold enqueue in *. rewrite Htn in *. simpl in *.
      pose proof (inv_fresh_t _ I _ _ Ho'). lia. }
  unfold recover_with in *. destruct x; try (exfalso; now apply Hold).
  - destruct (aget c (pinset s)) as [p|] eqn:Hp; [|exfalso; now apply Hold]. rewrite (Hpin p eq_refl Ho). reflexivity.
  - exfalso. destruct (enqueue_result s (pincid c) OUnpin I) as (o' & Ho2 & T & _); [discriminate|]. simpl in Ho2.
    rewrite Ho in Ho2. inversion Ho2; subst. congruence.
  - destruct (aget c (pinset s)) as [p|] eqn:Hp; [|exfalso; now apply Hold]. rewrite (Hpin p eq_refl Ho). reflexivity.
Qed.

(* ------------------------------------------------------------------------------------------------------------ *)
(* a recover round: RecoverAll, then every call in flight succeeds, up to quiescence *)

Definition ok_complete (e : event) : Prop := exists c, e = EComplete c false.

Lemma conn_pin_ok i c d : ~ (d = true /\ aget c i = Some false) ->
  snd (conn_pin i c d) = true /\ aget c (fst (conn_pin i c d)) = Some d.
Proof.
  intros Hn. unfold conn_pin. destruct (aget c i) as [d0|] eqn:H.
  - destruct (Bool.eqb d0 d) eqn:E; simpl.
    + split; auto. rewrite H. f_equal. now apply Bool.eqb_prop.
    + destruct d; simpl.
      * exfalso. apply Hn. split; auto. destruct d0; [discriminate|reflexivity].
      * split; auto. apply aget_aput_same.
  - simpl. split; auto. apply aget_aput_same.
Qed.

Section HealPin.
Variables (c : N) (p : tpin) (i0 : option bool).
(* the daemon would refuse: recorded mode direct, daemon holds the cid recursively *)
Hypothesis not_refused : ~ (pdirect p = true /\ i0 = Some false).

Definition good (s : st) : Prop :=
  aget c (pinset s) = Some p /\
  ((exists o, aget c (table s) = Some o /\ otyp o = OPin /\ live (oph o) = true /\ opin o = p /\ aget c (ipfs s) = i0)
   \/ (aget c (table s) = None /\ ipfs_has s c (pdirect p) = true)).

Definition needs (s : st) (x : status) : Prop :=
  aget c (pinset s) = Some p /\ aget c (ipfs s) = i0 /\ act x = Some OPin /\
  match aget c (table s) with Some o => live (oph o) = false | None => True end.

Lemma good_frame s s' : opframe s s' c -> pinset s' = pinset s -> aget c (ipfs s') = aget c (ipfs s) -> good s -> good s'.
Proof.
  intros F Hp Hi [G1 G2]. split; [now rewrite Hp|]. unfold opframe in F. unfold ipfs_has in *. rewrite Hi.
  destruct G2 as [(o & Ho & T & Lv & Pn & Ip)|[Ho Ih]]; rewrite Ho in F.
  - left. destruct (aget c (table s')) as [o'|]; [|contradiction]. exists o'. pose proof (live_frame _ _ F Lv).
    destruct F as (_ & T' & P' & _). repeat split; congruence.
  - right. destruct (aget c (table s')); [contradiction|]. auto.
Qed.

Lemma needs_frame s s' x : opframe s s' c -> pinset s' = pinset s -> aget c (ipfs s') = aget c (ipfs s) -> needs s x -> needs s' x.
Proof.
  intros F Hp Hi (A & B & C & D). unfold needs. rewrite Hp, Hi. repeat split; auto. unfold opframe in F.
  destruct (aget c (table s)) as [o|], (aget c (table s')) as [o'|]; try tauto.
  destruct F as (_ & _ & _ & [P|[P _]]); [now rewrite P|]. rewrite P in D. discriminate.
Qed.

Lemma good_complete s c' : Inv s -> good s -> good (complete s c' false).
Proof.
  intros I G. destruct (complete_effect s c' false I) as (Hp & _ & Fo & Hc).
  destruct (N.eq_dec c c') as [<-|Hne].
  2:{ destruct (Fo c Hne) as [F Hi]. now apply (good_frame s). }
  destruct Hc as [[E _]|(cl & o & Hin & Hcc & Ho & Hid & Hph & Hty & Hip & Hres)]; [now rewrite E|].
  destruct G as [G1 G2]. split; [now rewrite Hp|]. right.
  destruct G2 as [(o' & Ho' & T & Lv & Pn & Ip)|[Ho' _]]; [|congruence].
  rewrite Ho in Ho'. inversion Ho'; subst o'. rewrite T in Hty.
  destruct (ckd cl); simpl in Hty; try discriminate. unfold call_outcome in *. cbn [fst snd] in *.
  rewrite Pn in *.
  destruct (conn_pin_ok (ipfs s) c (pdirect p)) as [Ok Ag].
  { intros [D1 D2]. apply not_refused. split; auto. now rewrite <- Ip. }
  rewrite Ok in Hres. split; auto. unfold ipfs_has. rewrite Hip, Ag. apply Bool.eqb_reflx.
Qed.

Lemma good_run evs : forall s, Forall ok_complete evs -> Inv s -> good s -> good (run s evs).
Proof.
  induction evs as [|e r IH]; intros s Hf I G; simpl; auto. inversion Hf as [|? ? [c' ->] Hr]; subst.
  apply IH; auto; [apply step_inv; auto|]. unfold step. simpl.
  pose proof (complete_inv s c' false I) as I1.
  apply (good_frame (complete s c' false)); auto using dispatch_frame, dispatch_pinset.
  - now rewrite dispatch_ipfs.
  - now apply good_complete.
Qed.

Lemma good_quiescent s : Inv s -> good s -> quiescent s = true -> ipfs_has s c (pdirect p) = true.
Proof.
  intros I [_ [(o & Ho & _ & Lv & _)|[_ H]]] Q; auto.
  rewrite (quiescent_errors s I Q c o Ho) in Lv. discriminate.
Qed.

Lemma recover_list_good b l : forall s, Inv s -> LInv b s -> NoDup (map fst l) ->
  (forall c' x, In (c', x) l -> x_ok s c' x) ->
  snd (recover_list s l) = ROk ->
  good s \/ (exists x, In (c, x) l /\ needs s x) ->
  good (fst (recover_list s l)).
Proof.
  induction l as [|[c' x'] r IH]; intros s I L Nd X Hr Pre; simpl in *.
  - destruct Pre as [G|(x & [] & _)]; auto.
  - pose proof (recover_with_inv s c' x' I) as I1.
    pose proof (recover_with_linv b s c' x' I L (X c' x' (or_introl eq_refl))) as L1.
    destruct (recover_with_fields s c' x') as (Hi & Hp & Hl).
    inversion Nd as [|? ? Hnotin Nd']; subst.
    assert (X1 : forall c2 x2, In (c2, x2) r -> x_ok (fst (recover_with s c' x')) c2 x2).
    { intros c2 x2 Hin.
      assert (Hne : c2 <> c'). { intros ->. apply Hnotin. apply in_map_iff. exists (c', x2). auto. }
      destruct (X c2 x2 (or_intror Hin)) as [A|A]; [now left|right]. rewrite A. symmetry. apply status_of_frame; auto.
      - apply recover_with_frame; auto. apply L.
      - now rewrite Hi. }
    assert (Pre1 : snd (recover_with s c' x') = ROk ->
                   good (fst (recover_with s c' x')) \/ (exists x, In (c, x) r /\ needs (fst (recover_with s c' x')) x)).
    { intros Hok. destruct (N.eq_dec c c') as [<-|Hne].
      - left. pose proof (X c x' (or_introl eq_refl)) as Xc.
        destruct Pre as [G|(x & [E|Hin] & Nx)].
        + (* nothing to repair: the listed status triggers nothing *)
          assert (An : act x' = None).
          { destruct Xc as [A|A]; auto. rewrite A. destruct G as [G1 [(o & Ho & T & Lv & _)|[Ho Ih]]].
            - rewrite (status_of_op _ _ _ Ho). unfold op_status. rewrite T. destruct (oph o); simpl in *; auto; discriminate.
            - unfold status_of. rewrite Ho, G1.
              destruct (pmeta p); auto. destruct (premote p); auto. now rewrite Ih. }
          now rewrite (recover_with_noop _ _ _ An).
        + inversion E; subst x'. destruct Nx as (Np & Ni & Na & Nt).
          assert (Hen : fst (recover_with s c x) = fst (enqueue s p OPin) /\ snd (recover_with s c x) = snd (enqueue s p OPin)).
          { unfold recover_with. destruct x; simpl in Na; try discriminate; rewrite Np; auto. }
          destruct Hen as [E1 E2]. rewrite E1. rewrite E2 in Hok.
          destruct (enqueue_fields s p OPin) as (Hi' & Hp' & _).
          destruct (enqueue_result s p OPin I) as (o & Ho & T & R); [discriminate|]. rewrite Hok in R.
          rewrite (li_keyed _ _ L _ _ Np) in Ho. split; [now rewrite Hp'|]. left. exists o. destruct R as [Lv R].
          assert (Hnn : track_new s p OPin PQueued <> None).
          { intros Hn. destruct (track_new_none _ _ _ _ Hn) as (o0 & A & _ & B). rewrite (li_keyed _ _ L _ _ Np) in A.
            rewrite A in Nt. congruence. }
          destruct (R Hnn) as [Rp _]. repeat split; auto. now rewrite Hi'.
        + exfalso. apply Hnotin. apply in_map_iff. exists (c, x). auto.
      - assert (F : opframe s (fst (recover_with s c' x')) c) by (apply recover_with_frame; auto; apply L).
        destruct Pre as [G|(x & [E|Hin] & Nx)].
        + left. apply (good_frame s); auto. now rewrite Hi.
        + inversion E; congruence.
        + right. exists x. split; auto. apply (needs_frame s); auto. now rewrite Hi. }
    destruct (recover_with s c' x') as [s' [|]] eqn:Hrw; simpl in *; [|discriminate].
    apply IH; auto.
Qed.

End HealPin.

Section HealUnpin.
Variable (c : N).

Definition goodu (s : st) : Prop :=
  aget c (pinset s) = None /\
  ((exists o, aget c (table s) = Some o /\ otyp o = OUnpin /\ live (oph o) = true)
   \/ (aget c (table s) = None /\ aget c (ipfs s) = None)).

Definition needsu (s : st) (x : status) : Prop :=
  aget c (pinset s) = None /\ act x = Some OUnpin /\
  match aget c (table s) with Some o => live (oph o) = false | None => True end.

Lemma goodu_frame s s' : opframe s s' c -> pinset s' = pinset s -> aget c (ipfs s') = aget c (ipfs s) -> goodu s -> goodu s'.
Proof.
  intros F Hp Hi [G1 G2]. split; [now rewrite Hp|]. unfold opframe in F. rewrite Hi.
  destruct G2 as [(o & Ho & T & Lv)|[Ho Ih]]; rewrite Ho in F.
  - left. destruct (aget c (table s')) as [o'|]; [|contradiction]. exists o'. pose proof (live_frame _ _ F Lv).
    destruct F as (_ & T' & _). repeat split; congruence.
  - right. destruct (aget c (table s')); [contradiction|]. auto.
Qed.

Lemma needsu_frame s s' x : opframe s s' c -> pinset s' = pinset s -> needsu s x -> needsu s' x.
Proof.
  intros F Hp (A & C & D). unfold needsu. rewrite Hp. repeat split; auto. unfold opframe in F.
  destruct (aget c (table s)) as [o|], (aget c (table s')) as [o'|]; try tauto.
  destruct F as (_ & _ & _ & [P|[P _]]); [now rewrite P|]. rewrite P in D. discriminate.
Qed.

Lemma goodu_complete s c' : Inv s -> goodu s -> goodu (complete s c' false).
Proof.
  intros I G. destruct (complete_effect s c' false I) as (Hp & _ & Fo & Hc).
  destruct (N.eq_dec c c') as [<-|Hne].
  2:{ destruct (Fo c Hne) as [F Hi]. now apply (goodu_frame s). }
  destruct Hc as [[E _]|(cl & o & Hin & Hcc & Ho & Hid & Hph & Hty & Hip & Hres)]; [now rewrite E|].
  destruct G as [G1 G2]. split; [now rewrite Hp|]. right.
  destruct G2 as [(o' & Ho' & T & Lv)|[Ho' _]]; [|congruence].
  rewrite Ho in Ho'. inversion Ho'; subst o'. rewrite T in Hty.
  destruct (ckd cl); simpl in Hty; try discriminate. unfold call_outcome in *. cbn [fst snd] in *.
  split; auto. rewrite Hip. apply aget_adel_same.
Qed.

Lemma goodu_run evs : forall s, Forall ok_complete evs -> Inv s -> goodu s -> goodu (run s evs).
Proof.
  induction evs as [|e r IH]; intros s Hf I G; simpl; auto. inversion Hf as [|? ? [c' ->] Hr]; subst.
  apply IH; auto; [apply step_inv; auto|]. unfold step. simpl.
  pose proof (complete_inv s c' false I) as I1.
  apply (goodu_frame (complete s c' false)); auto using dispatch_frame, dispatch_pinset.
  - now rewrite dispatch_ipfs.
  - now apply goodu_complete.
Qed.

Lemma goodu_quiescent s : Inv s -> goodu s -> quiescent s = true -> aget c (ipfs s) = None.
Proof.
  intros I [_ [(o & Ho & _ & Lv)|[_ H]]] Q; auto.
  rewrite (quiescent_errors s I Q c o Ho) in Lv. discriminate.
Qed.

Lemma recover_list_goodu b l : forall s, Inv s -> LInv b s -> NoDup (map fst l) ->
  (forall c' x, In (c', x) l -> x_ok s c' x) ->
  snd (recover_list s l) = ROk ->
  goodu s \/ (exists x, In (c, x) l /\ needsu s x) ->
  goodu (fst (recover_list s l)).
Proof.
  induction l as [|[c' x'] r IH]; intros s I L Nd X Hr Pre; simpl in *.
  - destruct Pre as [G|(x & [] & _)]; auto.
  - pose proof (recover_with_inv s c' x' I) as I1.
    pose proof (recover_with_linv b s c' x' I L (X c' x' (or_introl eq_refl))) as L1.
    destruct (recover_with_fields s c' x') as (Hi & Hp & Hl).
    inversion Nd as [|? ? Hnotin Nd']; subst.
    assert (X1 : forall c2 x2, In (c2, x2) r -> x_ok (fst (recover_with s c' x')) c2 x2).
    { intros c2 x2 Hin.
      assert (Hne : c2 <> c'). { intros ->. apply Hnotin. apply in_map_iff. exists (c', x2). auto. }
      destruct (X c2 x2 (or_intror Hin)) as [A|A]; [now left|right]. rewrite A. symmetry. apply status_of_frame; auto.
      - apply recover_with_frame; auto. apply L.
      - now rewrite Hi. }
    assert (Pre1 : snd (recover_with s c' x') = ROk ->
                   goodu (fst (recover_with s c' x')) \/ (exists x, In (c, x) r /\ needsu (fst (recover_with s c' x')) x)).
    { intros Hok. destruct (N.eq_dec c c') as [<-|Hne].
      - left. pose proof (X c x' (or_introl eq_refl)) as Xc.
        destruct Pre as [G|(x & [E|Hin] & Nx)].
        + assert (An : act x' = None).
          { destruct Xc as [A|A]; auto. rewrite A. destruct G as [G1 [(o & Ho & T & Lv)|[Ho Ih]]].
            - rewrite (status_of_op _ _ _ Ho). unfold op_status. rewrite T. destruct (oph o); simpl in *; auto; discriminate.
            - unfold status_of. now rewrite Ho, G1. }
          now rewrite (recover_with_noop _ _ _ An).
        + inversion E; subst x'. destruct Nx as (Np & Na & Nt).
          assert (Hen : recover_with s c x = enqueue s (pincid c) OUnpin).
          { unfold recover_with. destruct x; simpl in Na; try discriminate; auto. }
          rewrite Hen in *.
          destruct (enqueue_fields s (pincid c) OUnpin) as (Hi' & Hp' & _).
          destruct (enqueue_result s (pincid c) OUnpin I) as (o & Ho & T & R); [discriminate|]. rewrite Hok in R.
          simpl in Ho. split; [now rewrite Hp'|]. left. exists o. destruct R as [Lv R]. auto.
        + exfalso. apply Hnotin. apply in_map_iff. exists (c, x). auto.
      - assert (F : opframe s (fst (recover_with s c' x')) c) by (apply recover_with_frame; auto; apply L).
        destruct Pre as [G|(x & [E|Hin] & Nx)].
        + left. apply (goodu_frame s); auto. now rewrite Hi.
        + inversion E; congruence.
        + right. exists x. split; auto. apply (needsu_frame s); auto. }
    destruct (recover_with s c' x') as [s' [|]] eqn:Hrw; simpl in *; [|discriminate].
    apply IH; auto.
Qed.

End HealUnpin.

Lemma recover_all_parts s ord s1 r : step s (ERecoverAll ord) = (s1, r) ->
  s1 = dispatch (fst (recover_all s ord)) /\ r = snd (recover_all s ord).
Proof. unfold step. simpl. destruct (recover_all s ord) as [s' r']. intros H. inversion H; auto. Qed.

Lemma recover_heals b s ord s1 evs : Inv s -> LInv b s -> quiescent s = true ->
  step s (ERecoverAll ord) = (s1, ROk) -> Forall ok_complete evs -> quiescent (run s1 evs) = true ->
  forall c,
  (forall p, aget c (pinset s) = Some p -> local_pin p = true ->
     ~ (pdirect p = true /\ aget c (ipfs s) = Some false) -> ipfs_has (run s1 evs) c (pdirect p) = true) /\
  (b = true -> aget c (last s) = Some IUntrack -> aget c (ipfs (run s1 evs)) = None).
Proof.
  intros I L Q Hs Hf Q2 c. apply recover_all_parts in Hs as [-> Hr]. symmetry in Hr.
  pose proof (status_all0_nodup s (inv_nodup _ I) (li_pnodup _ _ L)) as Nd.
  assert (Xall : forall c' x, In (c', x) (order_by ord (status_all s 0)) -> x_ok s c' x).
  { intros c' x Hin. apply order_by_in in Hin; auto. apply entry_xok. apply status_all0_in; auto. apply I. apply L. }
  assert (Hentry : forall x, entry_of s c = Some x -> In (c, x) (order_by ord (status_all s 0))).
  { intros x Hx. apply order_by_in; auto. apply status_all0_in; auto. apply I. apply L. }
  pose proof (recover_list_inv (order_by ord (status_all s 0)) s I) as I1. fold (recover_all s ord) in I1.
  pose proof (li_lab _ _ L c) as Lc. unfold lab, ty in Lc.
  pose proof (quiescent_errors s I Q c) as Qe.
  split.
  - intros p Hp Hloc Hnr. unfold local_pin in Hloc. apply andb_true_iff in Hloc as [Hm Hrm]. apply negb_true_iff in Hm, Hrm.
    apply (good_quiescent c p (aget c (ipfs s))); auto; [now apply run_inv, dispatch_inv|].
    apply good_run; auto; [now apply dispatch_inv|].
    apply (good_frame c p (aget c (ipfs s)) (fst (recover_all s ord))); auto using dispatch_frame, dispatch_pinset; [now rewrite dispatch_ipfs|].
    unfold recover_all in *. apply (recover_list_good c p (aget c (ipfs s)) Hnr b); auto; [now apply order_by_nodup|].
    unfold good, needs, entry_of in *. destruct (aget c (table s)) as [o|] eqn:Ho.
    + right. exists SPinError. split; [|repeat split; auto; now rewrite (Qe o eq_refl)].
      apply Hentry. f_equal. unfold op_status. rewrite (Qe o eq_refl). simpl in Lc.
      destruct (aget c (last s)) as [[p'|]|].
      * destruct Lc as [Lp Lc]. rewrite Hp in Lp. inversion Lp; subst p'. rewrite Hm, Hrm in Lc.
        destruct Lc as [Lc|Lc]; inversion Lc as [T]. now rewrite T.
      * destruct Lc as [Lp _]. congruence.
      * destruct Lc as [Lc|Lc]; inversion Lc as [T]. now rewrite T.
    + destruct (ipfs_has s c (pdirect p)) eqn:Hh; [left; split; auto|].
      right. exists SUnexpectedly. split; [|repeat split; auto].
      apply Hentry. rewrite Hp, Hm, Hrm, Hh. reflexivity.
  - intros Hb Hl. rewrite Hl in Lc. destruct Lc as [Lp Lc].
    apply (goodu_quiescent c); auto; [now apply run_inv, dispatch_inv|].
    apply goodu_run; auto; [now apply dispatch_inv|].
    apply (goodu_frame c (fst (recover_all s ord))); auto using dispatch_frame, dispatch_pinset; [now rewrite dispatch_ipfs|].
    unfold recover_all in *. apply (recover_list_goodu c b); auto; [now apply order_by_nodup|].
    unfold goodu, needsu, entry_of in *. destruct (aget c (table s)) as [o|] eqn:Ho.
    + right. exists SUnpinError. split; [|repeat split; auto; now rewrite (Qe o eq_refl)].
      apply Hentry. f_equal. unfold op_status. rewrite (Qe o eq_refl).
      destruct Lc as [Lc|[Lc _]]; [|discriminate]. simpl in Lc. inversion Lc as [T]. now rewrite T.
    + left. split; auto. right. split; auto. destruct Lc as [Lc|[_ Lc]]; [discriminate|auto].
Qed.

Lemma pin_local p : pmeta p = false -> premote p = false -> local_pin p = true.
Proof. unfold local_pin. now intros -> ->. Qed.

Lemma ipfs_has_eq s c d : ipfs_has s c d = true -> aget c (ipfs s) = Some d.
Proof. unfold ipfs_has. destruct (aget c (ipfs s)) as [d0|]; [|discriminate]. intros H. f_equal. now apply Bool.eqb_prop. Qed.

(* ------------------------------------------------------------------------------------------------------------ *)
(* the statements of Props/C05.v over states reached from a (re)started tracker *)

Lemma reached_inv q n ps i evs : Inv (run (init q n ps i) evs).
Proof. apply run_inv, init_inv. Qed.

Lemma reached_linv_all q n ps i evs : wf_pinset ps -> LInv false (run (init q n ps i) evs).
Proof. intros W. apply run_linv; [apply init_inv|now apply init_linv|discriminate]. Qed.

Lemma reached_linv_tracker q n ps i evs : wf_pinset ps -> Forall tracker_ev evs -> LInv true (run (init q n ps i) evs).
Proof. intros W F. apply run_linv; [apply init_inv|now apply init_linv|auto]. Qed.

Lemma converged_local_l q n ps i evs c p : wf_pinset ps ->
  let s := run (init q n ps i) evs in
  quiescent s = true -> aget c (pinset s) = Some p -> pmeta p = false -> premote p = false ->
  aget c (ipfs s) = Some (pdirect p) \/ is_error (status_of s c) = true.
Proof.
  intros W s Q Hp Hm Hr.
  destruct (proj1 (converged false s (reached_inv q n ps i evs) (reached_linv_all q n ps i evs W) Q c) p Hp (pin_local _ Hm Hr)) as [H|H].
  - left. now apply ipfs_has_eq.
  - now right.
Qed.

Lemma converged_removed_l q n ps i evs c : wf_pinset ps -> Forall tracker_ev evs ->
  let s := run (init q n ps i) evs in
  quiescent s = true ->
  (aget c (last s) = Some IUntrack -> aget c (ipfs s) = None \/ is_error (status_of s c) = true) /\
  (forall p, aget c (last s) = Some (ITrack p) -> pmeta p = false -> premote p = true ->
     aget c (ipfs s) = None \/ exists o, aget c (table s) = Some o /\ otyp o = ORemote /\ oph o = PError).
Proof.
  intros W F s Q.
  pose proof (converged true s (reached_inv q n ps i evs) (reached_linv_tracker q n ps i evs W F) Q c) as (_ & H2 & H3).
  split; [exact (H2 eq_refl)|exact (H3 eq_refl)].
Qed.

Lemma recover_heals_l q n ps i evs ord s1 evs2 c : wf_pinset ps ->
  let s := run (init q n ps i) evs in
  quiescent s = true -> step s (ERecoverAll ord) = (s1, ROk) ->
  Forall ok_complete evs2 -> quiescent (run s1 evs2) = true ->
  (forall p, aget c (pinset s) = Some p -> pmeta p = false -> premote p = false ->
     ~ (pdirect p = true /\ aget c (ipfs s) = Some false) -> aget c (ipfs (run s1 evs2)) = Some (pdirect p)) /\
  (Forall tracker_ev evs -> aget c (last s) = Some IUntrack -> aget c (ipfs (run s1 evs2)) = None).
Proof.
  intros W s Q Hs F2 Q2. split.
  - intros p Hp Hm Hr Hn. apply ipfs_has_eq.
    apply (proj1 (recover_heals false s ord s1 evs2 (reached_inv q n ps i evs) (reached_linv_all q n ps i evs W) Q Hs F2 Q2 c) p Hp (pin_local _ Hm Hr) Hn).
  - intros F. apply (proj2 (recover_heals true s ord s1 evs2 (reached_inv q n ps i evs) (reached_linv_tracker q n ps i evs W F) Q Hs F2 Q2 c) eq_refl).
Qed.

Lemma recover_reissues_l q n ps i evs c x o : wf_pinset ps ->
  let s := run (init q n ps i) evs in
  aget c (table (fst (recover_with s c x))) = Some o -> oid o = next s -> otyp o = OPin ->
  aget c (pinset s) = Some (opin o).
Proof.
  intros W s. apply recover_reissues; [apply reached_inv|]. apply (li_keyed _ _ (reached_linv_all q n ps i evs W)).
Qed.
