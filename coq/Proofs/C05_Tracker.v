(* C05 — lemmas about the tracker model: structural invariant of every reachable state, effect of each primitive,
   convergence at quiescence, queue-full reporting, recover round. *)
From V Require Import Base.Common Base.CommonLemmas Model.C05_Tracker.
Open Scope N_scope.

(* ------------------------------------------------------------------------------------------------------------ *)
(* basics *)

Lemma current_spec t i c : current t i c = true <-> exists o, aget c t = Some o /\ oid o = i.
Proof.
  unfold current. destruct (aget c t) as [o|].
  - rewrite N.eqb_eq. split.
    + intros H. eauto.
    + intros (o' & E & H). inversion E; subst; auto.
  - split; [discriminate|]. intros (o & E & _). discriminate.
Qed.

Definition marked (started : list (N * N)) (c : N) (o : oper) : bool :=
  existsb (fun e => N.eqb (fst e) (oid o) && N.eqb (snd e) c) started.

Lemma marked_in st c o : marked st c o = true <-> In (oid o, c) st.
Proof.
  unfold marked. rewrite existsb_exists. split.
  - intros ([i c'] & Hin & H). simpl in H. apply andb_true_iff in H as [H1 H2].
    apply N.eqb_eq in H1, H2. subst. exact Hin.
  - intros H. exists (oid o, c). split; auto. simpl. now rewrite !N.eqb_refl.
Qed.

Lemma marked_false st c o : marked st c o = false <-> ~ In (oid o, c) st.
Proof. rewrite <- marked_in. destruct (marked st c o); split; congruence. Qed.

Definition mark1 (st : list (N * N)) (c : N) (o : oper) : oper := if marked st c o then set_phase PInProgress o else o.

Lemma aget_mark st t c : aget c (mark_inprogress st t) = option_map (mark1 st c) (aget c t).
Proof.
  induction t as [|[c' o] r IH]; simpl; auto.
  destruct (N.eqb_spec c c') as [->|Hn]; simpl; auto.
Qed.

Lemma akeys_mark st t : akeys (mark_inprogress st t) = akeys t.
Proof. induction t as [|[c' o] r IH]; simpl; auto. unfold akeys in *. simpl. now rewrite IH. Qed.

Lemma mark1_oid st c o : oid (mark1 st c o) = oid o.
Proof. unfold mark1. destruct (marked st c o); reflexivity. Qed.
Lemma mark1_otyp st c o : otyp (mark1 st c o) = otyp o.
Proof. unfold mark1. destruct (marked st c o); reflexivity. Qed.
Lemma mark1_opin st c o : opin (mark1 st c o) = opin o.
Proof. unfold mark1. destruct (marked st c o); reflexivity. Qed.
Lemma mark1_phase st c o : oph (mark1 st c o) = if marked st c o then PInProgress else oph o.
Proof. unfold mark1. destruct (marked st c o); reflexivity. Qed.

Lemma current_mark st t i c : current (mark_inprogress st t) i c = current t i c.
Proof. unfold current. rewrite aget_mark. destruct (aget c t); simpl; auto. now rewrite mark1_oid. Qed.

(* fill *)
Lemma fill_spec t : forall q free st rest, fill t free q = (st, rest) ->
  (forall e, In e st -> In e q /\ current t (fst e) (snd e) = true) /\
  (forall e, In e rest -> In e q) /\
  (forall e, In e q -> current t (fst e) (snd e) = true -> In e st \/ In e rest) /\
  (NoDup q -> NoDup rest /\ forall e, In e st -> ~ In e rest).
Proof.
  induction q as [|[i c] r IH]; intros free st rest H; simpl in H.
  - inversion H; subst. split; [|split; [|split]].
    + intros e [].
    + intros e [].
    + intros e [].
    + intros _. split; [constructor | intros e []].
  - destruct free as [|f].
    + inversion H; subst. split; [|split; [|split]].
      * intros e [].
      * intros e He; exact He.
      * intros e He _. right; exact He.
      * intros Hnd. split; [exact Hnd | intros e []].
    + destruct (current t i c) eqn:Hc.
      * destruct (fill t f r) as [st' rest'] eqn:Hf. inversion H; subst. clear H.
        destruct (IH _ _ _ Hf) as (A & B & C & D). split; [|split; [|split]].
        -- intros e [<-|He]. { split; [now left | exact Hc]. }
           destruct (A e He) as [A1 A2]. split; [now right | exact A2].
        -- intros e He. right. exact (B e He).
        -- intros e [<-|He] Hce. { left; now left. }
           destruct (C e He Hce) as [X|X]; [left; now right | now right].
        -- intros Hnd. inversion Hnd as [|x l Hx Hl]; subst. destruct (D Hl) as [D1 D2]. split; [exact D1|].
           intros e [<-|He] Hin. { apply Hx. exact (B _ Hin). } exact (D2 e He Hin).
      * destruct (IH _ _ _ H) as (A & B & C & D). split; [|split; [|split]].
        -- intros e He. destruct (A e He) as [A1 A2]. split; [now right|exact A2].
        -- intros e He. right. exact (B e He).
        -- intros e [<-|He] Hce. { simpl in Hce. congruence. } exact (C e He Hce).
        -- intros Hnd. inversion Hnd as [|x l Hx Hl]; subst. exact (D Hl).
Qed.

(* ------------------------------------------------------------------------------------------------------------ *)
(* dispatch *)

Definition pcalls (sp : list (N * N)) := map (fun e => mk_call (fst e) (snd e) KPin) sp.
Definition ucalls (su : list (N * N)) := map (fun e => mk_call (fst e) (snd e) KUnpin) su.

Record dispatch_eff (s s' : st) (sp su : list (N * N)) : Prop := {
  de_sp : forall e, In e sp -> In e (pinq s) /\ current (table s) (fst e) (snd e) = true;
  de_su : forall e, In e su -> In e (unpinq s) /\ current (table s) (fst e) (snd e) = true;
  de_pq : forall e, In e (pinq s') -> In e (pinq s);
  de_uq : forall e, In e (unpinq s') -> In e (unpinq s);
  de_pc : forall e, In e (pinq s) -> current (table s) (fst e) (snd e) = true -> In e sp \/ In e (pinq s');
  de_uc : forall e, In e (unpinq s) -> current (table s) (fst e) (snd e) = true -> In e su \/ In e (unpinq s');
  de_pnd : NoDup (pinq s) -> NoDup (pinq s') /\ forall e, In e sp -> ~ In e (pinq s');
  de_und : NoDup (unpinq s) -> NoDup (unpinq s') /\ forall e, In e su -> ~ In e (unpinq s');
  de_table : table s' = mark_inprogress (sp ++ su) (table s);
  de_calls : calls s' = calls s ++ pcalls sp ++ ucalls su;
  de_ipfs : ipfs s' = ipfs s; de_pinset : pinset s' = pinset s; de_last : last s' = last s;
  de_next : next s' = next s; de_qcap : qcap s' = qcap s; de_npin : npin s' = npin s }.

Lemma dispatch_effect s : exists sp su, dispatch_eff s (dispatch s) sp su.
Proof.
  unfold dispatch.
  destruct (fill (table s) (npin s - busy KPin s) (pinq s)) as [sp qp] eqn:Hp.
  destruct (fill (table s) (1 - busy KUnpin s) (unpinq s)) as [su qu] eqn:Hu.
  exists sp, su.
  destruct (fill_spec _ _ _ _ _ Hp) as (A1 & A2 & A3 & A4).
  destruct (fill_spec _ _ _ _ _ Hu) as (B1 & B2 & B3 & B4).
  constructor; simpl; auto.
Qed.

(* ------------------------------------------------------------------------------------------------------------ *)
(* the structural invariant *)

Definition kind_type (k : ckind) : otype := match k with KPin => OPin | KUnpin => OUnpin | KSync => ORemote end.
Definition local_pin (p : tpin) : bool := negb (pmeta p) && negb (premote p).

Definition phase_ok (s : st) (c : N) (o : oper) : Prop :=
  match oph o with
  | PQueued => (otyp o = OPin /\ In (oid o, c) (pinq s)) \/ (otyp o = OUnpin /\ In (oid o, c) (unpinq s))
  | PInProgress => exists cl, In cl (calls s) /\ coid cl = oid o /\ ccid cl = c
  | PDone => False
  | PError => True
  end.

Definition last_ok (s : st) (c : N) : Prop :=
  match aget c (last s) with
  | Some (ITrack p) => aget c (pinset s) = Some p
  | Some IUntrack => aget c (pinset s) = None
  | None => True
  end.

Record Inv (s : st) : Prop := {
  inv_nodup : NoDup (akeys (table s));
  inv_fresh_t : forall c o, aget c (table s) = Some o -> oid o < next s;
  inv_fresh_p : forall i c, In (i, c) (pinq s) -> i < next s;
  inv_fresh_u : forall i c, In (i, c) (unpinq s) -> i < next s;
  inv_pnd : NoDup (pinq s);
  inv_und : NoDup (unpinq s);
  inv_pinq : forall i c, In (i, c) (pinq s) -> current (table s) i c = true ->
             exists o, aget c (table s) = Some o /\ otyp o = OPin /\ oph o = PQueued;
  inv_unpinq : forall i c, In (i, c) (unpinq s) -> current (table s) i c = true ->
             exists o, aget c (table s) = Some o /\ otyp o = OUnpin /\ oph o = PQueued;
  inv_calls : forall cl, In cl (calls s) ->
             exists o, aget (ccid cl) (table s) = Some o /\ oid o = coid cl /\ oph o = PInProgress /\ otyp o = kind_type (ckd cl);
  inv_phase : forall c o, aget c (table s) = Some o -> phase_ok s c o
}.

Lemma current_oid t c o : aget c t = Some o -> current t (oid o) c = true.
Proof. intros H. apply current_spec. eauto. Qed.

Lemma dispatch_inv s : Inv s -> Inv (dispatch s).
Proof.
  intros I. destruct (dispatch_effect s) as (sp & su & E).
  destruct (de_pnd _ _ _ _ E (inv_pnd _ I)) as [Pnd Pdis].
  destruct (de_und _ _ _ _ E (inv_und _ I)) as [Und Udis].
  (* an operation is marked iff its queue entry was started *)
  assert (Hmk : forall c o, aget c (table s) = Some o -> marked (sp ++ su) c o = true ->
                 (In (oid o, c) sp /\ otyp o = OPin /\ oph o = PQueued) \/ (In (oid o, c) su /\ otyp o = OUnpin /\ oph o = PQueued)).
  { intros c o Ho Hm. apply marked_in in Hm. apply in_app_or in Hm as [Hm|Hm].
    - left. destruct (de_sp _ _ _ _ E _ Hm) as [Hq Hc]. destruct (inv_pinq _ I _ _ Hq Hc) as (o' & Ho' & T & P).
      rewrite Ho in Ho'. inversion Ho'; subst. auto.
    - right. destruct (de_su _ _ _ _ E _ Hm) as [Hq Hc]. destruct (inv_unpinq _ I _ _ Hq Hc) as (o' & Ho' & T & P).
      rewrite Ho in Ho'. inversion Ho'; subst. auto. }
  constructor.
  - rewrite (de_table _ _ _ _ E), akeys_mark. apply I.
  - intros c o. rewrite (de_table _ _ _ _ E), aget_mark, (de_next _ _ _ _ E).
    destruct (aget c (table s)) as [o0|] eqn:H0; simpl; [|discriminate]. intros H. inversion H; subst.
    rewrite mark1_oid. eapply inv_fresh_t; eauto.
  - intros i c H. rewrite (de_next _ _ _ _ E). eapply inv_fresh_p; eauto. apply (de_pq _ _ _ _ E). exact H.
  - intros i c H. rewrite (de_next _ _ _ _ E). eapply inv_fresh_u; eauto. apply (de_uq _ _ _ _ E). exact H.
  - exact Pnd.
  - exact Und.
  - intros i c Hin Hc. rewrite (de_table _ _ _ _ E), current_mark in Hc.
    pose proof (de_pq _ _ _ _ E _ Hin) as Hq.
    destruct (inv_pinq _ I _ _ Hq Hc) as (o & Ho & T & P).
    assert (Hi : oid o = i). { apply current_spec in Hc as (o' & Ho' & Hi). rewrite Ho in Ho'. now inversion Ho'; subst. }
    exists (mark1 (sp ++ su) c o). rewrite (de_table _ _ _ _ E), aget_mark, Ho. simpl.
    rewrite mark1_otyp, mark1_phase. repeat split; auto.
    destruct (marked (sp ++ su) c o) eqn:Hm; auto. exfalso.
    destruct (Hmk _ _ Ho Hm) as [(Hs & _)|(_ & T' & _)]; [|congruence].
    rewrite Hi in Hs. exact (Pdis _ Hs Hin).
  - intros i c Hin Hc. rewrite (de_table _ _ _ _ E), current_mark in Hc.
    pose proof (de_uq _ _ _ _ E _ Hin) as Hq.
    destruct (inv_unpinq _ I _ _ Hq Hc) as (o & Ho & T & P).
    assert (Hi : oid o = i). { apply current_spec in Hc as (o' & Ho' & Hi). rewrite Ho in Ho'. now inversion Ho'; subst. }
    exists (mark1 (sp ++ su) c o). rewrite (de_table _ _ _ _ E), aget_mark, Ho. simpl.
    rewrite mark1_otyp, mark1_phase. repeat split; auto.
    destruct (marked (sp ++ su) c o) eqn:Hm; auto. exfalso.
    destruct (Hmk _ _ Ho Hm) as [(_ & T' & _)|(Hs & _)]; [congruence|].
    rewrite Hi in Hs. exact (Udis _ Hs Hin).
  - intros cl Hin. rewrite (de_calls _ _ _ _ E) in Hin. rewrite (de_table _ _ _ _ E), aget_mark.
    apply in_app_or in Hin as [Hin|Hin].
    + destruct (inv_calls _ I _ Hin) as (o & Ho & Hi & P & T). exists (mark1 (sp ++ su) (ccid cl) o).
      rewrite Ho. simpl. rewrite mark1_oid, mark1_otyp, mark1_phase, P. repeat split; auto.
      destruct (marked _ _ _); auto.
    + apply in_app_or in Hin as [Hin|Hin]; apply in_map_iff in Hin as ([i c] & <- & He); simpl.
      * destruct (de_sp _ _ _ _ E _ He) as [Hq Hc]. destruct (inv_pinq _ I _ _ Hq Hc) as (o & Ho & T & P).
        assert (Hi : oid o = i). { apply current_spec in Hc as (o' & Ho' & Hi). simpl in Ho'. rewrite Ho in Ho'. now inversion Ho'; subst. }
        exists (mark1 (sp ++ su) c o). rewrite Ho. simpl. rewrite mark1_oid, mark1_otyp, mark1_phase.
        replace (marked (sp ++ su) c o) with true; [auto|]. symmetry. apply marked_in. rewrite Hi. apply in_or_app. now left.
      * destruct (de_su _ _ _ _ E _ He) as [Hq Hc]. destruct (inv_unpinq _ I _ _ Hq Hc) as (o & Ho & T & P).
        assert (Hi : oid o = i). { apply current_spec in Hc as (o' & Ho' & Hi). simpl in Ho'. rewrite Ho in Ho'. now inversion Ho'; subst. }
        exists (mark1 (sp ++ su) c o). rewrite Ho. simpl. rewrite mark1_oid, mark1_otyp, mark1_phase.
        replace (marked (sp ++ su) c o) with true; [auto|]. symmetry. apply marked_in. rewrite Hi. apply in_or_app. now right.
  - intros c o'. rewrite (de_table _ _ _ _ E), aget_mark.
    destruct (aget c (table s)) as [o|] eqn:Ho; simpl; [|discriminate]. intros H. inversion H; subst. clear H.
    unfold phase_ok. rewrite mark1_phase, mark1_oid, mark1_otyp, (de_calls _ _ _ _ E).
    destruct (marked (sp ++ su) c o) eqn:Hm.
    + destruct (Hmk _ _ Ho Hm) as [(Hs & _)|(Hs & _)].
      * exists (mk_call (oid o) c KPin). split; auto. apply in_or_app. right. apply in_or_app. left.
        apply in_map_iff. exists (oid o, c). auto.
      * exists (mk_call (oid o) c KUnpin). split; auto. apply in_or_app. right. apply in_or_app. right.
        apply in_map_iff. exists (oid o, c). auto.
    + pose proof (inv_phase _ I _ _ Ho) as P. unfold phase_ok in P. apply marked_false in Hm.
      destruct (oph o); auto.
      * destruct P as [[T Hq]|[T Hq]].
        -- left. split; auto. destruct (de_pc _ _ _ _ E _ Hq (current_oid _ _ _ Ho)) as [X|X]; auto.
           exfalso. apply Hm. apply in_or_app. now left.
        -- right. split; auto. destruct (de_uc _ _ _ _ E _ Hq (current_oid _ _ _ Ho)) as [X|X]; auto.
           exfalso. apply Hm. apply in_or_app. now right.
      * destruct P as (cl & Hcl & A & B). exists cl. split; auto. apply in_or_app. now left.
Qed.

(* ------------------------------------------------------------------------------------------------------------ *)
(* TrackNewOperation and the installation of a new operation *)

Lemma track_new_some s p typ ph s1 i : track_new s p typ ph = Some (s1, i) ->
  i = next s /\ next s1 = next s + 1 /\
  table s1 = aput (pcid p) (mk_op (next s) typ ph p) (table s) /\
  calls s1 = match aget (pcid p) (table s) with
             | Some o0 => filter (fun cl => negb (N.eqb (coid cl) (oid o0) && N.eqb (ccid cl) (pcid p))) (calls s)
             | None => calls s end /\
  (forall o0, aget (pcid p) (table s) = Some o0 -> otype_eqb (otyp o0) typ && live (oph o0) = false) /\
  pinq s1 = pinq s /\ unpinq s1 = unpinq s /\ ipfs s1 = ipfs s /\ pinset s1 = pinset s /\ last s1 = last s /\
  qcap s1 = qcap s /\ npin s1 = npin s.
Proof.
  unfold track_new. destruct (aget (pcid p) (table s)) as [o0|] eqn:H0.
  - destruct (otype_eqb (otyp o0) typ && live (oph o0)) eqn:Hd; [discriminate|].
    intros H. inversion H; subst. simpl. repeat split; auto. intros o1 H1. inversion H1; subst. exact Hd.
  - intros H. inversion H; subst. simpl. repeat split; auto. intros o1 H1. discriminate.
Qed.

Lemma otype_eqb_eq a b : otype_eqb a b = true <-> a = b.
Proof. destruct a, b; simpl; split; congruence. Qed.

Lemma track_new_none s p typ ph : track_new s p typ ph = None ->
  exists o0, aget (pcid p) (table s) = Some o0 /\ otyp o0 = typ /\ live (oph o0) = true.
Proof.
  unfold track_new. destruct (aget (pcid p) (table s)) as [o0|] eqn:H0; [|discriminate].
  destruct (otype_eqb (otyp o0) typ && live (oph o0)) eqn:Hd; [|discriminate].
  intros _. apply andb_true_iff in Hd as [A B]. apply otype_eqb_eq in A. eauto.
Qed.

(* with the invariant, cancelling the tracked operation of c removes exactly the calls on c *)
Lemma track_new_calls s p typ ph s1 i : Inv s -> track_new s p typ ph = Some (s1, i) ->
  forall cl, In cl (calls s1) <-> In cl (calls s) /\ ccid cl <> pcid p.
Proof.
  intros I H cl. destruct (track_new_some _ _ _ _ _ _ H) as (_ & _ & _ & Hc & _). rewrite Hc.
  destruct (aget (pcid p) (table s)) as [o0|] eqn:H0.
  - rewrite filter_In, negb_true_iff, andb_false_iff, !N.eqb_neq. split.
    + intros [Hin [Hn|Hn]]; split; auto. intros Heq.
      destruct (inv_calls _ I _ Hin) as (o & Ho & Hi & _). rewrite Heq, H0 in Ho. inversion Ho; subst. congruence.
    + intros [Hin Hn]. split; auto.
  - split; [|tauto]. intros Hin. split; auto. intros Heq.
    destruct (inv_calls _ I _ Hin) as (o & Ho & _). rewrite Heq, H0 in Ho. discriminate.
Qed.

Lemma NoDup_snoc {A} (l : list A) x : NoDup l -> ~ In x l -> NoDup (l ++ [x]).
Proof.
  induction l as [|y ys IH]; simpl; intros H Hn.
  - constructor; [intros []|constructor].
  - inversion H; subst. constructor.
    + intros Hin. apply in_app_or in Hin as [Hin|[->|[]]]; [auto|]. apply Hn. now left.
    + apply IH; auto.
Qed.

Lemma install_inv s s2 c o2 :
  Inv s ->
  oid o2 = next s ->
  table s2 = aput c o2 (table s) ->
  next s2 = next s + 1 ->
  (forall cl, In cl (calls s2) <-> (In cl (calls s) /\ ccid cl <> c) \/
                                   (oph o2 = PInProgress /\ otyp o2 = ORemote /\ cl = mk_call (next s) c KSync)) ->
  (pinq s2 = pinq s \/ (pinq s2 = pinq s ++ [(next s, c)] /\ otyp o2 = OPin /\ oph o2 = PQueued)) ->
  (unpinq s2 = unpinq s \/ (unpinq s2 = unpinq s ++ [(next s, c)] /\ otyp o2 = OUnpin /\ oph o2 = PQueued)) ->
  phase_ok s2 c o2 ->
  Inv s2.
Proof.
  intros I Hoid Ht Hn Hc Hp Hu Hph.
  assert (Pin : forall e, In e (pinq s) -> In e (pinq s2)).
  { intros e He. destruct Hp as [->|[-> _]]; auto. apply in_or_app. now left. }
  assert (Uin : forall e, In e (unpinq s) -> In e (unpinq s2)).
  { intros e He. destruct Hu as [->|[-> _]]; auto. apply in_or_app. now left. }
  assert (Pold : forall j c', In (j, c') (pinq s2) -> In (j, c') (pinq s) \/ (j = next s /\ c' = c /\ otyp o2 = OPin /\ oph o2 = PQueued)).
  { intros j c' He. destruct Hp as [E|[E [T P]]]; rewrite E in He; auto.
    apply in_app_or in He as [He|[He|[]]]; auto. inversion He; subst. right. auto. }
  assert (Uold : forall j c', In (j, c') (unpinq s2) -> In (j, c') (unpinq s) \/ (j = next s /\ c' = c /\ otyp o2 = OUnpin /\ oph o2 = PQueued)).
  { intros j c' He. destruct Hu as [E|[E [T P]]]; rewrite E in He; auto.
    apply in_app_or in He as [He|[He|[]]]; auto. inversion He; subst. right. auto. }
  constructor.
  - rewrite Ht. apply NoDup_akeys_aput, I.
  - intros c' o. rewrite Ht, Hn. destruct (N.eq_dec c' c) as [->|Hne].
    + rewrite aget_aput_same. intros H. inversion H; subst. lia.
    + rewrite aget_aput_other by auto. intros H. pose proof (inv_fresh_t _ I _ _ H). lia.
  - intros j c' He. rewrite Hn. destruct (Pold _ _ He) as [H|(-> & _)]; [|lia]. pose proof (inv_fresh_p _ I _ _ H). lia.
  - intros j c' He. rewrite Hn. destruct (Uold _ _ He) as [H|(-> & _)]; [|lia]. pose proof (inv_fresh_u _ I _ _ H). lia.
  - destruct Hp as [->|[-> _]]; [apply I|]. apply NoDup_snoc; [apply I|].
    intros He. pose proof (inv_fresh_p _ I _ _ He). lia.
  - destruct Hu as [->|[-> _]]; [apply I|]. apply NoDup_snoc; [apply I|].
    intros He. pose proof (inv_fresh_u _ I _ _ He). lia.
  - intros j c' He Hcur. rewrite Ht in Hcur. rewrite Ht. destruct (N.eq_dec c' c) as [->|Hne].
    + unfold current in Hcur. rewrite aget_aput_same in Hcur. apply N.eqb_eq in Hcur. rewrite aget_aput_same.
      destruct (Pold _ _ He) as [H|(_ & _ & T & P)].
      * pose proof (inv_fresh_p _ I _ _ H). lia.
      * eauto.
    + unfold current in Hcur. rewrite aget_aput_other in Hcur by auto. rewrite aget_aput_other by auto.
      destruct (Pold _ _ He) as [H|(_ & E & _)]; [|congruence]. exact (inv_pinq _ I _ _ H Hcur).
  - intros j c' He Hcur. rewrite Ht in Hcur. rewrite Ht. destruct (N.eq_dec c' c) as [->|Hne].
    + unfold current in Hcur. rewrite aget_aput_same in Hcur. apply N.eqb_eq in Hcur. rewrite aget_aput_same.
      destruct (Uold _ _ He) as [H|(_ & _ & T & P)].
      * pose proof (inv_fresh_u _ I _ _ H). lia.
      * eauto.
    + unfold current in Hcur. rewrite aget_aput_other in Hcur by auto. rewrite aget_aput_other by auto.
      destruct (Uold _ _ He) as [H|(_ & E & _)]; [|congruence]. exact (inv_unpinq _ I _ _ H Hcur).
  - intros cl Hin. apply Hc in Hin as [[Hin Hne]|(P & T & ->)].
    + rewrite Ht, aget_aput_other by auto. exact (inv_calls _ I _ Hin).
    + simpl. rewrite Ht, aget_aput_same. exists o2. repeat split; auto.
  - intros c' o. rewrite Ht. destruct (N.eq_dec c' c) as [->|Hne].
    + rewrite aget_aput_same. intros H. inversion H; subst. exact Hph.
    + rewrite aget_aput_other by auto. intros H. pose proof (inv_phase _ I _ _ H) as P. unfold phase_ok in *.
      destruct (oph o); auto.
      * destruct P as [[T Q]|[T Q]]; [left|right]; auto.
      * destruct P as (cl & Hcl & A & B). exists cl. repeat split; auto. apply Hc. left. split; auto. congruence.
Qed.

Lemma adel_adel {V} k (m : list (N * V)) : adel k (adel k m) = adel k m.
Proof. induction m as [|[k' v] r IH]; simpl; auto. destruct (N.eqb_spec k k'); simpl; auto.
  destruct (N.eqb_spec k k'); [congruence|]. now rewrite IH. Qed.

Lemma aput_aput {V} k (v w : V) m : aput k v (aput k w m) = aput k v m.
Proof. unfold aput. simpl. rewrite N.eqb_refl. now rewrite adel_adel. Qed.

Definition unpin_last_ok (s : st) (c : N) : Prop :=
  aget c (last s) = Some IUntrack \/ exists p, aget c (last s) = Some (ITrack p) /\ pmeta p = true.

Lemma enqueue_inv s p typ : Inv s -> typ <> ORemote -> Inv (fst (enqueue s p typ)).
Proof.
  intros I Hty. unfold enqueue. destruct (track_new s p typ PQueued) as [[s1 i]|] eqn:Htn; [|exact I].
  destruct (track_new_some _ _ _ _ _ _ Htn) as (-> & Hn & Ht & _ & _ & Hpq & Huq & Hip & Hps & Hla & Hqc & Hnp).
  pose proof (track_new_calls _ _ _ _ _ _ I Htn) as Hcalls.
  assert (Hcs : forall ph, ph <> PInProgress -> forall (ty : otype) s2, calls s2 = calls s1 ->
           forall cl, In cl (calls s2) <-> (In cl (calls s) /\ ccid cl <> pcid p) \/
                                           (ph = PInProgress /\ ty = ORemote /\ cl = mk_call (next s) (pcid p) KSync)).
  { intros ph Hph ty s2 E cl. rewrite E, Hcalls. split; [auto|]. intros [H|(H & _)]; [auto|contradiction]. }
  assert (Herr : Inv (set_err_phase s1 (pcid p))).
  { unfold set_err_phase. rewrite Ht, aget_aput_same.
    apply (install_inv s _ (pcid p) (set_phase PError (mk_op (next s) typ PQueued p)) I); simpl.
    - reflexivity.
    - apply aput_aput.
    - exact Hn.
    - apply Hcs; [discriminate|reflexivity].
    - left. exact Hpq.
    - left. exact Huq.
    - exact Logic.I. }
  destruct typ; [| |congruence].
  - destruct ((busy KPin s1 <? npin s1)%nat || (length (pinq s1) <? qcap s1)%nat); [|exact Herr].
    simpl. apply dispatch_inv.
    apply (install_inv s _ (pcid p) (mk_op (next s) OPin PQueued p) I); simpl.
    + reflexivity.
    + exact Ht.
    + exact Hn.
    + apply Hcs; [discriminate|reflexivity].
    + right. rewrite Hpq. auto.
    + left. exact Huq.
    + left. split; auto. rewrite Hpq. apply in_or_app. right. now left.
  - destruct ((busy KUnpin s1 <? 1)%nat || (length (unpinq s1) <? qcap s1)%nat); [|exact Herr].
    simpl. apply dispatch_inv.
    apply (install_inv s _ (pcid p) (mk_op (next s) OUnpin PQueued p) I); simpl.
    + reflexivity.
    + exact Ht.
    + exact Hn.
    + apply Hcs; [discriminate|reflexivity].
    + left. exact Hpq.
    + right. rewrite Huq. auto.
    + right. split; auto. rewrite Huq. apply in_or_app. right. now left.
Qed.

Lemma inv_ext s s' : table s' = table s -> pinq s' = pinq s -> unpinq s' = unpinq s -> calls s' = calls s ->
  next s' = next s -> Inv s -> Inv s'.
Proof.
  intros Ht Hp Hu Hc Hn I. destruct I as [A B C D E F G H J K].
  constructor; unfold phase_ok in *; rewrite ?Ht, ?Hp, ?Hu, ?Hc, ?Hn; auto.
Qed.

Lemma track_inv s p : Inv s -> Inv (fst (track s p)).
Proof.
  intros I. unfold track.
  set (s0 := set_last (set_pinset s (aput (pcid p) p (pinset s))) (aput (pcid p) (ITrack p) (last s))).
  assert (I0 : Inv s0) by (apply (inv_ext s); auto).
  destruct (pmeta p); [exact I0|]. destruct (premote p); [|apply enqueue_inv; [exact I0|discriminate]].
  destruct (track_new s0 p ORemote PInProgress) as [[s1 i]|] eqn:Htn; [|exact I0].
  destruct (track_new_some _ _ _ _ _ _ Htn) as (-> & Hn & Ht & _ & _ & Hpq & Huq & _).
  pose proof (track_new_calls _ _ _ _ _ _ I0 Htn) as Hcalls.
  simpl. apply dispatch_inv.
  apply (install_inv s0 _ (pcid p) (mk_op (next s0) ORemote PInProgress p) I0); simpl.
  - reflexivity.
  - exact Ht.
  - exact Hn.
  - intros cl. rewrite in_app_iff, Hcalls. simpl. split.
    + intros [H|[<-|[]]]; auto.
    + intros [H|(_ & _ & ->)]; auto.
  - left. exact Hpq.
  - left. exact Huq.
  - exists (mk_call (next s0) (pcid p) KSync). split; auto. apply in_or_app. right. now left.
Qed.

Lemma untrack_inv s c : Inv s -> Inv (fst (untrack s c)).
Proof.
  intros I. unfold untrack. apply enqueue_inv; [|discriminate]. apply (inv_ext s); auto.
Qed.

Lemma finish_inv s s2 c o : Inv s -> aget c (table s) = Some o -> oph o = PInProgress ->
  (table s2 = adel c (table s) \/ table s2 = aput c (set_phase PError o) (table s)) ->
  calls s2 = filter (fun x => negb (N.eqb (coid x) (oid o) && N.eqb (ccid x) c)) (calls s) ->
  pinq s2 = pinq s -> unpinq s2 = unpinq s -> next s2 = next s -> Inv s2.
Proof.
  intros I Ho Hph Ht Hc Hp Hu Hn.
  assert (Hother : forall c', c' <> c -> aget c' (table s2) = aget c' (table s)).
  { intros c' Hne. destruct Ht as [->| ->]; [apply aget_adel_other|apply aget_aput_other]; auto. }
  assert (Hsame : aget c (table s2) = None \/ aget c (table s2) = Some (set_phase PError o)).
  { destruct Ht as [->| ->]; [left; apply aget_adel_same|right; apply aget_aput_same]. }
  assert (Hcall : forall cl, In cl (calls s2) <-> In cl (calls s) /\ ccid cl <> c).
  { intros cl. rewrite Hc, filter_In, negb_true_iff, andb_false_iff, !N.eqb_neq. split.
    - intros [Hin [Hx|Hx]]; split; auto. intros E. destruct (inv_calls _ I _ Hin) as (o' & Ho' & Hi & _).
      rewrite E, Ho in Ho'. inversion Ho'; subst. congruence.
    - intros [Hin Hx]. auto. }
  constructor.
  - destruct Ht as [->| ->]; [apply NoDup_akeys_adel|apply NoDup_akeys_aput]; apply I.
  - intros c' o'. rewrite Hn. destruct (N.eq_dec c' c) as [->|Hne].
    + destruct Hsame as [->| ->]; [discriminate|]. intros H. inversion H; subst. simpl. eapply inv_fresh_t; eauto.
    + rewrite Hother by auto. apply I.
  - intros i c'. rewrite Hp, Hn. apply I.
  - intros i c'. rewrite Hu, Hn. apply I.
  - rewrite Hp. apply I.
  - rewrite Hu. apply I.
  - intros i c' Hin Hcur. rewrite Hp in Hin. destruct (N.eq_dec c' c) as [->|Hne].
    + exfalso. unfold current in Hcur. destruct Hsame as [E|E]; rewrite E in Hcur; [discriminate|].
      simpl in Hcur. assert (Hcur' : current (table s) i c = true) by (unfold current; now rewrite Ho).
      destruct (inv_pinq _ I _ _ Hin Hcur') as (o' & Ho' & _ & P). rewrite Ho in Ho'. inversion Ho'; subst. congruence.
    + unfold current in Hcur. rewrite Hother in Hcur by auto. rewrite Hother by auto. exact (inv_pinq _ I _ _ Hin Hcur).
  - intros i c' Hin Hcur. rewrite Hu in Hin. destruct (N.eq_dec c' c) as [->|Hne].
    + exfalso. unfold current in Hcur. destruct Hsame as [E|E]; rewrite E in Hcur; [discriminate|].
      simpl in Hcur. assert (Hcur' : current (table s) i c = true) by (unfold current; now rewrite Ho).
      destruct (inv_unpinq _ I _ _ Hin Hcur') as (o' & Ho' & _ & P). rewrite Ho in Ho'. inversion Ho'; subst. congruence.
    + unfold current in Hcur. rewrite Hother in Hcur by auto. rewrite Hother by auto. exact (inv_unpinq _ I _ _ Hin Hcur).
  - intros cl Hin. apply Hcall in Hin as [Hin Hne]. rewrite Hother by auto. exact (inv_calls _ I _ Hin).
  - intros c' o'. destruct (N.eq_dec c' c) as [->|Hne].
    + destruct Hsame as [->| ->]; [discriminate|]. intros H. inversion H; subst. exact Logic.I.
    + rewrite Hother by auto. intros H. pose proof (inv_phase _ I _ _ H) as P. unfold phase_ok in *.
      rewrite Hp, Hu. destruct (oph o'); auto.
      destruct P as (cl & Hcl & A & B). exists cl. repeat split; auto. apply Hcall. split; auto. congruence.
Qed.

Lemma complete_inv s c fault : Inv s -> Inv (complete s c fault).
Proof.
  intros I. unfold complete.
  destruct (find (fun cl => N.eqb (ccid cl) c) (calls s)) as [cl|] eqn:Hf; [|exact I].
  destruct (aget c (table s)) as [o|] eqn:Ho; [|exact I].
  destruct (N.eqb_spec (oid o) (coid cl)) as [Hi|Hi]; simpl; [|exact I].
  apply find_some in Hf as [Hin Hc]. apply N.eqb_eq in Hc.
  destruct (inv_calls _ I _ Hin) as (o' & Ho' & _ & Hph & _). rewrite Hc, Ho in Ho'. inversion Ho'; subst o'.
  destruct (if fault then (ipfs s, false) else match ckd cl with KPin => conn_pin (ipfs s) c (pdirect (opin o)) | _ => (adel c (ipfs s), true) end) as [i' ok].
  apply dispatch_inv. destruct ok.
  - unfold clean. simpl. unfold current. rewrite Ho, Hi, N.eqb_refl.
    apply (finish_inv s _ c o I Ho Hph); simpl; auto. now rewrite Hi.
  - unfold set_err_phase. simpl. rewrite Ho.
    apply (finish_inv s _ c o I Ho Hph); simpl; auto. now rewrite Hi.
Qed.

Lemma recover_with_inv s c x : Inv s -> Inv (fst (recover_with s c x)).
Proof.
  intros I. unfold recover_with. destruct x; try exact I.
  - destruct (aget c (pinset s)); [apply enqueue_inv; auto; discriminate|exact I].
  - apply enqueue_inv; auto; discriminate.
  - destruct (aget c (pinset s)); [apply enqueue_inv; auto; discriminate|exact I].
Qed.

Lemma recover_list_inv l : forall s, Inv s -> Inv (fst (recover_list s l)).
Proof.
  induction l as [|[c x] r IH]; intros s I; simpl; auto.
  pose proof (recover_with_inv s c x I) as I1. destruct (recover_with s c x) as [s' [|]]; simpl in *; auto.
Qed.

Lemma step_raw_inv s e : Inv s -> Inv (fst (step_raw s e)).
Proof.
  intros I. destruct e; simpl.
  - now apply track_inv.
  - now apply untrack_inv.
  - unfold recover. now apply recover_with_inv.
  - unfold recover_all. now apply recover_list_inv.
  - now apply complete_inv.
  - apply (inv_ext s); auto.
Qed.

Lemma step_inv s e : Inv s -> Inv (fst (step s e)).
Proof.
  intros I. unfold step. pose proof (step_raw_inv s e I) as I1. destruct (step_raw s e) as [s' r]. simpl in *.
  now apply dispatch_inv.
Qed.

Lemma run_inv evs : forall s, Inv s -> Inv (run s evs).
Proof. induction evs as [|e r IH]; intros s I; simpl; auto. apply IH. now apply step_inv. Qed.

Lemma init_inv q n ps i : Inv (init q n ps i).
Proof.
  constructor; simpl; try (intros; contradiction); try discriminate; try constructor.
Qed.

(* ------------------------------------------------------------------------------------------------------------ *)
(* frames: what a primitive does to the operation of a cid it does not address *)

Definition op_frame (o o' : oper) : Prop :=
  oid o' = oid o /\ otyp o' = otyp o /\ opin o' = opin o /\ (oph o' = oph o \/ (oph o = PQueued /\ oph o' = PInProgress)).

Definition opframe (s s' : st) (c : N) : Prop :=
  match aget c (table s), aget c (table s') with
  | Some o, Some o' => op_frame o o'
  | None, None => True
  | _, _ => False
  end.

Lemma op_frame_refl o : op_frame o o.
Proof. unfold op_frame. auto. Qed.

Lemma opframe_refl s c : opframe s s c.
Proof. unfold opframe. destruct (aget c (table s)); auto using op_frame_refl. Qed.

Lemma opframe_eq s s' c : aget c (table s') = aget c (table s) -> opframe s s' c.
Proof. unfold opframe. intros ->. destruct (aget c (table s)); auto using op_frame_refl. Qed.

Lemma opframe_trans s1 s2 s3 c : opframe s1 s2 c -> opframe s2 s3 c -> opframe s1 s3 c.
Proof.
  unfold opframe. destruct (aget c (table s1)) as [o1|], (aget c (table s2)) as [o2|], (aget c (table s3)) as [o3|];
    try tauto.
  unfold op_frame. intros (A1 & A2 & A3 & A4) (B1 & B2 & B3 & B4). repeat split; try congruence.
  destruct A4 as [A4|[A4 A5]], B4 as [B4|[B4 B5]]; try (left; congruence); right; split; congruence.
Qed.

Lemma dispatch_frame s c : Inv s -> opframe s (dispatch s) c.
Proof.
  intros I. destruct (dispatch_effect s) as (sp & su & E). unfold opframe.
  rewrite (de_table _ _ _ _ E), aget_mark. destruct (aget c (table s)) as [o|] eqn:Ho; simpl; auto.
  unfold op_frame. rewrite mark1_oid, mark1_otyp, mark1_opin, mark1_phase. repeat split; auto.
  destruct (marked (sp ++ su) c o) eqn:Hm; auto. right. split; auto.
  apply marked_in in Hm. apply in_app_or in Hm as [Hm|Hm].
  - destruct (de_sp _ _ _ _ E _ Hm) as [Hq Hc]. destruct (inv_pinq _ I _ _ Hq Hc) as (o' & Ho' & _ & P).
    rewrite Ho in Ho'. now inversion Ho'; subst.
  - destruct (de_su _ _ _ _ E _ Hm) as [Hq Hc]. destruct (inv_unpinq _ I _ _ Hq Hc) as (o' & Ho' & _ & P).
    rewrite Ho in Ho'. now inversion Ho'; subst.
Qed.

Lemma dispatch_ipfs s : ipfs (dispatch s) = ipfs s.
Proof. destruct (dispatch_effect s) as (sp & su & E). apply E. Qed.
Lemma dispatch_pinset s : pinset (dispatch s) = pinset s.
Proof. destruct (dispatch_effect s) as (sp & su & E). apply E. Qed.
Lemma dispatch_last s : last (dispatch s) = last s.
Proof. destruct (dispatch_effect s) as (sp & su & E). apply E. Qed.

(* enqueue: other cids are framed; the addressed cid ends with an operation of the requested type *)
Lemma enqueue_frame s p typ c : Inv s -> typ <> ORemote -> c <> pcid p -> opframe s (fst (enqueue s p typ)) c.
Proof.
  intros I Hty Hne. unfold enqueue. destruct (track_new s p typ PQueued) as [[s1 i]|] eqn:Htn; [|apply opframe_refl].
  destruct (track_new_some _ _ _ _ _ _ Htn) as (-> & Hn & Ht & _).
  assert (F1 : opframe s s1 c) by (apply opframe_eq; rewrite Ht; now apply aget_aput_other).
  assert (Ferr : opframe s (set_err_phase s1 (pcid p)) c).
  { eapply opframe_trans; [exact F1|]. apply opframe_eq. unfold set_err_phase.
    destruct (aget (pcid p) (table s1)); simpl; auto. now apply aget_aput_other. }
  pose proof (enqueue_inv s p typ I Hty) as I2. unfold enqueue in I2. rewrite Htn in I2.
  destruct typ; [| |congruence].
  - destruct ((busy KPin s1 <? npin s1)%nat || (length (pinq s1) <? qcap s1)%nat) eqn:Hb; simpl; [|exact Ferr].
    eapply opframe_trans; [exact F1|]. eapply opframe_trans; [|apply dispatch_frame].
    + apply opframe_eq. reflexivity.
    + (* the state before dispatch satisfies the invariant: obtained as in enqueue_inv *)
      pose proof (track_new_calls _ _ _ _ _ _ I Htn) as Hcalls.
      destruct (track_new_some _ _ _ _ _ _ Htn) as (_ & _ & _ & _ & _ & Hpq & Huq & _).
      apply (install_inv s _ (pcid p) (mk_op (next s) OPin PQueued p) I); simpl; auto.
      * intros cl. rewrite Hcalls. split; [auto|]. intros [H|(H & _)]; [auto|discriminate].
      * right. rewrite Hpq. auto.
      * left. split; auto. rewrite Hpq. apply in_or_app. right. now left.
  - destruct ((busy KUnpin s1 <? 1)%nat || (length (unpinq s1) <? qcap s1)%nat) eqn:Hb; simpl; [|exact Ferr].
    eapply opframe_trans; [exact F1|]. eapply opframe_trans; [|apply dispatch_frame].
    + apply opframe_eq. reflexivity.
    + pose proof (track_new_calls _ _ _ _ _ _ I Htn) as Hcalls.
      destruct (track_new_some _ _ _ _ _ _ Htn) as (_ & _ & _ & _ & _ & Hpq & Huq & _).
      apply (install_inv s _ (pcid p) (mk_op (next s) OUnpin PQueued p) I); simpl; auto.
      * intros cl. rewrite Hcalls. split; [auto|]. intros [H|(H & _)]; [auto|discriminate].
      * right. rewrite Huq. auto.
      * right. split; auto. rewrite Huq. apply in_or_app. right. now left.
Qed.

Lemma enqueue_fields s p typ : ipfs (fst (enqueue s p typ)) = ipfs s /\ pinset (fst (enqueue s p typ)) = pinset s /\
  last (fst (enqueue s p typ)) = last s.
Proof.
  unfold enqueue. destruct (track_new s p typ PQueued) as [[s1 i]|] eqn:Htn; [|auto].
  destruct (track_new_some _ _ _ _ _ _ Htn) as (_ & _ & _ & _ & _ & _ & _ & Hi & Hp & Hl & _).
  assert (E : forall c, ipfs (set_err_phase s1 c) = ipfs s /\ pinset (set_err_phase s1 c) = pinset s /\ last (set_err_phase s1 c) = last s).
  { intros c. unfold set_err_phase. destruct (aget c (table s1)); simpl; auto. }
  destruct typ.
  - destruct (_ || _); simpl; [|apply E]. rewrite dispatch_ipfs, dispatch_pinset, dispatch_last. simpl. auto.
  - destruct (_ || _); simpl; [|apply E]. rewrite dispatch_ipfs, dispatch_pinset, dispatch_last. simpl. auto.
  - destruct (_ || _); simpl; [|apply E]. rewrite dispatch_ipfs, dispatch_pinset, dispatch_last. simpl. auto.
Qed.

Lemma live_frame o o' : op_frame o o' -> live (oph o) = true -> live (oph o') = true.
Proof. intros (_ & _ & _ & [E|[E1 E2]]) H; [now rewrite E|now rewrite E2]. Qed.

(* the addressed cid after enqueue *)
Lemma enqueue_result s p typ : Inv s -> typ <> ORemote ->
  exists o, aget (pcid p) (table (fst (enqueue s p typ))) = Some o /\ otyp o = typ /\
    match snd (enqueue s p typ) with
    | RFull => oph o = PError /\ opin o = p
    | ROk => live (oph o) = true /\ (track_new s p typ PQueued <> None -> opin o = p /\ oid o = next s)
    end.
Proof.
  intros I Hty. unfold enqueue. destruct (track_new s p typ PQueued) as [[s1 i]|] eqn:Htn.
  - destruct (track_new_some _ _ _ _ _ _ Htn) as (-> & Hn & Ht & _).
    assert (Herr : exists o, aget (pcid p) (table (set_err_phase s1 (pcid p))) = Some o /\ otyp o = typ /\ oph o = PError /\ opin o = p).
    { unfold set_err_phase. rewrite Ht, aget_aput_same. unfold set_table. cbn [table]. rewrite aget_aput_same.
      eexists. repeat split. }
    assert (Hok : forall s2, table s2 = table s1 -> exists o, aget (pcid p) (table (dispatch s2)) = Some o /\ otyp o = typ /\
              live (oph o) = true /\ (Some (s1, next s) <> None -> opin o = p /\ oid o = next s)).
    { intros s2 E. destruct (dispatch_effect s2) as (sp & su & D). rewrite (de_table _ _ _ _ D), aget_mark, E, Ht, aget_aput_same.
      simpl. eexists. split; [reflexivity|]. rewrite mark1_otyp, mark1_phase, mark1_opin, mark1_oid. simpl.
      repeat split. destruct (marked _ _ _); reflexivity. }
    destruct typ; [| |congruence].
    + destruct (_ || _); simpl; [apply Hok; reflexivity|]. destruct Herr as (o & A & B & C & D). eauto.
    + destruct (_ || _); simpl; [apply Hok; reflexivity|]. destruct Herr as (o & A & B & C & D). eauto.
  - simpl. destruct (track_new_none _ _ _ _ Htn) as (o0 & A & B & C). exists o0. repeat split; auto; congruence.
Qed.

Lemma conn_pin_other i c d c' : c' <> c -> aget c' (fst (conn_pin i c d)) = aget c' i.
Proof.
  intros Hne. unfold conn_pin. destruct (aget c i) as [d0|].
  - destruct (Bool.eqb d0 d); auto. destruct d; simpl; auto. now apply aget_aput_other.
  - simpl. now apply aget_aput_other.
Qed.

Definition call_outcome (s : st) (c : N) (fault : bool) (k : ckind) (o : oper) : list (N * bool) * bool :=
  if fault then (ipfs s, false)
  else match k with KPin => conn_pin (ipfs s) c (pdirect (opin o)) | _ => (adel c (ipfs s), true) end.

Lemma complete_effect s c fault : Inv s ->
  pinset (complete s c fault) = pinset s /\ last (complete s c fault) = last s /\
  (forall c', c' <> c -> opframe s (complete s c fault) c' /\ aget c' (ipfs (complete s c fault)) = aget c' (ipfs s)) /\
  ((complete s c fault = s /\ forall cl, In cl (calls s) -> ccid cl <> c) \/
   exists cl o, In cl (calls s) /\ ccid cl = c /\ aget c (table s) = Some o /\ oid o = coid cl /\ oph o = PInProgress /\
     otyp o = kind_type (ckd cl) /\
     ipfs (complete s c fault) = fst (call_outcome s c fault (ckd cl) o) /\
     if snd (call_outcome s c fault (ckd cl) o) then aget c (table (complete s c fault)) = None
     else exists o', aget c (table (complete s c fault)) = Some o' /\ otyp o' = otyp o /\ oph o' = PError).
Proof.
  intros I. unfold complete.
  destruct (find (fun cl => N.eqb (ccid cl) c) (calls s)) as [cl|] eqn:Hf.
  2:{ repeat split; auto using opframe_refl. left. split; auto. intros cl Hin E.
      pose proof (find_none _ _ Hf _ Hin) as H. simpl in H. apply N.eqb_neq in H. auto. }
  apply find_some in Hf as [Hin Hc]. apply N.eqb_eq in Hc.
  destruct (inv_calls _ I _ Hin) as (o & Ho & Hi & Hph & Hty). rewrite Hc in Ho. rewrite Ho.
  rewrite Hi, N.eqb_refl. simpl.
  fold (call_outcome s c fault (ckd cl) o). destruct (call_outcome s c fault (ckd cl) o) as [i' ok] eqn:Hco.
  set (s1 := set_calls (set_ipfs s i') (filter (fun x => negb (N.eqb (coid x) (coid cl) && N.eqb (ccid x) c)) (calls s))).
  set (s2 := if ok then clean s1 (coid cl) c else set_err_phase s1 c).
  assert (Ht2 : (ok = true /\ table s2 = adel c (table s)) \/ (ok = false /\ table s2 = aput c (set_phase PError o) (table s))).
  { unfold s2. destruct ok; [left|right]; split; auto.
    - unfold clean, s1. simpl. unfold current. now rewrite Ho, Hi, N.eqb_refl.
    - unfold set_err_phase, s1. simpl. now rewrite Ho. }
  assert (I2 : Inv s2).
  { apply (finish_inv s s2 c o I Ho Hph).
    - destruct Ht2 as [[_ E]|[_ E]]; auto.
    - unfold s2, clean, set_err_phase, s1. rewrite Hi. destruct ok; simpl.
      + destruct (current _ _ _); reflexivity.
      + rewrite Ho. reflexivity.
    - unfold s2, clean, set_err_phase, s1. destruct ok; simpl; [destruct (current _ _ _); reflexivity|rewrite Ho; reflexivity].
    - unfold s2, clean, set_err_phase, s1. destruct ok; simpl; [destruct (current _ _ _); reflexivity|rewrite Ho; reflexivity].
    - unfold s2, clean, set_err_phase, s1. destruct ok; simpl; [destruct (current _ _ _); reflexivity|rewrite Ho; reflexivity]. }
  assert (Hf2 : pinset s2 = pinset s /\ last s2 = last s /\ ipfs s2 = i').
  { unfold s2, clean, set_err_phase, s1. destruct ok; simpl; [destruct (current _ _ _); auto|rewrite Ho; auto]. }
  destruct Hf2 as (Hps & Hla & Hip).
  rewrite dispatch_pinset, dispatch_last, dispatch_ipfs, Hps, Hla, Hip. repeat split; auto.
  - eapply opframe_trans; [|apply dispatch_frame; exact I2]. apply opframe_eq.
    destruct Ht2 as [[_ E]|[_ E]]; rewrite E; [now apply aget_adel_other|now apply aget_aput_other].
  - assert (i' = fst (call_outcome s c fault (ckd cl) o)) as -> by now rewrite Hco.
    unfold call_outcome. destruct fault; simpl; auto. destruct (ckd cl); simpl.
    + now apply conn_pin_other.
    + now apply aget_adel_other.
    + now apply aget_adel_other.
  - right. exists cl, o. repeat split; auto; [now rewrite Hco|]. rewrite Hco. simpl.
    destruct (dispatch_effect s2) as (sp & su & D). rewrite (de_table _ _ _ _ D), aget_mark.
    destruct Ht2 as [[-> E]|[-> E]]; rewrite E.
    + now rewrite aget_adel_same.
    + rewrite aget_aput_same. simpl. eexists. split; [reflexivity|]. rewrite mark1_otyp, mark1_phase. simpl. split; auto.
      destruct (marked (sp ++ su) c (set_phase PError o)) eqn:Hm; auto. exfalso.
      (* an operation in error is not in a queue as the current one *)
      apply marked_in in Hm. simpl in Hm. apply in_app_or in Hm as [Hm|Hm].
      * destruct (de_sp _ _ _ _ D _ Hm) as [Hq Hcur]. destruct (inv_pinq _ I2 _ _ Hq Hcur) as (o' & Ho' & _ & P).
        rewrite E, aget_aput_same in Ho'. inversion Ho' as [Heq]. rewrite <- Heq in P. discriminate.
      * destruct (de_su _ _ _ _ D _ Hm) as [Hq Hcur]. destruct (inv_unpinq _ I2 _ _ Hq Hcur) as (o' & Ho' & _ & P).
        rewrite E, aget_aput_same in Ho'. inversion Ho' as [Heq]. rewrite <- Heq in P. discriminate.
Qed.
