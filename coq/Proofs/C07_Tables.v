(* C07 — the table obligations, discharged on the tables generated from the current source by vm_compute
   and lifted to the quantified statements. Recompiled at every run (depends on Gen/). *)
From Coq Require Import String.
From V Require Import Base.Common Base.CommonLemmas Base.Rpc Model.C07_Auth Model.C07_Spec Model.C07_Tables
  Gen.Policy Gen.RPCMethods Proofs.C07_Auth.
Open Scope string_scope.

Lemma filter_nil_forall {A} (f : A -> bool) l : filter f l = [] -> forall x, In x l -> f x = false.
Proof. induction l as [|a r IH]; simpl; [tauto|]. destruct (f a) eqn:E; [discriminate|].
  intros H x [<-|Hx]; auto. Qed.

Lemma mem_str_in s l : mem_str s l = true <-> In s l.
Proof. unfold mem_str. rewrite existsb_exists. split.
  - intros [y [H E]]. apply String.eqb_eq in E. now subst.
  - intros H. exists s. split; auto. apply String.eqb_refl. Qed.

Lemma map_nil_inv {A B} (f : A -> B) l : map f l = [] -> l = [].
Proof. destruct l; [auto|discriminate]. Qed.

Lemma app_nil_inv {A} (a b : list A) : (a ++ b)%list = [] -> a = [] /\ b = [].
Proof. destruct a; simpl; [auto|discriminate]. Qed.

(* the computations: these are the lines that fail when the source changes *)
Lemma policy_total_c : bad_policy_total = []. Proof. vm_compute. reflexivity. Qed.
Lemma policy_no_unknown_c : bad_policy_no_unknown = []. Proof. vm_compute. reflexivity. Qed.
Lemma policy_keys_unique_c : bad_policy_keys_unique = []. Proof. vm_compute. reflexivity. Qed.
Lemma untrusted_only_open_c : bad_untrusted_only_open = []. Proof. vm_compute. reflexivity. Qed.
Lemma local_only_refused_c : bad_local_only_refused = []. Proof. vm_compute. reflexivity. Qed.
Lemma trusted_spec_c : bad_trusted_spec = []. Proof. vm_compute. reflexivity. Qed.
Lemma open_spec_c : bad_open_spec = []. Proof. vm_compute. reflexivity. Qed.
Lemma spec_partition_c : bad_spec_partition = []. Proof. vm_compute. reflexivity. Qed.
Lemma services_registered_c : bad_services_registered = []. Proof. vm_compute. reflexivity. Qed.
Lemma authf_c : bad_authf = []. Proof. vm_compute. reflexivity. Qed.

Lemma policy_total_l m : In m rpc_methods -> exists t, lookup m policy = Some t.
Proof. intros H. pose proof (filter_nil_forall _ _ policy_total_c m H) as E. cbv beta in E.
  destruct (lookup m policy); [eauto|discriminate]. Qed.

Lemma policy_no_unknown_l k t : In (k, t) policy -> In k rpc_methods.
Proof. intros H. apply mem_str_in.
  pose proof (filter_nil_forall _ _ policy_no_unknown_c k) as E. cbv beta in E.
  rewrite negb_false_iff in E. apply E. apply in_map_iff. exists (k, t). auto. Qed.

Lemma count_str_unique k l : count_str k l = 1%nat -> forall a b c, l = (a ++ k :: b ++ k :: c)%list -> False.
Proof. unfold count_str. intros H a b c ->. rewrite !filter_app in H. simpl in H. rewrite String.eqb_refl in H.
  simpl in H. rewrite !app_length in H. simpl in H. rewrite filter_app in H. simpl in H.
  rewrite String.eqb_refl in H. rewrite app_length in H. simpl in H. lia. Qed.

Lemma policy_keys_unique_l k : In k (map fst policy) -> count_str k (map fst policy) = 1%nat.
Proof. intros H. pose proof (filter_nil_forall _ _ policy_keys_unique_c k H) as E. cbv beta in E.
  rewrite negb_false_iff in E. now apply Nat.eqb_eq. Qed.

(* for EVERY string ep, method or not *)
Lemma untrusted_only_open_l ep : authorize policy false ep = true -> In ep open_spec.
Proof. intros H. apply authorize_untrusted in H. apply lookup_in in H.
  pose proof (map_nil_inv _ _ untrusted_only_open_c) as F.
  pose proof (filter_nil_forall _ _ F (ep, Open) H) as E. cbn [fst snd ept_eqb andb] in E.
  rewrite negb_false_iff in E. now apply mem_str_in. Qed.

Lemma local_only_refused_l ep : In ep local_only_spec ->
  forall (trust : N -> bool) (caller : N), authorize policy (trust caller) ep = false.
Proof. intros H trust caller. pose proof (filter_nil_forall _ _ local_only_refused_c ep H) as E. cbv beta in E.
  unfold authorize. destruct (lookup ep policy) as [[| |]|]; try discriminate; reflexivity. Qed.

Lemma entry_is_lookup t ep : entry_is t ep = true -> lookup ep policy = Some t.
Proof. unfold entry_is. destruct (lookup ep policy) as [t'|]; [|discriminate].
  destruct t, t'; simpl; intros H; try discriminate; reflexivity. Qed.

Lemma trusted_spec_l ep : In ep trusted_spec -> forall trusted, authorize policy trusted ep = trusted.
Proof. intros H trusted. pose proof (filter_nil_forall _ _ trusted_spec_c ep H) as E. cbv beta in E.
  rewrite negb_false_iff in E. apply authorize_trusted_entry. now apply entry_is_lookup. Qed.

Lemma open_spec_l ep : In ep open_spec -> forall trusted, authorize policy trusted ep = true.
Proof. intros H trusted. pose proof (filter_nil_forall _ _ open_spec_c ep H) as E. cbv beta in E.
  rewrite negb_false_iff in E. apply authorize_open_entry. now apply entry_is_lookup. Qed.

Lemma spec_partition_l :
  (forall m, In m rpc_methods -> count_str m spec_all = 1%nat) /\
  (forall s, In s spec_all -> In s rpc_methods).
Proof. destruct (app_nil_inv _ _ spec_partition_c) as [A B]. split.
  - intros m H. pose proof (filter_nil_forall _ _ A m H) as E. cbv beta in E. rewrite negb_false_iff in E. now apply Nat.eqb_eq.
  - intros s H. pose proof (filter_nil_forall _ _ B s H) as E. cbv beta in E. rewrite negb_false_iff in E. now apply mem_str_in. Qed.

Lemma services_registered_l s : In s known_services -> In s registered_services.
Proof. intros H. pose proof (filter_nil_forall _ _ services_registered_c s H) as E. cbv beta in E.
  rewrite negb_false_iff in E. now apply mem_str_in. Qed.

Lemma authf_l e trusted : authf_gen e trusted = authorize_entry e trusted.
Proof. pose proof (map_nil_inv _ _ authf_c) as F.
  assert (In (e, trusted) authf_args) as He by (destruct e as [[| |]|], trusted; simpl; tauto).
  pose proof (filter_nil_forall _ _ F (e, trusted) He) as E. cbn [fst snd] in E.
  rewrite negb_false_iff in E. now apply eqb_prop. Qed.
