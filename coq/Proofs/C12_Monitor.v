(* C12 — the run-time monitors of Model/C12_Check.v (code 1 model = implementation; 10 the hijacked request itself reached the
   daemon; 11 relay identity; 12 error answer after a mutating cluster call; 13 mutating call forwarded to the daemon;
   14 successful answer without exactly the requested operation; 15 non-canonical path), which judge what the IMPLEMENTATION
   did, tied to the model and to Prop-level statements, for every request and every environment (no bound):
   (1) soundness: a case on which a code is not produced satisfies the Prop-level clause that code stands for;
   (2) completeness w.r.t. the model: the case annotated with the model's own result produces no code at all (under the one
       input guard the harness guarantees, stated explicitly);
   (3) transfer: a case whose observation agrees with the model (no code 1) produces no code at all.
   The soundness statements are phrased with spec_class, the hand-written description of what is hijacked in
   Model/C12_Check.v (proxy_classify_spec: it is the classification of the generated table), so they do not depend on Gen/. *)
From V Require Import Base.Common Base.C11_Http Gen.ProxyRoutes Model.C12_Proxy Model.C12_Check Proofs.C12_Proxy.
Open Scope string_scope.
Open Scope list_scope.

(* ------------------------------------------------------------------------------------------ *)
(* codes of a case                                                                            *)
(* ------------------------------------------------------------------------------------------ *)
Definition code_absent (k : N) (l : list (N * N * N)) : Prop := forall c, In c l -> snd (fst c) <> k.

Lemma absent_spec_codes id rq e cmp o k :
  code_absent k (check_case (id, (rq, e, cmp, o))) -> ~ In k (spec_codes rq e o).
Proof.
  intros H Hin. apply (H (id, k, 0%N)); [|reflexivity].
  cbn [check_case]. apply in_or_app. right. apply in_map_iff. exists k. split; [reflexivity | exact Hin].
Qed.

Lemma absent_code1 id rq e o : code_absent 1 (check_case (id, (rq, e, true, o))) -> model_eqb rq e o = true.
Proof.
  intros H. destruct (model_eqb rq e o) eqn:E; [reflexivity|]. exfalso.
  apply (H (id, 1%N, 0%N)); [|reflexivity]. cbn [check_case]. rewrite E. cbn [andb negb]. apply in_or_app. left. left. reflexivity.
Qed.

(* ------------------------------------------------------------------------------------------ *)
(* the comparison functions decide equality                                                   *)
(* ------------------------------------------------------------------------------------------ *)
Lemma leqb_refl {A} (eqb : A -> A -> bool) (l : list A) : (forall x, eqb x x = true) -> list_eqb eqb l l = true.
Proof. intros H. induction l as [|x r IH]; [reflexivity|]. cbn [list_eqb]. rewrite H, IH. reflexivity. Qed.
Lemma leqb_eq {A} (eqb : A -> A -> bool) : (forall x y, eqb x y = true -> x = y) -> forall a b, list_eqb eqb a b = true -> a = b.
Proof.
  intros He. induction a as [|x r IH]; intros [|y s]; cbn [list_eqb]; try discriminate; [reflexivity|].
  rewrite andb_true_iff. intros [H1 H2]. f_equal; [apply He; exact H1 | apply IH; exact H2].
Qed.

Lemma pmode_eqb_eq a b : pmode_eqb a b = true -> a = b.
Proof. destruct a, b; cbn; congruence. Qed.

Lemma call_eqb_eq a b : call_eqb a b = true -> a = b.
Proof.
  destruct a, b; cbn [call_eqb]; try discriminate; rewrite ?andb_true_iff; intros H;
    repeat match goal with H : _ /\ _ |- _ => destruct H end;
    repeat match goal with
    | H : String.eqb _ _ = true |- _ => apply String.eqb_eq in H
    | H : Z.eqb _ _ = true |- _ => apply Z.eqb_eq in H
    | H : pmode_eqb _ _ = true |- _ => apply pmode_eqb_eq in H
    end; subst; reflexivity.
Qed.

Lemma callf_eqb_eq a b : callf_eqb a b = true -> a = b.
Proof.
  destruct a as [c x], b as [d y]. unfold callf_eqb. cbn [fst snd]. rewrite andb_true_iff. intros [H1 H2].
  apply call_eqb_eq in H1. apply Bool.eqb_prop in H2. subst. reflexivity.
Qed.
Lemma calls_eqb_eq a b : list_eqb callf_eqb a b = true -> a = b.
Proof. apply leqb_eq. exact callf_eqb_eq. Qed.

Lemma dreq_eqb_eq a b : dreq_eqb a b = true -> a = b.
Proof.
  destruct a as [[m u] x], b as [[m' u'] x']. unfold dreq_eqb. rewrite !andb_true_iff. intros [[H1 H2] H3].
  apply String.eqb_eq in H1, H2, H3. subst. reflexivity.
Qed.
Lemma dreqs_eqb_eq a b : list_eqb dreq_eqb a b = true -> a = b.
Proof. apply leqb_eq. exact dreq_eqb_eq. Qed.
Lemma dreqs_eqb_refl l : list_eqb dreq_eqb l l = true.
Proof. apply leqb_refl. exact dreq_eqb_refl. Qed.

Lemma seg_eqb_eq a b : seg_eqb a b = true <-> a = b.
Proof.
  split.
  - apply leqb_eq. intros x y H. apply String.eqb_eq. exact H.
  - intros ->. apply leqb_refl. exact String.eqb_refl.
Qed.

Lemma is_nil_spec {A} (l : list A) : is_nil l = true <-> l = [].
Proof. destruct l; cbn; split; intros H; try reflexivity; discriminate. Qed.

(* ------------------------------------------------------------------------------------------ *)
(* Prop-level clauses                                                                         *)
(* ------------------------------------------------------------------------------------------ *)

(* relay identity: no cluster call, the daemon received exactly the request (method, URI as sent, body), the answer is the
   daemon's (status; body, empty for HEAD; no stream-error trailer) *)
Definition relay_spec (rq : req) (e : env) (o : obs) : Prop :=
  o_calls o = [] /\ o_dreqs o = [(rq_meth rq, rq_uri rq, rq_body rq)] /\ o_status o = e_dstatus e /\
  o_body o = (if String.eqb (rq_meth rq) "HEAD" then "" else e_dbody e) /\ o_serr o = false.

Lemma relay_identity_spec rq e o : relay_identity rq e o = true <-> relay_spec rq e o.
Proof.
  unfold relay_identity, relay_spec. rewrite !andb_true_iff. split.
  - intros [[[[H1 H2] H3] H4] H5]. repeat split.
    + destruct (o_calls o); [reflexivity | discriminate].
    + apply dreqs_eqb_eq. exact H2.
    + apply N.eqb_eq. exact H3.
    + apply String.eqb_eq. exact H4.
    + apply negb_true_iff. exact H5.
  - intros (H1 & H2 & H3 & H4 & H5). rewrite H1, H2, H3, H4, H5.
    rewrite dreqs_eqb_refl, N.eqb_refl, String.eqb_refl. repeat split.
Qed.

(* non-canonical path: never a cluster call; either the 301 of the router with nothing forwarded, or a plain relay *)
Definition redirect_spec (rq : req) (e : env) (o : obs) : Prop :=
  o_calls o = [] /\ ((o_status o = 301%N /\ o_dreqs o = []) \/ relay_spec rq e o).

(* a daemon request that is one of the mutating calls the proxy replaces: any method but OPTIONS, and the path of the request
   URI (the part before '?') starts with the segments of pin/add, pin/rm, pin/update, add or repo/gc *)
Definition mutating_request (d : dreq) : Prop :=
  fst (fst d) <> "OPTIONS" /\
  exists b rest, In b mutating_bases /\ segments (uri_path (snd (fst d))) = "" :: b ++ rest.

Lemma firstn_prefix {A} (l s : list A) : firstn (List.length l) s = l <-> exists r, s = l ++ r.
Proof.
  split.
  - intros H. exists (skipn (List.length l) s).
    transitivity (firstn (List.length l) s ++ skipn (List.length l) s); [symmetry; apply firstn_skipn|].
    rewrite H. reflexivity.
  - intros [r ->]. rewrite firstn_app, Nat.sub_diag, firstn_all. cbn [firstn]. apply app_nil_r.
Qed.

Lemma mutating_dreq_spec d : mutating_dreq d = true <-> mutating_request d.
Proof.
  destruct d as [[m u] x]. unfold mutating_dreq, mutating_request. cbn [fst snd].
  rewrite andb_true_iff, negb_true_iff, String.eqb_neq, existsb_exists. split.
  - intros [H1 (b & Hb & H2)]. split; [exact H1|]. apply seg_eqb_eq in H2.
    change (S (List.length b)) with (List.length ("" :: b)) in H2. apply firstn_prefix in H2. destruct H2 as [r Hr].
    exists b, r. split; [exact Hb | exact Hr].
  - intros [H1 (b & r & Hb & H2)]. split; [exact H1|]. exists b. split; [exact Hb|]. apply seg_eqb_eq.
    change (S (List.length b)) with (List.length ("" :: b)). apply firstn_prefix. exists r. exact H2.
Qed.

(* the only requests a hijacked request may cause at the daemon: CORS pre-flights and the one-time header extraction *)
Definition preflight_or_extraction (e : env) (d : dreq) : Prop :=
  fst (fst d) = "OPTIONS" \/ (fst (fst d) = "POST" /\ snd (fst d) = e_extract e).

(* answered with an error: an error status, or for add the stream-error trailer *)
Definition answered_with_error (h : handler) (o : obs) : Prop :=
  (400 <= o_status o)%N \/ (h = HAdd /\ o_serr o = true).

Lemma answered_error_spec h o : answered_error h o = true <-> answered_with_error h o.
Proof.
  unfold answered_error, answered_with_error. rewrite orb_true_iff, N.leb_le. split; intros [H|H].
  - left; exact H.
  - right. destruct h; try discriminate. split; [reflexivity | exact H].
  - left; exact H.
  - right. destruct H as [-> H]. exact H.
Qed.

(* the cluster operation a hijacked request asks for, with exactly the parsed path and options *)
Inductive requested (e : env) (q : qvals) : handler -> list call -> Prop :=
| RqPin p : parse_path e (qget "arg" q) = Some p -> requested e q HPin [CPinPath p (mode_of (qget "type" q)) ""]
| RqUnpin p : parse_path e (qget "arg" q) = Some p -> requested e q HUnpin [CUnpinPath p (mode_of (qget "type" q)) ""]
| RqPinLsAll : qget "arg" q = "" -> requested e q HPinLs [CPins]
| RqPinLsOne c : qget "arg" q <> "" -> parse_cid e (qget "arg" q) = Some c -> requested e q HPinLs [CPinGet c]
| RqPinUpdate from to rest pf pt :
    qall "arg" q = from :: to :: rest -> parse_path e from = Some pf -> parse_path e to = Some pt ->
    requested e q HPinUpdate ([CResolve pf; CPinPath pt Recursive (e_resolved e)] ++
                              (if String.eqb (qget "unpin" q) "false" then [] else [CUnpin (e_resolved e)]))
| RqAdd p : e_addp e = Some p -> qget "only-hash" q <> "true" ->
    requested e q HAdd ([CBlockAllocate; CBlockPut; CPin (e_root e) (ap_name p) (ap_rmin p) (ap_rmax p) Recursive] ++
                        (if String.eqb (qget "pin" q) "false" then [CUnpin (e_root e)] else []))
| RqRepoGC : requested e q HRepoGC [CRepoGC].

Lemma expected_ops_requested h e q o cs :
  expected_ops h e q o = Some cs <-> exists l, requested e q h l /\ cs = ok_calls l.
Proof.
  split.
  - destruct h; cbn [expected_ops].
    + destruct (parse_path e (qget "arg" q)) as [p|] eqn:E; [|discriminate]. intros H; inversion H.
      eexists; split; [apply RqPin; exact E | reflexivity].
    + destruct (parse_path e (qget "arg" q)) as [p|] eqn:E; [|discriminate]. intros H; inversion H.
      eexists; split; [apply RqUnpin; exact E | reflexivity].
    + destruct (String.eqb (qget "arg" q) "") eqn:Ea.
      * apply String.eqb_eq in Ea. intros H; inversion H. eexists; split; [apply RqPinLsAll; exact Ea | reflexivity].
      * apply String.eqb_neq in Ea. destruct (parse_cid e (qget "arg" q)) as [c|] eqn:E; [|discriminate]. intros H; inversion H.
        eexists; split; [apply RqPinLsOne; [exact Ea | exact E] | reflexivity].
    + destruct (qall "arg" q) as [|from [|to rest]] eqn:Eq; try discriminate.
      destruct (parse_path e from) as [pf|] eqn:Ef; [|discriminate].
      destruct (parse_path e to) as [pt|] eqn:Et; [|discriminate]. intros H; inversion H.
      eexists; split; [eapply RqPinUpdate; [exact Eq | exact Ef | exact Et] | reflexivity].
    + destruct (e_addp e) as [p|] eqn:Ep; [|discriminate].
      destruct (String.eqb (qget "only-hash" q) "true") eqn:Eo; [discriminate|]. apply String.eqb_neq in Eo.
      intros H; inversion H. eexists; split; [apply RqAdd; [exact Ep | exact Eo] | reflexivity].
    + discriminate.
    + intros H; inversion H. eexists; split; [apply RqRepoGC | reflexivity].
    + discriminate.
  - intros (l & Hr & ->). destruct Hr as [p Hp|p Hp|Ha|c Ha Hc|from to rest pf pt Hq Hf Ht|p Hp Ho|]; cbn [expected_ops].
    + rewrite Hp. reflexivity.
    + rewrite Hp. reflexivity.
    + rewrite Ha. reflexivity.
    + apply String.eqb_neq in Ha. rewrite Ha, Hc. reflexivity.
    + rewrite Hq, Hf, Ht. reflexivity.
    + apply String.eqb_neq in Ho. rewrite Hp, Ho. reflexivity.
    + reflexivity.
Qed.

(* a successful answer performed exactly the requested operation: the calls are the requested ones, in order, none failed,
   nothing else; for repo/stat: Consensus.Peers, then one RepoStat per peer, the answer aggregating the peers that answered *)
Definition performed_exactly (h : handler) (e : env) (q : qvals) (o : obs) : Prop :=
  match h with
  | HRepoStat =>
      exists rest, o_calls o = (CPeers, false) :: rest /\ (forall c, In c rest -> fst c = CRepoStat) /\
        List.length rest = N.to_nat (e_npeers e) /\
        o_num o = (N.of_nat (List.length (filter (fun c : call * bool => negb (snd c)) rest)) * e_reposize e)%N
  | _ => exists l, requested e q h l /\ o_calls o = ok_calls l
  end.

Lemma faithful_other h e q o : h <> HRepoStat ->
  (faithful h e q o = true <-> exists l, requested e q h l /\ o_calls o = ok_calls l).
Proof.
  intros Hh.
  assert (E : faithful h e q o = match expected_ops h e q o with Some cs => list_eqb callf_eqb (o_calls o) cs | None => false end)
    by (destruct h; try reflexivity; congruence).
  rewrite E. split.
  - destruct (expected_ops h e q o) as [cs|] eqn:Ex; [|discriminate]. intros Hl. apply calls_eqb_eq in Hl.
    apply expected_ops_requested in Ex. destruct Ex as (l & Hr & ->). exists l. split; [exact Hr | exact Hl].
  - intros (l & Hr & Hl).
    assert (Ex : expected_ops h e q o = Some (ok_calls l)) by (apply expected_ops_requested; exists l; split; [exact Hr | reflexivity]).
    rewrite Ex, Hl. apply calls_eqb_refl.
Qed.

Lemma faithful_spec h e q o : faithful h e q o = true <-> performed_exactly h e q o.
Proof.
  destruct h; try (apply faithful_other; discriminate).
  cbn [faithful performed_exactly]. split.
  - destruct (o_calls o) as [|[c b] rest] eqn:Ec; [discriminate|].
    destruct c; try discriminate. destruct b; [discriminate|].
    rewrite !andb_true_iff. intros [[H1 H2] H3]. exists rest. split; [reflexivity|]. split; [|split].
    + intros c Hc. rewrite forallb_forall in H1. specialize (H1 c Hc). apply call_eqb_eq in H1. exact H1.
    + apply Nat.eqb_eq. exact H2.
    + apply N.eqb_eq. exact H3.
  - intros (rest & Hc & H1 & H2 & H3). rewrite Hc, H2, H3, Nat.eqb_refl, N.eqb_refl.
    rewrite !andb_true_r. apply forallb_forall. intros c Hi. rewrite (H1 c Hi). reflexivity.
Qed.

(* ------------------------------------------------------------------------------------------ *)
(* the codes of a hijacked request, named                                                     *)
(* ------------------------------------------------------------------------------------------ *)
Definition c13 (o : obs) : bool := existsb mutating_dreq (o_dreqs o).
Definition c12 (h : handler) (o : obs) : bool :=
  answered_error h o && negb (any_failed (o_calls o)) && negb (is_nil (mut_calls (o_calls o))).
Definition c14 (h : handler) (e : env) (q : qvals) (o : obs) : bool :=
  negb (answered_error h o) && (negb (any_failed (o_calls o)) || handler_eqb h HRepoStat) && negb (faithful h e q o).
Definition own_or_preflight (e : env) (d : dreq) : bool :=
  let '(m, u, _) := d in String.eqb m "OPTIONS" || (String.eqb m "POST" && String.eqb u (e_extract e)).
Definition c10 (e : env) (o : obs) : bool := forallb (own_or_preflight e) (o_dreqs o).

Lemma spec_codes_hijack rq e o h sl : e_redirect e = false -> spec_class (rq_meth rq) (rq_path rq) = Hijack h sl ->
  spec_codes rq e o =
    (if c13 o then [13%N] else []) ++ (if c12 h o then [12%N] else []) ++
    (if c14 h e (eff_query rq sl) o then [14%N] else []) ++ (if c10 e o then [] else [10%N]).
Proof. intros H1 H2. unfold spec_codes. rewrite H1, H2. reflexivity. Qed.

Lemma is_nil_mut_calls cs : is_nil (mut_calls cs) = no_mutationb cs.
Proof.
  unfold mut_calls, no_mutationb. induction cs as [|c l IH]; [reflexivity|]. cbn [filter forallb].
  destruct (mutating (fst c)); cbn [negb andb is_nil]; [reflexivity | exact IH].
Qed.

(* ------------------------------------------------------------------------------------------ *)
(* soundness, one code at a time                                                              *)
(* ------------------------------------------------------------------------------------------ *)

(* code 15 *)
Lemma monitor15_sound_l id rq e cmp o : e_redirect e = true ->
  code_absent 15 (check_case (id, (rq, e, cmp, o))) -> redirect_spec rq e o.
Proof.
  intros Hr Ha. apply absent_spec_codes in Ha. unfold spec_codes in Ha. rewrite Hr in Ha.
  destruct (is_nil (o_calls o) && ((N.eqb (o_status o) 301 && is_nil (o_dreqs o)) || relay_identity rq e o)) eqn:E.
  - apply andb_true_iff in E. destruct E as [E1 E2]. split; [apply is_nil_spec; exact E1|].
    apply orb_true_iff in E2. destruct E2 as [E2|E2].
    + left. apply andb_true_iff in E2. destruct E2 as [E2 E3]. split; [apply N.eqb_eq; exact E2 | apply is_nil_spec; exact E3].
    + right. apply relay_identity_spec. exact E2.
  - exfalso. apply Ha. left. reflexivity.
Qed.

(* code 11 *)
Lemma monitor11_sound_l id rq e cmp o : e_redirect e = false -> spec_class (rq_meth rq) (rq_path rq) = Relay ->
  code_absent 11 (check_case (id, (rq, e, cmp, o))) -> relay_spec rq e o.
Proof.
  intros Hr Hc Ha. apply absent_spec_codes in Ha. unfold spec_codes in Ha. rewrite Hr, Hc in Ha.
  destruct (relay_identity rq e o) eqn:E.
  - apply relay_identity_spec. exact E.
  - exfalso. apply Ha. left. reflexivity.
Qed.

(* code 13 *)
Lemma monitor13_sound_l id rq e cmp o h sl : e_redirect e = false -> spec_class (rq_meth rq) (rq_path rq) = Hijack h sl ->
  code_absent 13 (check_case (id, (rq, e, cmp, o))) -> forall d, In d (o_dreqs o) -> ~ mutating_request d.
Proof.
  intros Hr Hc Ha. apply absent_spec_codes in Ha. rewrite (spec_codes_hijack rq e o h sl Hr Hc) in Ha.
  assert (E : c13 o = false).
  { destruct (c13 o); [|reflexivity]. exfalso. apply Ha. apply in_or_app. left. left. reflexivity. }
  intros d Hd Hm. apply mutating_dreq_spec in Hm.
  assert (E' : c13 o = true) by (unfold c13; apply existsb_exists; exists d; split; [exact Hd | exact Hm]).
  congruence.
Qed.

(* code 10 *)
Lemma own_or_preflight_spec e d : own_or_preflight e d = true <-> preflight_or_extraction e d.
Proof.
  destruct d as [[m u] x]. unfold own_or_preflight, preflight_or_extraction. cbn [fst snd].
  rewrite orb_true_iff, andb_true_iff, !String.eqb_eq. reflexivity.
Qed.

Lemma monitor10_sound_l id rq e cmp o h sl : e_redirect e = false -> spec_class (rq_meth rq) (rq_path rq) = Hijack h sl ->
  code_absent 10 (check_case (id, (rq, e, cmp, o))) -> forall d, In d (o_dreqs o) -> preflight_or_extraction e d.
Proof.
  intros Hr Hc Ha. apply absent_spec_codes in Ha. rewrite (spec_codes_hijack rq e o h sl Hr Hc) in Ha.
  assert (E : c10 e o = true).
  { destruct (c10 e o); [reflexivity|]. exfalso. apply Ha. do 3 (apply in_or_app; right). left. reflexivity. }
  intros d Hd. apply own_or_preflight_spec. unfold c10 in E. rewrite forallb_forall in E. apply E. exact Hd.
Qed.

(* code 12 *)
Lemma monitor12_sound_l id rq e cmp o h sl : e_redirect e = false -> spec_class (rq_meth rq) (rq_path rq) = Hijack h sl ->
  code_absent 12 (check_case (id, (rq, e, cmp, o))) ->
  answered_with_error h o -> none_failed (o_calls o) -> no_mutation (o_calls o).
Proof.
  intros Hr Hc Ha Herr Hnf. apply absent_spec_codes in Ha. rewrite (spec_codes_hijack rq e o h sl Hr Hc) in Ha.
  apply no_mutation_b. destruct (no_mutationb (o_calls o)) eqn:Em; [reflexivity|]. exfalso. apply Ha.
  assert (E : c12 h o = true).
  { unfold c12. apply answered_error_spec in Herr. apply none_failed_b in Hnf.
    rewrite Herr, any_failed_neg, Hnf, is_nil_mut_calls, Em. reflexivity. }
  rewrite E. apply in_or_app. right. apply in_or_app. left. left. reflexivity.
Qed.

(* code 14 *)
Lemma monitor14_sound_l id rq e cmp o h sl : e_redirect e = false -> spec_class (rq_meth rq) (rq_path rq) = Hijack h sl ->
  code_absent 14 (check_case (id, (rq, e, cmp, o))) ->
  ~ answered_with_error h o -> (none_failed (o_calls o) \/ h = HRepoStat) -> performed_exactly h e (eff_query rq sl) o.
Proof.
  intros Hr Hc Ha Hne Hor. apply absent_spec_codes in Ha. rewrite (spec_codes_hijack rq e o h sl Hr Hc) in Ha.
  apply faithful_spec. destruct (faithful h e (eff_query rq sl) o) eqn:Ef; [reflexivity|]. exfalso. apply Ha.
  assert (E : c14 h e (eff_query rq sl) o = true).
  { unfold c14. rewrite Ef.
    assert (Ee : answered_error h o = false).
    { destruct (answered_error h o) eqn:Ee; [|reflexivity]. exfalso. apply Hne. apply answered_error_spec. exact Ee. }
    rewrite Ee. cbn [negb andb]. rewrite andb_true_r.
    destruct Hor as [Hnf|Hh].
    - apply none_failed_b in Hnf. rewrite any_failed_neg, Hnf. reflexivity.
    - subst h. apply orb_true_r. }
  rewrite E. do 2 (apply in_or_app; right). apply in_or_app. left. left. reflexivity.
Qed.

(* ------------------------------------------------------------------------------------------ *)
(* code 1: agreement with the model                                                           *)
(* ------------------------------------------------------------------------------------------ *)
Definition not_preflight (d : dreq) : bool := negb (String.eqb (fst (fst d)) "OPTIONS").

(* what code 1 compares: cluster calls with their outcome, status, trailer, aggregated number; for a relayed request also the
   body and every daemon request; for an answer produced by the proxy the daemon requests other than pre-flights *)
Definition agrees_with_model (rq : req) (e : env) (o : obs) : Prop :=
  let r := run rq e in
  o_calls o = r_calls r /\ o_status o = r_status r /\ o_serr o = r_serr r /\ o_num o = r_num r /\
  match r_body r with
  | Some b => o_body o = b /\ o_dreqs o = r_dreqs r
  | None => filter not_preflight (o_dreqs o) = r_dreqs r
  end.

Lemma model_eqb_spec rq e o : model_eqb rq e o = true <-> agrees_with_model rq e o.
Proof.
  unfold model_eqb, agrees_with_model. cbv zeta. rewrite !andb_true_iff. split.
  - intros [[[[H1 H2] H3] H4] H5]. apply calls_eqb_eq in H1. apply N.eqb_eq in H2, H4. apply Bool.eqb_prop in H3.
    repeat split; try (symmetry; assumption).
    destruct (r_body (run rq e)) as [b|].
    + apply andb_true_iff in H5. destruct H5 as [H5 H6]. apply String.eqb_eq in H5. apply dreqs_eqb_eq in H6.
      split; symmetry; assumption.
    + apply dreqs_eqb_eq in H5. symmetry. exact H5.
  - intros (H1 & H2 & H3 & H4 & H5). rewrite <- H1, <- H2, <- H3, <- H4.
    rewrite calls_eqb_refl, !N.eqb_refl, Bool.eqb_reflx. repeat split.
    destruct (r_body (run rq e)) as [b|].
    + destruct H5 as [H5 H6]. rewrite <- H5, <- H6, String.eqb_refl, dreqs_eqb_refl. reflexivity.
    + change (list_eqb dreq_eqb (r_dreqs (run rq e)) (filter not_preflight (o_dreqs o)) = true).
      rewrite H5. apply dreqs_eqb_refl.
Qed.

Lemma monitor1_sound_l id rq e o : code_absent 1 (check_case (id, (rq, e, true, o))) -> agrees_with_model rq e o.
Proof. intros H. apply model_eqb_spec. exact (absent_code1 id rq e o H). Qed.

(* ------------------------------------------------------------------------------------------ *)
(* completeness w.r.t. the model                                                              *)
(* ------------------------------------------------------------------------------------------ *)
Lemma model_dreqs_no_preflight rq e : r_body (run rq e) = None -> filter not_preflight (r_dreqs (run rq e)) = r_dreqs (run rq e).
Proof.
  unfold run. destruct (e_redirect e); [reflexivity|].
  destruct (classify (rq_meth rq) (rq_path rq)) as [|h sl]; [discriminate|].
  destruct (handle _ _ _ _) as [[[cs st] se] num]. cbn [r_body r_dreqs]. intros _.
  destruct (e_fresh e); reflexivity.
Qed.

Lemma model_agrees_with_model rq e : agrees_with_model rq e (obs_of (run rq e)).
Proof.
  unfold agrees_with_model. cbv zeta. unfold obs_of. cbn [o_calls o_dreqs o_status o_serr o_body o_num].
  repeat split. destruct (r_body (run rq e)) as [b|] eqn:Eb; [split; reflexivity|].
  apply model_dreqs_no_preflight. exact Eb.
Qed.

(* the case annotated with the model's own result raises no code (code 1 included), whether or not it is compared *)
Lemma model_passes_monitor_l id rq e cmp :
  mutating_dreq ("POST", e_extract e, "") = false -> check_case (id, (rq, e, cmp, obs_of (run rq e))) = [].
Proof.
  intros Hx. cbn [check_case].
  rewrite (proj2 (model_eqb_spec rq e _) (model_agrees_with_model rq e)), (model_satisfies_spec rq e Hx).
  destruct cmp; reflexivity.
Qed.

(* ------------------------------------------------------------------------------------------ *)
(* transfer: an observation that agrees with the model raises no code                         *)
(* ------------------------------------------------------------------------------------------ *)
Lemma mutating_preflight d : not_preflight d = false -> mutating_dreq d = false.
Proof.
  destruct d as [[m u] x]. unfold not_preflight, mutating_dreq. cbn [fst]. intros H. apply negb_false_iff in H. rewrite H. reflexivity.
Qed.
Lemma own_preflight e d : not_preflight d = false -> own_or_preflight e d = true.
Proof.
  destruct d as [[m u] x]. unfold not_preflight, own_or_preflight. cbn [fst]. intros H. apply negb_false_iff in H. rewrite H. reflexivity.
Qed.

Lemma existsb_filter {A} (f g : A -> bool) : (forall x, g x = false -> f x = false) -> forall l, existsb f l = existsb f (filter g l).
Proof.
  intros H. induction l as [|a l IH]; [reflexivity|]. cbn [existsb filter].
  destruct (g a) eqn:E; cbn [existsb]; rewrite IH; [reflexivity|]. rewrite (H a E). reflexivity.
Qed.
Lemma forallb_filter {A} (f g : A -> bool) : (forall x, g x = false -> f x = true) -> forall l, forallb f l = forallb f (filter g l).
Proof.
  intros H. induction l as [|a l IH]; [reflexivity|]. cbn [forallb filter].
  destruct (g a) eqn:E; cbn [forallb]; rewrite IH; [reflexivity|]. rewrite (H a E). reflexivity.
Qed.

Lemma if_nil_false (c : bool) (k : N) : (if c then [k] else []) = [] -> c = false.
Proof. destruct c; [discriminate | reflexivity]. Qed.
Lemma if_nil_true (c : bool) (k : N) : (if c then [] else [k]) = [] -> c = true.
Proof. destruct c; [reflexivity | discriminate]. Qed.

Lemma agreement_transfers_l rq e o :
  mutating_dreq ("POST", e_extract e, "") = false -> (e_redirect e = true -> o_dreqs o = []) ->
  agrees_with_model rq e o -> spec_codes rq e o = [].
Proof.
  intros Hx Hd Ha. pose proof (model_satisfies_spec rq e Hx) as Hm.
  unfold agrees_with_model in Ha. cbv zeta in Ha. destruct Ha as (A1 & A2 & A3 & A4 & A5).
  destruct (e_redirect e) eqn:Hr.
  - (* non-canonical path *)
    rewrite (run_redirect rq e Hr) in A1, A2. cbn [r_calls r_status] in A1, A2.
    unfold spec_codes. rewrite Hr, A1, A2, (Hd eq_refl). reflexivity.
  - destruct (classify (rq_meth rq) (rq_path rq)) as [|h sl] eqn:Hc.
    + (* relay: every field is compared, the observation is the model's *)
      assert (Eo : o = obs_of (run rq e)).
      { rewrite (run_relay rq e Hr Hc) in *. unfold obs_of.
        cbn [r_calls r_dreqs r_status r_serr r_body r_num] in *. destruct A5 as [A5 A6].
        destruct o as [oc od os oe ob on]. cbn [o_calls o_dreqs o_status o_serr o_body o_num] in *. subst. reflexivity. }
      rewrite Eo. exact Hm.
    + (* hijack: the codes read the observation only through the compared fields and the non-pre-flight daemon requests *)
      assert (Hs : spec_class (rq_meth rq) (rq_path rq) = Hijack h sl) by (rewrite <- classify_is_spec; exact Hc).
      assert (Eb : r_body (run rq e) = None) by (rewrite (run_hijack rq e h sl Hr Hc); reflexivity).
      rewrite Eb in A5.
      set (o' := obs_of (run rq e)) in *.
      assert (B1 : o_calls o = o_calls o') by exact A1.
      assert (B2 : o_status o = o_status o') by exact A2.
      assert (B3 : o_serr o = o_serr o') by exact A3.
      assert (B4 : o_num o = o_num o') by exact A4.
      assert (B5 : filter not_preflight (o_dreqs o) = o_dreqs o') by exact A5.
      rewrite (spec_codes_hijack rq e o' h sl Hr Hs) in Hm. rewrite (spec_codes_hijack rq e o h sl Hr Hs).
      apply app_eq_nil in Hm. destruct Hm as [M13 Hm]. apply app_eq_nil in Hm. destruct Hm as [M12 Hm].
      apply app_eq_nil in Hm. destruct Hm as [M14 M10].
      apply if_nil_false in M13, M12, M14. apply if_nil_true in M10.
      assert (E13 : c13 o = c13 o').
      { unfold c13. rewrite <- B5. apply existsb_filter. exact mutating_preflight. }
      assert (E10 : c10 e o = c10 e o').
      { unfold c10. rewrite <- B5. apply forallb_filter. exact (own_preflight e). }
      assert (Eerr : answered_error h o = answered_error h o') by (unfold answered_error; rewrite B2, B3; reflexivity).
      assert (Ef : faithful h e (eff_query rq sl) o = faithful h e (eff_query rq sl) o').
      { unfold faithful. rewrite B1, B4. destruct h; reflexivity. }
      assert (E12 : c12 h o = c12 h o') by (unfold c12; rewrite Eerr, B1; reflexivity).
      assert (E14 : c14 h e (eff_query rq sl) o = c14 h e (eff_query rq sl) o') by (unfold c14; rewrite Eerr, Ef, B1; reflexivity).
      rewrite E13, E12, E14, E10, M13, M12, M14, M10. reflexivity.
Qed.

(* on a compared case, absence of code 1 alone implies absence of every code *)
Lemma no_code1_no_code_l id rq e o :
  mutating_dreq ("POST", e_extract e, "") = false -> (e_redirect e = true -> o_dreqs o = []) ->
  code_absent 1 (check_case (id, (rq, e, true, o))) -> check_case (id, (rq, e, true, o)) = [].
Proof.
  intros Hx Hd Ha. pose proof (absent_code1 id rq e o Ha) as E.
  cbn [check_case]. rewrite E, (agreement_transfers_l rq e o Hx Hd (proj1 (model_eqb_spec rq e o) E)). reflexivity.
Qed.
