From V Require Import Base.Common Base.CommonLemmas Model.C03_Alloc.
From Coq Require Import Permutation Sorting.Sorted.
Open Scope Z_scope.

Lemma insert_perm rev x l : Permutation (insert rev x l) (x :: l).
Proof. induction l as [|y ys IH]; simpl; auto. destruct (lebm rev x y); auto.
  rewrite IH. apply perm_swap. Qed.
Lemma isort_perm rev l : Permutation (fold_right (insert rev) [] l) l.
Proof. induction l; simpl; auto. rewrite insert_perm. now constructor. Qed.

Definition lebm_p (rev : bool) (a b : N * N) : Prop := lebm rev a b = true.

Lemma lebm_total rev a b : lebm rev a b = false -> lebm rev b a = true.
Proof. unfold lebm. destruct rev; rewrite N.leb_gt; intros H; apply N.leb_le; lia. Qed.

Lemma insert_hdrel rev x a l : HdRel (lebm_p rev) a l -> lebm rev a x = true -> HdRel (lebm_p rev) a (insert rev x l).
Proof. intros H Hx. destruct l as [|y ys]; simpl.
  - constructor. exact Hx.
  - destruct (lebm rev x y); constructor; auto. inversion H; auto. Qed.

Lemma insert_sorted rev x l : Sorted (lebm_p rev) l -> Sorted (lebm_p rev) (insert rev x l).
Proof. induction l as [|y ys IH]; simpl; intros H.
  - repeat constructor.
  - destruct (lebm rev x y) eqn:E.
    + constructor; auto.
    + inversion H; subst. constructor; auto. apply insert_hdrel; auto. now apply lebm_total. Qed.

Lemma isort_sorted rev l : Sorted (lebm_p rev) (fold_right (insert rev) [] l).
Proof. induction l; simpl; [constructor|]. now apply insert_sorted. Qed.

Lemma keyed_incl now ms p v : In (p, v) (keyed now ms) ->
  exists m, In m ms /\ mpeer m = p /\ discard now m = false /\ mval m = Some v.
Proof.
  unfold keyed. rewrite in_flat_map. intros [m [Hm H]]. exists m. split; auto.
  destruct (discard now m) eqn:D; [inversion H|]. destruct (mval m) eqn:Vv; [|inversion H].
  destruct H as [H|[]]. inversion H; subst. auto.
Qed.

Lemma keyed_fst_incl now ms p : In p (map fst (keyed now ms)) -> In p (map mpeer ms).
Proof. rewrite in_map_iff. intros [[q v] [E H]]. simpl in E; subst. apply keyed_incl in H.
  destruct H as [m [A [B _]]]. subst. now apply in_map. Qed.

Lemma keyed_nodup now ms : NoDup (map mpeer ms) -> NoDup (map fst (keyed now ms)).
Proof. induction ms as [|m r IH]; simpl; intros H; [constructor|]. inversion H; subst.
  rewrite map_app. destruct (discard now m); simpl; auto. destruct (mval m); simpl; auto.
  constructor; auto. intros Hin. apply keyed_fst_incl in Hin. auto. Qed.

Lemma sort_numeric_perm now rev ms : Permutation (sort_numeric now rev ms) (map fst (keyed now ms)).
Proof. unfold sort_numeric, sort_keyed. apply Permutation_map. apply isort_perm. Qed.

Lemma sort_numeric_in now rev ms p : In p (sort_numeric now rev ms) ->
  exists m, In m ms /\ mpeer m = p /\ discard now m = false /\ mval m <> None.
Proof.
  intros H. apply (Permutation_in _ (sort_numeric_perm now rev ms)) in H.
  apply in_map_iff in H. destruct H as [[q v] [E H]]. simpl in E; subst.
  apply keyed_incl in H. destruct H as [m [A [B [C D]]]]. exists m. repeat split; auto. congruence.
Qed.

Lemma sort_numeric_nodup now rev ms : NoDup (map mpeer ms) -> NoDup (sort_numeric now rev ms).
Proof. intros H. eapply Permutation_NoDup; [symmetry; apply sort_numeric_perm|]. now apply keyed_nodup. Qed.

Lemma discard_false now m : discard now m = false -> mvalid m = true /\ now <= mexp m.
Proof. unfold discard. rewrite orb_false_iff, negb_false_iff, Z.ltb_ge. tauto. Qed.

Lemma latest_valid_in now ms m : In m (latest_valid now ms) <-> In m ms /\ discard now m = false.
Proof. unfold latest_valid. rewrite filter_In, negb_true_iff. tauto. Qed.

Lemma NoDup_map_filter {A B} (f : A -> B) (P : A -> bool) l : NoDup (map f l) -> NoDup (map f (filter P l)).
Proof. induction l as [|x xs IH]; simpl; intros H; [constructor|]. inversion H; subst.
  destruct (P x); simpl; auto. constructor; auto. intros Hin. apply in_map_iff in Hin.
  destruct Hin as [y [E Hy]]. apply filter_In in Hy. destruct Hy as [Hy _]. apply H2. rewrite <- E. now apply in_map. Qed.

Lemma NoDup_app_intro {A} (a b : list A) : NoDup a -> NoDup b -> (forall x, In x a -> ~ In x b) -> NoDup (a ++ b).
Proof. induction a as [|x xs IH]; simpl; intros Ha Hb Hd; auto. inversion Ha; subst. constructor.
  - intros Hin. apply in_app_or in Hin. destruct Hin; [auto|]. eapply Hd; eauto.
  - apply IH; auto. Qed.

Lemma filter_filter {A} (P Q : A -> bool) l : filter P (filter Q l) = filter (fun x => Q x && P x) l.
Proof. induction l as [|x xs IH]; simpl; auto. destruct (Q x); simpl; [destruct (P x)|]; simpl; congruence. Qed.

(* counting distinct peers through their (one per peer) metrics *)
Lemma count_holders (P : metric -> bool) ms (l : list N) :
  NoDup (map mpeer ms) -> NoDup l ->
  (forall p, In p l -> exists m, In m ms /\ mpeer m = p /\ P m = true) ->
  length (filter (fun m => P m && memN (mpeer m) l) ms) = length l.
Proof.
  intros Hms Hl Hex. rewrite <- (map_length mpeer). apply Permutation_length.
  apply NoDup_Permutation; auto. { now apply NoDup_map_filter. }
  intros p. rewrite in_map_iff. split.
  - intros [m [E Hm]]. apply filter_In in Hm. destruct Hm as [_ Hm]. apply andb_true_iff in Hm.
    destruct Hm as [_ Hm]. apply memN_in in Hm. congruence.
  - intros Hp. destruct (Hex p Hp) as [m [A [B C]]]. exists m. split; auto. apply filter_In. split; auto.
    rewrite C. simpl. apply memN_in. congruence.
Qed.

Section Alloc.
Variable now : Z.
Variable i : input.
Variable ord : list N -> list N.
Hypothesis Hord : forall xs, Permutation (ord xs) xs.
Hypothesis Hms : NoDup (map mpeer (metrics i)).

Let lm := latest_valid now (metrics i).
Let valid := valid_current now i ord.
Let final := new_candidates now i.
Let ncur := Z.of_nat (length valid).

(* p is a healthy holder: valid unexpired metric, not excluded *)
Definition healthy (p : N) : Prop :=
  exists m, In m (metrics i) /\ mpeer m = p /\ mvalid m = true /\ now <= mexp m /\ ~ In p (blacklist i).

Lemma lm_nodup : NoDup (map mpeer lm).
Proof. unfold lm, latest_valid. now apply NoDup_map_filter. Qed.

Lemma ncur_eq : ncur = ncur_of now i.
Proof. unfold ncur, valid, valid_current, ncur_of. rewrite (Permutation_length (Hord _)), map_length. reflexivity. Qed.

Lemma valid_in q : In q valid <-> exists m, In m (metrics i) /\ mpeer m = q /\ discard now m = false /\
                                   ~ In q (blacklist i) /\ In q (current i).
Proof. unfold valid, valid_current. split.
  - intros Hq. apply (Permutation_in _ (Hord _)) in Hq. apply in_map_iff in Hq.
    destruct Hq as [m [<- Hm]]. apply filter_In in Hm. destruct Hm as [Hl Hm].
    apply latest_valid_in in Hl. unfold is_cur in Hm. rewrite andb_true_iff, negb_true_iff, memN_false, memN_in in Hm.
    exists m. tauto.
  - intros [m [A [B [C [D E]]]]]. apply (Permutation_in _ (Permutation_sym (Hord _))).
    apply in_map_iff. exists m. split; auto. apply filter_In. split; [apply latest_valid_in; auto|].
    unfold is_cur. rewrite andb_true_iff, negb_true_iff, memN_false, memN_in. subst. tauto.
Qed.

Lemma valid_healthy q : In q valid <-> healthy q /\ In q (current i).
Proof. rewrite valid_in. unfold healthy. split.
  - intros [m [A [B [C [D E]]]]]. apply discard_false in C. split; auto. exists m. tauto.
  - intros [[m [A [B [C [D E]]]]] F]. exists m. repeat split; auto.
    unfold discard. rewrite C. simpl. apply Z.ltb_ge. lia.
Qed.

Lemma valid_nodup : NoDup valid.
Proof. unfold valid, valid_current. eapply Permutation_NoDup; [symmetry; apply Hord|]. apply NoDup_map_filter. apply lm_nodup. Qed.

Lemma final_in p : In p final <-> exists m, In m (metrics i) /\ mpeer m = p /\ discard now m = false /\ mval m <> None /\
                        ~ In p (blacklist i) /\ ~ In p (current i).
Proof. unfold final, new_candidates. split.
  - intros Hin. apply in_app_or in Hin.
    destruct Hin as [Hin|Hin]; apply sort_numeric_in in Hin; destruct Hin as [m [A [B [C D]]]];
      apply filter_In in A; destruct A as [A F]; apply latest_valid_in in A; exists m; subst.
    + unfold is_prio in F. rewrite !andb_true_iff, !negb_true_iff, !memN_false in F. tauto.
    + unfold is_cand in F. rewrite !andb_true_iff, !negb_true_iff, !memN_false in F. tauto.
  - intros [m [A [B [C [D [E F]]]]]]. apply in_or_app.
    assert (K : forall g, g m = true -> In m (filter g (latest_valid now (metrics i))) ->
                In p (sort_numeric now (rev i) (filter g (latest_valid now (metrics i))))).
    { intros g Hg Hin. apply (Permutation_in _ (Permutation_sym (sort_numeric_perm _ _ _))).
      apply in_map_iff. destruct (mval m) as [v|] eqn:Vm; [|congruence]. exists (p, v). split; auto.
      unfold keyed. apply in_flat_map. exists m. split; auto. rewrite C, Vm. left. congruence. }
    assert (L : In m (latest_valid now (metrics i))) by (apply latest_valid_in; auto).
    destruct (memN p (priority i)) eqn:Pp.
    + left. apply K; [|apply filter_In; split; auto]; unfold is_prio; subst p;
        rewrite !andb_true_iff, !negb_true_iff, !memN_false; tauto.
    + right. apply K; [|apply filter_In; split; auto]; unfold is_cand; subst p;
        rewrite !andb_true_iff, !negb_true_iff, !memN_false; rewrite memN_false in Pp; tauto.
Qed.

Lemma final_healthy p : In p final -> healthy p /\ ~ In p (current i) /\ exists m, In m (metrics i) /\ mpeer m = p /\ mval m <> None.
Proof. intros H. apply final_in in H. destruct H as [m [A [B [C [D [E F]]]]]]. apply discard_false in C.
  split; [exists m; tauto|]. split; auto. exists m. tauto. Qed.

Lemma final_nodup : NoDup final.
Proof. unfold final, new_candidates. apply NoDup_app_intro.
  - apply sort_numeric_nodup. apply NoDup_map_filter. apply lm_nodup.
  - apply sort_numeric_nodup. apply NoDup_map_filter. apply lm_nodup.
  - intros x Hx Hy. apply sort_numeric_in in Hx. apply sort_numeric_in in Hy.
    destruct Hx as [m [A [B _]]]. destruct Hy as [m' [A' [B' _]]].
    apply filter_In in A. apply filter_In in A'. destruct A as [_ A]. destruct A' as [_ A'].
    unfold is_prio in A. unfold is_cand in A'. rewrite !andb_true_iff, !negb_true_iff in *.
    destruct A as [_ A]. destruct A' as [_ A']. rewrite B in A. rewrite B' in A'. congruence.
Qed.

(* the four outcomes of allocate, as one characterisation *)
Lemma alloc_shape l : allocate now i ord = Ok l ->
  (rmin i < 0 /\ rmax i < 0 /\ l = []) \/
  (~ (rmin i < 0 /\ rmax i < 0) /\
   ((rmax i < ncur /\ l = firstn (Z.to_nat (rmax i)) valid) \/
    (ncur <= rmax i /\ rmin i <= ncur /\ l = current i) \/
    (ncur <= rmax i /\ ncur < rmin i /\ rmin i - ncur <= Z.of_nat (length final) /\
       l = valid ++ firstn (Z.to_nat (Z.min (rmax i - ncur) (Z.of_nat (length final)))) final))).
Proof.
  unfold allocate. destruct (rmin i + rmax i =? 0); [discriminate|].
  destruct (Z.ltb_spec (rmin i) 0) as [H1|H1]; destruct (Z.ltb_spec (rmax i) 0) as [H2|H2]; simpl;
    try (intros E; inversion E; subst; left; tauto).
  all: fold valid; fold ncur; fold final.
  all: destruct (Z.ltb_spec (rmax i - ncur) 0) as [W|W];
    [intros E; inversion E; subst; right; split; [lia|]; left; split; [lia|]; f_equal; lia|].
  all: destruct (Z.leb_spec (rmin i - ncur) 0) as [Nn|Nn];
    [intros E; inversion E; subst; right; split; [lia|]; right; left; repeat split; lia|].
  all: destruct (_ <? _); [discriminate|].
  all: destruct (Z.ltb_spec (Z.of_nat (length final)) (rmin i - ncur)) as [F|F]; [discriminate|].
  all: intros E; inversion E; subst; right; split; [lia|]; right; right; repeat split; lia.
Qed.

Theorem alloc_everywhere_l : rmin i < 0 -> rmax i < 0 -> allocate now i ord = Ok [].
Proof. intros A B. unfold allocate. destruct (Z.eqb_spec (rmin i + rmax i) 0); [lia|].
  destruct (Z.ltb_spec (rmin i) 0); [|lia]. destruct (Z.ltb_spec (rmax i) 0); [|lia]. reflexivity. Qed.

Theorem alloc_nodup_l l : NoDup (current i) -> allocate now i ord = Ok l -> NoDup l.
Proof. intros Hc H. apply alloc_shape in H.
  destruct H as [[_ [_ ->]]|[_ [[_ ->]|[[_ [_ ->]]|[_ [_ [_ ->]]]]]]].
  - constructor.
  - apply NoDup_firstn, valid_nodup.
  - exact Hc.
  - apply NoDup_app_intro; [apply valid_nodup | apply NoDup_firstn, final_nodup|].
    intros x Hx Hy. apply in_firstn in Hy. apply valid_healthy in Hx. apply final_healthy in Hy. tauto.
Qed.

Theorem alloc_new_are_healthy_l l p : allocate now i ord = Ok l -> In p l -> ~ In p (current i) ->
  healthy p /\ exists m, In m (metrics i) /\ mpeer m = p /\ mval m <> None.
Proof. intros H Hin Hn. apply alloc_shape in H.
  destruct H as [[_ [_ ->]]|[_ [[_ ->]|[[_ [_ ->]]|[_ [_ [_ ->]]]]]]].
  - destruct Hin.
  - apply in_firstn in Hin. apply valid_healthy in Hin. tauto.
  - tauto.
  - apply in_app_or in Hin. destruct Hin as [Hin|Hin].
    + apply valid_healthy in Hin. tauto.
    + apply in_firstn in Hin. apply final_healthy in Hin. tauto.
Qed.

Theorem alloc_keeps_healthy_current_l l : valid_factors (rmin i) (rmax i) -> allocate now i ord = Ok l ->
  (ncur <= rmax i -> forall p, healthy p -> In p (current i) -> In p l) /\
  (rmax i < ncur -> Z.of_nat (length l) = rmax i /\ forall p, In p l -> healthy p /\ In p (current i)).
Proof. intros [V1 V2] H. apply alloc_shape in H.
  destruct H as [[A _]|[_ [[A ->]|[[A [B ->]]|[A [B [C ->]]]]]]]; [lia| | |].
  - split; [lia|]. intros _. split.
    + rewrite firstn_length. fold ncur in A. unfold ncur in A. lia.
    + intros p Hp. apply in_firstn in Hp. now apply valid_healthy.
  - split; [|lia]. auto.
  - split; [|lia]. intros _ p Hp Hc. apply in_or_app. left. apply valid_healthy. tauto.
Qed.

Lemma holders_count l : NoDup l -> (forall p, In p l -> healthy p) -> healthy_count now i l = Z.of_nat (length l).
Proof. intros Hl Hh. unfold healthy_count, holders. f_equal. apply count_holders; auto.
  intros p Hp. destruct (Hh p Hp) as [m [A [B [C [D E]]]]]. exists m. repeat split; auto.
  unfold healthy_m, discard. rewrite C. simpl. rewrite andb_true_iff, !negb_true_iff, memN_false. split; [apply Z.ltb_ge; lia|congruence].
Qed.

Lemma holders_current : healthy_count now i (current i) = ncur.
Proof. rewrite ncur_eq. unfold healthy_count, holders, ncur_of, latest_valid. rewrite filter_filter. do 2 f_equal.
  apply filter_ext. intros m. unfold healthy_m, is_cur. now rewrite andb_assoc. Qed.

Theorem alloc_min_max_l l : valid_factors (rmin i) (rmax i) -> allocate now i ord = Ok l ->
  rmin i <= healthy_count now i l <= rmax i.
Proof. intros [V1 V2] H. pose proof H as H0. apply alloc_shape in H.
  destruct H as [[A _]|[_ [[A ->]|[[A [B ->]]|[A [B [C ->]]]]]]]; [lia| | |].
  - rewrite holders_count.
    + rewrite firstn_length. fold ncur in A. unfold ncur in A. lia.
    + apply NoDup_firstn, valid_nodup.
    + intros p Hp. apply in_firstn in Hp. now apply valid_healthy in Hp.
  - rewrite holders_current. lia.
  - rewrite holders_count.
    + rewrite app_length, firstn_length. fold ncur. unfold ncur in *. lia.
    + apply NoDup_app_intro; [apply valid_nodup | apply NoDup_firstn, final_nodup|].
      intros x Hx Hy. apply in_firstn in Hy. apply valid_healthy in Hx. apply final_healthy in Hy. tauto.
    + intros p Hp. apply in_app_or in Hp. destruct Hp as [Hp|Hp].
      * now apply valid_healthy in Hp.
      * apply in_firstn in Hp. now apply final_healthy in Hp.
Qed.

Theorem alloc_preference_l l : valid_factors (rmin i) (rmax i) -> allocate now i ord = Ok l -> ncur < rmin i ->
  exists k, l = valid ++ firstn k (new_candidates now i) /\ rmin i - ncur <= Z.of_nat k <= rmax i - ncur.
Proof. intros [V1 V2] H Hlt. apply alloc_shape in H.
  destruct H as [[A _]|[_ [[A _]|[[A [B _]]|[A [B [C ->]]]]]]]; try lia.
  exists (Z.to_nat (Z.min (rmax i - ncur) (Z.of_nat (length final)))). split; auto. lia. Qed.

Theorem alloc_nothing_new_when_enough_l l : valid_factors (rmin i) (rmax i) -> allocate now i ord = Ok l -> rmin i <= ncur ->
  forall p, In p l -> In p (current i).
Proof. intros [V1 V2] H Hge p Hp. apply alloc_shape in H.
  destruct H as [[A _]|[_ [[A ->]|[[A [B ->]]|[A [B _]]]]]]; try lia; auto.
  apply in_firstn in Hp. now apply valid_healthy in Hp. Qed.

Theorem alloc_fail_is_error_l : valid_factors (rmin i) (rmax i) ->
  (allocate now i ord = ErrNotEnough <-> ncur + Z.of_nat (length (new_candidates now i)) < rmin i) /\
  allocate now i ord <> ErrBadFactors.
Proof. intros [V1 V2]. unfold allocate. destruct (Z.eqb_spec (rmin i + rmax i) 0); [lia|].
  destruct (Z.ltb_spec (rmin i) 0); [lia|]. simpl. fold valid; fold ncur; fold final.
  assert (Hlen : Z.of_nat (length final) <= Z.of_nat (length (filter (is_cand i) (latest_valid now (metrics i))) + length (filter (is_prio i) (latest_valid now (metrics i))))).
  { unfold final, new_candidates. rewrite app_length.
    assert (K : forall ms, (length (sort_numeric now (rev i) ms) <= length ms)%nat).
    { intros ms. rewrite (Permutation_length (sort_numeric_perm _ _ _)), map_length. unfold keyed.
      induction ms as [|m r IH]; simpl; auto. rewrite app_length. destruct (discard now m); simpl; [lia|].
      destruct (mval m); simpl; lia. }
    pose proof (K (filter (is_prio i) (latest_valid now (metrics i)))).
    pose proof (K (filter (is_cand i) (latest_valid now (metrics i)))). lia. }
  destruct (Z.ltb_spec (rmax i - ncur) 0); [split; [split; [discriminate|lia]|discriminate]|].
  destruct (Z.leb_spec (rmin i - ncur) 0); [split; [split; [discriminate|lia]|discriminate]|].
  destruct (Z.ltb_spec (Z.of_nat (length (filter (is_cand i) (latest_valid now (metrics i))) + length (filter (is_prio i) (latest_valid now (metrics i))))) (rmin i - ncur)).
  { split; [split; [lia|reflexivity]|discriminate]. }
  destruct (Z.ltb_spec (Z.of_nat (length final)) (rmin i - ncur)); (split; [split; [try discriminate; lia|try reflexivity; lia]|discriminate]).
Qed.
End Alloc.

(* the allocator's order: each group is sorted by value in the strategy's direction and contains
   exactly the healthy numeric peers of the group *)
Lemma sort_keyed_sorted now rev ms : Sorted (lebm_p rev) (sort_keyed now rev ms).
Proof. apply isort_sorted. Qed.
